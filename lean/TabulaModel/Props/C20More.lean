import TabulaModel.Props.C20Fun
/-!
# C20, further all-input laws of the existing models

* `filepath.Ext` exactly: the extension of EVERY name is a suffix of the name of the shape
  dot + (no dot, no slash), or empty — the converse of `ext_append`; `Ext` and `format.Detect`
  look at the LAST path element only (any directory in front, with dots or without), taking
  the extension twice changes nothing, a trailing slash means no format.
* `detectHTMLMagic` exactly, as a language: the set of accepted byte strings (an iff with the
  three fronts written out), letter-case independence on every byte string, any white lead.
* `DetectFromReader` is a function of the first 512 bytes and of the member list; a white
  lead of 512 bytes or more is never classified.
* the DRM gate is a disjunction over the members / over the entries: appending, the member
  SET decides (duplicates, order), adding a member or an entry never turns a refusal into
  an admission.
* no file is a valid document of two formats.
-/
set_option autoImplicit false
namespace Tabula.C20M
open Tabula.Detect Tabula.Drm Tabula.Admit Tabula.EncXml Tabula.DetectB Tabula.C20 Tabula.C20A Tabula.C20B

/-! ## `filepath.Ext`, every name -/

/-- the loop of `filepath.Ext`: either no extension, or it stopped at the first dot, having
walked over bytes that are neither dot nor slash -/
theorem extRev_forms (s acc : Str) :
    extRev s acc = [] ∨ ∃ a rest, s = a ++ 46 :: rest ∧ (∀ c ∈ a, c ≠ 46 ∧ c ≠ 47) ∧
      extRev s acc = 46 :: (a.reverse ++ acc) := by
  induction s generalizing acc with
  | nil => exact Or.inl rfl
  | cons c rest ih =>
    by_cases h47 : c = 47
    · left; simp [extRev, h47]
    · by_cases h46 : c = 46
      · subst h46
        right; exact ⟨[], rest, by simp, by simp, by simp [extRev]⟩
      · have e : extRev (c :: rest) acc = extRev rest (c :: acc) := by simp [extRev, h47, h46]
        rcases ih (c :: acc) with h | ⟨a, r, hs, ha, he⟩
        · left; rw [e, h]
        · right
          refine ⟨c :: a, r, by simp [hs], ?_, ?_⟩
          · intro x hx
            rcases List.mem_cons.1 hx with rfl | hx
            · exact ⟨h46, h47⟩
            · exact ha x hx
          · rw [e, he]; simp

/-- `ext_forms`: the converse of `ext_append`.  For EVERY name, `filepath.Ext` is either
empty or the name ends in dot + `t` with neither dot nor slash in `t`, and that is the
extension. -/
theorem ext_forms (name : Str) :
    ext name = [] ∨ ∃ stem t, name = stem ++ 46 :: t ∧ (∀ c ∈ t, c ≠ 46 ∧ c ≠ 47) ∧ ext name = 46 :: t := by
  unfold ext
  rcases extRev_forms name.reverse [] with h | ⟨a, r, hs, ha, he⟩
  · exact Or.inl h
  · right
    refine ⟨r.reverse, a.reverse, ?_, ?_, ?_⟩
    · have := congrArg List.reverse hs
      rw [List.reverse_reverse] at this
      simpa using this
    · intro c hc; exact ha c (List.mem_reverse.1 hc)
    · simpa using he

/-- `ext_is_suffix`: the extension is a suffix of the name -/
theorem ext_is_suffix (name : Str) : ∃ stem, name = stem ++ ext name := by
  rcases ext_forms name with h | ⟨stem, t, hn, _, he⟩
  · exact ⟨name, by rw [h]; simp⟩
  · exact ⟨stem, by rw [he]; exact hn⟩

/-- `ext_nil_iff`: a name has NO extension exactly when it does not end in dot + bytes
without dot and slash -/
theorem ext_nil_iff (name : Str) :
    ext name = [] ↔ ¬ ∃ stem t, name = stem ++ 46 :: t ∧ ∀ c ∈ t, c ≠ 46 ∧ c ≠ 47 := by
  constructor
  · rintro h ⟨stem, t, hn, ht⟩
    rw [hn, ext_append stem t ht] at h
    cases h
  · intro h
    rcases ext_forms name with h0 | ⟨stem, t, hn, ht, _⟩
    · exact h0
    · exact absurd ⟨stem, t, hn, ht⟩ h

/-- `ext_idempotent`: the extension of an extension is itself -/
theorem ext_idempotent (name : Str) : ext (ext name) = ext name := by
  rcases ext_forms name with h | ⟨_, t, _, ht, he⟩
  · rw [h]; rfl
  · rw [he]; exact ext_append [] t ht

/-- `detect_of_ext`: `format.Detect` of a name is `format.Detect` of its extension alone
(a file called just `.pdf` asks for PDF) -/
theorem detect_of_ext (name : Str) : detect (ext name) = detect name := by
  unfold detect; rw [ext_idempotent]

theorem extRev_slash (b r acc : Str) (hb : ∀ c ∈ b, c ≠ 47) :
    extRev (b ++ 47 :: r) acc = extRev b acc := by
  induction b generalizing acc with
  | nil => simp [extRev]
  | cons c b ih =>
    have h47 : c ≠ 47 := hb c (by simp)
    have hb' : ∀ x ∈ b, x ≠ 47 := fun x hx => hb x (by simp [hx])
    by_cases h46 : c = 46
    · subst h46; simp [extRev]
    · simp only [List.cons_append, extRev, h47, h46, if_false]
      exact ih _ hb'

/-- `ext_dir_independent`: `filepath.Ext` looks at the last path element only — whatever
directory is put in front (with dots in it or not) -/
theorem ext_dir_independent (dir base : Str) (hb : ∀ c ∈ base, c ≠ 47) :
    ext (dir ++ 47 :: base) = ext base := by
  unfold ext
  have : (dir ++ 47 :: base).reverse = base.reverse ++ 47 :: dir.reverse := by simp
  rw [this, extRev_slash base.reverse dir.reverse [] (by simpa using hb)]

/-- `detect_dir_independent`: the format a name asks for is that of its last path element:
the same file reached through any directory asks for the same format -/
theorem detect_dir_independent (dir base : Str) (hb : ∀ c ∈ base, c ≠ 47) :
    detect (dir ++ 47 :: base) = detect base := by
  unfold detect; rw [ext_dir_independent dir base hb]

example : detect ([97, 46, 112, 100, 102, 47] ++ [98, 46, 100, 111, 99, 120]) = .docx := by decide

/-- `detect_trailing_slash`: a name that ends in a slash asks for no format -/
theorem detect_trailing_slash (name : Str) : detect (name ++ [47]) = .unknown := by
  have := detect_dir_independent name [] (by simp)
  rw [this]; rfl

/-- `open_dir_independent`: `tabula.Open(dir/base).<op>()` ends like `tabula.Open(base).<op>()`
on the same bytes -/
theorem open_dir_independent (dir base : Str) (hne : base ≠ []) (hb : ∀ c ∈ base, c ≠ 47)
    (fs : FileState) (k : TKind) :
    (openAndRun (dir ++ 47 :: base) fs k).out = (openAndRun base fs k).out :=
  open_same_format_same_outcome _ _ (by simp) hne (detect_dir_independent dir base hb) fs k

/-! ## `detectHTMLMagic` as a language -/

/-- `strings.Contains`, exactly -/
theorem hasSub_iff (pat s : Str) : hasSub pat s = true ↔ ∃ a b, s = a ++ (pat ++ b) := by
  induction s with
  | nil =>
    simp only [hasSub]
    constructor
    · intro h
      exact ⟨[], [], by simp [List.isEmpty_iff.1 h]⟩
    · rintro ⟨a, b, h⟩
      have h' := h.symm
      simp only [List.append_eq_nil_iff] at h'
      simp [h'.2.1]
  | cons c cs ih =>
    simp only [hasSub, Bool.or_eq_true]
    constructor
    · rintro (h | h)
      · obtain ⟨b, hb⟩ := List.isPrefixOf_iff_prefix.1 h
        exact ⟨[], b, by simpa using hb.symm⟩
      · obtain ⟨a, b, hab⟩ := ih.1 h
        exact ⟨c :: a, b, by simp [hab]⟩
    · rintro ⟨a, b, h⟩
      cases a with
      | nil =>
        left; rw [h]; simp only [List.nil_append]; exact isPrefixOf_append_self _ _
      | cons x a =>
        right; apply ih.2
        simp only [List.cons_append, List.cons.injEq] at h
        exact ⟨a, b, h.2⟩

theorem mem_takeWhile_ws (r : Str) (c : Nat) (hc : c ∈ r.takeWhile isMagicWS) : isMagicWS c = true := by
  induction r with
  | nil => simp at hc
  | cons x r ih =>
    by_cases hx : isMagicWS x = true
    · simp only [List.takeWhile_cons, hx, if_true, List.mem_cons] at hc
      rcases hc with rfl | hc
      · exact hx
      · exact ih hc
    · simp [hx] at hc

theorem dropWhile_all_ws (r : Str) (h : ∀ c ∈ r, isMagicWS c = true) : r.dropWhile isMagicWS = [] := by
  induction r with
  | nil => rfl
  | cons x r ih =>
    have hx := h x (by simp)
    simp only [List.dropWhile_cons, hx, if_true]
    exact ih (fun c hc => h c (by simp [hc]))

/-- `format.isHTMLDoctype`, exactly: `<!DOCTYPE`, a NON-EMPTY run of HTML white space,
`HTML`, anything — and nothing else -/
theorem isHTMLDoctype_iff (u : Str) :
    isHTMLDoctype u = true ↔ ∃ ws rest, ws ≠ [] ∧ (∀ c ∈ ws, isMagicWS c = true) ∧
      u = sDoctype ++ (ws ++ (sHtmlName ++ rest)) := by
  constructor
  · intro h
    unfold isHTMLDoctype at h
    simp only [Bool.and_eq_true, decide_eq_true_eq] at h
    obtain ⟨hp, hlt, hn⟩ := h
    obtain ⟨r, hr⟩ := List.isPrefixOf_iff_prefix.1 hp
    subst hr
    rw [List.drop_left] at hlt hn
    obtain ⟨rest, hrest⟩ := List.isPrefixOf_iff_prefix.1 hn
    refine ⟨r.takeWhile isMagicWS, rest, ?_, ?_, ?_⟩
    · intro he
      have := List.takeWhile_append_dropWhile (p := isMagicWS) (l := r)
      rw [he] at this; simp only [List.nil_append] at this
      rw [this] at hlt; exact absurd hlt (Nat.lt_irrefl _)
    · intro c hc; exact mem_takeWhile_ws r c hc
    · rw [hrest, List.takeWhile_append_dropWhile]
  · rintro ⟨ws, rest, hne, hws, rfl⟩
    exact isHTMLDoctype_ws ws rest hne hws

/-- the three accepted fronts of `detectHTMLMagic`, on the upper-cased text -/
def htmlFront (u : Str) : Bool :=
  isHTMLDoctype u || sHtmlTag.isPrefixOf u || (sXmlDecl.isPrefixOf u && hasSub sHtmlTag (u.take 500))

/-- `detectHTMLMagic` is the front test on what follows the white lead, upper-cased (the
empty-input branch is not a case of its own) -/
theorem html_magic_eq_front (data : Str) :
    detectHTMLMagic data = htmlFront (upper (data.dropWhile isMagicWS)) := by
  unfold detectHTMLMagic
  cases h : data.dropWhile isMagicWS with
  | nil => decide
  | cons c t =>
    simp only [List.isEmpty_cons, Bool.false_eq_true, if_false, htmlFront]
    cases isHTMLDoctype (upper (c :: t)) <;> cases sHtmlTag.isPrefixOf (upper (c :: t)) <;>
      cases (sXmlDecl.isPrefixOf (upper (c :: t)) && hasSub sHtmlTag ((upper (c :: t)).take 500)) <;>
      first | rfl | simp

theorem upper_head_lt (d x : Str) (h : upper d = 60 :: x) : ∃ t, d = 60 :: t := by
  cases d with
  | nil => simp [upper] at h
  | cons c t =>
    have hu : upper (c :: t) = upperB c :: upper t := rfl
    rw [hu] at h
    have := (List.cons.inj h).1
    exact ⟨t, by rw [upperB_eq_lt c this]⟩

/-- `html_magic_iff`: the language of `detectHTMLMagic`.  A byte string is HTML for the
sniffer IFF it is HTML white space followed by text whose ASCII upper-casing is
`<!DOCTYPE` + non-empty white space + `HTML` + anything, or `<HTML` + anything, or
`<?XML` + anything with `<HTML` somewhere in its first 500 bytes. -/
theorem html_magic_iff (data : Str) :
    detectHTMLMagic data = true ↔
      ∃ lead d, data = lead ++ d ∧ (∀ c ∈ lead, isMagicWS c = true) ∧
        ((∃ ws rest, ws ≠ [] ∧ (∀ c ∈ ws, isMagicWS c = true) ∧
            upper d = sDoctype ++ (ws ++ (sHtmlName ++ rest))) ∨
         (∃ rest, upper d = sHtmlTag ++ rest) ∨
         (∃ rest a b, upper d = sXmlDecl ++ rest ∧ (upper d).take 500 = a ++ (sHtmlTag ++ b))) := by
  constructor
  · intro h
    rw [html_magic_eq_front] at h
    obtain ⟨ws, hsplit, hws⟩ := split_ws data
    refine ⟨ws, data.dropWhile isMagicWS, hsplit, hws, ?_⟩
    unfold htmlFront at h
    simp only [Bool.or_eq_true, Bool.and_eq_true] at h
    rcases h with (h | h) | ⟨h1, h2⟩
    · exact Or.inl ((isHTMLDoctype_iff _).1 h)
    · obtain ⟨rest, hr⟩ := List.isPrefixOf_iff_prefix.1 h
      exact Or.inr (Or.inl ⟨rest, hr.symm⟩)
    · obtain ⟨rest, hr⟩ := List.isPrefixOf_iff_prefix.1 h1
      obtain ⟨a, b, hab⟩ := (hasSub_iff _ _).1 h2
      exact Or.inr (Or.inr ⟨rest, a, b, hr.symm, hab⟩)
  · rintro ⟨lead, d, rfl, hl, h⟩
    have hd : ∃ t, d = 60 :: t := by
      rcases h with ⟨ws, rest, _, _, hu⟩ | ⟨rest, hu⟩ | ⟨rest, _, _, hu, _⟩
      · exact upper_head_lt d _ hu
      · exact upper_head_lt d _ hu
      · exact upper_head_lt d _ hu
    obtain ⟨t, rfl⟩ := hd
    rw [html_magic_eq_front, dropWhile_ws lead t hl 60 (by decide)]
    unfold htmlFront
    simp only [Bool.or_eq_true, Bool.and_eq_true]
    rcases h with ⟨ws, rest, hne, hws, hu⟩ | ⟨rest, hu⟩ | ⟨rest, a, b, hu, ht⟩
    · exact Or.inl (Or.inl ((isHTMLDoctype_iff _).2 ⟨ws, rest, hne, hws, hu⟩))
    · exact Or.inl (Or.inr (by rw [hu]; exact isPrefixOf_append_self _ _))
    · exact Or.inr ⟨by rw [hu]; exact isPrefixOf_append_self _ _, (hasSub_iff _ _).2 ⟨a, b, ht⟩⟩

theorem dropWhile_ws_append (ws data : Str) (hws : ∀ c ∈ ws, isMagicWS c = true) :
    (ws ++ data).dropWhile isMagicWS = data.dropWhile isMagicWS := by
  induction ws with
  | nil => rfl
  | cons w ws ih =>
    have := hws w (by simp)
    simp only [List.cons_append, List.dropWhile_cons, this, if_true]
    exact ih (fun x hx => hws x (by simp [hx]))

/-- `html_magic_white_lead`: HTML white space in front — of any length, in any mixture —
never changes the answer of `detectHTMLMagic`, accepted or not -/
theorem html_magic_white_lead (ws data : Str) (hws : ∀ c ∈ ws, isMagicWS c = true) :
    detectHTMLMagic (ws ++ data) = detectHTMLMagic data := by
  rw [html_magic_eq_front, html_magic_eq_front, dropWhile_ws_append ws data hws]

example : ∀ c ∈ [32, 9, 10, 12, 13], isMagicWS c = true := by decide

theorem isMagicWS_upperB (c : Nat) : isMagicWS (upperB c) = isMagicWS c := by
  unfold upperB
  split
  · next h =>
    have h1 : isMagicWS (c - 32) = false := by unfold isMagicWS; simp; omega
    have h2 : isMagicWS c = false := by unfold isMagicWS; simp; omega
    rw [h1, h2]
  · rfl

theorem upper_dropWhile (s : Str) : upper (s.dropWhile isMagicWS) = (upper s).dropWhile isMagicWS := by
  induction s with
  | nil => rfl
  | cons c s ih =>
    have hu : upper (c :: s) = upperB c :: upper s := rfl
    rw [hu]
    simp only [List.dropWhile_cons, isMagicWS_upperB]
    by_cases hc : isMagicWS c = true
    · simp only [hc, if_true]; exact ih
    · simp only [hc, if_false, Bool.false_eq_true]; exact hu

/-- `html_magic_case_independent`: on EVERY two byte strings that differ in ASCII letter
case only, `detectHTMLMagic` (ASCII model) answers the same — not only on the accepted ones -/
theorem html_magic_case_independent (a b : Str) (h : upper a = upper b) :
    detectHTMLMagic a = detectHTMLMagic b := by
  rw [html_magic_eq_front, html_magic_eq_front, upper_dropWhile, upper_dropWhile, h]

example : upper [60, 104, 84, 109, 108] = upper [60, 72, 116, 77, 76] := by decide

/-! ## `DetectFromReader`: the 512-byte window -/

/-- `detect_reader_window`: two files with the same first 512 bytes and the same member
list are classified alike, whatever follows -/
theorem detect_reader_window (file file2 : Str) (zip : Option (List Member))
    (h : file.take 512 = file2.take 512) : detectFromReader file zip = detectFromReader file2 zip := by
  unfold detectFromReader
  simp only [h]

example : ([37, 80, 68, 70] ++ [1]).take 512 = ([37, 80, 68, 70] ++ [1] ++ []).take 512 := by decide

/-- `detect_reader_tail_inert`: bytes behind the first 512 are never looked at -/
theorem detect_reader_tail_inert (head tail : Str) (zip : Option (List Member)) (hlen : 512 ≤ head.length) :
    detectFromReader (head ++ tail) zip = detectFromReader head zip :=
  detect_reader_window _ _ zip (by rw [List.take_append_of_le_length hlen])

/-- `detect_reader_long_white_lead_unclassified`: a document behind 512 or more bytes of
HTML white space is not classified (and therefore admitted by extension alone) — the
window of `DetectFromReader` ends before its first byte -/
theorem detect_reader_long_white_lead_unclassified (ws rest : Str) (zip : Option (List Member))
    (hws : ∀ c ∈ ws, isMagicWS c = true) (hlen : 512 ≤ ws.length) :
    detectFromReader (ws ++ rest) zip = some .unknown := by
  rw [detect_reader_tail_inert ws rest zip hlen]
  cases ws with
  | nil => simp at hlen
  | cons w t =>
    have hw := isMagicWS_ne w (hws w (by simp))
    have hall : ∀ c ∈ (w :: t).take 512, isMagicWS c = true := fun c hc => hws c (List.mem_of_mem_take hc)
    have h1 : sPdfMagic.isPrefixOf ((w :: t).take 512) = false :=
      isPrefixOf_head_ne _ _ _ _ (fun h => hw.2.1 h.symm)
    have h2 : sZipMagic.isPrefixOf ((w :: t).take 512) = false :=
      isPrefixOf_head_ne _ _ _ _ (fun h => hw.2.2 h.symm)
    have h3 : detectHTMLMagic ((w :: t).take 512) = false := by
      rw [html_magic_eq_front, dropWhile_all_ws _ hall]; decide
    unfold detectFromReader
    simp only [h1, h2, h3, Bool.false_eq_true, if_false]

example : ∀ c ∈ List.replicate 512 32, isMagicWS c = true := by
  intro c hc; rw [List.eq_of_mem_replicate hc]; decide

/-! ## the DRM gate is a disjunction -/

/-- `drm_append`: the gate over two runs of members is the disjunction of the gates -/
theorem drm_append (a b : List DMember) : checkForDRM (a ++ b) = (checkForDRM a || checkForDRM b) := by
  simp only [checkForDRM_eq_any, List.any_append]

/-- `enc_entries_append`: so is the loop over the entries of one encryption file -/
theorem enc_entries_append (a b : List Entry) :
    hasEncryptedContent (a ++ b) = (hasEncryptedContent a || hasEncryptedContent b) := by
  simp only [hasEncryptedContent_eq_any, List.any_append]

/-- `drm_member_set_decides`: the decision depends on the SET of classified members only —
order, repetitions and multiplicities are irrelevant (stronger than permutation invariance) -/
theorem drm_member_set_decides (ms ms2 : List DMember) (h : ∀ m, m ∈ ms ↔ m ∈ ms2) :
    checkForDRM ms = checkForDRM ms2 := by
  rw [checkForDRM_eq_any, checkForDRM_eq_any, Bool.eq_iff_iff, List.any_eq_true, List.any_eq_true]
  exact ⟨fun ⟨m, hm, hb⟩ => ⟨m, (h m).1 hm, hb⟩, fun ⟨m, hm, hb⟩ => ⟨m, (h m).2 hm, hb⟩⟩

example : ∀ m, m ∈ [DMember.rights, .other] ↔ m ∈ [DMember.other, .rights, .rights] := by
  intro m; simp [or_comm]

/-- `drm_monotone`: adding archive members — anywhere — never turns a refusal into an
admission -/
theorem drm_monotone (ms ms2 : List DMember) (hsub : ∀ m ∈ ms, m ∈ ms2) (h : checkForDRM ms = true) :
    checkForDRM ms2 = true := by
  rw [checkForDRM_eq_any, List.any_eq_true] at h ⊢
  obtain ⟨m, hm, hb⟩ := h
  exact ⟨m, hsub m hm, hb⟩

example : ∀ m ∈ [DMember.rights], m ∈ [DMember.other, .rights] := by simp

/-- `enc_entries_monotone`: adding entries to an encryption file never turns a refusal into
an admission (there is no entry that "unlocks" another) -/
theorem enc_entries_monotone (es es2 : List Entry) (hsub : ∀ e ∈ es, e ∈ es2)
    (h : hasEncryptedContent es = true) : hasEncryptedContent es2 = true := by
  rw [hasEncryptedContent_eq_any, List.any_eq_true] at h ⊢
  obtain ⟨e, he, hb⟩ := h
  exact ⟨e, hsub e he, hb⟩

example : hasEncryptedContent [⟨[1], [97, 46, 120, 109, 108]⟩] = true := by decide

/-- `drm_entries_monotone_in_archive`: the same inside an archive: enlarging the entry list
of one encryption member keeps a refused EPUB refused -/
theorem drm_entries_monotone_in_archive (es es2 : List Entry) (hsub : ∀ e ∈ es, e ∈ es2) (a b : List DMember)
    (h : checkForDRM (a ++ .encryption (some es) :: b) = true) :
    checkForDRM (a ++ .encryption (some es2) :: b) = true := by
  simp only [checkForDRM_eq_any, List.any_append, List.any_cons, memberBad, Bool.or_eq_true] at h ⊢
  rcases h with h | h | h
  · exact Or.inl h
  · exact Or.inr (Or.inl (enc_entries_monotone es es2 hsub h))
  · exact Or.inr (Or.inr h)

/-! ## one format per file -/

/-- `valid_document_one_format`: no (head, archive) is a valid document of two formats -/
theorem valid_document_one_format {f g : Format} {head : Str} {zip : Option (List AMember)}
    (hf : ValidDoc f head zip) (hg : ValidDoc g head zip) : f = g := by
  have h1 := valid_document_recognised hf
  have h2 := valid_document_recognised hg
  rw [h1] at h2
  exact Option.some.inj h2

example : ValidDoc .pdf (sPdfMagic ++ []) none := ValidDoc.pdf [] none

/-! ## the three magic tests exclude each other: their order is immaterial -/

/-- what `detectHTMLMagic` accepts starts neither like a PDF nor like a ZIP archive -/
theorem html_magic_excludes_pdf_zip (data : Str) (h : detectHTMLMagic data = true) :
    sPdfMagic.isPrefixOf data = false ∧ sZipMagic.isPrefixOf data = false := by
  obtain ⟨lead, d, rfl, hl, hf⟩ := (html_magic_iff data).1 h
  have hd : ∃ t, d = 60 :: t := by
    rcases hf with ⟨ws, rest, _, _, hu⟩ | ⟨rest, hu⟩ | ⟨rest, _, _, hu, _⟩
    · exact upper_head_lt d _ hu
    · exact upper_head_lt d _ hu
    · exact upper_head_lt d _ hu
  obtain ⟨t, rfl⟩ := hd
  cases lead with
  | nil => exact ⟨isPrefixOf_head_ne _ _ _ _ (by decide), isPrefixOf_head_ne _ _ _ _ (by decide)⟩
  | cons w ws =>
    have hw := isMagicWS_ne w (hl w (by simp))
    exact ⟨isPrefixOf_head_ne _ _ _ _ (fun e => hw.2.1 e.symm), isPrefixOf_head_ne _ _ _ _ (fun e => hw.2.2 e.symm)⟩

/-- a file that starts `%PDF` does not start with a ZIP local header -/
theorem pdf_magic_excludes_zip (data : Str) (h : sPdfMagic.isPrefixOf data = true) :
    sZipMagic.isPrefixOf data = false := by
  cases data with
  | nil => simp [sPdfMagic, List.isPrefixOf] at h
  | cons c t =>
    simp only [sPdfMagic, List.isPrefixOf, Bool.and_eq_true, beq_iff_eq] at h
    exact isPrefixOf_head_ne _ _ _ _ (by rw [← h.1]; decide)

/-- `DetectFromReader` with its three tests in the opposite order: HTML first, PDF last -/
def detectFromReaderHtmlFirst (file : Str) (zip : Option (List Member)) : Option Format :=
  let magic := file.take 512
  if detectHTMLMagic magic then some .html
  else if sZipMagic.isPrefixOf magic then zip.map detectZip
  else if sPdfMagic.isPrefixOf magic then some .pdf
  else some .unknown

/-- `detect_reader_test_order_immaterial`: because the three magic tests exclude each other
on every byte string, `DetectFromReader` answers the same with its tests in any order —
no polyglot head is PDF for one order and HTML or ZIP for another -/
theorem detect_reader_test_order_immaterial (file : Str) (zip : Option (List Member)) :
    detectFromReader file zip = detectFromReaderHtmlFirst file zip := by
  unfold detectFromReader detectFromReaderHtmlFirst
  generalize file.take 512 = m
  by_cases hh : detectHTMLMagic m = true
  · obtain ⟨hp, hz⟩ := html_magic_excludes_pdf_zip m hh
    simp [hh, hp, hz]
  · by_cases hp : sPdfMagic.isPrefixOf m = true
    · have hz := pdf_magic_excludes_zip m hp
      simp [hh, hp, hz]
    · cases zip <;> simp [hh, hp]

/-! ## on the bytes -/

/-- `detect_bytes_dir_independent`: `format.Detect` on arbitrary bytes (real `strings.ToLower`,
any case tables with `LowerOK`) asks the last path element only -/
theorem detect_bytes_dir_independent (lo : CaseTable) (h : LowerOK lo) (dir base : Str)
    (hb : ∀ c ∈ base, c ≠ 47) : detectB lo (dir ++ 47 :: base) = detectB lo base := by
  rw [ext_table_all_bytes lo h, ext_table_all_bytes lo h, detect_dir_independent dir base hb]

/-- `detect_bytes_of_ext`: … and the extension alone -/
theorem detect_bytes_of_ext (lo : CaseTable) (h : LowerOK lo) (name : Str) :
    detectB lo (ext name) = detectB lo name := by
  rw [ext_table_all_bytes lo h, ext_table_all_bytes lo h, detect_of_ext]

/-! ## font-obfuscation entries are inert -/

/-- `drm_obfuscation_entries_inert`: striking every font-obfuscation entry out of an
encryption file — wherever they stand, whatever they cover — never changes the decision -/
theorem drm_obfuscation_entries_inert (es : List Entry) :
    hasEncryptedContent (es.filter fun e => !isFontObfuscation e.algorithm) = hasEncryptedContent es := by
  induction es with
  | nil => rfl
  | cons e es ih =>
    cases h : isFontObfuscation e.algorithm <;> simp [List.filter_cons, h, hasEncryptedContent, ih]

/-- `drm_non_content_entries_inert`: the same for the entries that cover no content document
(fonts, images, …), whatever their algorithm -/
theorem drm_non_content_entries_inert (es : List Entry) :
    hasEncryptedContent (es.filter fun e => isContentFile e.uri) = hasEncryptedContent es := by
  rw [hasEncryptedContent_eq_any, hasEncryptedContent_eq_any]
  induction es with
  | nil => rfl
  | cons e es ih =>
    cases h : isContentFile e.uri <;> simp [List.filter_cons, h, entryBad, ih]

end Tabula.C20M
