import TabulaModel.Model.ChunkDoc
import TabulaModel.Props.C12Compose
import TabulaModel.Props.C12Intro
import TabulaModel.Props.C12Meta
/-!
# C12: from one `model.Document` to the chunks of both chunkers

`Model/ChunkDoc.lean` models the document value both public entry points take (`Elements` and
`Layout` as independent fields of a page, the title, `nil`) and what each chunker reads of it.

* `api_nil`: a `nil` document gives the empty collection / an error;
* `element_reads`, `layout_reads`: the element-based chunker's chunks depend on page numbers,
  `Elements` and `Layout.Headings` only; the layout-based chunker's on page numbers, `Layout` and the
  title only — whatever else differs between two documents, the chunks are the same;
* `document_property`: the statement of the property for both chunkers on one document — every
  size configuration, every chunker configuration, every document (cover of the element-based
  chunker for documents whose paragraphs have ASCII white space only, page range of the
  layout-based one for pages numbered upwards; everything else unconditionally).
-/
namespace Tabula.C12Doc
open Tabula.Chunk Tabula.ChunkLayout Tabula.ChunkDoc Tabula.ChunkSplit Tabula.ChunkIntro Tabula.ChunkSent

/-- **`nil` document**: `rag.ChunkDocument(nil)` is the empty collection, `Chunker.Chunk(nil)` an error. -/
theorem api_nil (c : Tabula.Split.SizeConfig) (low : Str → Bool) (cfg : Cfg) :
    chunkDocumentAPI c none = [] ∧ chunkerChunkAPI low cfg none = .error () := ⟨rfl, rfl⟩

/-- **What the element-based chunker reads**: two documents with the same page numbers, the same
`Elements` and the same `Layout.Headings` (and `nil` layouts on the same pages) give the same chunks —
`Layout.Paragraphs`, `Layout.Lists` and the title are not read. -/
theorem element_reads (c : Tabula.Split.SizeConfig) (m m' : MDoc)
    (h : m.pages.map (fun pg => (pg.number, pg.elems, pg.layout.map (·.headings))) =
         m'.pages.map (fun pg => (pg.number, pg.elems, pg.layout.map (·.headings)))) :
    chunkDocumentAPI c (some m) = chunkDocumentAPI c (some m') := by
  have e : ∀ x : MDoc, toDoc x =
      (x.pages.map (fun pg => (pg.number, pg.elems, pg.layout.map (·.headings)))).map
        (fun t : Int × List Elem × Option (List (Int × Str)) => (⟨t.1, t.2.2, t.2.1⟩ : Page)) := by
    intro x; simp [toDoc, List.map_map, Function.comp_def]
  simp only [chunkDocumentAPI, e, h]

/-- **What the layout-based chunker reads**: two documents with the same title, page numbers and
`Layout`s give the same chunks — `Elements` are not read. -/
theorem layout_reads (low : Str → Bool) (cfg : Cfg) (m m' : MDoc) (ht : m.title = m'.title)
    (h : m.pages.map (fun pg => (pg.number, pg.layout)) = m'.pages.map (fun pg => (pg.number, pg.layout))) :
    chunkerChunkAPI low cfg (some m) = chunkerChunkAPI low cfg (some m') := by
  have e : ∀ x : MDoc, toLDoc x =
      (x.pages.map (fun pg => (pg.number, pg.layout))).map
        (fun t : Int × Option MLayout => (⟨t.1, t.2.map fun lay =>
          ⟨lay.headings.map fun h => ⟨h.1, h.2, []⟩, lay.paras.map fun t => ⟨t, false, []⟩, lay.lists.map fun l => ⟨l, []⟩⟩⟩ : LPage)) := by
    intro x; simp [toLDoc, List.map_map, Function.comp_def]
  simp only [chunkerChunkAPI, e, h, ht]

/-- a page whose `Elements` and `Layout` disagree: the element-based chunker sees the heading and
the paragraph, the layout-based one the layout's paragraph -/
example :
    let m : MDoc := ⟨[], [⟨1, [.heading 1 [97], .para [120]], some ⟨[], [[121]], []⟩⟩]⟩
    (chunkDocumentAPI defaultSizeConfig (some m)).map (·.text) = [[97], [120]] ∧
    (match chunkerChunkAPI (fun _ => false) ⟨2000, 100, 3, true, [99]⟩ (some m) with
      | .ok cs => cs.map (·.text) | .error _ => []) = [[121]] := by decide +kernel

/-- **The property, one document, both chunkers.** For every document `m`, size configuration `c`,
chunker configuration `cfg` and lower-case table `low`:

*element-based* (`ChunkDocumentWithConfig`): indices `0..n-1`, ids distinct, total `n`; one group of
chunks per page carrying that page's number; the section path is the chain of enclosing headings
(`histTracker`/`openSpec`); every heading, list, table and described image is one chunk of its own
with exactly its text on its page, in document order; and, when the paragraphs have ASCII white
space only, the chunk texts are the rendered elements in document order, white space aside.

*layout-based* (`Chunker.Chunk`): the chunk texts are, white space aside, the layout's content in
emission order (a permutation of the canonical order keeping every kind in order); indices, ids,
total; the sections carry the chains of enclosing section-opening headings and, when the pages are
numbered upwards, page ranges on pages of the document that cover their content. -/
theorem document_property (c : Tabula.Split.SizeConfig) (low : Str → Bool) (cfg : Cfg) (m : MDoc) :
    let d := toDoc m
    let l := toLDoc m
    let ec := chunkDocumentC c d
    let lc := chunkSI low cfg m.title l
    (chunkDocumentAPI c (some m) = ec ∧ chunkerChunkAPI low cfg (some m) = .ok lc) ∧
    ((ec.map (·.idx) = List.range ec.length ∧ (ec.map (·.id)).Nodup ∧ ∀ ch ∈ ec, ch.total = ec.length) ∧
      PagesM d (pageGroups stackTracker (splitterOf c) d) ∧
      ec = chunkDocumentWith histTracker (splitterOf c) d ∧
      Tabula.ChunkMeta.solos (Tabula.ChunkMeta.chunkDocumentXC c d) = Tabula.ChunkMeta.soloSpec d ∧
      (DocNoWide d → strip (textsOf ec) = strip ((d.flatMap (·.elems)).flatMap render))) ∧
    ((strip (textsOf lc) = strip (ceTexts (emitted cfg (withSents low (withIntro l)))) ∧
        (emitted cfg (withSents low (withIntro l))).Perm (canon cfg (withSents low (withIntro l)))) ∧
      (lc.map (·.idx) = List.range lc.length ∧ (lc.map (·.id)).Nodup ∧ ∀ ch ∈ lc, ch.total = lc.length) ∧
      labelsOf (flatForest (buildSections cfg (withSents low (withIntro l)))) = labelled cfg (withSents low (withIntro l)) ∧
      (AscFrom 1 l → ∀ x ∈ flatForest (buildSections cfg (withSents low (withIntro l))), SecPagesOK (l.map (·.number)) x)) := by
  intro d l ec lc
  refine ⟨⟨rfl, rfl⟩, ?_, ?_⟩
  · obtain ⟨h1, h2, h3⟩ := Tabula.C12Meta.element_metadata_any c d
    exact ⟨h1, h2, h3, Tabula.C12Meta.solo_elements_exact _ d, fun hd => Tabula.C12Compose.element_cover c d hd⟩
  · refine ⟨⟨?_, emitted_perm cfg _⟩, ?_, buildSections_labels cfg _, ?_⟩
    · exact Tabula.C12Layout.layout_chunker_cover low cfg m.title (withIntro l)
    · exact Tabula.C12Layout.layout_indices_ids_total cfg m.title _
    · intro hasc
      have := (Tabula.C12Intro.layout_chunker_closed low cfg m.title l hasc).2.2.1.2.2
      exact this

end Tabula.C12Doc
