import TabulaModel.Lemmas.PageSel
import TabulaModel.Props.C10
/-!
# C10 — further all-input theorems about page selection (`Model/PageSel.lean`)

What `Props/C10.lean` left as one-directional or hypothetical statements is closed here:

* **which error, and when** — `collect_ok_iff_all`, `collect_error_iff`: the page loop succeeds
  iff every listed page is readable, and otherwise reports the error of the FIRST unreadable
  page in list order; end to end `text_succeeds_iff` (an iff where `unreadable_page_fails` was
  an implication) and `text_error_is_first_unreadable` (lowest unreadable selected page wins).
* **normal form** — `resolve_idempotent`: re-selecting the pages `resolvePages` returned
  (1-based) returns the same list; `select_all_is_no_selection`: `PageRange(1, n)` is `Pages()`.
* **monotonicity** — `resolve_mono`, `fragments_mono`: a smaller selection gives a sub-list.
* **the join rule is a monoid** — `textStep_assoc`, `text_split`, `fragments_split` and end to
  end `text_split_end_to_end`, `fragments_split_end_to_end`: the text of `S₁ ∪ S₂` with `S₁`
  entirely before `S₂` is the two texts glued by the same blank-line rule.
* **exactly which pages** — `resolve_mem_iff` (membership in the result with no hypothesis on the
  spelling), `unselected_pages_irrelevant` (value or error of `Text`/`Fragments` depends on the
  selected pages only), `resolve_length_le` (at most `n` pages, at most `len(S)` pages).
* **page numbers as a post-condition** — `document_pages_true`: whatever `Pages(S).Document()`
  returns, every page carries number = source + 1, is inside the document, was asked for, the
  numbers ascend and no asked page is missing (no hypothesis on `S` besides being non-empty).
* **the pinned `AddPage` exactly** — `old_numbering_right_iff`: the renumbering `AddPage` of the
  pinned tree gave the right numbers iff the resolved list is an initial segment `0,1,…,m-1`.
-/
namespace Tabula.C10More
open Tabula.PageSel Tabula.Builder Tabula.C10

/-! ## the page loop: success and the error reported -/

/-- the page loop succeeds iff every listed page can be read -/
theorem collect_ok_iff_all {α : Type} (pg : Nat → Except E α) (idx : List Nat) :
    (∃ as, collect pg idx = .ok as) ↔ ∀ k ∈ idx, ∃ v, pg k = .ok v := by
  induction idx with
  | nil => simp [collect]
  | cons k ks ih =>
    cases hk : pg k with
    | error e =>
      constructor
      · rintro ⟨as, h⟩
        simp [collect, hk] at h
      · intro h
        obtain ⟨v, hv⟩ := h k (by simp)
        rw [hk] at hv
        cases hv
    | ok a =>
      cases hc : collect pg ks with
      | error e =>
        rw [hc] at ih
        constructor
        · rintro ⟨as, h⟩
          simp [collect, hk, hc] at h
        · intro h
          obtain ⟨as, has⟩ := ih.mpr (fun j hj => h j (List.mem_cons_of_mem _ hj))
          cases has
      | ok l =>
        rw [hc] at ih
        constructor
        · intro _ j hj
          rcases List.mem_cons.mp hj with h | h
          · exact ⟨a, by rw [h]; exact hk⟩
          · exact ih.mp ⟨l, rfl⟩ j h
        · intro _
          exact ⟨a :: l, by simp [collect, hk, hc]⟩

/-- **collect_error_iff**: the page loop fails with `e` iff `e` is the error of the first
unreadable page in list order (everything before it was read, nothing after it is looked at) -/
theorem collect_error_iff {α : Type} (pg : Nat → Except E α) (idx : List Nat) (e : E) :
    collect pg idx = .error e ↔
      ∃ a k b, idx = a ++ k :: b ∧ (∀ j ∈ a, ∃ v, pg j = .ok v) ∧ pg k = .error e := by
  induction idx with
  | nil => simp [collect]
  | cons k ks ih =>
    cases hk : pg k with
    | error e' =>
      constructor
      · intro h
        simp only [collect, hk] at h
        cases h
        exact ⟨[], k, ks, rfl, by simp, hk⟩
      · rintro ⟨a, j, b, hs, hall, hj⟩
        cases a with
        | nil =>
          simp only [List.nil_append, List.cons.injEq] at hs
          rw [← hs.1, hk] at hj
          cases hj
          simp [collect, hk]
        | cons x xs =>
          simp only [List.cons_append, List.cons.injEq] at hs
          obtain ⟨v, hv⟩ := hall x (by simp)
          rw [← hs.1, hk] at hv
          cases hv
    | ok v =>
      have hstep : collect pg (k :: ks) = .error e ↔ collect pg ks = .error e := by
        simp only [collect, hk]
        cases collect pg ks <;> simp
      rw [hstep, ih]
      constructor
      · rintro ⟨a, j, b, hs, hall, hj⟩
        refine ⟨k :: a, j, b, by simp [hs], ?_, hj⟩
        intro i hi
        rcases List.mem_cons.mp hi with h | h
        · exact ⟨v, by rw [h]; exact hk⟩
        · exact hall i h
      · rintro ⟨a, j, b, hs, hall, hj⟩
        cases a with
        | nil =>
          simp only [List.nil_append, List.cons.injEq] at hs
          rw [← hs.1, hk] at hj
          cases hj
        | cons x xs =>
          simp only [List.cons_append, List.cons.injEq] at hs
          exact ⟨xs, j, b, hs.2, fun i hi => hall i (List.mem_cons_of_mem _ hi), hj⟩

example : collect (fun k => if k = 2 then .error .page else if k = 3 then .error .closed
    else (.ok k : Except E Nat)) [0, 1, 2, 3] = .error .page := by decide

/-- **text_succeeds_iff**: `Pages(S).Text()` (non-empty `S`) returns a text iff every number of
`S` is inside the document and every selected page can be read -/
theorem text_succeeds_iff (pg : Nat → Except E Str) (sel : List Int) (n : Nat) (hne : sel ≠ []) :
    (∃ t, extractText pg sel n = .ok t) ↔
      InRange sel n ∧ ∀ k ∈ specPages sel n, ∃ v, pg k = .ok v := by
  by_cases hr : InRange sel n
  · unfold extractText
    rw [(resolve_spec sel n hne).1 hr, ← collect_ok_iff_all]
    constructor
    · rintro ⟨t, ht⟩
      refine ⟨hr, ?_⟩
      cases hc : collect pg (specPages sel n) with
      | ok ts => exact ⟨ts, rfl⟩
      | error e => simp [textOf, hc] at ht
    · rintro ⟨_, ts, hts⟩
      exact ⟨ts.foldl textStep [], by simp only [textOf, hts]⟩
  · constructor
    · rintro ⟨t, ht⟩
      rw [(out_of_range_is_error (F := Nat) pg (fun _ => .ok []) sel n hne hr).1] at ht
      cases ht
    · intro h
      exact absurd h.1 hr

example : (∃ t, extractText (fun k => if k = 1 then .error .page else .ok [65]) [1, 3] 3 = .ok t) :=
  ⟨[65, 10, 10, 65], by decide⟩

/-- **text_error_is_first_unreadable**: on a valid selection, `Text()` fails with `e` iff `e` is
the error of the LOWEST selected page that cannot be read -/
theorem text_error_is_first_unreadable (pg : Nat → Except E Str) (sel : List Int) (n : Nat)
    (hne : sel ≠ []) (hr : InRange sel n) (e : E) :
    extractText pg sel n = .error e ↔
      ∃ k ∈ specPages sel n, pg k = .error e ∧
        ∀ j ∈ specPages sel n, j < k → ∃ v, pg j = .ok v := by
  unfold extractText
  rw [(resolve_spec sel n hne).1 hr]
  have hsa : List.Pairwise (· < ·) (specPages sel n) := specPages_strictAsc sel n
  generalize specPages sel n = idx at hsa ⊢
  have htext : textOf pg idx = .error e ↔ collect pg idx = .error e := by
    unfold textOf
    cases collect pg idx <;> simp
  show textOf pg idx = .error e ↔ _
  rw [htext, collect_error_iff]
  constructor
  · rintro ⟨a, k, b, rfl, hall, hk⟩
    refine ⟨k, by simp, hk, ?_⟩
    intro j hj hlt
    have hp := List.pairwise_append.mp hsa
    rcases List.mem_append.mp hj with h | h
    · exact hall j h
    · exfalso
      rcases List.mem_cons.mp h with h | h
      · omega
      · have := (List.pairwise_cons.mp hp.2.1).1 j h
        omega
  · rintro ⟨k, hk, hek, hbefore⟩
    obtain ⟨a, b, rfl⟩ := List.append_of_mem hk
    refine ⟨a, k, b, rfl, ?_, hek⟩
    intro j hj
    have hp := List.pairwise_append.mp hsa
    exact hbefore j (by simp [hj]) (hp.2.2 j hj k (by simp))

example : extractText (fun k => if k = 0 then .ok [65] else if k = 1 then .error .page
    else .error .closed) [3, 2, 1] 3 = .error .page := by decide

/-! ## normal form of a selection -/

theorem specPages_of_resolved (l : List Nat) (n : Nat) (hsa : StrictAsc l) (hlt : ∀ k ∈ l, k < n) :
    specPages (l.map fun (k : Nat) => (k : Int) + 1) n = l := by
  apply strictAsc_ext _ _ (specPages_strictAsc _ n) hsa
  intro x
  rw [mem_specPages]
  simp only [List.mem_map]
  constructor
  · rintro ⟨_, k, hk, hkx⟩
    have : k = x := by omega
    exact this ▸ hk
  · intro hx
    exact ⟨hlt x hx, x, hx, rfl⟩

/-- **resolve_idempotent**: selecting again exactly the pages a selection resolved to (spelled
1-based, as the API wants them) resolves to the same list: the result is a normal form -/
theorem resolve_idempotent (sel : List Int) (n : Nat) (l : List Nat)
    (h : resolvePages sel n = .ok l) (hl : l ≠ []) :
    resolvePages (l.map fun (k : Nat) => (k : Int) + 1) n = .ok l := by
  obtain ⟨hsa, hlt⟩ := resolve_ascending sel n l h
  have hne : (l.map fun (k : Nat) => (k : Int) + 1) ≠ [] := by simpa using hl
  have hr : InRange (l.map fun (k : Nat) => (k : Int) + 1) n := by
    intro p hp
    simp only [List.mem_map] at hp
    obtain ⟨k, hk, rfl⟩ := hp
    have := hlt k hk
    omega
  rw [(resolve_spec _ n hne).1 hr, specPages_of_resolved l n hsa hlt]

example : resolvePages [3, 1, 3] 4 = .ok [0, 2] ∧
    resolvePages (([0, 2] : List Nat).map fun (k : Nat) => (k : Int) + 1) 4 = .ok [0, 2] := by decide

/-- **select_all_is_no_selection**: `PageRange(1, n)` on an `n`-page document resolves to the
same list as no selection at all, so every terminal operation answers alike -/
theorem select_all_is_no_selection {F : Type} (pt : Nat → Except E Str)
    (pf : Nat → Except E (List F)) (n : Nat) (hn : 0 < n) :
    resolvePages (rangeList 1 n) n = resolvePages [] n ∧
    extractText pt (rangeList 1 n) n = extractText pt [] n ∧
    extractFragments pf (rangeList 1 n) n = extractFragments pf [] n ∧
    extractDocument (rangeList 1 n) n = extractDocument [] n := by
  have hmem : ∀ p, p ∈ rangeList 1 n ↔ 1 ≤ p ∧ p ≤ (n : Int) := fun p => mem_rangeList 1 n p
  have hne : rangeList 1 (n : Int) ≠ [] := by
    intro h
    have := (hmem 1).mpr (by omega)
    rw [h] at this
    simp at this
  have hr : InRange (rangeList 1 n) n := fun p hp => (hmem p).mp hp
  have hres : resolvePages (rangeList 1 n) n = resolvePages [] n := by
    rw [(resolve_spec _ n hne).1 hr, resolve_none]
    congr 1
    apply strictAsc_ext _ _ (specPages_strictAsc _ n) List.pairwise_lt_range
    intro x
    rw [mem_specPages, hmem, List.mem_range]
    constructor
    · intro h
      exact h.1
    · intro h
      exact ⟨h, by omega, by omega⟩
  refine ⟨hres, ?_, ?_, ?_⟩
  · unfold extractText; rw [hres]
  · unfold extractFragments; rw [hres]
  · unfold extractDocument; rw [hres]

example : resolvePages (rangeList 1 4) 4 = .ok [0, 1, 2, 3] := by decide

/-! ## monotonicity -/

theorem filter_sublist_of_imp {α : Type} (p q : α → Bool) (h : ∀ a, p a = true → q a = true) :
    ∀ l : List α, (l.filter p).Sublist (l.filter q)
  | [] => by simp
  | a :: l => by
    have ih := filter_sublist_of_imp p q h l
    cases hp : p a with
    | true =>
      have hq := h a hp
      rw [List.filter_cons_of_pos hp, List.filter_cons_of_pos hq]
      exact List.cons_sublist_cons.mpr ih
    | false =>
      rw [List.filter_cons_of_neg (by simp [hp])]
      cases hq : q a with
      | true =>
        rw [List.filter_cons_of_pos hq]
        exact List.Sublist.cons a ih
      | false =>
        rw [List.filter_cons_of_neg (by simp [hq])]
        exact ih

theorem flatten_sublist_of_sublist {α : Type} {l₁ l₂ : List (List α)} (h : l₁.Sublist l₂) :
    l₁.flatten.Sublist l₂.flatten := by
  induction h with
  | slnil => simp
  | cons a _ ih =>
    simp only [List.flatten_cons]
    exact ih.trans (List.sublist_append_right _ _)
  | cons_cons a _ ih =>
    simp only [List.flatten_cons]
    exact List.Sublist.append (List.Sublist.refl a) ih

/-- **resolve_mono**: if the larger selection resolves, a non-empty part of it resolves too, to a
sub-list (same relative order, nothing new) -/
theorem resolve_mono (s₁ s₂ : List Int) (n : Nat) (l₂ : List Nat) (hne : s₁ ≠ [])
    (hsub : ∀ p ∈ s₁, p ∈ s₂) (h₂ : resolvePages s₂ n = .ok l₂) :
    ∃ l₁, resolvePages s₁ n = .ok l₁ ∧ l₁.Sublist l₂ := by
  have hne₂ : s₂ ≠ [] := by
    intro he
    cases s₁ with
    | nil => exact hne rfl
    | cons p ps =>
      have := hsub p (by simp)
      rw [he] at this
      simp at this
  have hr₂ : InRange s₂ n := by
    by_cases hr : InRange s₂ n
    · exact hr
    · rw [(resolve_spec s₂ n hne₂).2 hr] at h₂
      cases h₂
  have hr₁ : InRange s₁ n := fun p hp => hr₂ p (hsub p hp)
  rw [(resolve_spec s₂ n hne₂).1 hr₂] at h₂
  cases h₂
  refine ⟨specPages s₁ n, (resolve_spec s₁ n hne).1 hr₁, ?_⟩
  unfold specPages
  apply filter_sublist_of_imp
  intro k hk
  simp only [decide_eq_true_eq] at hk ⊢
  exact hsub _ hk

example : ∃ l₁, resolvePages [4, 2] 5 = .ok l₁ ∧ l₁.Sublist [0, 1, 3, 4] :=
  resolve_mono [4, 2] [5, 2, 4, 1] 5 _ (by simp) (by intro p hp; simp at hp ⊢; omega) (by decide)

/-! ## the join rule is a monoid; splitting a selection -/

theorem textStep_nil_right (a : Str) : textStep a [] = a := by simp [textStep]

/-- `textStep` (append with a blank line between non-empty texts) is associative, with the
empty text as unit on both sides: the order of gluing does not matter -/
theorem textStep_assoc (a b c : Str) :
    textStep (textStep a b) c = textStep a (textStep b c) := by
  by_cases ha : a = [] <;> by_cases hb : b = [] <;> by_cases hc : c = [] <;>
    simp [textStep, ha, hb, hc, sep, List.append_assoc]

theorem collect_append_ok {α : Type} (pg : Nat → Except E α) (a b : List Nat) (y : List α)
    (hb : collect pg b = .ok y) :
    ∀ x, collect pg a = .ok x → collect pg (a ++ b) = .ok (x ++ y) := by
  induction a with
  | nil =>
    intro x ha
    simp [collect] at ha
    subst ha
    simpa using hb
  | cons k ks ih =>
    intro x ha
    cases hk : pg k with
    | error e => simp [collect, hk] at ha
    | ok v =>
      cases hc : collect pg ks with
      | error e => simp [collect, hk, hc] at ha
      | ok l =>
        simp [collect, hk, hc] at ha
        subst ha
        simp [collect, hk, ih l hc]

/-- **text_split**: the text of the list `a ++ b` is the texts of `a` and of `b` glued by the
join rule itself -/
theorem text_split (pg : Nat → Except E Str) (a b : List Nat) (x y : Str)
    (ha : textOf pg a = .ok x) (hb : textOf pg b = .ok y) :
    textOf pg (a ++ b) = .ok (textStep x y) := by
  unfold textOf at ha hb ⊢
  cases hca : collect pg a with
  | error e => simp [hca] at ha
  | ok ts =>
    cases hcb : collect pg b with
    | error e => simp [hcb] at hb
    | ok us =>
      simp only [hca, Except.ok.injEq] at ha
      simp only [hcb, Except.ok.injEq] at hb
      subst ha
      subst hb
      rw [collect_append_ok pg a b us hcb ts hca]
      simp only [List.foldl_append]
      rw [foldl_textStep us (List.foldl textStep [] ts), foldl_textStep us [], textStep_nil_left]

/-- **fragments_split**: likewise, plain concatenation -/
theorem fragments_split {F : Type} (pg : Nat → Except E (List F)) (a b : List Nat) (x y : List F)
    (ha : fragmentsOf pg a = .ok x) (hb : fragmentsOf pg b = .ok y) :
    fragmentsOf pg (a ++ b) = .ok (x ++ y) := by
  unfold fragmentsOf at ha hb ⊢
  cases hca : collect pg a with
  | error e => simp [hca] at ha
  | ok ts =>
    cases hcb : collect pg b with
    | error e => simp [hcb] at hb
    | ok us =>
      simp only [hca, Except.ok.injEq] at ha
      simp only [hcb, Except.ok.injEq] at hb
      subst ha
      subst hb
      rw [collect_append_ok pg a b us hcb ts hca]
      simp [foldl_append_flatten]

theorem specPages_append_ordered (s₁ s₂ : List Int) (n : Nat)
    (hord : ∀ p ∈ s₁, ∀ q ∈ s₂, p < q) :
    specPages (s₁ ++ s₂) n = specPages s₁ n ++ specPages s₂ n := by
  apply strictAsc_ext _ _ (specPages_strictAsc _ n)
  · show List.Pairwise (· < ·) (specPages s₁ n ++ specPages s₂ n)
    apply List.pairwise_append.mpr
    refine ⟨specPages_strictAsc _ n, specPages_strictAsc _ n, ?_⟩
    intro a ha b hb
    have h1 := ((mem_specPages s₁ n a).mp ha).2
    have h2 := ((mem_specPages s₂ n b).mp hb).2
    have := hord _ h1 _ h2
    omega
  · intro x
    simp only [mem_specPages, List.mem_append]
    constructor
    · rintro ⟨h, h1 | h2⟩
      · exact Or.inl ⟨h, h1⟩
      · exact Or.inr ⟨h, h2⟩
    · rintro (⟨h, h1⟩ | ⟨h, h2⟩)
      · exact ⟨h, Or.inl h1⟩
      · exact ⟨h, Or.inr h2⟩

theorem inRange_of_text_ok (pg : Nat → Except E Str) (s : List Int) (n : Nat) (x : Str)
    (hne : s ≠ []) (h : extractText pg s n = .ok x) : InRange s n := by
  by_cases hr : InRange s n
  · exact hr
  · rw [(out_of_range_is_error (F := Nat) pg (fun _ => .ok []) s n hne hr).1] at h
    cases h

/-- **text_split_end_to_end**: if every page of `S₁` lies before every page of `S₂`, then
`Pages(S₁ ∪ S₂).Text()` is `Pages(S₁).Text()` and `Pages(S₂).Text()` glued by the join rule
(a blank line iff both are non-empty) — a document can be read in consecutive portions -/
theorem text_split_end_to_end (pg : Nat → Except E Str) (s₁ s₂ : List Int) (n : Nat) (x y : Str)
    (h₁ne : s₁ ≠ []) (h₂ne : s₂ ≠ []) (hord : ∀ p ∈ s₁, ∀ q ∈ s₂, p < q)
    (h₁ : extractText pg s₁ n = .ok x) (h₂ : extractText pg s₂ n = .ok y) :
    extractText pg (s₁ ++ s₂) n = .ok (textStep x y) := by
  have hr₁ := inRange_of_text_ok pg s₁ n x h₁ne h₁
  have hr₂ := inRange_of_text_ok pg s₂ n y h₂ne h₂
  have hne : s₁ ++ s₂ ≠ [] := by simp [h₁ne]
  have hr : InRange (s₁ ++ s₂) n := by
    intro p hp
    rcases List.mem_append.mp hp with h | h
    · exact hr₁ p h
    · exact hr₂ p h
  unfold extractText at h₁ h₂ ⊢
  rw [(resolve_spec _ n h₁ne).1 hr₁] at h₁
  rw [(resolve_spec _ n h₂ne).1 hr₂] at h₂
  rw [(resolve_spec _ n hne).1 hr, specPages_append_ordered s₁ s₂ n hord]
  exact text_split pg _ _ x y h₁ h₂

example : extractText (fun k => .ok [65 + k]) ([1, 2] ++ [4, 3]) 4 =
    .ok (textStep [65, 10, 10, 66] [67, 10, 10, 68]) := by decide

/-- **fragments_split_end_to_end**: the same for `Fragments()` with plain concatenation -/
theorem fragments_split_end_to_end {F : Type} (pg : Nat → Except E (List F)) (s₁ s₂ : List Int)
    (n : Nat) (x y : List F) (h₁ne : s₁ ≠ []) (h₂ne : s₂ ≠ [])
    (hr₁ : InRange s₁ n) (hr₂ : InRange s₂ n) (hord : ∀ p ∈ s₁, ∀ q ∈ s₂, p < q)
    (h₁ : extractFragments pg s₁ n = .ok x) (h₂ : extractFragments pg s₂ n = .ok y) :
    extractFragments pg (s₁ ++ s₂) n = .ok (x ++ y) := by
  have hne : s₁ ++ s₂ ≠ [] := by simp [h₁ne]
  have hr : InRange (s₁ ++ s₂) n := by
    intro p hp
    rcases List.mem_append.mp hp with h | h
    · exact hr₁ p h
    · exact hr₂ p h
  unfold extractFragments at h₁ h₂ ⊢
  rw [(resolve_spec _ n h₁ne).1 hr₁] at h₁
  rw [(resolve_spec _ n h₂ne).1 hr₂] at h₂
  rw [(resolve_spec _ n hne).1 hr, specPages_append_ordered s₁ s₂ n hord]
  exact fragments_split pg _ _ x y h₁ h₂

example : extractFragments (fun k => .ok [k, k]) ([2] ++ [3]) 3 = .ok ([1, 1] ++ [2, 2]) := by
  decide

/-- **fragments_mono**: the fragments of a part of a valid selection are a sub-list of the
fragments of the whole (nothing invented, order kept) -/
theorem fragments_mono {F : Type} (pg : Nat → Except E (List F)) (f : Nat → List F)
    (s₁ s₂ : List Int) (n : Nat) (hne : s₁ ≠ []) (hsub : ∀ p ∈ s₁, p ∈ s₂) (hr₂ : InRange s₂ n)
    (hpg : ∀ k, k < n → pg k = .ok (f k)) :
    ∃ x y, extractFragments pg s₁ n = .ok x ∧ extractFragments pg s₂ n = .ok y ∧ x.Sublist y := by
  have hne₂ : s₂ ≠ [] := by
    intro he
    cases s₁ with
    | nil => exact hne rfl
    | cons p ps =>
      have := hsub p (by simp)
      rw [he] at this
      simp at this
  have hr₁ : InRange s₁ n := fun p hp => hr₂ p (hsub p hp)
  refine ⟨_, _, fragments_is_concat pg f s₁ n hne hr₁ hpg, fragments_is_concat pg f s₂ n hne₂ hr₂ hpg, ?_⟩
  apply flatten_sublist_of_sublist
  apply List.Sublist.map
  unfold specPages
  apply filter_sublist_of_imp
  intro k hk
  simp only [decide_eq_true_eq] at hk ⊢
  exact hsub _ hk

/-! ## exactly which pages; pages outside the selection are never looked at -/

/-- **resolve_mem_iff**: whenever `resolvePages` succeeds — no hypothesis on the spelling —
page index `k` is in the result iff it is a page of the document and either nothing was
selected or `k + 1` was -/
theorem resolve_mem_iff (sel : List Int) (n : Nat) (l : List Nat)
    (h : resolvePages sel n = .ok l) (k : Nat) :
    k ∈ l ↔ k < n ∧ (sel = [] ∨ ((k : Int) + 1) ∈ sel) := by
  by_cases hne : sel = []
  · subst hne
    rw [resolve_none] at h
    cases h
    simp [List.mem_range]
  · by_cases hr : InRange sel n
    · rw [(resolve_spec sel n hne).1 hr] at h
      cases h
      rw [mem_specPages]
      simp [hne]
    · rw [(resolve_spec sel n hne).2 hr] at h
      cases h

theorem collect_congr {α : Type} (pg pg' : Nat → Except E α) (idx : List Nat)
    (h : ∀ k ∈ idx, pg k = pg' k) : collect pg idx = collect pg' idx := by
  induction idx with
  | nil => rfl
  | cons k ks ih =>
    have h1 := h k (by simp)
    have h2 := ih (fun j hj => h j (List.mem_cons_of_mem _ hj))
    simp only [collect, h1, h2]

/-- **unselected_pages_irrelevant**: `Text()` and `Fragments()` — value or error — depend on the
per-page results of the SELECTED pages only: change (or break) any other page and the answer is
the same.  No hypothesis on the spelling of the selection. -/
theorem unselected_pages_irrelevant {F : Type} (pt pt' : Nat → Except E Str)
    (pf pf' : Nat → Except E (List F)) (sel : List Int) (n : Nat)
    (ht : ∀ k : Nat, k < n → (sel = [] ∨ ((k : Int) + 1) ∈ sel) → pt k = pt' k)
    (hf : ∀ k : Nat, k < n → (sel = [] ∨ ((k : Int) + 1) ∈ sel) → pf k = pf' k) :
    extractText pt sel n = extractText pt' sel n ∧
    extractFragments pf sel n = extractFragments pf' sel n := by
  unfold extractText extractFragments
  cases hres : resolvePages sel n with
  | error e => exact ⟨rfl, rfl⟩
  | ok l =>
    have hm := resolve_mem_iff sel n l hres
    constructor
    · show textOf pt l = textOf pt' l
      unfold textOf
      rw [collect_congr pt pt' l (fun k hk => ht k ((hm k).mp hk).1 ((hm k).mp hk).2)]
    · show fragmentsOf pf l = fragmentsOf pf' l
      unfold fragmentsOf
      rw [collect_congr pf pf' l (fun k hk => hf k ((hm k).mp hk).1 ((hm k).mp hk).2)]

example : extractText (fun k => if k = 1 then .error .page else .ok [65 + k]) [3, 1] 3 =
    extractText (fun k => .ok [65 + k]) [3, 1] 3 := by decide

/-! ## how many pages -/

theorem convLoop_length_le (n : Nat) (sel : List Int) :
    ∀ (seen l : List Nat), convLoop n seen sel = .ok l → l.length ≤ sel.length := by
  induction sel with
  | nil =>
    intro seen l h
    simp only [convLoop, Except.ok.injEq] at h
    subst h
    simp
  | cons p ps ih =>
    intro seen l h
    by_cases hb : p < 1 ∨ p > (n : Int)
    · simp only [convLoop, hb, ↓reduceIte, reduceCtorEq] at h
    · by_cases hz : (p - 1).toNat ∈ seen
      · simp only [convLoop, hb, hz, ↓reduceIte] at h
        have := ih _ _ h
        simp only [List.length_cons]
        omega
      · cases hc : convLoop n ((p - 1).toNat :: seen) ps with
        | error e => simp only [convLoop, hb, hz, hc, ↓reduceIte, reduceCtorEq] at h
        | ok l' =>
          simp only [convLoop, hb, hz, hc, ↓reduceIte, Except.ok.injEq] at h
          subst h
          have := ih _ _ hc
          simp only [List.length_cons]
          omega

/-- **resolve_length_le**: the resolved list has at most as many pages as the document, and for
a non-empty selection at most as many as numbers were given (duplicates only ever shrink it) -/
theorem resolve_length_le (sel : List Int) (n : Nat) (l : List Nat)
    (h : resolvePages sel n = .ok l) :
    l.length ≤ n ∧ (sel ≠ [] → l.length ≤ sel.length) := by
  constructor
  · by_cases hne : sel = []
    · subst hne
      rw [resolve_none] at h
      cases h
      simp
    · by_cases hr : InRange sel n
      · rw [(resolve_spec sel n hne).1 hr] at h
        cases h
        unfold specPages
        exact Nat.le_trans (List.length_filter_le _ _) (by simp)
      · rw [(resolve_spec sel n hne).2 hr] at h
        cases h
  · intro hne
    have hemp : sel.isEmpty = false := by cases sel <;> simp_all
    unfold resolvePages at h
    simp only [hemp, Bool.false_eq_true, if_false] at h
    cases hc : convLoop n [] sel with
    | error e => simp only [hc, reduceCtorEq] at h
    | ok l' =>
      simp only [hc, Except.ok.injEq] at h
      subst h
      rw [(isort_perm l').length_eq]
      exact convLoop_length_le n sel [] l' hc

example : resolvePages [2, 2, 5, 2] 9 = .ok [1, 4] := by decide

/-! ## page numbers: a post-condition of `Document()` -/

/-- **document_pages_true**: whatever `Pages(S).Document()` returns (non-empty `S`, no other
hypothesis): at least one page; every page carries the number of its true source page, lies
inside the document and was asked for; the numbers ascend strictly; no asked page is missing -/
theorem document_pages_true (sel : List Int) (n : Nat) (d : List MPage) (hne : sel ≠ [])
    (h : extractDocument sel n = .ok d) :
    d ≠ [] ∧
    (∀ p ∈ d, p.number = p.source + 1 ∧ p.source < n ∧ ((p.number : Int) ∈ sel)) ∧
    (d.map (·.number)).Pairwise (· < ·) ∧
    (∀ k : Nat, k < n → ((k : Int) + 1) ∈ sel → (⟨k + 1, k⟩ : MPage) ∈ d) := by
  have hr : InRange sel n := by
    by_cases hr : InRange sel n
    · exact hr
    · rw [(out_of_range_is_error (F := Nat) (fun _ => .ok []) (fun _ => .ok []) sel n hne hr).2.2] at h
      cases h
  unfold extractDocument at h
  rw [(resolve_spec sel n hne).1 hr] at h
  have h2 : documentOf (specPages sel n) = .ok d := h
  have hsome : specPages sel n ≠ [] := by
    intro he
    rw [he] at h2
    simp [documentOf] at h2
  rw [(page_number_true _ hsome).1] at h2
  cases h2
  refine ⟨by simpa using hsome, ?_, ?_, ?_⟩
  · intro p hp
    obtain ⟨k, hk, rfl⟩ := List.mem_map.mp hp
    obtain ⟨hlt, hmem⟩ := (mem_specPages sel n k).mp hk
    refine ⟨rfl, hlt, ?_⟩
    have hc : (((k + 1 : Nat)) : Int) = (k : Int) + 1 := by omega
    show ((k + 1 : Nat) : Int) ∈ sel
    rw [hc]
    exact hmem
  · simp only [List.map_map, List.pairwise_map]
    exact List.Pairwise.imp (fun h => by simpa [Function.comp] using h) (specPages_strictAsc sel n)
  · intro k hk hmem
    exact List.mem_map.mpr ⟨k, (mem_specPages sel n k).mpr ⟨hk, hmem⟩, rfl⟩

example : extractDocument [4, 2, 4] 5 = .ok [⟨2, 1⟩, ⟨4, 3⟩] := by decide

/-! ## the pinned `AddPage`, exactly -/

/-- page records numbered by position from `s + 1` on (what the pinned `AddPage` writes) -/
def numFrom : Nat → List Nat → List MPage
  | _, [] => []
  | s, k :: ks => ⟨s + 1, k⟩ :: numFrom (s + 1) ks

theorem foldl_addPageOld_eq (idx : List Nat) : ∀ d : List MPage,
    idx.foldl (fun d k => addPageOld d ⟨k + 1, k⟩) d = d ++ numFrom d.length idx := by
  induction idx with
  | nil => intro d; simp [numFrom]
  | cons k ks ih =>
    intro d
    simp only [List.foldl_cons]
    rw [ih]
    simp [addPageOld, numFrom]

theorem numFrom_eq_iff (idx : List Nat) : ∀ s : Nat,
    numFrom s idx = idx.map (fun k => (⟨k + 1, k⟩ : MPage)) ↔ idx = List.range' s idx.length := by
  induction idx with
  | nil => intro s; simp [numFrom]
  | cons k ks ih =>
    intro s
    simp only [List.length_cons, List.range'_succ]
    constructor
    · intro h
      simp [numFrom] at h
      obtain ⟨h1, h2⟩ := h
      have hk : k = s := by omega
      have h3 := (ih (s + 1)).mp h2
      rw [hk, ← h3]
    · intro h
      simp only [List.cons.injEq] at h
      obtain ⟨hk, h2⟩ := h
      have h3 := (ih (s + 1)).mpr h2
      simp [numFrom, h3, hk]

/-- **old_numbering_right_iff**: the `AddPage` of the pinned tree (which renumbered every page by
position) produced the same document as the repaired one iff the resolved page list is the
initial segment `0, 1, …, m-1` — for every other selection some page number was wrong -/
theorem old_numbering_right_iff (idx : List Nat) (hne : idx ≠ []) :
    documentOfOld idx = documentOf idx ↔ idx = List.range idx.length := by
  have hemp : idx.isEmpty = false := by cases idx <;> simp_all
  unfold documentOfOld documentOf
  simp only [hemp, Bool.false_eq_true, if_false, foldl_addPage, foldl_addPageOld_eq,
    List.nil_append, List.length_nil, Except.ok.injEq]
  rw [numFrom_eq_iff, List.range_eq_range']

example : documentOfOld [0, 1, 2] = documentOf [0, 1, 2] ∧ documentOfOld [0, 2] ≠ documentOf [0, 2] := by
  decide

end Tabula.C10More
