import TabulaModel.Model.Bounds
/-!
# C02 — No input can crash, hang or exhaust the process (logic core)

A theorem cannot exhibit a Go panic or an allocation; what is proved here is that the
*validated* quantities the repaired code computes with are in bounds, and that the
traversals guarded by a visited set make progress. Termination of the other modelled loops
is carried by their own files: `/Prev` chains (`Xref.chainFrom`, C04), the filters (C05),
the parsers (C06), the splitter (C13) — all total definitions accepted by Lean's termination
checker. Everything else in C02 is explored by the fault catalogue, not proved.
-/
namespace Tabula.C02
open Tabula.Bounds

theorem checkW_pos (w : List Int) (ew : Nat) (h : checkW w = some ew) : 0 < ew := by
  unfold checkW at h
  split at h
  · cases h
  · split at h
    · cases h
    · simp only at h
      split at h
      · cases h
      · rename_i hne
        cases h
        omega

theorem checkIndex_le (cap : Nat) (index : List Int) (total n : Nat) (ht : total ≤ cap)
    (h : checkIndex cap index total = some n) : total ≤ n ∧ n ≤ cap := by
  fun_induction checkIndex cap index total generalizing n with
  | case1 total => simp at h; omega
  | case2 a total => simp at h
  | case3 first count rest total hneg => simp at h
  | case4 first count rest total hneg hbig => simp at h
  | case5 first count rest total hneg hbig ih =>
    have := ih n (by omega) h
    omega

/-- **xref_stream_in_bounds**: when the layout of a cross-reference stream is accepted, the
entry width is positive and all announced entries lie inside the decoded data — so every
slice `data[j*ew : (j+1)*ew]`, `j < n`, is in range and the entry loop runs at most
`dataLen` times, whatever `/W`, `/Index` and `/Size` say. -/
theorem xref_stream_in_bounds (w index : List Int) (dataLen ew n : Nat)
    (h : checkXRefStream w index dataLen = some (ew, n)) :
    0 < ew ∧ n * ew ≤ dataLen ∧ n ≤ dataLen := by
  unfold checkXRefStream at h
  cases hw : checkW w with
  | none => simp [hw] at h
  | some ew' =>
    simp only [hw] at h
    cases hi : checkIndex (dataLen / ew') index 0 with
    | none => simp [hi] at h
    | some n' =>
      simp only [hi, Option.some.injEq, Prod.mk.injEq] at h
      obtain ⟨h1, h2⟩ := h
      subst h1; subst h2
      have hpos := checkW_pos w ew' hw
      have hle := (checkIndex_le _ index 0 n' (Nat.zero_le _) hi).2
      have hmul : n' * ew' ≤ dataLen / ew' * ew' := Nat.mul_le_mul_right _ hle
      have hdiv : dataLen / ew' * ew' ≤ dataLen := Nat.div_mul_le_self _ _
      refine ⟨hpos, Nat.le_trans hmul hdiv, ?_⟩
      exact Nat.le_trans hle (Nat.div_le_self _ _)

/-- hostile layouts are refused (examples from the fault catalogue) -/
example : checkXRefStream [0, 0, 0] [0, 1000000] 40 = none := by decide
example : checkXRefStream [1, -4, 2] [0, 3] 40 = none := by decide
example : checkXRefStream [1, 4, 2] [0, 3, 7] 40 = none := by decide
example : checkXRefStream [1, 4, 2] [0, 6] 40 = none := by decide
/-- non-vacuity: an ordinary layout is accepted -/
example : checkXRefStream [1, 4, 2] [0, 3, 7, 2] 35 = some (7, 5) := by decide

/-- **grid_bounded**: a worksheet grid that is allocated has at most the cells still
available in the workbook's budget plus 16 for every cell element its part brings, whatever
row numbers and column references the file contains: memory stays in proportion to the file. -/
theorem grid_bounded (used elems maxRow maxCol : Nat) (h : gridAcceptedE used elems maxRow maxCol = true) :
    maxRow * (maxCol + 1) ≤ maxGridCells - used + gridCellsPerElement * elems := by
  unfold gridAcceptedE at h
  by_cases hr : maxRow > 0
  · simp only [hr, decide_true, Bool.true_and, Bool.not_eq_true', decide_eq_false_iff_not,
      Nat.not_lt] at h
    calc maxRow * (maxCol + 1) ≤ maxRow * ((maxGridCells - used + gridCellsPerElement * elems) / maxRow) :=
          Nat.mul_le_mul_left _ h
      _ ≤ maxGridCells - used + gridCellsPerElement * elems := Nat.mul_div_le _ _
  · have : maxRow = 0 := by omega
    subst this; simp

/-- a dense sheet is always allocated: as many cell elements as a sixteenth of the grid -/
theorem grid_dense_accepted (used elems maxRow maxCol : Nat)
    (h : maxRow * (maxCol + 1) ≤ gridCellsPerElement * elems) :
    gridAcceptedE used elems maxRow maxCol = true := by
  unfold gridAcceptedE
  by_cases hr : maxRow > 0
  · simp only [hr, decide_true, Bool.true_and, Bool.not_eq_true', decide_eq_false_iff_not, Nat.not_lt]
    apply (Nat.le_div_iff_mul_le hr).mpr
    rw [Nat.mul_comm]
    omega
  · have : maxRow = 0 := by omega
    subst this; simp

example : gridAccepted 1048576 16383 = false := by decide
example : gridAccepted 200 701 = true := by decide
example : gridAccepted 1 8388608 = true := by decide      -- 8 Mi + 1 cells, 16 are allowed for the one element
example : gridAccepted 1 8388624 = false := by decide

/-! ### page-tree traversal makes progress -/

theorem get_mem_keys (g : Graph) (n : Nat) (nd : Node) (h : g.get n = some nd) :
    n ∈ g.map Prod.fst := by
  unfold Graph.get at h
  cases hf : g.find? (·.1 = n) with
  | none => simp [hf] at h
  | some p =>
    have hm := List.mem_of_find?_eq_some hf
    have hp := List.find?_some hf
    simp at hp
    exact List.mem_map.mpr ⟨p, hm, hp⟩

theorem trun_progress (g : Graph) (fuel : Nat) (s : TState)
    (hnd : s.visited.Nodup) (hsub : s.visited ⊆ g.map Prod.fst)
    (hf : g.length + 1 ≤ fuel + s.visited.length) : trun g fuel s ≠ none := by
  induction fuel generalizing s with
  | zero =>
    have := List.Nodup.length_le_of_subset hnd hsub
    simp at this hf
    omega
  | succ fuel ih =>
    unfold trun
    cases hs : tstep g s with
    | done ls => simp
    | error => simp
    | running s' =>
      simp only
      unfold tstep at hs
      cases hst : s.stack with
      | nil => simp [hst] at hs
      | cons n rest =>
        simp only [hst] at hs
        by_cases hnv : n ∈ s.visited
        · simp [hnv] at hs
        · simp only [List.contains_eq_mem, hnv, decide_false, Bool.false_eq_true, if_false] at hs
          cases hg : g.get n with
          | none => simp [hg] at hs
          | some nd =>
            have hk := get_mem_keys g n nd hg
            have hvis : s'.visited = n :: s.visited := by
              cases nd <;> simp [hg] at hs <;> rw [← hs]
            apply ih s'
            · rw [hvis]; exact List.nodup_cons.mpr ⟨hnv, hnd⟩
            · rw [hvis]; intro x hx
              rcases List.mem_cons.mp hx with rfl | hx
              · exact hk
              · exact hsub hx
            · rw [hvis]; simp; omega

/-- **traversal_terminates**: for every object graph — cyclic, self-referencing, shared
subtrees — the page-tree walk ends within (number of objects + 2) steps with a page list or
an error; it never runs out of fuel. -/
theorem traversal_terminates (g : Graph) (kids : List Nat) : loadPages g kids ≠ none := by
  unfold loadPages
  apply trun_progress
  · exact List.nodup_nil
  · intro x hx; cases hx
  · simp

/-- a node that lists itself, and a tree that lists an ancestor, are errors, not loops -/
example : loadPages [(1, .pages [1])] [1] = some none := by decide
example : loadPages [(1, .pages [2]), (2, .pages [1, 3]), (3, .page)] [1] = some none := by decide
/-- non-vacuity: an ordinary two-level tree yields its leaves in order -/
example : loadPages [(1, .pages [2, 5]), (2, .pages [3, 4]), (3, .page), (4, .page), (5, .page)] [1]
    = some (some [3, 4, 5]) := by decide

end Tabula.C02
