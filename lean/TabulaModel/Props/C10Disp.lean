import TabulaModel.Model.Dispatch
import TabulaModel.Props.C10Hist
import TabulaModel.Props.C10E2E
/-!
# C10 — which reader call every terminal operation ends in, for every format

`Model/Dispatch.lean` follows the `if e.format == …` ladders of `Text`, `Document`,
`ToMarkdownWithOptions` and `Chunks` / `ChunksWithConfig` (compared with the implementation by
the op `c10.disp`: the harness makes every candidate call on the format's reader itself and the
model has to name the one whose result the extractor returned).

* **route_cases** — a PDF runs tabula's page pipeline; a PDF-only operation on another format
  and an unknown format have no reader; everything else is ONE call on the reader of the
  extractor's format;
* **route_depends_on** — for the six other formats that call is a function of the format, the
  operation and the two exclude flags: page selection, `ByColumn`, `PreserveLayout`,
  `JoinParagraphs` and the builder error do not reach it;
* **exclude_flags_reach_text_and_markdown**, **document_takes_no_options**,
  **epub_takes_no_options** — where the flags arrive and where they are dropped (`Document`,
  `Chunks`, `ChunksWithConfig` of every format and every operation of an EPUB ignore
  `ExcludeHeaders` / `ExcludeFooters`; an EPUB's `ToMarkdownWithOptions` ignores its argument);
* **dispatch_after_history** — after ANY history, an operation of a non-PDF extractor that
  succeeds made exactly the call `route` names for the chain of calls that built the extractor,
  with `ExcludeHeaders` / `ExcludeFooters` set iff some call of the chain set them.
-/
namespace Tabula.C10Disp
open Tabula.PageSel Tabula.Builder Tabula.Dispatch

/-- **route_cases** -/
theorem route_cases (k : Term) (e : Ext) :
    (e.format = .pdf → route k e = .pdfPipeline) ∧
    (e.format ≠ .pdf → (k.pdfOnly = true ∨ e.format = .unknown) → route k e = .unsupported) ∧
    (e.format ≠ .pdf → k.pdfOnly = false → e.format ≠ .unknown →
      ∃ c, route k e = .reader c ∧ c.reader = e.format) := by
  refine ⟨?_, ?_, ?_⟩
  · intro h; simp [route, h]
  · intro h hk
    unfold route
    rw [if_neg h]
    rcases hk with hk | hk <;> simp [hk]
  · intro h hk hu
    unfold route
    rw [if_neg h]
    simp only [hk, Bool.false_or, decide_eq_true_eq, hu, if_false]
    cases k <;> simp [Term.pdfOnly] at hk <;> simp

/-- **route_depends_on**: two extractors of the same format with the same `ExcludeHeaders` /
`ExcludeFooters` flags are routed to the same call, whatever their page selection, layout
options and builder error. -/
theorem route_depends_on (k : Term) (e e' : Ext) (hf : e.format = e'.format)
    (hh : e.opts.excludeHeaders = e'.opts.excludeHeaders) (hft : e.opts.excludeFooters = e'.opts.excludeFooters) :
    route k e = route k e' := by
  unfold route optsFor
  rw [hf, hh, hft]

example : route .toMarkdown { format := .docx, opts := { pages := [7], byColumn := true, excludeHeaders := true } } =
    route .toMarkdown { format := .docx, err := true, opts := { excludeHeaders := true, preserveLayout := true } } := by
  decide

/-- **exclude_flags_reach_text_and_markdown**: for DOCX, ODT, XLSX, PPTX and HTML, `Text` and
`ToMarkdown` hand the extractor's two exclude flags to the reader; PPTX alone gets
`IncludeNotes` / `IncludeTitles`; only `ToMarkdown` hands on the caller's markdown options. -/
theorem exclude_flags_reach_text_and_markdown (k : Term) (e : Ext)
    (hf : e.format = .docx ∨ e.format = .odt ∨ e.format = .xlsx ∨ e.format = .pptx ∨ e.format = .html)
    (hk : k = .text ∨ k = .toMarkdown) :
    ∃ c, route k e = .reader c ∧ c.reader = e.format ∧ c.post = .none ∧
      c.eh = e.opts.excludeHeaders ∧ c.ef = e.opts.excludeFooters ∧
      c.extra = (e.format == .pptx) ∧ c.rag = (k == .toMarkdown) ∧
      c.method = (if k = .text then .text else .markdown) := by
  rcases hf with hf | hf | hf | hf | hf <;> rcases hk with rfl | rfl <;>
    simp [route, optsFor, hf, Term.pdfOnly]

/-- **document_takes_no_options**: `Document`, `Chunks` and `ChunksWithConfig` of a non-PDF
extractor call `r.Document()`: neither exclude flag reaches the reader. -/
theorem document_takes_no_options (k : Term) (e : Ext) (hk : k = .document ∨ k = .chunks ∨ k = .chunksWithConfig)
    (c : RCall) (h : route k e = .reader c) :
    c.method = .document ∧ c.eh = false ∧ c.ef = false ∧ c.extra = false ∧ c.rag = false ∧
    (c.post = .none ↔ k = .document) := by
  unfold route at h
  split at h
  · cases h
  · split at h
    · cases h
    · rcases hk with rfl | rfl | rfl <;> simp only [Route.reader.injEq] at h <;> subst h <;> simp

/-- **epub_takes_no_options**: whatever the chain configured, every operation of an EPUB
extractor reaches the reader without options (`Text()`, `Markdown()`, `Document()`), and
`ToMarkdownWithOptions` drops its argument. -/
theorem epub_takes_no_options (k : Term) (e : Ext) (hf : e.format = .epub) (c : RCall)
    (h : route k e = .reader c) :
    c.reader = .epub ∧ c.eh = false ∧ c.ef = false ∧ c.extra = false ∧ c.rag = false := by
  unfold route optsFor at h
  rw [hf] at h
  simp only [reduceCtorEq, if_false, Bool.or_false] at h
  cases k <;> simp [Term.pdfOnly] at h <;> subst h <;> simp

example : route .toMarkdown { format := .epub, opts := { excludeHeaders := true } } =
    .reader ⟨.epub, .markdown, false, false, false, false, .none⟩ := by decide

/-- a successful whole-document answer comes from the reader branch -/
theorem whole_is_reader (w : World) (k : Term) (e : Ext) (hu : e.format ≠ .unknown)
    (h : termStatic w k e = .whole) :
    e.format ≠ .pdf ∧ k.pdfOnly = false ∧ ∃ c, route k e = .reader c ∧ c.reader = e.format := by
  unfold termStatic at h
  split at h
  · cases h
  · rename_i h1
    split at h
    · cases h
    · rename_i h2
      split at h
      · unfold termBodyF at h
        have hpdf : e.format ≠ .pdf := by
          intro hp
          rw [if_pos hp] at h
          unfold termBody at h
          split at h
          · cases h
          · split at h
            · cases h
            · split at h <;> cases h
        have hk : k.pdfOnly = false := by
          cases hk : k.pdfOnly with
          | false => rfl
          | true =>
            exfalso; apply h2
            simp [hk, hpdf]
        exact ⟨hpdf, hk, (route_cases k e).2.2 hpdf hk hu⟩
      · cases h

/-- **dispatch_after_history**: after ANY history on the family of `Open(name)` for a name of
format `f`, if a terminal operation on extractor `i` — built by the chain `cs` — succeeds on a
document that is not a PDF, then the call it made is the one `route` names: on the reader of
`f`, and for DOCX / ODT / XLSX / PPTX / HTML `Text` and `ToMarkdown` with `ExcludeHeaders` /
`ExcludeFooters` set exactly when some call of the chain set them (`ExcludeHeadersAndFooters`
sets both) — whatever else the chain did and whatever ran before. -/
theorem dispatch_after_history (w : World) (f : Fmt) (hu : f ≠ .unknown) (ops : List Op) (i : Nat)
    (cs : List BCall) (hl : (lineage [[]] ops)[i]? = some cs) (k : Term)
    (hwhole : (terminal w k (exec w (openBaseF f) ops) i).2 = .whole) :
    ∃ c, route k (chainFrom { format := f } cs) = .reader c ∧ c.reader = f ∧
      (f ≠ .epub → (k = .text ∨ k = .toMarkdown) →
        c.eh = cs.any C10E2E.setsHeaders ∧ c.ef = cs.any C10E2E.setsFooters) := by
  rw [(C10Hist.answer_of_lineage w f ops i cs hl).1 k] at hwhole
  have hfmt : (chainFrom { format := f } cs).format = f := (C10E2E.chain_cfg cs { format := f }).2.2.1
  obtain ⟨hpdf, hk, c, hc, hcr⟩ := whole_is_reader w k _ (by rw [hfmt]; exact hu) hwhole
  refine ⟨c, hc, by rw [hcr, hfmt], ?_⟩
  intro hne hk'
  obtain ⟨oh, of_, _⟩ := C10E2E.options_commute cs { format := f }
  have hform : f = .docx ∨ f = .odt ∨ f = .xlsx ∨ f = .pptx ∨ f = .html := by
    rw [hfmt] at hpdf
    cases f <;> simp_all
  obtain ⟨c', hc', _, _, heh, hef, _⟩ :=
    exclude_flags_reach_text_and_markdown k (chainFrom { format := f } cs) (by rw [hfmt]; exact hform) hk'
  rw [hc] at hc'
  cases hc'
  rw [heh, hef, oh, of_]
  simp

example : let w : World := ⟨true, some 1⟩
    let ops := [Op.nonTerm 0 .pageCount, .derive 0 .excludeFooters, .term 0 .text, .derive 1 (.pages [9]),
      .derive 2 .byColumn]
    (lineage [[]] ops)[3]? = some [.excludeFooters, .pages [9], .byColumn] ∧
    (terminal w .toMarkdown (exec w (openBaseF .odt) ops) 3).2 = .whole ∧
    route .toMarkdown (chainFrom { format := .odt } [.excludeFooters, .pages [9], .byColumn]) =
      .reader ⟨.odt, .markdown, false, true, false, true, .none⟩ := by decide

end Tabula.C10Disp
