import TabulaModel.Lemmas.BuilderAuto
import TabulaModel.Props.C10Hist
/-!
# C10 — the life cycle of every extractor as a state machine over call histories

`Props/C10.lean` and `C10Hist.lean` prove invariants of the handle store (ownership, one open
reader per owner).  This file says what the life-cycle fields of EVERY extractor ARE after
ANY history, as a function of the calls alone:

* **automaton_refines**, **flags_of_history** — the store model run on a history and the
  three-state automaton of `Model/BuilderAuto.lean` (`idle` / `holding` / `borrowed`, moved by
  `ensureReader`, `Close`, the frames of the terminal and non-terminal operations, the failing
  `ensurePDFReader`, `clone`) run on the same calls agree on `reader != nil`, `ownsReader` and
  `readerOpened` of every extractor, on base and derived extractors, successes and failures;
* **life_local** — the state of an extractor is a fold over ITS OWN operations: nothing that is
  done to its parent, its children or its siblings, in any interleaving, shows in its flags;
* **holds_iff_last_op** — it holds a reader exactly when the last operation called on it was a
  `PageCount` / `IsMultiColumn` / `IsCharacterLevel` that got through `ensureReader`;
* **released_after_terminal**, **fd_closed_form**, **handles_released** — hence after a
  terminal operation or a `Close`, at the end of any history, the receiver holds nothing; the
  number of open readers of a family is the number of extractors whose last operation was such
  a probe; and a program that ends its use of every extractor with a terminal operation or a
  `Close` leaves no reader open, whatever it did before and in whatever order;
* **reader_family_borrowed** — every extractor of a `FromReader` family is `borrowed` at all
  times: nothing the family does opens or closes anything.

Histories are `wellScoped`: an operation names an extractor that exists when it is called.
-/
namespace Tabula.C10Auto
open Tabula.PageSel Tabula.Builder Tabula.BuilderAuto

/-- the base extractor of `Open(name)` for a name of format `f` -/
abbrev fileBase (f : Fmt) : Ext := { format := f }

/-- the base extractor of `FromReader(r)` -/
abbrev lentBase : Ext := { hasFile := false, reader := some 0, owns := false, opened := true }

theorem abs_openBaseF (f : Fmt) : abs (openBaseF f) = [.idle] := rfl
theorem abs_readerBase : abs readerBase = [.borrowed] := rfl

/-- **automaton_refines**: for every history, the life-cycle states of the extractors of the
store are the ones the automaton computes from the calls. -/
theorem automaton_refines (w : World) (f : Fmt) (ops : List Op) :
    abs (exec w (openBaseF f) ops) = lifeRun w (fileBase f) [[]] [.idle] ops ∧
    abs (exec w readerBase ops) = lifeRun w lentBase [[]] [.borrowed] ops := by
  constructor
  · have := abs_exec w (fileBase f) ops (inv_openBaseF f) (lin_base (fileBase f) [])
    rw [abs_openBaseF] at this
    exact this
  · have := abs_exec w lentBase ops inv_readerBase (lin_base lentBase [true])
    exact this

/-- **flags_of_history**: after ANY history on the family of `Open(name)`, the record of every
extractor has `reader != nil`, `ownsReader`, `readerOpened` as the automaton's state says, and
the configuration (options, builder error, format, file name) of the chain of calls that built
it.  The whole record, except the identity of the reader, is a function of the calls. -/
theorem flags_of_history (w : World) (f : Fmt) (ops : List Op) (i : Nat) (e : Ext)
    (he : (exec w (openBaseF f) ops).exts[i]? = some e) :
    ∃ l cs, (lifeRun w (fileBase f) [[]] [.idle] ops)[i]? = some l ∧
      (lineage [[]] ops)[i]? = some cs ∧
      e.reader.isSome = l.hasReader ∧ e.owns = l.owns ∧ e.opened = l.opened ∧
      e.static = (chainFrom (fileBase f) cs).static := by
  have hs := inv_exec w ops (inv_openBaseF f)
  have hl : LinInv (fileBase f) (lineage [[]] ops) (exec w (openBaseF f) ops) :=
    lin_exec w _ ops (lin_base _ [])
  have hi : i < (lineage [[]] ops).length := by rw [hl.1]; exact lt_of_getElem? he
  obtain ⟨h1, h2, h3⟩ := flags_of_lsOf hs he
  refine ⟨lsOf e, (lineage [[]] ops)[i], ?_, List.getElem?_eq_getElem hi, h3.symm, h1.symm, h2.symm, ?_⟩
  · rw [← (automaton_refines w f ops).1, abs_getElem?, he]; rfl
  · exact hl.2 i _ e (List.getElem?_eq_getElem hi) he

/-- the same for the family of `FromReader(r)` -/
theorem flags_of_history_reader (w : World) (ops : List Op) (i : Nat) (e : Ext)
    (he : (exec w readerBase ops).exts[i]? = some e) :
    ∃ l, (lifeRun w lentBase [[]] [.borrowed] ops)[i]? = some l ∧
      e.reader.isSome = l.hasReader ∧ e.owns = l.owns ∧ e.opened = l.opened := by
  have hs := inv_exec w ops inv_readerBase
  obtain ⟨h1, h2, h3⟩ := flags_of_lsOf hs he
  refine ⟨lsOf e, ?_, h3.symm, h1.symm, h2.symm⟩
  rw [← (automaton_refines w .pdf ops).2, abs_getElem?, he]; rfl

example : let w : World := ⟨true, some 3⟩
    let ops := [Op.nonTerm 0 .pageCount, .derive 0 (.pages [2]), .nonTerm 1 .isMultiColumn,
      .term 0 .text, .derive 1 .byColumn, .close 1]
    lifeRun w (fileBase .pdf) [[]] [.idle] ops = [.idle, .idle, .idle] ∧
    lifeRun w (fileBase .pdf) [[]] [.idle] (ops.take 3) = [.holding, .holding] := by decide

/-! ## locality -/

theorem lifeRun_length (w : World) (e0 : Ext) (ops : List Op) : ∀ (L : List (List BCall)) (S : List LS),
    L.length = S.length → (lifeRun w e0 L S ops).length = (lineage L ops).length := by
  induction ops with
  | nil => intro L S h; exact h.symm
  | cons op ops ih =>
    intro L S h
    rw [lineage_cons]
    exact ih _ _ (lsStep_length w (cfgs e0 L) S L op h)

/-- **life_local**: in any well-scoped history on the family of `Open(name)`, the final state of
extractor `i` — built by the chain `cs` — is what ITS OWN operations, in their order, make of
`idle`.  Operations on other extractors (its parent's `PageCount`, a sibling's `Text`, a child's
`Close`, …) and their interleaving with its own do not enter. -/
theorem life_local (w : World) (f : Fmt) (ops : List Op) (hws : wellScoped 1 ops = true)
    (i : Nat) (cs : List BCall) (hl : (lineage [[]] ops)[i]? = some cs) :
    (lifeRun w (fileBase f) [[]] [.idle] ops)[i]? =
      some ((ownOps i ops).foldl (lsLocal w (chainFrom (fileBase f) cs)) .idle) := by
  cases i with
  | zero =>
    have h0 : ([[]] : List (List BCall))[0]? = some cs := by
      rw [← lineage_get_lt ops [[]] 0 (by simp)]; exact hl
    exact life_old w _ ops [[]] [.idle] rfl hws 0 cs .idle h0 rfl
  | succ j =>
    have hnb : NoBorrowed [LS.idle] := by
      intro l hl'; simp only [List.mem_cons, List.not_mem_nil, or_false] at hl'; rw [hl']; simp
    exact life_new w _ ops [[]] [.idle] rfl hws hnb (j + 1) cs (by simp) hl

example : let ops := [Op.nonTerm 0 .pageCount, .derive 0 (.pages [2]), .nonTerm 1 .isMultiColumn,
      .term 0 .text, .nonTerm 1 .pageCount]
    wellScoped 1 ops = true ∧ ownOps 1 ops = [.nonTerm 1 .isMultiColumn, .nonTerm 1 .pageCount] ∧
    ownOps 0 ops = [.nonTerm 0 .pageCount, .term 0 .text] := by decide

/-- an extractor of the family of `Open(name)` is never `borrowed`, and holds a reader only
when its file can be opened and it carries no builder error -/
theorem state_sound (w : World) (f : Fmt) (ops : List Op) (hws : wellScoped 1 ops = true)
    (i : Nat) (cs : List BCall) (hl : (lineage [[]] ops)[i]? = some cs) (l : LS)
    (hS : (lifeRun w (fileBase f) [[]] [.idle] ops)[i]? = some l) :
    Jst w (chainFrom (fileBase f) cs) l := by
  rw [life_local w f ops hws i cs hl] at hS
  cases hS
  exact (fold_last w _ (ownOps i ops) .idle ⟨by simp, by intro h; cases h⟩ (ownOps_mutates i ops)).1

/-- **holds_iff_last_op**: after a well-scoped history, extractor `i` holds a reader iff the LAST
operation called on it (configuration methods do not count) is a `PageCount`, `IsMultiColumn` or
`IsCharacterLevel` that got through `ensureReader`: no builder error, an operation its format
supports, a file that opens.  An extractor nothing was called on holds nothing. -/
theorem holds_iff_last_op (w : World) (f : Fmt) (ops : List Op) (hws : wellScoped 1 ops = true)
    (i : Nat) (cs : List BCall) (hl : (lineage [[]] ops)[i]? = some cs) :
    (lifeRun w (fileBase f) [[]] [.idle] ops)[i]? = some .holding ↔
      holdsAtEnd w (chainFrom (fileBase f) cs) (ownOps i ops) = true := by
  rw [life_local w f ops hws i cs hl]
  have h := (fold_last w (chainFrom (fileBase f) cs) (ownOps i ops) .idle
    ⟨by simp, by intro h; cases h⟩ (ownOps_mutates i ops)).2
  simp only [Option.some.injEq]
  rw [h]
  unfold holdsAtEnd
  cases (ownOps i ops).getLast? with
  | none => simp
  | some op => rfl

/-- in terms of the record: `ownsReader` of extractor `i` after the history -/
theorem owns_iff_last_op (w : World) (f : Fmt) (ops : List Op) (hws : wellScoped 1 ops = true)
    (i : Nat) (e : Ext) (he : (exec w (openBaseF f) ops).exts[i]? = some e) :
    ∃ cs, (lineage [[]] ops)[i]? = some cs ∧
      (e.owns = true ↔ holdsAtEnd w (chainFrom (fileBase f) cs) (ownOps i ops) = true) := by
  obtain ⟨l, cs, hl, hcs, _, hown, _, _⟩ := flags_of_history w f ops i e he
  refine ⟨cs, hcs, ?_⟩
  rw [← holds_iff_last_op w f ops hws i cs hcs, hl, hown]
  cases l <;> simp [LS.owns]

example : let w : World := ⟨true, some 3⟩
    let ops := [Op.nonTerm 0 .pageCount, .derive 0 (.pages [2]), .nonTerm 1 .isMultiColumn,
      .term 0 .text, .nonTerm 1 .pageCount]
    holdsAtEnd w (chainFrom (fileBase .pdf) [.pages [2]]) (ownOps 1 ops) = true ∧
    holdsAtEnd w (chainFrom (fileBase .pdf) []) (ownOps 0 ops) = false ∧
    (exec w (openBaseF .pdf) ops).fdCount = 1 := by decide

/-! ## handles are released -/

theorem ownOps_append (i : Nat) (a b : List Op) : ownOps i (a ++ b) = ownOps i a ++ ownOps i b := by
  simp [ownOps]

/-- **released_after_terminal**: in any well-scoped history that ENDS with a terminal operation
(any of the fourteen, successful or failed) or a `Close` on extractor `i`, the record of `i`
has no reader, owns nothing and is not opened — whatever ran before, on `i` or on any other
extractor of the family. -/
theorem released_after_terminal (w : World) (f : Fmt) (ops : List Op) (last : Op)
    (hlast : (∃ k, last = .term last.target k) ∨ last = .close last.target)
    (hws : wellScoped 1 (ops ++ [last]) = true) (e : Ext)
    (he : (exec w (openBaseF f) (ops ++ [last])).exts[last.target]? = some e) :
    e.reader = none ∧ e.owns = false ∧ e.opened = false := by
  obtain ⟨l, cs, hl, hcs, h1, h2, h3, _⟩ := flags_of_history w f (ops ++ [last]) last.target e he
  have hJ := state_sound w f _ hws _ cs hcs l hl
  have hmut : last.mutates = true := by
    rcases hlast with ⟨k, hk⟩ | hk <;> rw [hk] <;> rfl
  have hnh : l ≠ .holding := by
    intro hh
    rw [hh] at hl
    have := (holds_iff_last_op w f _ hws _ cs hcs).mp hl
    unfold holdsAtEnd at this
    rw [ownOps_append] at this
    have hown : ownOps last.target [last] = [last] := by simp [ownOps, hmut]
    rw [hown, List.getLast?_append] at this
    simp only [List.getLast?_singleton, Option.some_or] at this
    rcases hlast with ⟨k, hk⟩ | hk <;> rw [hk] at this <;> simp [opensReader] at this
  have hidle : l = .idle := by
    cases l with
    | idle => rfl
    | holding => exact absurd rfl hnh
    | borrowed => exact absurd rfl hJ.1
  rw [hidle] at h1 h2 h3
  refine ⟨?_, h2, h3⟩
  cases hr : e.reader with
  | none => rfl
  | some r => rw [hr] at h1; cases h1

example : let w : World := ⟨true, some 3⟩
    let ops := [Op.nonTerm 0 .pageCount, .derive 0 (.pages [7]), .nonTerm 1 .pageCount]
    wellScoped 1 (ops ++ [.term 1 .lines]) = true ∧
    (exec w (openBaseF .pdf) (ops ++ [.term 1 .lines])).exts[1]? =
      some { opts := { pages := [7] } } := by decide

/-- histories compose -/
theorem exec_append (w : World) (a b : List Op) : ∀ s : Store, exec w s (a ++ b) = exec w (exec w s a) b := by
  induction a with
  | nil => intro s; rfl
  | cons op a ih => intro s; exact ih _

/-- **close_after_terminal_is_noop**: "closing again is harmless", over all histories: in any
well-scoped history that ends with a terminal operation or a `Close` on extractor `i`, a further
`Close` of `i` — and so any number of them — returns nil and leaves the WHOLE store (every
record, every reader) exactly as it was. -/
theorem close_after_terminal_is_noop (w : World) (f : Fmt) (ops : List Op) (last : Op)
    (hlast : (∃ k, last = .term last.target k) ∨ last = .close last.target)
    (hws : wellScoped 1 (ops ++ [last]) = true)
    (hex : last.target < (exec w (openBaseF f) (ops ++ [last])).exts.length) :
    step w (exec w (openBaseF f) (ops ++ [last])) (.close last.target) =
      (exec w (openBaseF f) (ops ++ [last]), .closed) ∧
    exec w (openBaseF f) (ops ++ [last] ++ [.close last.target, .close last.target]) =
      exec w (openBaseF f) (ops ++ [last]) := by
  have he := List.getElem?_eq_getElem hex
  obtain ⟨_, _, ho⟩ := released_after_terminal w f ops last hlast hws _ he
  have hs := inv_exec w (ops ++ [last]) (inv_openBaseF f)
  have hstep : step w (exec w (openBaseF f) (ops ++ [last])) (.close last.target) =
      (exec w (openBaseF f) (ops ++ [last]), .closed) := by
    simp only [step, closeOp, he, closeExt_unopened hs he ho]
  refine ⟨hstep, ?_⟩
  rw [exec_append]
  simp only [exec, hstep]

example : let w : World := ⟨true, some 3⟩
    let ops := [Op.nonTerm 0 .pageCount, .derive 0 (.pages [2]), .nonTerm 1 .pageCount]
    wellScoped 1 (ops ++ [.term 1 .chunks]) = true ∧
    exec w (openBaseF .pdf) (ops ++ [.term 1 .chunks] ++ [.close 1, .close 1]) =
      exec w (openBaseF .pdf) (ops ++ [.term 1 .chunks]) := by decide

/-- the open readers are the `holding` states -/
theorem owners_eq_holding {s : Store} (h : StoreInv s) :
    owners s = (abs s).countP (· == .holding) := by
  unfold owners abs
  rw [List.countP_map]
  apply List.countP_congr
  intro e he
  obtain ⟨i, hi, hie⟩ := List.getElem_of_mem he
  have hget : s.exts[i]? = some e := by rw [List.getElem?_eq_getElem hi, hie]
  have := lsOf_holding_iff h hget
  simp only [Function.comp, beq_iff_eq]
  exact this.symm

/-- counting the `holding` states position by position -/
theorem count_holding (T : List LS) (g : Nat → Bool) : ∀ (k : Nat),
    (∀ i, i < T.length → (T[i]? == some LS.holding) = g (k + i)) →
    T.countP (· == .holding) = ((List.range' k T.length).filter g).length := by
  induction T with
  | nil => intro k _; rfl
  | cons a T ih =>
    intro k hg
    have h0 := hg 0 (by simp)
    simp only [List.getElem?_cons_zero, Nat.add_zero] at h0
    have hrest : ∀ i, i < T.length → (T[i]? == some LS.holding) = g (k + 1 + i) := by
      intro i hi
      have := hg (i + 1) (by simp; omega)
      simp only [List.getElem?_cons_succ] at this
      rw [this]; congr 1; omega
    simp only [List.countP_cons, List.length_cons, List.range'_succ, List.filter_cons]
    rw [ih (k + 1) hrest, ← h0]
    cases a <;> simp

/-- **fd_closed_form**: after a well-scoped history on the family of `Open(name)` the number of
open readers is the number of extractors whose last operation was a probe that opened the file. -/
theorem fd_closed_form (w : World) (f : Fmt) (ops : List Op) (hws : wellScoped 1 ops = true) :
    (exec w (openBaseF f) ops).fdCount =
      ((List.range (lineage [[]] ops).length).filter fun i =>
        match (lineage [[]] ops)[i]? with
        | some cs => holdsAtEnd w (chainFrom (fileBase f) cs) (ownOps i ops)
        | none => false).length := by
  have hs := inv_exec w ops (inv_openBaseF f)
  rw [(C10Hist.fd_is_owners w f ops).1, owners_eq_holding hs, (automaton_refines w f ops).1]
  have hlen := lifeRun_length w (fileBase f) ops [[]] [.idle] rfl
  generalize hS : lifeRun w (fileBase f) [[]] [.idle] ops = S at hlen
  have key : ∀ i, i < S.length → (S[i]? == some LS.holding) =
      (match (lineage [[]] ops)[i]? with
        | some cs => holdsAtEnd w (chainFrom (fileBase f) cs) (ownOps i ops)
        | none => false) := by
    intro i hi
    have hi' : i < (lineage [[]] ops).length := by rw [← hlen]; exact hi
    rw [List.getElem?_eq_getElem hi']
    simp only
    have := holds_iff_last_op w f ops hws i _ (List.getElem?_eq_getElem hi')
    rw [hS] at this
    cases hh : holdsAtEnd w (chainFrom (fileBase f) (lineage [[]] ops)[i]) (ownOps i ops) with
    | true => rw [this.mpr hh]; rfl
    | false =>
      cases hb : (S[i]? == some LS.holding) with
      | false => rfl
      | true =>
        have := this.mp (by simpa using hb)
        rw [hh] at this; cases this
  rw [← hlen]
  clear hS hlen
  exact count_holding S _ 0 (by simpa using key) |>.trans (by rw [List.range_eq_range'])

/-- **handles_released**: a well-scoped history in which the last operation called on every
extractor is a terminal operation or a `Close` (or nothing was called on it, or its last probe
failed before opening) leaves NO reader of the family open — whatever happened in between:
probes on bases with derived extractors alive, failures, repeated Closes, any interleaving. -/
theorem handles_released (w : World) (f : Fmt) (ops : List Op) (hws : wellScoped 1 ops = true)
    (hfin : ∀ i cs, (lineage [[]] ops)[i]? = some cs →
      holdsAtEnd w (chainFrom (fileBase f) cs) (ownOps i ops) = false) :
    (exec w (openBaseF f) ops).fdCount = 0 := by
  rw [fd_closed_form w f ops hws, List.length_eq_zero_iff, List.filter_eq_nil_iff]
  intro i _
  cases hl : (lineage [[]] ops)[i]? with
  | none => simp
  | some cs => simp [hfin i cs hl]

/-- the usual discipline: every extractor that was used at all was last used by a terminal
operation or closed -/
theorem released_when_finished (w : World) (f : Fmt) (ops : List Op) (hws : wellScoped 1 ops = true)
    (hfin : ∀ i op, (ownOps i ops).getLast? = some op → (∃ j k, op = .term j k) ∨ (∃ j, op = .close j)) :
    (exec w (openBaseF f) ops).fdCount = 0 := by
  apply handles_released w f ops hws
  intro i cs _
  unfold holdsAtEnd
  cases hl : (ownOps i ops).getLast? with
  | none => rfl
  | some op =>
    rcases hfin i op hl with ⟨j, k, rfl⟩ | ⟨j, rfl⟩ <;> rfl

example : let w : World := ⟨true, some 3⟩
    let ops := [Op.nonTerm 0 .pageCount, .derive 0 (.pages [2]), .nonTerm 1 .isMultiColumn,
      .derive 1 .byColumn, .nonTerm 2 .pageCount, .term 1 .text, .close 0, .term 2 .blocks, .close 0]
    wellScoped 1 ops = true ∧
    (ownOps 0 ops).getLast? = some (.close 0) ∧ (ownOps 1 ops).getLast? = some (.term 1 .text) ∧
    (ownOps 2 ops).getLast? = some (.term 2 .blocks) ∧ (ownOps 3 ops).getLast? = none ∧
    (exec w (openBaseF .pdf) ops).fdCount = 0 ∧
    (exec w (openBaseF .pdf) (ops.take 5)).fdCount = 3 := by decide

/-! ## `FromReader` families -/

theorem lsStep_allBorrowed (w : World) (C : List Ext) (S : List LS) (op : Op)
    (h : ∀ l ∈ S, l = LS.borrowed) : ∀ l ∈ lsStep w C S op, l = LS.borrowed := by
  have hloc : ∀ (e : Ext) (o : Op), lsLocal w e .borrowed o = .borrowed := by
    intro e o
    cases o with
    | derive => rfl
    | close => rfl
    | term j k =>
      simp only [lsLocal, lsTerm, lsMismatch, lsEnsure_borrowed, lsClose_borrowed]
      split
      · rfl
      · split
        · split <;> rfl
        · rfl
    | nonTerm j k =>
      simp only [lsLocal, lsNonTerm, lsMismatch, lsEnsure_borrowed, lsClose_borrowed]
      split
      · rfl
      · split
        · split <;> rfl
        · rfl
  cases op with
  | derive j c =>
    simp only [lsStep]
    cases hj : S[j]? with
    | none => exact h
    | some p =>
      intro l hl
      simp only [List.mem_append, List.mem_cons, List.not_mem_nil, or_false] at hl
      rcases hl with hl | hl
      · exact h l hl
      · rw [hl, h p (List.mem_of_getElem? hj)]; rfl
  | term j k =>
    simp only [lsStep]
    split
    · rename_i p e hp _
      intro l hl
      rcases mem_set hl with hl | hl
      · rw [hl, h p (List.mem_of_getElem? hp)]; exact hloc e (.term j k)
      · exact h l hl
    · exact h
  | nonTerm j k =>
    simp only [lsStep]
    split
    · rename_i p e hp _
      intro l hl
      rcases mem_set hl with hl | hl
      · rw [hl, h p (List.mem_of_getElem? hp)]; exact hloc e (.nonTerm j k)
      · exact h l hl
    · exact h
  | close j =>
    simp only [lsStep]
    split
    · rename_i p hp
      intro l hl
      rcases mem_set hl with hl | hl
      · rw [hl, h p (List.mem_of_getElem? hp)]; rfl
      · exact h l hl
    · exact h

theorem lifeRun_allBorrowed (w : World) (e0 : Ext) (ops : List Op) : ∀ (L : List (List BCall)) (S : List LS),
    (∀ l ∈ S, l = LS.borrowed) → ∀ l ∈ lifeRun w e0 L S ops, l = LS.borrowed := by
  induction ops with
  | nil => intro L S h; exact h
  | cons op ops ih =>
    intro L S h
    exact ih _ _ (lsStep_allBorrowed w _ S op h)

/-- **reader_family_borrowed**: every extractor of a family grown from `FromReader(r)` has, at
every point of every history, the caller's reader, opened and NOT owned: no terminal operation,
probe or `Close` of the family opens or closes anything. -/
theorem reader_family_borrowed (w : World) (ops : List Op) (i : Nat) (e : Ext)
    (he : (exec w readerBase ops).exts[i]? = some e) :
    e.owns = false ∧ e.opened = true ∧ e.reader.isSome = true := by
  obtain ⟨l, hl, h1, h2, h3⟩ := flags_of_history_reader w ops i e he
  have : l = .borrowed :=
    lifeRun_allBorrowed w lentBase ops [[]] [.borrowed]
      (by intro l hl; simpa using hl) l (List.mem_of_getElem? hl)
  rw [this] at h1 h2 h3
  exact ⟨h2, h3, h1⟩

example : (exec ⟨true, some 2⟩ readerBase [.derive 0 (.pages [1]), .term 1 .text, .close 0, .term 0 .chunks]).exts.map
    (fun e => (e.owns, e.opened)) = [(false, true), (false, true)] := by decide

end Tabula.C10Auto
