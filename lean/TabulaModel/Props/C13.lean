import TabulaModel.Lemmas.Split
import TabulaModel.Lemmas.SplitValid
import TabulaModel.Lemmas.SplitBound
import TabulaModel.Lemmas.Overlap
import TabulaModel.Lemmas.OverlapValid
/-!
# C13 — Splitting respects the size limit and never corrupts text

Property theorems about `Model/Split.lean` (`SizeCalculator.SplitToSize` and the split
point search of `rag/size_config.go`) and `Model/Overlap.lean` (`rag/overlap.go`), both
modelled as the code is after the C13 fixes (branch `agent-C13`).  Helper lemmas:
`Lemmas/Split.lean` (whitespace, TrimSpace, decomposition into gaps and pieces),
`Lemmas/Utf8.lean`, `Lemmas/SplitValid.lean` (character boundaries), `Lemmas/SplitBound.lean`
(size bound), `Lemmas/Overlap.lean`, `Lemmas/OverlapValid.lean`.
-/
set_option linter.unusedVariables false
namespace Tabula.C13
open Tabula.Split Tabula.Overlap

/-! ## termination -/

/-- **split_terminates.** `splitToSize` is defined by well-founded recursion on the length of
`remaining`; Lean accepting the definition *is* the termination proof.  This theorem is the
decrease it rests on: whenever the loop continues (`0 < splitPos`), the next `remaining`
(`strings.TrimSpace(remaining[splitPos:])`) is strictly shorter — for every text and every
split position, whatever the size configuration. -/
theorem split_terminates (remaining : Str) (splitPos : Nat) (h0 : 0 < splitPos)
    (hne : remaining ≠ []) : (trimSpace (remaining.drop splitPos)).length < remaining.length := by
  have h1 := trimSpace_length_le (remaining.drop splitPos)
  have h2 : 0 < remaining.length := List.length_pos_iff.mpr hne
  simp only [List.length_drop] at h1
  omega

/-- the loop equation that the accepted definition satisfies (one iteration of the Go loop) -/
theorem split_loop_equation (c : SizeConfig) (remaining : Str) (bs : List Boundary) :
    splitToSize c remaining bs =
      if remaining.length = 0 then []
      else if !isAboveMax c remaining then [remaining]
      else
        let splitPos := findSplitPointAt c remaining bs c.maxValue c.maxUnit
        if splitPos = 0 ∨ splitPos ≥ remaining.length then [remaining]
        else
          let chunk := trimSpace (remaining.take splitPos)
          let rest := trimSpace (remaining.drop splitPos)
          let bs' := adjustBoundaryPositions bs (splitPos + leadingSpace (remaining.drop splitPos))
          if chunk = [] then splitToSize c rest bs'
          else chunk :: splitToSize c rest bs' := by
  rw [splitToSize]
  simp only [dite_eq_ite]

/-- no piece is empty … -/
theorem split_pieces_nonempty (c : SizeConfig) (text : Str) (bs : List Boundary) :
    ∀ p ∈ splitToSize c text bs, p ≠ [] := by
  induction text, bs using splitToSize.induct c with
  | case1 rem bs h => rw [splitToSize, if_pos h]; simp
  | case2 rem bs h hmax =>
    rw [splitToSize, if_neg h, if_pos hmax]
    intro p hp; simp at hp; subst hp
    intro e; subst e; exact h rfl
  | case3 rem bs h hmax sp hsp =>
    rw [splitToSize, if_neg h, if_neg hmax]
    simp only [sp] at hsp
    rw [dif_pos hsp]
    intro p hp; simp at hp; subst hp
    intro e; subst e; exact h rfl
  | case4 rem bs h hmax sp hsp chunk rest bs' hchunk ih =>
    rw [splitToSize, if_neg h, if_neg hmax]
    simp only [sp] at hsp
    rw [dif_neg hsp]
    simp only [chunk, sp] at hchunk
    rw [if_pos hchunk]
    exact ih
  | case5 rem bs h hmax sp hsp chunk rest bs' hchunk ih =>
    rw [splitToSize, if_neg h, if_neg hmax]
    simp only [sp] at hsp
    rw [dif_neg hsp]
    simp only [chunk, sp] at hchunk
    rw [if_neg hchunk]
    intro p hp
    rcases List.mem_cons.mp hp with hp | hp
    · subst hp; exact hchunk
    · exact ih p hp

/-! ## conservation -/

/-- **split_conserves.** For every text (any bytes), every size configuration (all five
units, any limit, any tokens-per-char) and any list of semantic boundaries: the pieces
returned by `SplitToSize` are, in order, disjoint substrings of the text, and every gap
between them, before the first and after the last consists of White_Space characters only
(`Pieces`, `WsOnly` in `Lemmas/Split.lean`).  Hence the pieces contain exactly the original
non-whitespace characters, in order. -/
theorem split_conserves (c : SizeConfig) (text : Str) (bs : List Boundary) :
    Pieces text (splitToSize c text bs) :=
  splitToSize_pieces c text bs

/-- … so there are at most `len(text)` pieces, of total length at most `len(text)` -/
theorem split_piece_count (c : SizeConfig) (text : Str) (bs : List Boundary) :
    (splitToSize c text bs).length ≤ text.length := by
  have h1 := (split_conserves c text bs).length_le
  have h2 : ∀ ps : List Str, (∀ p ∈ ps, p ≠ []) → ps.length ≤ (ps.map List.length).sum := by
    intro ps
    induction ps with
    | nil => simp
    | cons p ps ih =>
      intro hp
      have : 0 < p.length := List.length_pos_iff.mpr (hp p (List.mem_cons_self ..))
      have := ih (fun q hq => hp q (List.mem_cons_of_mem _ hq))
      simp only [List.length_cons, List.map_cons, List.sum_cons]
      omega
  exact Nat.le_trans (h2 _ (split_pieces_nonempty c text bs)) h1

/-- conservation through `ChunkDocumentWithConfig` on a page of paragraphs: the chunk texts
are, in order, disjoint substrings of the accumulated block text with whitespace-only gaps -/
theorem doc_conserves (c : SizeConfig) (paras : List Str) :
    Pieces (joinParagraphs paras) (docChunks c paras) := by
  unfold docChunks
  simp only
  split
  · rename_i h; rw [h]; exact .done .nil
  · split
    · obtain ⟨l, r, hl, hr, e⟩ := trimSpace_decomp (joinParagraphs paras)
      exact (Pieces.piece (p := trimSpace (joinParagraphs paras)) hl (.done hr)).cast e
    · exact (split_conserves c _ []).map_trimSpace

/-- non-vacuity: a Japanese sentence split at 10 bytes: three pieces, nothing lost -/
example :
    let c : SizeConfig := { maxValue := 10, maxUnit := .characters, tpcNum := 1, tpcDen := 4, sem := true }
    let text : Str := [0xE6,0x97,0xA5, 0xE6,0x9C,0xAC, 0xE8,0xAA,0x9E, 0x20, 0xE3,0x81,0xAE, 0xE6,0x96,0x87, 0xE7,0xAB,0xA0,
      0xE3,0x81,0xAF, 0xE7,0xA9,0xBA]
    splitToSize c text [] =
      [[0xE6,0x97,0xA5, 0xE6,0x9C,0xAC, 0xE8,0xAA,0x9E], [0xE3,0x81,0xAE, 0xE6,0x96,0x87, 0xE7,0xAB,0xA0],
       [0xE3,0x81,0xAF, 0xE7,0xA9,0xBA]] := by decide +kernel

/-! ## UTF-8 integrity -/

/-- **split_utf8.** If the text is valid UTF-8 then every piece of `SplitToSize(text, nil)` is
valid UTF-8, for every size configuration (multi-byte characters are never cut). -/
theorem split_utf8 (c : SizeConfig) (text : Str) (hv : validUtf8 text = true) :
    ∀ p ∈ splitToSize c text [], validUtf8 p = true :=
  splitToSize_valid c text [] rfl hv

/-- every split point is a scalar boundary: both sides of the cut are valid UTF-8 -/
theorem split_point_boundary (c : SizeConfig) (text : Str) (hv : validUtf8 text = true)
    (limit : Nat) (unit : SizeUnit) :
    validUtf8 (text.take (findSplitPointAt c text [] limit unit)) = true
      ∧ validUtf8 (text.drop (findSplitPointAt c text [] limit unit)) = true := by
  have h := valid_take_findSplitPointAt c text hv limit unit
  exact ⟨h, valid_drop_of_valid_take text hv _ h⟩

/-- the same through `ChunkDocumentWithConfig` -/
theorem doc_utf8 (c : SizeConfig) (paras : List Str) (hv : validUtf8 (joinParagraphs paras) = true) :
    ∀ p ∈ docChunks c paras, validUtf8 p = true := by
  unfold docChunks
  simp only
  split
  · simp
  · split
    · intro p hp; simp at hp; subst hp; exact valid_trimSpace _ hv
    · intro p hp
      obtain ⟨q, hq, e⟩ := List.mem_map.mp hp
      subst e
      exact valid_trimSpace _ (split_utf8 c _ hv q hq)

/-- non-vacuity: valid CJK text, limit 4 bytes (not a multiple of 3): pieces are whole characters -/
example :
    let c : SizeConfig := { maxValue := 4, maxUnit := .characters, tpcNum := 1, tpcDen := 4, sem := true }
    let text : Str := [0xE6,0x97,0xA5, 0xE6,0x9C,0xAC, 0xE8,0xAA,0x9E]
    validUtf8 text = true ∧
      splitToSize c text [] = [[0xE6,0x97,0xA5], [0xE6,0x9C,0xAC], [0xE8,0xAA,0x9E]] := by decide +kernel

/-! ## size bound -/

/-- **split_bound.** Hard maximum in characters or estimated tokens, `M ≥ 200`, at most 4 tokens
per byte (so that `M` tokens are at least 50 bytes), a space at least every 50 bytes
(`Spaced`): every piece of `SplitToSize(text, nil)` has size `≤ M` in the unit of the maximum. -/
theorem split_bound (c : SizeConfig) (text : Str)
    (hunit : c.maxUnit = .characters ∨ c.maxUnit = .tokens)
    (hM : 200 ≤ c.maxValue)
    (hratio : c.ratio.1 ≤ 4 * c.ratio.2)
    (hsp : Spaced text) :
    ∀ p ∈ splitToSize c text [], getSize c p c.maxUnit ≤ c.maxValue :=
  splitToSize_bound c text hunit hM hratio hsp

/-- non-vacuity: "word " × 60 at 200 characters satisfies the hypotheses and is split in two -/
example :
    (exampleConfig.maxUnit = .characters ∨ exampleConfig.maxUnit = .tokens)
    ∧ 200 ≤ exampleConfig.maxValue ∧ exampleConfig.ratio.1 ≤ 4 * exampleConfig.ratio.2
    ∧ Spaced exampleText
    ∧ (splitToSize exampleConfig exampleText []).map List.length = [199, 99] :=
  ⟨Or.inl rfl, by decide, by decide, Spaced.of_spacedB (by decide +kernel), by decide +kernel⟩

/-! ## overlap -/

/-- **overlap_bounds.** For every strategy, size and text the overlap `GenerateOverlap` returns
has at most `MaxOverlap` bytes; with the character strategy (and `Size ≤ MaxOverlap`, as in
`ChunkWithOverlapEnabled` where `MaxOverlap = 3·Size`) at most `Size` bytes. -/
theorem overlap_bounds (cl : Classes) (c : OverlapConfig) (text : Str) :
    (generateOverlap cl c text).length ≤ c.maxOverlap
      ∧ (c.strategy = 1 → c.size ≤ c.maxOverlap → (generateOverlap cl c text).length ≤ c.size) := by
  refine ⟨generateOverlap_length_le cl c text, ?_⟩
  intro hs hle
  unfold generateOverlap
  split
  · simp
  · have h1 := generateCharacterOverlap_length_le_size c text
    simp only [rawOverlap, hs, if_true]
    have : ¬ (1 = 2) := by decide
    simp only [this, false_and, and_false, if_false]
    unfold capOverlap
    split
    · omega
    · exact h1

/-- … and so has every `OverlapPrefix` that `ApplyOverlapToChunks` produces -/
theorem overlap_bounds_chunks (cl : Classes) (c : OverlapConfig) (texts titles : List Str) :
    ∀ o ∈ applyOverlapToChunks cl c texts titles, o.pref.length ≤ c.maxOverlap := by
  unfold applyOverlapToChunks
  generalize texts.zip _ = items
  generalize (none : Option Str) = prev
  induction items generalizing prev with
  | nil => simp [applyOverlapAux]
  | cons it rest ih =>
    obtain ⟨text, title⟩ := it
    unfold applyOverlapAux
    intro o ho
    rcases List.mem_cons.mp ho with ho | ho
    · subst ho
      rw [out_pref]
      cases prev with
      | none => simp
      | some p =>
        simp only
        split
        · exact generateOverlap_length_le cl c p
        · simp
    · exact ih _ o ho

/-- **overlap source** (the repaired defect): the overlap prepended to chunk `i+1` is computed
from the ORIGINAL text of chunk `i` — its own content — not from a text that already carries
an overlap prefix. -/
theorem overlap_source (cl : Classes) (c : OverlapConfig) (items : List (Str × Str)) (i : Nat)
    (hi : i + 1 < items.length) :
    ((applyOverlapAux cl c none items)[i + 1]?).map (·.pref)
      = some (overlapFrom cl c (items[i]?.map (·.1))) := by
  have := applyOverlapAux_pref cl c none items (i + 1) hi
  simpa [prevText] using this

/-- **overlap_suffix_partial.** Character strategy: the overlap is a suffix of the previous
chunk's own content up to trailing whitespace — `text = a ++ overlap ++ r` with `r` whitespace
only.  Full statement (all strategies): the overlap's non-whitespace characters are a suffix
of those of the previous chunk's own content.  Missing for the full statement: the sentence
and paragraph strategies, which re-join trimmed sentences/paragraphs with single separators
(their conservation needs a model-level proof about `splitIntoSentencesWithPositions`, which
depends on the Unicode class tables); they are covered by the oracle `C13/overlap-suffix`
only. -/
theorem overlap_suffix_partial (cl : Classes) (c : OverlapConfig) (text : Str)
    (hs : c.strategy = 1) (hle : c.size ≤ c.maxOverlap) :
    ∃ a r, WsOnly r ∧ text = a ++ generateOverlap cl c text ++ r := by
  unfold generateOverlap
  split
  · exact ⟨text, [], .nil, by simp⟩
  · have h1 := generateCharacterOverlap_length_le_size c text
    simp only [rawOverlap, hs, if_true]
    have : ¬ (1 = 2) := by decide
    simp only [this, false_and, and_false, if_false]
    unfold capOverlap
    split
    · omega
    · exact generateCharacterOverlap_suffix c text

/-- **overlap_utf8_partial.** Character strategy: the overlap of a valid UTF-8 chunk is valid
UTF-8 (it starts on a character boundary and whole characters are skipped).  Missing for the
full statement: sentence/paragraph strategies and the sentence branch of `truncateOverlap`
(decode/encode of runes and the class tables); covered by the oracle `C13/overlap-utf8`. -/
theorem overlap_utf8_partial (cl : Classes) (c : OverlapConfig) (text : Str)
    (hs : c.strategy = 1) (hle : c.size ≤ c.maxOverlap) (hv : validUtf8 text = true) :
    validUtf8 (generateOverlap cl c text) = true := by
  unfold generateOverlap
  split
  · exact validUtf8_nil
  · have h1 := generateCharacterOverlap_length_le_size c text
    simp only [rawOverlap, hs, if_true]
    have : ¬ (1 = 2) := by decide
    simp only [this, false_and, and_false, if_false]
    unfold capOverlap
    split
    · omega
    · exact valid_generateCharacterOverlap c text hv

/-- non-vacuity (and the former defect's witness): "堀" is E5 A0 80; a 2-byte character overlap
of "ab 堀" used to start at the continuation byte 0x80.  Now it is empty or whole. -/
example :
    let c : OverlapConfig := { strategy := 1, size := 2, minOverlap := 0, maxOverlap := 6, preserveWords := false, includeHeadingContext := false }
    validUtf8 [97, 98, 32, 0xE5, 0xA0, 0x80] = true
      ∧ generateOverlap [] c [97, 98, 32, 0xE5, 0xA0, 0x80] = [] := by decide +kernel

example :
    let c : OverlapConfig := { strategy := 1, size := 4, minOverlap := 0, maxOverlap := 12, preserveWords := true, includeHeadingContext := false }
    generateOverlap [] c [97, 98, 32, 0xE5, 0xA0, 0x80] = [0xE5, 0xA0, 0x80] := by decide +kernel

end Tabula.C13
