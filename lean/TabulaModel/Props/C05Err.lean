import TabulaModel.Lemmas.FiltersTotal
import TabulaModel.Lemmas.StreamDict
/-!
# C05, the second sentence closed from both sides — "undecodable data yields an error, not wrong bytes"

`Props/C05.lean` lists failure classes (`undecodable_*`: each is an error); `Props/C05S.lean` shows
that bytes come only from encodings (`*_decode_iff`, `decode_not_wrong_bytes`: one direction at the
level of `Decode()`). This file states, for every filter and for `Decode()` itself, the set of inputs
on which the result is an error **exactly** (`… = none ↔ …`), for all inputs:

* `png_error_iff`, `tiff_error_iff` — the predictors fail iff BitsPerComponent ≠ 8, the geometry is
  refused, the data is no whole number of rows, or (PNG) a row starts with a filter-type byte above
  4. In particular no index of `decodePNGRow` / `applyTIFFPredictor2` can leave its buffer
  (`predictor_rows_never_fail`): the `none` that stands for a Go index panic is unreachable.
* `flate_error_iff` — FlateDecode fails iff zlib fails, the Predictor is outside {1, 2, 10..15}, or
  the selected predictor fails.
* `a85_decode_iff`, `a85_error_iff`, `a85_reads_xor_bad`, `a85_final_group_cases` — ASCII85: the
  decoder returns `y` iff the cleaned data reads as `y` (`z`, full groups within 2^32-1, a final
  partial group of 2..4 digits, a single final digit ignored); it fails iff the cleaned data is bad
  (`A85Bad`); exactly one of the two holds of every input.
* `stage_error_iff`, `decode_bytes_iff`, `decode_error_iff` — `Decode()` returns bytes iff the data
  reads stage by stage (the converse of `C05S.decode_not_wrong_bytes`), and it returns an error iff
  the `Filter` entry has a wrong type, or the first `k` filters succeed and the entry at `k` is no
  name or its filter fails.
-/
namespace Tabula.C05Err
open Tabula.Filters

/-! ## predictors -/

/-- **png_error_iff**: for all data and parameters, `applyPNGPredictor` is an error exactly when
BitsPerComponent (default 8) is not 8, Columns / Colors (default 1) are refused by
`predictorRowBytes` (below 1, or a row above 2^31-2 bytes), the data is no whole number of rows of
`rb + 1` bytes, or some row `k` starts with a filter-type byte above 4. -/
theorem png_error_iff (data : Str) (p : Params) :
    applyPNGPredictor data p = none ↔
      (p.bpc.getD 8 ≠ 8 ∨ predictorRowBytes (p.columns.getD 1) (p.colors.getD 1) = none ∨
       ∃ rb, predictorRowBytes (p.columns.getD 1) (p.colors.getD 1) = some rb ∧
         (data.length % (rb + 1) ≠ 0 ∨
          ∃ k t, k < data.length / (rb + 1) ∧ data[k * (rb + 1)]? = some t ∧ t > 4)) :=
  applyPNGPredictor_none_iff data p

/-- non-vacuity, one witness per disjunct: 4 bits; Columns 0; five bytes for rows of 3 + 1; the
second row starts with 5 — and a good one -/
example : applyPNGPredictor [0, 1, 2, 3] { columns := some 3, bpc := some 4 } = none ∧
    applyPNGPredictor [0, 1, 2, 3] { columns := some 0 } = none ∧
    applyPNGPredictor [0, 1, 2, 3, 4] { columns := some 3 } = none ∧
    applyPNGPredictor [0, 1, 2, 3, 5, 1, 2, 3] { columns := some 3 } = none ∧
    applyPNGPredictor [0, 1, 2, 3, 4, 1, 2, 3] { columns := some 3 } = some [1, 2, 3, 2, 4, 7] := by decide

/-- **tiff_error_iff**: `applyTIFFPredictor2` is an error exactly when BitsPerComponent ≠ 8, the
geometry is refused, or the data is no whole number of rows — no data of whole rows is refused. -/
theorem tiff_error_iff (data : Str) (p : Params) :
    applyTIFFPredictor2 data p = none ↔
      (p.bpc.getD 8 ≠ 8 ∨ predictorRowBytes (p.columns.getD 1) (p.colors.getD 1) = none ∨
       ∃ rb, predictorRowBytes (p.columns.getD 1) (p.colors.getD 1) = some rb ∧ data.length % rb ≠ 0) :=
  applyTIFFPredictor2_none_iff data p

example : applyTIFFPredictor2 [1, 2, 3] { columns := some 2 } = none ∧
    applyTIFFPredictor2 [1, 2, 3, 4] { columns := some 2 } = some [1, 3, 3, 7] := by decide

/-- **predictor_rows_never_fail** (no index panic): a row with filter type 0..4 decodes whatever
its bytes, the row above and the bytes-per-pixel distance ≥ 1 — every `result[i-bpp]`,
`prevRows[(row-1)*rowLength+i]`, `prevRows[(row-1)*rowLength+i-bpp]` the Go code reads lies inside
its buffer; the same for `result[idx-colors]` of the TIFF predictor. The decoded row has the length
of the filtered one. -/
theorem predictor_rows_never_fail (tag bpp : Nat) (prev : Option Str) (f : Str) (htag : tag ≤ 4) (hb : 1 ≤ bpp)
    (hprev : prev = none ∨ ∃ pr, prev = some pr ∧ pr.length = f.length) :
    (∃ row, decodePNGRow f tag bpp prev = some row ∧ row.length = f.length) ∧
    (∃ row, decRow (tiffPredicted bpp) f [] = some row ∧ row.length = f.length) := by
  refine ⟨?_, ?_⟩
  · rcases hprev with h | ⟨pr, h, hl⟩
    · exact decodePNGRow_total tag bpp prev (List.replicate f.length 0) f htag hb (Or.inl ⟨h, rfl⟩)
    · exact decodePNGRow_total tag bpp prev pr f htag hb (Or.inr ⟨h, hl⟩)
  · exact decRow_total (tiffPredicted bpp) f.length (fun done _ => ⟨_, tiffPredicted_eq_spec bpp hb done⟩) f [] (by simp)

example : ∃ pr : Str, (some [7, 8, 9] : Option Str) = some pr ∧ pr.length = [1, 2, 3].length := ⟨_, rfl, rfl⟩

/-- **flate_error_iff**: `FlateDecode` fails exactly when zlib fails, or the parameters hold a
numeric Predictor other than 1 that is not 2 or 10..15, or the selected predictor fails
(`tiff_error_iff` / `png_error_iff` say when). A missing / non-numeric Predictor, Predictor 1 and
absent parameters never fail after a successful inflate. -/
theorem flate_error_iff (inflate : Str → Option Str) (data : Str) (params : Option Params) :
    flateDecode inflate data params = none ↔
      (inflate data = none ∨
       ∃ dec p pr, inflate data = some dec ∧ params = some p ∧ p.predictor = some pr ∧ pr ≠ 1 ∧
         ((pr ≠ 2 ∧ (pr < 10 ∨ pr > 15)) ∨ (pr = 2 ∧ applyTIFFPredictor2 dec p = none) ∨
          (10 ≤ pr ∧ pr ≤ 15 ∧ applyPNGPredictor dec p = none))) := by
  unfold flateDecode
  cases hi : inflate data with
  | none => simp
  | some dec =>
    simp only [reduceCtorEq, false_or]
    constructor
    · intro h
      cases params with
      | none => simp [flatePost] at h
      | some p =>
        simp only [flatePost] at h
        cases hpr : p.predictor with
        | none => rw [hpr] at h; simp at h
        | some pr =>
          rw [hpr] at h
          simp only at h
          by_cases h1 : pr = 1
          · subst h1; simp at h
          · simp only [ne_eq, h1, not_false_eq_true, if_true, applyPredictor, if_false] at h
            refine ⟨dec, p, pr, rfl, rfl, hpr, h1, ?_⟩
            by_cases h2 : pr = 2
            · subst h2
              simp only [if_true] at h
              exact Or.inr (Or.inl ⟨rfl, h⟩)
            · simp only [h2, if_false] at h
              by_cases h3 : pr ≥ 10 ∧ pr ≤ 15
              · simp only [h3, and_self, if_true] at h
                exact Or.inr (Or.inr ⟨h3.1, h3.2, h⟩)
              · exact Or.inl ⟨h2, by omega⟩
    · rintro ⟨dec', p, pr, hd, hp, hq, h1, hcase⟩
      simp only [Option.some.injEq] at hd
      subst hd hp
      simp only [flatePost, hq, ne_eq, h1, not_false_eq_true, if_true, applyPredictor, if_false]
      rcases hcase with ⟨h2, h3⟩ | ⟨h2, h3⟩ | ⟨h2, h3, h4⟩
      · have : ¬ (pr ≥ 10 ∧ pr ≤ 15) := by omega
        simp [h2, this]
      · subst h2; simpa using h3
      · have n2 : ¬ (pr = 2) := by omega
        have y : pr ≥ 10 ∧ pr ≤ 15 := ⟨h2, h3⟩
        simp only [n2, if_false, y, and_self, if_true]
        exact h4

example : flateDecode some [0, 1, 2, 3] (some { predictor := some 9 }) = none := by decide

/-! ## ASCII85 -/

/-- **a85_decode_iff**: on every input the decoder returns `y` exactly when the cleaned data
(everything before the first `~>`, white space removed) reads as `y` by §7.4.3 -/
theorem a85_decode_iff (s y : Str) : a85Decode s = some y ↔ A85Reads (a85BodyOf s) y := by
  rw [a85Decode_eq_spec, a85Spec]
  exact ⟨(a85Groups_cases_strong _ _ rfl).1 y, a85Reads_groups _ y⟩

/-- **a85_error_iff**: … and it is an error exactly when the cleaned data is bad: a character
outside `!`..`u` among the (up to) five of a group that does not start with `z` (so also a `z`
inside a group), five digits above 2^32-1, a final partial group whose `u`-padded value is above
2^32-1 — at the first group or after any number of good `z` / full groups. -/
theorem a85_error_iff (s : Str) : a85Decode s = none ↔ A85Bad (a85BodyOf s) := by
  rw [a85Decode_eq_spec, a85Spec]
  exact ⟨(a85Groups_cases_strong _ _ rfl).2, a85Bad_groups _⟩

/-- every input reads as exactly one byte string or is bad, never both -/
theorem a85_reads_xor_bad (body : Str) :
    ((∃ y, A85Reads body y) ∨ A85Bad body) ∧ ¬ ((∃ y, A85Reads body y) ∧ A85Bad body) ∧
    (∀ y y', A85Reads body y → A85Reads body y' → y = y') := by
  refine ⟨?_, ?_, ?_⟩
  · cases h : a85Groups body with
    | none => exact Or.inr ((a85Groups_cases_strong _ _ rfl).2 h)
    | some y => exact Or.inl ⟨y, (a85Groups_cases_strong _ _ rfl).1 y h⟩
  · rintro ⟨⟨y, hy⟩, hb⟩
    have h1 := a85Reads_groups body y hy
    rw [a85Bad_groups body hb] at h1
    exact absurd h1 (by simp)
  · intro y y' h h'
    have h1 := a85Reads_groups body y h
    rw [a85Reads_groups body y' h'] at h1
    exact (Option.some.inj h1).symm

/-- **a85_final_group_cases**: the final partial group, length by length, with its `u` padding
written out: one digit `!`..`r` stands for nothing (`s`, `t`, `u` alone are an error: padded with
`uuuu` they exceed 2^32-1); 2 / 3 / 4 digits stand for the first 1 / 2 / 3 bytes of
the padded 32-bit value, or are an error when that exceeds 2^32-1 (e.g. `uu`). -/
theorem a85_final_group_cases (d0 d1 d2 d3 : Nat) (h0 : d0 < 85) (h1 : d1 < 85) (h2 : d2 < 85) (h3 : d3 < 85) :
    a85Groups [d0 + 33] =
      (if (((d0 * 85 + 84) * 85 + 84) * 85 + 84) * 85 + 84 > 4294967295 then none else some []) ∧
    a85Groups [d0 + 33, d1 + 33] =
      (if (((d0 * 85 + d1) * 85 + 84) * 85 + 84) * 85 + 84 > 4294967295 then none
       else some [((((d0 * 85 + d1) * 85 + 84) * 85 + 84) * 85 + 84) / 16777216 % 256]) ∧
    a85Groups [d0 + 33, d1 + 33, d2 + 33] =
      (if (((d0 * 85 + d1) * 85 + d2) * 85 + 84) * 85 + 84 > 4294967295 then none
       else some [((((d0 * 85 + d1) * 85 + d2) * 85 + 84) * 85 + 84) / 16777216 % 256,
                  ((((d0 * 85 + d1) * 85 + d2) * 85 + 84) * 85 + 84) / 65536 % 256]) ∧
    a85Groups [d0 + 33, d1 + 33, d2 + 33, d3 + 33] =
      (if (((d0 * 85 + d1) * 85 + d2) * 85 + d3) * 85 + 84 > 4294967295 then none
       else some [((((d0 * 85 + d1) * 85 + d2) * 85 + d3) * 85 + 84) / 16777216 % 256,
                  ((((d0 * 85 + d1) * 85 + d2) * 85 + d3) * 85 + 84) / 65536 % 256,
                  ((((d0 * 85 + d1) * 85 + d2) * 85 + d3) * 85 + 84) / 256 % 256]) := by
  have p1 := a85Groups_partial [d0] (by simp) (by simpa using h0)
  have p2 := a85Groups_partial [d0, d1] (by simp) (by intro d hd; simp at hd; omega)
  have p3 := a85Groups_partial [d0, d1, d2] (by simp) (by intro d hd; simp at hd; omega)
  have p4 := a85Groups_partial [d0, d1, d2, d3] (by simp) (by intro d hd; simp at hd; omega)
  simp only [a85Chars, List.map_cons, List.map_nil] at p1 p2 p3 p4
  refine ⟨?_, ?_, ?_, ?_⟩
  · rw [p1]
    simp [a85Flush, a85Value, List.replicate]
  · rw [p2, a85Flush_2]; split <;> simp [bytes4]
  · rw [p3, a85Flush_3]; split <;> simp [bytes4]
  · rw [p4, a85Flush_4]; split <;> simp [bytes4]

/-- non-vacuity: `z`, a full group and a two-digit tail read as bytes; `uu` and a `z` inside a
group are bad -/
example : A85Reads [122, 33, 33, 33, 33, 34, 53, 115] [0, 0, 0, 0, 0, 0, 0, 1, 65] :=
  .z _ _ (.full 0 0 0 0 1 _ _ (by omega) (by omega) (by omega) (by omega) (by omega) (by omega)
    (.part [20, 82] (by simp) (by simp) (by intro d hd; simp at hd; omega) (by decide)))
example : A85Bad [117, 117] :=
  .partOverflow [84, 84] (by simp) (by simp) (by intro d hd; simp at hd; omega) (by decide)
example : A85Bad [33, 33, 122] := .char _ 2 122 (by omega) rfl (by decide) (by decide)

/-! ## `Decode()` -/

/-- the converse of `C05S.stage_reads`: a stage that reads its input as `out` by the
specifications is what `decodeWithFilter` returns -/
theorem stage_reads_decodes (ext : Ext) (name : Str) (params : Option Params) (inp out : Str)
    (h : ((name = nASCIIHexDecode ∨ name = nAHx) ∧ hexSpec inp = some out) ∨
      ((name = nASCII85Decode ∨ name = nA85) ∧ a85Spec inp = some out) ∨
      ((name = nFlateDecode ∨ name = nFl) ∧ ∃ dec, ext.inflate inp = some dec ∧ flatePost params dec = some out) ∨
      ((name = nDCTDecode ∨ name = nDCT ∨ name = nJPXDecode) ∧ out = inp) ∨
      ((name = nCCITTFaxDecode ∨ name = nCCF) ∧ ccittFaxDecode ext.ccitt inp params = some out)) :
    decodeWithFilter ext inp name params = some out := by
  rcases h with ⟨hn, h⟩ | ⟨hn, h⟩ | ⟨hn, dec, hi, h⟩ | ⟨hn, h⟩ | ⟨hn, h⟩
  · rw [← hexDecode_eq_spec] at h
    rcases hn with hn | hn <;> subst hn <;> exact h
  · rw [← a85Decode_eq_spec] at h
    rcases hn with hn | hn <;> subst hn <;> exact h
  · have : flateDecode ext.inflate inp params = some out := by simp [flateDecode, hi, h]
    rcases hn with hn | hn <;> subst hn <;> exact this
  · subst h
    rcases hn with hn | hn | hn <;> subst hn <;> rfl
  · rcases hn with hn | hn <;> subst hn <;> exact h

/-- what one stage of `Decode` is, in terms of the specifications only (the disjunction of
`C05S.StageReads`, restated here so that this file stands alone) -/
def StageReads (ext : Ext) (name : Str) (params : Option Params) (inp out : Str) : Prop :=
  ((name = nASCIIHexDecode ∨ name = nAHx) ∧ hexSpec inp = some out) ∨
  ((name = nASCII85Decode ∨ name = nA85) ∧ a85Spec inp = some out) ∨
  ((name = nFlateDecode ∨ name = nFl) ∧ ∃ dec, ext.inflate inp = some dec ∧ flatePost params dec = some out) ∨
  ((name = nDCTDecode ∨ name = nDCT ∨ name = nJPXDecode) ∧ out = inp) ∨
  ((name = nCCITTFaxDecode ∨ name = nCCF) ∧ ccittFaxDecode ext.ccitt inp params = some out)

/-- a stage returns bytes iff it reads them -/
theorem stage_bytes_iff (ext : Ext) (name : Str) (params : Option Params) (inp out : Str) :
    decodeWithFilter ext inp name params = some out ↔ StageReads ext name params inp out := by
  constructor
  · intro h
    unfold decodeWithFilter at h
    unfold StageReads
    split at h
    · rename_i hn
      refine Or.inr (Or.inr (Or.inl ⟨hn, ?_⟩))
      unfold flateDecode at h
      cases hi : ext.inflate inp with
      | none => rw [hi] at h; exact absurd h (by simp)
      | some dec => rw [hi] at h; exact ⟨dec, rfl, h⟩
    · split at h
      · rename_i hn
        exact Or.inl ⟨hn, by rw [← hexDecode_eq_spec]; exact h⟩
      · split at h
        · rename_i hn
          exact Or.inr (Or.inl ⟨hn, by rw [← a85Decode_eq_spec]; exact h⟩)
        · split at h
          · exact absurd h (by simp)
          · split at h
            · exact absurd h (by simp)
            · split at h
              · rename_i hn
                exact Or.inr (Or.inr (Or.inr (Or.inr ⟨hn, h⟩)))
              · split at h
                · exact absurd h (by simp)
                · split at h
                  · rename_i hn
                    simp only [Option.some.injEq] at h
                    exact Or.inr (Or.inr (Or.inr (Or.inl ⟨by rcases hn with h1 | h1 <;> simp [h1], h.symm⟩)))
                  · split at h
                    · rename_i hn
                      simp only [Option.some.injEq] at h
                      exact Or.inr (Or.inr (Or.inr (Or.inl ⟨Or.inr (Or.inr hn), h.symm⟩)))
                    · split at h <;> exact absurd h (by simp)
  · exact stage_reads_decodes ext name params inp out

/-- **stage_error_iff**: one stage fails exactly when — by the class of its name — ASCIIHex: a
character before the first `>` is neither white space nor a hexadecimal digit; ASCII85: the cleaned
data is bad (`A85Bad`); Flate: `flate_error_iff`; CCITT: the wrapper fails; LZW / RunLength / JBIG2 /
Crypt and every unknown name: always; DCT / JPX: never. -/
theorem stage_error_iff (ext : Ext) (name : Str) (params : Option Params) (inp : Str) :
    decodeWithFilter ext inp name params = none ↔
      (((name = nASCIIHexDecode ∨ name = nAHx) ∧ ∃ c ∈ hexBodyOf inp, hexVal c = none) ∨
       ((name = nASCII85Decode ∨ name = nA85) ∧ A85Bad (a85BodyOf inp)) ∨
       ((name = nFlateDecode ∨ name = nFl) ∧ flateDecode ext.inflate inp params = none) ∨
       ((name = nCCITTFaxDecode ∨ name = nCCF) ∧ ccittFaxDecode ext.ccitt inp params = none) ∨
       name ∉ [nFlateDecode, nFl, nASCIIHexDecode, nAHx, nASCII85Decode, nA85, nCCITTFaxDecode, nCCF,
         nDCTDecode, nDCT, nJPXDecode]) := by
  have hexnone : hexDecode inp = none ↔ ∃ c ∈ hexBodyOf inp, hexVal c = none := by
    rw [hexDecode_eq_spec, hexSpec, Option.map_eq_none_iff]
    exact hexVals_none_iff _
  by_cases h1 : name = nFlateDecode ∨ name = nFl
  · have e : decodeWithFilter ext inp name params = flateDecode ext.inflate inp params := by
      rcases h1 with h | h <;> subst h <;> rfl
    rw [e]
    constructor
    · intro h; exact Or.inr (Or.inr (Or.inl ⟨h1, h⟩))
    · rintro (⟨hn, _⟩ | ⟨hn, _⟩ | ⟨_, h⟩ | ⟨hn, _⟩ | hn)
      · rcases h1 with h | h <;> rcases hn with h' | h' <;> subst h <;> exact absurd h' (by decide)
      · rcases h1 with h | h <;> rcases hn with h' | h' <;> subst h <;> exact absurd h' (by decide)
      · exact h
      · rcases h1 with h | h <;> rcases hn with h' | h' <;> subst h <;> exact absurd h' (by decide)
      · rcases h1 with h | h <;> subst h <;> simp at hn
  · by_cases h2 : name = nASCIIHexDecode ∨ name = nAHx
    · have e : decodeWithFilter ext inp name params = hexDecode inp := by
        rcases h2 with h | h <;> subst h <;> rfl
      rw [e, hexnone]
      constructor
      · intro h; exact Or.inl ⟨h2, h⟩
      · rintro (⟨_, h⟩ | ⟨hn, _⟩ | ⟨hn, _⟩ | ⟨hn, _⟩ | hn)
        · exact h
        · rcases h2 with h | h <;> rcases hn with h' | h' <;> subst h <;> exact absurd h' (by decide)
        · exact absurd hn h1
        · rcases h2 with h | h <;> rcases hn with h' | h' <;> subst h <;> exact absurd h' (by decide)
        · rcases h2 with h | h <;> subst h <;> simp at hn
    · by_cases h3 : name = nASCII85Decode ∨ name = nA85
      · have e : decodeWithFilter ext inp name params = a85Decode inp := by
          rcases h3 with h | h <;> subst h <;> rfl
        rw [e, a85_error_iff]
        constructor
        · intro h; exact Or.inr (Or.inl ⟨h3, h⟩)
        · rintro (⟨hn, _⟩ | ⟨_, h⟩ | ⟨hn, _⟩ | ⟨hn, _⟩ | hn)
          · exact absurd hn h2
          · exact h
          · exact absurd hn h1
          · rcases h3 with h | h <;> rcases hn with h' | h' <;> subst h <;> exact absurd h' (by decide)
          · rcases h3 with h | h <;> subst h <;> simp at hn
      · by_cases h4 : name = nCCITTFaxDecode ∨ name = nCCF
        · have e : decodeWithFilter ext inp name params = ccittFaxDecode ext.ccitt inp params := by
            rcases h4 with h | h <;> subst h <;> rfl
          rw [e]
          constructor
          · intro h; exact Or.inr (Or.inr (Or.inr (Or.inl ⟨h4, h⟩)))
          · rintro (⟨hn, _⟩ | ⟨hn, _⟩ | ⟨hn, _⟩ | ⟨_, h⟩ | hn)
            · exact absurd hn h2
            · exact absurd hn h3
            · exact absurd hn h1
            · exact h
            · rcases h4 with h | h <;> subst h <;> simp at hn
        · -- every other name: pass-through for DCT / JPX, an error otherwise
          by_cases h5 : name = nDCTDecode ∨ name = nDCT ∨ name = nJPXDecode
          · have e : decodeWithFilter ext inp name params = some inp := by
              rcases h5 with h | h | h <;> subst h <;> rfl
            rw [e]
            constructor
            · intro h; exact absurd h (by simp)
            · rintro (⟨hn, _⟩ | ⟨hn, _⟩ | ⟨hn, _⟩ | ⟨hn, _⟩ | hn)
              · exact absurd hn h2
              · exact absurd hn h3
              · exact absurd hn h1
              · exact absurd hn h4
              · rcases h5 with h | h | h <;> subst h <;> simp at hn
          · have hnot : name ∉ [nFlateDecode, nFl, nASCIIHexDecode, nAHx, nASCII85Decode, nA85, nCCITTFaxDecode, nCCF,
                nDCTDecode, nDCT, nJPXDecode] := by
              simp only [List.mem_cons, List.not_mem_nil, or_false, not_or]
              simp only [not_or] at h1 h2 h3 h4 h5
              exact ⟨h1.1, h1.2, h2.1, h2.2, h3.1, h3.2, h4.1, h4.2, h5.1, h5.2.1, h5.2.2⟩
            have e : decodeWithFilter ext inp name params = none := by
              simp only [not_or] at h1 h2 h3 h4 h5
              simp [decodeWithFilter, h1.1, h1.2, h2.1, h2.2, h3.1, h3.2, h4.1, h4.2, h5.1, h5.2.1, h5.2.2]
            rw [e]
            exact ⟨fun _ => Or.inr (Or.inr (Or.inr (Or.inr hnot))), fun _ => rfl⟩

/-- the data passes through the filters in array order, stage `j` with the parameters `Decode`
selects for position `i + j` -/
def ChainReads (ext : Ext) (dp : DParms) : List Str → Nat → Str → Str → Prop
  | [], _, inp, out => out = inp
  | n :: ns, i, inp, out => ∃ mid, StageReads ext n (chainParams dp i) inp mid ∧ ChainReads ext dp ns (i + 1) mid out

theorem chain_bytes_iff (ext : Ext) (dp : DParms) : ∀ (ns : List Str) (i : Nat) (inp out : Str),
    decodeChain ext dp (ns.map FObj.name) i inp = some out ↔ ChainReads ext dp ns i inp out := by
  intro ns
  induction ns with
  | nil =>
    intro i inp out
    simp only [List.map_nil, decodeChain, Option.some.injEq, ChainReads]
    exact ⟨fun h => h.symm, fun h => h.symm⟩
  | cons n ns ih =>
    intro i inp out
    simp only [List.map_cons, decodeChain, ChainReads]
    constructor
    · intro h
      cases hs : decodeWithFilter ext inp n (chainParams dp i) with
      | none => rw [hs] at h; exact absurd h (by simp)
      | some mid =>
        rw [hs] at h
        exact ⟨mid, (stage_bytes_iff ext n _ inp mid).mp hs, (ih (i + 1) mid out).mp h⟩
    · rintro ⟨mid, hs, hr⟩
      rw [(stage_bytes_iff ext n _ inp mid).mpr hs]
      exact (ih (i + 1) mid out).mpr hr

/-- an array that yields bytes holds names only -/
theorem chain_some_names (ext : Ext) (dp : DParms) (out : Str) : ∀ (xs : List Obj) (i : Nat) (inp : Str),
    decodeChain ext dp (xs.map objToFObj) i inp = some out → ∃ ns : List Str, xs = ns.map Obj.name := by
  intro xs
  induction xs with
  | nil => intro _ _ _; exact ⟨[], rfl⟩
  | cons x xs ih =>
    intro i inp h
    cases x with
    | name n =>
      simp only [List.map_cons, objToFObj, decodeChain] at h
      cases hs : decodeWithFilter ext inp n (chainParams dp i) with
      | none => rw [hs] at h; exact absurd h (by simp)
      | some mid =>
        rw [hs] at h
        obtain ⟨ns, hns⟩ := ih (i + 1) mid h
        exact ⟨n :: ns, by simp [hns]⟩
    | _ => simp [objToFObj, decodeChain] at h

/-- the parameters a single (non-array) `Filter` name is handed -/
def singleParams (d : Dict) : Option Params :=
  paramsObjToDict (objToPObj (match dictGet d kDecodeParms with
    | some (.array _) => none | o => o))

/-- **decode_bytes_iff** — `C05S.decode_not_wrong_bytes` with its converse: for every dictionary,
all data and every `y`, `Decode()` returns `y` **iff** `Filter` is absent (or a Go nil) and `y` is
the data itself, or `Filter` is a name and the data reads as `y` under that filter with the
`DecodeParms` entry (an array next to a name counts as none), or `Filter` is an array of names and
the data reads as `y` stage by stage, in array order, stage `i` with the `i`-th parameters. -/
theorem decode_bytes_iff (ext : Ext) (d : Dict) (data y : Str) :
    streamDecodeD ext d data = some y ↔
      (((dictGet d kFilter = none ∨ dictGet d kFilter = some .nil) ∧ y = data) ∨
       (∃ n, dictGet d kFilter = some (.name n) ∧ StageReads ext n (singleParams d) data y) ∨
       (∃ ns : List Str, dictGet d kFilter = some (.array (ns.map Obj.name)) ∧
         ChainReads ext (objToDParms (dictGet d kDecodeParms)) ns 0 data y)) := by
  have hsingle : ∀ n, streamDecode ext (.one (.name n)) (objToDParms (dictGet d kDecodeParms)) data =
      decodeWithFilter ext data n (singleParams d) := by
    intro n
    unfold singleParams
    simp only [streamDecode]
    cases hdp : dictGet d kDecodeParms with
    | none => rfl
    | some po => cases po <;> rfl
  have hmap : ∀ ns : List Str, (ns.map Obj.name).map objToFObj = ns.map FObj.name := by
    intro ns; simp [List.map_map]; intro a _; rfl
  unfold streamDecodeD
  constructor
  · intro h
    cases hf : dictGet d kFilter with
    | none =>
      rw [hf] at h
      simp only [objToFilter, streamDecode, Option.some.injEq] at h
      exact Or.inl ⟨Or.inl rfl, h.symm⟩
    | some fo =>
      rw [hf] at h
      cases fo with
      | nil =>
        simp only [objToFilter, streamDecode, Option.some.injEq] at h
        exact Or.inl ⟨Or.inr rfl, h.symm⟩
      | name n =>
        simp only [objToFilter] at h
        rw [hsingle n] at h
        exact Or.inr (Or.inl ⟨n, rfl, (stage_bytes_iff ext n _ data y).mp h⟩)
      | array xs =>
        simp only [objToFilter, streamDecode] at h
        obtain ⟨ns, hns⟩ := chain_some_names ext _ y xs 0 data h
        subst hns
        rw [hmap] at h
        exact Or.inr (Or.inr ⟨ns, rfl, (chain_bytes_iff ext _ ns 0 data y).mp h⟩)
      | _ => simp [objToFilter, streamDecode] at h
  · rintro (⟨hf | hf, hy⟩ | ⟨n, hf, hs⟩ | ⟨ns, hf, hc⟩)
    · rw [hf, hy]; rfl
    · rw [hf, hy]; rfl
    · rw [hf]
      simp only [objToFilter]
      rw [hsingle n]
      exact (stage_bytes_iff ext n _ data y).mpr hs
    · rw [hf]
      simp only [objToFilter, streamDecode]
      rw [hmap]
      exact (chain_bytes_iff ext _ ns 0 data y).mpr hc

/-- the filter loop fails exactly at a first position `k`: the `k` entries before it are names
whose filters succeed one after the other, and entry `k` is no name, or its filter fails on what
the prefix produced -/
theorem chain_error_iff (ext : Ext) (dp : DParms) : ∀ (xs : List FObj) (i : Nat) (inp : Str),
    decodeChain ext dp xs i inp = none ↔
      ∃ (pre : List Str) (x : FObj) (post : List FObj) (mid : Str), xs = pre.map FObj.name ++ x :: post ∧
        decodeChain ext dp (pre.map FObj.name) i inp = some mid ∧
        (x = .other ∨ ∃ n, x = .name n ∧ decodeWithFilter ext mid n (chainParams dp (i + pre.length)) = none) := by
  intro xs
  induction xs with
  | nil =>
    intro i inp
    simp only [decodeChain, reduceCtorEq, false_iff]
    rintro ⟨pre, x, post, mid, h, _⟩
    cases pre <;> simp at h
  | cons x xs ih =>
    intro i inp
    cases x with
    | other =>
      simp only [decodeChain, true_iff]
      exact ⟨[], .other, xs, inp, rfl, rfl, Or.inl rfl⟩
    | name n =>
      simp only [decodeChain]
      cases hs : decodeWithFilter ext inp n (chainParams dp i) with
      | none =>
        simp only [true_iff]
        exact ⟨[], .name n, xs, inp, rfl, rfl, Or.inr ⟨n, rfl, by simpa using hs⟩⟩
      | some m =>
        simp only
        rw [ih (i + 1) m]
        constructor
        · rintro ⟨pre, x, post, mid, hxs, hpre, hx⟩
          refine ⟨n :: pre, x, post, mid, by simp [hxs], by simp [decodeChain, hs, hpre], ?_⟩
          have e : i + (n :: pre).length = i + 1 + pre.length := by simp; omega
          rw [e]; exact hx
        · rintro ⟨pre, x, post, mid, hxs, hpre, hx⟩
          cases pre with
          | nil =>
            simp only [List.map_nil, List.nil_append, List.cons.injEq] at hxs
            simp only [List.map_nil, decodeChain, Option.some.injEq] at hpre
            obtain ⟨hx0, _⟩ := hxs
            subst hx0 hpre
            rcases hx with hx | ⟨n', hn', hbad⟩
            · exact absurd hx (by simp)
            · simp only [FObj.name.injEq] at hn'
              subst hn'
              simp only [List.length_nil, Nat.add_zero] at hbad
              rw [hs] at hbad
              exact absurd hbad (by simp)
          | cons p pre =>
            simp only [List.map_cons, List.cons_append, List.cons.injEq, FObj.name.injEq] at hxs
            obtain ⟨hp, hxs⟩ := hxs
            subst hp
            simp only [List.map_cons, decodeChain, hs] at hpre
            refine ⟨pre, x, post, mid, hxs, hpre, ?_⟩
            have e : i + (n :: pre).length = i + 1 + pre.length := by simp; omega
            rw [e] at hx; exact hx

/-- an array whose digested form starts with `pre.length` names starts with those names -/
theorem split_names : ∀ (xs : List Obj) (pre : List Str) (x : FObj) (post : List FObj),
    xs.map objToFObj = pre.map FObj.name ++ x :: post →
    ∃ x' post', xs = pre.map Obj.name ++ x' :: post' ∧ objToFObj x' = x ∧ post'.map objToFObj = post := by
  intro xs pre
  induction pre generalizing xs with
  | nil =>
    intro x post h
    cases xs with
    | nil => simp at h
    | cons x0 xs =>
      simp only [List.map_cons, List.map_nil, List.nil_append, List.cons.injEq] at h
      exact ⟨x0, xs, rfl, h.1, h.2⟩
  | cons p pre ih =>
    intro x post h
    cases xs with
    | nil => simp at h
    | cons x0 xs =>
      simp only [List.map_cons, List.cons_append, List.cons.injEq] at h
      obtain ⟨x', post', hxs, hx', hpost⟩ := ih xs x post h.2
      have h0 : x0 = .name p := by
        have := h.1
        cases x0 <;> simp [objToFObj] at this
        rw [this]
      exact ⟨x', post', by simp [h0, hxs], hx', hpost⟩

/-- **decode_error_iff**: for every dictionary and all data, `Decode()` returns an error exactly
when (1) the `Filter` entry is neither absent / nil, a name nor an array; or (2) it is a name whose
filter fails on the data (`stage_error_iff` says when); or (3) it is an array in which, after `k`
names whose filters succeed one after the other, the entry at `k` is not a name or its filter
fails on what the first `k` produced — with the `k`-th parameters. -/
theorem decode_error_iff (ext : Ext) (d : Dict) (data : Str) :
    streamDecodeD ext d data = none ↔
      ((∃ o, dictGet d kFilter = some o ∧ o ≠ .nil ∧ (∀ s, o ≠ .name s) ∧ (∀ xs, o ≠ .array xs)) ∨
       (∃ n, dictGet d kFilter = some (.name n) ∧ decodeWithFilter ext data n (singleParams d) = none) ∨
       (∃ (pre : List Str) (x : Obj) (post : List Obj) (mid : Str),
         dictGet d kFilter = some (.array (pre.map Obj.name ++ x :: post)) ∧
         decodeChain ext (objToDParms (dictGet d kDecodeParms)) (pre.map FObj.name) 0 data = some mid ∧
         ((∀ s, x ≠ .name s) ∨ ∃ n, x = .name n ∧
           decodeWithFilter ext mid n (chainParams (objToDParms (dictGet d kDecodeParms)) pre.length) = none))) := by
  have hsingle : ∀ n, streamDecode ext (.one (.name n)) (objToDParms (dictGet d kDecodeParms)) data =
      decodeWithFilter ext data n (singleParams d) := by
    intro n
    unfold singleParams
    simp only [streamDecode]
    cases hdp : dictGet d kDecodeParms with
    | none => rfl
    | some po => cases po <;> rfl
  unfold streamDecodeD
  cases hf : dictGet d kFilter with
  | none =>
    simp only [objToFilter, streamDecode, reduceCtorEq, false_iff]
    rintro (⟨o, h, _⟩ | ⟨n, h, _⟩ | ⟨pre, x, post, mid, h, _⟩) <;> exact absurd h (by simp)
  | some fo =>
    cases fo with
    | nil =>
      simp only [objToFilter, streamDecode, reduceCtorEq, false_iff]
      rintro (⟨o, h, h0, _⟩ | ⟨n, h, _⟩ | ⟨pre, x, post, mid, h, _⟩)
      · simp only [Option.some.injEq] at h; exact h0 h.symm
      · simp at h
      · simp at h
    | name n =>
      simp only [objToFilter]
      rw [hsingle n]
      constructor
      · intro h; exact Or.inr (Or.inl ⟨n, rfl, h⟩)
      · rintro (⟨o, h, _, h1, _⟩ | ⟨n', h, hbad⟩ | ⟨pre, x, post, mid, h, _⟩)
        · simp only [Option.some.injEq] at h; exact absurd h.symm (h1 n)
        · simp only [Option.some.injEq, Obj.name.injEq] at h; subst h; exact hbad
        · simp at h
    | array xs =>
      simp only [objToFilter, streamDecode]
      rw [chain_error_iff]
      constructor
      · rintro ⟨pre, x, post, mid, hxs, hpre, hx⟩
        obtain ⟨x', post', hsplit, hx', _⟩ := split_names xs pre x post hxs
        refine Or.inr (Or.inr ⟨pre, x', post', mid, by rw [hsplit], hpre, ?_⟩)
        rcases hx with hx | ⟨n, hn, hbad⟩
        · left
          intro s hs
          rw [hs, hx] at hx'
          simp [objToFObj] at hx'
        · right
          refine ⟨n, ?_, by simpa using hbad⟩
          rw [hn] at hx'
          cases x' <;> simp [objToFObj] at hx'
          rw [hx']
      · rintro (⟨o, h, _, _, h2⟩ | ⟨n, h, _⟩ | ⟨pre, x, post, mid, h, hpre, hx⟩)
        · simp only [Option.some.injEq] at h; exact absurd h.symm (h2 xs)
        · simp at h
        · simp only [Option.some.injEq, Obj.array.injEq] at h
          subst h
          refine ⟨pre, objToFObj x, post.map objToFObj, mid, ?_, hpre, ?_⟩
          · simp [List.map_append, List.map_map]; intro a _; rfl
          · rcases hx with hx | ⟨n, hn, hbad⟩
            · left
              cases x with
              | name s => exact absurd rfl (hx s)
              | _ => rfl
            · right
              subst hn
              exact ⟨n, rfl, by simpa using hbad⟩
    | null | bool _ | int _ | real _ _ | str _ | dict _ | other =>
      simp only [objToFilter, streamDecode, true_iff]
      exact Or.inl ⟨_, rfl, by simp, by simp, by simp⟩

/-- non-vacuity: `/Filter [/AHx 7 /Fl]` fails at position 1 after the hexadecimal stage read "41" -/
example : streamDecodeD { inflate := fun _ => none, ccitt := fun _ _ => none }
    [(kFilter, .array [.name nAHx, .int 7, .name nFl])] [52, 49, 62] = none := by decide

end Tabula.C05Err
