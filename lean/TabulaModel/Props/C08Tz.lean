import TabulaModel.Props.C08Text
/-!
# C08 — under `0 Tz` shown text does not move the text matrix (programs with forms)

The document-level correspondence (ops c08.doc, c08.docx0) starts every page with `0 Tz` and
runs the model with the displacement function `0`, so that the origin of EVERY fragment is
compared although the model of the documents knows no font widths.  This file proves that
this is sound: in a state in which the horizontal scaling is 0 — in the current graphics
state and in every saved one — a program without `Tz` (forms nested to any depth, balanced
or not, any other operators, `TJ` arrays with numbers included) runs under the displacement
function the code computes exactly as it runs under the displacement function `0`: same
error behaviour, same states, same fragments.
-/
namespace Tabula.C08Tz
open Tabula Tabula.Matrix Tabula.GState Tabula.TextAdv Tabula.C08Text

variable {α : Type} [Lean.Grind.Field α] [DecidableEq α] [LT α] [DecidableLT α]

/-- the displacement function `0` -/
def zeroAdv : Adv α := fun _ _ => 0

/-- horizontal scaling 0 in the current graphics state and in every saved one -/
def ZeroTz (s : State α) : Prop :=
  s.cur.text.hScaling = 0 ∧ ∀ f ∈ s.stack, f.text.hScaling = 0

/-- programs without `Tz`, forms included -/
inductive TzFree : List (Op α) → Prop where
  | nil : TzFree []
  | plain (op : Op α) (rest : List (Op α)) : (∀ z, op ≠ .Tz z) → (∀ m b, op ≠ .form m b) → TzFree rest →
      TzFree (op :: rest)
  | form (m : Option (Matrix α)) (body rest : List (Op α)) : TzFree body → TzFree rest →
      TzFree (Op.form m body :: rest)

theorem advance_zero (info : Nat → StrInfo α) (t : TextState α) (h : t.hScaling = 0) (it : TJItem α) :
    advance info t it = zeroAdv t it := tz_zero_no_advance info t h it

omit [DecidableEq α] [LT α] [DecidableLT α] in
theorem zeroTz_mapText (s : State α) (f : TextState α → TextState α)
    (hf : (f s.cur.text).hScaling = s.cur.text.hScaling) (h : ZeroTz s) : ZeroTz (s.mapText f) :=
  ⟨by show (f s.cur.text).hScaling = 0; rw [hf]; exact h.1, h.2⟩

theorem showText_zero (info : Nat → StrInfo α) (sid : Nat) (s : State α) (h : ZeroTz s) :
    showText (advance info) sid s = showText zeroAdv sid s ∧ ZeroTz (showText zeroAdv sid s).1 := by
  refine ⟨?_, zeroTz_mapText s _ rfl h⟩
  simp only [showText, advance_zero info _ h.1]

theorem showTextArray_zero (info : Nat → StrInfo α) (items : List (TJItem α)) (s : State α) (h : ZeroTz s) :
    showTextArray (advance info) items s = showTextArray zeroAdv items s ∧
      ZeroTz (showTextArray zeroAdv items s).1 := by
  induction items generalizing s with
  | nil => exact ⟨rfl, h⟩
  | cons it rest ih =>
    cases it with
    | str sid =>
      obtain ⟨e1, z1⟩ := showText_zero info sid s h
      obtain ⟨e2, z2⟩ := ih _ z1
      exact ⟨by simp only [showTextArray, e1, e2], z2⟩
    | num v =>
      have z1 : ZeroTz (s.advanceText (zeroAdv s.cur.text (.num v))) := zeroTz_mapText s _ rfl h
      obtain ⟨e2, z2⟩ := ih _ z1
      exact ⟨by simp only [showTextArray, advance_zero info _ h.1, e2], z2⟩

/-- one operator that is neither `Tz` nor `Do` -/
theorem stepBasic_zero (info : Nat → StrInfo α) (op : Op α) (hz : ∀ z, op ≠ .Tz z) (s : State α) (h : ZeroTz s) :
    stepBasic (advance info) op s = stepBasic zeroAdv op s ∧ ZeroTz (stepBasic zeroAdv op s).1 := by
  cases op with
  | Tz z => exact absurd rfl (hz z)
  | q => exact ⟨rfl, h.1, fun f hf => by
      rcases List.mem_cons.mp hf with rfl | hm
      · exact h.1
      · exact h.2 f hm⟩
  | Q =>
    cases hst : s.stack with
    | nil =>
      refine ⟨rfl, ?_⟩
      simp only [stepBasic, State.restore, hst]; exact h
    | cons f fs =>
      refine ⟨rfl, ?_⟩
      simp only [stepBasic, State.restore, hst]
      refine ⟨?_, ?_⟩
      · exact h.2 f (by rw [hst]; exact List.mem_cons_self)
      · intro g hg; exact h.2 g (by rw [hst]; exact List.mem_cons_of_mem _ hg)
  | Tj sid =>
    obtain ⟨e, z⟩ := showText_zero info sid s h
    exact ⟨by simp only [stepBasic, e], z⟩
  | TJ items =>
    obtain ⟨e, z⟩ := showTextArray_zero info items s h
    exact ⟨by simp only [stepBasic, e], z⟩
  | quote sid =>
    have hn : ZeroTz s.nextLine := zeroTz_mapText s _ rfl h
    obtain ⟨e, z⟩ := showText_zero info sid s.nextLine hn
    exact ⟨by simp only [stepBasic, e], z⟩
  | dquote aw ac sid =>
    have hn : ZeroTz ((s.setWordSpacing aw).setCharSpacing ac).nextLine :=
      zeroTz_mapText _ _ rfl (zeroTz_mapText _ _ rfl (zeroTz_mapText s _ rfl h))
    obtain ⟨e, z⟩ := showText_zero info sid _ hn
    exact ⟨by simp only [stepBasic, e], z⟩
  | cm m => exact ⟨rfl, h⟩
  | BT => exact ⟨rfl, zeroTz_mapText s _ rfl h⟩
  | ET => exact ⟨rfl, h⟩
  | Tf size => exact ⟨rfl, zeroTz_mapText s _ rfl h⟩
  | Tm m => exact ⟨rfl, zeroTz_mapText s _ rfl h⟩
  | Td tx ty => exact ⟨rfl, zeroTz_mapText s _ rfl h⟩
  | TD tx ty => exact ⟨rfl, zeroTz_mapText _ _ rfl (zeroTz_mapText s _ rfl h)⟩
  | Tstar => exact ⟨rfl, zeroTz_mapText s _ rfl h⟩
  | TL l => exact ⟨rfl, zeroTz_mapText s _ rfl h⟩
  | Tc c => exact ⟨rfl, zeroTz_mapText s _ rfl h⟩
  | Tw w => exact ⟨rfl, zeroTz_mapText s _ rfl h⟩
  | Ts r => exact ⟨rfl, zeroTz_mapText s _ rfl h⟩
  | form m b => exact ⟨rfl, h⟩
  | line a b c d => exact ⟨rfl, h⟩

omit [DecidableEq α] [LT α] [DecidableLT α] in
theorem zeroTz_formEnter (m : Option (Matrix α)) (s : State α) (h : ZeroTz s) : ZeroTz (formEnter m s) := by
  have hst : ∀ f ∈ s.cur :: s.stack, f.text.hScaling = 0 := by
    intro f hf
    rcases List.mem_cons.mp hf with rfl | hm
    · exact h.1
    · exact h.2 f hm
  cases m <;> exact ⟨h.1, hst⟩

omit [DecidableEq α] [LT α] [DecidableLT α] in
theorem zeroTz_formExit (s : State α) (h : ZeroTz s) : ZeroTz (formExit s) := by
  cases hst : s.stack with
  | nil =>
    have : formExit s = { s with xdepth := s.xdepth - 1 } := by simp [formExit, State.restore, hst]
    rw [this]; exact h
  | cons f fs =>
    have : formExit s = { cur := f, stack := fs, xdepth := s.xdepth - 1 } := by
      simp [formExit, State.restore, hst]
    rw [this]
    exact ⟨h.2 f (by rw [hst]; exact List.mem_cons_self),
      fun g hg => h.2 g (by rw [hst]; exact List.mem_cons_of_mem _ hg)⟩

/-- the loop of a form's content, forms inside it included -/
theorem runForm_zero (info : Nat → StrInfo α) {ops : List (Op α)} (hf : TzFree ops) :
    ∀ s : State α, ZeroTz s →
      runForm (advance info) ops s = runForm zeroAdv ops s ∧ ZeroTz (runForm zeroAdv ops s).1 := by
  induction hf with
  | nil => intro s h; exact ⟨by simp [runForm], by simpa [runForm] using h⟩
  | plain op rest hz hnf _ ih =>
    intro s h
    obtain ⟨e1, z1⟩ := stepBasic_zero info op hz s h
    obtain ⟨e2, z2⟩ := ih _ z1
    have hr : ∀ adv : Adv α, runForm adv (op :: rest) s =
        ((runForm adv rest (stepBasic adv op s).1).1,
          (stepBasic adv op s).2.1 ++ (runForm adv rest (stepBasic adv op s).1).2) := by
      intro adv
      cases op <;> first | exact absurd rfl (hnf _ _) | simp [runForm]
    rw [hr, hr, e1, e2]
    exact ⟨rfl, z2⟩
  | form m body rest _ _ ihb ihr =>
    intro s h
    by_cases hdep : s.xdepth ≥ maxXObjectDepth
    · obtain ⟨e2, z2⟩ := ihr s h
      have hr : ∀ adv : Adv α, runForm adv (Op.form m body :: rest) s = runForm adv rest s := by
        intro adv; simp only [runForm, hdep, if_true]
      rw [hr, hr]
      exact ⟨e2, z2⟩
    · obtain ⟨e1, z1⟩ := ihb _ (zeroTz_formEnter m s h)
      obtain ⟨e2, z2⟩ := ihr _ (zeroTz_formExit _ z1)
      have hr : ∀ adv : Adv α, runForm adv (Op.form m body :: rest) s =
          ((runForm adv rest (formExit (runForm adv body (formEnter m s)).1)).1,
            (runForm adv body (formEnter m s)).2 ++ (runForm adv rest (formExit (runForm adv body (formEnter m s)).1)).2) := by
        intro adv; simp only [runForm, hdep, if_false]
      rw [hr, hr, e1, e2]
      exact ⟨rfl, z2⟩

/-- **`0 Tz`: the displacement function does not matter.**  For every program without `Tz`
— forms nested to any depth with any content, `TJ` arrays, `Tc`, `Tw`, `Tf`, `Ts`, q/Q
balanced or not — and every state whose horizontal scaling is 0 in the current and in every
saved graphics state, `Extract` under the displacement function the code computes (any
font, any strings) is `Extract` under the displacement function `0`: the same error, the
same final state, the same fragments at the same origins. -/
theorem zero_tz_exec (info : Nat → StrInfo α) {ops : List (Op α)} (hf : TzFree ops) :
    ∀ s : State α, ZeroTz s → exec (advance info) ops s = exec zeroAdv ops s := by
  induction hf with
  | nil => intro s _; rfl
  | plain op rest hz hnf _ ih =>
    intro s h
    obtain ⟨e1, z1⟩ := stepBasic_zero info op hz s h
    have hs : ∀ adv : Adv α, step adv op s = stepBasic adv op s := by
      intro adv
      cases op <;> first | exact absurd rfl (hnf _ _) | rfl
    simp only [exec, hs, e1]
    split
    · rfl
    · rw [ih _ z1]
  | form m body rest hb _ _ ihr =>
    intro s h
    by_cases hdep : s.xdepth ≥ maxXObjectDepth
    · simp only [exec, step, hdep, if_true]
      rw [ihr s h]
    · obtain ⟨e1, z1⟩ := runForm_zero info hb _ (zeroTz_formEnter m s h)
      simp only [exec, step, hdep, if_false, e1]
      rw [ihr _ (zeroTz_formExit _ z1)]

/-- the page programs of op c08.doc: `0 Tz` first, then a program without `Tz`, on a new
extractor (or on one left by earlier such pages) -/
theorem zero_tz_page (info : Nat → StrInfo α) {ops : List (Op α)} (hf : TzFree ops) (s : State α)
    (hs : ∀ f ∈ s.stack, f.text.hScaling = 0) :
    exec (advance info) (Op.Tz 0 :: ops) s = exec zeroAdv (Op.Tz 0 :: ops) s := by
  have hz : ZeroTz (s.setHorizontalScaling 0) := ⟨rfl, hs⟩
  simp only [exec, step, stepBasic, Bool.false_eq_true, if_false]
  rw [zero_tz_exec info hf _ hz]

/-- `ZeroTz` holds after `0 Tz` on a new extractor, and after `q` there -/
example : ZeroTz ((init : State Rat).setHorizontalScaling 0) ∧ ZeroTz ((init : State Rat).setHorizontalScaling 0).save :=
  ⟨⟨rfl, by intro f hf; cases hf⟩, ⟨rfl, by
    intro f hf
    rcases List.mem_cons.mp hf with rfl | hm
    · rfl
    · cases hm⟩⟩

/-- the hypotheses are satisfiable: a page with a form that shows a `TJ` array under `Tc` -/
example : TzFree ([.q, .cm ⟨2, 0, 0, 2, 0, 0⟩, .form (some ⟨1, 0, 0, 1, 5, 5⟩) [.BT, .Tc 3, .TJ [.str 0, .num (-200), .str 1], .Q],
    .Tj 2, .Q] : List (Op Rat)) :=
  .plain _ _ (by intro z h; cases h) (by intro m b h; cases h)
    (.plain _ _ (by intro z h; cases h) (by intro m b h; cases h)
      (.form _ _ _
        (.plain _ _ (by intro z h; cases h) (by intro m b h; cases h)
          (.plain _ _ (by intro z h; cases h) (by intro m b h; cases h)
            (.plain _ _ (by intro z h; cases h) (by intro m b h; cases h)
              (.plain _ _ (by intro z h; cases h) (by intro m b h; cases h) .nil))))
        (.plain _ _ (by intro z h; cases h) (by intro m b h; cases h)
          (.plain _ _ (by intro z h; cases h) (by intro m b h; cases h) .nil))))

end Tabula.C08Tz
