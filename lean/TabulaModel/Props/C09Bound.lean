import TabulaModel.Props.C09Api
import TabulaModel.Lemmas.LayoutBound
/-!
# C09 and the resource bound of `PreserveLayout()` (C02 repair daef69b)

`extractPreserveLayout` turns positions into white space: `int(gap/lineHeight + 0.5)` newlines
between two lines and blanks up to column `int(x/charWidth)` in front of a fragment. Positions
and font sizes come from the content stream, so before daef69b neither number was bounded (text
at y = 1e14 asked for 10^13 newlines). The repair clamps: at most `maxGapLines` = 100 newlines
for one gap (`if gapInLines > maxGapLines`: 100 is kept, 101 becomes 100) and a target column of
at most `maxCharsPerLine` = 200 (`if targetCol > maxCharsPerLine`: 200 is kept, 201 becomes 200).

For C09 the clamps are harmless - they cut PADDING, never text: the conservation theorems
(`C09.assemble_conserves_preserveLayoutGo`, `C09Api.page_text_conserves`, `document_text_conserves`)
hold verbatim for all inputs, with no hypothesis on the coordinates. What is new is stated here,
about `preserveLayoutGo` (`Model/Layout.lean`), for every character width `cw`, every fall-back
line height `lh0` and every fragment list:

(a) beyond the bound the model answers what the code answers: the clamped amount
    (`preserve_gap_truncated`, `preserve_col_truncated`), and inside it the requested amount
    (`preserve_gap_within`, `preserve_col_within`);
(b) bounded work: a line gets at most 200 blanks IN TOTAL (the column counter only grows), a gap
    at most 100 newlines, so the output is at most the text bytes + 200 per line + 100 per gap
    (`preserve_layout_bounded_lines`), hence at most text + 300 x fragments
    (`preserve_layout_bounded`, `page_text_preserve_bounded`, `document_text_preserve_bounded`);
(c) `example`s at the edge (100 / 101 newlines, column 200 / 201, y = x = 10^14).
-/
namespace Tabula.C09Bound
open Tabula.Layout List

/-! ## (a) the clamps -/

/-- the requested number of newlines before line `ln`: `int(verticalGap/lineHeight + 0.5)` -/
def gapRequested (lh0 ly : Rat) (ln : List Frag) : Int :=
  truncInt ((ly - plLineY ln) / (if plHeight ln ≤ 0 then lh0 else plHeight ln) + 1/2)

/-- the requested column of a fragment: `int(frag.X / charWidth)` -/
def colRequested (cw : Rat) (f : Frag) : Int := truncInt (f.x / cw)

/-- beyond the bound: a gap that asks for more than 100 newlines gets exactly 100 -/
theorem preserve_gap_truncated (lh0 ly : Rat) (ln : List Frag) (h : gapRequested lh0 ly ln > 100) :
    plGapLines lh0 ly ln = 100 := by
  unfold gapRequested at h
  unfold plGapLines maxGapLines
  simp only
  rw [if_neg (by omega), if_pos (by omega)]

/-- inside the bound (1 ≤ request ≤ 100, the bound itself included) the request is served -/
theorem preserve_gap_within (lh0 ly : Rat) (ln : List Frag)
    (h1 : 1 ≤ gapRequested lh0 ly ln) (h2 : gapRequested lh0 ly ln ≤ 100) :
    (plGapLines lh0 ly ln : Int) = gapRequested lh0 ly ln := by
  unfold gapRequested at *
  unfold plGapLines maxGapLines
  simp only
  rw [if_neg (by omega), if_neg (by omega)]
  omega

/-- every gap writes between 1 and 100 newlines -/
theorem preserve_gap_bounds (lh0 ly : Rat) (ln : List Frag) :
    1 ≤ plGapLines lh0 ly ln ∧ plGapLines lh0 ly ln ≤ 100 :=
  ⟨plGapLines_pos lh0 ly ln, plGapLines_le lh0 ly ln⟩

/-- beyond the bound: a fragment whose position asks for a column beyond 200 is put at 200 -/
theorem preserve_col_truncated (cw : Rat) (f : Frag) (h : colRequested cw f > 200) :
    plTargetCol cw f = 200 := by
  unfold colRequested at h
  unfold plTargetCol maxCharsPerLine
  simp only
  rw [if_neg (by omega), if_pos (by omega)]

/-- inside the bound (0 ≤ request ≤ 200, the bound itself included) the request is served -/
theorem preserve_col_within (cw : Rat) (f : Frag)
    (h1 : 0 ≤ colRequested cw f) (h2 : colRequested cw f ≤ 200) :
    (plTargetCol cw f : Int) = colRequested cw f := by
  unfold colRequested at *
  unfold plTargetCol maxCharsPerLine
  simp only
  rw [if_neg (by omega), if_neg (by omega)]
  omega

/-- every target column is at most 200 -/
theorem preserve_col_bounded (cw : Rat) (f : Frag) : plTargetCol cw f ≤ 200 :=
  plTargetCol_le cw f

/-! ## (b) bounded work -/

/-- one line, whatever its fragments and their positions: at most 200 blanks in total (each
blank run ends at a target column ≤ 200 and the column counter never goes back) -/
theorem preserve_line_padding_bounded (cw : Rat) (l : List Frag) :
    (plLineText cw 0 l).length ≤ (textsOf l).length + 200 :=
  plLineText_length0 cw l

/-- from a column counter `col` on, a line gets at most `200 - col` blanks -/
theorem preserve_line_padding_from (cw : Rat) (col : Nat) (l : List Frag) :
    (plLineText cw col l).length ≤ (textsOf l).length + (200 - col) := by
  have := plLineText_length cw col l
  unfold maxCharsPerLine at this
  omega

/-- the whole text of `extractPreserveLayout` for EVERY input: the bytes of the fragment texts,
at most 200 blanks per line and at most 100 newlines per gap between two lines -/
theorem preserve_layout_bounded_lines (cw lh0 : Rat) (fs : List Frag) :
    (preserveLayoutGo cw lh0 fs).length ≤
      (textsOf fs).length + 200 * (plLines (stableSort plLess fs)).length
        + 100 * ((plLines (stableSort plLess fs)).length - 1) := by
  have hp : (textsOf (stableSort plLess fs)).length = (textsOf fs).length :=
    textsOf_length_perm (stableSort_perm _ _)
  have hf := plLines_flatten (stableSort plLess fs)
  unfold preserveLayoutGo preserveLayoutSorted
  cases hL : plLines (stableSort plLess fs) with
  | nil => simp
  | cons ln rest =>
    rw [hL] at hf
    have h1 := plLineText_length0 cw ln
    have h2 := plEmitLines_length cw lh0 (plLineY ln) rest
    have h3 : (textsOf ln).length + (textsOf rest.flatten).length = (textsOf fs).length := by
      rw [← hp, ← hf, List.flatten_cons, textsOf_append, List.length_append]
    simp only [List.length_append, List.length_cons]
    unfold maxCharsPerLine maxGapLines at *
    omega

/-- there are at most as many lines as fragments -/
theorem preserve_lines_le_fragments (fs : List Frag) :
    (plLines (stableSort plLess fs)).length ≤ fs.length := by
  have := plLines_length_le (stableSort plLess fs)
  rw [(stableSort_perm plLess fs).length_eq] at this
  exact this

/-- BOUNDED OUTPUT, every input: `PreserveLayout` text ≤ text bytes + 300 per fragment. No
position, font size or page width can make it longer (before daef69b: y = 1e14 asked for 10^13
newlines, x = 1e14 for 10^13 blanks). -/
theorem preserve_layout_bounded (cw lh0 : Rat) (fs : List Frag) :
    (preserveLayoutGo cw lh0 fs).length ≤ (textsOf fs).length + 300 * fs.length := by
  have h1 := preserve_layout_bounded_lines cw lh0 fs
  have h2 := preserve_lines_le_fragments fs
  omega

/-- the padding alone: the output minus the text is at most 300 per fragment -/
theorem preserve_padding_bounded (cw lh0 : Rat) (fs : List Frag) :
    (preserveLayoutGo cw lh0 fs).length - (textsOf fs).length ≤ 300 * fs.length := by
  have := preserve_layout_bounded cw lh0 fs
  omega

/-- PAGE LEVEL: `Open(f).PreserveLayout().Text()` of a page, for every outcome of every
heuristic -/
theorem page_text_preserve_bounded (hz : Heur) (o : TextOpts) (widthZero : Bool) (fs : List Frag)
    (h : o.preserveLayout = true) :
    (pageText hz o widthZero fs).length ≤ (textsOf fs).length + 300 * fs.length := by
  unfold pageText
  rw [(C09Api.dispatch_precedence o _ _ _ _ _ _).1 h]
  exact preserve_layout_bounded hz.cw hz.lh0 fs

example : (⟨true, false, true⟩ : TextOpts).preserveLayout = true := rfl

/-- what one page may contribute under `PreserveLayout`: its OCR text (external) when it has no
fragments, otherwise text + 300 per fragment -/
def pageBudget (p : PageIn) : Nat :=
  if p.frags.isEmpty then p.ocr.length else (textsOf p.frags).length + 300 * p.frags.length

theorem page_in_text_preserve_bounded (o : TextOpts) (p : PageIn) (h : o.preserveLayout = true) :
    (PageIn.text o p).length ≤ pageBudget p := by
  unfold PageIn.text pageBudget
  split
  · exact Nat.le_refl _
  · exact page_text_preserve_bounded p.hz o p.widthZero p.frags h

theorem joinPages_length (i : Nat) (acc : Str) (ts : List Str) :
    (joinPages i acc ts).length ≤ acc.length + (ts.map List.length).sum + 2 * ts.length := by
  induction ts generalizing i acc with
  | nil => simp [joinPages]
  | cons t ts ih =>
    have := ih (i + 1) (acc ++ (if i > 0 && !acc.isEmpty && !t.isEmpty then [10, 10] else []) ++ t)
    simp only [joinPages, List.map_cons, List.sum_cons, List.length_cons]
    simp only [List.length_append] at this
    have h2 : (if i > 0 && !acc.isEmpty && !t.isEmpty then [10, 10] else ([] : Str)).length ≤ 2 := by
      split <;> simp
    omega

theorem sum_le_sum {α : Type} (f g : α → Nat) (l : List α) (h : ∀ a ∈ l, f a ≤ g a) :
    (l.map f).sum ≤ (l.map g).sum := by
  induction l with
  | nil => simp
  | cons a l ih =>
    have h1 := h a (by simp)
    have h2 := ih (fun b hb => h b (by simp [hb]))
    simp only [List.map_cons, List.sum_cons]
    omega

/-- DOCUMENT LEVEL: `Open(f).PreserveLayout().Text()` over ALL page lists - the budgets of the
pages plus the blank line between two page texts -/
theorem document_text_preserve_bounded (o : TextOpts) (pages : List PageIn) (h : o.preserveLayout = true) :
    (docText o pages).length ≤ (pages.map pageBudget).sum + 2 * pages.length := by
  unfold docText
  have h1 := joinPages_length 0 [] (pages.map (PageIn.text o))
  have h2 : ((pages.map (PageIn.text o)).map List.length).sum ≤ (pages.map pageBudget).sum := by
    rw [List.map_map]
    exact sum_le_sum _ _ pages (fun p _ => page_in_text_preserve_bounded o p h)
  simp only [List.length_nil, List.length_map] at h1
  omega

/-! ## (c) at the edge

Character width 6 (font size 10), fall-back line height 36/5; a line of height 10. -/

/-- the second line, `H` set at size 10 -/
def lineH : List Frag := [⟨1, 0, 0, 6, 10, 10, [72]⟩]

-- gap = 995 → int(99.5 + 0.5) = 100 newlines (the bound: served)
example : gapRequested (36/5) 995 lineH = 100 ∧ plGapLines (36/5) 995 lineH = 100 := by decide +kernel
-- gap = 1005 → 101 requested: 100 written (bound + 1: truncated)
example : gapRequested (36/5) 1005 lineH = 101 ∧ plGapLines (36/5) 1005 lineH = 100 := by decide +kernel
-- gap = 985 → 99 (bound - 1)
example : gapRequested (36/5) 985 lineH = 99 ∧ plGapLines (36/5) 985 lineH = 99 := by decide +kernel
-- y = 1e14 above: 10^13 requested, 100 written
example : gapRequested (36/5) 100000000000000 lineH = 10000000000000 ∧
    plGapLines (36/5) 100000000000000 lineH = 100 := by decide +kernel
-- below or level with the previous line: one newline
example : plGapLines (36/5) 0 lineH = 1 ∧ plGapLines (36/5) (-50) lineH = 1 := by decide +kernel

def fragAt (x : Rat) : Frag := ⟨0, x, 700, 6, 10, 10, [72]⟩

-- x = 1194 → column 199; 1200 → 200 (the bound: served); 1206 → 201 requested, 200 written
example : plTargetCol 6 (fragAt 1194) = 199 ∧ plTargetCol 6 (fragAt 1200) = 200 ∧
    colRequested 6 (fragAt 1206) = 201 ∧ plTargetCol 6 (fragAt 1206) = 200 := by decide +kernel
-- x = 1e14 and a negative x
example : plTargetCol 6 (fragAt 100000000000000) = 200 ∧ plTargetCol 6 (fragAt (-30)) = 0 := by decide +kernel

/-- `H` at the top left, `W` at x = 1e14 a distance of 1e14 below (already in sorted order): one
byte, 100 newlines, 200 blanks, one byte (before daef69b: 10^13 newlines and 1.6 x 10^13 blanks) -/
example : preserveLayoutSorted 6 (36/5)
    [⟨0, 0, 100000000000000, 6, 10, 10, [72]⟩, ⟨1, 100000000000000, 0, 6, 10, 10, [87]⟩] =
    [72] ++ List.replicate 100 10 ++ List.replicate 200 32 ++ [87] := by decide +kernel
/-- the whole function on one fragment far to the right -/
example : preserveLayoutGo 6 (36/5) [⟨1, 100000000000000, 0, 6, 10, 10, [87]⟩] =
    List.replicate 200 32 ++ [87] := by decide +kernel
/-- a line of three fragments that all ask for column 200 and beyond: 200 blanks in total -/
example : plLineText 6 0 [fragAt 1200, fragAt 1206, fragAt 100000000000000] =
    List.replicate 200 32 ++ [72, 72, 72] := by decide +kernel

/-- the hypotheses of `preserve_gap_within` / `preserve_col_within` are satisfiable at the bound -/
example : 1 ≤ gapRequested (36/5) 995 lineH ∧ gapRequested (36/5) 995 lineH ≤ 100 := by decide +kernel
example : 0 ≤ colRequested 6 (fragAt 1200) ∧ colRequested 6 (fragAt 1200) ≤ 200 := by decide +kernel
/-- ... and those of the `_truncated` theorems just beyond it -/
example : gapRequested (36/5) 1005 lineH > 100 ∧ colRequested 6 (fragAt 1206) > 200 := by decide +kernel

end Tabula.C09Bound
