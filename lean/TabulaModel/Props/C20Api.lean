import TabulaModel.Props.C20
import TabulaModel.Lemmas.Admit
/-!
# C20, public API — end-to-end admission, the EPUB gate, call histories

Theorems about `Model/Admit.lean` (tabula.go, extractor.go, epubdoc/reader.go, the member
switch of epubdoc/drm.go) composed with `Model/Detect.lean` and `Model/Drm.lean`.
All statements are for every input of the model.  Helper lemmas: `Lemmas/Admit.lean`.
-/
set_option autoImplicit false
namespace Tabula.C20A
open Tabula.Detect Tabula.Drm Tabula.Admit Tabula.C20

/-! ## the sniffer, exactly: what each answer means -/

/-- a file is a PDF for the sniffer iff its first four bytes are `%PDF` — nothing else is -/
theorem detect_pdf_iff (file : Str) (zip : Option (List Member)) :
    detectFromReader file zip = some .pdf ↔ sPdfMagic.isPrefixOf (file.take 512) = true := by
  unfold detectFromReader
  by_cases hp : sPdfMagic.isPrefixOf (file.take 512) = true
  · simp [hp]
  · simp only [hp, if_false, Bool.false_eq_true, iff_false]
    by_cases hz : sZipMagic.isPrefixOf (file.take 512) = true
    · simp only [hz, if_true]
      cases zip with
      | none => simp
      | some ms =>
        intro h
        have := detectZip_range ms
        rw [Option.some.inj h] at this
        simp at this
    · simp only [hz, if_false, Bool.false_eq_true]
      split <;> simp

/-- the sniffer answers HTML iff the file starts neither like a PDF nor like a ZIP and
`detectHTMLMagic` accepts its first 512 bytes -/
theorem detect_html_iff (file : Str) (zip : Option (List Member)) :
    detectFromReader file zip = some .html ↔
      sPdfMagic.isPrefixOf (file.take 512) = false ∧ sZipMagic.isPrefixOf (file.take 512) = false ∧
        detectHTMLMagic (file.take 512) = true := by
  unfold detectFromReader
  by_cases hp : sPdfMagic.isPrefixOf (file.take 512) = true
  · simp [hp]
  · have hp' : sPdfMagic.isPrefixOf (file.take 512) = false := Bool.eq_false_iff.2 hp
    simp only [hp', if_false, Bool.false_eq_true, true_and]
    by_cases hz : sZipMagic.isPrefixOf (file.take 512) = true
    · simp only [hz, if_true]
      cases zip with
      | none => simp
      | some ms =>
        constructor
        · intro h
          have := detectZip_range ms
          rw [Option.some.inj h] at this
          simp at this
        · intro h; simp at h
    · have hz' : sZipMagic.isPrefixOf (file.take 512) = false := Bool.eq_false_iff.2 hz
      simp only [hz', if_false, Bool.false_eq_true, true_and]
      split <;> simp [*]

/-- the sniffer answers one of the five ZIP formats only for a file that starts with a
ZIP local header, and then exactly what `detectZIPFormat` says of its members -/
theorem detect_zip_format_only_archives (file : Str) (zip : Option (List Member)) (f : Format)
    (h : detectFromReader file zip = some f) (hf : f ≠ .pdf ∧ f ≠ .html ∧ f ≠ .unknown) :
    sZipMagic.isPrefixOf (file.take 512) = true ∧ ∃ ms, zip = some ms ∧ detectZip ms = f := by
  unfold detectFromReader at h
  dsimp only at h
  by_cases hp : sPdfMagic.isPrefixOf (file.take 512) = true
  · rw [if_pos hp] at h
    exact absurd (Option.some.inj h).symm hf.1
  · rw [if_neg hp] at h
    by_cases hz : sZipMagic.isPrefixOf (file.take 512) = true
    · rw [if_pos hz] at h
      cases zip with
      | none => cases h
      | some ms => exact ⟨hz, ms, rfl, Option.some.inj h⟩
    · rw [if_neg hz] at h
      by_cases hh : detectHTMLMagic (file.take 512) = true
      · rw [if_pos hh] at h
        exact absurd (Option.some.inj h).symm hf.2.1
      · rw [if_neg hh] at h
        exact absurd (Option.some.inj h).symm hf.2.2

example : detectFromReader (sZipMagic ++ [20, 0]) (some [⟨nWordDoc, none⟩]) = some .docx := by decide

/-- the sniffer fails (and every name is then refused) exactly on a file that starts with
a ZIP local header but is not a readable archive -/
theorem detect_error_iff (file : Str) (zip : Option (List Member)) :
    detectFromReader file zip = none ↔
      sPdfMagic.isPrefixOf (file.take 512) = false ∧ sZipMagic.isPrefixOf (file.take 512) = true ∧ zip = none := by
  unfold detectFromReader
  by_cases hp : sPdfMagic.isPrefixOf (file.take 512) = true
  · simp [hp]
  · have hp' : sPdfMagic.isPrefixOf (file.take 512) = false := Bool.eq_false_iff.2 hp
    simp only [hp', if_false, Bool.false_eq_true, true_and]
    by_cases hz : sZipMagic.isPrefixOf (file.take 512) = true
    · simp only [hz, if_true, true_and]
      cases zip <;> simp
    · have hz' : sZipMagic.isPrefixOf (file.take 512) = false := Bool.eq_false_iff.2 hz
      simp only [hz', Bool.false_eq_true, if_false, false_and, iff_false]
      split <;> simp

/-- `detectZIPFormat` never answers PDF or HTML -/
theorem zip_detect_range (ms : List Member) : detectZip ms ≠ .pdf ∧ detectZip ms ≠ .html := by
  rcases detectZip_range ms with h | h | h | h | h | h <;> rw [h] <;> exact ⟨by decide, by decide⟩

/-- an archive is an EPUB for the sniffer iff its deciding mimetype member says so, or no
mimetype member decides and it has a META-INF/container.xml -/
theorem zip_detect_epub_iff (ms : List Member) :
    detectZip ms = .epub ↔
      firstMime ms = some .epub ∨ (firstMime ms = none ∧ hasMember nContainer ms = true) := by
  unfold detectZip
  cases h : firstMime ms with
  | some f => simp
  | none =>
    cases hc : hasMember nContainer ms with
    | true => simp
    | false =>
      simp only [Bool.false_eq_true, if_false, and_false, or_false, reduceCtorEq, iff_false]
      intro h'
      repeat' split at h'
      all_goals cases h'

/-- every file that is white space, then `<html` in any letter case, then anything, is
HTML (root start tag without a DOCTYPE; the tag name must lie within the first 512 bytes) -/
theorem detect_html_root_tag (lead t rest : Str) (zip : Option (List Member))
    (hl : ∀ c ∈ lead, isMagicWS c = true) (ht : upper t = sHtmlTag) (hlen : lead.length + t.length ≤ 512) :
    detectFromReader (lead ++ (t ++ rest)) zip = some .html := by
  rw [detect_html_iff]
  have e : lead ++ (t ++ rest) = (lead ++ t) ++ rest := by simp
  have htk : (lead ++ (t ++ rest)).take 512 = lead ++ (t ++ rest.take (512 - (lead ++ t).length)) := by
    rw [e, take_append_short (lead ++ t) rest 512 (by simpa using hlen)]; simp
  rw [htk]
  cases t with
  | nil => simp [upper, sHtmlTag] at ht
  | cons c t' =>
    have hc : c = 60 := head_lt_of_upper ht
    have h := not_pdf_zip_prefix_lt lead (t' ++ rest.take (512 - (lead ++ c :: t').length)) hl
    subst hc
    exact ⟨h.1, h.2, detectHTMLMagic_tag lead (60 :: t') _ hl ht⟩

/-- satisfiable: `"\n "`, `"<HtMl"` -/
example : (∀ c ∈ [10, 32], isMagicWS c = true) ∧ upper [60, 72, 116, 77, 108] = sHtmlTag := by decide

/-- every file that is white space, an XML declaration `<?xml …`, anything, then `<html`
in any letter case (XHTML; the tag within 500 bytes of the declaration's `<` and within the
first 512 bytes of the file) is HTML -/
theorem detect_xhtml_declaration (lead x mid t rest : Str) (zip : Option (List Member))
    (hl : ∀ c ∈ lead, isMagicWS c = true) (hx : upper x = sXmlDecl) (ht : upper t = sHtmlTag)
    (h500 : x.length + mid.length + t.length ≤ 500)
    (h512 : lead.length + x.length + mid.length + t.length ≤ 512) :
    detectFromReader (lead ++ (x ++ (mid ++ (t ++ rest)))) zip = some .html := by
  rw [detect_html_iff]
  have e : lead ++ (x ++ (mid ++ (t ++ rest))) = (lead ++ (x ++ (mid ++ t))) ++ rest := by simp
  have htk : (lead ++ (x ++ (mid ++ (t ++ rest)))).take 512 =
      lead ++ (x ++ (mid ++ (t ++ rest.take (512 - (lead ++ (x ++ (mid ++ t))).length)))) := by
    rw [e, take_append_short _ rest 512 (by simp; omega)]; simp
  rw [htk]
  cases x with
  | nil => simp [upper, sXmlDecl] at hx
  | cons c x' =>
    have hc : c = 60 := head_lt_of_upper hx
    have h := not_pdf_zip_prefix_lt lead
      (x' ++ (mid ++ (t ++ rest.take (512 - (lead ++ (c :: x' ++ (mid ++ t))).length)))) hl
    subst hc
    exact ⟨h.1, h.2, detectHTMLMagic_xmldecl lead (60 :: x') mid t _ hl hx ht h500⟩

/-- satisfiable: `"<?xml"`, `" version=\"1.0\"?>\n"`, `"<html"` -/
example : upper [60, 63, 120, 109, 108] = sXmlDecl ∧ upper [60, 104, 116, 109, 108] = sHtmlTag ∧
    [60, 63, 120, 109, 108].length + [32, 118, 63, 62, 10].length + [60, 104, 116, 109, 108].length ≤ 500 := by
  decide

/-- the two public content entry points agree: on data that fits the sniffer's window
and is not a ZIP, `DetectFromMagic` and `DetectFromReader` give the same answer; for ZIP
data `DetectFromMagic` declines (Unknown) and leaves the decision to `DetectFromReader` -/
theorem detect_magic_agrees (data : Str) (zip : Option (List Member)) (hlen : data.length ≤ 512) :
    (sZipMagic.isPrefixOf data = false → detectFromReader data zip = some (detectFromMagic data)) ∧
    (sZipMagic.isPrefixOf data = true → detectFromMagic data = .unknown) := by
  have htk : data.take 512 = data := List.take_of_length_le hlen
  unfold detectFromReader detectFromMagic
  rw [htk]
  constructor
  · intro hz
    by_cases h4 : data.length < 4
    · have hp : sPdfMagic.isPrefixOf data = false := by
        cases h : sPdfMagic.isPrefixOf data with
        | false => rfl
        | true => have := isPrefixOf_length h; simp [sPdfMagic] at this; omega
      have hh : detectHTMLMagic data = false := by
        cases h : detectHTMLMagic data with
        | false => rfl
        | true =>
          exfalso
          unfold detectHTMLMagic at h
          have hd : (upper (data.dropWhile isMagicWS)).length < 4 := by
            rw [upper_length]
            have := (List.dropWhile_sublist (l := data) isMagicWS).length_le
            omega
          have no : ∀ p : Str, 5 ≤ p.length → p.isPrefixOf (upper (data.dropWhile isMagicWS)) = false := by
            intro p hp5
            cases hq : p.isPrefixOf (upper (data.dropWhile isMagicWS)) with
            | false => rfl
            | true => have := isPrefixOf_length hq; omega
          have h1 : isHTMLDoctype (upper (data.dropWhile isMagicWS)) = false := by
            unfold isHTMLDoctype; rw [no sDoctype (by decide)]; rfl
          simp only [h1, no sHtmlTag (by decide), no sXmlDecl (by decide), Bool.false_and,
            Bool.false_eq_true, if_false] at h
          split at h <;> cases h
      simp [h4, hp, hz, hh]
    · simp only [h4, if_false, hz, Bool.false_eq_true]
      by_cases hp : sPdfMagic.isPrefixOf data = true
      · simp [hp]
      · simp only [hp, if_false]
        by_cases hh : detectHTMLMagic data = true
        · simp [hh]
        · simp [hh]
  · intro hz
    have hp : sPdfMagic.isPrefixOf data = false := by
      cases data with
      | nil => rfl
      | cons c t =>
        cases h : sPdfMagic.isPrefixOf (c :: t) with
        | false => rfl
        | true =>
          simp [sPdfMagic, sZipMagic, List.isPrefixOf] at h hz
          omega
    simp [hp, hz]

example : sZipMagic.isPrefixOf [60, 104, 116, 109, 108, 62] = false := by decide


/-! ## one archive for the sniffer and the DRM gate -/

/-- the sniffer and the DRM gate read the SAME archive, and neither depends on the order
of its members (distinct member names, as in every well-formed archive) -/
theorem archive_order_independent (ms ms' : List AMember) (hp : ms.Perm ms')
    (hn : (ms.map (·.name)).Nodup) :
    archiveFormat ms = archiveFormat ms' ∧ archiveDRM ms = archiveDRM ms' := by
  refine ⟨?_, archiveDRM_perm hp⟩
  unfold archiveFormat
  exact zip_detect_perm_invariant_nodup _ _ (hp.map _) (by rw [toMember_names]; exact hn)

/-- an EPUB container with its rights file first or last -/
example : ([⟨nMimetype, some epubMime, none⟩, ⟨nRights, none, none⟩] : List AMember).Perm
    [⟨nRights, none, none⟩, ⟨nMimetype, some epubMime, none⟩] := List.Perm.swap _ _ _

/-- `drm_decision` on the archive itself: the gate refuses iff some member is NAMED
META-INF/rights.xml, or a member named META-INF/encryption.xml cannot be parsed, or one
of its entries puts a non-obfuscation algorithm on a content file -/
theorem archive_drm_decision (ms : List AMember) :
    archiveDRM ms = true ↔
      (∃ m ∈ ms, m.name = nRights) ∨ (∃ m ∈ ms, m.name = nEncryption ∧ m.enc = none) ∨
      (∃ m ∈ ms, m.name = nEncryption ∧ ∃ es, m.enc = some es ∧
        ∃ e ∈ es, isFontObfuscation e.algorithm = false ∧ isContentFile e.uri = true) := by
  rw [archiveDRM_eq_any, List.any_eq_true]
  constructor
  · rintro ⟨m, hm, hb⟩
    rcases (amemberBad_iff m).1 hb with h | h | h
    · exact Or.inl ⟨m, hm, h⟩
    · exact Or.inr (Or.inl ⟨m, hm, h⟩)
    · exact Or.inr (Or.inr ⟨m, hm, h⟩)
  · rintro (⟨m, hm, h⟩ | ⟨m, hm, h⟩ | ⟨m, hm, h⟩)
    · exact ⟨m, hm, (amemberBad_iff m).2 (Or.inl h)⟩
    · exact ⟨m, hm, (amemberBad_iff m).2 (Or.inr (Or.inl h))⟩
    · exact ⟨m, hm, (amemberBad_iff m).2 (Or.inr (Or.inr h))⟩

/-- members under any other name — near misses such as `META-INF/Rights.xml`,
`OEBPS/META-INF/rights.xml`, chapters, fonts — never change the gate's decision, wherever
they are placed -/
theorem archive_drm_other_members_inert (ms ds l : List AMember) (hp : (ms ++ ds).Perm l)
    (hd : ∀ d ∈ ds, d.name ≠ nRights ∧ d.name ≠ nEncryption) : archiveDRM l = archiveDRM ms := by
  rw [← archiveDRM_perm hp, archiveDRM_eq_any, archiveDRM_eq_any, List.any_append]
  have : ds.any amemberBad = false := by
    rw [List.any_eq_false]
    intro d hdm hb
    rcases (amemberBad_iff d).1 hb with h | h | h
    · exact (hd d hdm).1 h
    · exact (hd d hdm).2 h.1
    · exact (hd d hdm).2 h.1
  rw [this, Bool.or_false]

/-- `"META-INF/Rights.xml"`: the member names are compared exactly -/
example : classify ⟨[77, 69, 84, 65, 45, 73, 78, 70, 47, 82, 105, 103, 104, 116, 115, 46, 120, 109, 108], none, none⟩ = .other := by
  rfl

/-! ## the EPUB reader: the DRM gate comes first -/

/-- `epubdoc.(*Reader).init` reports DRM iff the gate does — whatever the state of the
container, the package document and the chapters (`rest`), which are read only afterwards -/
theorem epub_gate_first (ms : List AMember) (rest : Bool) :
    epubInit ms rest = .drm ↔ archiveDRM ms = true := by
  rw [epubInit_eq]
  cases archiveDRM ms <;> cases rest <;> simp

/-- past the gate, the outcome is that of the structure -/
theorem epub_open_spec (zip : Option (List AMember)) (rest : Bool) :
    (epubOpen zip rest = .ok ↔ ∃ ms, zip = some ms ∧ archiveDRM ms = false ∧ rest = true) ∧
    (epubOpen zip rest = .drm ↔ ∃ ms, zip = some ms ∧ archiveDRM ms = true) ∧
    (epubOpen zip rest = .invalidArchive ↔ zip = none) := by
  refine ⟨epubOpen_ok_iff zip rest, epubOpen_drm_iff zip rest, ?_⟩
  cases zip with
  | none => simp [epubOpen]
  | some ms =>
    rw [epubOpen_some, epubInit_eq]
    cases archiveDRM ms <;> cases rest <;> simp

/-- the mimetype check of the EPUB reader has no influence on the outcome: two archives
that differ only in what their members contain (not in names and encryption metadata) open
alike — a missing or wrong `mimetype` neither unlocks nor blocks anything -/
theorem epub_mimetype_check_irrelevant (ms ms' : List AMember) (rest : Bool)
    (h : ms.map (fun m => (m.name, m.enc)) = ms'.map (fun m => (m.name, m.enc))) :
    epubInit ms rest = epubInit ms' rest := by
  have hc : ∀ l : List AMember, l.map classify =
      (l.map (fun m => (m.name, m.enc))).map
        (fun p => if p.1 = nRights then DMember.rights else if p.1 = nEncryption then .encryption p.2 else .other) := by
    intro l; rw [List.map_map]; rfl
  rw [epubInit_eq, epubInit_eq]
  unfold archiveDRM
  rw [hc ms, hc ms', h]

example : validateMimetype [⟨nMimetype, some odtMime, none⟩] = .invalid ∧
    epubInit [⟨nMimetype, some odtMime, none⟩] true = .ok := by decide

/-- what the (ignored) mimetype check answers: `ok` iff the FIRST member named
`mimetype` could be read and holds, up to surrounding white space, the EPUB media type -/
theorem validate_mimetype_spec (ms : List AMember) :
    validateMimetype ms = .ok ↔
      ∃ pre m post, ms = pre ++ m :: post ∧ (∀ x ∈ pre, x.name ≠ nMimetype) ∧ m.name = nMimetype ∧
        ∃ d, m.data = some d ∧ trimSpace d = epubMime := by
  induction ms with
  | nil => simp [validateMimetype]
  | cons a rest ih =>
    unfold validateMimetype
    by_cases hn : a.name = nMimetype
    · rw [if_pos hn]
      constructor
      · intro h
        cases hd : a.data with
        | none => rw [hd] at h; cases h
        | some d =>
          rw [hd] at h
          by_cases ht : trimSpace d = epubMime
          · exact ⟨[], a, rest, rfl, by simp, hn, d, hd, ht⟩
          · simp [ht] at h
      · rintro ⟨pre, m, post, he, hpre, hm, d, hd, ht⟩
        cases pre with
        | nil =>
          simp only [List.nil_append, List.cons.injEq] at he
          rw [he.1, hd]; simp [ht]
        | cons x xs =>
          simp only [List.cons_append, List.cons.injEq] at he
          exact absurd (he.1 ▸ hn) (hpre x (by simp))
    · rw [if_neg hn, ih]
      constructor
      · rintro ⟨pre, m, post, he, hpre, hm, hd⟩
        refine ⟨a :: pre, m, post, by rw [he]; rfl, ?_, hm, hd⟩
        intro x hx
        rcases List.mem_cons.1 hx with rfl | hx
        · exact hn
        · exact hpre x hx
      · rintro ⟨pre, m, post, he, hpre, hm, hd⟩
        cases pre with
        | nil =>
          simp only [List.nil_append, List.cons.injEq] at he
          exact absurd (he.1 ▸ hm) hn
        | cons x xs =>
          simp only [List.cons_append, List.cons.injEq] at he
          exact ⟨xs, m, post, he.2, fun y hy => hpre y (by simp [hy]), hm, hd⟩


/-! ## "covering a content document": every spelling of the URI -/

/-- However a producer spells the CipherReference of a content document — the container
path `stem ++ ext` (ext = `.xhtml` / `.html` / `.htm` in any letter case) percent-encoded
under ANY escaping discipline `keep` (relative URI reference, component escaping, verbatim
member name, …), behind ANY prefix (`./`, `/`, dot segments), in ANY letter case — the DRM
gate recognises it as a content file. -/
theorem content_uri_spellings_covered (keep : Nat → Bool) (pre stem ext uri : Str)
    (hext : lower ext ∈ contentExts)
    (huri : lower uri = lower (pre ++ pctEsc keep (stem ++ ext))) :
    isContentFile uri = true := by
  rw [isContentFile_case huri, pctEsc_append,
    pctEsc_unreserved keep ext (unreserved_of_lower ext _ rfl (contentExts_unreserved _ hext)),
    ← List.append_assoc]
  exact isContentFile_of_ext _ ext hext

/-- `"OEBPS/Text #2/ch[1].XHTML"` spelled `"./oebps/text%20%232/ch%5b1%5d.xhtml"` -/
example : lower [46, 47, 111, 101, 98, 112, 115, 47, 116, 101, 120, 116, 37, 50, 48, 37, 50, 51, 50, 47, 99, 104, 37, 53, 98, 49, 37, 53, 100, 46, 120, 104, 116, 109, 108] =
    lower ([46, 47] ++ pctEsc isSubDelim ([79, 69, 66, 80, 83, 47, 84, 101, 120, 116, 32, 35, 50, 47, 99, 104, 91, 49, 93] ++ [46, 88, 72, 84, 77, 76])) := by
  decide

/-- the three spellings the harness writes are instances: URI reference, component
escaping, and the member name copied verbatim -/
theorem harness_spellings_covered (pre stem ext : Str) (hext : lower ext ∈ contentExts) :
    isContentFile (pre ++ hrefEsc (stem ++ ext)) = true ∧
    isContentFile (pre ++ hrefEscAll (stem ++ ext)) = true ∧
    isContentFile (pre ++ (stem ++ ext)) = true := by
  refine ⟨content_uri_spellings_covered isSubDelim pre stem ext _ hext rfl,
    content_uri_spellings_covered (fun _ => false) pre stem ext _ hext rfl, ?_⟩
  have := content_uri_spellings_covered (fun _ => true) pre stem ext _ hext rfl
  rwa [pctEsc_keep_all] at this

/-- An archive whose encryption metadata covers a content document — under any spelling
of its path — with an algorithm that is not font obfuscation is refused by the gate,
whatever else the archive and the metadata contain. -/
theorem drm_refuses_covered_content (ms : List AMember) (m : AMember) (es : List Entry) (e : Entry)
    (keep : Nat → Bool) (pre stem ext : Str)
    (hm : m ∈ ms) (hname : m.name = nEncryption) (henc : m.enc = some es) (he : e ∈ es)
    (halgo : isFontObfuscation e.algorithm = false)
    (hext : lower ext ∈ contentExts) (huri : lower e.uri = lower (pre ++ pctEsc keep (stem ++ ext))) :
    archiveDRM ms = true :=
  (archive_drm_decision ms).2 (Or.inr (Or.inr ⟨m, hm, hname, es, henc, e, he, halgo,
    content_uri_spellings_covered keep pre stem ext e.uri hext huri⟩))

example : isFontObfuscation aes256 = false ∧ lower sfxXhtml ∈ contentExts := by decide

/-! ## end to end: `tabula.Open(name).<operation>()` -/

/-- the bytes may be read under a name asking for format `f`: they are a regular file,
the sniffer classifies them as `f` or not at all, and if `f` is EPUB the DRM gate passes -/
def Admissible (f : Format) (fs : FileState) : Prop :=
  f ≠ .unknown ∧ ∃ head zip acc, fs = .file head zip acc ∧
    (detectFile head zip = some f ∨ detectFile head zip = some .unknown) ∧
    (f = .epub → ∃ ms, zip = some ms ∧ archiveDRM ms = false)

/-- `validateFormat` + the reader switch of `ensureReader` open a reader only for the
format the name asks for, only on admissible bytes -/
theorem admit_file_sound {extF f : Format} {fs : FileState} (h : admitFile extF fs = .ok f) :
    f = extF ∧ Admissible extF fs := by
  cases fs with
  | missing => simp [admitFile] at h
  | unreadable => simp [admitFile] at h
  | file head zip acc =>
    simp only [admitFile] at h
    cases hE : Detect.ensureReader extF (detectFile head zip) with
    | detectFailed => rw [hE] at h; cases h
    | mismatch => rw [hE] at h; cases h
    | unsupported => rw [hE] at h; cases h
    | proceed g =>
      rw [hE] at h
      obtain ⟨hg, hne, hdet⟩ := admission _ _ _ hE
      subst hg
      dsimp only at h
      by_cases hep : g = .epub
      · rw [if_pos hep] at h
        cases ho : epubOpen zip (acc .epub) with
        | ok =>
          rw [ho] at h
          obtain ⟨ms, hz, hd, _⟩ := (epubOpen_ok_iff _ _).1 ho
          have : g = f := by cases h; rfl
          exact ⟨this.symm, hne, head, zip, acc, rfl, hdet, fun _ => ⟨ms, hz, hd⟩⟩
        | invalidArchive => rw [ho] at h; cases h
        | drm => rw [ho] at h; cases h
        | «structure» => rw [ho] at h; cases h
      · rw [if_neg hep] at h
        by_cases ha : acc g = true
        · rw [if_pos ha] at h
          have : g = f := by cases h; rfl
          exact ⟨this.symm, hne, head, zip, acc, rfl, hdet, fun he => absurd he hep⟩
        · rw [if_neg ha] at h; cases h

example : admitFile .pdf (.file sPdfMagic none (fun _ => true)) = .ok .pdf := by
  simp [admitFile, detectFile, detectFromReader, Detect.ensureReader, validateFormat, sPdfMagic, List.isPrefixOf]

/-- what is left of an operation once the reader is open: the PDF-only operations refuse
every other format -/
def afterOpen (f : Format) (k : TKind) : Outcome :=
  if (k = .pdfOnly ∨ k = .pdfProbe) ∧ f ≠ .pdf then .notPdf else .reached

/-- `Open(name).<op>()` is `validateFormat`, the reader switch, then the operation -/
theorem open_and_run_out (name : Str) (hne : name ≠ []) (fs : FileState) (k : TKind) :
    (openAndRun name fs k).out =
      match admitFile (detect name) fs with
      | .error o => o
      | .ok _ => afterOpen (detect name) k := by
  have hemp : name.isEmpty = false := by cases name with
    | nil => exact absurd rfl hne
    | cons _ _ => rfl
  have herr : (openExt name).err = false := rfl
  unfold openAndRun
  cases ha : admitFile (detect name) fs with
  | error o =>
    have her : (openExt name).ensureReader fs = .error o := by
      unfold Ext.ensureReader
      simp only [openExt, hemp, Bool.false_eq_true, if_false, ha]
    show ((openExt name).run fs k).2.out = o
    cases k with
    | text => exact frame_out_err _ _ herr her
    | document => exact frame_out_err _ _ herr her
    | markdown =>
      show (if (openExt name).format = .pdf ∨ (openExt name).format = .unknown then frame (openExt name) fs true true
        else frame (openExt name) fs false true).2.out = o
      split
      · exact frame_out_err _ _ herr her
      · exact frame_out_err _ _ herr her
    | pdfOnly => exact framePdf_out_err _ herr her
    | pageCount => exact frame_out_err _ _ herr her
    | pdfProbe => exact framePdf_out_err _ herr her
  | ok f =>
    have hf : f = detect name := (admit_file_sound ha).1
    subst hf
    have her : (openExt name).ensureReader fs = .ok { name := name, format := detect name, opened := true, owns := true, reader := some ⟨detect name, some fs⟩ } := by
      unfold Ext.ensureReader
      simp only [openExt, hemp, Bool.false_eq_true, if_false, ha]
    have hbody : (bodyOn { name := name, format := detect name, opened := true, owns := true, reader := some ⟨detect name, some fs⟩ }).out = .reached := rfl
    show ((openExt name).run fs k).2.out = afterOpen (detect name) k
    cases k with
    | text => rw [show (openExt name).run fs .text = frame (openExt name) fs true true from rfl,
        frame_out_ok _ _ herr her, hbody]; rfl
    | document => rw [show (openExt name).run fs .document = frame (openExt name) fs true true from rfl,
        frame_out_ok _ _ herr her, hbody]; rfl
    | pageCount => rw [show (openExt name).run fs .pageCount = frame (openExt name) fs true false from rfl,
        frame_out_ok _ _ herr her, hbody]; rfl
    | markdown =>
      show (if (openExt name).format = .pdf ∨ (openExt name).format = .unknown then frame (openExt name) fs true true
        else frame (openExt name) fs false true).2.out = _
      split
      · rw [frame_out_ok _ _ herr her, hbody]; rfl
      · rw [frame_out_ok _ _ herr her, hbody]; rfl
    | pdfOnly =>
      rw [show (openExt name).run fs .pdfOnly = framePdf (openExt name) fs true from rfl,
        framePdf_out_ok _ herr her]
      unfold afterOpen Ext.pdfReaderNil
      by_cases hp : detect name = .pdf
      · simp [hp, bodyOn]
      · simp [hp]
    | pdfProbe =>
      rw [show (openExt name).run fs .pdfProbe = framePdf (openExt name) fs false from rfl,
        framePdf_out_ok _ herr her]
      unfold afterOpen Ext.pdfReaderNil
      by_cases hp : detect name = .pdf
      · simp [hp, bodyOn]
      · simp [hp]


/-- SOUNDNESS, every name × every file × every operation of the public API: if
`tabula.Open(name).<op>()` gets as far as running on a reader, then the name asks for a
supported format, the bytes are a regular file that the sniffer classified as exactly
that format (or could not classify), an EPUB passed the DRM gate, and a PDF-only
operation ran on a PDF. -/
theorem open_reaches_only_admissible (name : Str) (fs : FileState) (k : TKind)
    (h : (openAndRun name fs k).out = .reached) :
    name ≠ [] ∧ Admissible (detect name) fs ∧ ((k = .pdfOnly ∨ k = .pdfProbe) → detect name = .pdf) := by
  have hne : name ≠ [] := by
    intro h0
    subst h0
    have hd : detect [] = .unknown := by decide
    cases k <;>
      simp [openAndRun, openExt, Ext.run, frame, framePdf, Ext.ensureReader, hd] at h
  refine ⟨hne, ?_⟩
  rw [open_and_run_out name hne] at h
  cases ha : admitFile (detect name) fs with
  | error o =>
    rw [ha] at h
    dsimp only at h
    subst h
    exfalso
    have hemp : name.isEmpty = false := by cases name with
      | nil => exact absurd rfl hne
      | cons _ _ => rfl
    have her : (openExt name).ensureReader fs = .error .reached := by
      unfold Ext.ensureReader
      simp only [openExt, hemp, Bool.false_eq_true, if_false, ha]
    exact (ensureReader_error_out her).1 rfl
  | ok f =>
    rw [ha] at h
    dsimp only at h
    refine ⟨(admit_file_sound ha).2, ?_⟩
    intro hk
    apply Classical.byContradiction
    intro hp
    unfold afterOpen at h
    rw [if_pos ⟨hk, hp⟩] at h
    cases h

/-- a name that asks for no supported format never reads anything -/
theorem open_no_extension_never_reads (name : Str) (fs : FileState) (k : TKind)
    (h : detect name = .unknown) : (openAndRun name fs k).out ≠ .reached := by
  intro hr
  exact (open_reaches_only_admissible name fs k hr).2.1.1 h

example : detect [114, 101, 97, 100, 109, 101] = .unknown := by decide

/-- the reader stage: the EPUB reader with its gate, any other reader as the file system
and the format's parser decide (`acc`) -/
def readerStage (d : Format) (zip : Option (List AMember)) (acc : Format → Bool) (k : TKind) : Outcome :=
  if d = .epub then
    match epubOpen zip (acc .epub) with
    | .ok => afterOpen d k
    | .drm => .drm
    | _ => .readerFailed
  else if acc d then afterOpen d k
  else .readerFailed

theorem extPairs_ne_nil : ∀ p ∈ extPairs, p.1 ≠ [] := by decide

theorem extPairs_known : ∀ p ∈ extPairs, p.2 ≠ .unknown := by decide

/-- THE PROPERTY'S FIRST SENTENCE, end to end.  Whatever the bytes are detected as
(`d`, one of the seven formats), `Open(stem ++ e).<any operation>()` — any stem, any of
the eight extensions in any letter case — goes on to `d`'s reader iff the extension is one
of `d`'s, and is refused as a mismatch, before any reader sees the bytes, under every other
extension. -/
theorem open_by_name (p : Str × Format) (hp : p ∈ extPairs) (stem e : Str) (he : lower e = p.1)
    (head : Str) (zip : Option (List AMember)) (acc : Format → Bool) (d : Format) (hd : d ≠ .unknown)
    (hdet : detectFile head zip = some d) (k : TKind) :
    (openAndRun (stem ++ e) (.file head zip acc) k).out =
      if p.2 = d then readerStage d zip acc k else .mismatch := by
  have hne : stem ++ e ≠ [] := by
    intro h0
    have : e = [] := (List.append_eq_nil_iff.1 h0).2
    rw [this] at he
    exact extPairs_ne_nil p hp he.symm
  rw [open_and_run_out _ hne, ext_table p hp stem e he]
  simp only [admitFile, hdet]
  by_cases h : p.2 = d
  · rw [if_pos h, h, admission_own_format d hd]
    unfold readerStage
    by_cases hep : d = .epub
    · simp only [hep, if_true]
      cases epubOpen zip (acc .epub) <;> rfl
    · simp only [hep, if_false]
      cases acc d <;> rfl
  · rw [if_neg h, admission_mismatch_refused p.2 d hd h]

example : (dotXlsx, Format.xlsx) ∈ extPairs ∧ lower [46, 88, 76, 115, 120] = dotXlsx := by decide

/-- content the sniffer cannot classify is admitted by extension alone (the documented
fallback): the reader the NAME asks for decides -/
theorem open_unclassifiable_by_extension (p : Str × Format) (hp : p ∈ extPairs) (stem e : Str)
    (he : lower e = p.1) (head : Str) (zip : Option (List AMember)) (acc : Format → Bool)
    (hdet : detectFile head zip = some .unknown) (k : TKind) :
    (openAndRun (stem ++ e) (.file head zip acc) k).out = readerStage p.2 zip acc k := by
  have hne : stem ++ e ≠ [] := by
    intro h0
    have : e = [] := (List.append_eq_nil_iff.1 h0).2
    rw [this] at he
    exact extPairs_ne_nil p hp he.symm
  have hp2 : p.2 ≠ .unknown := extPairs_known p hp
  rw [open_and_run_out _ hne, ext_table p hp stem e he]
  simp only [admitFile, hdet, admission_undetectable p.2 hp2]
  unfold readerStage
  by_cases hep : p.2 = .epub
  · simp only [hep, if_true]
    cases epubOpen zip (acc .epub) <;> rfl
  · simp only [hep, if_false]
    cases acc p.2 <;> rfl

/-- every PDF (a file starting `%PDF`) under every name -/
theorem open_pdf_by_name (p : Str × Format) (hp : p ∈ extPairs) (stem e : Str) (he : lower e = p.1)
    (rest : Str) (zip : Option (List AMember)) (acc : Format → Bool) (k : TKind) :
    (openAndRun (stem ++ e) (.file (sPdfMagic ++ rest) zip acc) k).out =
      if p.2 = .pdf then (if acc .pdf then .reached else .readerFailed) else .mismatch := by
  rw [open_by_name p hp stem e he _ zip acc .pdf (by decide) (detect_pdf_magic rest _) k]
  by_cases h : p.2 = .pdf
  · simp only [h, if_true, readerStage, afterOpen]
    cases acc .pdf <;> simp
  · simp only [h, if_false]

/-- every ZIP-based document (a file starting with a local header whose members the
sniffer classifies as `d`: see `zip_detect_marker` and the permutation / decoy theorems
for when that is) under every name -/
theorem open_zip_by_name (p : Str × Format) (hp : p ∈ extPairs) (stem e : Str) (he : lower e = p.1)
    (rest : Str) (ms : List AMember) (acc : Format → Bool) (d : Format) (hd : d ≠ .unknown)
    (hfmt : archiveFormat ms = d) (k : TKind) :
    (openAndRun (stem ++ e) (.file (sZipMagic ++ rest) (some ms) acc) k).out =
      if p.2 = d then readerStage d (some ms) acc k else .mismatch := by
  apply open_by_name p hp stem e he _ _ acc d hd _ k
  unfold detectFile
  rw [Option.map_some, detect_zip_magic]
  exact congrArg some hfmt

/-- every HTML document that opens with a DOCTYPE (any white space, any letter case) -/
theorem open_html_by_name (p : Str × Format) (hp : p ∈ extPairs) (stem e : Str) (he : lower e = p.1)
    (lead dt ws n rest : Str) (zip : Option (List AMember)) (acc : Format → Bool) (k : TKind)
    (hl : ∀ c ∈ lead, isMagicWS c = true) (hdt : upper dt = sDoctype)
    (hwne : ws ≠ []) (hws : ∀ c ∈ ws, isMagicWS c = true) (hn : upper n = sHtmlName)
    (hlen : lead.length + dt.length + ws.length + n.length ≤ 512) :
    (openAndRun (stem ++ e) (.file (lead ++ (dt ++ (ws ++ (n ++ rest)))) zip acc) k).out =
      if p.2 = .html then readerStage .html zip acc k else .mismatch :=
  open_by_name p hp stem e he _ zip acc .html (by decide)
    (detect_html_doctype_any_space lead dt ws n rest _ hl hdt hwne hws hn hlen) k

/-- THE PROPERTY'S SECOND SENTENCE, end to end.  An EPUB (an archive the sniffer
classifies as EPUB) opened through `tabula.Open(stem ++ e)`, any operation: under an EPUB
name the outcome is `ErrDRMProtected` exactly when the gate refuses, otherwise that of the
EPUB reader's structure parsing; under every other extension it is a mismatch and the
archive is not even looked at by the EPUB reader. -/
theorem open_epub_by_name (p : Str × Format) (hp : p ∈ extPairs) (stem e : Str) (he : lower e = p.1)
    (rest : Str) (ms : List AMember) (acc : Format → Bool) (hfmt : archiveFormat ms = .epub) (k : TKind) :
    (openAndRun (stem ++ e) (.file (sZipMagic ++ rest) (some ms) acc) k).out =
      if p.2 = .epub then
        (if archiveDRM ms then .drm else if acc .epub then afterOpen .epub k else .readerFailed)
      else .mismatch := by
  rw [open_zip_by_name p hp stem e he rest ms acc .epub (by decide) hfmt k]
  by_cases h : p.2 = .epub
  · simp only [h, if_true, readerStage, epubOpen_some, epubInit_eq]
    cases archiveDRM ms <;> cases acc .epub <;> rfl
  · simp only [h, if_false]

/-- … so an EPUB under an EPUB name is refused as DRM-protected iff it carries a rights
file, unparsable encryption metadata, or an entry covering a content file with anything
other than font obfuscation -/
theorem open_epub_drm_iff (stem e : Str) (he : lower e = dotEpub) (rest : Str) (ms : List AMember)
    (acc : Format → Bool) (hfmt : archiveFormat ms = .epub) (k : TKind) :
    (openAndRun (stem ++ e) (.file (sZipMagic ++ rest) (some ms) acc) k).out = .drm ↔
      (∃ m ∈ ms, m.name = nRights) ∨ (∃ m ∈ ms, m.name = nEncryption ∧ m.enc = none) ∨
      (∃ m ∈ ms, m.name = nEncryption ∧ ∃ es, m.enc = some es ∧
        ∃ x ∈ es, isFontObfuscation x.algorithm = false ∧ isContentFile x.uri = true) := by
  rw [open_epub_by_name (dotEpub, .epub) (by decide) stem e he rest ms acc hfmt k, ← archive_drm_decision]
  simp only [if_true]
  cases hd : archiveDRM ms with
  | true => simp
  | false =>
    simp only [Bool.false_eq_true, if_false, iff_false]
    cases acc .epub
    · simp
    · simp only [if_true, afterOpen]; split <;> simp

/-- … and a font-obfuscation-only EPUB opens normally: no rights file, parsable metadata,
every entry (whatever it covers) an obfuscation algorithm ⇒ `Text()`, `Document()`,
`ToMarkdown()`, `PageCount()` reach the EPUB reader's content -/
theorem open_epub_obfuscation_only_opens (stem e : Str) (he : lower e = dotEpub) (rest : Str)
    (ms : List AMember) (acc : Format → Bool) (hfmt : archiveFormat ms = .epub) (hacc : acc .epub = true)
    (hr : ∀ m ∈ ms, m.name ≠ nRights)
    (hpar : ∀ m ∈ ms, m.name = nEncryption → ∃ es, m.enc = some es ∧ ∀ x ∈ es, isFontObfuscation x.algorithm = true)
    (k : TKind) (hk : k ≠ .pdfOnly ∧ k ≠ .pdfProbe) :
    (openAndRun (stem ++ e) (.file (sZipMagic ++ rest) (some ms) acc) k).out = .reached := by
  rw [open_epub_by_name (dotEpub, .epub) (by decide) stem e he rest ms acc hfmt k]
  have hd : archiveDRM ms = false := by
    cases h : archiveDRM ms with
    | false => rfl
    | true =>
      exfalso
      rcases (archive_drm_decision ms).1 h with ⟨m, hm, hn⟩ | ⟨m, hm, hn, henc⟩ | ⟨m, hm, hn, es, henc, x, hx, ho, _⟩
      · exact hr m hm hn
      · obtain ⟨es, hes, _⟩ := hpar m hm hn
        rw [henc] at hes; cases hes
      · obtain ⟨es', hes, hall⟩ := hpar m hm hn
        rw [henc] at hes; cases hes
        rw [hall x hx] at ho; cases ho
  simp only [hd, hacc, if_true, Bool.false_eq_true, if_false, afterOpen]
  rw [if_neg]
  rintro ⟨h1 | h1, _⟩
  · exact hk.1 h1
  · exact hk.2 h1

/-- satisfiable: mimetype, container and an encryption.xml that obfuscates a font -/
example : archiveFormat [⟨nMimetype, some epubMime, none⟩, ⟨nContainer, none, none⟩,
      ⟨nEncryption, none, some [⟨algoIdpf, uFont⟩]⟩] = .epub ∧
    archiveDRM [⟨nMimetype, some epubMime, none⟩, ⟨nContainer, none, none⟩,
      ⟨nEncryption, none, some [⟨algoIdpf, uFont⟩]⟩] = false := by decide


/-! ## call histories on the public API

A history is any list of calls — `Open(name)`, `FromReader`, `FromHTMLString`, configuration methods,
the terminal and non-terminal operations, `Close` — on extractors numbered by creation,
interleaved with changes of the bytes stored under the names (`rewrite`).  -/

/-- the empty store, with any bytes under the names -/
def start (c0 : FileState) : St := { cur := c0 }

theorem start_good (c0 : FileState) : GoodSt (start c0) := by
  intro e he; cases he

/-- INVARIANT of every history: each extractor's `readerOpened` flag says exactly whether
it holds a reader; an extractor with a file name has the format its name asks for, owns
the reader it holds, and that reader was opened on bytes that passed the cross-check (and
the EPUB gate) when it was opened. -/
theorem history_invariant (c0 : FileState) (cs : List Call) :
    ∀ e ∈ (runCalls (start c0) cs).1.exts,
      e.opened = e.reader.isSome ∧
      (e.name ≠ [] → e.format = detect e.name ∧ (e.opened = true → e.owns = true) ∧
        ∀ r, e.reader = some r → r.fmt = e.format ∧ ∃ fs, r.src = some fs ∧ Admissible e.format fs) := by
  intro e he
  have hw := runCalls_good (start_good c0) cs e he
  refine ⟨hw.opened_reader, fun hn => ⟨hw.named_format hn, hw.named_owns hn, fun r hr => ?_⟩⟩
  obtain ⟨fs, hsrc, hadm⟩ := hw.checked hn r hr
  exact ⟨(admit_file_sound hadm).1, fs, hsrc, (admit_file_sound hadm).2⟩

/-- no history dereferences a nil reader -/
theorem history_no_nil_reader (c0 : FileState) (cs : List Call) (k i : Nat) (kind : TKind) (r : Res)
    (hc : cs[k]? = some (.op i kind)) (hr : (runCalls (start c0) cs).2[k]? = some (.res r)) :
    r.out ≠ .nilReader := by
  obtain ⟨s', e0, hg, hget, _, hres, _⟩ := runCalls_result_inv GoodSt (fun _ => True)
    (fun s c h _ => step_good h c) (start_good c0) cs (fun _ _ => trivial) k i kind r hc hr
  rw [hres]
  exact (run_spec (hg e0 (List.mem_of_getElem? hget)) s'.cur kind).not_nil

/-- THE PROPERTY OVER CALL SEQUENCES.  In every history, whatever was called before and
however the bytes changed meanwhile: if an operation on an extractor with a file name runs
on a reader, that reader is of the format the NAME asks for, and it was opened on bytes
that — at the moment it was opened — the sniffer classified as exactly that format (or
could not classify) and, for an EPUB, that passed the DRM gate.  No sequence of calls
reads a mismatching or DRM-protected file. -/
theorem history_reads_only_admissible (c0 : FileState) (cs : List Call) (k i : Nat) (kind : TKind)
    (r : Res) (hc : cs[k]? = some (.op i kind)) (hr : (runCalls (start c0) cs).2[k]? = some (.res r))
    (hreached : r.out = .reached) (e : Ext) (he : (runCalls (start c0) cs).1.exts[i]? = some e)
    (hn : e.name ≠ []) :
    ∃ ri fs, r.on = some ri ∧ ri.fmt = detect e.name ∧ ri.src = some fs ∧ Admissible (detect e.name) fs := by
  obtain ⟨s', e0, hg, hget, _, hres, hfin⟩ := runCalls_result_inv GoodSt (fun _ => True)
    (fun s c h _ => step_good h c) (start_good c0) cs (fun _ _ => trivial) k i kind r hc hr
  have hw := hg e0 (List.mem_of_getElem? hget)
  obtain ⟨hname, _⟩ := hfin e he
  have hn0 : e0.name ≠ [] := by rw [← hname]; exact hn
  have hspec := run_spec hw s'.cur kind
  rw [← hres] at hspec
  obtain ⟨ri, hon, hchk, _⟩ := hspec.reached hreached
  obtain ⟨fs, hsrc, hadm⟩ := hchk hn0
  have hfmt : e0.format = detect e.name := by rw [hname]; exact hw.named_format hn0
  rw [hfmt] at hadm
  exact ⟨ri, fs, hon, (admit_file_sound hadm).1, hsrc, (admit_file_sound hadm).2⟩

/-- … in particular no history reads a DRM-protected EPUB under an EPUB name -/
theorem history_drm_never_read (c0 : FileState) (cs : List Call) (k i : Nat) (kind : TKind)
    (r : Res) (hc : cs[k]? = some (.op i kind)) (hr : (runCalls (start c0) cs).2[k]? = some (.res r))
    (hreached : r.out = .reached) (e : Ext) (he : (runCalls (start c0) cs).1.exts[i]? = some e)
    (hn : e.name ≠ []) (hepub : detect e.name = .epub) :
    ∃ ri head ms acc, r.on = some ri ∧ ri.src = some (.file head (some ms) acc) ∧ archiveDRM ms = false := by
  obtain ⟨ri, fs, hon, _, hsrc, _, head, zip, acc, hfs, _, hgate⟩ :=
    history_reads_only_admissible c0 cs k i kind r hc hr hreached e he hn
  obtain ⟨ms, hz, hd⟩ := hgate hepub
  subst hz hfs
  exact ⟨ri, head, ms, acc, hon, hsrc, hd⟩

/-- a history: open under an EPUB name, count chapters, swap the bytes, read the text -/
example : ([Call.open ([97] ++ dotEpub), .op 0 .pageCount, .rewrite .missing, .op 0 .text] : List Call)[3]? =
    some (.op 0 .text) := rfl

/-- the reader a named extractor holds is of the format its name asks for -/
theorem named_reader_fmt {e : Ext} (h : e.WF) (hn : e.name ≠ []) {r : RInfo} (hr : e.reader = some r) :
    r.fmt = e.format := by
  obtain ⟨fs, _, hadm⟩ := h.checked hn r hr
  exact (admit_file_sound hadm).1

/-- `ensurePDFReader`'s test `e.format != PDF || e.reader == nil` fires on a named
extractor with an open reader only because of the format: a named PDF extractor that is
open holds the PDF reader -/
theorem named_refused_not_pdf {e1 : Ext} (hw : e1.WF) (ho : e1.opened = true) (hn : e1.name ≠ [])
    (hc : (e1.format != .pdf || e1.pdfReaderNil) = true) : e1.format ≠ .pdf := by
  intro hf
  obtain ⟨ri, hri, _⟩ := bodyOn_of_opened hw ho
  have hfmt := named_reader_fmt hw hn hri
  rw [hf] at hc hfmt
  simp [Ext.pdfReaderNil, hri, hfmt] at hc

/-- NEW with tabula's fix "a PDF-only operation on a file of another format no longer
leaves that file open" (`ensurePDFReader` defers `Close` when the format is not PDF and
there is a file name).  One PDF-only call (`Fragments`, `Lines`, …, `IsCharacterLevel`,
`IsMultiColumn`) that is refused with "operation is only supported for PDF documents":
* on an extractor with a file name, the name asks for another format than PDF, and the
  extractor is left WITHOUT a reader — `readerOpened = false`, every reader field nil,
  `ownsReader = false` — whether `ensureReader` opened the file in this call or an earlier
  `PageCount` had left it open;
* an extractor without a file name (`FromHTMLString` / `FromHTMLReader`) is left exactly
  as it was: its reader could not be re-opened.
Before the fix the model (and the code) kept the reader open in the first case. -/
theorem pdf_refusal_releases_reader {e : Ext} (h : e.WF) (cur : FileState) (b : Bool)
    (hout : (framePdf e cur b).2.out = .notPdf) :
    (e.name ≠ [] → e.format ≠ .pdf ∧ (framePdf e cur b).1.opened = false ∧
      (framePdf e cur b).1.reader = none ∧ (framePdf e cur b).1.owns = false) ∧
    (e.name = [] → (framePdf e cur b).1 = e) := by
  unfold framePdf at hout ⊢
  by_cases herr : e.err = true
  · rw [if_pos herr] at hout; cases hout
  · rw [if_neg herr] at hout ⊢
    cases he : e.ensureReader cur with
    | error o =>
      rw [he] at hout
      exact absurd hout (ensureReader_error_out he).2.2
    | ok e1 =>
      rw [he] at hout
      dsimp only at hout ⊢
      obtain ⟨hw, ho, hn1, hf1, _, hsame, hnew⟩ := ensureReader_wf h he
      by_cases hc : (e1.format != .pdf || e1.pdfReaderNil) = true
      · rw [if_pos hc]
        constructor
        · intro hn
          have hnp : e.format ≠ .pdf := by
            rw [← hf1]; exact named_refused_not_pdf hw ho (by rw [hn1]; exact hn) hc
          rw [pdfEarly_of_named hn hnp, if_pos rfl]
          exact ⟨hnp, close_named_released hw (by rw [hn1]; exact hn)⟩
        · intro hn
          rw [pdfEarly_of_unnamed hn]
          cases hop : e.opened with
          | true => exact hsame hop
          | false => exact absurd hn (hnew hop).1
      · rw [if_neg hc] at hout
        obtain ⟨ri, _, hb⟩ := bodyOn_of_opened hw ho
        rw [hb] at hout; cases hout

/-- … for every kind of operation: a refusal "only supported for PDF documents" comes from
a PDF-only operation, and leaves a named extractor without a reader, an unnamed one as it was -/
theorem run_refused_releases_reader {e : Ext} (h : e.WF) (cur : FileState) (k : TKind)
    (hout : (e.run cur k).2.out = .notPdf) :
    (k = .pdfOnly ∨ k = .pdfProbe) ∧
    (e.name ≠ [] → e.format ≠ .pdf ∧ (e.run cur k).1.opened = false ∧
      (e.run cur k).1.reader = none ∧ (e.run cur k).1.owns = false) ∧
    (e.name = [] → (e.run cur k).1 = e) := by
  cases k with
  | text => exact absurd hout (frame_never_notPdf h cur true true)
  | document => exact absurd hout (frame_never_notPdf h cur true true)
  | pageCount => exact absurd hout (frame_never_notPdf h cur true false)
  | markdown =>
    exfalso
    change (if e.format = .pdf ∨ e.format = .unknown then frame e cur true true
      else frame e cur false true).2.out = .notPdf at hout
    split at hout
    · exact frame_never_notPdf h cur true true hout
    · exact frame_never_notPdf h cur false true hout
  | pdfOnly => exact ⟨Or.inl rfl, pdf_refusal_releases_reader h cur true hout⟩
  | pdfProbe => exact ⟨Or.inr rfl, pdf_refusal_releases_reader h cur false hout⟩

/-- THE NEW FACT OVER CALL SEQUENCES.  After ANY history `cs` on the public API — opens,
configuration chains, `PageCount`s that leave files open, `Close`s, rewrites of the bytes —
an operation that is then refused with "operation is only supported for PDF documents"
was a PDF-only one, and right after it:
* if the extractor has a file name, that name asks for another format than PDF and the
  extractor holds NO reader (`opened = false`, `reader = none`, `owns = false`): no
  descriptor of the non-PDF file stays behind, whatever was called before;
* if it has no file name, it is the value it was before the call (reader kept).
(Replaces the pre-fix behaviour, where the refused operation left the other format's
reader open; `history_invariant` below is unchanged and still holds.) -/
theorem history_refused_pdf_op_releases_reader (c0 : FileState) (cs : List Call) (i : Nat)
    (kind : TKind) (r : Res)
    (hr : (runCalls (start c0) (cs ++ [.op i kind])).2[cs.length]? = some (.res r))
    (hout : r.out = .notPdf) :
    (kind = .pdfOnly ∨ kind = .pdfProbe) ∧
    ∃ e0 e, (runCalls (start c0) cs).1.exts[i]? = some e0 ∧
      (runCalls (start c0) (cs ++ [.op i kind])).1.exts[i]? = some e ∧
      (e.name ≠ [] → detect e.name ≠ .pdf ∧ e.opened = false ∧ e.reader = none ∧ e.owns = false) ∧
      (e.name = [] → e = e0) := by
  have hg := runCalls_good (start_good c0) cs
  rw [runCalls_append] at hr ⊢
  have hlen := runCalls_length (start c0) cs
  generalize runCalls (start c0) cs = p at hr hg hlen ⊢
  obtain ⟨s1, rs⟩ := p
  dsimp only at hr hg hlen ⊢
  have h1 : runCalls s1 [.op i kind] = ((step s1 (.op i kind)).1, [(step s1 (.op i kind)).2]) := rfl
  rw [h1] at hr ⊢
  dsimp only at hr ⊢
  rw [← hlen, List.getElem?_append_right (Nat.le_refl _), Nat.sub_self] at hr
  simp only [List.getElem?_cons_zero, Option.some.injEq] at hr
  cases hi : s1.exts[i]? with
  | none => rw [step_op_none hi] at hr; cases hr
  | some e0 =>
    rw [step_op_some hi] at hr ⊢
    simp only [CallRes.res.injEq] at hr
    subst hr
    have hw := hg e0 (List.mem_of_getElem? hi)
    obtain ⟨hk, hnamed, hunnamed⟩ := run_refused_releases_reader hw s1.cur kind hout
    have hlt : i < s1.exts.length := by
      apply Classical.byContradiction; intro hn
      rw [List.getElem?_eq_none (by omega)] at hi; cases hi
    refine ⟨hk, e0, (e0.run s1.cur kind).1, rfl, by simp [List.getElem?_set_self hlt], ?_, ?_⟩
    · intro hn
      have hn0 : e0.name ≠ [] := by rw [← (run_name e0 s1.cur kind).1]; exact hn
      obtain ⟨hf, hrest⟩ := hnamed hn0
      refine ⟨?_, hrest⟩
      rw [(run_name e0 s1.cur kind).1, ← hw.named_format hn0]
      exact hf
    · intro hn
      exact hunnamed (by rw [← (run_name e0 s1.cur kind).1]; exact hn)

/-- not vacuous: `Open("a.html")` on an HTML file, `PageCount` (leaves the file open), then
`Fragments` — refused, and the extractor is closed; before the fix it stayed open -/
example :
    let fs : FileState := .file [60, 104, 116, 109, 108] none (fun _ => true)
    let cs : List Call := [.rewrite fs, .open ([97] ++ dotHtml), .op 0 .pageCount]
    ((runCalls (start .missing) cs).1.exts[0]?.map (·.opened)) = some true ∧
    ((runCalls (start .missing) (cs ++ [.op 0 .pdfOnly])).1.exts[0]?.map (·.opened)) = some false := by
  decide

/-- a `PDF-only` operation (not `IsCharacterLevel` / `IsMultiColumn`) leaves a named
extractor without a reader on every way out that changes it: it closes after its body on a
PDF, and `ensurePDFReader` closes when it refuses another format -/
theorem pdfOnly_leaves_unopened {e : Ext} (h : e.WF) (hn : e.name ≠ []) (cur : FileState) :
    (framePdf e cur true).1.opened = false ∨ (framePdf e cur true).1 = e := by
  unfold framePdf
  split
  · exact Or.inr rfl
  · cases he : e.ensureReader cur with
    | error o =>
      right
      dsimp only
      rw [close_of_unopened h (ensureReader_err_nochange he)]; split <;> rfl
    | ok e1 =>
      obtain ⟨hw, ho, hn1, hf1, _⟩ := ensureReader_wf h he
      have hn1' : e1.name ≠ [] := by rw [hn1]; exact hn
      left
      dsimp only
      split
      · rename_i hc
        have hnp : e.format ≠ .pdf := by rw [← hf1]; exact named_refused_not_pdf hw ho hn1' hc
        rw [pdfEarly_of_named hn hnp, if_pos rfl]
        exact close_named_unopened hw hn1'
      · exact close_named_unopened hw hn1'

/-- the calls after which a named extractor holds no reader: everything except
`PageCount` and `IsCharacterLevel` / `IsMultiColumn` (which keep a PDF open).  RESTATED
after tabula's fix of `ensurePDFReader`: the PDF-only operations (`Fragments`, `Lines`, …)
used to be excluded here because they left the reader of a non-PDF document open when they
refused it; they now close it, so they are closing calls too and the theorem below covers
strictly more histories. -/
def ClosingOnly (cs : List Call) : Prop :=
  ∀ c ∈ cs, ∀ i k, c = .op i k → k = .text ∨ k = .document ∨ k = .markdown ∨ k = .pdfOnly

/-- Every terminal operation re-validates: in a history whose operations are `Text`,
`Document`/`Chunks`, `ToMarkdown` and — since the fix of `ensurePDFReader` — the PDF-only
operations `Fragments`, `Lines`, … (any configuration calls, `Close`s and rewrites of the
bytes in between), each operation on an extractor with a file name that reaches a reader
does so on the bytes stored under the name AT THAT CALL — checked then, not earlier. -/
theorem history_terminal_ops_check_current_bytes (c0 : FileState) (cs : List Call) (hcl : ClosingOnly cs)
    (k i : Nat) (kind : TKind) (r : Res)
    (hc : cs[k]? = some (.op i kind)) (hr : (runCalls (start c0) cs).2[k]? = some (.res r))
    (hreached : r.out = .reached) (e : Ext) (he : (runCalls (start c0) cs).1.exts[i]? = some e)
    (hn : e.name ≠ []) :
    ∃ ri, r.on = some ri ∧ ri.src = some (curBefore c0 cs k) ∧ Admissible (detect e.name) (curBefore c0 cs k) := by
  let I : St → Prop := fun s => GoodSt s ∧ ∀ x ∈ s.exts, x.name ≠ [] → x.opened = false
  let Q : Call → Prop := fun c => ∀ i k, c = .op i k → k = .text ∨ k = .document ∨ k = .markdown ∨ k = .pdfOnly
  have hstep : ∀ s c, I s → Q c → I (step s c).1 := by
    intro s c ⟨hg, hu⟩ hq
    refine ⟨step_good hg c, ?_⟩
    intro x hx hxn
    rcases step_exts_cases s c x hx with hx | ⟨name, _, rfl⟩ | ⟨hnil, _⟩ | ⟨j, bad, e0, _, hj, rfl⟩ |
        ⟨j, k', e0, hcj, hj, rfl⟩ | ⟨j, e0, _, hj, rfl⟩
    · exact hu x hx hxn
    · rfl
    · exact absurd hnil hxn
    · have hm := List.mem_of_getElem? hj
      exact derive_unopened (hu e0 hm (by rw [← (derive_name e0 bad).1]; exact hxn)) bad
    · have hm := List.mem_of_getElem? hj
      have hn0 : e0.name ≠ [] := by rw [← (run_name e0 s.cur k').1]; exact hxn
      have hcases : ∀ a, (frame e0 s.cur a true).1.opened = false := by
        intro a
        rcases closing_leaves_unopened (hg e0 hm) hn0 s.cur a with h | h
        · exact h
        · rw [h]; exact hu e0 hm hn0
      rcases hq j k' hcj with rfl | rfl | rfl | rfl
      · exact hcases true
      · exact hcases true
      · show (if e0.format = .pdf ∨ e0.format = .unknown then frame e0 s.cur true true
          else frame e0 s.cur false true).1.opened = false
        split
        · exact hcases true
        · exact hcases false
      · show (framePdf e0 s.cur true).1.opened = false
        rcases pdfOnly_leaves_unopened (hg e0 hm) hn0 s.cur with h | h
        · exact h
        · rw [h]; exact hu e0 hm hn0
    · have hm := List.mem_of_getElem? hj
      exact close_unopened (hu e0 hm (by rw [← (close_name e0).1]; exact hxn))
  obtain ⟨s', e0, ⟨hg, hu⟩, hget, hcur, hres, hfin⟩ := runCalls_result_inv I Q hstep
    ⟨start_good c0, fun x hx => by cases hx⟩ cs hcl k i kind r hc hr
  have hm := List.mem_of_getElem? hget
  have hw := hg e0 hm
  obtain ⟨hname, _⟩ := hfin e he
  have hn0 : e0.name ≠ [] := by rw [← hname]; exact hn
  have hspec := run_spec hw s'.cur kind
  rw [← hres] at hspec
  obtain ⟨ri, hon, hchk, hcurb⟩ := hspec.reached hreached
  have hsrc := hcurb (hu e0 hm hn0)
  obtain ⟨fs, hsrc', hadm⟩ := hchk hn0
  rw [hsrc] at hsrc'
  cases hsrc'
  have hfmt : e0.format = detect e.name := by rw [hname]; exact hw.named_format hn0
  rw [hfmt] at hadm
  have hcur' : s'.cur = curBefore c0 cs k := hcur
  rw [hcur'] at hsrc hadm
  exact ⟨ri, hon, hsrc, (admit_file_sound hadm).2⟩

example : ClosingOnly [.open [97], .op 0 .text, .rewrite .missing, .derive 0 false, .op 1 .markdown, .op 0 .pdfOnly] := by
  intro c hc i k h
  simp only [List.mem_cons, List.not_mem_nil, or_false] at hc
  rcases hc with rfl | rfl | rfl | rfl | rfl | rfl <;> cases h <;> simp

/-- no call is a change of the bytes -/
def NoRewrite (cs : List Call) : Prop := ∀ c ∈ cs, ∀ fs, c ≠ .rewrite fs

/-- NO SEQUENCE OF CALLS GETS AROUND THE CROSS-CHECK.  While the bytes are what they are
(detected as `d`, one of the seven formats), every operation in every history on every
extractor whose file name asks for anything else — created by `Open`, derived by any chain
of configuration methods, closed and reused, probed with `PageCount` first — is refused:
`file format mismatch` (or the extractor's own configuration error), never a reader. -/
theorem history_mismatch_always_refused (head : Str) (zip : Option (List AMember)) (acc : Format → Bool)
    (d : Format) (hd : d ≠ .unknown) (hdet : detectFile head zip = some d)
    (cs : List Call) (hnr : NoRewrite cs) (k i : Nat) (kind : TKind) (r : Res)
    (hc : cs[k]? = some (.op i kind))
    (hr : (runCalls (start (.file head zip acc)) cs).2[k]? = some (.res r))
    (e : Ext) (he : (runCalls (start (.file head zip acc)) cs).1.exts[i]? = some e)
    (hn : e.name ≠ []) (hmis : detect e.name ≠ d) :
    r.out = .mismatch ∨ r.out = .errSet := by
  let I : St → Prop := fun s => GoodSt s ∧ s.cur = .file head zip acc ∧
    ∀ x ∈ s.exts, x.name ≠ [] → x.format ≠ d → x.opened = false
  let Q : Call → Prop := fun c => ∀ fs, c ≠ .rewrite fs
  have hstep : ∀ s c, I s → Q c → I (step s c).1 := by
    intro s c ⟨hg, hcur, hu⟩ hq
    refine ⟨step_good hg c, ?_, ?_⟩
    · rw [step_cur]
      cases c with
      | rewrite fs => exact absurd rfl (hq fs)
      | «open» _ => exact hcur
      | fromHTML _ => exact hcur
      | fromReader => exact hcur
      | derive j b => simp [step]; exact hcur
      | op j b => simp [step]; exact hcur
      | close j => simp [step]; exact hcur
    · intro x hx hxn hxf
      rcases step_exts_cases s c x hx with hx | ⟨name, _, rfl⟩ | ⟨hnil, _⟩ | ⟨j, bad, e0, _, hj, rfl⟩ |
          ⟨j, k', e0, _, hj, rfl⟩ | ⟨j, e0, _, hj, rfl⟩
      · exact hu x hx hxn hxf
      · rfl
      · exact absurd hnil hxn
      · have hm := List.mem_of_getElem? hj
        exact derive_unopened (hu e0 hm (by rw [← (derive_name e0 bad).1]; exact hxn)
          (by rw [← (derive_name e0 bad).2]; exact hxf)) bad
      · have hm := List.mem_of_getElem? hj
        have hn0 : e0.name ≠ [] := by rw [← (run_name e0 s.cur k').1]; exact hxn
        have hf0 : e0.format ≠ d := by rw [← (run_name e0 s.cur k').2]; exact hxf
        have ho0 := hu e0 hm hn0 hf0
        rw [hcur, (run_mismatch (hg e0 hm) hn0 ho0 hdet (admission_mismatch_refused e0.format d hd hf0) k').1]
        exact ho0
      · have hm := List.mem_of_getElem? hj
        exact close_unopened (hu e0 hm (by rw [← (close_name e0).1]; exact hxn)
          (by rw [← (close_name e0).2]; exact hxf))
  obtain ⟨s', e0, ⟨hg, hcur, hu⟩, hget, _, hres, hfin⟩ := runCalls_result_inv I Q hstep
    ⟨start_good _, rfl, fun x hx => by cases hx⟩ cs hnr k i kind r hc hr
  have hm := List.mem_of_getElem? hget
  obtain ⟨hname, hformat⟩ := hfin e he
  have hn0 : e0.name ≠ [] := by rw [← hname]; exact hn
  have hf0 : e0.format ≠ d := by
    rw [(hg e0 hm).named_format hn0, ← hname]; exact hmis
  rw [hres, hcur]
  exact (run_mismatch (hg e0 hm) hn0 (hu e0 hm hn0 hf0) hdet (admission_mismatch_refused e0.format d hd hf0) kind).2

/-- satisfiable: PDF bytes, and a history that tries `Close`, a derived extractor and
`PageCount` first on a `.docx` name -/
example : detectFile sPdfMagic none = some .pdf ∧
    NoRewrite [.open ([97] ++ dotDocx), .op 0 .pageCount, .close 0, .derive 0 false, .op 1 .text] := by
  refine ⟨by decide, ?_⟩
  intro c hc fs h
  simp only [List.mem_cons, List.not_mem_nil, or_false] at hc
  rcases hc with rfl | rfl | rfl | rfl | rfl <;> cases h


/-! ## the statement of the property, in its own words -/

/-- A valid document of each of the seven formats, as far as recognition is concerned
(members of an archive in ANY order, with any further members):
* PDF: the file starts `%PDF`;
* HTML: white space, then a DOCTYPE html declaration, or the `<html` root tag, or an XML
  declaration followed by the root tag (any letter case, within the sniffer's window);
* ODT / EPUB: a ZIP whose (only) `mimetype` member holds the format's media type — for
  EPUB alternatively no `mimetype` member but a `META-INF/container.xml`;
* DOCX / XLSX / PPTX: a ZIP without `mimetype` and container that holds the format's main
  part (and not the main part of a format tested earlier). -/
inductive ValidDoc : Format → Str → Option (List AMember) → Prop
  | pdf (rest : Str) (zip : Option (List AMember)) : ValidDoc .pdf (sPdfMagic ++ rest) zip
  | htmlDoctype (lead dt ws n rest : Str) (zip : Option (List AMember))
      (hl : ∀ c ∈ lead, isMagicWS c = true) (hdt : upper dt = sDoctype) (hwne : ws ≠ [])
      (hws : ∀ c ∈ ws, isMagicWS c = true) (hn : upper n = sHtmlName)
      (hlen : lead.length + dt.length + ws.length + n.length ≤ 512) :
      ValidDoc .html (lead ++ (dt ++ (ws ++ (n ++ rest)))) zip
  | htmlRoot (lead t rest : Str) (zip : Option (List AMember))
      (hl : ∀ c ∈ lead, isMagicWS c = true) (ht : upper t = sHtmlTag) (hlen : lead.length + t.length ≤ 512) :
      ValidDoc .html (lead ++ (t ++ rest)) zip
  | xhtml (lead x mid t rest : Str) (zip : Option (List AMember))
      (hl : ∀ c ∈ lead, isMagicWS c = true) (hx : upper x = sXmlDecl) (ht : upper t = sHtmlTag)
      (h500 : x.length + mid.length + t.length ≤ 500)
      (h512 : lead.length + x.length + mid.length + t.length ≤ 512) :
      ValidDoc .html (lead ++ (x ++ (mid ++ (t ++ rest)))) zip
  | odt (rest : Str) (ms : List AMember) (m : AMember) (d : Str) (hn : (ms.map (·.name)).Nodup)
      (hm : m ∈ ms) (hname : m.name = nMimetype) (hdata : m.data = some d)
      (hmime : hasSub odtMime (trimSpace (d.take 256)) = true) :
      ValidDoc .odt (sZipMagic ++ rest) (some ms)
  | epubMime (rest : Str) (ms : List AMember) (m : AMember) (d : Str) (hn : (ms.map (·.name)).Nodup)
      (hm : m ∈ ms) (hname : m.name = nMimetype) (hdata : m.data = some d)
      (hnodt : hasSub odtMime (trimSpace (d.take 256)) = false)
      (hmime : trimSpace (d.take 256) = epubMime) :
      ValidDoc .epub (sZipMagic ++ rest) (some ms)
  | epubContainer (rest : Str) (ms : List AMember) (hno : NoMember nMimetype ms)
      (m : AMember) (hm : m ∈ ms) (hname : m.name = nContainer) :
      ValidDoc .epub (sZipMagic ++ rest) (some ms)
  | docx (rest : Str) (ms : List AMember) (h1 : NoMember nMimetype ms) (h2 : NoMember nContainer ms)
      (m : AMember) (hm : m ∈ ms) (hname : m.name = nWordDoc) :
      ValidDoc .docx (sZipMagic ++ rest) (some ms)
  | xlsx (rest : Str) (ms : List AMember) (h1 : NoMember nMimetype ms) (h2 : NoMember nContainer ms)
      (h3 : NoMember nWordDoc ms) (m : AMember) (hm : m ∈ ms) (hname : m.name = nXlWorkbook) :
      ValidDoc .xlsx (sZipMagic ++ rest) (some ms)
  | pptx (rest : Str) (ms : List AMember) (h1 : NoMember nMimetype ms) (h2 : NoMember nContainer ms)
      (h3 : NoMember nWordDoc ms) (h4 : NoMember nXlWorkbook ms)
      (m : AMember) (hm : m ∈ ms) (hname : m.name = nPptPres) :
      ValidDoc .pptx (sZipMagic ++ rest) (some ms)

/-- every valid document of the seven formats is recognised as its own format -/
theorem valid_document_recognised {f : Format} {head : Str} {zip : Option (List AMember)}
    (h : ValidDoc f head zip) : detectFile head zip = some f := by
  cases h with
  | pdf rest zip => exact detect_pdf_magic rest _
  | htmlDoctype lead dt ws n rest zip hl hdt hwne hws hn hlen =>
    exact detect_html_doctype_any_space lead dt ws n rest _ hl hdt hwne hws hn hlen
  | htmlRoot lead t rest zip hl ht hlen => exact detect_html_root_tag lead t rest _ hl ht hlen
  | xhtml lead x mid t rest zip hl hx ht h500 h512 =>
    exact detect_xhtml_declaration lead x mid t rest _ hl hx ht h500 h512
  | odt rest ms m d hn hm hname hdata hmime =>
    unfold detectFile
    rw [Option.map_some, detect_zip_magic]
    have ha : MimeAgree (ms.map AMember.toMember) :=
      mimeAgree_of_nodup _ (by rw [toMember_names]; exact hn)
    have hv : mimeVerdict m.toMember = some .odt := by
      rw [mime_verdict_spec]
      exact ⟨hname, d, hdata, Or.inl ⟨hmime, rfl⟩⟩
    exact congrArg some ((zip_detect_marker _).1 m.toMember (List.mem_map.2 ⟨m, hm, rfl⟩) .odt ha hv)
  | epubMime rest ms m d hn hm hname hdata hnodt hmime =>
    unfold detectFile
    rw [Option.map_some, detect_zip_magic]
    have ha : MimeAgree (ms.map AMember.toMember) :=
      mimeAgree_of_nodup _ (by rw [toMember_names]; exact hn)
    have hv : mimeVerdict m.toMember = some .epub := by
      rw [mime_verdict_spec]
      exact ⟨hname, d, hdata, Or.inr ⟨hnodt, hmime, rfl⟩⟩
    exact congrArg some ((zip_detect_marker _).1 m.toMember (List.mem_map.2 ⟨m, hm, rfl⟩) .epub ha hv)
  | epubContainer rest ms hno m hm hname =>
    unfold detectFile
    rw [Option.map_some, detect_zip_magic]
    apply congrArg some
    rw [zip_detect_epub_iff]
    exact Or.inr ⟨firstMime_none_of_noMember hno, hasMember_toMember_true hm hname⟩
  | docx rest ms h1 h2 m hm hname =>
    unfold detectFile
    rw [Option.map_some, detect_zip_magic]
    apply congrArg some
    unfold detectZip
    simp [firstMime_none_of_noMember h1, hasMember_toMember_false h2, hasMember_toMember_true hm hname]
  | xlsx rest ms h1 h2 h3 m hm hname =>
    unfold detectFile
    rw [Option.map_some, detect_zip_magic]
    apply congrArg some
    unfold detectZip
    simp [firstMime_none_of_noMember h1, hasMember_toMember_false h2, hasMember_toMember_false h3,
      hasMember_toMember_true hm hname]
  | pptx rest ms h1 h2 h3 h4 m hm hname =>
    unfold detectFile
    rw [Option.map_some, detect_zip_magic]
    apply congrArg some
    unfold detectZip
    simp [firstMime_none_of_noMember h1, hasMember_toMember_false h2, hasMember_toMember_false h3,
      hasMember_toMember_false h4, hasMember_toMember_true hm hname]

/-- an XLSX whose members come in an unusual order, with a stray `word/` part in front -/
example : ValidDoc .xlsx (sZipMagic ++ [20]) (some [⟨nStray, none, none⟩, ⟨nSheet, none, none⟩, ⟨nXlWorkbook, none, none⟩]) :=
  .xlsx [20] _ (by intro m hm; revert m; decide) (by intro m hm; revert m; decide)
    (by intro m hm; revert m; decide) ⟨nXlWorkbook, none, none⟩ (by simp) rfl

/-- THE PROPERTY, first sentence, as stated: every valid PDF, DOCX, ODT, XLSX, PPTX, EPUB
and HTML document — whatever the order of its archive members and whatever further members
it carries — under every naming `stem ++ e` (`e` one of the eight extensions in any letter
case) and for every operation of the public API: under its own extension it goes on to its
own reader (`readerStage`: for an EPUB the DRM gate, then the reader), and under every
other supported extension it is refused with a mismatch error before any reader sees it. -/
theorem c20_end_to_end {f : Format} {head : Str} {zip : Option (List AMember)}
    (hv : ValidDoc f head zip)
    (p : Str × Format) (hp : p ∈ extPairs) (stem e : Str) (he : lower e = p.1)
    (acc : Format → Bool) (k : TKind) :
    (openAndRun (stem ++ e) (.file head zip acc) k).out =
      if p.2 = f then readerStage f zip acc k else .mismatch := by
  have hf : f ≠ .unknown := by cases hv <;> decide
  exact open_by_name p hp stem e he head zip acc f hf (valid_document_recognised hv) k


/-! ## `Format.Extension` and the exact reach of the gate's content test -/

/-- the typical extension of each format is in the table, for that format -/
theorem extension_in_table (f : Format) (hf : f ≠ .unknown) : (extensionOf f, f) ∈ extPairs := by
  cases f <;> first | exact absurd rfl hf | decide

/-- `Detect(stem + f.Extension()) = f` for every stem and each of the seven formats -/
theorem extension_roundtrip (f : Format) (hf : f ≠ .unknown) (stem : Str) :
    detect (stem ++ extensionOf f) = f :=
  ext_table (extensionOf f, f) (extension_in_table f hf) stem (extensionOf f)
    (by cases f <;> first | exact absurd rfl hf | decide)

/-- the five suffixes the gate treats as content: (X)HTML, and `.xml`, `.css` -/
def gateSuffixes : List Str := [sfxXhtml, sfxHtml, sfxHtm, sfxXml, sfxCss]

/-- EXACTLY what "covers a content file" means to the gate: the URI, as written, ends —
in any letter case — in `.xhtml`, `.html`, `.htm`, `.xml` or `.css`.  Nothing else about
the URI (prefix, escapes, what the manifest says of the resource) is looked at. -/
theorem content_file_iff (uri : Str) :
    isContentFile uri = true ↔ ∃ pre sfx, uri = pre ++ sfx ∧ lower sfx ∈ gateSuffixes := by
  have key : ∀ x : Str, hasSuffix (lower uri) x = true ↔ ∃ pre sfx, uri = pre ++ sfx ∧ lower sfx = x := by
    intro x
    rw [hasSuffix_iff]
    constructor
    · rintro ⟨pre, h⟩
      refine ⟨uri.take pre.length, uri.drop pre.length, (List.take_append_drop _ _).symm, ?_⟩
      rw [lower_drop, h]; simp
    · rintro ⟨pre, sfx, rfl, rfl⟩
      exact ⟨lower pre, lower_append pre sfx⟩
  unfold isContentFile
  simp only [gateSuffixes, List.mem_cons, List.not_mem_nil, or_false]
  constructor
  · intro h
    by_cases h1 : hasSuffix (lower uri) sfxXhtml = true
    · obtain ⟨pre, sfx, e, hs⟩ := (key _).1 h1; exact ⟨pre, sfx, e, Or.inl hs⟩
    by_cases h2 : hasSuffix (lower uri) sfxHtml = true
    · obtain ⟨pre, sfx, e, hs⟩ := (key _).1 h2; exact ⟨pre, sfx, e, Or.inr (Or.inl hs)⟩
    by_cases h3 : hasSuffix (lower uri) sfxHtm = true
    · obtain ⟨pre, sfx, e, hs⟩ := (key _).1 h3; exact ⟨pre, sfx, e, Or.inr (Or.inr (Or.inl hs))⟩
    by_cases h4 : hasSuffix (lower uri) sfxXml = true
    · obtain ⟨pre, sfx, e, hs⟩ := (key _).1 h4; exact ⟨pre, sfx, e, Or.inr (Or.inr (Or.inr (Or.inl hs)))⟩
    by_cases h5 : hasSuffix (lower uri) sfxCss = true
    · obtain ⟨pre, sfx, e, hs⟩ := (key _).1 h5; exact ⟨pre, sfx, e, Or.inr (Or.inr (Or.inr (Or.inr hs)))⟩
    simp [h1, h2, h3, h4, h5] at h
  · rintro ⟨pre, sfx, e, hs⟩
    rcases hs with hs | hs | hs | hs | hs
    · have := (key _).2 ⟨pre, sfx, e, hs⟩; simp [this]
    · have := (key _).2 ⟨pre, sfx, e, hs⟩; simp [this]
    · have := (key _).2 ⟨pre, sfx, e, hs⟩; simp [this]
    · have := (key _).2 ⟨pre, sfx, e, hs⟩; simp [this]
    · have := (key _).2 ⟨pre, sfx, e, hs⟩; simp [this]

/-- the limits of that test (outside what the check demands, DESIGN Appendix C): a content
document stored under an unconventional extension (`OEBPS/ch1.xht`), or referenced with a
fragment (`OEBPS/ch1.xhtml#x`), is not seen as content, so a cipher on it does not refuse -/
example : isContentFile [79, 69, 66, 80, 83, 47, 99, 104, 49, 46, 120, 104, 116] = false ∧
    isContentFile (uCh1 ++ [35, 120]) = false ∧
    checkForDRM [.encryption (some [⟨aes256, uCh1 ++ [35, 120]⟩])] = false := by decide


/-! ## every naming of the same bytes -/

/-- the outcome depends on the name only through the format its extension asks for: two
names asking for the same format (e.g. `a.htm` / `dir/b.HTML`) fare alike on the same
bytes, for every operation -/
theorem open_same_format_same_outcome (a b : Str) (ha : a ≠ []) (hb : b ≠ []) (h : detect a = detect b)
    (fs : FileState) (k : TKind) : (openAndRun a fs k).out = (openAndRun b fs k).out := by
  rw [open_and_run_out a ha, open_and_run_out b hb, h]

/-- … in particular names that differ only in letter case -/
theorem open_case_insensitive (a b : Str) (h : lower a = lower b) (fs : FileState) (k : TKind) :
    (openAndRun a fs k).out = (openAndRun b fs k).out := by
  by_cases ha : a = []
  · subst ha
    have hb : b = [] := by
      cases b with
      | nil => rfl
      | cons c t => simp [lower] at h
    rw [hb]
  · have hb : b ≠ [] := by
      intro hb; subst hb
      cases a with
      | nil => exact ha rfl
      | cons c t => simp [lower] at h
    exact open_same_format_same_outcome a b ha hb (ext_table_case_insensitive a b h) fs k

example : lower [97, 46, 69, 80, 85, 66] = lower [65, 46, 101, 112, 117, 98] := by decide

/-- an extractor without a file name (`FromReader`, `FromHTMLString`, `FromHTMLReader` and
everything derived from them) never looks at the file system: its operations give the
same outcome and leave the same extractor whatever bytes are stored anywhere -/
theorem unnamed_never_reads_files (e : Ext) (hn : e.name = []) (cur cur' : FileState) (k : TKind) :
    e.run cur k = e.run cur' k := by
  have her : e.ensureReader cur = e.ensureReader cur' := by
    unfold Ext.ensureReader
    split
    · rfl
    · simp [hn]
  have hf : ∀ a b, frame e cur a b = frame e cur' a b := by
    intro a b; unfold frame; rw [her]
  have hp : ∀ b, framePdf e cur b = framePdf e cur' b := by
    intro b; unfold framePdf; rw [her]
  cases k with
  | text => exact hf true true
  | document => exact hf true true
  | markdown =>
    show (if e.format = .pdf ∨ e.format = .unknown then frame e cur true true else frame e cur false true) =
      (if e.format = .pdf ∨ e.format = .unknown then frame e cur' true true else frame e cur' false true)
    rw [hf true true, hf false true]
  | pdfOnly => exact hp true
  | pageCount => exact hf true false
  | pdfProbe => exact hp false

example : fromReader.name = [] ∧ (fromHTML true).name = [] := ⟨rfl, rfl⟩

end Tabula.C20A
