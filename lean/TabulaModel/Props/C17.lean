import TabulaModel.Lemmas.A1
import TabulaModel.Lemmas.Sheet
/-!
# C17 — Spreadsheet cells land at their addressed grid position

Property theorems (helper lemmas live in `Lemmas/A1.lean`, `Lemmas/Sheet.lean`).
-/
namespace Tabula.C17
open Tabula.A1 Tabula.Sheet

/-- `ColumnToIndex (IndexToColumn n) = n` for every column index. -/
theorem col_bijection_index (n : Nat) : columnToIndex (indexToColumn (n : Int)) = (n : Int) := by
  unfold columnToIndex indexToColumn
  have h : ¬ ((n : Int) < 0) := by omega
  simp only [h, if_false, Int.toNat_natCast]
  rw [colAcc_toColAux]
  simp

/-- `IndexToColumn (ColumnToIndex s) = s` for every non-empty upper-case letter string. -/
theorem col_bijection_string (s : Str) (hs : IsUpperCol s) (hne : s ≠ []) :
    indexToColumn (columnToIndex s) = s := by
  obtain ⟨r, hr, hpos, hcol⟩ := colAcc_upper_some s hs 0
  have h1 := hpos hne
  unfold columnToIndex indexToColumn
  rw [hr]
  have h : ¬ (((r : Int) - 1) < 0) := by omega
  simp only [h, if_false]
  have e : ((r : Int) - 1).toNat + 1 = r := by omega
  rw [e, hcol]
  simp [toColAux]

/-- lower-case spellings denote the same column (the `strings.ToUpper` in the code) -/
theorem col_case_insensitive (s : Str) : columnToIndex (s.map upper) = columnToIndex s := by
  unfold columnToIndex
  have : ∀ a, colAcc (s.map upper) a = colAcc s a := by
    induction s with
    | nil => intro a; rfl
    | cons c cs ih =>
      intro a
      simp only [List.map_cons, colAcc]
      have hu : upper (upper c) = upper c := by
        unfold upper; split <;> rename_i h
        · have : ¬ (97 ≤ c - 32) := by simp at h; omega
          simp [this]
        · simp [h]
      rw [hu, ih]
  rw [this]

/-- `ParseCellRef (CellRef col row) = (col,row)` for every non-negative pair in int64 range. -/
theorem cellref_roundtrip (col row : Nat) (hrow : row + 1 ≤ maxInt64) :
    parseCellRef (cellRef (col : Int) (row : Int)) = .ok ((col : Int), (row : Int)) := by
  unfold cellRef indexToColumn decInt
  have h0 : ¬ ((col : Int) < 0) := by omega
  have h1 : ¬ (((row : Int) + 1) < 0) := by omega
  simp only [h0, h1, if_false, Int.toNat_natCast]
  have hnat : ((row : Int) + 1).natAbs = row + 1 := by omega
  rw [hnat]
  obtain ⟨d, ds, hd, hd1, hd2⟩ := dec_head (row + 1)
  have hl := toColAux_letters (col + 1)
  have hne := toColAux_ne_nil (col + 1) (by omega)
  have htw := takeWhile_letters_append (toColAux (col + 1) []) d ds hl ⟨hd1, hd2⟩
  unfold parseCellRef
  rw [hd, htw.1, htw.2, ← hd]
  have hci := col_bijection_index col
  unfold columnToIndex indexToColumn at hci
  simp only [h0, if_false, Int.toNat_natCast] at hci
  have e1 : (toColAux (col + 1) [] ++ dec (row + 1)).isEmpty = false := by
    cases h : toColAux (col + 1) [] with
    | nil => exact absurd h hne
    | cons a b => rfl
  have e2 : (toColAux (col + 1) []).isEmpty = false := by
    cases h : toColAux (col + 1) [] with
    | nil => exact absurd h hne
    | cons a b => rfl
  have e3 : (dec (row + 1)).isEmpty = false := by rw [hd]; rfl
  simp only [e1, e2, e3, Bool.false_eq_true, if_false]
  unfold columnToIndex
  rw [colAcc_toColAux]
  rw [atoi_dec (row + 1) hrow]
  have : ¬ (((col + 1 : Nat) : Int) - 1 < 0) := by omega
  simp only [this, if_false]
  have : ¬ (((row + 1 : Nat) : Int) < 1) := by omega
  simp only [this, if_false]
  congr 1
  simp only [Prod.mk.injEq]
  omega

/-- **placement**: after the second pass, position `(r,c)` of the grid holds exactly the
result of the writes whose row attribute and reference column name `(r,c)`, applied in
source order (so the last writer wins), and is untouched by every other cell. -/
theorem placement (shared : List Str) (rows : List RowXML) (g0 : Grid) (r c : Nat) :
    (rows.foldl (placeRow shared) g0).get r c =
      (g0.get r c).map fun cell =>
        ((writes g0.length rows).filter fun w => w.1 = r ∧ w.2.1 = c).foldl
          (fun cell w => cellContent shared w.2.2 cell) cell := by
  rw [placeRows_eq_writes, get_foldl_applyWrite]

/-- a position no cell addresses stays empty -/
theorem unaddressed_empty (shared : List Str) (rows : List RowXML) (g0 : Grid) (r c : Nat)
    (h : ∀ w ∈ writes g0.length rows, ¬ (w.1 = r ∧ w.2.1 = c)) :
    (rows.foldl (placeRow shared) g0).get r c = g0.get r c := by
  rw [placement]
  have : ((writes g0.length rows).filter fun w => w.1 = r ∧ w.2.1 = c) = [] := by
    rw [List.filter_eq_nil_iff]
    intro w hw
    simpa using h w hw
  rw [this]
  simp

/-- non-vacuity: a two-row sheet written out of order, B2 then A1 -/
example :
    let rows : List RowXML :=
      [⟨2, [⟨[66, 50], tStr, [120], [], none⟩]⟩, ⟨1, [⟨[65, 49], tStr, [121], [], none⟩]⟩]
    let g := parseWorksheet [] rows []
    (g.get 1 1).map (·.value) = some [120] ∧ (g.get 0 0).map (·.value) = some [121]
      ∧ (g.get 0 1).map (·.value) = some [] := by decide

end Tabula.C17
