import TabulaModel.Lemmas.A1
import TabulaModel.Lemmas.Sheet
/-!
# C17 — Spreadsheet cells land at their addressed grid position

Property theorems (helper lemmas live in `Lemmas/A1.lean`, `Lemmas/Sheet.lean`).
-/
namespace Tabula.C17
open Tabula.A1 Tabula.Sheet

/-- `ColumnToIndex (IndexToColumn n) = n` for every column index within the bound the code
enforces since the fix "ColumnToIndex rejects column letters that overflow": column numbers
(index + 1) up to `maxColumnNumber` = 2^40.  (Before the fix the statement had no bound — and
the Go `int` wrapped from fourteen letters on.) -/
theorem col_bijection_index (n : Nat) (hb : n + 1 ≤ maxColumnNumber) :
    columnToIndex (indexToColumn (n : Int)) = (n : Int) := by
  unfold columnToIndex indexToColumn
  have h : ¬ ((n : Int) < 0) := by omega
  simp only [h, if_false, Int.toNat_natCast]
  rw [colAcc_toColAux]
  simp [hb]

/-- beyond the bound the code answers the error value -1 for the letters of every index -/
theorem col_index_beyond_bound (n : Nat) (hb : maxColumnNumber < n + 1) :
    columnToIndex (indexToColumn (n : Int)) = -1 := by
  unfold columnToIndex indexToColumn
  have h : ¬ ((n : Int) < 0) := by omega
  simp only [h, if_false, Int.toNat_natCast]
  rw [colAcc_toColAux]
  have : ¬ n + 1 ≤ maxColumnNumber := by omega
  simp [this]

/-- non-vacuity, at the bound from both sides: index 2^40 - 1 (the last one converted) and 2^40 -/
example : (1099511627775 : Nat) + 1 ≤ maxColumnNumber ∧ maxColumnNumber < (1099511627776 : Nat) + 1 := by decide

/-- `ColumnToIndex` of a non-empty upper-case letter string is its bijective base-26 number
minus one if that number is at most `maxColumnNumber`, and the error value -1 beyond -/
theorem col_to_index_spec (s : Str) (hs : IsUpperCol s) :
    columnToIndex s = if colNumber s ≤ maxColumnNumber then (colNumber s : Int) - 1 else -1 := by
  unfold columnToIndex
  rw [(colAcc_upper s hs).1]
  by_cases h : colNumber s ≤ maxColumnNumber <;> simp [h]

/-- `IndexToColumn (ColumnToIndex s) = s` for every non-empty upper-case letter string whose
column number is within the bound (`colNumber s ≤ 2^40`; `colNumber_short`: every string of up
to eight letters).  Beyond the bound: `col_string_beyond_bound`. -/
theorem col_bijection_string (s : Str) (hs : IsUpperCol s) (hne : s ≠ [])
    (hb : colNumber s ≤ maxColumnNumber) :
    indexToColumn (columnToIndex s) = s := by
  obtain ⟨_, hpos, hcol⟩ := colAcc_upper s hs
  have h1 := hpos hne
  rw [col_to_index_spec s hs]
  simp only [hb, if_true]
  unfold indexToColumn
  have h : ¬ (((colNumber s : Nat) : Int) - 1 < 0) := by omega
  simp only [h, if_false]
  have e : ((colNumber s : Int) - 1).toNat + 1 = colNumber s := by omega
  rw [e, hcol]

/-- beyond the bound the code answers the error value -/
theorem col_string_beyond_bound (s : Str) (hs : IsUpperCol s) (hb : maxColumnNumber < colNumber s) :
    columnToIndex s = -1 := by
  rw [col_to_index_spec s hs]
  have : ¬ colNumber s ≤ maxColumnNumber := by omega
  simp [this]

/-- strings of up to eight letters are within the bound, so the bijection holds for them as
stated before the fix -/
theorem col_bijection_string_short (s : Str) (hs : IsUpperCol s) (hne : s ≠ []) (hlen : s.length ≤ 8) :
    indexToColumn (columnToIndex s) = s :=
  col_bijection_string s hs hne (colNumber_short s hs hlen)

/-- non-vacuity: "XFD" is within the bound; "CRPXNLSKVLJFHH" (fourteen letters) is beyond it -/
example : IsUpperCol [88, 70, 68] ∧ [88, 70, 68] ≠ [] ∧ colNumber [88, 70, 68] ≤ maxColumnNumber := by
  refine ⟨?_, by simp, by decide⟩
  intro c hc; simp at hc; omega
example : maxColumnNumber < colNumber [67, 82, 80, 88, 78, 76, 83, 75, 86, 76, 74, 70, 72, 72] := by decide

/-- lower-case spellings denote the same column (the `strings.ToUpper` in the code) -/
theorem col_case_insensitive (s : Str) : columnToIndex (s.map upper) = columnToIndex s := by
  unfold columnToIndex
  have : ∀ a, colAcc (s.map upper) a = colAcc s a := by
    induction s with
    | nil => intro a; rfl
    | cons c cs ih =>
      intro a
      simp only [List.map_cons, colAcc]
      have hu : upper (upper c) = upper c := by
        unfold upper; split <;> rename_i h
        · have : ¬ (97 ≤ c - 32) := by simp at h; omega
          simp [this]
        · simp [h]
      rw [hu, ih]
  rw [this]

/-- `ParseCellRef (CellRef col row)` for every non-negative pair with the row in int64 range:
the pair back if the column number is within `maxColumnNumber`, the "invalid column" error
beyond (the column letters are handed to `ColumnToIndex`) -/
theorem parse_cellref (col row : Nat) (hrow : row + 1 ≤ maxInt64) :
    parseCellRef (cellRef (col : Int) (row : Int)) =
      if col + 1 ≤ maxColumnNumber then .ok ((col : Int), (row : Int)) else .error .badCol := by
  unfold cellRef indexToColumn decInt
  have h0 : ¬ ((col : Int) < 0) := by omega
  have h1 : ¬ (((row : Int) + 1) < 0) := by omega
  simp only [h0, h1, if_false, Int.toNat_natCast]
  have hnat : ((row : Int) + 1).natAbs = row + 1 := by omega
  rw [hnat]
  obtain ⟨d, ds, hd, hd1, hd2⟩ := dec_head (row + 1)
  have hl := toColAux_letters (col + 1)
  have hne := toColAux_ne_nil (col + 1) (by omega)
  have htw := takeWhile_letters_append (toColAux (col + 1) []) d ds hl ⟨hd1, hd2⟩
  unfold parseCellRef
  rw [hd, htw.1, htw.2, ← hd]
  have e1 : (toColAux (col + 1) [] ++ dec (row + 1)).isEmpty = false := by
    cases h : toColAux (col + 1) [] with
    | nil => exact absurd h hne
    | cons a b => rfl
  have e2 : (toColAux (col + 1) []).isEmpty = false := by
    cases h : toColAux (col + 1) [] with
    | nil => exact absurd h hne
    | cons a b => rfl
  have e3 : (dec (row + 1)).isEmpty = false := by rw [hd]; rfl
  simp only [e1, e2, e3, Bool.false_eq_true, if_false]
  unfold columnToIndex
  rw [colAcc_toColAux]
  by_cases hb : col + 1 ≤ maxColumnNumber
  · simp only [hb, if_true]
    rw [atoi_dec (row + 1) hrow]
    have : ¬ (((col + 1 : Nat) : Int) - 1 < 0) := by omega
    simp only [this, if_false]
    have : ¬ (((row + 1 : Nat) : Int) < 1) := by omega
    simp only [this, if_false]
    congr 1
    simp only [Prod.mk.injEq]
    omega
  · simp [hb]

/-- `ParseCellRef (CellRef col row) = (col,row)` for every non-negative pair with the row in
int64 range and the column number within the bound `ColumnToIndex` now enforces (2^40; before
the fix the statement had no column bound). -/
theorem cellref_roundtrip (col row : Nat) (hcol : col + 1 ≤ maxColumnNumber) (hrow : row + 1 ≤ maxInt64) :
    parseCellRef (cellRef (col : Int) (row : Int)) = .ok ((col : Int), (row : Int)) := by
  rw [parse_cellref col row hrow]; simp [hcol]

/-- beyond the column bound the printed reference is an invalid reference -/
theorem cellref_beyond_bound (col row : Nat) (hcol : maxColumnNumber < col + 1) (hrow : row + 1 ≤ maxInt64) :
    parseCellRef (cellRef (col : Int) (row : Int)) = .error .badCol := by
  rw [parse_cellref col row hrow]
  have : ¬ col + 1 ≤ maxColumnNumber := by omega
  simp [this]

/-- non-vacuity: XFD1048576 (column 16383, row 1048575) is within both bounds -/
example : (16383 : Nat) + 1 ≤ maxColumnNumber ∧ (1048575 : Nat) + 1 ≤ maxInt64 := by decide

/-- **placement**: after the second pass, position `(r,c)` of the grid holds exactly the
result of the writes whose row attribute and reference column name `(r,c)`, applied in
source order (so the last writer wins), and is untouched by every other cell. -/
theorem placement (shared : List Str) (rows : List RowXML) (g0 : Grid) (r c : Nat) :
    (rows.foldl (placeRow shared) g0).get r c =
      (g0.get r c).map fun cell =>
        ((writes g0.length rows).filter fun w => w.1 = r ∧ w.2.1 = c).foldl
          (fun cell w => cellContent shared w.2.2 cell) cell := by
  rw [placeRows_eq_writes, get_foldl_applyWrite]

/-- a position no cell addresses stays empty -/
theorem unaddressed_empty (shared : List Str) (rows : List RowXML) (g0 : Grid) (r c : Nat)
    (h : ∀ w ∈ writes g0.length rows, ¬ (w.1 = r ∧ w.2.1 = c)) :
    (rows.foldl (placeRow shared) g0).get r c = g0.get r c := by
  rw [placement]
  have : ((writes g0.length rows).filter fun w => w.1 = r ∧ w.2.1 = c) = [] := by
    rw [List.filter_eq_nil_iff]
    intro w hw
    simpa using h w hw
  rw [this]
  simp

/-- **text_line_field**: in the tab-separated text of a sheet, line `r` / field `c` is exactly
the displayed text of grid cell `(r,c)` — for every grid whose cell texts contain no tab or
newline (the property's proviso). -/
theorem text_line_field (g : Grid) (hg : g ≠ []) (hrows : ∀ row ∈ g, row ≠ [])
    (hclean : ∀ row ∈ g, ∀ cell ∈ row, 9 ∉ cellText cell ∧ 10 ∉ cellText cell) (r c : Nat) :
    ((splitOn 10 (sheetText g))[r]?).bind (fun line => (splitOn 9 line)[c]?) =
      (g.get r c).map cellText := by
  unfold sheetText
  rw [splitOn_intercalate 10 _ (by simpa using hg)]
  · simp only [List.getElem?_map, Grid.get]
    cases hr : g[r]? with
    | none => simp
    | some row =>
      have hrow : row ∈ g := List.mem_of_getElem? hr
      simp only [Option.map_some, Option.bind_some]
      rw [splitOn_intercalate 9 _ (by simpa using hrows row hrow)]
      · simp [List.getElem?_map]
      · intro x hx
        obtain ⟨cell, hcell, rfl⟩ := List.mem_map.mp hx
        exact (hclean row hrow cell hcell).1
  · intro line hline
    obtain ⟨row, hrow, rfl⟩ := List.mem_map.mp hline
    apply not_mem_intercalate 9 10 _ (by decide)
    intro x hx
    obtain ⟨cell, hcell, rfl⟩ := List.mem_map.mp hx
    exact (hclean row hrow cell hcell).2

/-- effect of the merge pass on one position: the marks of exactly the region positions equal
to it, applied in the order of the double loop -/
theorem get_applyRegion (g : Grid) (m : Region) (r c : Nat) :
    (applyRegion g m).get r c = (g.get r c).map fun cell =>
      ((regionCells m).filter fun p => p.1 = r ∧ p.2 = c).foldl (fun cell rc => markCell m rc cell) cell := by
  unfold applyRegion
  generalize regionCells m = ps
  induction ps generalizing g with
  | nil => simp
  | cons p ps ih =>
    simp only [List.foldl_cons]
    rw [ih, Grid.get_modify]
    by_cases h : p.1 = r ∧ p.2 = c
    · obtain ⟨h1, h2⟩ := h
      subst h1; subst h2
      simp [List.filter_cons]
      rfl
    · simp only [h, if_false]
      rw [List.filter_cons]
      simp [h]

theorem mem_regionCells (m : Region) (r c : Nat) :
    (r, c) ∈ regionCells m ↔ (m.sr ≤ r ∧ r ≤ m.er) ∧ (m.sc ≤ c ∧ c ≤ m.ec) := by
  unfold regionCells
  simp only [List.mem_flatMap, List.mem_range, List.mem_map, Prod.mk.injEq]
  constructor
  · rintro ⟨dr, hdr, dc, hdc, h1, h2⟩
    omega
  · rintro ⟨⟨h1, h2⟩, h3, h4⟩
    exact ⟨r - m.sr, by omega, c - m.sc, by omega, by omega, by omega⟩

/-- marking a cell any positive number of times: value kept, merged set, root iff top-left -/
theorem mark_fold (m : Region) (rc : Nat × Nat) (k : Nat) (cell : Cell) :
    let res := (List.replicate (k + 1) rc).foldl (fun cell p => markCell m p cell) cell
    res.value = cell.value ∧ res.merged = true ∧
      (res.root = true ↔ (rc.1 = m.sr ∧ rc.2 = m.sc) ∨ cell.root = true) := by
  induction k generalizing cell with
  | zero =>
    simp only [List.replicate, List.foldl_cons, List.foldl_nil, markCell]
    by_cases hroot : rc.1 = m.sr ∧ rc.2 = m.sc <;> simp [hroot]
  | succ k ih =>
    rw [List.replicate_succ, List.foldl_cons]
    have := ih (markCell m rc cell)
    simp only at this ⊢
    obtain ⟨h1, h2, h3⟩ := this
    refine ⟨?_, h2, ?_⟩
    · rw [h1]; unfold markCell; split <;> rfl
    · rw [h3]; unfold markCell
      by_cases hroot : rc.1 = m.sr ∧ rc.2 = m.sc <;> simp [hroot]

theorem filter_pos_replicate (ps : List (Nat × Nat)) (r c : Nat) (hmem : (r, c) ∈ ps) :
    ∃ k, (ps.filter fun p => p.1 = r ∧ p.2 = c) = List.replicate (k + 1) (r, c) := by
  induction ps with
  | nil => cases hmem
  | cons p ps ih =>
    rw [List.filter_cons]
    by_cases hp : p = (r, c)
    · subst hp
      simp only [and_self, decide_true, if_true]
      by_cases hrest : (r, c) ∈ ps
      · obtain ⟨k, hk⟩ := ih hrest
        exact ⟨k + 1, by rw [hk]; rfl⟩
      · refine ⟨0, ?_⟩
        have : ps.filter (fun p => p.1 = r ∧ p.2 = c) = [] := by
          rw [List.filter_eq_nil_iff]
          intro q hq hqq
          have : q = (r, c) := by
            simp at hqq; exact Prod.ext hqq.1 hqq.2
          exact hrest (this ▸ hq)
        rw [this]; rfl
    · have hp' : ¬ (p.1 = r ∧ p.2 = c) := fun h => hp (Prod.ext h.1 h.2)
      simp only [hp', decide_false, Bool.false_eq_true, if_false]
      rcases List.mem_cons.mp hmem with h | h
      · exact absurd h.symm hp
      · exact ih h

/-- **merge_root_only**: after the merge pass for a region, every covered cell keeps its value
field but is marked merged, is a root exactly if it is the region's top-left (or was a root
already), and — unless it is a root — shows nothing in the text output, whatever value the
file put there. -/
theorem merge_root_only (g : Grid) (m : Region) (r c : Nat) (cell : Cell)
    (hin : (m.sr ≤ r ∧ r ≤ m.er) ∧ (m.sc ≤ c ∧ c ≤ m.ec)) (hcell : g.get r c = some cell) :
    ∃ cell', (applyRegion g m).get r c = some cell' ∧ cell'.value = cell.value ∧ cell'.merged = true ∧
      (cell'.root = true ↔ (r = m.sr ∧ c = m.sc) ∨ cell.root = true) ∧
      ((¬ (r = m.sr ∧ c = m.sc) ∧ cell.root = false) → cellText cell' = []) := by
  rw [get_applyRegion, hcell]
  obtain ⟨k, hk⟩ := filter_pos_replicate (regionCells m) r c ((mem_regionCells m r c).mpr hin)
  rw [hk]
  obtain ⟨h1, h2, h3⟩ := mark_fold m (r, c) k cell
  refine ⟨_, rfl, h1, h2, h3, ?_⟩
  intro ⟨hnr, hcr⟩
  have hroot : ¬ ((List.replicate (k + 1) (r, c)).foldl (fun cell p => markCell m p cell) cell).root = true := by
    rw [h3]; simp [hnr, hcr]
  unfold cellText
  simp [h2, hroot]

/-- non-vacuity: a two-row sheet written out of order, B2 then A1 -/
example :
    let rows : List RowXML :=
      [⟨2, [⟨[66, 50], tStr, [120], [], none⟩]⟩, ⟨1, [⟨[65, 49], tStr, [121], [], none⟩]⟩]
    let g := parseWorksheet [] rows []
    (g.get 1 1).map (·.value) = some [120] ∧ (g.get 0 0).map (·.value) = some [121]
      ∧ (g.get 0 1).map (·.value) = some [] := by decide

end Tabula.C17
