import TabulaModel.Props.C14Meta
import TabulaModel.Lemmas.ExportApi
/-!
# C14 (part 3) — the public entry points around the exporter core

The library's own configurations, `(*BatchExporter).Export` with `Data`, its error exits and the
caller's callback (over every outcome history), `(*StreamExporter)` under arbitrary call
sequences, the record building of the vector-database exports, algebra of filter chains.
Everything here is at record level (what is handed to `encoding/json` / `encoding/csv`);
`Props/C14Json.lean` adds the text level for the JSON formats.
-/
namespace Tabula.C14Api
open Tabula.Export Tabula.Csv Tabula.C14 Tabula.C14Meta

/-! ## the library's configurations -/

/-- Every configuration the library itself builds (`DefaultExportConfig`, `JSONLExportConfig`,
`CSVExportConfig`, `TSVExportConfig`, `VectorDBExportConfig`, the one inside `ToJSON`) has a
valid delimiter and non-colliding column names, so the hypotheses of the CSV/TSV theorems hold
for all of them; CSV is comma-separated, TSV tab-separated, VectorDB's unset delimiter means comma. -/
theorem library_configs_ok :
    (∀ cfg ∈ [defaultExportConfig, jsonlExportConfig, csvExportConfig, tsvExportConfig, toJSONConfig,
        vectorDBExportConfig], validDelim (delimiter cfg) ∧ namesOk cfg = true) ∧
    delimiter csvExportConfig = 44 ∧ delimiter tsvExportConfig = 9 ∧ delimiter vectorDBExportConfig = 44 ∧
    defaultExportConfig = ({} : Config) := by
  refine ⟨?_, by decide, by decide, by decide, rfl⟩
  intro cfg h
  simp only [List.mem_cons, List.not_mem_nil, or_false] at h
  rcases h with h | h | h | h | h | h <;> subst h <;> decide

/-- `ToCSV` / `ToTSV` (public API, no hypothesis left): for EVERY collection the text is accepted by
the RFC 4180 reader and reads back as a duplicate-free header followed by one row per chunk in
order, each row being the `cellSpec` of its chunk (under the assumed `encoding/csv` writer). -/
theorem to_csv_tsv_end_to_end (marshal : MapSV → Str) (chunks : List Chunk) :
    ∀ p ∈ [(csvExportConfig, 44), (tsvExportConfig, 9)],
      ∃ text rows, exportCSV marshal p.1 chunks = some text ∧
        csvRead p.2 text = some (collectCSVColumns p.1 chunks :: rows) ∧
        (collectCSVColumns p.1 chunks).Nodup ∧
        rows.length = chunks.length ∧
        ∀ i (hi : i < chunks.length),
          rows[i]? = some ((collectCSVColumns p.1 chunks).map (cellSpec p.1 chunks[i])) := by
  intro p hp
  simp only [List.mem_cons, List.not_mem_nil, or_false] at hp
  rcases hp with e | e <;> subst e
  · obtain ⟨text, rows, h1, h2, h3, h4⟩ := csv_end_to_end marshal csvExportConfig chunks (by decide)
    exact ⟨text, rows, h1, h2, header_distinct _ _ (by decide), h3, h4⟩
  · obtain ⟨text, rows, h1, h2, h3, h4⟩ := csv_end_to_end marshal tsvExportConfig chunks (by decide)
    exact ⟨text, rows, h1, h2, header_distinct _ _ (by decide), h3, h4⟩

/-! ## BatchExporter: data, errors, callback — over every history -/

/-- the loop as written in Go equals the specification run over the partition of `batches_partition` -/
theorem batch_run_refines {α β : Type} (size : Nat) (exportFn : List α → Option β)
    (cb : Batch α → β → Bool) (chunks : List α) :
    batchExportRun size exportFn cb chunks = (batchExport size chunks).map (batchRun exportFn cb) := by
  unfold batchExportRun batchExport
  by_cases hs : 0 < size
  · simp [hs, batchLoopRun_eq]
  · simp [hs]

/-- HISTORY of one `Export` call, for every batch size ≥ 1, every exporter outcome and every
callback behaviour: the callback is invoked on a PREFIX of the partition, in order, each time with
the export of exactly that batch's chunks; every invocation but possibly the last returned nil;
on `ok` the whole partition was delivered (so every chunk exactly once, in order); on a callback
error the failing batch is the last one delivered and nothing after it was exported; on an export
error the failing batch is the first one not delivered. -/
theorem batch_history {α β : Type} (size : Nat) (hs : 1 ≤ size) (exportFn : List α → Option β)
    (cb : Batch α → β → Bool) (chunks : List α) :
    ∃ bs calls res, batchExport size chunks = some bs ∧
      batchExportRun size exportFn cb chunks = some (calls, res) ∧
      bs.flatMap (·.items) = chunks ∧
      calls.map (·.1) = bs.take calls.length ∧
      (∀ p ∈ calls, exportFn p.1.items = some p.2) ∧
      (∀ p ∈ calls.dropLast, cb p.1 p.2 = true) ∧
      (res = .ok → calls.map (·.1) = bs ∧ (calls.flatMap (·.1.items)) = chunks ∧ ∀ p ∈ calls, cb p.1 p.2 = true) ∧
      (∀ n, res = .callbackErr n → ∃ p, calls.getLast? = some p ∧ p.1.batchNumber = n ∧ cb p.1 p.2 = false) ∧
      (∀ s, res = .exportErr s → ∃ b, bs[calls.length]? = some b ∧ b.startIndex = s ∧ exportFn b.items = none) := by
  obtain ⟨bs, hbs, hcat, _⟩ := batches_partition size hs chunks
  have hr := batch_run_refines size exportFn cb chunks
  rw [hbs] at hr
  obtain ⟨h1, h2, h3, h4, h5, h6⟩ := batchRun_history exportFn cb bs
  refine ⟨bs, (batchRun exportFn cb bs).1, (batchRun exportFn cb bs).2, hbs, hr, hcat, h1, h2, h3, ?_, h5, ?_⟩
  · intro hok
    obtain ⟨hl, hall⟩ := h4 hok
    have e : (batchRun exportFn cb bs).1.map (·.1) = bs := by
      rw [h1, hl]; exact List.take_length
    refine ⟨e, ?_, hall⟩
    have e2 : (batchRun exportFn cb bs).1.flatMap (·.1.items) =
        ((batchRun exportFn cb bs).1.map (·.1)).flatMap (·.items) := by
      simp [List.flatMap_map]
    rw [e2, e, hcat]
  · intro s hs'
    obtain ⟨b, hb, e1, e2, _⟩ := h6 s hs'
    exact ⟨b, hb, e1, e2⟩

/-- batches of a CSV/TSV export (valid delimiter, callback never failing): all delivered, and the
`Data` of each batch is a complete export of exactly its slice — it reads back as header (iff
requested) + one `cellSpec` row per chunk of the slice, the columns being those of the slice. -/
theorem batch_csv_end_to_end (marshal : MapSV → Str) (cfg : Config) (size : Nat) (hs : 1 ≤ size)
    (chunks : List Chunk) (hd : validDelim (delimiter cfg)) :
    ∃ calls, batchExportRun size (exportCSV marshal cfg) (fun _ _ => true) chunks = some (calls, .ok) ∧
      calls.flatMap (·.1.items) = chunks ∧
      ∀ p ∈ calls, csvRead (delimiter cfg) p.2 =
        some ((if cfg.includeHeader then [collectCSVColumns cfg p.1.items] else []) ++
          p.1.items.map (fun c => (collectCSVColumns cfg p.1.items).map (cellSpec cfg c))) := by
  obtain ⟨bs, calls, res, hbs, hrun, hcat, hpre, hdata, _, hok, _, herr⟩ :=
    batch_history size hs (exportCSV marshal cfg) (fun _ _ => true) chunks
  have hres : res = .ok := by
    have hr := batch_run_refines size (exportCSV marshal cfg) (fun _ _ => true) chunks
    rw [hbs, hrun] at hr
    simp only [Option.map_some, Option.some.injEq] at hr
    have hall := batchRun_all (exportCSV marshal cfg) (fun _ _ => true) bs
      (fun b _ => by
        obtain ⟨t, ht, _⟩ := export_csv_parses_back marshal cfg b.items hd
        simp [ht])
      (fun _ _ _ => rfl)
    rw [← hr] at hall
    exact hall.1
  subst hres
  refine ⟨calls, hrun, (hok rfl).2.1, ?_⟩
  intro p hp
  obtain ⟨t, ht, hread⟩ := export_csv_parses_back marshal cfg p.1.items hd
  have := hdata p hp
  rw [ht] at this
  injection this with this
  rw [← this, hread]
  simp only [getColumnValue_fun]

example : validDelim (delimiter csvExportConfig) ∧ (1 : Nat) ≤ 3 := by decide

/-! ## StreamExporter under arbitrary call sequences -/

/-- HISTORY of a stream: after ANY sequence of `WriteChunk` / `Close` calls (any `index`
arguments, `Close` anywhere, repeated chunks), a JSON / JSON Lines stream holds exactly one record
per `WriteChunk` call, in call order, each the record the batch exporter produces for that
chunk, and every call returned nil; a CSV / TSV stream holds nothing and every `WriteChunk`
failed (nothing is written silently). -/
theorem stream_history (cfg : Config) (calls : List StreamCall) :
    (cfg.format = .jsonl ∨ cfg.format = .json →
      (streamRun cfg calls ⟨[], []⟩).written = exportRecords cfg (writtenChunks calls) ∧
      (streamRun cfg calls ⟨[], []⟩).results = calls.map (fun _ => true)) ∧
    (cfg.format ≠ .jsonl → cfg.format ≠ .json →
      (streamRun cfg calls ⟨[], []⟩).written = [] ∧
      (streamRun cfg calls ⟨[], []⟩).results = calls.map (fun c => !isWrite c)) := by
  constructor
  · intro hf
    obtain ⟨h1, h2⟩ := streamRun_json cfg hf calls ⟨[], []⟩
    rw [h1, h2, exportRecords_eq_map]
    simp
  · intro h1 h2
    obtain ⟨e1, e2⟩ := streamRun_csv cfg h1 h2 calls ⟨[], []⟩
    rw [e1, e2]
    simp

/-- the caller's loop of `stream_once` is one such history -/
theorem stream_loop_is_history (chunks : List Chunk) (idx : Chunk → Int) :
    writtenChunks (chunks.map (fun c => StreamCall.write c (idx c)) ++ [.close]) = chunks := by
  induction chunks with
  | nil => rfl
  | cons c rest ih => simp only [List.map_cons, List.cons_append, writtenChunks, ih]

/-! ## vector-database records -/

/-- `ExportForPinecone`: the `vectors` array holds, in collection order, exactly one record for
every chunk that has a non-empty vector at its index (and none for the others — documented), with
that chunk's id, that vector, and text / document_title / page_start / section_title of the chunk. -/
theorem pinecone_records {F : Type} (chunks : List Chunk) (embs : List (Emb F)) :
    pineconeVectors chunks embs = chunks.zipIdx.filterMap (pineconeOf embs) ∧
    ((pineconeVectors chunks embs).map (·.id)).Sublist (chunks.map (·.id)) ∧
    (∀ r ∈ pineconeVectors chunks embs, r.values ≠ []) ∧
    ((∀ i, i < chunks.length → embAt embs i ≠ []) →
      (pineconeVectors chunks embs).map (·.id) = chunks.map (·.id) ∧
      (pineconeVectors chunks embs).length = chunks.length) := by
  have h0 : pineconeVectors chunks embs = chunks.zipIdx.filterMap (pineconeOf embs) := pineconeLoop_eq embs chunks 0
  have hid : ∀ (a : Chunk × Nat) (b : PineconeRecord F), pineconeOf embs a = some b → b.id = a.1.id := by
    intro a b h
    unfold pineconeOf at h
    split at h
    · cases h
    · injection h with h; rw [← h]
  refine ⟨h0, ?_, ?_, ?_⟩
  · rw [h0]
    have := filterMap_map_sublist (pineconeOf embs) (·.id) (fun p : Chunk × Nat => p.1.id) hid chunks.zipIdx
    have e : chunks.zipIdx.map (fun p : Chunk × Nat => p.1.id) = chunks.map (·.id) :=
      zipIdx_map_fst_comp (fun c : Chunk => c.id) chunks 0
    rw [e] at this
    exact this
  · intro r hr
    rw [h0] at hr
    obtain ⟨a, _, ha⟩ := List.mem_filterMap.mp hr
    unfold pineconeOf at ha
    split at ha
    · cases ha
    · injection ha with ha; rw [← ha]; simp
  · intro hall
    have key : ∀ (cs : List Chunk) (i : Nat), (∀ j, j < cs.length → embAt embs (i + j) ≠ []) →
        (pineconeLoop embs cs i).map (·.id) = cs.map (·.id) := by
      intro cs
      induction cs with
      | nil => intro i _; rfl
      | cons c rest ih =>
        intro i hj
        have h1 := hj 0 (by simp)
        simp only [Nat.add_zero] at h1
        simp only [pineconeLoop]
        cases he : embAt embs i with
        | nil => exact absurd he h1
        | cons v vs =>
          simp only [List.map_cons]
          rw [ih (i + 1) (fun j hj' => by
            have := hj (j + 1) (by simp; omega)
            rw [show i + (j + 1) = i + 1 + j by omega] at this
            exact this)]
    have := key chunks 0 (fun j hj => by simpa using hall j hj)
    refine ⟨this, ?_⟩
    have hl := congrArg List.length this
    simp only [List.length_map] at hl
    exact hl

/-- the metadata of a Pinecone record, key by key -/
theorem pinecone_metadata (c : Chunk) :
    mapLookup (pineconeMetadata c) kText = some (.str c.text) ∧
    mapLookup (pineconeMetadata c) kDocumentTitle = some (.str c.md.documentTitle) ∧
    mapLookup (pineconeMetadata c) kPageStart = some (.int c.md.pageStart) ∧
    mapLookup (pineconeMetadata c) kSectionTitle = some (.str c.md.sectionTitle) := by
  refine ⟨?_, ?_, ?_, ?_⟩ <;> simp (decide := true) [pineconeMetadata, mapLookup]

/-- `ExportForChroma`: `ids`, `documents`, `metadatas` are parallel arrays with exactly one entry
per chunk, in order: the chunk's id, text, and document_title / page_start / section_title /
chunk_index; the embeddings array is the caller's, passed through (omitted when empty). -/
theorem chroma_parallel {F : Type} (chunks : List Chunk) (embs : List (Emb F)) :
    (chromaRecord chunks embs).ids = chunks.map (·.id) ∧
    (chromaRecord chunks embs).documents = chunks.map (·.text) ∧
    (chromaRecord chunks embs).metadatas = chunks.map (fun c => chromaMetadata c.md) ∧
    (chromaRecord chunks embs).ids.length = chunks.length ∧
    (chromaRecord chunks embs).documents.length = chunks.length ∧
    (chromaRecord chunks embs).metadatas.length = chunks.length ∧
    (chromaRecord chunks embs).embeddings = (if embs = [] then none else some embs) := by
  unfold chromaRecord
  rw [chromaLoop_eq]
  refine ⟨rfl, rfl, rfl, by simp, by simp, by simp, ?_⟩
  cases embs <;> simp

theorem chroma_metadata (m : Meta) :
    mapLookup (chromaMetadata m) kDocumentTitle = some (.str m.documentTitle) ∧
    mapLookup (chromaMetadata m) kPageStart = some (.int m.pageStart) ∧
    mapLookup (chromaMetadata m) kSectionTitle = some (.str m.sectionTitle) ∧
    mapLookup (chromaMetadata m) kChunkIndex = some (.int m.chunkIndex) := by
  refine ⟨?_, ?_, ?_, ?_⟩ <;> simp (decide := true) [chromaMetadata, mapLookup]

/-- `ExportForWeaviate`: exactly one object per chunk, in order, with the class name given, the
chunk's id, its text as `content`, its title / page / section / index, and the vector at the
chunk's index when there is a non-empty one. -/
theorem weaviate_one_per_chunk {F : Type} (cls : Str) (chunks : List Chunk) (embs : List (Emb F)) :
    weaviateObjects cls chunks embs = chunks.zipIdx.map (weaviateOf cls embs) ∧
    (weaviateObjects cls chunks embs).length = chunks.length ∧
    (weaviateObjects cls chunks embs).map (·.id) = chunks.map (·.id) ∧
    ∀ i (hi : i < chunks.length),
      (weaviateObjects cls chunks embs)[i]? =
        some { cls := cls, id := chunks[i].id, properties := weaviateProps chunks[i], vector := embAt embs i } := by
  have h0 : weaviateObjects cls chunks embs = chunks.zipIdx.map (weaviateOf cls embs) := weaviateLoop_eq cls embs chunks 0
  refine ⟨h0, by simp [h0], ?_, ?_⟩
  · rw [h0, List.map_map]
    exact zipIdx_map_fst_comp (fun c : Chunk => c.id) chunks 0
  · intro i hi
    rw [h0]
    simp [List.getElem?_map, List.getElem?_zipIdx, List.getElem?_eq_getElem hi, weaviateOf]

theorem weaviate_properties (c : Chunk) :
    mapLookup (weaviateProps c) kContent = some (.str c.text) ∧
    mapLookup (weaviateProps c) kDocumentTitleC = some (.str c.md.documentTitle) ∧
    mapLookup (weaviateProps c) kPageStartC = some (.int c.md.pageStart) ∧
    mapLookup (weaviateProps c) kSectionTitleC = some (.str c.md.sectionTitle) ∧
    mapLookup (weaviateProps c) kChunkIndexC = some (.int c.md.chunkIndex) := by
  refine ⟨?_, ?_, ?_, ?_, ?_⟩ <;> simp (decide := true) [weaviateProps, mapLookup]

/-- `PrepareForVectorDB`: one record per chunk in order with the chunk's id and text; the four
essential metadata fields always, section_path / element_types when non-empty. -/
theorem prepare_one_per_chunk (chunks : List Chunk) :
    prepareForVectorDB chunks =
      chunks.map (fun c => { id := c.id, text := c.text, metadata := vdbMetadata c.md }) ∧
    (prepareForVectorDB chunks).length = chunks.length ∧
    ∀ m : Meta,
      mapLookup (vdbMetadata m) kDocumentTitle = some (.str m.documentTitle) ∧
      mapLookup (vdbMetadata m) kPageStart = some (.int m.pageStart) ∧
      mapLookup (vdbMetadata m) kChunkIndex = some (.int m.chunkIndex) ∧
      mapLookup (vdbMetadata m) kSectionTitle = some (.str m.sectionTitle) ∧
      mapLookup (vdbMetadata m) kSectionPath = (if m.sectionPath ≠ [] then some (.strs m.sectionPath) else none) ∧
      mapLookup (vdbMetadata m) kElementTypes = (if m.elementTypes ≠ [] then some (.strs m.elementTypes) else none) := by
  refine ⟨prepareForVectorDB_eq chunks, by simp [prepareForVectorDB_eq], ?_⟩
  intro m
  unfold vdbMetadata
  simp only [mapLookup_append, mapLookup_seg]
  refine ⟨?_, ?_, ?_, ?_, ?_, ?_⟩ <;> simp (decide := true) [mapLookup]

/-! ## algebra of filter chains (call histories on collections) -/

/-- chaining two chains is the chain of their concatenation -/
theorem filter_chain_append (env : StrEnv) (ops1 ops2 : List FilterOp) (cs : List Chunk) :
    applyChain env (ops1 ++ ops2) cs = applyChain env ops2 (applyChain env ops1 cs) := by
  induction ops1 generalizing cs with
  | nil => rfl
  | cons op rest ih => simp only [List.cons_append, applyChain, ih]

/-- the order of the filters in a chain does not matter -/
theorem filter_chain_perm (env : StrEnv) (ops ops' : List FilterOp) (h : ops.Perm ops') (cs : List Chunk) :
    applyChain env ops cs = applyChain env ops' cs := by
  rw [filter_chain_is_conjunction, filter_chain_is_conjunction]
  congr 1
  funext c
  exact h.all_eq

/-- applying a filter a second time changes nothing -/
theorem filter_idempotent (env : StrEnv) (op : FilterOp) (cs : List Chunk) :
    applyOp env op (applyOp env op cs) = applyOp env op cs := by
  simp only [applyOp, filterC_eq, List.filter_filter, Bool.and_self]

/-- a chunk is in the result of a chain iff it is in the collection and satisfies every predicate -/
theorem filter_chain_mem (env : StrEnv) (ops : List FilterOp) (cs : List Chunk) (c : Chunk) :
    c ∈ applyChain env ops cs ↔ (c ∈ cs ∧ ∀ op ∈ ops, opPred env op c = true) := by
  rw [filter_chain_is_conjunction]
  simp [List.mem_filter, List.all_eq_true]

/-- filtering never makes a collection grow, and keeps it unchanged iff every chunk qualifies -/
theorem filter_chain_length (env : StrEnv) (ops : List FilterOp) (cs : List Chunk) :
    (applyChain env ops cs).length ≤ cs.length :=
  (filter_order_preserved env ops cs).length_le

end Tabula.C14Api
