import TabulaModel.Props.C08
import TabulaModel.Lemmas.Inline
/-!
# C08 — the extractor commutes with an outer change of device coordinates; frame rule for q/Q

The theorems of `Props/C08.lean` say where ONE operator puts the next fragment.  This file
is about whole runs, for every program (any length, any q/Q history, arbitrary Form
XObjects nested to any depth, balanced or not, any glyph advances):

* `exec_post` / `run_post`: "the reported origin is the text-space origin mapped through the
  text matrix and THEN the current transformation matrix" as a law of the whole extractor:
  if the CTM of the current graphics state and of every saved state is followed by one more
  matrix `C` (`post C`), the run fails in exactly the same cases, ends in the same state
  followed by `C`, and reports exactly the same fragments with every origin mapped through
  `C` — dirty or clean, inside forms or not.  Nothing of the text state ever depends on
  the CTM (`exec_post_text`).
* `run_leading_cm`: a page that begins with `C cm` reports the fragments of the rest of the
  page moved through `C`.
* `run_translated`: for a translation the complete fragments (font-size factors included)
  are the old ones shifted by `(e, f)`.
* `post_post`, `post_identity`: these changes of coordinates compose like matrices.
* `gfx_post`, `gfx_leading_cm`: the graphics extractor obeys the same law for line end points.
* `exec_deepen`, `run_deepen`: frame rule for the q/Q stack: saved states that lie below
  the ones a program pushes itself are never looked at and are given back untouched, with
  the same fragments (the page in any q/Q shape; forms with balanced content anywhere,
  `runForm_deepen`); `run_deepen_init` states it from the empty stack.  For forms whose
  content is not balanced the rule is false (`Props/C08Stack.lean: form_extra_Q`).

Hypotheses `Compatible g C` are inhabited by `compatible_forget` (every `C`) and
`compatible_translate`; the other hypotheses have an `example` next to the theorem.
-/
namespace Tabula.C08More
open Tabula Tabula.Matrix Tabula.GState Tabula.XDoc Tabula.C08

variable {α : Type} [Lean.Grind.CommRing α] [DecidableEq α] [LT α] [DecidableLT α]

/-! ## an outer change of device coordinates -/

/-- the frame seen through one more matrix applied after its CTM -/
def postFrame (C : Matrix α) (f : Frame α) : Frame α := { f with ctm := f.ctm.mul C }

/-- the state whose current and saved CTMs are all followed by `C` -/
def post (C : Matrix α) (s : State α) : State α :=
  { cur := postFrame C s.cur, stack := s.stack.map (postFrame C), xdepth := s.xdepth }

/-- the fragment with its origin mapped through `C` -/
def moveShow (C : Matrix α) (sh : Show α) : Show α :=
  { sh with x := (C.transformPoint (sh.x, sh.y)).1, y := (C.transformPoint (sh.x, sh.y)).2 }

/-- the fragment with its CTM size factor seen through `g` (`fun _ => 0`: forgotten, `id`: kept) -/
def reScale (g : α → α) (sh : Show α) : Show α := { sh with ctmScale2 := g sh.ctmScale2 }

/-- `g` cannot tell the CTM size factor before `C` from the one after `C` -/
def Compatible (g : α → α) (C : Matrix α) : Prop :=
  ∀ m : Matrix α, g (ctmScale2 (m.mul C)) = g (ctmScale2 m)

omit [LT α] [DecidableLT α] in
/-- forgetting the CTM size factor is compatible with every matrix -/
theorem compatible_forget (C : Matrix α) : Compatible (fun _ : α => (0 : α)) C := fun _ => rfl

omit [LT α] [DecidableLT α] in
/-- a translation does not change the CTM size factor -/
theorem compatible_translate (e f : α) : Compatible (id : α → α) (translate e f) := by
  intro m
  have h : (m.mul (translate e f)).vScale2 = m.vScale2 := by
    simp only [vScale2, mul, translate]; grind
  simp only [id, ctmScale2, h]

theorem showText_post (adv : Adv α) (g : α → α) (C : Matrix α) (hg : Compatible g C) (sid : Nat)
    (s : State α) :
    (showText adv sid (post C s)).1 = post C (showText adv sid s).1 ∧
      reScale g (showText adv sid (post C s)).2 = reScale g (moveShow C (showText adv sid s).2) := by
  refine ⟨rfl, ?_⟩
  simp only [showText, reScale, moveShow, State.getTextPosition, post, postFrame]
  rw [transformPoint_mul, hg s.cur.ctm]
  rfl

theorem showTextArray_post (adv : Adv α) (g : α → α) (C : Matrix α) (hg : Compatible g C)
    (items : List (TJItem α)) (s : State α) :
    (showTextArray adv items (post C s)).1 = post C (showTextArray adv items s).1 ∧
      (showTextArray adv items (post C s)).2.map (reScale g)
        = (showTextArray adv items s).2.map (fun sh => reScale g (moveShow C sh)) := by
  induction items generalizing s with
  | nil => exact ⟨rfl, rfl⟩
  | cons it rest ih =>
    cases it with
    | str sid =>
      obtain ⟨h1, h2⟩ := showText_post adv g C hg sid s
      simp only [showTextArray, List.map_cons]
      rw [h1]
      obtain ⟨i1, i2⟩ := ih (showText adv sid s).1
      exact ⟨i1, by rw [h2, i2]⟩
    | num v =>
      simp only [showTextArray]
      exact ih (s.advanceText (adv s.cur.text (.num v)))

/-- every operator except `Do` commutes with the outer change of coordinates -/
theorem stepBasic_post (adv : Adv α) (g : α → α) (C : Matrix α) (hg : Compatible g C) (op : Op α)
    (s : State α) :
    (stepBasic adv op (post C s)).1 = post C (stepBasic adv op s).1 ∧
      (stepBasic adv op (post C s)).2.1.map (reScale g)
        = (stepBasic adv op s).2.1.map (fun sh => reScale g (moveShow C sh)) ∧
      (stepBasic adv op (post C s)).2.2 = (stepBasic adv op s).2.2 := by
  cases op with
  | Q =>
    cases s with | mk c st d =>
    cases st with
    | nil => exact ⟨rfl, rfl, rfl⟩
    | cons f rest => exact ⟨rfl, rfl, rfl⟩
  | cm m =>
    refine ⟨?_, rfl, rfl⟩
    simp [stepBasic, State.transform, post, postFrame, mul_assoc]
  | Tj sid =>
    obtain ⟨h1, h2⟩ := showText_post adv g C hg sid s
    refine ⟨h1, ?_, rfl⟩
    show [reScale g (showText adv sid (post C s)).2] = [reScale g (moveShow C (showText adv sid s).2)]
    rw [h2]
  | quote sid =>
    obtain ⟨h1, h2⟩ := showText_post adv g C hg sid s.nextLine
    refine ⟨h1, ?_, rfl⟩
    show [reScale g (showText adv sid (post C s.nextLine)).2]
      = [reScale g (moveShow C (showText adv sid s.nextLine).2)]
    rw [h2]
  | dquote aw ac sid =>
    obtain ⟨h1, h2⟩ := showText_post adv g C hg sid ((s.setWordSpacing aw).setCharSpacing ac).nextLine
    refine ⟨h1, ?_, rfl⟩
    show [reScale g (showText adv sid (post C ((s.setWordSpacing aw).setCharSpacing ac).nextLine)).2]
      = [reScale g (moveShow C (showText adv sid ((s.setWordSpacing aw).setCharSpacing ac).nextLine).2)]
    rw [h2]
  | TJ items =>
    obtain ⟨h1, h2⟩ := showTextArray_post adv g C hg items s
    exact ⟨h1, h2, rfl⟩
  | _ => exact ⟨rfl, rfl, rfl⟩

omit [DecidableEq α] [LT α] [DecidableLT α] in
theorem formEnter_post (C : Matrix α) (m : Option (Matrix α)) (s : State α) :
    formEnter m (post C s) = post C (formEnter m s) := by
  cases m with
  | none => rfl
  | some m => simp [formEnter, State.transform, State.save, post, postFrame, mul_assoc]

omit [DecidableEq α] [LT α] [DecidableLT α] in
theorem formExit_post (C : Matrix α) (s : State α) : formExit (post C s) = post C (formExit s) := by
  cases s with | mk c st d =>
  cases st with
  | nil => rfl
  | cons f rest => rfl

/-- the equation of `runForm` at a `Do` -/
theorem runForm_form (adv : Adv α) (m : Option (Matrix α)) (body rest : List (Op α)) (s : State α) :
    runForm adv (.form m body :: rest) s =
      if s.xdepth ≥ maxXObjectDepth then runForm adv rest s
      else ((runForm adv rest (formExit (runForm adv body (formEnter m s)).1)).1,
        (runForm adv body (formEnter m s)).2
          ++ (runForm adv rest (formExit (runForm adv body (formEnter m s)).1)).2) := by
  simp only [runForm]

/-- the equation of `runForm` at any other operator -/
theorem runForm_basic (adv : Adv α) (op : Op α) (hf : ¬ ∃ m body, op = .form m body)
    (rest : List (Op α)) (s : State α) :
    runForm adv (op :: rest) s =
      ((runForm adv rest (stepBasic adv op s).1).1,
        (stepBasic adv op s).2.1 ++ (runForm adv rest (stepBasic adv op s).1).2) := by
  cases op <;> first | exact absurd ⟨_, _, rfl⟩ hf | simp [runForm]

example : ¬ ∃ m body, (Op.Tstar : Op Int) = .form m body := by
  rintro ⟨_, _, h⟩; cases h

theorem runForm_post_sized (adv : Adv α) (g : α → α) (C : Matrix α) (hg : Compatible g C) :
    ∀ (n : Nat) (ops : List (Op α)), sizeOf ops ≤ n → ∀ s : State α,
      (runForm adv ops (post C s)).1 = post C (runForm adv ops s).1 ∧
        (runForm adv ops (post C s)).2.map (reScale g)
          = (runForm adv ops s).2.map (fun sh => reScale g (moveShow C sh)) := by
  intro n
  induction n with
  | zero =>
    intro ops h
    cases ops <;> simp at h <;> omega
  | succ n ih =>
    intro ops h s
    cases ops with
    | nil => simp [runForm]
    | cons op rest =>
      have hrest : sizeOf rest ≤ n := by simp at h; omega
      by_cases hf : ∃ m body, op = .form m body
      · obtain ⟨m, body, rfl⟩ := hf
        have hbody : sizeOf body ≤ n := by simp at h; omega
        have hx : (post C s).xdepth = s.xdepth := rfl
        rw [runForm_form, runForm_form, hx]
        by_cases hd : s.xdepth ≥ maxXObjectDepth
        · rw [if_pos hd, if_pos hd]
          exact ih rest hrest s
        · rw [if_neg hd, if_neg hd]
          obtain ⟨b1, b2⟩ := ih body hbody (formEnter m s)
          rw [formEnter_post, b1, formExit_post]
          obtain ⟨r1, r2⟩ := ih rest hrest (formExit (runForm adv body (formEnter m s)).1)
          refine ⟨r1, ?_⟩
          simp only [List.map_append]
          rw [b2, r2]
      · obtain ⟨a1, a2, _⟩ := stepBasic_post adv g C hg op s
        rw [runForm_basic adv op hf, runForm_basic adv op hf, a1]
        obtain ⟨r1, r2⟩ := ih rest hrest (stepBasic adv op s).1
        refine ⟨r1, ?_⟩
        simp only [List.map_append]
        rw [a2, r2]

/-- **the content of a form commutes with an outer change of coordinates**: for every
operator list (nested forms to any depth, balanced or not) -/
theorem runForm_post (adv : Adv α) (g : α → α) (C : Matrix α) (hg : Compatible g C)
    (ops : List (Op α)) (s : State α) :
    (runForm adv ops (post C s)).1 = post C (runForm adv ops s).1 ∧
      (runForm adv ops (post C s)).2.map (reScale g)
        = (runForm adv ops s).2.map (fun sh => reScale g (moveShow C sh)) :=
  runForm_post_sized adv g C hg (sizeOf ops) ops (Nat.le_refl _) s

/-- one operator of the page (including `Do`) commutes with the outer change of coordinates -/
theorem step_post (adv : Adv α) (g : α → α) (C : Matrix α) (hg : Compatible g C) (op : Op α)
    (s : State α) :
    (step adv op (post C s)).1 = post C (step adv op s).1 ∧
      (step adv op (post C s)).2.1.map (reScale g)
        = (step adv op s).2.1.map (fun sh => reScale g (moveShow C sh)) ∧
      (step adv op (post C s)).2.2 = (step adv op s).2.2 := by
  by_cases hf : ∃ m body, op = .form m body
  · obtain ⟨m, body, rfl⟩ := hf
    have hx : (post C s).xdepth = s.xdepth := rfl
    simp only [step, hx]
    by_cases hd : s.xdepth ≥ maxXObjectDepth
    · rw [if_pos hd, if_pos hd]
      exact ⟨rfl, rfl, rfl⟩
    · rw [if_neg hd, if_neg hd]
      obtain ⟨b1, b2⟩ := runForm_post adv g C hg body (formEnter m s)
      rw [formEnter_post, b1, formExit_post]
      exact ⟨rfl, b2, rfl⟩
  · have hs : ∀ t : State α, step adv op t = stepBasic adv op t := by
      intro t
      cases op <;> first | exact absurd ⟨_, _, rfl⟩ hf | rfl
    rw [hs, hs]
    exact stepBasic_post adv g C hg op s

/-- **exec_post**: the whole page loop commutes with an outer change of device coordinates:
same failures, final state followed by `C`, the same fragments with origins through `C` -/
theorem exec_post (adv : Adv α) (g : α → α) (C : Matrix α) (hg : Compatible g C)
    (ops : List (Op α)) (s : State α) :
    (exec adv ops (post C s)).map (fun r => (r.1, r.2.map (reScale g)))
      = (exec adv ops s).map
          (fun r => (post C r.1, r.2.map (fun sh => reScale g (moveShow C sh)))) := by
  induction ops generalizing s with
  | nil => simp [exec]
  | cons op rest ih =>
    obtain ⟨a1, a2, a3⟩ := step_post adv g C hg op s
    simp only [exec]
    rw [a3, a1]
    cases (step adv op s).2.2 with
    | true => simp
    | false =>
      simp only [Bool.false_eq_true, if_false]
      have ih' := ih (step adv op s).1
      cases h1 : exec adv rest (post C (step adv op s).1) with
      | none =>
        cases h2 : exec adv rest (step adv op s).1 with
        | none => simp
        | some r2 => simp [h1, h2] at ih'
      | some r1 =>
        cases h2 : exec adv rest (step adv op s).1 with
        | none => simp [h1, h2] at ih'
        | some r2 =>
          simp only [h1, h2, Option.map_some, Option.some.injEq, Prod.mk.injEq] at ih'
          simp only [Option.map_some, List.map_append, a2, ih'.1, ih'.2]

/-- **run_post**: `Extract` on the state followed by `C` reports the fragments of `Extract`
on the state itself, every origin mapped through `C` (and `none` in the same cases) -/
theorem run_post (adv : Adv α) (g : α → α) (C : Matrix α) (hg : Compatible g C)
    (ops : List (Op α)) (s : State α) :
    (run adv ops (post C s)).map (·.map (reScale g))
      = (run adv ops s).map (·.map (fun sh => reScale g (moveShow C sh))) := by
  have h := congrArg (Option.map (·.2)) (exec_post adv g C hg ops s)
  simpa [run, Option.map_map, Function.comp_def] using h

/-- the text state (font size, spacings, leading, rise, both text matrices) at the end of a
run never depends on the CTM -/
theorem exec_post_text (adv : Adv α) (C : Matrix α) (ops : List (Op α)) (s : State α) :
    (exec adv ops (post C s)).map (·.1.cur.text) = (exec adv ops s).map (·.1.cur.text) := by
  have h := congrArg (Option.map (fun r : State α × List (Show α) => r.1.cur.text))
    (exec_post adv (fun _ => 0) C (compatible_forget C) ops s)
  simpa [Option.map_map, Function.comp_def, post, postFrame] using h

/-- **a leading `cm`**: a page `C cm ops` reports the fragments of `ops` with every origin
mapped through `C` (all programs, forms included; the size factor of the CTM aside) -/
theorem run_leading_cm (adv : Adv α) (C : Matrix α) (ops : List (Op α)) :
    (run adv (.cm C :: ops) init).map (·.map (reScale fun _ => 0))
      = (run adv ops init).map (·.map (fun sh => reScale (fun _ => 0) (moveShow C sh))) := by
  have hs : (step adv (.cm C) (init : State α)) = (post C init, [], false) := by
    simp [step, stepBasic, State.transform, post, postFrame, init, mul_identity, identity_mul]
  have hr : run adv (.cm C :: ops) init = run adv ops (post C init) := by
    simp only [run, exec, hs, Bool.false_eq_true, if_false, List.nil_append]
    cases exec adv ops (post C init) <;> rfl
  rw [hr]
  exact run_post adv (fun _ => 0) C (compatible_forget C) ops init

/-- the fragment shifted by `(e, f)` -/
def shift (e f : α) (sh : Show α) : Show α := { sh with x := sh.x + e, y := sh.y + f }

/-- **translated pages**: if every CTM is followed by a translation by `(e, f)`, `Extract`
reports the very same fragments (all size factors and the clean flag included) shifted by
`(e, f)`, for every program -/
theorem run_translated (adv : Adv α) (e f : α) (ops : List (Op α)) (s : State α) :
    run adv ops (post (translate e f) s) = (run adv ops s).map (·.map (shift e f)) := by
  have h := run_post adv id (translate e f) (compatible_translate e f) ops s
  have h1 : reScale (id : α → α) = id := funext fun sh => rfl
  have h2 : (fun sh : Show α => reScale id (moveShow (translate e f) sh)) = shift e f := by
    funext sh
    simp only [reScale, moveShow, shift, id, transformPoint_translate]
  rw [h2, h1] at h
  simpa using h

example : run (fun _ _ => (0 : Int)) [.BT, .Td 3 4, .Tj 0] (post (translate 10 20) init)
    = some [{ x := 13, y := 24, fs := 12, tmScale2 := 1, ctmScale2 := 1, clean := true }] := by
  decide

/-! ## frame rule for the q/Q stack -/

/-- the state with further saved states `E` below its own -/
def deepen (E : List (Frame α)) (s : State α) : State α := { s with stack := s.stack ++ E }

theorem showTextArray_deepen (adv : Adv α) (E : List (Frame α)) (items : List (TJItem α))
    (s : State α) :
    showTextArray adv items (deepen E s)
      = (deepen E (showTextArray adv items s).1, (showTextArray adv items s).2) := by
  induction items generalizing s with
  | nil => rfl
  | cons it rest ih =>
    cases it with
    | str sid =>
      have h : (showText adv sid (deepen E s)) = (deepen E (showText adv sid s).1, (showText adv sid s).2) := rfl
      simp only [showTextArray, h, ih]
    | num v =>
      simp only [showTextArray]
      exact ih (s.advanceText (adv s.cur.text (.num v)))

/-- an operator (other than `Do`) that succeeds does the same with more saved states below -/
theorem stepBasic_deepen (adv : Adv α) (E : List (Frame α)) (op : Op α) (s : State α)
    (h : (stepBasic adv op s).2.2 = false) :
    stepBasic adv op (deepen E s)
      = (deepen E (stepBasic adv op s).1, (stepBasic adv op s).2.1, false) := by
  cases op with
  | Q =>
    cases s with | mk c st d =>
    cases st with
    | nil => simp [stepBasic, State.restore] at h
    | cons f rest => rfl
  | TJ items =>
    simp only [stepBasic, showTextArray_deepen]
  | _ => rfl

example : (stepBasic (fun _ _ => (0 : Int)) .Q (init : State Int).save).2.2 = false := by decide

/-- the content of a balanced form leaves the stack as it found it -/
theorem runForm_stack (adv : Adv α) {ops : List (Op α)} (hb : Balanced ops) (s : State α) :
    (runForm adv ops s).1.stack = s.stack := by
  obtain ⟨s', out, _, h2, h3, _⟩ := balanced_exec adv hb s
  rw [h2]; exact h3

omit [DecidableEq α] [LT α] [DecidableLT α] in
theorem formEnter_deepen (E : List (Frame α)) (m : Option (Matrix α)) (s : State α) :
    formEnter m (deepen E s) = deepen E (formEnter m s) := by
  cases m <;> rfl

omit [Lean.Grind.CommRing α] [DecidableEq α] [LT α] [DecidableLT α] in
theorem formExit_deepen (E : List (Frame α)) (s : State α) (h : s.stack ≠ []) :
    formExit (deepen E s) = deepen E (formExit s) := by
  cases s with | mk c st d =>
  cases st with
  | nil => exact absurd rfl h
  | cons f rest => rfl

omit [DecidableEq α] [LT α] [DecidableLT α] in
theorem formEnter_stack_ne (m : Option (Matrix α)) (s : State α) : (formEnter m s).stack ≠ [] := by
  cases m <;> simp [formEnter, State.save, State.transform]

/-- balanced content (of a form, nested forms included) never looks below its own saved states -/
theorem runForm_deepen (adv : Adv α) (E : List (Frame α)) {ops : List (Op α)} (hb : Balanced ops) :
    ∀ s : State α,
      runForm adv ops (deepen E s) = (deepen E (runForm adv ops s).1, (runForm adv ops s).2) := by
  induction hb with
  | nil => intro s; simp [runForm]
  | plain op rest hp _ ih =>
    intro s
    obtain ⟨he, _, _⟩ := stepBasic_plain adv op hp s
    rw [runForm_plain adv op hp, runForm_plain adv op hp, stepBasic_deepen adv E op s he]
    simp only [ih]
  | qQ body rest hbody _ ihb ihr =>
    intro s
    have hst : (runForm adv body s.save).1.stack = s.cur :: s.stack := runForm_stack adv hbody s.save
    have hQ : (stepBasic adv .Q (runForm adv body s.save).1).2.2 = false := by
      simp [stepBasic, State.restore, hst]
    have hq : ¬ ∃ m b, (Op.Q : Op α) = .form m b := by
      rintro ⟨_, _, h⟩; cases h
    have h1 : stepBasic adv Op.q (deepen E s) = (deepen E s.save, [], false) := rfl
    have h2 : stepBasic adv Op.q s = (s.save, [], false) := rfl
    rw [runForm_plain', runForm_plain', h1, h2]
    simp only [List.nil_append]
    rw [runForm_append, runForm_append]
    simp only [ihb]
    rw [runForm_basic adv .Q hq, runForm_basic adv .Q hq, stepBasic_deepen adv E .Q _ hQ]
    simp only [ihr]
  | form m body rest hbody _ ihb ihr =>
    intro s
    have hx : (deepen E s).xdepth = s.xdepth := rfl
    rw [runForm_form, runForm_form, hx]
    by_cases hd : s.xdepth ≥ maxXObjectDepth
    · rw [if_pos hd, if_pos hd]; exact ihr s
    · have hst : (runForm adv body (formEnter m s)).1.stack ≠ [] := by
        rw [runForm_stack adv hbody]; exact formEnter_stack_ne m s
      rw [if_neg hd, if_neg hd, formEnter_deepen]
      simp only [ihb]
      rw [formExit_deepen E _ hst]
      simp only [ihr]

example : ((init : State Int).save).stack ≠ [] := by decide

/-- one page operator that succeeds — `Do` of a form with balanced content included — does
the same with more saved states below -/
theorem step_deepen (adv : Adv α) (E : List (Frame α)) (op : Op α) (s : State α)
    (hfb : ∀ m body, op = .form m body → Balanced body) (h : (step adv op s).2.2 = false) :
    step adv op (deepen E s) = (deepen E (step adv op s).1, (step adv op s).2.1, false) := by
  by_cases hf : ∃ m body, op = .form m body
  · obtain ⟨m, body, rfl⟩ := hf
    have hb := hfb m body rfl
    have hx : (deepen E s).xdepth = s.xdepth := rfl
    simp only [step, hx]
    by_cases hd : s.xdepth ≥ maxXObjectDepth
    · simp only [if_pos hd]
    · have hst : (runForm adv body (formEnter m s)).1.stack ≠ [] := by
        rw [runForm_stack adv hb]; exact formEnter_stack_ne m s
      simp only [if_neg hd, formEnter_deepen, runForm_deepen adv E hb, formExit_deepen E _ hst]
  · have hs : ∀ t : State α, step adv op t = stepBasic adv op t := by
      intro t
      cases op <;> first | exact absurd ⟨_, _, rfl⟩ hf | rfl
    rw [hs] at h
    rw [hs, hs]
    exact stepBasic_deepen adv E op s h

/-- **frame rule**: a program (forms with balanced content anywhere, the page itself in any
q/Q shape) that runs without error from `s` runs without error from `s` with any further
saved states `E` below, reports the same fragments, and leaves `E` below its own final stack -/
theorem exec_deepen (adv : Adv α) (E : List (Frame α)) (ops : List (Op α)) (hfb : FormsBalanced ops)
    (s s1 : State α) (out : List (Show α)) (h : exec adv ops s = some (s1, out)) :
    exec adv ops (deepen E s) = some (deepen E s1, out) := by
  induction ops generalizing s s1 out with
  | nil =>
    simp only [exec, Option.some.injEq, Prod.mk.injEq] at h
    obtain ⟨rfl, rfl⟩ := h
    rfl
  | cons op rest ih =>
    have hop : ∀ m body, op = .form m body → Balanced body := by
      intro m body e; subst e; exact hfb m body List.mem_cons_self
    simp only [exec] at h ⊢
    cases herr : (step adv op s).2.2 with
    | true => simp [herr] at h
    | false =>
      rw [step_deepen adv E op s hop herr]
      simp only [herr, Bool.false_eq_true, if_false] at h ⊢
      cases h2 : exec adv rest (step adv op s).1 with
      | none => simp [h2] at h
      | some r2 =>
        simp only [h2, Option.some.injEq, Prod.mk.injEq] at h
        obtain ⟨rfl, rfl⟩ := h
        rw [ih hfb.tail (step adv op s).1 r2.1 r2.2 (by rw [h2])]

omit [Lean.Grind.CommRing α] [DecidableEq α] [LT α] [DecidableLT α] in
/-- `Do`-free programs are a special case -/
theorem formsBalanced_of_noForm (ops : List (Op α)) (h : NoForm ops) : FormsBalanced ops := by
  induction ops with
  | nil => intro m b hm; cases hm
  | cons op rest ih =>
    intro m b hm
    cases op with
    | form m2 b2 => exact absurd h (by simp [NoForm])
    | _ =>
      cases hm with
      | tail _ hm2 => exact ih h m b hm2

example : exec (fun _ _ => (0 : Int)) [.q, .cm ⟨2, 0, 0, 2, 0, 0⟩, .Tj 0, .Q] (init : State Int)
    = some ((init : State Int),
      [{ x := 0, y := 0, fs := 12, tmScale2 := 1, ctmScale2 := 4, clean := true }]) := by
  decide

example : NoForm ([.q, .BT, .Tj 0, .Q] : List (Op Int)) := by simp [NoForm]

example : (run (fun _ _ => (0 : Int)) [.q, .BT, .Tj 0, .Q] (init : State Int)).isSome = true := by decide

/-- the fragments of a successful run do not depend on saved states below -/
theorem run_deepen (adv : Adv α) (E : List (Frame α)) (ops : List (Op α)) (hnf : FormsBalanced ops)
    (s : State α) (out : List (Show α)) (h : run adv ops s = some out) :
    run adv ops (deepen E s) = some out := by
  unfold run at h ⊢
  cases h2 : exec adv ops s with
  | none => simp [h2] at h
  | some r =>
    simp only [h2, Option.map_some, Option.some.injEq] at h
    rw [exec_deepen adv E ops hnf s r.1 r.2 h2]
    simp [h]

/-- **a page fragment inside `q … Q` nesting**: whatever states an enclosing program has
saved (`st`), a program (forms balanced) that succeeds on the empty stack reports the same
fragments -/
theorem run_deepen_init (adv : Adv α) (ops : List (Op α)) (hnf : FormsBalanced ops) (f : Frame α)
    (st : List (Frame α)) (d : Nat) (out : List (Show α))
    (h : run adv ops ⟨f, [], d⟩ = some out) : run adv ops ⟨f, st, d⟩ = some out := by
  have := run_deepen adv st ops hnf ⟨f, [], d⟩ out h
  simpa [deepen] using this

example : (step (fun _ _ => (0 : Int)) (.form none [.q, .Tj 1, .Q]) (init : State Int)).2.2 = false := by
  simp [step, maxXObjectDepth, init]

example : FormsBalanced ([.q, .form none [.q, .Tj 1, .Q], .Q] : List (Op Int)) := by
  intro m b hm
  simp at hm
  obtain ⟨_, rfl⟩ := hm
  exact Balanced.qQ [.Tj 1] [] (Balanced.plain _ _ rfl Balanced.nil) Balanced.nil

/-! ## the group action; the graphics extractor -/

omit [DecidableEq α] [LT α] [DecidableLT α] in
/-- two outer changes of coordinates in a row are one: the product, first `C` then `D` -/
theorem post_post (C D : Matrix α) (s : State α) : post D (post C s) = post (C.mul D) s := by
  simp [post, postFrame, mul_assoc, List.map_map, Function.comp_def]

omit [DecidableEq α] [LT α] [DecidableLT α] in
/-- the identity changes nothing -/
theorem post_identity (s : State α) : post identity s = s := by
  have hf : ∀ f : Frame α, postFrame identity f = f := by
    intro f; cases f; simp [postFrame, mul_identity]
  cases s with | mk c st d =>
  have hm : st.map (postFrame identity) = st := by
    induction st with
    | nil => rfl
    | cons a l ih => simp [hf, ih]
  simp [post, hf, hm]

/-- a stroked line with both end points mapped through `C` -/
def moveSeg (C : Matrix α) (g : Seg α) : Seg α :=
  ⟨(C.transformPoint (g.x0, g.y0)).1, (C.transformPoint (g.x0, g.y0)).2,
   (C.transformPoint (g.x1, g.y1)).1, (C.transformPoint (g.x1, g.y1)).2⟩

omit [DecidableEq α] [LT α] [DecidableLT α] in
/-- **the graphics extractor obeys the same law**: on the state followed by `C` it reports
the same lines with both end points mapped through `C`, and fails in the same cases, for
every program -/
theorem gfx_post (C : Matrix α) (ops : List (Op α)) (s : State α) :
    gfx ops (post C s) = (gfx ops s).map (·.map (moveSeg C)) := by
  induction ops generalizing s with
  | nil => simp [gfx]
  | cons op rest ih =>
    cases op with
    | q => simp only [gfx]; exact ih s.save
    | Q =>
      cases s with | mk c st d =>
      cases st with
      | nil => simp [gfx, State.restore, post]
      | cons f r =>
        simp only [gfx, State.restore, post, List.map_cons]
        exact ih ⟨f, r, d⟩
    | cm m =>
      have hc : (post C s).transform m = post C (s.transform m) := by
        simp [State.transform, post, postFrame, mul_assoc]
      simp only [gfx]
      rw [hc]
      exact ih _
    | line x0 y0 x1 y1 =>
      have hc : (post C s).cur.ctm = s.cur.ctm.mul C := rfl
      simp only [gfx]
      rw [ih s, hc, transformPoint_mul, transformPoint_mul]
      cases gfx rest s with
      | none => rfl
      | some l => simp [moveSeg]
    | _ => simp only [gfx]; exact ih s

omit [DecidableEq α] [LT α] [DecidableLT α] in
/-- a leading `cm` for the graphics extractor: every line of the rest of the page, moved through `C` -/
theorem gfx_leading_cm (C : Matrix α) (ops : List (Op α)) :
    gfx (.cm C :: ops) init = (gfx ops init).map (·.map (moveSeg C)) := by
  have hs : (init : State α).transform C = post C init := by
    simp [State.transform, post, postFrame, init, mul_identity, identity_mul]
  simp only [gfx]
  rw [hs]
  exact gfx_post C ops init

end Tabula.C08More
