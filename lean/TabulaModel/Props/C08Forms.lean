import TabulaModel.Props.C08
import TabulaModel.Lemmas.Expand
import TabulaModel.Lemmas.Dyck
/-!
# C08 — composition: the property's statement through forms and through the public API

`Props/C08.lean` proves `origin_spec` for `Do`-free programs and `xobject_matrix` for one
level of forms.  Here the two are chained, to any nesting depth (`origin_spec_forms`), and
then carried through the model of the public entry points (`Model/XDoc.lean`): names,
resource scopes, `mergeResources`, nesting limit, budget, operand checks
(`extract_unfolds`, `extract_origin_spec`).
-/
namespace Tabula.C08Forms
open Tabula Tabula.Matrix Tabula.GState Tabula.XDoc Tabula.C08

variable {α : Type} [Lean.Grind.CommRing α] [DecidableEq α] [LT α] [DecidableLT α]

omit [Lean.Grind.CommRing α] [DecidableEq α] [LT α] [DecidableLT α] in
theorem noForm_of_formFree (l : List (Op α)) (h : FormFree l) : NoForm l := by
  induction l with
  | nil => trivial
  | cons op rest ih =>
    have hop : ∀ m b, op ≠ Op.form m b := h op List.mem_cons_self
    cases op <;> first | exact absurd rfl (hop _ _) | exact ih h.tail

/-- **forms are `q N cm … Q`, to any depth**: a program whose forms have balanced content
(nested however deep, the program itself balanced or not) reports exactly the fragments —
or the error — of the `Do`-free program in which every form is spelled out as
`q`, its `/Matrix` as `cm`, its content, `Q` (a `Do` at the nesting limit of 10 being
dropped) -/
theorem forms_spelled_out (adv : Adv α) (ops : List (Op α)) (h : FormsBalanced ops) (s : State α) :
    run adv ops s = run adv (spellOut s.xdepth ops) s := by
  unfold run; rw [exec_inline adv ops h s]

/-- **origin_spec through forms nested to any depth**: for every program whose forms have
balanced content, the extractor fails exactly when the ISO 32000 definition fails on the
spelled-out program, and otherwise reports, fragment by fragment, the definition's origin
`(0,0) × Tm × CTM` at every position-determined show and its size factors at every show —
inside forms, inside forms inside forms, … as on the page. -/
theorem origin_spec_forms (adv : Adv α) (ops : List (Op α)) (h : FormsBalanced ops) (s : State α) :
    (run adv ops s).map (·.map absShow) = specRun (spellOut s.xdepth ops) (absState s) := by
  rw [forms_spelled_out adv ops h s]
  exact origin_spec adv _ (noForm_of_formFree _ (formsBalanced_inline_formFree h _)) s

/-- the hypothesis is satisfiable by forms nested three deep with matrices at every level,
in an unbalanced page program; and the statement then pins the reported positions -/
example : FormsBalanced ([.cm ⟨2, 0, 0, 2, 10, 10⟩, .q,
    .form (some ⟨1, 0, 0, 1, 5, 0⟩) [.BT, .Td 1 1, .Tj 0, .form (some ⟨0, 1, -1, 0, 0, 0⟩)
      [.q, .cm ⟨3, 0, 0, 3, 0, 0⟩, .BT, .Tj 1, .form none [.BT, .Td 2 0, .Tj 2], .Q]]] : List (Op Int)) := by
  intro m body hm
  simp only [List.mem_cons, reduceCtorEq, Op.form.injEq, List.not_mem_nil, or_false, false_or] at hm
  obtain ⟨_, rfl⟩ := hm
  refine .plain _ _ rfl (.plain _ _ rfl (.plain _ _ rfl (.form _ _ _ ?_ .nil)))
  refine .qQ [.cm ⟨3, 0, 0, 3, 0, 0⟩, .BT, .Tj 1, .form none [.BT, .Td 2 0, .Tj 2]] [] ?_ .nil
  exact .plain _ _ rfl (.plain _ _ rfl (.plain _ _ rfl (.form _ _ _
    (.plain _ _ rfl (.plain _ _ rfl (.plain _ _ rfl .nil))) .nil)))

/-- the spelled-out program of that example, and what the definition (hence, by
`origin_spec_forms`, the extractor) reports for it: the innermost form's text at
`(0,0)·T(2,0)·[3·rot90·T(5,0)·(2,0,0,2,10,10)]` -/
example : spellOut 0 ([.cm ⟨2, 0, 0, 2, 10, 10⟩, .q,
    .form (some ⟨1, 0, 0, 1, 5, 0⟩) [.BT, .Td 1 1, .Tj 0, .form (some ⟨0, 1, -1, 0, 0, 0⟩)
      [.q, .cm ⟨3, 0, 0, 3, 0, 0⟩, .BT, .Tj 1, .form none [.BT, .Td 2 0, .Tj 2], .Q]]] : List (Op Int))
    = [.cm ⟨2, 0, 0, 2, 10, 10⟩, .q, .q, .cm ⟨1, 0, 0, 1, 5, 0⟩, .BT, .Td 1 1, .Tj 0,
        .q, .cm ⟨0, 1, -1, 0, 0, 0⟩, .q, .cm ⟨3, 0, 0, 3, 0, 0⟩, .BT, .Tj 1,
          .q, .BT, .Td 2 0, .Tj 2, .Q, .Q, .Q, .Q] := by
  simp [spellOut, cmOf, maxXObjectDepth]

example : run (fun _ _ => 0) ([.cm ⟨2, 0, 0, 2, 10, 10⟩, .q, .q, .cm ⟨1, 0, 0, 1, 5, 0⟩, .BT, .Td 1 1, .Tj 0,
        .q, .cm ⟨0, 1, -1, 0, 0, 0⟩, .q, .cm ⟨3, 0, 0, 3, 0, 0⟩, .BT, .Tj 1,
          .q, .BT, .Td 2 0, .Tj 2, .Q, .Q, .Q, .Q] : List (Op Int)) init
    = some [⟨22, 12, 12, 1, 4, true⟩, ⟨20, 10, 12, 1, 36, true⟩, ⟨20, 22, 12, 1, 36, true⟩] := by
  decide

/-! ## Through the public entry points -/

/-- **`Extract` on a document is the operator model on its unfolding.**  For every
document (any object table: shared, cyclic, malformed), every page content as the parser
delivers it (any operands), and every extractor state: let `tree` be the unfolding of the
page under the extractor's resources, nesting depth and byte budget (`expandPage`).  Then
the error behaviour, the final graphics state and the fragments of `Extract` are those of
the operator model of `Props/C08.lean` run on `tree`. -/
theorem extract_unfolds (adv : Adv α) (doc : Doc α) (ops : List (RawOp α)) (x : XState α) :
    exec adv (expandPage doc x.resources x.gs.xdepth ops { x.acct with bytes := 0 }).1 x.gs =
      (if (extractRaw adv doc ops x).2.2 then none
       else some ((extractRaw adv doc ops x).1.gs, (extractRaw adv doc ops x).2.1.map (·.sh))) := by
  obtain ⟨gs, resources, acct⟩ := x
  unfold extractRaw expandPage
  cases resources with
  | none =>
    exact (extractLoop_refines adv doc expandNone gs.xdepth none
      (invoke_refines_none adv doc maxXObjectDepth gs.xdepth) ops
      ⟨gs, none, { acct with bytes := 0 }⟩ rfl rfl).1
  | some res =>
    exact (extractLoop_refines adv doc _ gs.xdepth (some res)
      (invoke_refines adv doc maxXObjectDepth gs.xdepth res) ops
      ⟨gs, some res, { acct with bytes := 0 }⟩ rfl rfl).1

/-- **The property's statement over the public API.**  For every document and page content
whose executed forms have balanced content (ISO 32000-1 8.10.1), `Extract` on a new
extractor fails exactly when the ISO 32000 definition fails on the unfolded, spelled-out
program (an unmatched `Q` on the page), and otherwise its fragments carry, one by one, the
origin `(0,0) × Tm × CTM` of the definition wherever the property determines it, and the
definition's size factors everywhere — whatever names, resource scopes, sharing, recursion
(cut by the nesting limit and the budget) and malformed operations the document contains. -/
theorem extract_origin_spec (adv : Adv α) (doc : Doc α) (ops : List (RawOp α)) (x : XState α)
    (hb : FormsBalanced (expandPage doc x.resources x.gs.xdepth ops { x.acct with bytes := 0 }).1) :
    (if (extractRaw adv doc ops x).2.2 then none
     else some ((extractRaw adv doc ops x).2.1.map fun f => absShow f.sh)) =
      specRun (spellOut x.gs.xdepth (expandPage doc x.resources x.gs.xdepth ops { x.acct with bytes := 0 }).1)
        (absState x.gs) := by
  rw [← origin_spec_forms adv _ hb x.gs]
  unfold run
  rw [extract_unfolds adv doc ops x]
  cases (extractRaw adv doc ops x).2.2 <;> simp [List.map_map, Function.comp_def]

/-- **`q … Q` around a page restores the extractor**: when the unfolding of the page is
`q body Q` with balanced `body` (forms to any depth inside), `Extract` does not fail and
leaves the graphics state — CTM, text state, stack, nesting depth — exactly as it found it;
this is the hypothesis of `C08Doc.history_calls_independent`. -/
theorem extract_qQ_restores (adv : Adv α) (doc : Doc α) (ops : List (RawOp α)) (x : XState α)
    (body : List (Op α)) (hb : Balanced body)
    (hu : (expandPage doc x.resources x.gs.xdepth ops { x.acct with bytes := 0 }).1 = Op.q :: (body ++ [Op.Q])) :
    (extractRaw adv doc ops x).2.2 = false ∧ (extractRaw adv doc ops x).1.gs = x.gs := by
  have h := extract_unfolds adv doc ops x
  rw [hu] at h
  obtain ⟨out, hq⟩ := qQ_restores adv body hb x.gs
  rw [hq] at h
  cases herr : (extractRaw adv doc ops x).2.2 with
  | true => rw [herr] at h; simp at h
  | false =>
    rw [herr] at h
    simp only [Bool.false_eq_true, if_false, Option.some.injEq, Prod.mk.injEq] at h
    exact ⟨rfl, h.1.symm⟩

/-- a document for the example below: the page binds `/F` to form 1; form 1 (with /Matrix)
shows a string and draws `/G`, which only its own /Resources bind, to form 2; form 2 shows a
string inside `q … Q` and draws `/F` — form 1 again, found through the merged resources —
so the graph is cyclic. -/
def exDoc : Doc Int := fun n =>
  if n = 1 then some (.form { matrix := some [some 2, some 0, some 0, some 2, some 5, some 7], resources := Slot.direct ⟨Slot.direct [([71], 2)]⟩, len := 30, body := some [⟨.BT, []⟩, ⟨.Td, [.num 1, .num 1]⟩, ⟨.Tj, [.str 4]⟩, ⟨.Do, [.name [71]]⟩] })
  else if n = 2 then some (.form { matrix := none, resources := Slot.missing, len := 20, body := some [⟨.q, []⟩, ⟨.BT, []⟩, ⟨.Tj, [.str 5]⟩, ⟨.Q, []⟩, ⟨.Do, [.name [70]]⟩] })
  else none

/-- the hypothesis of `extract_origin_spec` is satisfiable by a cyclic document: unfolded at
nesting depth 8, the cycle is cut by the nesting limit after form 1 → form 2 -/
example : (expandPage exDoc (some ⟨.direct [([70], 1)]⟩) 8 [⟨.q, []⟩, ⟨.Do, [.name [70]]⟩] ⟨0, 0, 0⟩).1
    = [.q, .form (some ⟨2, 0, 0, 2, 5, 7⟩) [.BT, .Td 1 1, .Tj 4, .form none [.q, .BT, .Tj 5, .Q]]] ∧
    FormsBalanced ([.q, .form (some ⟨2, 0, 0, 2, 5, 7⟩) [.BT, .Td 1 1, .Tj 4, .form none [.q, .BT, .Tj 5, .Q]]] : List (Op Int)) := by
  refine ⟨rfl, ?_⟩
  intro m body hm
  simp only [List.mem_cons, reduceCtorEq, Op.form.injEq, List.not_mem_nil, or_false, false_or] at hm
  obtain ⟨_, rfl⟩ := hm
  exact .plain _ _ rfl (.plain _ _ rfl (.plain _ _ rfl (.form _ _ _
    (.qQ [.BT, .Tj 5] [] (.plain _ _ rfl (.plain _ _ rfl .nil)) .nil) .nil)))

/-! ## A criterion on the document itself -/

omit [Lean.Grind.CommRing α] [DecidableEq α] [LT α] [DecidableLT α] in
/-- **`Balanced` is what counting q and Q decides**: a program that takes the q/Q depth from
0 back to 0 without a `Q` at depth 0, and whose forms have balanced content, is `Balanced` —
so the hypothesis of `qQ_restores`, `xobject_matrix`, `origin_spec_forms` can be checked by
a linear scan -/
theorem balanced_of_counting (ops : List (Op α)) (hfb : FormsBalanced ops)
    (h : depthAfter 0 ops = some 0) : Balanced ops :=
  balanced_of_depth ops.length ops (Nat.le_refl _) hfb h

omit [DecidableEq α] [LT α] [DecidableLT α] in
/-- in a document whose form objects all have q/Q-balanced content streams (counted on the
raw operations, `Do` not counting), every form of every unfolding — under any resources, at
any depth, with any budget left — has balanced content -/
theorem balanced_document_unfolds_balanced (doc : Doc α) (hdoc : DocBalanced doc) (resources : Option Res)
    (depth : Nat) (ops : List (RawOp α)) (a : Acct) :
    FormsBalanced (expandPage doc resources depth ops a).1 :=
  expandPage_formsBalanced doc hdoc resources depth ops a

/-- **The property's statement over the public API, from a condition on the document.**
If every form object of the document has a content stream balanced in q/Q (the only
hypothesis; ISO 32000-1 8.10.1 demands it), then for every page content, whatever its
operands, and every extractor state, `Extract` fails exactly when the ISO 32000 definition
fails on the unfolded, spelled-out program, and otherwise returns fragment by fragment the
definition's origin `(0,0) × Tm × CTM` at every position-determined show and its size
factors at every show — for every form graph: shared, cyclic, cut by the nesting limit or
by the budget. -/
theorem extract_origin_spec_doc (adv : Adv α) (doc : Doc α) (hdoc : DocBalanced doc)
    (ops : List (RawOp α)) (x : XState α) :
    (if (extractRaw adv doc ops x).2.2 then none
     else some ((extractRaw adv doc ops x).2.1.map fun f => absShow f.sh)) =
      specRun (spellOut x.gs.xdepth (expandPage doc x.resources x.gs.xdepth ops { x.acct with bytes := 0 }).1)
        (absState x.gs) :=
  extract_origin_spec adv doc ops x (expandPage_formsBalanced doc hdoc _ _ _ _)

/-- the cyclic example document satisfies the hypothesis -/
example : DocBalanced exDoc := by
  intro n f h
  unfold exDoc at h
  split at h
  · injection h with h; injection h with h; subst h; rfl
  · split at h
    · injection h with h; injection h with h; subst h; rfl
    · cases h

end Tabula.C08Forms
