import TabulaModel.Lemmas.WorkbookBudget
import TabulaModel.Props.C17Api
/-!
# C17 — the budgets of the xlsx loader

Three repairs of the Go code (made for the resource bounds of C02) changed what the loader does on
files no producer writes; this file says exactly where, and that nothing changed for valid
workbooks.

* `parseWorksheet` applies the merged regions in file order only while the cells of their
  rectangles, clipped to the grid, add up to at most one grid; the first region that exceeds what
  is left ends the loop.  `Wb.appliedRegions x` (longest fitting prefix, from the file only) are
  the regions `grid_cell` / `merge_display` / `displayed` speak about.  Here: the prefix is
  characterised (`applied_regions_spec`), all declared regions are applied iff their clipped areas
  fit the grid (`all_regions_applied_iff`), in particular for pairwise disjoint regions — every
  valid sheet (`all_regions_applied_of_disjoint`), and then `grid_cell` holds with the declared
  regions, verbatim as before the fix (`grid_cell_declared`).
* `ColumnToIndex` answers -1 beyond column number 2^40: `Props/C17.lean` (`col_bijection_*`,
  `col_*_beyond_bound`, `cellref_roundtrip`, `cellref_beyond_bound`), `Props/C17Codec.lean`; here
  the consequence for the dimension pass (`dims_within_bound`).
* the limit of `maxGridCells` cells is one budget for all sheets of a workbook, and (since the fix
  "a worksheet grid may grow with the cells its part brings") a grid may have 16 cells for every
  `<c>` element of its part before it touches that budget; a member named by several `<sheet>`
  entries brings its cells once.  `C17A.load_fails_iff` for one sheet; here `part_loads_iff` (from
  the file only), `alias_loads_iff`, `C17A.dense_sheet_loads`, `all_parts_load_of_fit`,
  `all_parts_load_of_small` (workbooks whose grids fit `maxGridCells` together load every part, as
  before all the fixes).
* bounded work and memory (the C02-relevant facts): `merge_work_bounded` — row-loop iterations plus
  cell visits of the merge pass of any sheet are at most two grids (`merge_pass_walks` ties the
  count to the model: no loop runs for a region without a cell in the grid); `merge_visits_bounded`
  — cell visits alone at most one grid; `workbook_cells_bounded` — the grids of an opened workbook
  have at most `maxGridCells` + 16 x (the `<c>` elements of the distinct members loaded) cells.
-/
namespace Tabula.C17B
open Tabula.A1 Tabula.Sheet Tabula.Wb Tabula.C17A

/-! ## which merged regions are applied -/

/-- **the applied regions are the longest prefix of the declared regions that fits one grid**:
a prefix; its clipped areas add up to at most the grid; and the first region left out (if any)
would exceed the grid -/
theorem applied_regions_spec (x : SheetXML) :
    (∃ rest, fileRegions x = appliedRegions x ++ rest) ∧
    areaSum (maxRowOf x.rows) (maxColOf x.rows + 1) (appliedRegions x) ≤ gridSize x ∧
    (∀ m rest, fileRegions x = appliedRegions x ++ m :: rest →
      areaSum (maxRowOf x.rows) (maxColOf x.rows + 1) (appliedRegions x) +
        clipArea (maxRowOf x.rows) (maxColOf x.rows + 1) m > gridSize x) :=
  ⟨applied_prefix _ _ _ _, applied_fits _ _ _ _, fun m rest h => applied_maximal _ _ _ _ m rest h⟩

/-- the clipped area of a region is the number of its positions inside the grid -/
theorem clip_area_counts (nrows ncols : Nat) (m : Region) :
    clipArea nrows ncols m = ((gridPos nrows ncols).filter fun p => decide (covers m p.1 p.2)).length := by
  rw [← length_visited]
  apply Nat.le_antisymm
  · apply nodup_length_le _ _ (nodup_visited nrows ncols m)
    rintro ⟨r, c⟩ h
    rw [mem_visited] at h
    simp only [List.mem_filter, decide_eq_true_eq]
    exact ⟨(mem_gridPos _ _ _ _).mpr h.2, h.1⟩
  · apply nodup_length_le
    · have hn : (gridPos nrows ncols).Nodup := by
        have := nodup_prodRange nrows ncols 0 0
        simpa [gridPos] using this
      exact List.Pairwise.sublist List.filter_sublist hn
    · rintro ⟨r, c⟩ h
      simp only [List.mem_filter, decide_eq_true_eq] at h
      rw [mem_visited]
      exact ⟨h.2, (mem_gridPos _ _ _ _).mp h.1⟩

/-- **all declared regions are applied iff their clipped areas add up to at most the grid** -/
theorem all_regions_applied_iff (x : SheetXML) :
    appliedRegions x = fileRegions x ↔
      areaSum (maxRowOf x.rows) (maxColOf x.rows + 1) (fileRegions x) ≤ gridSize x :=
  applied_all_iff _ _ _ _

/-- **valid sheets**: regions no two of which share a position of the grid (a fortiori regions that
do not overlap at all, as the format demands) are all applied -/
theorem all_regions_applied_of_disjoint (x : SheetXML)
    (h : DisjointInGrid (maxRowOf x.rows) (maxColOf x.rows + 1) (fileRegions x)) :
    appliedRegions x = fileRegions x :=
  applied_all_of_disjoint x h

/-- the same from the plain statement "no two declared regions overlap" -/
theorem all_regions_applied_of_no_overlap (x : SheetXML)
    (h : (fileRegions x).Pairwise fun a b => ∀ r c, ¬ (covers a r c ∧ covers b r c)) :
    appliedRegions x = fileRegions x :=
  applied_all_of_disjoint x (disjointInGrid_of_disjoint _ _ _ h)

/-- non-vacuity: A1:B1 and A2:B2 in a 2x2 grid do not overlap, so both are applied; and the
hypothesis fails for the same region declared twice -/
example :
    let x : SheetXML := ⟨[83], [⟨2, [⟨[66, 50], tStr, [120], [], none⟩]⟩], [[65, 49, 58, 66, 49], [65, 50, 58, 66, 50]], [109]⟩
    DisjointInGrid (maxRowOf x.rows) (maxColOf x.rows + 1) (fileRegions x) ∧ (appliedRegions x).length = 2 := by
  refine ⟨?_, by decide⟩
  simp only [DisjointInGrid]
  have : fileRegions ⟨[83], [⟨2, [⟨[66, 50], tStr, [120], [], none⟩]⟩], [[65, 49, 58, 66, 49], [65, 50, 58, 66, 50]], [109]⟩ =
      [⟨0, 0, 0, 1⟩, ⟨1, 0, 1, 1⟩] := by decide
  rw [this]
  simp only [List.pairwise_cons, List.mem_cons, List.not_mem_nil, or_false, forall_eq, false_imp_iff,
    implies_true, List.Pairwise.nil, and_true]
  intro r c _ _ h
  unfold covers at h
  simp only at h
  omega

/-- **`grid_cell` with the declared regions, as stated before the fix** — for every sheet whose
regions' clipped areas fit the grid (every valid sheet): cell `(r,c)` is marked merged iff a
declared region covers it and root iff it is the top-left of one -/
theorem grid_cell_declared {shared : List Str} {i used : Nat} {fresh : Bool} {x : SheetXML} {s : Wb.Sheet}
    (h : loadSheet shared i used fresh x = some s)
    (hfit : areaSum (maxRowOf x.rows) (maxColOf x.rows + 1) (fileRegions x) ≤ gridSize x)
    (r c : Nat) (hr : r < maxRowOf x.rows) (hc : c ≤ maxColOf x.rows) :
    ∃ cell, s.cell r c = some cell ∧
      cell.value = (fileCell shared x r c).value ∧ cell.type = (fileCell shared x r c).type ∧
      cell.merged = ((fileRegions x).any fun m => decide (covers m r c)) ∧
      cell.root = ((fileRegions x).any fun m => decide (covers m r c) && decide (r = m.sr ∧ c = m.sc)) ∧
      cellText cell = displayed shared x r c := by
  obtain ⟨cell, h1, h2, h3, h4, h5, h6⟩ := grid_cell h r c hr hc
  have ha := applied_all_of_fit x hfit
  refine ⟨cell, h1, h2, h3, ?_, ?_, h6⟩
  · rw [h4]; unfold isCovered; rw [ha]
  · rw [h5]; unfold isRoot; rw [ha]

/-- where the truth changed: a sheet (not a valid one: its two regions overlap) with a declared
region that is not applied.  Grid A1:B1, regions A1:A1 then A1:B1: the first takes one of the two
cells of the budget, the second needs two and ends the loop, so B1 — covered by a declared region —
is not marked merged and displays its stored value.  (Before the fix B1 was blank.) -/
theorem declared_region_not_applied :
    let x : SheetXML := ⟨[83], [⟨1, [⟨[65, 49], tStr, [120], [], none⟩, ⟨[66, 49], tStr, [121], [], none⟩]⟩],
      [[65, 49, 58, 65, 49], [65, 49, 58, 66, 49]], [109]⟩
    (fileRegions x).length = 2 ∧ (appliedRegions x).length = 1 ∧
      ((fileRegions x).any fun m => decide (covers m 0 1)) = true ∧ isCovered x 0 1 = false ∧
      displayed [] x 0 1 = [121] ∧
      ((loadSheet [] 0 0 true x).bind fun s => (s.cell 0 1).map fun cell => (cell.merged, cell.value)) = some (false, [121]) := by
  decide

/-! ## bounded work of the merge pass -/

/-- **the merge pass of a loaded sheet is the fold over `mergeVisits`**: every `Grid.modify` of the
pass is one element of that list (one iteration of the inner Go loop) -/
theorem merge_pass_is_visits {shared : List Str} {i used : Nat} {fresh : Bool} {x : SheetXML} {s : Wb.Sheet}
    (h : loadSheet shared i used fresh x = some s) :
    s.rows = (mergeVisits x).foldl
      (fun g (v : Region × (Nat × Nat)) => g.modify v.2.1 v.2.2 (markCell v.1 v.2))
      (x.rows.foldl (placeRow shared) (emptyGrid (maxRowOf x.rows) (maxColOf x.rows + 1))) := by
  rw [(loadSheet_some h).2.2.2.2, foldl_applyRegionC_eq_visits, length_placeRows, length_emptyGrid]
  rfl

/-- **bounded work**: for every file, the merge pass visits at most as many cells as the grid has
— whatever the number of declared regions, overlapping, repeated or covering the whole sheet
(before the fix: regions x grid) -/
theorem merge_visits_bounded (x : SheetXML) : (mergeVisits x).length ≤ gridSize x := by
  rw [length_mergeVisits]; exact applied_fits _ _ _ _

/-- **the regions the merge pass walks**: the applied regions with a cell inside the grid -/
def walkedRegions (x : SheetXML) : List Region :=
  walkedPrefix (maxRowOf x.rows) (maxColOf x.rows + 1) (fileRegions x) (gridSize x)

/-- iterations of the outer (row) loop of the merge pass: the clipped rows of every walked region -/
def mergeRowIters (x : SheetXML) : Nat := ((walkedRegions x).map (clipRows (maxRowOf x.rows))).sum

/-- **no loop runs for a region without a cell in the grid**: the merge pass of a loaded sheet runs
the double loop for the walked regions and for nothing else (since the fix "merged regions with no
cell inside the grid are skipped"; before, the row loop ran over the whole sheet for each of
them) — and every walked region has a cell in the grid -/
theorem merge_pass_walks {shared : List Str} {i used : Nat} {fresh : Bool} {x : SheetXML} {s : Wb.Sheet}
    (h : loadSheet shared i used fresh x = some s) :
    s.rows = (walkedRegions x).foldl (applyRegionC (maxColOf x.rows + 1))
      (x.rows.foldl (placeRow shared) (emptyGrid (maxRowOf x.rows) (maxColOf x.rows + 1))) ∧
    ∀ m ∈ walkedRegions x, clipArea (maxRowOf x.rows) (maxColOf x.rows + 1) m > 0 := by
  constructor
  · unfold loadSheet at h
    simp only at h
    split at h
    · cases h
    · simp only [Option.some.injEq] at h
      subst h
      simp only
      rw [mergeLoop_eq_foldl_walked]
      rfl
  · intro m hm
    unfold walkedRegions walkedPrefix at hm
    simpa using (List.mem_filter.mp hm).2

theorem sum_clipRows_le (nrows ncols : Nat) (l : List Region) :
    ((l.filter fun m => decide (clipArea nrows ncols m > 0)).map (clipRows nrows)).sum ≤ areaSum nrows ncols l := by
  induction l with
  | nil => simp [areaSum]
  | cons m l ih =>
    simp only [List.filter_cons, areaSum, List.map_cons, List.sum_cons]
    unfold areaSum at ih
    by_cases hp : clipArea nrows ncols m > 0
    · simp only [hp, decide_true, if_true, List.map_cons, List.sum_cons]
      have hc : clipRows nrows m ≤ clipArea nrows ncols m := by
        rw [clipArea_eq] at hp ⊢
        have : clipCols ncols m > 0 := Nat.pos_of_mul_pos_left hp
        exact Nat.le_mul_of_pos_right _ this
      omega
    · simp only [hp, decide_false, Bool.false_eq_true, if_false]
      omega

/-- **bounded work, including the outer loop**: for every file, the iterations of the row loop
plus the cell visits of the merge pass are at most twice the cells of the grid -/
theorem merge_work_bounded (x : SheetXML) : mergeRowIters x + (mergeVisits x).length ≤ 2 * gridSize x := by
  have h1 := merge_visits_bounded x
  have h2 : mergeRowIters x ≤ areaSum (maxRowOf x.rows) (maxColOf x.rows + 1) (appliedRegions x) :=
    sum_clipRows_le _ _ _
  have h3 := applied_fits (maxRowOf x.rows) (maxColOf x.rows + 1) (fileRegions x) (gridSize x)
  unfold appliedRegions at h2
  omega

/-- cell visits alone, in the 2x form -/
theorem merge_visits_bounded_twice (x : SheetXML) : (mergeVisits x).length ≤ 2 * gridSize x := by
  have := merge_visits_bounded x; omega

/-- for a sheet that loads the grid, hence the work of the merge pass, is in proportion to the
file: at most `maxGridCells` cells plus 16 per `<c>` element -/
theorem merge_visits_le_max {shared : List Str} {i used : Nat} {fresh : Bool} {x : SheetXML} {s : Wb.Sheet}
    (h : loadSheet shared i used fresh x = some s) :
    (mergeVisits x).length ≤ maxGridCells + gridCellsPerElement * elements x := by
  have h1 := merge_visits_bounded x
  have h2 : fits used fresh x := (loadSheet_isSome_iff shared i used fresh x).mp ⟨s, h⟩
  unfold fits allowance at h2
  cases fresh <;> simp at h2 <;> omega

/-- non-vacuity: a hundred declarations of A1:XFD1048576 over a 2x2 grid — one is applied, four
cells are visited in two row iterations; and sixty regions right of the grid (B1:B2 on a
one-column sheet of two rows) are applied, none is walked, no row is iterated -/
example :
    let x : SheetXML := ⟨[83], [⟨2, [⟨[66, 50], tStr, [120], [], none⟩]⟩],
      List.replicate 100 [65, 49, 58, 88, 70, 68, 49, 48, 52, 56, 53, 55, 54], [109]⟩
    (fileRegions x).length = 100 ∧ (appliedRegions x).length = 1 ∧ (mergeVisits x).length = 4 ∧
      mergeRowIters x = 2 ∧ (loadSheet [] 0 0 true x).isSome = true := by decide

example :
    let x : SheetXML := ⟨[83], [⟨2, [⟨[65, 50], tStr, [120], [], none⟩]⟩],
      List.replicate 60 [66, 49, 58, 66, 50], [109]⟩
    (appliedRegions x).length = 60 ∧ (walkedRegions x).length = 0 ∧ mergeRowIters x = 0 ∧
      (mergeVisits x).length = 0 := by decide

/-! ## the column bound in the dimension pass -/

theorem colAcc_le_bound (s : Str) (a r : Nat) (ha : a ≤ maxColumnNumber) (h : colAcc s a = some r) :
    r ≤ maxColumnNumber := by
  rw [colAcc_eq_colVal s a ha] at h
  cases hv : colVal s a with
  | none => rw [hv] at h; cases h
  | some v =>
    rw [hv] at h
    simp only [Option.bind_some] at h
    split at h
    · cases h; assumption
    · cases h

/-- every column `ParseCellRef` accepts is below the bound -/
theorem refCol_within_bound (ref : Str) (col : Nat) (h : refCol ref = some col) :
    col + 1 ≤ maxColumnNumber := by
  unfold refCol at h
  split at h
  · rename_i c r hp
    simp only [Option.some.injEq] at h
    unfold parseCellRef at hp
    simp only at hp
    split at hp
    · cases hp
    · split at hp
      · cases hp
      · split at hp
        · cases hp
        · split at hp
          · cases hp
          · rename_i hneg
            have hc : c = columnToIndex (List.takeWhile isLetter ref) := by
              split at hp
              · cases hp
              · split at hp
                · cases hp
                · simp only [Except.ok.injEq, Prod.mk.injEq] at hp; exact hp.1.symm
            unfold columnToIndex at hc hneg
            cases hacc : colAcc (List.takeWhile isLetter ref) 0 with
            | none => rw [hacc] at hneg; simp at hneg
            | some v =>
              rw [hacc] at hc hneg
              simp only at hc hneg
              have := colAcc_le_bound _ 0 v (by decide) hacc
              omega
  · cases h

/-- **the dimension pass stays within the column bound**: the grid of any sheet has at most 2^40
columns as far as the dimension pass is concerned, so `maxCol + 1` and the size test that follows
cannot wrap (the defect behind the fix: a 70-letter column made `maxCol + 1` negative) -/
theorem dims_within_bound (rows : List RowXML) : maxColOf rows + 1 ≤ maxColumnNumber := by
  have : maxColOf rows ≤ maxColumnNumber - 1 := by
    rw [maxColOf_eq]
    apply maxCol_foldl_le rows 0 _ (Nat.zero_le _)
    intro row _ x _ col hc
    have := refCol_within_bound x.ref col hc
    omega
  have : 0 < maxColumnNumber := by decide
  omega

/-! ## the workbook's budget of grid cells -/

/-- what `loadParts` yields at the part in position `j` -/
theorem loadParts_at (shared : List Str) (parts : List (Option SheetXML)) (k : Nat) (seen : List Str)
    (used j : Nat) (x : SheetXML) (hj : parts[j]? = some (some x)) :
    (∃ s ∈ loadParts shared parts k seen used, s.index = k + j) ↔
      fits (stateAfter (parts.take j) seen used).2
        (!(stateAfter (parts.take j) seen used).1.contains x.member) x := by
  induction parts generalizing k seen used j with
  | nil => simp at hj
  | cons p ps ih =>
    cases j with
    | zero =>
      simp only [List.getElem?_cons_zero, Option.some.injEq] at hj
      subst hj
      simp only [loadParts, List.take_zero, stateAfter, Nat.add_zero]
      cases hl : loadSheet shared k used (!seen.contains x.member) x with
      | none =>
        have hn := (loadSheet_none_iff shared k used _ x).mp hl
        simp only
        constructor
        · rintro ⟨s, hs, hi⟩
          obtain ⟨hk, _⟩ := open_sheet_origin shared ps (k + 1) _ used s hs
          omega
        · intro h; exact absurd h hn
      | some s0 =>
        have hf : fits used (!seen.contains x.member) x := (loadSheet_isSome_iff shared k used _ x).mp ⟨s0, hl⟩
        simp only
        constructor
        · intro _; exact hf
        · intro _; exact ⟨s0, by simp, (loadSheet_some hl).2.1⟩
    | succ j =>
      simp only [List.getElem?_cons_succ] at hj
      have step : ∀ (seen' : List Str) (used' : Nat) (tail : List Wb.Sheet) (pre : List Wb.Sheet),
          (∀ s ∈ pre, s.index = k) → tail = loadParts shared ps (k + 1) seen' used' →
          ((∃ s ∈ pre ++ tail, s.index = k + (j + 1)) ↔
            fits (stateAfter (ps.take j) seen' used').2 (!(stateAfter (ps.take j) seen' used').1.contains x.member) x) := by
        intro seen' used' tail pre hpre ht
        rw [← ih (k + 1) seen' used' j hj, ht]
        constructor
        · rintro ⟨s, hs, hi⟩
          rcases List.mem_append.mp hs with hs | hs
          · have := hpre s hs; omega
          · exact ⟨s, hs, by omega⟩
        · rintro ⟨s, hs, hi⟩
          exact ⟨s, List.mem_append.mpr (Or.inr hs), by omega⟩
      cases p with
      | none =>
        simp only [loadParts, List.take_succ_cons, stateAfter]
        have := step seen used _ [] (by simp) rfl
        simpa using this
      | some x0 =>
        simp only [loadParts, List.take_succ_cons, stateAfter]
        cases hl : loadSheet shared k used (!seen.contains x0.member) x0 with
        | none =>
          have hn := (loadSheet_none_iff shared k used _ x0).mp hl
          simp only [hn, if_false]
          have := step (x0.member :: seen) used _ [] (by simp) rfl
          simpa using this
        | some s0 =>
          have hf : fits used (!seen.contains x0.member) x0 := (loadSheet_isSome_iff shared k used _ x0).mp ⟨s0, hl⟩
          simp only [hf, if_true]
          have := step (x0.member :: seen) (used + charge (!seen.contains x0.member) x0) _ [s0] (by
            intro s hs; simp only [List.mem_singleton] at hs; rw [hs]; exact (loadSheet_some hl).2.1) rfl
          simpa using this

/-- **which parts become sheets** (the `load_fails_iff` of the shared budget, from the file
only): the part in position `j` of the workbook is a sheet of the reader exactly if its grid is at
most what the earlier entries left of `maxGridCells` plus its allowance — 16 cells per `<c>`
element if no earlier entry named the same member, nothing otherwise.  Restated after the fix "a
worksheet grid may grow with the cells its part brings" (before: `gridSize x + used ≤ maxGridCells`). -/
theorem part_loads_iff (sis : List SI) (parts : List (Option SheetXML)) (j : Nat) (x : SheetXML)
    (hj : parts[j]? = some (some x)) :
    (∃ s ∈ loadParts (parseSharedStrings sis) parts 0 [] 0, s.index = j) ↔
      gridSize x ≤ maxGridCells - (stateAfter (parts.take j) [] 0).2 +
        allowance (!(stateAfter (parts.take j) [] 0).1.contains x.member) x := by
  have := loadParts_at (parseSharedStrings sis) parts 0 [] 0 j x hj
  simpa [fits] using this

/-- **a member named by several entries brings its cells once**: an entry whose member an earlier
present entry already named gets no allowance — it loads exactly if its whole grid fits what is
left of `maxGridCells` -/
theorem alias_loads_iff (sis : List SI) (parts : List (Option SheetXML)) (j : Nat) (x y : SheetXML)
    (hj : parts[j]? = some (some x)) (hy : some y ∈ parts.take j) (hm : y.member = x.member) :
    (∃ s ∈ loadParts (parseSharedStrings sis) parts 0 [] 0, s.index = j) ↔
      gridSize x ≤ maxGridCells - (stateAfter (parts.take j) [] 0).2 := by
  rw [part_loads_iff sis parts j x hj]
  have hs := member_seen (parts.take j) [] 0 y hy
  rw [hm] at hs
  simp [hs, allowance]

/-- counted once also in the sum: `k+1` entries naming one member have the elements of one -/
theorem repeated_member_once (x : SheetXML) (k : Nat) :
    distinctElements (List.replicate (k + 1) (some x)) [] = elements x := by
  rw [distinctElements_replicate]; rfl

/-- **bounded allocation (memory in proportion to the file)**: the grids of all sheets of an
opened workbook have at most `maxGridCells` cells plus 16 for every `<c>` element of the distinct
members that were loaded as fresh parts (`grantedElements`), a fortiori of the distinct members
present (`distinctElements`: each member counted once, however many entries name it).  Restated
after the fix (before: at most `maxGridCells`). -/
theorem workbook_cells_bounded (sis : List SI) (parts : List (Option SheetXML)) (r : Reader)
    (h : openWorkbook sis parts = some r) :
    (r.sheets.map sheetCells).sum ≤ maxGridCells + gridCellsPerElement * grantedElements parts [] 0 ∧
    (r.sheets.map sheetCells).sum ≤ maxGridCells + gridCellsPerElement * distinctElements parts [] := by
  unfold openWorkbook at h
  simp only at h
  split at h
  · cases h
  · simp only [Option.some.injEq] at h
    subst h
    have h1 := loadParts_cells_le (parseSharedStrings sis) parts 0 [] 0
    have h2 := stateAfter_le parts [] 0 (Nat.zero_le _)
    have h3 := Nat.mul_le_mul_left gridCellsPerElement (grantedElements_le parts [] 0)
    simp only
    omega

/-- what all present parts would take out of the budget: the excess of every grid over the
allowance of its part -/
def demand : List (Option SheetXML) → List Str → Nat
  | [], _ => 0
  | none :: ps, seen => demand ps seen
  | some x :: ps, seen => charge (!seen.contains x.member) x + demand ps (x.member :: seen)

theorem stateAfter_of_fit (parts : List (Option SheetXML)) (seen : List Str) (u : Nat)
    (hu : u ≤ maxGridCells) (h : u + demand parts seen ≤ maxGridCells) :
    (stateAfter parts seen u).2 = u + demand parts seen := by
  induction parts generalizing seen u with
  | nil => rfl
  | cons p ps ih =>
    cases p with
    | none => exact ih seen u hu h
    | some x =>
      simp only [demand] at h
      simp only [stateAfter, demand]
      have hf : fits u (!seen.contains x.member) x := by
        unfold fits; unfold charge at h; omega
      simp only [hf, if_true]
      rw [ih _ _ (by omega) (by omega)]; omega

theorem stateAfter_take_seen (parts : List (Option SheetXML)) (seen : List Str) (u u' : Nat) :
    (stateAfter parts seen u).1 = (stateAfter parts seen u').1 := by
  induction parts generalizing seen u u' with
  | nil => rfl
  | cons p ps ih =>
    cases p with
    | none => exact ih _ _ _
    | some x => simp only [stateAfter]; exact ih _ _ _

theorem demand_take_le (parts : List (Option SheetXML)) (seen : List Str) (j : Nat) (x : SheetXML)
    (hj : parts[j]? = some (some x)) :
    demand (parts.take j) seen + charge (!(stateAfter (parts.take j) seen 0).1.contains x.member) x ≤
      demand parts seen := by
  induction parts generalizing seen j with
  | nil => simp at hj
  | cons p ps ih =>
    cases j with
    | zero =>
      simp only [List.getElem?_cons_zero, Option.some.injEq] at hj
      subst hj
      simp [demand, stateAfter]
    | succ j =>
      simp only [List.getElem?_cons_succ] at hj
      cases p with
      | none =>
        simp only [List.take_succ_cons, demand, stateAfter]
        exact ih seen j hj
      | some y =>
        simp only [List.take_succ_cons, demand, stateAfter]
        have := ih (y.member :: seen) j hj
        rw [stateAfter_take_seen _ _ _ 0]
        omega

/-- **workbooks that fit**: if the excesses of all present parts over their allowances fit
`maxGridCells` together, every present part becomes a sheet -/
theorem all_parts_load_of_fit (sis : List SI) (parts : List (Option SheetXML))
    (hfit : demand parts [] ≤ maxGridCells) (j : Nat) (x : SheetXML) (hj : parts[j]? = some (some x)) :
    ∃ s ∈ loadParts (parseSharedStrings sis) parts 0 [] 0, s.index = j := by
  rw [part_loads_iff sis parts j x hj]
  have h1 := demand_take_le parts [] j x hj
  have h2 := stateAfter_of_fit (parts.take j) [] 0 (Nat.zero_le _) (by omega)
  rw [h2]
  generalize (stateAfter (parts.take j) [] 0).1.contains x.member = b at h1 ⊢
  unfold charge at h1
  omega

/-- the cells all present parts have -/
def totalGrid : List (Option SheetXML) → Nat
  | [] => 0
  | none :: ps => totalGrid ps
  | some x :: ps => gridSize x + totalGrid ps

theorem demand_le_totalGrid (parts : List (Option SheetXML)) (seen : List Str) :
    demand parts seen ≤ totalGrid parts := by
  induction parts generalizing seen with
  | nil => exact Nat.le_refl _
  | cons p ps ih =>
    cases p with
    | none => exact ih seen
    | some x =>
      simp only [demand, totalGrid]
      have := ih (x.member :: seen)
      unfold charge; omega

/-- **valid workbooks as before all the fixes**: if the grids of all present parts have at most
`maxGridCells` cells together, every present part becomes a sheet -/
theorem all_parts_load_of_small (sis : List SI) (parts : List (Option SheetXML))
    (hfit : totalGrid parts ≤ maxGridCells) (j : Nat) (x : SheetXML) (hj : parts[j]? = some (some x)) :
    ∃ s ∈ loadParts (parseSharedStrings sis) parts 0 [] 0, s.index = j :=
  all_parts_load_of_fit sis parts (Nat.le_trans (demand_le_totalGrid parts []) hfit) j x hj

/-- non-vacuity, at the limit from both sides.  `x`: one `<c>` element (A1) in a `<row>` numbered
4194312 — a grid of 4 Mi + 8 cells, allowance 16, excess 4 Mi - 8; `y`: the same under another
member.  Two distinct members: the excesses are 8 Mi - 16 together, both load, and a third
distinct one would not.  The same member twice: the second entry has no allowance, needs
4 Mi + 8 of the 4 Mi + 8 that are left and loads — a third entry does not. -/
example :
    let x : SheetXML := ⟨[83], [⟨4194312, [⟨[65, 49], tStr, [120], [], none⟩]⟩], [], [109]⟩
    let y : SheetXML := { x with member := [110] }
    let z : SheetXML := { x with member := [111] }
    gridSize x = 4194312 ∧ elements x = 1 ∧ charge true x = 4194296 ∧
      demand [some x, some y] [] ≤ maxGridCells ∧ demand [some x, some y, some z] [] > maxGridCells ∧
      (stateAfter [some x, some y] [] 0).2 = 8388592 ∧
      ¬ fits (stateAfter [some x, some y] [] 0).2 true z ∧
      (stateAfter [some x, some x] [] 0).2 = maxGridCells ∧
      fits (stateAfter [some x] [] 0).2 false x ∧ ¬ fits (stateAfter [some x, some x] [] 0).2 false x ∧
      distinctElements [some x, some x, some x] [] = 1 ∧ distinctElements [some x, some y, some z] [] = 3 := by
  decide

end Tabula.C17B
