import TabulaModel.Props.C15
import TabulaModel.Lemmas.MarkdownXlsx
/-!
# C15 — XLSX: the sheet table that `Reader.Markdown*` writes

`xlsx.(*Reader).markdown` does not call `ParsedTable.ToMarkdown`: it writes the used range of
each sheet inline.  These theorems show that the inline writer *is* the table writer on the grid
the content bounds cut out (`xTable_eq_render`), so the pipe-table round trip carries over; that
`findContentBounds` loses no cell (every non-empty, visible cell lies inside the bounds) and that
such a cell is read back at its own grid position.
-/
namespace Tabula.C15Xlsx
open Tabula.A1 (Str)
open Tabula.Markdown Tabula.MarkdownDoc

/-- no cell value of the sheet contains a backslash -/
def NoBackslashX (rows : List (List XCell)) : Prop := ∀ row ∈ rows, ∀ cell ∈ row, 92 ∉ cell.value

theorem xVal_noBs (rows : List (List XCell)) (h : NoBackslashX rows) (r c : Nat) : 92 ∉ xVal rows r c := by
  unfold xVal
  cases h1 : rows[r]? with
  | none => simp
  | some row =>
    simp only
    cases h2 : row[c]? with
    | none => simp
    | some cell =>
      simp only
      split
      · exact h row (List.mem_of_getElem? h1) cell (List.mem_of_getElem? h2)
      · simp

/-- the bounds are not empty (what `markdown` tests before it writes a table) -/
def Bounds.nonEmpty (b : Bounds) : Prop := b.minRow ≤ b.maxRow ∧ b.minCol ≤ b.maxCol

/-- **table_roundtrip for the inline sheet writer**: the table written for any bounds with
`minCol ≤ maxCol` reads back, for a GFM reader, as the grid of the bounds — rows
`minRow..maxRow` × columns `minCol..maxCol` of the sheet, each position showing the normalised
value of its cell (nothing for an absent cell or one covered by a merged region). -/
theorem xlsx_sheet_table_roundtrip (rows : List (List XCell)) (b : Bounds) (hc : b.minCol ≤ b.maxCol)
    (hbs : NoBackslashX rows) :
    gfmTable (xTable rows b) = some ((xGrid rows b).map (List.map fun c => trim (nlToSpace c))) := by
  rw [xTable_eq_render]
  have hn : 1 ≤ (b.maxCol - b.minCol + 1).toNat := by omega
  apply Tabula.C15.table_roundtrip_xlsx (b.maxCol - b.minCol + 1).toNat hn
  · simp [xGrid]
  · intro r hr
    simp only [xGrid, List.mem_map, List.mem_range] at hr
    obtain ⟨i, _, rfl⟩ := hr
    simp [xRowVals]
  · intro r hr c hcm
    simp only [xGrid, List.mem_map, List.mem_range] at hr
    obtain ⟨i, _, rfl⟩ := hr
    simp only [xRowVals, List.mem_map, List.mem_range] at hcm
    obtain ⟨k, _, rfl⟩ := hcm
    exact xVal_noBs rows hbs _ _

/-- the same for cell values of ANY bytes, backslashes included (`normCell .xlsx c` is
`trim (nlToSpace c)`) -/
theorem xlsx_sheet_table_roundtrip_any (rows : List (List XCell)) (b : Bounds) (hc : b.minCol ≤ b.maxCol) :
    gfmTable (xTable rows b) = some ((xGrid rows b).map (List.map (normCell .xlsx))) := by
  rw [xTable_eq_render]
  have hn : 1 ≤ (b.maxCol - b.minCol + 1).toNat := by omega
  apply Tabula.C15.table_roundtrip_any .xlsx (b.maxCol - b.minCol + 1).toNat hn
  · simp [xGrid]
  · intro r hr
    simp only [xGrid, List.mem_map, List.mem_range] at hr
    obtain ⟨i, _, rfl⟩ := hr
    simp [xRowVals]

/-- every line of the inline table has the header's number of cells -/
theorem xlsx_sheet_rows_rectangular (rows : List (List XCell)) (b : Bounds) :
    ∀ r ∈ xGrid rows b, r.length = (b.maxCol - b.minCol + 1).toNat := by
  intro r hr
  simp only [xGrid, List.mem_map, List.mem_range] at hr
  obtain ⟨i, _, rfl⟩ := hr
  simp [xRowVals]

/-- **no cell is lost by `findContentBounds`**: every cell that has a value and is not covered by
a merged region lies inside the bounds -/
theorem xlsx_bounds_cover_content (s : XSheet) (i j : Nat) (row : List XCell) (cell : XCell)
    (hi : s.rows[i]? = some row) (hj : row[j]? = some cell) (hc : cell.content = true) :
    (findContentBounds s).covers i j := by
  have := boundsRows_covers s.rows 0
    { minRow := s.rows.length, maxRow := -1, minCol := s.maxCol + 1, maxCol := -1 } i j row cell hi hj hc
  simpa [findContentBounds] using this

/-- a sheet with a content cell has non-empty bounds -/
theorem xlsx_bounds_nonEmpty (s : XSheet) (i j : Nat) (row : List XCell) (cell : XCell)
    (hi : s.rows[i]? = some row) (hj : row[j]? = some cell) (hc : cell.content = true) :
    Bounds.nonEmpty (findContentBounds s) := by
  have h := xlsx_bounds_cover_content s i j row cell hi hj hc
  unfold Bounds.covers at h
  exact ⟨by omega, by omega⟩

theorem boundsRows_nonneg (rows : List (List XCell)) : ∀ (r : Int) (b : Bounds), 0 ≤ r →
    0 ≤ b.minRow → 0 ≤ b.minCol →
    0 ≤ (boundsRows r b rows).minRow ∧ 0 ≤ (boundsRows r b rows).minCol := by
  have hcell : ∀ (r c : Int) (b : Bounds) (cell : XCell), 0 ≤ r → 0 ≤ c → 0 ≤ b.minRow → 0 ≤ b.minCol →
      0 ≤ (boundsCell r c b cell).minRow ∧ 0 ≤ (boundsCell r c b cell).minCol := by
    intro r c b cell hr hc h1 h2
    unfold boundsCell
    split
    · simp only
      constructor <;> split <;> omega
    · exact ⟨h1, h2⟩
  have hrow : ∀ (cells : List XCell) (r c : Int) (b : Bounds), 0 ≤ r → 0 ≤ c → 0 ≤ b.minRow → 0 ≤ b.minCol →
      0 ≤ (boundsRow r c b cells).minRow ∧ 0 ≤ (boundsRow r c b cells).minCol := by
    intro cells
    induction cells with
    | nil => intro r c b _ _ h1 h2; exact ⟨h1, h2⟩
    | cons x rest ih =>
      intro r c b hr hc h1 h2
      obtain ⟨g1, g2⟩ := hcell r c b x hr hc h1 h2
      exact ih r (c + 1) _ hr (by omega) g1 g2
  induction rows with
  | nil => intro r b _ h1 h2; exact ⟨h1, h2⟩
  | cons row rest ih =>
    intro r b hr h1 h2
    obtain ⟨g1, g2⟩ := hrow row r 0 b hr (by omega) h1 h2
    exact ih (r + 1) _ (by omega) g1 g2

/-- the bounds start at non-negative indices (for a sheet whose `MaxCol` is at least −1, as the
parser sets it) -/
theorem xlsx_bounds_nonneg (s : XSheet) (hm : -1 ≤ s.maxCol) :
    0 ≤ (findContentBounds s).minRow ∧ 0 ≤ (findContentBounds s).minCol := by
  unfold findContentBounds
  exact boundsRows_nonneg s.rows 0 _ (by omega) (by simp) (by simp; omega)

/-- **no body text lost, cell by cell**: a cell with a value that is not covered by a merged
region is in the grid that is written, at its own position relative to the bounds, with its
value -/
theorem xlsx_content_in_grid (s : XSheet) (hm : -1 ≤ s.maxCol) (i j : Nat) (row : List XCell) (cell : XCell)
    (hi : s.rows[i]? = some row) (hj : row[j]? = some cell) (hc : cell.content = true) :
    ∃ gr, (xGrid s.rows (findContentBounds s))[i - (findContentBounds s).minRow.toNat]? = some gr ∧
      gr[j - (findContentBounds s).minCol.toNat]? = some cell.value := by
  have hcov := xlsx_bounds_cover_content s i j row cell hi hj hc
  obtain ⟨n1, n2⟩ := xlsx_bounds_nonneg s hm
  unfold Bounds.covers at hcov
  generalize findContentBounds s = b at *
  obtain ⟨c1, c2, c3, c4⟩ := hcov
  have hshown : cell.shown = true := by
    have : (!cell.isEmpty && cell.shown) = true := hc
    simp only [Bool.and_eq_true] at this
    exact this.2
  refine ⟨xRowVals s.rows i b.minCol.toNat (b.maxCol - b.minCol + 1).toNat, ?_, ?_⟩
  · unfold xGrid
    rw [List.getElem?_map, List.getElem?_range (by omega)]
    simp only [Option.map_some]
    congr 2
    omega
  · unfold xRowVals
    rw [List.getElem?_map, List.getElem?_range (by omega)]
    simp only [Option.map_some]
    have e : b.minCol.toNat + (j - b.minCol.toNat) = j := by omega
    rw [e]
    simp [xVal, hi, hj, hshown]

example : findContentBounds { name := [83], rows := [[{}, {}], [{}, { value := [120] }, { value := [121] }]], maxCol := 2 }
    = { minRow := 1, maxRow := 1, minCol := 1, maxCol := 2 } := by decide

example : gfmTable (xTable [[{}, {}], [{}, { value := [120, 124] }, { value := [121] }]]
    { minRow := 1, maxRow := 1, minCol := 1, maxCol := 2 }) = some [[[120, 124], [121]]] := by decide

end Tabula.C15Xlsx
