import TabulaModel.Props.C15
import TabulaModel.Lemmas.MarkdownHtml
import TabulaModel.Lemmas.MarkdownRag
/-!
# C15 — the Markdown writer of the PDF pipeline (rag chunks)

`createListChunk` (the list emitter named in the property's anchors) and the heading of a chunk.
-/
namespace Tabula.C15Rag
open Tabula.A1 (Str dec decInt)
open Tabula.Markdown Tabula.MarkdownDoc

/-! ## `createListChunk` -/

/-- the lines the item loop writes (each is followed by `\n` in `ragListItems`) -/
def ragListLines (ordered : Bool) : List (Int × Str) → Ctr → Int → List Str
  | [], _, _ => []
  | (lvl, txt) :: rest, ctrs, last =>
    let ctrs := if lvl ≤ last then ctrs.filter (fun e => !(decide (e.1 > lvl))) else ctrs
    if ordered then
      let n := ctrGet ctrs lvl + 1
      (indent2 lvl ++ decInt n ++ [46, 32] ++ txt) :: ragListLines ordered rest (ctrSet ctrs lvl n) lvl
    else
      (indent2 lvl ++ [45, 32] ++ txt) :: ragListLines ordered rest ctrs lvl

theorem ragListItems_lines (ordered : Bool) (items : List (Int × Str)) :
    ∀ (ctrs : Ctr) (last : Int),
      ragListItems ordered items ctrs last = joinLines (ragListLines ordered items ctrs last) := by
  induction items with
  | nil => intro _ _; rfl
  | cons it rest ih =>
    intro ctrs last
    obtain ⟨lvl, txt⟩ := it
    cases ordered with
    | false => simp [ragListItems, ragListLines, joinLines_cons, ih]
    | true => simp [ragListItems, ragListLines, joinLines_cons, ih]

/-- every line `createListChunk` writes is a list item line whose depth is the item's level
(negative levels count as 0), whose kind is the list's kind and whose text is the item's text —
for any levels in any order, any number of items, from any state of the level counters.  (The
lines as the loop writes them; `rag_list_roundtrip` is the statement on the chunk text.) -/
theorem rag_list_lines_roundtrip (ordered : Bool) (items : List (Int × Str)) :
    ∀ (ctrs : Ctr) (last : Int), ctrNN ctrs →
      (ragListLines ordered items ctrs last).map parseListLine
        = items.map fun it => some (it.1.toNat, ordered, it.2) := by
  induction items with
  | nil => intro _ _ _; rfl
  | cons it rest ih =>
    intro ctrs last hnn
    obtain ⟨lvl, txt⟩ := it
    have hf : ctrNN (if lvl ≤ last then ctrs.filter (fun e => !(decide (e.1 > lvl))) else ctrs) := by
      split
      · exact ctrNN_filter _ _ hnn
      · exact hnn
    generalize hc : (if lvl ≤ last then ctrs.filter (fun e => !(decide (e.1 > lvl))) else ctrs) = c1 at hf
    cases ordered with
    | false =>
      have e : ragListLines false ((lvl, txt) :: rest) ctrs last
          = (indent2 lvl ++ [45, 32] ++ txt) :: ragListLines false rest c1 lvl := by
        simp [ragListLines, hc]
      rw [e, List.map_cons, List.map_cons, ih c1 lvl hf]
      congr 1
      have := parseListLine_listLine ⟨lvl.toNat, false, 1, txt⟩
      simpa [listLine, indent2] using this
    | true =>
      have h3 := ctrGet_nonneg c1 lvl hf
      have e : ragListLines true ((lvl, txt) :: rest) ctrs last
          = (indent2 lvl ++ decInt (ctrGet c1 lvl + 1) ++ [46, 32] ++ txt)
              :: ragListLines true rest (ctrSet c1 lvl (ctrGet c1 lvl + 1)) lvl := by
        simp [ragListLines, hc]
      rw [e, List.map_cons, List.map_cons, ih _ lvl (ctrNN_set _ _ _ hf (by omega))]
      congr 1
      rw [decInt_nonneg _ (by omega)]
      have := parseListLine_listLine ⟨lvl.toNat, true, (ctrGet c1 lvl + 1).toNat, txt⟩
      simpa [listLine, indent2] using this

/-- the written lines of a whole list (counters empty, no item before) -/
theorem rag_list_written_lines_roundtrip (ordered : Bool) (items : List (Int × Str)) :
    (ragListLines ordered items [] (-1)).map parseListLine
      = items.map fun it => some (it.1.toNat, ordered, it.2) :=
  rag_list_lines_roundtrip ordered items [] (-1) (by intro e he; simp at he)

example : (ragListLines true [(0, [97]), (1, [98]), (1, [99]), (0, [100])] [] (-1)).map parseListLine
    = [some (0, true, [97]), some (1, true, [98]), some (1, true, [99]), some (0, true, [100])] :=
  rag_list_written_lines_roundtrip _ _

/-- a written line holds no newline when the item texts hold none -/
theorem ragListLines_noNl (ordered : Bool) (items : List (Int × Str)) (h : ∀ it ∈ items, 10 ∉ it.2) :
    ∀ (ctrs : Ctr) (last : Int), ∀ l ∈ ragListLines ordered items ctrs last, 10 ∉ l := by
  induction items with
  | nil => intro _ _ l hl; simp [ragListLines] at hl
  | cons it rest ih =>
    intro ctrs last l hl
    obtain ⟨lvl, txt⟩ := it
    have ht : 10 ∉ txt := h (lvl, txt) (by simp)
    have hr : ∀ it ∈ rest, 10 ∉ it.2 := fun it hit => h it (List.mem_cons_of_mem _ hit)
    have hi := indent2_noNl lvl
    cases ordered with
    | false =>
      simp only [ragListLines, Bool.false_eq_true, if_false, List.mem_cons] at hl
      rcases hl with rfl | hl
      · simp [hi, ht]
      · exact ih hr _ _ l hl
    | true =>
      simp only [ragListLines, if_true, List.mem_cons] at hl
      rcases hl with rfl | hl
      · have hd := decInt_noNl (ctrGet (if lvl ≤ last then ctrs.filter (fun e => !(decide (e.1 > lvl))) else ctrs) lvl + 1)
        simp [hi, ht, hd]
      · exact ih hr _ _ l hl

/-- the line of the last item ends with that item's text -/
theorem ragListLines_snoc (ordered : Bool) (items : List (Int × Str)) (lastIt : Int × Str) :
    ∀ (ctrs : Ctr) (last : Int), ∃ (L : List Str) (pre : Str),
      ragListLines ordered (items ++ [lastIt]) ctrs last = L ++ [pre ++ lastIt.2] := by
  induction items with
  | nil =>
    intro ctrs last
    obtain ⟨lvl, txt⟩ := lastIt
    cases ordered with
    | false => exact ⟨[], indent2 lvl ++ [45, 32], by simp [ragListLines]⟩
    | true =>
      exact ⟨[], indent2 lvl ++ decInt (ctrGet (if lvl ≤ last then ctrs.filter (fun e => !(decide (e.1 > lvl))) else ctrs) lvl + 1)
        ++ [46, 32], by simp [ragListLines]⟩
  | cons it rest ih =>
    intro ctrs last
    obtain ⟨lvl, txt⟩ := it
    cases ordered with
    | false =>
      obtain ⟨L, pre, h⟩ := ih (if lvl ≤ last then ctrs.filter (fun e => !(decide (e.1 > lvl))) else ctrs) lvl
      exact ⟨(indent2 lvl ++ [45, 32] ++ txt) :: L, pre, by simp [ragListLines, h]⟩
    | true =>
      obtain ⟨L, pre, h⟩ := ih (ctrSet (if lvl ≤ last then ctrs.filter (fun e => !(decide (e.1 > lvl))) else ctrs) lvl
        (ctrGet (if lvl ≤ last then ctrs.filter (fun e => !(decide (e.1 > lvl))) else ctrs) lvl + 1)) lvl
      exact ⟨(indent2 lvl ++ decInt (ctrGet (if lvl ≤ last then ctrs.filter (fun e => !(decide (e.1 > lvl))) else ctrs) lvl + 1)
        ++ [46, 32] ++ txt) :: L, pre, by simp [ragListLines, h]⟩

/-- **list_roundtrip for the chunk writer, on the chunk text** (full statement since efed37d):
the text of the chunk `createListChunk` builds — the item lines, trailing white space trimmed —
read line by line gives back every item of the list, in order, with its nesting depth (the
item's level, negative levels count as 0), the list's kind and its text: for any levels in any
order, in particular for a list whose FIRST item is nested.  Hypotheses: item texts are single
lines, and the last item's text ends in a byte that is not white space (the trailing trim would
shorten it; an empty last text leaves `-` without the blank a list marker needs). -/
theorem rag_list_roundtrip (ordered : Bool) (items : List (Int × Str)) (lastIt : Int × Str) (c : Nat)
    (hnl : ∀ it ∈ items ++ [lastIt], 10 ∉ it.2)
    (hend : lastIt.2.getLast? = some c) (hws : isWs c = false) :
    (splitLines (ragListText ordered (items ++ [lastIt]))).map parseListLine
      = (items ++ [lastIt]).map fun it => some (it.1.toNat, ordered, it.2) := by
  have hlines := ragListLines_noNl ordered (items ++ [lastIt]) hnl [] (-1)
  obtain ⟨L, pre, hs⟩ := ragListLines_snoc ordered items lastIt [] (-1)
  have hlast : (pre ++ lastIt.2).getLast? = some c := by
    rw [List.getLast?_append, hend]; rfl
  unfold ragListText
  rw [ragListItems_lines, hs,
    splitLines_trimRight_joinLines L (pre ++ lastIt.2) c (by rw [← hs]; exact hlines) hlast hws, ← hs]
  exact rag_list_written_lines_roundtrip ordered (items ++ [lastIt])

/-- the witness of the former finding: first item nested, then a top-level item -/
example : (splitLines (ragListText false ([(1, [97])] ++ [(0, [98])]))).map parseListLine
    = [some (1, false, [97]), some (0, false, [98])] :=
  rag_list_roundtrip false [(1, [97])] (0, [98]) 98 (by decide) rfl (by decide)

/-- the chunk text of that list, byte by byte: `  - a\n- b` -/
example : ragListText false [(1, [97]), (0, [98])] = [32, 32, 45, 32, 97, 10, 45, 32, 98] := by decide

/-- the pinned behaviour (finding `C15/list-depth-ragdoc-first-item-nested`, repaired by
efed37d): the chunk text was `strings.TrimSpace` of the lines (`ragListTextPinned`), so a FIRST
item that is nested lost its indentation — the list `[a at depth 1, b at depth 0]` read back with
`a` at depth 0. -/
theorem rag_list_first_nested_pinned_counterexample :
    ragListTextPinned false [(1, [97]), (0, [98])] = [45, 32, 97, 10, 45, 32, 98] ∧
    (splitLines (ragListTextPinned false [(1, [97]), (0, [98])])).map parseListLine
      ≠ [some (1, false, [97]), some (0, false, [98])] := by decide

/-! ## the heading of a chunk -/

/-- the heading line of a chunk with a section title: an ATX heading of level
`headingLevelRag` (in 1..6 for all integers, `heading_level_rag_range`) with the title as text -/
theorem rag_chunk_heading_roundtrip (level offset max : Int) (title : Str) :
    parseAtx (atxLine (headingLevelRag level offset max).toNat title)
      = some ((headingLevelRag level offset max).toNat, title) := by
  have h := Tabula.C15.heading_level_rag_range level offset max
  exact Tabula.C15.atx_roundtrip _ _ (by omega) (by omega)

/-- a heading chunk (text = section title) written on its own, without chunk id and page
reference: the whole output is the heading line and reads back as that one heading -/
theorem rag_heading_chunk_read (o : MdOpts) (c : RChunk) (hid : o.ids = false) (hpg : o.pages = false)
    (ht : c.sectionTitle ≠ []) (htext : c.text = c.sectionTitle) (hnl : 10 ∉ c.sectionTitle)
    (htoc : ¬ ((headingLevelRag c.headingLevel o.offset o.max).toNat = 2 ∧ c.sectionTitle = tocText)) :
    readMd (chunkMd o c)
      = { headings := [((headingLevelRag c.headingLevel o.offset o.max).toNat, c.sectionTitle)],
          items := [], tables := [], paras := [] } := by
  have hr := Tabula.C15.heading_level_rag_range c.headingLevel o.offset o.max
  have h1 : 1 ≤ (headingLevelRag c.headingLevel o.offset o.max).toNat := by omega
  have hemp : c.sectionTitle.isEmpty = false := by
    cases hs : c.sectionTitle with
    | nil => exact absurd hs ht
    | cons a b => rfl
  have e : chunkMd o c = joinLines [atxLine (headingLevelRag c.headingLevel o.offset o.max).toNat c.sectionTitle, []] := by
    simp [chunkMd, chunkIdComment, chunkPageRef, hid, hpg, hemp, htext, joinLines]
  rw [e, readMd_joinLines _ (by
    intro l hl
    simp only [List.mem_cons, List.not_mem_nil, or_false] at hl
    rcases hl with rfl | rfl
    · exact atxLine_noNl _ _ hnl
    · simp)]
  rw [readLines_plain _ (by
      simp only [List.head?_cons, ne_eq, Option.some.injEq]
      exact atxLine_ne_hr _ _ h1) (by
      intro hm
      simp only [List.mem_cons, List.not_mem_nil, or_false] at hm
      rcases hm with hm | hm
      · have := headingOf_atxLine (headingLevelRag c.headingLevel o.offset o.max).toNat c.sectionTitle h1
        rw [← hm, headingOf_tocTitle] at this
        simp only [Option.some.injEq, Prod.mk.injEq] at this
        exact htoc ⟨this.1.symm, this.2.symm⟩
      · revert hm; decide)]
  have hp := isPipeLine_atxLine (headingLevelRag c.headingLevel o.offset o.max).toNat c.sectionTitle h1
  have hpb : pipeBlocks [atxLine (headingLevelRag c.headingLevel o.offset o.max).toNat c.sectionTitle, []] = [] := by
    have := pipeBlocksAux_nonpipe [atxLine (headingLevelRag c.headingLevel o.offset o.max).toNat c.sectionTitle, []] []
      (by
        intro l hl
        simp only [List.mem_cons, List.not_mem_nil, or_false] at hl
        rcases hl with rfl | rfl
        · exact hp
        · rfl)
    simpa [pipeBlocks, pipeBlocksAux] using this
  rw [hpb]
  simp [headingOf_atxLine _ _ h1, headingOf_nil, itemOf_atxLine _ _ h1, itemOf_nil, isPara_atxLine _ _ h1,
    isPara_nil]

/-! ## the chunk loop: a heading chunk is always written as a heading -/

/-- what precedes a chunk in the loop -/
def sepOf (o : MdOpts) (first : Bool) : Str := if first then [] else if o.seps then o.sectionSep else [10, 10]

/-- **a section heading stays a heading whatever came before it** (the repaired
`ToMarkdownWithOptions`, c1bb590): a chunk that is the heading of its section is written through
`Chunk.ToMarkdownWithOptions` — with its `#` line — for every current section, in particular when
the section before it has the same title. -/
theorem rag_heading_chunk_always_heading (o : MdOpts) (c : RChunk) (rest : List RChunk) (cur : Str) (first : Bool)
    (h : isSectionHeading c = true) :
    ∃ cur', ragChunks o (c :: rest) cur first = sepOf o first ++ chunkMd o c ++ ragChunks o rest cur' false := by
  unfold sepOf
  by_cases hnew : (!c.sectionTitle.isEmpty && c.sectionTitle != cur) = true
  · refine ⟨c.sectionTitle, ?_⟩
    conv => lhs; rw [ragChunks]
    simp only [hnew, if_true, List.append_assoc]
  · refine ⟨cur, ?_⟩
    have hnew' : (!c.sectionTitle.isEmpty && c.sectionTitle != cur) = false := by simpa using hnew
    conv => lhs; rw [ragChunks]
    simp only [hnew', Bool.false_eq_true, if_false, h, if_true, List.append_assoc]

/-- …and a chunk of running text inside the current section is written without a heading line -/
theorem rag_content_chunk_no_heading (o : MdOpts) (c : RChunk) (rest : List RChunk) (first : Bool)
    (hne : c.sectionTitle.isEmpty = false) (h : isSectionHeading c = false) :
    ragChunks o (c :: rest) c.sectionTitle first
      = sepOf o first ++ contentMd o c ++ ragChunks o rest c.sectionTitle false := by
  unfold sepOf
  conv => lhs; rw [ragChunks]
  simp [hne, h]

/-- the pinned loop decided by comparing titles only: a heading chunk with the title of the
current section was written as running text (no `#` line) -/
def ragChunkPinned (o : MdOpts) (c : RChunk) (cur : Str) : Str :=
  if !c.sectionTitle.isEmpty && c.sectionTitle != cur then chunkMd o c else contentMd o c

theorem rag_pinned_repeated_title_counterexample :
    ragChunkPinned {} { text := [85], sectionTitle := [85], headingLevel := 5, isSection := true,
                        elementTypes := [sHeading] } [85] = [85] ∧
    (ragChunks {} [{ text := [85], sectionTitle := [85], headingLevel := 5, isSection := true,
                     elementTypes := [sHeading] }] [85] true) = [35, 35, 35, 35, 35, 32, 85, 10, 10] := by
  decide

/-! ## the chunk collection, end to end -/

/-- **the PDF pipeline's writer is compositional**: for every chunk collection (any chunks, any
texts) rendered without chunk separators, what a Markdown reader finds in the body is the
concatenation, in chunk order, of what it finds in each chunk's own output — headings, list
items, tables and paragraph lines of one chunk never merge with those of the next. -/
theorem rag_collection_compositional (o : MdOpts) (hs : o.seps = false) (cs : List RChunk) (hne : cs ≠ []) :
    readRaw (splitLines (ragChunks o cs [] true)) = readOutputs (ragOutputs o cs []) :=
  ragChunks_read o hs cs [] hne

/-- a heading chunk's output (no chunk id, no page reference) is its heading and nothing else -/
theorem rag_heading_chunk_raw (o : MdOpts) (c : RChunk) (cur : Str) (hid : o.ids = false) (hpg : o.pages = false)
    (ht : c.sectionTitle ≠ []) (htext : c.text = c.sectionTitle) (hnl : 10 ∉ c.sectionTitle)
    (hw : writesHeading c cur = true) :
    readRaw (splitLines (chunkOut o c cur))
      = { headings := [((headingLevelRag c.headingLevel o.offset o.max).toNat, c.sectionTitle)],
          items := [], tables := [], paras := [] } := by
  have hr := Tabula.C15.heading_level_rag_range c.headingLevel o.offset o.max
  have h1 : 1 ≤ (headingLevelRag c.headingLevel o.offset o.max).toNat := by omega
  have hemp : c.sectionTitle.isEmpty = false := by
    cases hs : c.sectionTitle with
    | nil => exact absurd hs ht
    | cons a b => rfl
  have e : chunkOut o c cur
      = joinLines [atxLine (headingLevelRag c.headingLevel o.offset o.max).toNat c.sectionTitle, []] := by
    simp [chunkOut, hw, chunkMd, chunkIdComment, chunkPageRef, hid, hpg, hemp, htext, joinLines]
  rw [e, splitLines_joinLines _ (by
    intro l hl
    simp only [List.mem_cons, List.not_mem_nil, or_false] at hl
    rcases hl with rfl | rfl
    · exact atxLine_noNl _ _ hnl
    · simp)]
  have hp := isPipeLine_atxLine (headingLevelRag c.headingLevel o.offset o.max).toNat c.sectionTitle h1
  have hpb : pipeBlocks ([atxLine (headingLevelRag c.headingLevel o.offset o.max).toNat c.sectionTitle, []] ++ [[]]) = [] := by
    have := pipeBlocksAux_nonpipe
      ([atxLine (headingLevelRag c.headingLevel o.offset o.max).toNat c.sectionTitle, []] ++ [[]]) []
      (by
        intro l hl
        simp only [List.cons_append, List.nil_append, List.mem_cons, List.not_mem_nil, or_false] at hl
        rcases hl with rfl | rfl | rfl
        · exact hp
        · rfl
        · rfl)
    simpa [pipeBlocks, pipeBlocksAux] using this
  unfold readRaw
  rw [hpb]
  simp [headingOf_atxLine _ _ h1, headingOf_nil, itemOf_atxLine _ _ h1, itemOf_nil, isPara_atxLine _ _ h1,
    isPara_nil]

/-- a table chunk (its text is `model.Table.ToMarkdown`; written without heading, chunk id or page
reference) is one table, read back as the grid of normalised cell texts -/
theorem rag_table_chunk_raw (o : MdOpts) (c : RChunk) (cur : Str) (n : Nat) (hn : 1 ≤ n)
    (hdr : List Str) (rest : List (List Str))
    (hid : o.ids = false) (hpg : o.pages = false) (hw : writesHeading c cur = false)
    (htext : c.text = render .model (hdr :: rest))
    (hrect : Tabula.C15.Rect n (hdr :: rest)) (hbs : Tabula.C15.NoBackslash (hdr :: rest)) :
    readRaw (splitLines (chunkOut o c cur))
      = { headings := [], items := [],
          tables := [some ((hdr :: rest).map (List.map fun x => trim (nlToSpace x)))], paras := [] } := by
  have e : chunkOut o c cur = render .model (hdr :: rest) := by
    simp [chunkOut, hw, contentMd, chunkIdComment, chunkPageRef, hid, hpg, htext]
  have hne : ∀ r ∈ hdr :: rest, r ≠ [] := by
    intro r hr e'
    have := hrect r hr
    rw [e'] at this
    simp at this
    omega
  rw [e, readRaw_table .model hdr rest hne,
    Tabula.C15.table_roundtrip_model n hn (hdr :: rest) (by simp) hrect hbs]

/-- the same for cells of ANY bytes — a backslash in front of a pipe, at the end of a cell, doubled:
the table chunk of the PDF / RAG pipeline reads back as the grid of normalised cell texts -/
theorem rag_table_chunk_raw_any (o : MdOpts) (c : RChunk) (cur : Str) (n : Nat) (hn : 1 ≤ n)
    (hdr : List Str) (rest : List (List Str))
    (hid : o.ids = false) (hpg : o.pages = false) (hw : writesHeading c cur = false)
    (htext : c.text = render .model (hdr :: rest))
    (hrect : Tabula.C15.Rect n (hdr :: rest)) :
    readRaw (splitLines (chunkOut o c cur))
      = { headings := [], items := [],
          tables := [some ((hdr :: rest).map (List.map fun x => trim (nlToSpace x)))], paras := [] } := by
  have e : chunkOut o c cur = render .model (hdr :: rest) := by
    simp [chunkOut, hw, contentMd, chunkIdComment, chunkPageRef, hid, hpg, htext]
  have hne : ∀ r ∈ hdr :: rest, r ≠ [] := by
    intro r hr e'
    have := hrect r hr
    rw [e'] at this
    simp at this
    omega
  rw [e, readRaw_table .model hdr rest hne,
    Tabula.C15.table_roundtrip_model_any n hn (hdr :: rest) (by simp) hrect]

/-- a paragraph chunk of one plain line is that paragraph -/
theorem rag_para_chunk_raw (o : MdOpts) (c : RChunk) (cur : Str) (hid : o.ids = false) (hpg : o.pages = false)
    (hw : writesHeading c cur = false) (hnl : 10 ∉ c.text) (hplain : classify c.text = .para) :
    readRaw (splitLines (chunkOut o c cur)) = { headings := [], items := [], tables := [], paras := [c.text] } := by
  have e : chunkOut o c cur = c.text := by
    simp [chunkOut, hw, contentMd, chunkIdComment, chunkPageRef, hid, hpg]
  obtain ⟨hp1, hp2, hp3, hp4, _, _⟩ := classify_para_props c.text hplain
  rw [e, splitLines_noNl _ hnl]
  have hpb : pipeBlocks [c.text] = [] := by
    have := pipeBlocksAux_nonpipe [c.text] [] (by intro l hl; simp at hl; subst hl; exact hp4)
    simpa [pipeBlocks, pipeBlocksAux] using this
  unfold readRaw
  rw [hpb]
  simp [hp1, hp2, hp3]

/-- example: heading, paragraph under it, heading with the same title again — three outputs, the
second heading stays a heading -/
example : ragOutputs {} [{ text := [85], sectionTitle := [85], headingLevel := 2, isSection := true, elementTypes := [sHeading] },
                         { text := [120], sectionTitle := [85] },
                         { text := [85], sectionTitle := [85], headingLevel := 3, isSection := true, elementTypes := [sHeading] }] []
    = [[35, 35, 32, 85, 10, 10], [120], [35, 35, 35, 32, 85, 10, 10]] := by decide

end Tabula.C15Rag
