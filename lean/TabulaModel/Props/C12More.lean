import TabulaModel.Lemmas.C12MoreLemmas
import TabulaModel.Model.ChunkLayout
import TabulaModel.Props.C12
import TabulaModel.Props.C12Layout
import TabulaModel.Props.C12Query
/-!
# C12: laws of the section path and of the page loop (element-based chunker)

The other C12 files prove the clauses of the statement for one document at a time. Here are laws
that relate **two** documents or two heading histories, for every splitter (hence every size
configuration) and every section tracker:

* the section path: headings that were closed can be forgotten (`closed_headings_forgotten`,
  `open_spec_idempotent` — why a stack suffices), the stack the code keeps after any sequence of
  `pushSection` calls is the specification's chain (`stack_is_spec`), is strictly nested
  (`stack_strictly_nested`), and is never deeper than the level of the heading pushed last
  (`path_depth_le_level`, `path_depth_le_max`: h1..h6 give at most six entries, whatever levels are
  skipped);
* 0-element pages (named by the quantifier of C12) are neutral: removing one changes no chunk at all —
  text, index, id, total, pages, path (`empty_page_neutral`);
* locality of the page loop: the chunks made from the first pages of a document are the chunks of
  those pages alone, `TotalChunks` aside, when the later pages have other page numbers
  (`earlier_pages_stable`, `earlier_chunks_stable`); the table of contents is read per page number
  only (`toc_read_per_page`).
-/
namespace Tabula.C12More
open Tabula.Chunk

/-! ## the section path -/

/-- headings closed by a later heading play no part afterwards: the chain of enclosing headings
after `hs ++ ks` is the one after (open headings of `hs`) `++ ks` -/
theorem closed_headings_forgotten (hs ks : List H) :
    openSpec (hs ++ ks) = openSpec (openSpec hs ++ ks) :=
  openSpec_append_forget hs ks

theorem open_spec_idempotent (hs : List H) : openSpec (openSpec hs) = openSpec hs :=
  openSpec_of_pairwise _ (openSpec_pairwise hs)

example : openSpec [(1, [97]), (3, [98]), (2, [99])] = [(1, [97]), (2, [99])] := by decide

/-- a history of `push` calls on a tracker -/
def pushAll {σ} (tr : Tracker σ) (hs : List (Int × Str)) : σ :=
  hs.foldl (fun s h => tr.push s h.1 h.2) tr.init

theorem pushAll_snoc {σ} (tr : Tracker σ) (hs : List (Int × Str)) (h : Int × Str) :
    pushAll tr (hs ++ [h]) = tr.push (pushAll tr hs) h.1 h.2 := by
  simp [pushAll, List.foldl_append]

theorem pushAll_rel (hs : List (Int × Str)) :
    StackRel (pushAll stackTracker hs) (pushAll histTracker hs) := by
  unfold pushAll
  generalize hA : stackTracker.init = a
  generalize hB : histTracker.init = b
  have hab : StackRel a b := by rw [← hA, ← hB]; exact stack_sim.init
  clear hA hB
  induction hs generalizing a b with
  | nil => exact hab
  | cons h hs ih => exact ih _ _ (stack_sim.push a b h.1 h.2 hab)

theorem pushAll_hist (hs : List (Int × Str)) :
    pushAll histTracker hs = hs.map fun h => (h.1, trim h.2) := by
  suffices ∀ (a : List H), hs.foldl (fun s h => histTracker.push s h.1 h.2) a
      = a ++ hs.map fun h => (h.1, trim h.2) by
    simpa [pushAll, histTracker] using this []
  induction hs with
  | nil => intro a; simp
  | cons h hs ih =>
    intro a
    rw [List.foldl_cons, ih]
    simp [histTracker]

/-- the stack `pushSection` keeps, after ANY sequence of calls (any levels, skipped or not), read
outermost first, is the chain of enclosing headings of the specification -/
theorem stack_is_spec (hs : List (Int × Str)) :
    (pushAll stackTracker hs).reverse = openSpec (hs.map fun h => (h.1, trim h.2)) := by
  have := pushAll_rel hs
  unfold StackRel at this
  rw [this, pushAll_hist]

/-- the open headings are strictly nested: levels strictly increase from the outermost to the
innermost entry of the path -/
theorem stack_strictly_nested (hs : List (Int × Str)) :
    (pushAll stackTracker hs).reverse.Pairwise (fun a b => a.1 < b.1) := by
  rw [stack_is_spec]
  exact openSpec_pairwise _

/-- the section path is never deeper than the level of the heading pushed last (levels from 1) -/
theorem path_depth_le_level (hs : List (Int × Str)) (l : Int) (t : Str)
    (h1 : ∀ h ∈ hs, 1 ≤ h.1) (hl : 1 ≤ l) :
    (stackTracker.path (pushAll stackTracker (hs ++ [(l, t)]))).length ≤ l.toNat := by
  simp only [stackTracker, List.length_map]
  have e := stack_is_spec (hs ++ [(l, t)])
  simp only [stackTracker] at e
  have hmap : ((hs ++ [(l, t)]).map fun h => (h.1, trim h.2))
      = (hs.map fun h => (h.1, trim h.2)) ++ [(l, trim t)] := by simp
  rw [e, hmap, openSpec_snoc]
  have hp := openSpec_pairwise ((hs.map fun h => (h.1, trim h.2)) ++ [(l, trim t)])
  rw [openSpec_snoc] at hp
  have := pairwise_length_le _ 1 l hp
    (by
      intro x hx
      rw [List.mem_append] at hx
      rcases hx with hx | hx
      · have hx' := (List.mem_filter.mp hx).1
        have hx'' := (openSpec_sublist _).subset hx'
        rw [List.mem_map] at hx''
        obtain ⟨y, hy, rfl⟩ := hx''
        exact h1 y hy
      · rw [List.mem_singleton] at hx; rw [hx]; exact hl)
    (by
      intro x hx
      rw [List.mem_append] at hx
      rcases hx with hx | hx
      · have := (List.mem_filter.mp hx).2
        simp only [decide_eq_true_eq] at this
        omega
      · rw [List.mem_singleton] at hx; rw [hx]; exact Int.le_refl _)
  omega

example : (stackTracker.path (pushAll stackTracker [(1, [97]), (5, [98]), (2, [99])])).length = 2 := by
  decide

/-- levels between 1 and `m` (h1..h6: `m = 6`): at most `m` entries, whatever the order of levels -/
theorem path_depth_le_max (hs : List (Int × Str)) (m : Int)
    (h1 : ∀ h ∈ hs, 1 ≤ h.1 ∧ h.1 ≤ m) :
    (stackTracker.path (pushAll stackTracker hs)).length ≤ m.toNat := by
  simp only [stackTracker, List.length_map, List.length_reverse]
  have e := stack_is_spec hs
  simp only [stackTracker] at e
  rw [← List.length_reverse, e]
  have hmem : ∀ x ∈ openSpec (hs.map fun h => (h.1, trim h.2)), 1 ≤ x.1 ∧ x.1 ≤ m := by
    intro x hx
    have hx' := (openSpec_sublist _).subset hx
    rw [List.mem_map] at hx'
    obtain ⟨y, hy, rfl⟩ := hx'
    exact h1 y hy
  have := pairwise_length_le _ 1 m (openSpec_pairwise _) (fun x hx => (hmem x hx).1)
    (fun x hx => (hmem x hx).2)
  omega

example : ∀ h ∈ [((1 : Int), ([97] : Str)), (6, [98]), (3, [99])], 1 ≤ h.1 ∧ h.1 ≤ 6 := by decide

/-! ## 0-element pages -/

/-- a page without elements (and without layout headings of its own) is neutral: the document
with it and the document without it have the same chunks — every field, `TotalChunks` included —
for every tracker, splitter and position of the page -/
theorem empty_page_neutral {σ} (tr : Tracker σ) (sp : Splitter) (d1 d2 : Doc) (pg : Page)
    (he : pg.elems = []) (hl : pg.layout = none ∨ pg.layout = some []) :
    chunkDocumentWith tr sp (d1 ++ pg :: d2) = chunkDocumentWith tr sp (d1 ++ d2) := by
  have htoc : tableOfContents (d1 ++ pg :: d2) = tableOfContents (d1 ++ d2) := by
    have : tableOfContents [pg] = [] := by
      rcases hl with hl | hl <;> simp [tableOfContents, hl]
    rw [show d1 ++ pg :: d2 = d1 ++ ([pg] ++ d2) from rfl]
    simp only [tableOfContents_append, this, List.nil_append]
  unfold chunkDocumentWith pageGroups
  rw [htoc, chunkPages_append, chunkPages_append]
  have hb := stateAfter_block_nil tr sp (tableOfContents (d1 ++ d2)) (initSt tr) rfl d1
  simp only [chunkPages, chunkPage_empty tr sp _ _ hb pg he, List.flatten_append,
    List.flatten_cons, List.nil_append]

theorem empty_page_neutral_std (sp : Splitter) (d1 d2 : Doc) (pg : Page)
    (he : pg.elems = []) (hl : pg.layout = none ∨ pg.layout = some []) :
    chunkDocument sp (d1 ++ pg :: d2) = chunkDocument sp (d1 ++ d2) :=
  empty_page_neutral stackTracker sp d1 d2 pg he hl

example : chunkDocument (fun _ => none) [⟨1, none, [.para [97]]⟩, ⟨2, none, []⟩, ⟨3, none, [.para [98]]⟩]
    = chunkDocument (fun _ => none) [⟨1, none, [.para [97]]⟩, ⟨3, none, [.para [98]]⟩] := by decide +kernel

/-! ## locality of the page loop -/

/-- the table of contents is read per page number: entries of pages with another number do not
influence the chunks of a page -/
theorem toc_read_per_page {σ} (tr : Tracker σ) (sp : Splitter) (t1 t2 : List TOCEntry)
    (st : St σ) (pg : Page) (h : ∀ e ∈ t2, e.page ≠ pg.number) :
    chunkPage tr sp (t1 ++ t2) st pg = chunkPage tr sp t1 st pg :=
  chunkPage_toc tr sp _ _ st pg (tocAgree_append t1 t2 pg.number h)

/-- the groups of chunks of the first pages do not depend on what follows, as long as the later
pages carry other page numbers -/
theorem earlier_pages_stable {σ} (tr : Tracker σ) (sp : Splitter) (d1 d2 : Doc)
    (h : ∀ p ∈ d1, ∀ q ∈ d2, q.number ≠ p.number) :
    (pageGroups tr sp (d1 ++ d2)).take d1.length = pageGroups tr sp d1 := by
  unfold pageGroups
  rw [chunkPages_append, tableOfContents_append, List.take_left'
    (by rw [chunkPages_length])]
  apply chunkPages_toc
  intro pg hpg
  apply tocAgree_append
  intro e he
  obtain ⟨q, hq, hqe⟩ := tableOfContents_page d2 e he
  rw [← hqe]
  exact h pg hpg q hq

/-- the same for the chunks: the chunks of `d1 ++ d2` start with the chunks of `d1`, each with
the same index, id, text, section path and pages; only `TotalChunks` is the new total -/
theorem earlier_chunks_stable (sp : Splitter) (d1 d2 : Doc)
    (h : ∀ p ∈ d1, ∀ q ∈ d2, q.number ≠ p.number) :
    (chunkDocument sp (d1 ++ d2)).take (chunkDocument sp d1).length =
      (chunkDocument sp d1).map fun c => { c with total := (chunkDocument sp (d1 ++ d2)).length } := by
  have hg := earlier_pages_stable stackTracker sp d1 d2 h
  unfold chunkDocument chunkDocumentWith
  rw [setTotal_length, setTotal_length]
  generalize pageGroups stackTracker sp (d1 ++ d2) = G at hg ⊢
  have hG : G = pageGroups stackTracker sp d1 ++ G.drop d1.length := by
    rw [← hg, List.take_append_drop]
  generalize G.drop d1.length = B at hG
  subst hG
  simp only [List.flatten_append]
  generalize (pageGroups stackTracker sp d1).flatten = X
  generalize B.flatten = Y
  unfold setTotal
  rw [List.map_append, List.take_left' (by simp), List.map_map]
  rfl

example : ∀ p ∈ ([⟨1, none, [.para [97]]⟩] : Doc), ∀ q ∈ ([⟨2, none, [.para [98]]⟩] : Doc),
    q.number ≠ p.number := by decide

/-! ## `updateSectionPath` on every input and every history

`C12Api.update_history_partial` needs `NoSkip`. Without any hypothesis: -/

open Tabula.ChunkApi

/-- **closed form of one call, every input**: the new path is the old one without its last
`currentLevel - newLevel + 1` entries (none when that is negative), then the trimmed heading text;
the new current level is the heading's -/
theorem update_step_total (path : List Str) (cur lvl : Int) (text : Str) :
    updateSectionPath path cur lvl text =
      (path.take (path.length - (cur - lvl + 1).toNat) ++ [trim text], lvl) := by
  rw [update_formula, List.drop_reverse, List.reverse_reverse]

/-- a deeper heading — one level or many — closes nothing -/
theorem update_deeper_appends (path : List Str) (cur lvl : Int) (text : Str) (h : cur < lvl) :
    updateSectionPath path cur lvl text = (path ++ [trim text], lvl) := by
  rw [update_step_total]
  have : (cur - lvl + 1).toNat = 0 := by omega
  rw [this, Nat.sub_zero, List.take_length]

example : updateSectionPath [[97]] 1 3 [32, 98] = ([[97], [98]], 3) := by decide

/-- a heading at the current level replaces the innermost entry; one `k` levels up closes `k + 1` -/
theorem update_up_closes (path : List Str) (cur : Int) (k : Nat) (text : Str) :
    updateSectionPath path cur (cur - k) text =
      (path.take (path.length - (k + 1)) ++ [trim text], cur - k) := by
  rw [update_step_total]
  have : (cur - (cur - (k : Int)) + 1).toNat = k + 1 := by omega
  rw [this]

/-- **every history, skipped levels or not**: the path `updateSectionPath` arrives at never holds a
heading that is closed — it is a sub-sequence (same order) of the chain of enclosing headings.
With `update_history_counterexample`: the only way it goes wrong is by losing open headings. -/
theorem update_history_never_keeps_closed (c0 : Int) (hs : List (Int × Str)) :
    ((runUpdate [] c0 hs).1).Sublist ((openSpec (trimmed hs)).map (·.2)) := by
  have := runUpdate_sublist [] [] c0 hs [] rfl trivial (List.Sublist.refl _)
  simpa using this

theorem runUpdate_snoc (path : List Str) (cur : Int) (hs : List (Int × Str)) (h : Int × Str) :
    runUpdate path cur (hs ++ [h]) =
      updateSectionPath (runUpdate path cur hs).1 (runUpdate path cur hs).2 h.1 h.2 := by
  induction hs generalizing path cur with
  | nil => obtain ⟨l, t⟩ := h; simp [runUpdate]
  | cons x hs ih => obtain ⟨l, t⟩ := x; simp only [List.cons_append, runUpdate, ih]

/-- every history: the innermost entry of the path is the heading met last, and the level handed
back is its level -/
theorem update_history_last (c0 : Int) (hs : List (Int × Str)) (l : Int) (t : Str) :
    (runUpdate [] c0 (hs ++ [(l, t)])).1.getLast? = some (trim t) ∧
    (runUpdate [] c0 (hs ++ [(l, t)])).2 = l := by
  rw [runUpdate_snoc, update_step_total]
  simp

/-- opening a heading keeps an initial segment of the path and appends the heading: no entry is
ever changed or reordered by `pushSection`, whatever the stack and the level -/
theorem push_keeps_prefix (st : List H) (l : Int) (t : Str) :
    stackTracker.path (stackTracker.push st l t) =
      (stackTracker.path st).take (st.dropWhile fun e => decide (l ≤ e.1)).length ++ [trim t] := by
  simp only [stackTracker, pushSection, List.reverse_cons, List.map_append, List.map_cons,
    List.map_nil]
  congr 1
  have h := @List.takeWhile_append_dropWhile _ (fun e : H => decide (l ≤ e.1)) st
  conv => rhs; rw [← h]
  rw [List.reverse_append, List.map_append, List.take_left' (by simp)]

/-! ## an invariant of the heading stack reaches every chunk of the document -/

/-- **lifting principle** (any tracker, splitter, document): if `P` holds of the tracker's initial
state, is kept by every push of a heading the chunker meets (`StepL`: `model.Heading`s, heading-like
paragraphs with their table-of-contents level, repeated headings with their resolved level) and
implies `Q` of the path, then `Q` holds of the `SectionPath` of every chunk — text chunks (which
carry the path of their first paragraph) and split pieces included -/
theorem chunk_paths_invariant {σ} (tr : Tracker σ) (L : Int → Str → Prop) (P : σ → Prop)
    (Q : List Str → Prop) (hinv : TrackInv tr L P Q) (sp : Splitter) (d : Doc)
    (hl : ∀ pg ∈ d, ∀ e ∈ resolveRepeatedHeadings pg, StepL L (tableOfContents d) pg.number e) :
    ∀ c ∈ chunkDocumentWith tr sp d, Q c.path := by
  intro c hc
  simp only [chunkDocumentWith, setTotal, List.mem_map] at hc
  obtain ⟨c0, h0, rfl⟩ := hc
  obtain ⟨g, hg, hcg⟩ := List.mem_flatten.mp h0
  exact chunkPages_p tr L P Q hinv sp (tableOfContents d) (initSt tr) d
    ⟨hinv.init, fun hne => absurd rfl hne⟩ hl g hg c0 hcg

/-- every level the chunker can see — `model.Heading` elements, layout headings (table of
contents, repeated headings), and the default 1 — satisfies `L` -/
def DocLevels (L : Int → Prop) (d : Doc) : Prop :=
  L 1 ∧ (∀ pg ∈ d, ∀ l t, Elem.heading l t ∈ pg.elems → L l) ∧
  (∀ pg ∈ d, ∀ hs, pg.layout = some hs → ∀ h ∈ hs, L h.1)

theorem docLevels_stepL (L : Int → Prop) (d : Doc) (h : DocLevels L d) :
    ∀ pg ∈ d, ∀ e ∈ resolveRepeatedHeadings pg,
      StepL (fun l _ => L l) (tableOfContents d) pg.number e := by
  obtain ⟨h1, h2, h3⟩ := h
  intro pg hpg e he
  cases e with
  | heading l t =>
    simp only [StepL]
    unfold resolveRepeatedHeadings at he
    cases hlay : pg.layout with
    | none => rw [hlay] at he; exact h2 pg hpg l t he
    | some hs =>
      rw [hlay] at he
      rcases resolveElems_heading hs [] pg.elems l t he with he | ⟨_, ⟨x, hx, rfl⟩ | rfl⟩
      · exact h2 pg hpg l t he
      · exact h3 pg hpg hs hlay x hx
      · exact h1
  | para text =>
    intro _
    rcases getHeadingLevel_mem text (tableOfContents d) pg.number with ⟨e, he, hlev⟩ | hlev
    · obtain ⟨q, hq, hs, hlay, x, hx, hxe⟩ := tableOfContents_level d e he
      show L (getHeadingLevel text (tableOfContents d) pg.number)
      rw [← hlev, ← hxe]
      exact h3 q hq hs hlay x hx
    · show L (getHeadingLevel text (tableOfContents d) pg.number)
      rw [hlev]; exact h1
  | list o items => trivial
  | table rows => trivial
  | image alt => trivial

/-- **depth of the section path, every chunk**: when every heading level of the document lies
between 1 and `m` (h1..h6: `m = 6`), no chunk of `ChunkDocument` has a section path with more than
`m` entries — whatever the order of the levels, skipped or repeated, on whatever pages -/
theorem chunk_path_depth_le_max (sp : Splitter) (d : Doc) (m : Int)
    (h : DocLevels (fun l => 1 ≤ l ∧ l ≤ m) d) :
    ∀ c ∈ chunkDocument sp d, c.path.length ≤ m.toNat := by
  rw [Tabula.C12.section_path_enclosing]
  apply chunk_paths_invariant histTracker (fun l _ => 1 ≤ l ∧ l ≤ m)
    (fun hist => ∀ x ∈ hist, 1 ≤ x.1 ∧ x.1 ≤ m) (fun p => p.length ≤ m.toNat) ?_ sp d
    (docLevels_stepL _ d h)
  refine ⟨?_, ?_, ?_⟩
  · intro x hx; cases hx
  · intro s l t hs hl x hx
    simp only [histTracker, List.mem_append, List.mem_singleton] at hx
    rcases hx with hx | rfl
    · exact hs x hx
    · exact hl
  · intro s hs
    simp only [histTracker, List.length_map]
    have hmem : ∀ x ∈ openSpec s, 1 ≤ x.1 ∧ x.1 ≤ m :=
      fun x hx => hs x ((openSpec_sublist s).subset hx)
    have := pairwise_length_le _ 1 m (openSpec_pairwise s) (fun x hx => (hmem x hx).1)
      (fun x hx => (hmem x hx).2)
    omega

example : DocLevels (fun l => 1 ≤ l ∧ l ≤ 6)
    [⟨1, some [(2, [97])], [.heading 5 [98], .para [97], .heading 1 [99]]⟩] := by
  refine ⟨by decide, ?_, ?_⟩
  · intro pg hpg l t he
    simp only [List.mem_singleton] at hpg; subst hpg
    simp only [List.mem_cons, Elem.heading.injEq, reduceCtorEq, List.not_mem_nil, or_false,
      false_or] at he
    rcases he with ⟨rfl, _⟩ | ⟨rfl, _⟩ <;> decide
  · intro pg hpg hs hl x hx
    simp only [List.mem_singleton] at hpg; subst hpg
    simp only [Option.some.injEq] at hl; subst hl
    simp only [List.mem_singleton] at hx; subst hx; decide

/-- **nothing is invented**: every entry of every chunk's section path is the trimmed text of a
`model.Heading` or of a (heading-like) paragraph of the document -/
theorem chunk_path_entries_from_document (sp : Splitter) (d : Doc) :
    ∀ c ∈ chunkDocument sp d, ∀ s ∈ c.path,
      ∃ pg ∈ d, ∃ t, trim t = s ∧ ((∃ l, Elem.heading l t ∈ pg.elems) ∨ Elem.para t ∈ pg.elems) := by
  rw [Tabula.C12.section_path_enclosing]
  let T : Str → Prop := fun s =>
    ∃ pg ∈ d, ∃ t, trim t = s ∧ ((∃ l, Elem.heading l t ∈ pg.elems) ∨ Elem.para t ∈ pg.elems)
  apply chunk_paths_invariant histTracker (fun _ t => T (trim t))
    (fun hist => ∀ x ∈ hist, T x.2) (fun p => ∀ s ∈ p, T s) ?_ sp d ?_
  · refine ⟨?_, ?_, ?_⟩
    · intro x hx; cases hx
    · intro s l t hs hl x hx
      simp only [histTracker, List.mem_append, List.mem_singleton] at hx
      rcases hx with hx | rfl
      · exact hs x hx
      · exact hl
    · intro s hs x hx
      simp only [histTracker, List.mem_map] at hx
      obtain ⟨y, hy, rfl⟩ := hx
      exact hs y ((openSpec_sublist s).subset hy)
  · intro pg hpg e he
    cases e with
    | heading l t =>
      simp only [StepL]
      refine ⟨pg, hpg, t, rfl, ?_⟩
      unfold resolveRepeatedHeadings at he
      cases hlay : pg.layout with
      | none => rw [hlay] at he; exact Or.inl ⟨l, he⟩
      | some hs =>
        rw [hlay] at he
        rcases resolveElems_heading hs [] pg.elems l t he with he | ⟨he, _⟩
        · exact Or.inl ⟨l, he⟩
        · exact Or.inr he
    | para text =>
      intro _
      refine ⟨pg, hpg, text, rfl, Or.inr ?_⟩
      unfold resolveRepeatedHeadings at he
      cases hlay : pg.layout with
      | none => rw [hlay] at he; exact he
      | some hs => rw [hlay] at he; exact resolveElems_para hs [] pg.elems text he
    | list o items => trivial
    | table rows => trivial
    | image alt => trivial

/-! ## layout-based chunker: pages without content, the title -/

open Tabula.ChunkLayout

/-- a page with a nil layout, or with a layout that holds no heading, paragraph or list, is
neutral for `Chunker.Chunk`: the same chunks — every field — with and without it, wherever it
stands (so 0-element pages cannot shift a page range or an index) -/
theorem layout_empty_page_neutral (cfg : Cfg) (title : Str) (d1 d2 : LDoc) (pg : LPage)
    (h : pg.layout = none ∨ pg.layout = some ⟨[], [], []⟩) :
    chunk cfg title (d1 ++ pg :: d2) = chunk cfg title (d1 ++ d2) := by
  have hstep : ∀ s, stepPage cfg s pg = s := by
    intro s
    rcases h with h | h <;> simp [stepPage, h]
  have hb : buildSections cfg (d1 ++ pg :: d2) = buildSections cfg (d1 ++ d2) := by
    simp only [buildSections, List.foldl_append, List.foldl_cons, hstep]
  have hf : fallbackContent (d1 ++ pg :: d2) = fallbackContent (d1 ++ d2) := by
    have : fallbackContent [pg] = [] := by
      rcases h with h | h <;> simp [fallbackContent, h]
    have happ : ∀ a b : LDoc, fallbackContent (a ++ b) = fallbackContent a ++ fallbackContent b := by
      intro a b; simp only [fallbackContent, List.flatMap_append]
    rw [show d1 ++ pg :: d2 = d1 ++ ([pg] ++ d2) from rfl, happ, happ, happ, this, List.nil_append]
  simp only [chunk, chunkByParagraphs, hb, hf]

example :
    let cfg : Cfg := ⟨2000, 100, 3, true, [99]⟩
    let p1 : LPage := ⟨1, some ⟨[⟨1, [65], []⟩], [⟨[120], false, []⟩], []⟩⟩
    let p3 : LPage := ⟨3, some ⟨[], [⟨[121], false, []⟩], []⟩⟩
    chunk cfg [] [p1, ⟨2, none⟩, p3] = chunk cfg [] [p1, p3] ∧ (chunk cfg [] [p1, p3]).length = 1 := by
  decide +kernel

/-- the document title is read by the fallback (`chunkByParagraphs`) only: as soon as the section
tree yields a chunk, `Chunker.Chunk` does not depend on it -/
theorem layout_title_unread (cfg : Cfg) (t1 t2 : Str) (d : LDoc)
    (h : chunkForest cfg (buildSections cfg d) 0 ≠ []) :
    chunk cfg t1 d = chunk cfg t2 d := by
  have : (chunkForest cfg (buildSections cfg d) 0).isEmpty = false := by
    cases hc : chunkForest cfg (buildSections cfg d) 0 with
    | nil => exact absurd hc h
    | cons _ _ => rfl
  simp only [chunk, this]
  rfl

example :
    let cfg : Cfg := ⟨2000, 100, 3, true, [99]⟩
    let d : LDoc := [⟨1, some ⟨[⟨1, [65], []⟩], [⟨[120], false, []⟩], []⟩⟩]
    chunkForest cfg (buildSections cfg d) 0 ≠ [] := by decide +kernel

/-! ## reads of the collection that `C12Query` only passes through: `GetPageRange`,
`GetTotalTokens`, `GetAllSections`; algebra of the filters -/

open Tabula.ChunkColl

/-- **`GetPageRange` is exact**: on a non-empty collection it returns the smallest `PageStart` and
the largest `PageEnd` of its chunks — every chunk's page range lies inside it and both ends are
attained (so, with `page_range_true`, they are pages content came from) -/
theorem page_range_exact (cs : List QChunk) (hne : cs ≠ []) :
    (∀ q ∈ cs, (pageRange cs).1 ≤ q.c.pageStart ∧ q.c.pageEnd ≤ (pageRange cs).2) ∧
    (∃ a ∈ cs, a.c.pageStart = (pageRange cs).1) ∧ (∃ b ∈ cs, b.c.pageEnd = (pageRange cs).2) := by
  cases cs with
  | nil => exact absurd rfl hne
  | cons c rest =>
    obtain ⟨a1, a2, a3, a4, a5⟩ := pageRangeLoop_spec rest c.c.pageStart c.c.pageEnd
    simp only [pageRange]
    refine ⟨?_, ?_, ?_⟩
    · intro q hq
      rcases List.mem_cons.mp hq with rfl | hq
      · exact ⟨a1, a2⟩
      · exact a3 q hq
    · rcases a4 with e | ⟨q, hq, e⟩
      · exact ⟨c, List.mem_cons_self .., e.symm⟩
      · exact ⟨q, List.mem_cons_of_mem _ hq, e⟩
    · rcases a5 with e | ⟨q, hq, e⟩
      · exact ⟨c, List.mem_cons_self .., e.symm⟩
      · exact ⟨q, List.mem_cons_of_mem _ hq, e⟩

theorem page_range_empty : pageRange [] = (0, 0) := rfl

/-- `GetTotalTokens` is the sum of the chunks' `EstimatedTokens` -/
theorem total_tokens_sum (cs : List QChunk) : totalTokens cs 0 = (cs.map (·.tokens)).sum := by
  rw [totalTokens_eq]; omega

/-- **`GetAllSections` is exact**: the non-empty `SectionTitle`s of the collection, each once -/
theorem sections_exact (cs : List QChunk) :
    (sections cs).Nodup ∧ ∀ t, t ∈ sections cs ↔ t ≠ [] ∧ ∃ q ∈ cs, q.title = t := by
  refine ⟨sectionsLoop_nodup cs [] [] List.nodup_nil (fun t ht => by cases ht), ?_⟩
  intro t
  unfold sections
  rw [sectionsLoop_mem]
  simp

/-- a filter applied twice selects what it selects once -/
theorem query_idempotent (q : Query) (cs : List QChunk) (h : ∀ a b, q ≠ .slice a b) :
    applyQuery q (applyQuery q cs) = applyQuery q cs := by
  rw [applyQuery_filter q _ h, applyQuery_filter q cs h, List.filter_filter]
  simp

/-- the order of two filters does not matter (`FilterByPage(p).FilterWithTables()` =
`FilterWithTables().FilterByPage(p)`, …) -/
theorem queries_commute (q1 q2 : Query) (cs : List QChunk)
    (h1 : ∀ a b, q1 ≠ .slice a b) (h2 : ∀ a b, q2 ≠ .slice a b) :
    applyQuery q1 (applyQuery q2 cs) = applyQuery q2 (applyQuery q1 cs) := by
  rw [applyQuery_filter q1 _ h1, applyQuery_filter q2 cs h2, applyQuery_filter q2 _ h2,
    applyQuery_filter q1 cs h1, List.filter_filter, List.filter_filter]
  congr 1
  funext x
  exact Bool.and_comm _ _

example : ∀ a b, Query.byPage 3 ≠ .slice a b := by intro a b h; cases h

/-- `FilterByPageRange(p, p)` is `FilterByPage(p)` -/
theorem page_range_query_single (p : Int) (cs : List QChunk) :
    applyQuery (.byPageRange p p) cs = applyQuery (.byPage p) cs := by
  rw [applyQuery_filter _ cs (by intro a b h; cases h), applyQuery_filter _ cs (by intro a b h; cases h)]
  congr 1
  funext x
  simp only [queryPred, isOnPage, ge_iff_le]
  exact Bool.and_comm _ _

/-- raising the bound of `FilterByMinTokens` can only remove chunks -/
theorem min_tokens_monotone (n n' : Int) (h : n ≤ n') (cs : List QChunk) :
    (applyQuery (.minTokens n') cs).Sublist (applyQuery (.minTokens n) cs) := by
  rw [applyQuery_filter _ cs (by intro a b h; cases h), applyQuery_filter _ cs (by intro a b h; cases h)]
  have : cs.filter (queryPred (.minTokens n')) =
      (cs.filter (queryPred (.minTokens n))).filter (queryPred (.minTokens n')) := by
    rw [List.filter_filter]
    congr 1
    funext x
    simp only [queryPred, ge_iff_le]
    by_cases hx : n' ≤ x.tokens
    · have : n ≤ x.tokens := Int.le_trans h hx
      simp [hx, this]
    · simp [hx]
  rw [this]
  exact List.filter_sublist

/-- every chunk of the element-based chunker lies on one page of the document (any splitter) -/
theorem chunk_on_some_page (sp : Splitter) (d : Doc) :
    ∀ c ∈ chunkDocument sp d, ∃ pg ∈ d, c.pageStart = pg.number ∧ c.pageEnd = pg.number := by
  intro c hc
  have hm := (chunkPages_m stackTracker sp (tableOfContents d) (initSt stackTracker) d).1
  simp only [chunkDocument, chunkDocumentWith, setTotal, List.mem_map] at hc
  obtain ⟨c0, h0, rfl⟩ := hc
  obtain ⟨g, hg, hcg⟩ := List.mem_flatten.mp h0
  exact pagesM_mem d _ hm g hg c0 hcg

/-- **`GetPageRange` on the chunker's own collection** (`rag.ChunkDocumentWithConfig`, every size
configuration and document): both ends are page numbers of the document, attained by chunks, and
every chunk's pages lie between them -/
theorem collection_page_range_on_document (c : Tabula.Split.SizeConfig) (d : Doc)
    (hne : elementColl c d ≠ []) :
    (∃ p ∈ d, p.number = (pageRange (elementColl c d)).1) ∧
    (∃ p ∈ d, p.number = (pageRange (elementColl c d)).2) ∧
    ∀ q ∈ elementColl c d, (pageRange (elementColl c d)).1 ≤ q.c.pageStart ∧
      q.c.pageEnd ≤ (pageRange (elementColl c d)).2 := by
  obtain ⟨h1, ⟨a, ha, ea⟩, ⟨b, hb, eb⟩⟩ := page_range_exact (elementColl c d) hne
  have hmem : ∀ q ∈ elementColl c d, q.c ∈ chunkDocument (Tabula.ChunkSplit.splitterOf c) d := by
    intro q hq
    have : q.c ∈ (elementColl c d).map (·.c) := List.mem_map.mpr ⟨q, hq, rfl⟩
    rw [elementColl_c] at this
    exact this
  refine ⟨?_, ?_, h1⟩
  · obtain ⟨pg, hpg, e1, _⟩ := chunk_on_some_page _ d a.c (hmem a ha)
    exact ⟨pg, hpg, by rw [← ea, e1]⟩
  · obtain ⟨pg, hpg, _, e2⟩ := chunk_on_some_page _ d b.c (hmem b hb)
    exact ⟨pg, hpg, by rw [← eb, e2]⟩

example : elementColl Tabula.ChunkSplit.defaultSizeConfig [⟨1, none, [.para [97]]⟩] ≠ [] := by
  decide +kernel

example : ∀ e ∈ ([⟨1, [97], 2⟩] : List TOCEntry), e.page ≠ (⟨1, none, []⟩ : Page).number := by decide

/-! ## layout-based chunker: depth of the section path -/

/-- **depth of `SectionPath`, layout-based chunker** (every document and configuration whose
heading levels start at 1): a section that holds content has a path of at most `MinHeadingLevel`
entries — only headings of level `<= MinHeadingLevel` open sections, and the open ones are strictly
nested, whatever levels are skipped. With `layout_chunker_property` (2.) this bounds the
`SectionPath` of every chunk made from a section. -/
theorem layout_path_depth (cfg : Cfg) (d : LDoc)
    (h : ∀ pg ∈ d, ∀ lay, pg.layout = some lay → ∀ hd ∈ lay.headings, 1 ≤ hd.level) :
    ∀ x ∈ flatForest (buildSections cfg d), x.2 ≠ [] →
      x.1.path.length ≤ cfg.minHeadingLevel.toNat := by
  intro x hx hne
  cases hc : x.2 with
  | nil => exact absurd hc hne
  | cons ce rest =>
    have hm : (ce, x.1.path) ∈ labelsOf (flatForest (buildSections cfg d)) := by
      unfold labelsOf
      exact List.mem_flatMap.mpr ⟨x, hx, List.mem_map.mpr ⟨ce, by rw [hc]; exact List.mem_cons_self .., rfl⟩⟩
    rw [Tabula.C12Layout.layout_section_path] at hm
    exact labelled_depth cfg d h _ hm

example :
    let cfg : Cfg := ⟨2000, 100, 3, true, [99]⟩
    let d : LDoc := [⟨1, some ⟨[⟨1, [65], []⟩, ⟨3, [66], []⟩, ⟨2, [67], []⟩], [⟨[120], false, []⟩], []⟩⟩]
    (flatForest (buildSections cfg d)).map (fun x => (x.1.path, x.2.length)) =
      [([[65]], 0), ([[65], [66]], 0), ([[65], [67]], 1)] := by decide +kernel

end Tabula.C12More
