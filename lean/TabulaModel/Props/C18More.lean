import TabulaModel.Lemmas.PackageSort
import TabulaModel.Props.C18
/-!
C18, further all-input theorems about the existing container model (`Model/Package.lean`).

* the skip-on-failure loop shared by the three readers, entry by entry
  (`mem_loopIdx_iff`), and its consequence "never reordered": the `Index` fields of the
  presented parts are strictly increasing and are positions of the declaration
  (`*_indices_increasing`, `*_index_in_declaration`);
* presented part ⇔ declared, found, of the right kind — an `iff` for XLSX and PPTX
  (`xlsx_part_iff`, `pptx_part_iff`), soundness for EPUB down to the manifest item and the
  archive member (`epub_chapter_sound`);
* "last entry wins" for relationship ids / manifest ids (`mapLastOpt_append_last`,
  `mapLastOpt_mem`, `mapLast_append_last`);
* hrefs without `%` are resolved verbatim, hrefs with a bad escape are kept raw
  (`pathUnescape_no_percent`, `resolveHref_no_percent`, `resolveHref_bad_escape`);
* the file-name fallback of PPTX: candidates already in slide-number order stay as they
  are, sorting twice changes nothing (`sortByNumber_of_sorted`, `sortByNumber_idem`,
  `fallbackSlidePaths_of_sorted`, `fallbackSlidePaths_idem`).
-/
namespace Tabula.C18More
open Tabula.Package Tabula.C18

/-! ### the skip loop, entry by entry -/

/-- a value is produced by the loop iff some entry of the list, at its own position,
produces it -/
theorem mem_loopIdx_iff {α β : Type} (f : Nat → α → Option β) (i : Nat) (l : List α) (v : β) :
    v ∈ loopIdx f i l ↔ ∃ k e, l[k]? = some e ∧ f (i + k) e = some v := by
  induction l generalizing i with
  | nil => simp [loopIdx]
  | cons e rest ih =>
    have hstep : v ∈ loopIdx f i (e :: rest) ↔ (f i e = some v ∨ v ∈ loopIdx f (i + 1) rest) := by
      simp only [loopIdx]
      cases hf : f i e with
      | none => simp
      | some w =>
        simp only [List.mem_cons, Option.some.injEq]
        constructor
        · rintro (h | h)
          · exact Or.inl h.symm
          · exact Or.inr h
        · rintro (h | h)
          · exact Or.inl h.symm
          · exact Or.inr h
    rw [hstep, ih]
    constructor
    · rintro (h | ⟨k, e', hk, hf⟩)
      · exact ⟨0, e, by simp, by simpa using h⟩
      · refine ⟨k + 1, e', by simpa using hk, ?_⟩
        have : i + (k + 1) = i + 1 + k := by omega
        rw [this]
        exact hf
    · rintro ⟨k, e', hk, hf⟩
      cases k with
      | zero =>
        left
        simp only [List.getElem?_cons_zero, Option.some.injEq] at hk
        subst hk
        simpa using hf
      | succ k =>
        right
        refine ⟨k, e', by simpa using hk, ?_⟩
        have : i + 1 + k = i + (k + 1) := by omega
        rw [this]
        exact hf

/-- when every produced value records the position it was produced at, the recorded
positions lie inside the list -/
theorem loopIdx_index_bounds {α β : Type} (f : Nat → α → Option β) (idx : β → Nat)
    (hidx : ∀ j e v, f j e = some v → idx v = j) (i : Nat) (l : List α) (v : β)
    (hv : v ∈ loopIdx f i l) : i ≤ idx v ∧ idx v < i + l.length := by
  obtain ⟨k, e, hk, hf⟩ := (mem_loopIdx_iff f i l v).mp hv
  have h1 := hidx _ _ _ hf
  obtain ⟨h2, _⟩ := List.getElem?_eq_some_iff.mp hk
  omega

/-- … and they are strictly increasing along the output: the loop never reorders -/
theorem loopIdx_index_increasing {α β : Type} (f : Nat → α → Option β) (idx : β → Nat)
    (hidx : ∀ j e v, f j e = some v → idx v = j) (i : Nat) (l : List α) :
    (loopIdx f i l).Pairwise (fun u v => idx u < idx v) := by
  induction l generalizing i with
  | nil => exact List.Pairwise.nil
  | cons e rest ih =>
    simp only [loopIdx]
    cases hf : f i e with
    | none => exact ih (i + 1)
    | some w =>
      show List.Pairwise _ (w :: loopIdx f (i + 1) rest)
      refine List.pairwise_cons.mpr ⟨?_, ih (i + 1)⟩
      intro v hv
      have h1 := hidx _ _ _ hf
      have h2 := (loopIdx_index_bounds f idx hidx (i + 1) rest v hv).1
      omega

example : loopIdx (fun j (e : Nat) => if e = 0 then none else some (j, e)) 0 [5, 0, 7] = [(0, 5), (2, 7)] := by
  decide

/-! ### one entry of each reader's loop -/

theorem pptxPart_eq_some (look : Str → Option Nat) (x : Docs) (j : Nat) (p : Str) (i c : Nat) :
    pptxPart look x j p = some (i, c) ↔ j = i ∧ look p = some c ∧ x c = .slide := by
  unfold pptxPart
  split
  · rename_i hl
    simp [hl]
  · rename_i d hl
    split
    · rename_i hx
      simp only [hl, Option.some.injEq, Prod.mk.injEq]
      constructor
      · rintro ⟨h1, h2⟩
        subst h2
        exact ⟨h1, rfl, hx⟩
      · rintro ⟨h1, h2, _⟩
        exact ⟨h1, h2⟩
    · rename_i hx
      simp only [hl, Option.some.injEq]
      constructor
      · intro h
        cases h
      · rintro ⟨_, h2, h3⟩
        subst h2
        exact absurd h3 hx

theorem xlsxPart_eq_some (look : Str → Option Nat) (x : Docs) (rels : List (Str × Str)) (j : Nat)
    (s : Str × Str) (i c : Nat) (n : Str) :
    xlsxPart look x rels j s = some (i, c, n) ↔
      j = i ∧ s.1 = n ∧ xlsxRead look (xlsxTarget rels j s.2) = some c ∧ x c = .sheet := by
  unfold xlsxPart
  split
  · rename_i hl
    simp [hl]
  · rename_i d hl
    split
    · rename_i hx
      simp only [hl, Option.some.injEq, Prod.mk.injEq]
      constructor
      · rintro ⟨h1, h2, h3⟩
        subst h2
        exact ⟨h1, h3, rfl, hx⟩
      · rintro ⟨h1, h2, h3, _⟩
        exact ⟨h1, h3, h2⟩
    · rename_i hx
      simp only [hl, Option.some.injEq]
      constructor
      · intro h
        cases h
      · rintro ⟨_, _, h2, h3⟩
        subst h2
        exact absurd h3 hx

/-! ### what `Open` returns is the loop over the declaration -/

theorem pptxOpen_parts (a : Archive) (x : Docs) (declared : List Str) (parts : List SlidePart)
    (h : pptxDeclared (lookup a) x = some declared) (hne : declared ≠ [])
    (ho : pptxOpen a x = some parts) : parts = loopIdx (pptxPart (lookup a) x) 0 declared := by
  unfold pptxOpen pptxOpenL at ho
  rw [h] at ho
  simp only [hne, if_false, pptxLoop] at ho
  exact eq_of_nonEmpty ho

theorem xlsxOpen_parts (a : Archive) (x : Docs) (rels sheets : List (Str × Str)) (parts : List SheetPart)
    (h : xlsxDeclared (lookup a) x = some (rels, sheets))
    (ho : xlsxOpen a x = some parts) : parts = loopIdx (xlsxPart (lookup a) x rels) 0 sheets := by
  unfold xlsxOpen xlsxOpenL at ho
  rw [h] at ho
  simp only [xlsxLoop] at ho
  exact eq_of_nonEmpty ho

/-- a small workbook: one declared sheet `A` (`r` ↦ `a`, read as `xl/a`) and a left-over part -/
def exXA : Archive := [(sCT, 1), (sWorkbook, 2), (sXlRels, 3), ([120, 108, 47, 97], 11), ([120, 108, 47, 98], 12)]
def exXD : Docs := fun c =>
  if c = 2 then .workbook [([65], [114])]
  else if c = 3 then .rels [([114], [97])]
  else if c = 11 ∨ c = 12 then .sheet else .opaque

example : xlsxDeclared (lookup exXA) exXD = some ([([114], [97])], [([65], [114])]) := by decide
example : xlsxOpen exXA exXD = some [(0, 11, [65])] := by decide
example : pptxDeclared (lookup exArchive) exDocs ≠ some [] := by decide

/-! ### presented ⇔ declared, found, of the right kind -/

/-- PPTX: `(i, c)` is a presented slide iff the `i`-th declared slide path names a member
(the first with that name) whose content `c` is a slide — nothing else is presented and
nothing declared and readable is left out -/
theorem pptx_part_iff (a : Archive) (x : Docs) (declared : List Str) (parts : List SlidePart)
    (h : pptxDeclared (lookup a) x = some declared) (hne : declared ≠ [])
    (ho : pptxOpen a x = some parts) (i c : Nat) :
    (i, c) ∈ parts ↔ ∃ p, declared[i]? = some p ∧ lookup a p = some c ∧ x c = .slide := by
  rw [pptxOpen_parts a x declared parts h hne ho, mem_loopIdx_iff]
  constructor
  · rintro ⟨k, p, hk, hf⟩
    obtain ⟨h1, h2, h3⟩ := (pptxPart_eq_some _ _ _ _ _ _).mp hf
    have : k = i := by omega
    subst this
    exact ⟨p, hk, h2, h3⟩
  · rintro ⟨p, hk, h2, h3⟩
    exact ⟨i, p, hk, (pptxPart_eq_some _ _ _ _ _ _).mpr ⟨by omega, h2, h3⟩⟩

/-- XLSX: `(i, c, name)` is a presented sheet iff the `i`-th `<sheet>` of the workbook has
that name and its relationship target (normalised, with the `xl/` retry) names a member
whose content `c` is a worksheet -/
theorem xlsx_part_iff (a : Archive) (x : Docs) (rels sheets : List (Str × Str)) (parts : List SheetPart)
    (h : xlsxDeclared (lookup a) x = some (rels, sheets))
    (ho : xlsxOpen a x = some parts) (i c : Nat) (n : Str) :
    (i, c, n) ∈ parts ↔
      ∃ rid, sheets[i]? = some (n, rid) ∧
        xlsxRead (lookup a) (xlsxTarget rels i rid) = some c ∧ x c = .sheet := by
  rw [xlsxOpen_parts a x rels sheets parts h ho, mem_loopIdx_iff]
  constructor
  · rintro ⟨k, s, hk, hf⟩
    obtain ⟨h1, h2, h3, h4⟩ := (xlsxPart_eq_some _ _ _ _ _ _ _ _).mp hf
    have : k = i := by omega
    subst this
    obtain ⟨s1, s2⟩ := s
    dsimp only at h2 h3
    subst h2
    refine ⟨s2, hk, ?_, h4⟩
    simpa using h3
  · rintro ⟨rid, hk, h2, h3⟩
    refine ⟨i, (n, rid), hk, (xlsxPart_eq_some _ _ _ _ _ _ _ _).mpr ⟨by omega, rfl, ?_, h3⟩⟩
    simpa using h2

/-- the content of a presented sheet is the content of a member of the archive -/
theorem xlsx_part_is_member (a : Archive) (x : Docs) (rels sheets : List (Str × Str)) (parts : List SheetPart)
    (h : xlsxDeclared (lookup a) x = some (rels, sheets))
    (ho : xlsxOpen a x = some parts) (i c : Nat) (n : Str) (hm : (i, c, n) ∈ parts) :
    x c = .sheet ∧ ∃ name, (name, c) ∈ a := by
  obtain ⟨rid, _, h2, h3⟩ := (xlsx_part_iff a x rels sheets parts h ho i c n).mp hm
  refine ⟨h3, ?_⟩
  unfold xlsxRead at h2
  split at h2
  · rename_i d hl
    cases h2
    exact ⟨_, lookup_mem hl⟩
  · exact ⟨_, lookup_mem h2⟩

/-! ### never reordered: `Index` strictly increases along the presented list -/

theorem pptx_indices_increasing (a : Archive) (x : Docs) (declared : List Str) (parts : List SlidePart)
    (h : pptxDeclared (lookup a) x = some declared) (hne : declared ≠ [])
    (ho : pptxOpen a x = some parts) :
    parts.Pairwise (fun u v => u.1 < v.1) ∧ ∀ u ∈ parts, u.1 < declared.length := by
  rw [pptxOpen_parts a x declared parts h hne ho]
  have hidx : ∀ j (e : Str) (v : SlidePart), pptxPart (lookup a) x j e = some v → v.1 = j := by
    intro j e v hv
    obtain ⟨v1, v2⟩ := v
    exact ((pptxPart_eq_some _ _ _ _ _ _).mp hv).1.symm
  refine ⟨loopIdx_index_increasing _ (fun v : SlidePart => v.1) hidx 0 declared, ?_⟩
  intro u hu
  have := (loopIdx_index_bounds _ (fun v : SlidePart => v.1) hidx 0 declared u hu).2
  simpa using this

theorem xlsx_indices_increasing (a : Archive) (x : Docs) (rels sheets : List (Str × Str)) (parts : List SheetPart)
    (h : xlsxDeclared (lookup a) x = some (rels, sheets))
    (ho : xlsxOpen a x = some parts) :
    parts.Pairwise (fun u v => u.1 < v.1) ∧ ∀ u ∈ parts, u.1 < sheets.length := by
  rw [xlsxOpen_parts a x rels sheets parts h ho]
  have hidx : ∀ j (e : Str × Str) (v : SheetPart), xlsxPart (lookup a) x rels j e = some v → v.1 = j := by
    intro j e v hv
    obtain ⟨v1, v2, v3⟩ := v
    exact ((xlsxPart_eq_some _ _ _ _ _ _ _ _).mp hv).1.symm
  refine ⟨loopIdx_index_increasing _ (fun v : SheetPart => v.1) hidx 0 sheets, ?_⟩
  intro u hu
  have := (loopIdx_index_bounds _ (fun v : SheetPart => v.1) hidx 0 sheets u hu).2
  simpa using this

/-! ### EPUB: every chapter is a spine entry, a manifest item and an archive member -/

/-- "last entry wins" read backwards: what `m[k]` returns was assigned under `k` -/
theorem mapLastOpt_mem_aux (rs : List (Str × Str)) (k v : Str) (acc : Option Str)
    (h : rs.foldl (fun acc e => if e.1 = k then some e.2 else acc) acc = some v) :
    acc = some v ∨ (k, v) ∈ rs := by
  induction rs generalizing acc with
  | nil => exact Or.inl h
  | cons e rest ih =>
    obtain ⟨e1, e2⟩ := e
    simp only [List.foldl_cons] at h
    rcases ih _ h with h1 | h1
    · by_cases he : e1 = k
      · rw [if_pos he] at h1
        subst he
        cases h1
        exact Or.inr List.mem_cons_self
      · rw [if_neg he] at h1
        exact Or.inl h1
    · exact Or.inr (List.mem_cons_of_mem _ h1)

theorem mapLastOpt_mem (rs : List (Str × Str)) (k v : Str) (h : mapLast? rs k = some v) : (k, v) ∈ rs := by
  rcases mapLastOpt_mem_aux rs k v none h with h1 | h1
  · cases h1
  · exact h1

/-- a Go map filled in document order: a later entry with the same key replaces the
earlier ones (comma-ok form) -/
theorem mapLastOpt_append_last (rs : List (Str × Str)) (k v : Str) : mapLast? (rs ++ [(k, v)]) k = some v := by
  simp [mapLast?, List.foldl_append]

theorem mapLast_append_last (rs : List (Str × Str)) (k v : Str) : mapLast (rs ++ [(k, v)]) k = v := by
  simp [mapLast, List.foldl_append]

example : mapLast? [([1], [2]), ([1], [3])] [1] = some [3] := by decide

/-- the loop of `loadChapters`, soundness of every output entry: it is the spine entry at
the recorded position, its path is the resolved manifest href, its content is what the
archive holds under that path -/
theorem epubLoopS_sound (look : Str → Option Nat) (base : Str) (manifest : List (Str × Str))
    (seen : List Str) (i : Nat) (l : List Str) (vi vc : Nat) (vp vid : Str)
    (hv : (vi, vc, vp, vid) ∈ epubLoopS look base manifest seen i l) :
    ∃ k, l[k]? = some vid ∧ vi = i + k ∧ chapterPath base manifest vid = some vp ∧ look vp = some vc := by
  induction l generalizing seen i with
  | nil => simp [epubLoopS] at hv
  | cons r rest ih =>
    have step : ∀ seen', (vi, vc, vp, vid) ∈ epubLoopS look base manifest seen' (i + 1) rest →
        ∃ k, (r :: rest)[k]? = some vid ∧ vi = i + k ∧ chapterPath base manifest vid = some vp ∧
          look vp = some vc := by
      intro seen' hv'
      obtain ⟨k, hk, hi, h3⟩ := ih seen' (i + 1) hv'
      exact ⟨k + 1, by simpa using hk, by omega, h3⟩
    simp only [epubLoopS] at hv
    cases hcp : chapterPath base manifest r with
    | none =>
      simp only [hcp] at hv
      exact step _ hv
    | some p =>
      simp only [hcp] at hv
      by_cases hs : p ∈ seen
      · simp only [hs, ↓reduceIte] at hv
        exact step _ hv
      · simp only [hs, ↓reduceIte] at hv
        cases hl : look p with
        | none =>
          simp only [hl] at hv
          exact step _ hv
        | some c =>
          simp only [hl, List.mem_cons, Prod.mk.injEq] at hv
          rcases hv with ⟨h1, h2, h3, h4⟩ | hv
          · subst h1 h2 h3 h4
            exact ⟨0, by simp, by simp, hcp, hl⟩
          · exact step _ hv

/-- EPUB: the spine positions recorded in the chapters strictly increase — chapters are
never reordered, whatever the archive order and whatever repetitions the spine has -/
theorem epubLoopS_index_increasing (look : Str → Option Nat) (base : Str) (manifest : List (Str × Str))
    (seen : List Str) (i : Nat) (l : List Str) :
    (epubLoopS look base manifest seen i l).Pairwise (fun u v => u.1 < v.1) := by
  induction l generalizing seen i with
  | nil => exact List.Pairwise.nil
  | cons r rest ih =>
    simp only [epubLoopS]
    cases hcp : chapterPath base manifest r with
    | none => exact ih _ _
    | some p =>
      simp only []
      by_cases hs : p ∈ seen
      · simp only [hs, ↓reduceIte]
        exact ih _ _
      · simp only [hs, ↓reduceIte]
        cases hl : look p with
        | none => exact ih _ _
        | some c =>
          show List.Pairwise _ ((i, c, p, r) :: epubLoopS look base manifest (p :: seen) (i + 1) rest)
          refine List.pairwise_cons.mpr ⟨?_, ih _ _⟩
          intro v hv
          obtain ⟨v1, v2, v3, v4⟩ := v
          obtain ⟨k, _, hk, _⟩ := epubLoopS_sound look base manifest _ _ _ v1 v2 v3 v4 hv
          show i < v1
          omega

theorem epubOpen_parts (a : Archive) (x : Docs) (base : Str) (manifest : List (Str × Str)) (spine : List Str)
    (parts : List ChapterPart) (h : epubDeclared (lookup a) x = some (base, manifest, spine))
    (ho : epubOpen a x = some parts) : parts = epubLoopS (lookup a) base manifest [] 0 spine := by
  unfold epubOpen epubOpenL at ho
  rw [h] at ho
  simp only [epubLoop] at ho
  exact eq_of_nonEmpty ho

/-- EPUB: every presented chapter `(i, c, p, id)` is the `i`-th spine entry `id`; the
manifest has an item `(id, href)` with `p` = href percent-decoded and joined to the package
directory; and the archive has a member named `p` with content `c` -/
theorem epub_chapter_sound (a : Archive) (x : Docs) (base : Str) (manifest : List (Str × Str)) (spine : List Str)
    (parts : List ChapterPart) (h : epubDeclared (lookup a) x = some (base, manifest, spine))
    (ho : epubOpen a x = some parts) (i c : Nat) (p id : Str) (hm : (i, c, p, id) ∈ parts) :
    spine[i]? = some id ∧ (∃ href, (id, href) ∈ manifest ∧ p = resolveHref base href) ∧
      lookup a p = some c ∧ (p, c) ∈ a := by
  rw [epubOpen_parts a x base manifest spine parts h ho] at hm
  obtain ⟨k, hk, hi, hcp, hl⟩ := epubLoopS_sound _ _ _ _ _ _ _ _ _ _ hm
  have : k = i := by omega
  subst this
  refine ⟨hk, ?_, hl, lookup_mem hl⟩
  unfold chapterPath at hcp
  cases hml : mapLast? manifest id with
  | none => simp [hml] at hcp
  | some href =>
    simp only [hml, Option.map_some, Option.some.injEq] at hcp
    exact ⟨href, mapLastOpt_mem manifest id href hml, hcp.symm⟩

theorem epub_indices_increasing (a : Archive) (x : Docs) (base : Str) (manifest : List (Str × Str)) (spine : List Str)
    (parts : List ChapterPart) (h : epubDeclared (lookup a) x = some (base, manifest, spine))
    (ho : epubOpen a x = some parts) :
    parts.Pairwise (fun u v => u.1 < v.1) ∧ ∀ u ∈ parts, u.1 < spine.length := by
  rw [epubOpen_parts a x base manifest spine parts h ho]
  refine ⟨epubLoopS_index_increasing _ _ _ _ _ _, ?_⟩
  intro u hu
  obtain ⟨u1, u2, u3, u4⟩ := u
  obtain ⟨k, hk, hi, _⟩ := epubLoopS_sound _ _ _ _ _ _ _ _ _ _ hu
  obtain ⟨h2, _⟩ := List.getElem?_eq_some_iff.mp hk
  show u1 < spine.length
  omega

example : ∃ b m s parts, epubDeclared (lookup exRArchive) exRDocs = some (b, m, s) ∧
    epubOpen exRArchive exRDocs = some parts ∧ parts ≠ [] := ⟨_, _, _, _, rfl, rfl, by decide⟩

/-! ### hrefs without escapes -/

/-- an href without `%` is its own percent-decoding -/
theorem pathUnescape_no_percent (s : Str) (h : 37 ∉ s) : pathUnescape s = some s := by
  induction s with
  | nil => rfl
  | cons c rest ih =>
    have hc : c ≠ 37 := fun e => h (e ▸ List.mem_cons_self)
    have hr : 37 ∉ rest := fun m => h (List.mem_cons_of_mem _ m)
    rw [pathUnescape_literal c hc rest, ih hr]
    rfl

/-- … so it is resolved verbatim: `path.Join(baseDir, href)` -/
theorem resolveHref_no_percent (base href : Str) (h : 37 ∉ href) : resolveHref base href = join2 base href := by
  unfold resolveHref
  rw [pathUnescape_no_percent href h]

/-- an href whose percent-decoding fails is resolved raw (the error is swallowed) -/
theorem resolveHref_bad_escape (base href : Str) (h : pathUnescape href = none) :
    resolveHref base href = join2 base href := by
  unfold resolveHref
  rw [h]

/-- a `%` that is not followed by two characters is a decoding error, wherever it is
preceded by literal characters only -/
theorem pathUnescape_truncated (pre : Str) (tail : Str) (hp : 37 ∉ pre) (ht : tail.length < 2) :
    pathUnescape (pre ++ 37 :: tail) = none := by
  induction pre with
  | nil =>
    match tail, ht with
    | [], _ => rfl
    | [_], _ => rfl
  | cons c rest ih =>
    have hc : c ≠ 37 := fun e => hp (e ▸ List.mem_cons_self)
    have hr : 37 ∉ rest := fun m => hp (List.mem_cons_of_mem _ m)
    rw [List.cons_append, pathUnescape_literal c hc, ih hr]
    rfl

example : pathUnescape [97, 37, 52] = none := by decide
example : resolveHref [79] [97, 37, 52] = [79, 47, 97, 37, 52] := by decide

/-! ### the PPTX file-name fallback on candidates that are in order already -/

theorem insertBy_last (k : Str → Int) (v : Str) (acc : List Str) (h : ∀ y ∈ acc, k y ≤ k v) :
    insertBy k v acc = acc ++ [v] := by
  induction acc with
  | nil => rfl
  | cons y ys ih =>
    have hy : ¬ k v < k y := by
      have := h y List.mem_cons_self
      omega
    simp only [insertBy, hy, ↓reduceIte, List.cons_append]
    rw [ih (fun z hz => h z (List.mem_cons_of_mem _ hz))]

theorem foldl_insertBy_of_sorted (k : Str → Int) (l acc : List Str) (h : SortedBy k (acc ++ l)) :
    l.foldl (fun acc v => insertBy k v acc) acc = acc ++ l := by
  induction l generalizing acc with
  | nil => simp
  | cons v rest ih =>
    have hle : ∀ y ∈ acc, k y ≤ k v := fun y hy =>
      (List.pairwise_append.mp h).2.2 y hy v List.mem_cons_self
    have h' : SortedBy k ((acc ++ [v]) ++ rest) := by
      simpa [SortedBy, List.append_assoc] using h
    simp only [List.foldl_cons]
    rw [insertBy_last k v acc hle, ih (acc ++ [v]) h']
    simp [List.append_assoc]

/-- candidates met in ascending slide-number order (ties allowed) are left as met -/
theorem sortByNumber_of_sorted (l : List Str) (h : SortedBy extractSlideNumber l) : sortByNumber l = l := by
  unfold sortByNumber
  have := foldl_insertBy_of_sorted extractSlideNumber l [] (by simpa using h)
  simpa using this

/-- sorting twice is sorting once -/
theorem sortByNumber_idem (l : List Str) : sortByNumber (sortByNumber l) = sortByNumber l :=
  sortByNumber_of_sorted _ (sortByNumber_sorted l)

theorem sort_filter_idem (P : Str → Bool) (l : List Str) :
    sortByNumber ((sortByNumber (l.filter P)).filter P) = sortByNumber (l.filter P) := by
  have hf : (sortByNumber (l.filter P)).filter P = sortByNumber (l.filter P) := by
    apply List.filter_eq_self.mpr
    intro y hy
    have := (sortByNumber_perm _).mem_iff.mp hy
    exact (List.mem_filter.mp this).2
  rw [hf]
  exact sortByNumber_idem _

/-- the fallback slide list of an archive whose slide members already come in ascending
slide-number order is those members in archive order -/
theorem fallbackSlidePaths_of_sorted (names : List Str)
    (h : SortedBy extractSlideNumber
      (names.filter fun n => hasPrefix sSlidePre n && hasSuffix sXml n && !hasSub sRelsDir n)) :
    fallbackSlidePaths names =
      names.filter fun n => hasPrefix sSlidePre n && hasSuffix sXml n && !hasSub sRelsDir n := by
  unfold fallbackSlidePaths
  exact sortByNumber_of_sorted _ h

/-- running the discovery on its own result changes nothing -/
theorem fallbackSlidePaths_idem (names : List Str) :
    fallbackSlidePaths (fallbackSlidePaths names) = fallbackSlidePaths names := by
  unfold fallbackSlidePaths
  exact sort_filter_idem _ names

example : SortedBy extractSlideNumber [[49], [50], [50]] := by
  unfold SortedBy
  decide

/-! ### EPUB: presented ⇔ declared, first listing of its resource, found -/

theorem epubPart_eq_some (look : Str → Option Nat) (base : Str) (manifest : List (Str × Str)) (j : Nat) (r : Str)
    (i c : Nat) (p id : Str) :
    epubPart look base manifest j r = some (i, c, p, id) ↔
      j = i ∧ r = id ∧ chapterPath base manifest r = some p ∧ look p = some c := by
  unfold epubPart
  split
  · rename_i hcp
    simp [hcp]
  · rename_i q hcp
    split
    · rename_i hl
      simp only [hcp, Option.some.injEq]
      constructor
      · intro h
        cases h
      · rintro ⟨_, _, h3, h4⟩
        rw [← h3, hl] at h4
        cases h4
    · rename_i d hl
      simp only [hcp, Option.some.injEq, Prod.mk.injEq]
      constructor
      · rintro ⟨h1, h2, h3, h4⟩
        exact ⟨h1, h4, h3, by rw [← h3, hl, h2]⟩
      · rintro ⟨h1, h2, h3, h4⟩
        rw [← h3, hl] at h4
        exact ⟨h1, Option.some.inj h4, h3, h2⟩

/-- EPUB, both directions: `(i, c, p, id)` is a presented chapter iff `id` is the `i`-th
spine entry, the manifest resolves it to the archive name `p`, the archive holds `c` under
`p`, and no EARLIER spine entry resolves to `p` — every declared, readable resource is a
chapter exactly at its first listing, and nothing else is -/
theorem epub_chapter_iff (a : Archive) (x : Docs) (base : Str) (manifest : List (Str × Str)) (spine : List Str)
    (parts : List ChapterPart) (h : epubDeclared (lookup a) x = some (base, manifest, spine))
    (ho : epubOpen a x = some parts) (i c : Nat) (p id : Str) :
    (i, c, p, id) ∈ parts ↔
      spine[i]? = some id ∧ chapterPath base manifest id = some p ∧ lookup a p = some c ∧
        ∀ j r, j < i → spine[j]? = some r → chapterPath base manifest r ≠ some p := by
  rw [epubOpen_parts a x base manifest spine parts h ho]
  show (i, c, p, id) ∈ epubLoop (lookup a) base manifest 0 spine ↔ _
  rw [epubLoop_eq_spineFirsts, List.mem_filterMap]
  constructor
  · rintro ⟨⟨r, k⟩, he, hf⟩
    have hf' : epubPart (lookup a) base manifest k r = some (i, c, p, id) := hf
    obtain ⟨h1, h2, h3, h4⟩ := (epubPart_eq_some _ _ _ _ _ _ _ _ _).mp hf'
    subst h1 h2
    obtain ⟨hs, q, hq, hno⟩ := (mem_spineFirsts base manifest spine (r, k)).mp he
    have hq' : chapterPath base manifest r = some q := hq
    rw [h3] at hq'
    have hqp : p = q := Option.some.inj hq'
    subst hqp
    exact ⟨hs, h3, h4, hno⟩
  · rintro ⟨hs, hcp, hl, hno⟩
    refine ⟨(id, i), (mem_spineFirsts base manifest spine (id, i)).mpr ⟨hs, p, hcp, hno⟩, ?_⟩
    exact (epubPart_eq_some _ _ _ _ _ _ _ _ _).mpr ⟨rfl, rfl, hcp, hl⟩

/-! ### page count never exceeds the declaration -/

theorem loopIdx_length_le {α β : Type} (f : Nat → α → Option β) (i : Nat) (l : List α) :
    (loopIdx f i l).length ≤ l.length := by
  rw [loopIdx_eq_filterMap]
  have := List.length_filterMap_le (fun e : α × Nat => f e.2 e.1) (l.zipIdx i)
  simpa using this

theorem ne_nil_of_nonEmpty {α : Type} [DecidableEq α] {l parts : List α}
    (h : (if l = [] then none else some l) = some parts) : parts ≠ [] := by
  split at h
  · cases h
  · rename_i hne
    cases h
    exact hne

theorem xlsx_count_le_declared (a : Archive) (x : Docs) (rels sheets : List (Str × Str)) (parts : List SheetPart)
    (h : xlsxDeclared (lookup a) x = some (rels, sheets)) (ho : xlsxOpen a x = some parts) :
    0 < parts.length ∧ parts.length ≤ sheets.length := by
  constructor
  · unfold xlsxOpen xlsxOpenL at ho
    rw [h] at ho
    simp only [xlsxLoop] at ho
    exact List.length_pos_iff.mpr (ne_nil_of_nonEmpty ho)
  · rw [xlsxOpen_parts a x rels sheets parts h ho]
    exact loopIdx_length_le _ _ _

theorem pptx_count_le_declared (a : Archive) (x : Docs) (declared : List Str) (parts : List SlidePart)
    (h : pptxDeclared (lookup a) x = some declared) (hne : declared ≠ [])
    (ho : pptxOpen a x = some parts) : parts.length ≤ declared.length := by
  rw [pptxOpen_parts a x declared parts h hne ho]
  exact loopIdx_length_le _ _ _

/-! ### PPTX without a declaration: the file-name fallback, end to end -/

theorem pptxOpen_parts_gen (a : Archive) (x : Docs) (declared : List Str) (parts : List SlidePart)
    (h : pptxDeclared (lookup a) x = some declared) (ho : pptxOpen a x = some parts) :
    parts = loopIdx (pptxPart (lookup a) x) 0
      (if declared = [] then fallbackSlidePaths (a.map Prod.fst) else declared) := by
  unfold pptxOpen pptxOpenL at ho
  rw [h] at ho
  simp only [pptxLoop] at ho
  exact eq_of_nonEmpty ho

theorem pptxOpen_parts_fallback (a : Archive) (x : Docs) (parts : List SlidePart)
    (h : pptxDeclared (lookup a) x = some []) (ho : pptxOpen a x = some parts) :
    parts = loopIdx (pptxPart (lookup a) x) 0 (fallbackSlidePaths (a.map Prod.fst)) := by
  have := pptxOpen_parts_gen a x [] parts h ho
  simpa using this

/-- a deck that declares no slides: every presented slide is a member of the archive named
`ppt/slides/slide….xml` (not under `_rels`), at its position in the discovered list -/
theorem pptx_fallback_part_sound (a : Archive) (x : Docs) (parts : List SlidePart)
    (h : pptxDeclared (lookup a) x = some []) (ho : pptxOpen a x = some parts) (i c : Nat)
    (hm : (i, c) ∈ parts) :
    ∃ p, (fallbackSlidePaths (a.map Prod.fst))[i]? = some p ∧ (p, c) ∈ a ∧ x c = .slide ∧
      (hasPrefix sSlidePre p && hasSuffix sXml p && !hasSub sRelsDir p) = true := by
  rw [pptxOpen_parts_fallback a x parts h ho, mem_loopIdx_iff] at hm
  obtain ⟨k, p, hk, hf⟩ := hm
  obtain ⟨h1, h2, h3⟩ := (pptxPart_eq_some _ _ _ _ _ _).mp hf
  have : k = i := by omega
  subst this
  refine ⟨p, hk, lookup_mem h2, h3, ?_⟩
  have hp : p ∈ fallbackSlidePaths (a.map Prod.fst) := List.mem_of_getElem? hk
  unfold fallbackSlidePaths at hp
  have := (sortByNumber_perm _).mem_iff.mp hp
  exact (List.mem_filter.mp this).2

/-- the discovered list is in ascending order of the number in the file name -/
theorem fallback_numbers_ascending (names : List Str) (i j : Nat) (p1 p2 : Str)
    (hi : (fallbackSlidePaths names)[i]? = some p1) (hj : (fallbackSlidePaths names)[j]? = some p2)
    (hij : i < j) : extractSlideNumber p1 ≤ extractSlideNumber p2 := by
  have hs : (fallbackSlidePaths names).Pairwise (fun a b => extractSlideNumber a ≤ extractSlideNumber b) :=
    sortByNumber_sorted _
  obtain ⟨hi', ei⟩ := List.getElem?_eq_some_iff.mp hi
  obtain ⟨hj', ej⟩ := List.getElem?_eq_some_iff.mp hj
  have := List.pairwise_iff_getElem.mp hs i j hi' hj' hij
  rw [ei, ej] at this
  exact this

/-- a deck without `sldIdLst`: slide2 stored before slide1 -/
def exFA : Archive :=
  [(sCT, 1), (sPres, 2), (sSlidePre ++ [50] ++ sXml, 12), (sSlidePre ++ [49] ++ sXml, 11)]
def exFD : Docs := fun c =>
  if c = 2 then .presentation none else if c = 11 ∨ c = 12 then .slide else .opaque

example : pptxDeclared (lookup exFA) exFD = some [] := by decide
example : pptxOpen exFA exFD = some [(0, 11), (1, 12)] := by decide

end Tabula.C18More
