import TabulaModel.Props.C08
import TabulaModel.Lemmas.Dyck
/-!
# C08 — the q/Q stack over arbitrary operator histories

`qQ_restores` (Props/C08.lean) is about balanced programs.  This file is about all the
others:

* `exec_depth`: on every page program (any operators, any number of unmatched `q` or `Q`;
  forms with balanced content anywhere) `Extract` fails exactly when the q/Q counter
  `depthAfter` underflows, and otherwise ends with exactly the counted number of saved
  states — the extractor keeps no other record of `q`;
* what `Do` does with a form whose content is NOT balanced (outside ISO 32000-1 8.4.2; the
  extractor ignores a failing `Q` inside a form and restores "what is on top" afterwards):
  `form_unclosed_q` (one `q` too many: the page continues inside the form's coordinate
  system) and `form_extra_Q` (one `Q` too many: the rest of the form runs in the page's own
  state and the page loses one of its saved states), for arbitrary balanced pieces around
  the unmatched operator; `do_never_fails`.
-/
namespace Tabula.C08Stack
open Tabula Tabula.Matrix Tabula.GState Tabula.XDoc Tabula.C08

variable {α : Type} [Lean.Grind.CommRing α] [DecidableEq α] [LT α] [DecidableLT α]

/-- a form with balanced content gives the state back (below or at the nesting limit) -/
theorem step_form_balanced (adv : Adv α) (m : Option (Matrix α)) (body : List (Op α)) (hb : Balanced body)
    (s : State α) : ∃ out, step adv (.form m body) s = (s, out, false) := by
  by_cases hdep : s.xdepth ≥ maxXObjectDepth
  · exact ⟨[], by simp [step, hdep]⟩
  · obtain ⟨s1, o1, _, h2, h3, h4⟩ := balanced_exec adv hb (formEnter m s)
    have hx := formExit_formEnter m s s1 h3 h4
    exact ⟨o1, by simp [step, hdep, h2, hx]⟩

/-- **`Extract` fails exactly when the q/Q counter underflows, and keeps exactly the
counted number of saved states**: for every program whose forms have balanced content
(`Do`-free programs in particular) — any operators, unmatched `q` and `Q` in any number and
order — and every starting state, `depthAfter` (count up at `q`, down at `Q`, fail at 0;
nothing else counts) started at the current stack depth is `none` iff the extractor
returns an error, and otherwise is the stack depth it ends with. -/
theorem exec_depth (adv : Adv α) (ops : List (Op α)) (h : FormsBalanced ops) (s : State α) :
    (exec adv ops s).map (·.1.stack.length) = depthAfter s.stack.length ops := by
  induction ops generalizing s with
  | nil => rfl
  | cons op rest ih =>
    have ihr := fun s' => ih h.tail s'
    by_cases hp : op.plain = true
    · obtain ⟨he, hs, _⟩ := stepBasic_plain adv op hp s
      have hq : op ≠ Op.q := by intro hc; subst hc; simp [Op.plain] at hp
      have hQ : op ≠ Op.Q := by intro hc; subst hc; simp [Op.plain] at hp
      rw [depthAfter_other _ _ _ hq hQ, exec, step_plain adv op hp, he]
      simp only [Bool.false_eq_true, if_false]
      rw [← hs, ← ihr]
      cases exec adv rest (stepBasic adv op s).1 <;> rfl
    · cases op <;> simp [Op.plain] at hp
      · -- q
        rw [depthAfter_q, exec]
        simp only [step, stepBasic, Bool.false_eq_true, if_false]
        have := ihr s.save
        have hl : s.save.stack.length = s.stack.length + 1 := rfl
        rw [hl] at this
        rw [← this]
        cases exec adv rest s.save <;> rfl
      · -- Q
        cases hst : s.stack with
        | nil =>
          simp [exec, step, stepBasic, State.restore, hst, depthAfter_Q_zero]
        | cons f fs =>
          rw [List.length_cons, depthAfter_Q_succ, exec]
          simp only [step, stepBasic, State.restore, hst, Bool.false_eq_true, if_false]
          have := ihr { s with cur := f, stack := fs }
          simp only at this
          rw [← this]
          cases exec adv rest { s with cur := f, stack := fs } <;> rfl
      · -- Do
        rename_i m body
        obtain ⟨out, hstep⟩ := step_form_balanced adv m body (h m body List.mem_cons_self) s
        rw [depthAfter_other _ _ _ (by intro hc; cases hc) (by intro hc; cases hc), exec, hstep]
        simp only [Bool.false_eq_true, if_false]
        rw [← ihr]
        cases exec adv rest s <;> rfl

/-- hence: the extractor fails iff the counter does -/
theorem exec_fails_iff_counter (adv : Adv α) (ops : List (Op α)) (h : FormsBalanced ops) (s : State α) :
    exec adv ops s = none ↔ depthAfter s.stack.length ops = none := by
  rw [← exec_depth adv ops h s]
  cases exec adv ops s <;> simp

/-- three unmatched `q`, then five `Q`: the fourth `Q` fails — and with one more saved
state to start from, the fifth -/
example : depthAfter 0 ([.q, .cm ⟨2, 0, 0, 2, 0, 0⟩, .q, .BT, .q, .Q, .Q, .Tj 0, .Q, .Q, .Q] : List (Op Int)) = none ∧
    depthAfter 0 ([.q, .cm ⟨2, 0, 0, 2, 0, 0⟩, .q, .BT, .q, .Q, .Tj 0] : List (Op Int)) = some 2 := by
  decide

/-! ## forms with unbalanced content -/

/-- **`Do` never fails**, whatever the form's content is: errors of the operations of a
form are dropped ("Continue processing despite errors") -/
theorem do_never_fails (adv : Adv α) (m : Option (Matrix α)) (body : List (Op α)) (s : State α) :
    (step adv (.form m body) s).2.2 = false := by
  simp only [step]
  split <;> rfl

/-- **one `q` too many**: a form whose content is `b0 q b1` with balanced `b0`, `b1`
(invoked below the nesting limit).  Every fragment of `b0` and `b1` is reported; the `Q`
the extractor executes on the way out closes the form's unmatched `q`, not the extractor's
own `Save` — so afterwards the page is in the state `b0` ended in INSIDE the form (the
form's `/Matrix` still applied to the CTM, its text state), and the state the page had is
one level down the stack: the page continues as if `q /Matrix cm b0` had been written on it
and never closed. -/
theorem form_unclosed_q (adv : Adv α) (m : Option (Matrix α)) (b0 b1 : List (Op α))
    (h0 : Balanced b0) (h1 : Balanced b1) (s : State α) (hd : s.xdepth < maxXObjectDepth) :
    ∃ s2 o0 o1, runForm adv b0 (formEnter m s) = (s2, o0) ∧
      step adv (.form m (b0 ++ Op.q :: b1)) s =
        ({ cur := s2.cur, stack := s.cur :: s.stack, xdepth := s.xdepth }, o0 ++ o1, false) := by
  obtain ⟨s2, o0, _, r0, st0, d0⟩ := balanced_exec adv h0 (formEnter m s)
  obtain ⟨s3, o1, _, r1, st1, d1⟩ := balanced_exec adv h1 s2.save
  refine ⟨s2, o0, o1, r0, ?_⟩
  have hst : (formEnter m s).stack = s.cur :: s.stack := by
    cases m <;> simp [formEnter, State.save, State.transform]
  have hxd : (formEnter m s).xdepth = s.xdepth + 1 := by
    cases m <;> simp [formEnter, State.save, State.transform]
  have hnd : ¬ (s.xdepth ≥ maxXObjectDepth) := by omega
  have hrun : runForm adv (b0 ++ Op.q :: b1) (formEnter m s) = (s3, o0 ++ o1) := by
    rw [runForm_append, r0, runForm_plain' adv]
    simp only [stepBasic, r1, List.nil_append]
  have hexit : formExit s3 = { cur := s2.cur, stack := s.cur :: s.stack, xdepth := s.xdepth } := by
    have h3 : s3.stack = s2.cur :: s.cur :: s.stack := by
      rw [st1]; simp only [State.save]; rw [st0, hst]
    have h3d : s3.xdepth = s.xdepth + 1 := by
      rw [d1]; simp only [State.save]; rw [d0, hxd]
    cases s3 with | mk c st d =>
    simp only at h3 h3d
    subst h3 h3d
    simp [formExit, State.restore]
  simp only [step, hnd, if_false, hrun, hexit]

/-- **one `Q` too many**: a form whose content is `b0 Q b1` with balanced `b0`, `b1`.  The
unmatched `Q` pops the extractor's own `Save`: `b1` runs in the page's own graphics state
(the `/Matrix` is gone), and the `Q` on the way out takes one of the PAGE's saved states —
or, when the page has none, fails silently and leaves whatever `b1` did to the CTM and the
text state in force on the page. -/
theorem form_extra_Q (adv : Adv α) (m : Option (Matrix α)) (b0 b1 : List (Op α))
    (h0 : Balanced b0) (h1 : Balanced b1) (s : State α) (hd : s.xdepth < maxXObjectDepth) :
    ∃ o0 s3 o1, runForm adv b1 { s with xdepth := s.xdepth + 1 } = (s3, o1) ∧
      step adv (.form m (b0 ++ Op.Q :: b1)) s =
        ((match s.stack with
          | [] => { s3 with xdepth := s.xdepth }
          | f :: rest => { cur := f, stack := rest, xdepth := s.xdepth }), o0 ++ o1, false) := by
  obtain ⟨s2, o0, _, r0, st0, d0⟩ := balanced_exec adv h0 (formEnter m s)
  obtain ⟨s3, o1, _, r1, st1, d1⟩ := balanced_exec adv h1 { s with xdepth := s.xdepth + 1 }
  refine ⟨o0, s3, o1, r1, ?_⟩
  have hst : (formEnter m s).stack = s.cur :: s.stack := by
    cases m <;> simp [formEnter, State.save, State.transform]
  have hxd : (formEnter m s).xdepth = s.xdepth + 1 := by
    cases m <;> simp [formEnter, State.save, State.transform]
  have hnd : ¬ (s.xdepth ≥ maxXObjectDepth) := by omega
  have hpop : s2.restore = some { s with xdepth := s.xdepth + 1 } := by
    cases s2 with | mk c st d =>
    simp only at st0 d0
    rw [hst] at st0; rw [hxd] at d0
    subst st0 d0
    simp [State.restore]
  have hrun : runForm adv (b0 ++ Op.Q :: b1) (formEnter m s) = (s3, o0 ++ o1) := by
    rw [runForm_append, r0]
    simp only [runForm, stepBasic, hpop, r1, List.nil_append]
  have hexit : formExit s3 = (match s.stack with
      | [] => { s3 with xdepth := s.xdepth }
      | f :: rest => { cur := f, stack := rest, xdepth := s.xdepth }) := by
    cases s3 with | mk c st d =>
    simp only at st1 d1
    subst st1 d1
    cases hs : s.stack <;> simp [formExit, State.restore]
  simp only [step, hnd, if_false, hrun, hexit]

/-- both at work (the two unbalanced witnesses of the harness): a form `BT 1 1 Td (a) Tj Q
(b) Tj` under `q 2 0 0 2 3 4 cm`: `b` is shown in the page's state and the page's `q` is
gone afterwards; a form `3 0 0 3 0 0 cm q 5 0 0 5 0 0 cm` leaves the page scaled by 3 -/
example :
    (step (fun _ _ => 0) (.form (some ⟨0, 1, -1, 0, 30, 40⟩) [.BT, .Td 1 1, .Tj 0, .Q, .Tj 1])
      (step (fun _ _ => 0) (.cm ⟨2, 0, 0, 2, 3, 4⟩) (step (fun _ _ => 0) .q (init : State Int)).1).1).1.stack.length = 0 ∧
    (step (fun _ _ => 0) (.form none [.cm ⟨3, 0, 0, 3, 0, 0⟩, .q, .cm ⟨5, 0, 0, 5, 0, 0⟩]) (init : State Int)).1.cur.ctm = ⟨3, 0, 0, 3, 0, 0⟩ := by
  simp [step, runForm, stepBasic, formEnter, formExit, maxXObjectDepth, init, initText, State.save,
    State.restore, State.transform, State.beginText, State.translateText, State.mapText, showText,
    State.advanceText, State.getTextPosition, Matrix.mul, Matrix.identity, Matrix.translate]

end Tabula.C08Stack
