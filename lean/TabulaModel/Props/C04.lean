import TabulaModel.Lemmas.Xref
import TabulaModel.Lemmas.XrefBytes
/-!
# C04 — Object lookup returns the newest revision, in any access order
-/
namespace Tabula.C04
open Tabula.Xref

/-- **merge_newest**: in the merged table, object `n` has the entry of the *last* (newest)
table, of any number of tables, that mentions `n`. -/
theorem merge_newest (ts : List Section) (n : Nat) :
    getLast (mergeTables ts) n = newest ts n := getLast_flatten ts n

/-- … and no entry iff no table mentions it -/
theorem merge_none_iff (ts : List Section) (n : Nat) :
    getLast (mergeTables ts) n = none ↔ ∀ t ∈ ts, getLast t n = none := by
  rw [merge_newest]
  induction ts with
  | nil => simp [newest]
  | cons t ts ih =>
    simp only [newest, List.mem_cons, forall_eq_or_imp]
    cases h1 : newest ts n with
    | some e =>
      constructor
      · intro h; simp at h
      · intro h
        have := ih.mpr h.2
        rw [h1] at this; cases this
    | none =>
      have hall := ih.mp h1
      constructor
      · intro h; exact ⟨by simpa using h, hall⟩
      · intro h; simpa using h.1

/-- a later revision overrides every earlier one -/
theorem newer_wins (older : List Section) (t : Section) (n : Nat) (e : Entry)
    (h : getLast t n = some e) : getLast (mergeTables (older ++ [t])) n = some e := by
  simp [mergeTables, List.flatten_append, getLast_append, h]

/-- **getObject_refines**: from empty caches, for every finite sequence of `get`/`clearCache`
operations, every `get n` returns exactly `specGet n`.

Scope since the C02 repair 129dd3d (statement and proof unchanged — it is about the abstract
`File`, in which `ParseIndirectObject` at an offset is a function of the file alone): that
abstraction holds for the code as long as no lookup loads more than `maxNestedLoads` = 16
objects inside each other (indirect `/Length` chains; every file conforming to ISO 32000-1 nests
at most 3). Beyond that the code's answer at an offset depends on how deep the lookup stands —
but, since the repair 8b4ac6e, no longer on the caches: a cache hit is counted as the load it
stands for, and on chains of every length the caches are order-free
(`C04NC.nested_cache_order_free`; the rule of 129dd3d, under which the statement was FALSE for
the code beyond the limit, is kept in `C04NC.nested_cache_order_dependence_pinned_counterexample`). -/
theorem getObject_refines (f : File) (ops : List Op) :
    run f {} ops = specRun f ops := run_refines f ops {} (cacheOk_empty f)

/-- **lookup_order_free**: whatever was looked up or cleared before, in whatever order and
however often, `get n` answers `specGet n`. (Scope: as for `getObject_refines`; beyond 16
nested loads see `C04NC.nested_cache_order_free`.) -/
theorem lookup_order_free (f : File) (before : List Op) (n : Nat) :
    (run f {} (before ++ [.get n])).getLast? = some (specGet f n) := by
  rw [getObject_refines]
  induction before with
  | nil => simp [specRun]
  | cons op ops ih =>
    cases op with
    | get m =>
      simp only [List.cons_append, specRun]
      rw [List.getLast?_cons, ih]; simp
    | clear => simpa [specRun] using ih

/-- newest entry free, or never defined ⇒ error -/
theorem free_or_missing_is_error (ts : List Section) (objs : Objects) (n : Nat)
    (h : newest ts n = none ∨ ∃ nx, newest ts n = some (.free nx)) :
    specGet ⟨mergeTables ts, objs⟩ n = none := by
  unfold specGet
  simp only
  rw [merge_newest]
  rcases h with h | ⟨nx, h⟩ <;> simp [h]

/-- newest entry is an offset ⇒ the object whose header carries number `n` at that offset -/
theorem newest_offset_value (ts : List Section) (objs : Objects) (n off : Nat) (v : Val)
    (h : newest ts n = some (.at off)) (ho : getLast objs off = some (n, v)) :
    specGet ⟨mergeTables ts, objs⟩ n = some v := by
  unfold specGet
  simp only
  rw [merge_newest, h]
  simp [getUncompressed, ho]

/-- **chain_oldest_first**: following `/Prev` from the newest section along a chain of
distinct offsets yields the revisions oldest first, each once. (Termination on cyclic
`/Prev` is by construction: `chainFrom` never visits an offset twice.) -/
theorem chain_oldest_first (secs : Sections) (start : Nat) (path : List (Nat × Section))
    (h : IsChain secs start path) (hnd : (path.map Prod.fst).Nodup) :
    parseAllXRefs secs start = (path.map Prod.snd).reverse := by
  unfold parseAllXRefs
  have hlen : path.length ≤ secs.length + 1 := by
    have := List.Nodup.length_le_of_subset hnd h.keys_subset
    simp at this; omega
  rw [chainFrom_path secs start path h _ [] hlen hnd (by simp)]

/-- a cyclic `/Prev` (100 → 50 → 100) terminates and yields each section once -/
example :
    parseAllXRefs [(100, ([(1, .at 10)], some 50)), (50, ([(1, .at 5)], some 100))] 100
      = [[(1, .at 5)], [(1, .at 10)]] := by decide

/-- non-vacuity of `chain_oldest_first`: a two-revision file -/
example : IsChain [(100, ([(1, Entry.at 10)], some 50)), (50, ([(1, .at 5)], none))] 100
    [(100, [(1, .at 10)]), (50, [(1, .at 5)])] :=
  .step 100 _ 50 _ (by decide) (.last 50 _ (by decide))

/-! ### byte-level entries -/
open Tabula.XrefBytes Tabula.A1 in
/-- **xref_stream_entry_roundtrip**: a binary cross-reference entry written with field widths
`/W [w0 w1 w2]` (each at most 8 bytes; `w0 = 0` allowed for in-use entries, whose type is then
the default 1) is read back as written, whatever follows it, and consumes exactly
`w0+w1+w2` bytes. -/
theorem xref_stream_entry_roundtrip (k : Kind) (f1 f2 w0 w1 w2 : Nat) (rest : List Nat)
    (h0 : w0 ≤ 8) (h1 : w1 ≤ 8) (h2 : w2 ≤ 8) (hf1 : f1 < 256 ^ w1) (hf2 : f2 < 256 ^ w2)
    (hk : 0 < w0 ∨ k = .inUse) :
    parseStreamEntry (encodeStreamEntry k f1 f2 w0 w1 w2 ++ rest) w0 w1 w2 =
      some ((k, f1, f2), w0 + w1 + w2) := by
  unfold parseStreamEntry encodeStreamEntry
  have hlen : ¬ ((beBytes (kindCode k) w0 ++ beBytes f1 w1 ++ beBytes f2 w2 ++ rest).length < w0 + w1 + w2) := by
    simp [beBytes_length]; omega
  simp only [hlen, if_false]
  have hd1 : (beBytes (kindCode k) w0 ++ beBytes f1 w1 ++ beBytes f2 w2 ++ rest).drop w0 =
      beBytes f1 w1 ++ (beBytes f2 w2 ++ rest) := by
    rw [List.append_assoc, List.append_assoc, List.drop_append_of_le_length (by simp [beBytes_length])]
    simp [beBytes_length]
  have hd2 : (beBytes (kindCode k) w0 ++ beBytes f1 w1 ++ beBytes f2 w2 ++ rest).drop (w0 + w1) =
      beBytes f2 w2 ++ rest := by
    rw [← List.drop_drop, hd1, List.drop_append_of_le_length (by simp [beBytes_length])]
    simp [beBytes_length]
  rw [hd1, hd2, readBE_beBytes f1 w1 _ h1 hf1, readBE_beBytes f2 w2 _ h2 hf2]
  by_cases hw : w0 > 0
  · have hkc : kindCode k < 256 ^ w0 := by
      have : kindCode k ≤ 2 := by cases k <;> simp [kindCode]
      have : 256 ^ 1 ≤ 256 ^ w0 := Nat.pow_le_pow_right (by omega) hw
      omega
    have := readBE_beBytes (kindCode k) w0 (beBytes f1 w1 ++ (beBytes f2 w2 ++ rest)) h0 hkc
    simp only [List.append_assoc] at this ⊢
    simp only [hw, if_true, this]
    cases k <;> rfl
  · have hk' : k = .inUse := by
      rcases hk with h | h
      · exact absurd h hw
      · exact h
    subst hk'
    simp [hw]

open Tabula.XrefBytes Tabula.A1 in
/-- **xref_entry_roundtrip**: the 18 significant bytes `nnnnnnnnnn ggggg n|f` of a classic
cross-reference entry, followed by any end-of-line bytes (SP LF, SP CR, CR LF …), are read
back as (offset, generation, in-use) for every offset below 10^10 and generation below 10^5. -/
theorem xref_entry_roundtrip (off gen : Nat) (inUse : Bool) (eol : Str)
    (hoff : off < 10 ^ 10) (hgen : gen < 10 ^ 5) :
    parseEntry (fmtEntry off gen inUse ++ eol) = some ((off : Int), (gen : Int), inUse) :=
  parseEntry_fmtEntry off gen inUse eol hoff hgen

end Tabula.C04
