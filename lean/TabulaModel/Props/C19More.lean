import TabulaModel.Props.C19
import TabulaModel.Model.HtmlApi
/-!
# C19 — further all-input laws of the HTML model

About the existing models (Model/Nav.lean, Model/Html.lean), for every string, vocabulary, tree,
predicate, position and traversal state:

* the class/id pattern is a homomorphism in its vocabulary (the ONE combined regular expression the
  code uses decides exactly like the disjunction of the four documented groups nav / header /
  footer / sidebar), and it is case-insensitive as a law: any re-spelling of the characters that
  keeps their case fold and their letter-ness (e.g. upper-casing, lower-casing) keeps the decision;
* what a decision may depend on: Explicit and Standard never look at the children, no mode looks
  at the position beyond `isTopLevel`;
* an excluded node leaves the traversal state untouched (pending list items are not even flushed):
  its siblings close up, in the specification and in the stateful traversal;
* the output of the traversal only grows: the elements emitted so far are never retracted, changed
  or reordered by anything that follows, so the elements (and the text) of the first children of a
  node are a prefix of the elements (text) of all its children;
* `TextWithOptions` is a left fold: text of a concatenation, text only grows;
* the per-mode cache stays small on every call history.
-/
namespace Tabula.C19More
open Tabula.Html

/-! ## the pattern is a homomorphism in its vocabulary -/

/-- a word of `v1 ++ v2` starts here iff a word of `v1` or a word of `v2` does -/
theorem word_at_union (v1 v2 : List Str) (s : Str) :
    wordAt (v1 ++ v2) s = (wordAt v1 s || wordAt v2 s) := by
  unfold wordAt; rw [List.any_append]

theorem match_from_union (v1 v2 : List Str) : ∀ (s : Str) (b : Bool),
    matchFrom (v1 ++ v2) b s = (matchFrom v1 b s || matchFrom v2 b s)
  | [], b => by simp [matchFrom]
  | c :: cs, b => by
      simp only [matchFrom, word_at_union, match_from_union v1 v2 cs]
      generalize wordAt v1 (c :: cs) = x1
      generalize wordAt v2 (c :: cs) = x2
      generalize matchFrom v1 (isLetter c) cs = y1
      generalize matchFrom v2 (isLetter c) cs = y2
      cases b <;> cases x1 <;> cases x2 <;> cases y1 <;> cases y2 <;> rfl

/-- the regular expression built from two vocabularies together matches exactly the strings one
of the two separate expressions matches, for every string -/
theorem pattern_union (v1 v2 : List Str) (s : Str) :
    matchVocab (v1 ++ v2) s = (matchVocab v1 s || matchVocab v2 s) :=
  match_from_union v1 v2 s false

/-- an empty vocabulary matches nothing (modes None and Explicit) -/
theorem empty_vocabulary_matches_nothing : ∀ (s : Str) (b : Bool), matchFrom [] b s = false
  | [], _ => rfl
  | c :: cs, b => by
      simp only [matchFrom, wordAt, List.any_nil, Bool.and_false, Bool.false_or]
      exact empty_vocabulary_matches_nothing cs _

/-- … and so does the class/id rule, attribute by attribute -/
theorem class_id_rule_union (v1 v2 : List Str) (attrs : List (Str × Str)) :
    excludedPattern (v1 ++ v2) attrs = (excludedPattern v1 attrs || excludedPattern v2 attrs) := by
  simp only [excludedPattern, pattern_union]
  generalize (getAttr attrs A.class != []) = a
  generalize (getAttr attrs A.id != []) = b
  generalize matchVocab v1 (getAttr attrs A.class) = x1
  generalize matchVocab v2 (getAttr attrs A.class) = x2
  generalize matchVocab v1 (getAttr attrs A.id) = y1
  generalize matchVocab v2 (getAttr attrs A.id) = y2
  cases a <;> cases b <;> cases x1 <;> cases x2 <;> cases y1 <;> cases y2 <;> rfl

/-- THE COMBINED PATTERN IS THE FOUR DOCUMENTED GROUPS: `shouldExcludeByPattern` asks one regular
expression (`navigationPatterns.excluded`); for every attribute list it decides exactly like
"the nav pattern or the header pattern or the footer pattern or the sidebar pattern" -/
theorem class_id_rule_is_the_four_groups (attrs : List (Str × Str)) :
    excludedPattern vocabExcluded attrs =
      (excludedPattern vocabNav attrs || excludedPattern vocabHeader attrs ||
       excludedPattern vocabFooter attrs || excludedPattern vocabSidebar attrs) := by
  rw [Tabula.C19.vocab_excluded_is_union, class_id_rule_union, class_id_rule_union, class_id_rule_union]

/-! ## case-insensitivity as a law -/

theorem fold_idempotent (c : Nat) : fold (fold c) = fold c := by
  simp only [fold, Bool.and_eq_true, decide_eq_true_eq, beq_iff_eq]
  repeat' split
  all_goals omega

theorem letter_of_fold (c : Nat) : isLetter (fold c) = isLetter c := by
  rw [Bool.eq_iff_iff]
  simp only [isLetter, fold, Bool.or_eq_true, Bool.and_eq_true, decide_eq_true_eq, beq_iff_eq]
  repeat' split
  all_goals omega

/-- a re-spelling of characters that the pattern cannot see: same case fold, same letter-ness -/
def Respelling (g : Nat → Nat) : Prop := (∀ c, fold (g c) = fold c) ∧ (∀ c, isLetter (g c) = isLetter c)

theorem strip_word_respelled (g : Nat → Nat) (hg : Respelling g) : ∀ (w s : Str),
    stripWord w (s.map g) = (stripWord w s).map (List.map g)
  | [], s => by simp [stripWord]
  | _ :: _, [] => by simp [stripWord]
  | w :: ws, c :: cs => by
      simp only [List.map_cons, stripWord, hg.1]
      split
      · exact strip_word_respelled g hg ws cs
      · rfl

theorem word_at_respelled (g : Nat → Nat) (hg : Respelling g) (vocab : List Str) (s : Str) :
    wordAt vocab (s.map g) = wordAt vocab s := by
  unfold wordAt
  congr 1
  funext w
  rw [strip_word_respelled g hg]
  cases stripWord w s with
  | none => rfl
  | some r =>
    cases r with
    | nil => rfl
    | cons c cs => simp [hg.2]

theorem match_from_respelled (g : Nat → Nat) (hg : Respelling g) (vocab : List Str) :
    ∀ (s : Str) (b : Bool), matchFrom vocab b (s.map g) = matchFrom vocab b s
  | [], _ => rfl
  | c :: cs, b => by
      have h := word_at_respelled g hg vocab (c :: cs)
      simp only [List.map_cons] at h
      simp only [List.map_cons, matchFrom, h, hg.2, match_from_respelled g hg vocab cs]

/-- CASE-INSENSITIVITY, for every vocabulary and every string: re-spelling the characters of a
class/id value in any way that keeps case fold and letter-ness never changes the decision -/
theorem pattern_respelling_invariant (g : Nat → Nat) (hg : Respelling g) (vocab : List Str) (s : Str) :
    matchVocab vocab (s.map g) = matchVocab vocab s :=
  match_from_respelled g hg vocab s false

/-- lower-casing by the fold itself is such a re-spelling (Kelvin sign → k, long s → s) … -/
theorem fold_is_respelling : Respelling fold := ⟨fold_idempotent, letter_of_fold⟩

/-- ASCII upper-casing -/
def asciiUpper (c : Nat) : Nat := if 97 ≤ c ∧ c ≤ 122 then c - 32 else c

/-- … and so is ASCII upper-casing -/
theorem upper_is_respelling : Respelling asciiUpper := by
  constructor
  · intro c
    by_cases h : 97 ≤ c ∧ c ≤ 122
    · rw [show asciiUpper c = c - 32 from if_pos h]
      have a : fold (c - 32) = c := by
        unfold fold
        rw [if_pos (by simp <;> omega)]; omega
      have b : fold c = c := by
        unfold fold
        rw [if_neg (by simp <;> omega), if_neg (by simp <;> omega), if_neg (by simp <;> omega)]
      rw [a, b]
    · rw [show asciiUpper c = c from if_neg h]
  · intro c
    by_cases h : 97 ≤ c ∧ c ≤ 122
    · rw [show asciiUpper c = c - 32 from if_pos h]
      have a : isLetter (c - 32) = true := by simp [isLetter] <;> omega
      have b : isLetter c = true := by simp [isLetter] <;> omega
      rw [a, b]
    · rw [show asciiUpper c = c from if_neg h]

/-- the class/id rule decides alike on a value, its lower-casing and its upper-casing -/
theorem pattern_case_insensitive (vocab : List Str) (s : Str) :
    matchVocab vocab (s.map fold) = matchVocab vocab s ∧
    matchVocab vocab (s.map asciiUpper) = matchVocab vocab s :=
  ⟨pattern_respelling_invariant fold fold_is_respelling vocab s,
   pattern_respelling_invariant asciiUpper upper_is_respelling vocab s⟩

example : [110, 97, 118].map asciiUpper = [78, 65, 86] ∧ [78, 0x212A, 0x17F].map fold = [110, 107, 115] := by
  decide

/-! ## what a decision may depend on -/

/-- Explicit and Standard (and None) never look at the content of the element: same tag, same
attributes, same position → same decision, whatever the children are -/
theorem decision_ignores_children (m : Mode) (hm : m.rank ≤ 2) (pos : Pos) (tag : Str)
    (attrs : List (Str × Str)) (k1 k2 : List Dom) :
    excluded m pos (.elem tag attrs k1) = excluded m pos (.elem tag attrs k2) := by
  cases m <;> simp [excluded, Mode.rank] at hm ⊢

example : Mode.standard.rank ≤ 2 := by decide

/-- no mode sees more of the position than `isTopLevel` -/
theorem decision_sees_only_top_level (m : Mode) (p1 p2 : Pos) (h : p1.isTop = p2.isTop) (n : Dom) :
    excluded m p1 n = excluded m p2 n := by
  cases n with
  | elem tag attrs kids => simp only [excluded, excludedExplicit, h]
  | text _ => rfl
  | other _ => rfl

example : Pos.root.isTop = Pos.deep.isTop ∧ Pos.bodyChild.isTop = Pos.wrapChild.isTop := by decide

/-! ## an excluded node leaves no trace -/

/-- the traversal state after an excluded element is the state before it — not even the pending
list items are flushed -/
theorem excluded_node_leaves_state (p : Pos → Dom → Bool) (w : Bool) (pos : Pos) (tag : Str)
    (attrs : List (Str × Str)) (kids : List Dom) (s : St) (h : p pos (.elem tag attrs kids) = true) :
    trav p w pos (.elem tag attrs kids) s = s := by
  unfold trav
  by_cases hs : isSkip tag = true <;> simp [hs, h]

theorem excluded_node_no_atoms (p : Pos → Dom → Bool) (w : Bool) (pos : Pos) (lc : LC) (tag : Str)
    (attrs : List (Str × Str)) (kids : List Dom) (h : p pos (.elem tag attrs kids) = true) :
    atoms p w pos lc (.elem tag attrs kids) = [] := by
  unfold atoms
  by_cases hs : isSkip tag = true <;> simp [hs, h]

theorem travL_append (p : Pos → Dom → Bool) (w : Bool) (kp : Pos) : ∀ (a b : List Dom) (s : St),
    travL p w kp (a ++ b) s = travL p w kp b (travL p w kp a s)
  | [], b, s => by simp [travL]
  | k :: a, b, s => by simp only [List.cons_append, travL]; exact travL_append p w kp a b _

/-- the siblings of an excluded node close up: the children `a ++ k :: b` with `k` excluded give
what the children `a ++ b` give, in the specification and (state by state) in the traversal -/
theorem excluded_sibling_closes_up (p : Pos → Dom → Bool) (w : Bool) (kp : Pos) (lc : LC)
    (a b : List Dom) (tag : Str) (attrs : List (Str × Str)) (kids : List Dom)
    (h : p kp (.elem tag attrs kids) = true) :
    atomsL p w kp lc (a ++ .elem tag attrs kids :: b) = atomsL p w kp lc (a ++ b) ∧
    ∀ s, travL p w kp (a ++ .elem tag attrs kids :: b) s = travL p w kp (a ++ b) s := by
  constructor
  · rw [atomsL_append, atomsL_append]
    simp only [atomsL, excluded_node_no_atoms p w kp lc tag attrs kids h, List.nil_append]
  · intro s
    rw [travL_append, travL_append]
    simp only [travL, excluded_node_leaves_state p w kp tag attrs kids _ h]

example : excluded .explicit .deep (.elem T.nav [] []) = true := by decide

/-! ## the output only grows -/

theorem flush_keeps_out (s : St) : s.out <+: (flushList s).out := by
  unfold flushList
  split
  · exact List.prefix_append _ _
  · exact List.prefix_refl _

theorem emit_keeps_out (s : St) (e : Element) : s.out <+: (s.emit e).out :=
  List.prefix_append s.out [e]

theorem emitRun_keeps_out (run : Str) (s : St) : s.out <+: (emitRun run s).out := by
  unfold emitRun
  split
  · exact (flush_keeps_out s).trans (emit_keeps_out _ _)
  · exact List.prefix_refl _

theorem listEnter_keeps_out (ord : Bool) (s : St) : s.out <+: (listEnter ord s).out := by
  show s.out <+: (if (s.level == 0) = true then flushList s else s).out
  split
  · exact flush_keeps_out s
  · exact List.prefix_refl _

theorem listExit_keeps_out (s s3 : St) : s3.out <+: (listExit s s3).out := by
  show s3.out <+: (if s.inList = true then s3
    else { (if (s3.items != []) = true then s3.emit (.list s3.ordered s3.items) else s3) with
            inList := false, items := [] }).out
  split
  · exact List.prefix_refl _
  · show s3.out <+: (if (s3.items != []) = true then s3.emit (.list s3.ordered s3.items) else s3).out
    split
    · exact emit_keeps_out _ _
    · exact List.prefix_refl _

theorem liHead_out (kids : List Dom) (s : St) : (liHead kids s).out = s.out := by
  show (if (getDirectTextContent kids != []) = true then
      { s with items := s.items ++ [{ text := getDirectTextContent kids, level := s.level, ordered := s.ordered }] }
    else s).out = s.out
  split <;> rfl

mutual
/-- OUTPUT ONLY GROWS: whatever node is traversed from whatever state, the elements already
emitted stay, unchanged and in place, as a prefix of the output afterwards -/
theorem trav_out_grows (p : Pos → Dom → Bool) (w : Bool) :
    ∀ (t : Dom) (pos : Pos) (s : St), s.out <+: (trav p w pos t s).out
  | .text _, pos, s => by simp only [trav]; exact List.prefix_refl _
  | .other kids, pos, s => by simp only [trav]; exact travL_out_grows p w kids _ s
  | .elem tag attrs kids, pos, s => by
      unfold trav
      by_cases hs : isSkip tag = true
      · simp only [hs, if_true]; exact List.prefix_refl _
      · by_cases hp : p pos (.elem tag attrs kids) = true
        · simp only [hs, hp, if_true, if_false, Bool.false_eq_true]; exact List.prefix_refl _
        · simp only [hs, hp, if_false, Bool.false_eq_true]
          cases hc : classify tag with
          | heading lvl =>
            simp only []
            split
            · exact (flush_keeps_out s).trans (emit_keeps_out _ _)
            · exact flush_keeps_out s
          | pdiv isP =>
            simp only []
            have h1 : s.out <+: (if isP = true then flushList s else s).out := by
              split
              · exact flush_keeps_out s
              · exact List.prefix_refl _
            split
            · exact h1.trans ((flush_keeps_out _).trans (emit_keeps_out _ _))
            · exact h1.trans (travM_out_grows p w kids _ [] _)
          | list ord =>
            simp only []
            exact (listEnter_keeps_out ord s).trans
              ((travL_out_grows p w kids _ _).trans (listExit_keeps_out s _))
          | li =>
            simp only []
            split
            · have h2 := travLi_out_grows p w kids (pos.kid w tag) (liHead kids s)
              rw [liHead_out] at h2
              exact h2
            · have h2 := travLi_out_grows p w kids (pos.kid w tag) (liHead kids (strayEnter s))
              rw [liHead_out] at h2
              exact List.IsPrefix.trans h2
                (flush_keeps_out (liExit (travLi p w (pos.kid w tag) kids (liHead kids (strayEnter s)))))
          | table =>
            simp only []
            by_cases hr : ((parseTable kids).1 != []) = true
            · simp only [hr, if_true]
              exact (flush_keeps_out s).trans (emit_keeps_out _ _)
            · simp only [hr, if_false, Bool.false_eq_true]
              exact flush_keeps_out s
          | code =>
            simp only []
            split
            · exact (flush_keeps_out s).trans (emit_keeps_out _ _)
            · exact List.prefix_refl _
          | quote =>
            simp only []
            split
            · exact (flush_keeps_out s).trans (emit_keeps_out _ _)
            · exact List.prefix_refl _
          | void => simp only []; exact List.prefix_refl _
          | other => simp only []; exact travL_out_grows p w kids _ s
theorem travL_out_grows (p : Pos → Dom → Bool) (w : Bool) :
    ∀ (ts : List Dom) (kp : Pos) (s : St), s.out <+: (travL p w kp ts s).out
  | [], kp, s => by simp only [travL]; exact List.prefix_refl _
  | k :: ks, kp, s => by
      simp only [travL]
      exact (trav_out_grows p w k kp s).trans (travL_out_grows p w ks kp _)
theorem travLi_out_grows (p : Pos → Dom → Bool) (w : Bool) :
    ∀ (ts : List Dom) (kp : Pos) (s : St), s.out <+: (travLi p w kp ts s).out
  | [], kp, s => by simp only [travLi]; exact List.prefix_refl _
  | k :: ks, kp, s => by
      simp only [travLi]
      by_cases hk : isListElem k = true
      · simp only [hk, if_true]
        exact (trav_out_grows p w k kp s).trans (travLi_out_grows p w ks kp _)
      · simp only [hk, if_false, Bool.false_eq_true]
        exact travLi_out_grows p w ks kp s
theorem travM_out_grows (p : Pos → Dom → Bool) (w : Bool) :
    ∀ (ts : List Dom) (kp : Pos) (run : Str) (s : St), s.out <+: (travM p w kp ts run s).out
  | [], kp, run, s => by simp only [travM]; exact emitRun_keeps_out run s
  | k :: ks, kp, run, s => by
      simp only [travM]
      by_cases hk : isInline k = true
      · simp only [hk, if_true]
        exact travM_out_grows p w ks kp _ s
      · simp only [hk, if_false, Bool.false_eq_true]
        exact (emitRun_keeps_out run s).trans
          ((trav_out_grows p w k kp _).trans (travM_out_grows p w ks kp [] _))
end

/-- DOCUMENT ORDER AT THE ELEMENT LEVEL: the elements produced by the first children `a` of a node
are a prefix of the elements produced by all its children `a ++ b`, from every state — nothing
that comes later in the document changes, moves or removes an element already returned -/
theorem earlier_siblings_elements_prefix (p : Pos → Dom → Bool) (w : Bool) (kp : Pos) (a b : List Dom) (s : St) :
    (travL p w kp a s).out <+: (travL p w kp (a ++ b) s).out := by
  rw [travL_append]
  exact travL_out_grows p w b kp _

/-! ## TextWithOptions is a left fold that only appends -/

theorem text_of_concatenation : ∀ (a b : List Element) (acc : Str),
    renderText (a ++ b) acc = renderText b (renderText a acc)
  | [], b, acc => by simp [renderText]
  | e :: a, b, acc => by
      simp only [List.cons_append, renderText]
      exact text_of_concatenation a b _

theorem text_only_grows : ∀ (els : List Element) (acc : Str), acc <+: renderText els acc
  | [], acc => by simp only [renderText]; exact List.prefix_refl _
  | e :: rest, acc => by
      simp only [renderText]
      refine List.IsPrefix.trans ?_ (text_only_grows rest _)
      cases e with
      | heading l t => simp only [List.append_assoc]; exact List.prefix_append _ _
      | para t => simp only [List.append_assoc]; exact List.prefix_append _ _
      | code t => simp only [List.append_assoc]; exact List.prefix_append _ _
      | quote t => simp only [List.append_assoc]; exact List.prefix_append _ _
      | list o items => simp only [List.append_assoc]; exact List.prefix_append _ _
      | table hd rows =>
        simp only []
        split
        · exact List.prefix_refl _
        · simp only [List.append_assoc]; exact List.prefix_append _ _

/-- hence the TEXT of the first children of a node is a prefix of the text of all its children
(rendered from the same state): `TextWithOptions` writes in document order and never goes back -/
theorem earlier_siblings_text_prefix (p : Pos → Dom → Bool) (w : Bool) (kp : Pos) (a b : List Dom) (s : St) :
    renderText (travL p w kp a s).out [] <+: renderText (travL p w kp (a ++ b) s).out [] := by
  obtain ⟨l, hl⟩ := earlier_siblings_elements_prefix p w kp a b s
  rw [← hl, text_of_concatenation]
  exact text_only_grows l _

/-! ## the per-mode cache stays small -/

/-- the reader after a sequence of `getElements` calls -/
def after : Reader → List Mode → Reader
  | r, [] => r
  | r, m :: ms => after (getElements r m).2 ms

def cacheKeys (r : Reader) : List Mode := r.cache.map (·.1)

/-- at most one entry per mode, none for mode None -/
def SmallCache (r : Reader) : Prop := (cacheKeys r).Nodup ∧ Mode.none ∉ cacheKeys r

theorem lookup_none_iff : ∀ (c : List (Mode × List Element)) (m : Mode),
    lookup c m = none ↔ m ∉ c.map (·.1)
  | [], m => by simp [lookup]
  | (k, v) :: rest, m => by
      simp only [lookup, List.map_cons, List.mem_cons, not_or]
      by_cases h : k = m
      · subst h; simp
      · simp only [h, if_false]
        rw [lookup_none_iff rest m]
        constructor
        · intro h2; exact ⟨fun e => h e.symm, h2⟩
        · intro h2; exact h2.2

theorem getElements_keeps_small (r : Reader) (m : Mode) (h : SmallCache r) :
    SmallCache (getElements r m).2 := by
  unfold getElements
  by_cases hm : m = .none
  · simp only [hm, if_true]; exact h
  · simp only [hm, if_false]
    cases hl : lookup r.cache m with
    | some v => exact h
    | none =>
      have hn := (lookup_none_iff r.cache m).1 hl
      show (m :: r.cache.map (·.1)).Nodup ∧ Mode.none ∉ (m :: r.cache.map (·.1))
      refine ⟨List.nodup_cons.2 ⟨hn, h.1⟩, ?_⟩
      intro hc
      rcases List.mem_cons.1 hc with e | e
      · exact hm e.symm
      · exact h.2 e

theorem modes_count (l : List Mode) :
    l.length = l.count .none + l.count .explicit + l.count .standard + l.count .aggressive := by
  induction l with
  | nil => rfl
  | cons m l ih => cases m <;> simp [ih] <;> omega

theorem count_le_one_of_nodup (a : Mode) : ∀ (l : List Mode), l.Nodup → l.count a ≤ 1
  | [], _ => by simp
  | b :: l, h => by
      have h2 := List.nodup_cons.1 h
      rw [List.count_cons]
      by_cases e : b = a
      · subst e
        have : l.count b = 0 := List.count_eq_zero.2 h2.1
        simp [this]
      · have := count_le_one_of_nodup a l h2.2
        simpa [e] using this

theorem small_cache_size (r : Reader) (h : SmallCache r) : r.cache.length ≤ 3 := by
  have e : r.cache.length = (cacheKeys r).length := by simp [cacheKeys]
  have h0 : (cacheKeys r).count .none = 0 := List.count_eq_zero.2 h.2
  have h1 := count_le_one_of_nodup .explicit _ h.1
  have h2 := count_le_one_of_nodup .standard _ h.1
  have h3 := count_le_one_of_nodup .aggressive _ h.1
  have hc := modes_count (cacheKeys r)
  omega

/-- BOUNDED CACHE ON EVERY HISTORY: after any sequence of `getElements` calls (any modes, any
order, any repetition) on a fresh reader the per-mode cache holds at most one entry per mode and
none for mode None, hence at most three element lists -/
theorem cache_stays_small (body : Dom) (ms : List Mode) :
    SmallCache (after { body := body } ms) ∧ (after { body := body } ms).cache.length ≤ 3 := by
  have gen : ∀ (ms : List Mode) (r : Reader), SmallCache r → SmallCache (after r ms) := by
    intro ms
    induction ms with
    | nil => intro r h; exact h
    | cons m ms ih => intro r h; exact ih _ (getElements_keeps_small r m h)
  have h0 : SmallCache { body := body } := ⟨List.nodup_nil, by simp [cacheKeys]⟩
  exact ⟨gen ms _ h0, small_cache_size _ (gen ms _ h0)⟩

/-- the bound is reached -/
example : (after { body := .text [] } [.aggressive, .none, .explicit, .aggressive, .standard]).cache.length = 3 := by
  decide

/-! ## no empty element is ever returned, and the text is exactly the blocks joined -/

/-- an element that carries something: a heading / paragraph / code block / quote with text, a
list with at least one item and every item with text, a table with at least one row -/
def NonEmptyEl : Element → Prop
  | .heading _ t => t ≠ []
  | .para t => t ≠ []
  | .code t => t ≠ []
  | .quote t => t ≠ []
  | .list _ items => items ≠ [] ∧ ∀ i ∈ items, i.text ≠ []
  | .table _ rows => rows ≠ []

/-- invariant of the traversal state: nothing empty emitted, no pending item without text -/
def Good (s : St) : Prop := (∀ e ∈ s.out, NonEmptyEl e) ∧ (∀ i ∈ s.items, i.text ≠ [])

theorem good_emit (s : St) (e : Element) (h : Good s) (he : NonEmptyEl e) : Good (s.emit e) := by
  refine ⟨?_, h.2⟩
  intro x hx
  have hx2 : x ∈ s.out ++ [e] := hx
  rcases List.mem_append.1 hx2 with h1 | h1
  · exact h.1 x h1
  · have := List.mem_singleton.1 h1; subst this; exact he

theorem good_flush (s : St) (h : Good s) : Good (flushList s) := by
  unfold flushList
  split
  · rename_i hc
    have hne : s.items ≠ [] := by simp at hc; exact hc.2
    refine ⟨?_, ?_⟩
    · intro x hx
      have hx2 : x ∈ s.out ++ [Element.list s.ordered s.items] := hx
      rcases List.mem_append.1 hx2 with h1 | h1
      · exact h.1 x h1
      · have := List.mem_singleton.1 h1; subst this; exact ⟨hne, h.2⟩
    · intro i hi
      have hi2 : i ∈ ([] : List Item) := hi
      cases hi2
  · exact h

theorem good_enter_core (ord : Bool) (s1 : St) (h1 : Good s1) :
    Good { s1 with inList := true, ordered := ord,
                   items := if s1.inList then s1.items else [],
                   level := if s1.inList then s1.level else 0 } := by
  refine ⟨h1.1, ?_⟩
  intro i hi
  have hi2 : i ∈ (if s1.inList = true then s1.items else []) := hi
  split at hi2
  · exact h1.2 i hi2
  · cases hi2

theorem good_listEnter (ord : Bool) (s : St) (h : Good s) : Good (listEnter ord s) := by
  unfold listEnter
  exact good_enter_core ord _ (by split; exact good_flush s h; exact h)

theorem good_listExit (s s3 : St) (h : Good s3) : Good (listExit s s3) := by
  unfold listExit
  by_cases hin : s.inList = true
  · simp only [hin, if_true]; exact h
  · have hin2 : s.inList = false := by simpa using hin
    simp only [hin2, Bool.false_eq_true, if_false]
    refine ⟨?_, ?_⟩
    · intro x hx
      have hx1 : x ∈ (if (s3.items != []) = true then s3.emit (.list s3.ordered s3.items) else s3).out := hx
      split at hx1
      · rename_i hc
        have hne : s3.items ≠ [] := by simpa using hc
        have hx2 : x ∈ s3.out ++ [Element.list s3.ordered s3.items] := hx1
        rcases List.mem_append.1 hx2 with h1 | h1
        · exact h.1 x h1
        · have := List.mem_singleton.1 h1; subst this; exact ⟨hne, h.2⟩
      · exact h.1 x hx1
    · intro i hi
      have hi2 : i ∈ ([] : List Item) := hi
      cases hi2

theorem good_liHead (kids : List Dom) (s : St) (h : Good s) : Good (liHead kids s) := by
  unfold liHead
  by_cases ht : (getDirectTextContent kids != []) = true
  · simp only [ht, if_true]
    refine ⟨h.1, ?_⟩
    intro i hi
    have hi2 : i ∈ s.items ++ [{ text := getDirectTextContent kids, level := s.level, ordered := s.ordered }] := hi
    rcases List.mem_append.1 hi2 with h1 | h1
    · exact h.2 i h1
    · have := List.mem_singleton.1 h1; subst this; simpa using ht
  · simp only [ht, if_false, Bool.false_eq_true]; exact h

theorem good_liExit (s : St) (h : Good s) : Good (liExit s) := h

theorem good_strayEnter (s : St) (h : Good s) : Good (strayEnter s) :=
  ⟨h.1, fun i hi => by have hi2 : i ∈ ([] : List Item) := hi; cases hi2⟩

theorem good_strayExit (s : St) (h : Good s) : Good (strayExit s) :=
  ⟨(good_flush s h).1, fun i hi => by have hi2 : i ∈ ([] : List Item) := hi; cases hi2⟩

theorem good_emitRun (run : Str) (s : St) (h : Good s) : Good (emitRun run s) := by
  unfold emitRun
  split
  · rename_i hc
    exact good_emit _ _ (good_flush s h) (by simpa [NonEmptyEl] using hc)
  · exact h

mutual
theorem trav_good (p : Pos → Dom → Bool) (w : Bool) :
    ∀ (t : Dom) (pos : Pos) (s : St), Good s → Good (trav p w pos t s)
  | .text _, pos, s, h => by simp only [trav]; exact h
  | .other kids, pos, s, h => by simp only [trav]; exact travL_good p w kids _ s h
  | .elem tag attrs kids, pos, s, h => by
      unfold trav
      by_cases hs : isSkip tag = true
      · simp only [hs, if_true]; exact h
      · by_cases hp : p pos (.elem tag attrs kids) = true
        · simp only [hs, hp, if_true, if_false, Bool.false_eq_true]; exact h
        · simp only [hs, hp, if_false, Bool.false_eq_true]
          cases hc : classify tag with
          | heading lvl =>
            simp only []
            split
            · rename_i ht
              exact good_emit _ _ (good_flush s h) (by simpa [NonEmptyEl] using ht)
            · exact good_flush s h
          | pdiv isP =>
            simp only []
            have h1 : Good (if isP = true then flushList s else s) := by
              split
              · exact good_flush s h
              · exact h
            split
            · rename_i ht
              have hne : trim (getTextContent (.elem tag attrs kids)) ≠ [] := by
                simp at ht; exact ht.1
              exact good_emit _ _ (good_flush _ h1) hne
            · exact travM_good p w kids _ [] _ h1
          | list ord =>
            simp only []
            exact good_listExit s _ (travL_good p w kids _ _ (good_listEnter ord s h))
          | li =>
            simp only []
            split
            · exact good_liExit _ (travLi_good p w kids _ _ (good_liHead kids s h))
            · exact good_strayExit _ (good_liExit _
                (travLi_good p w kids _ _ (good_liHead kids _ (good_strayEnter s h))))
          | table =>
            simp only []
            by_cases hr : ((parseTable kids).1 != []) = true
            · simp only [hr, if_true]
              exact good_emit _ _ (good_flush s h) (by simpa [NonEmptyEl] using hr)
            · simp only [hr, if_false, Bool.false_eq_true]
              exact good_flush s h
          | code =>
            simp only []
            split
            · rename_i ht
              exact good_emit _ _ (good_flush s h) (by simpa [NonEmptyEl] using ht)
            · exact h
          | quote =>
            simp only []
            split
            · rename_i ht
              exact good_emit _ _ (good_flush s h) (by simpa [NonEmptyEl] using ht)
            · exact h
          | void => simp only []; exact h
          | other => simp only []; exact travL_good p w kids _ s h
theorem travL_good (p : Pos → Dom → Bool) (w : Bool) :
    ∀ (ts : List Dom) (kp : Pos) (s : St), Good s → Good (travL p w kp ts s)
  | [], kp, s, h => by simp only [travL]; exact h
  | k :: ks, kp, s, h => by
      simp only [travL]
      exact travL_good p w ks kp _ (trav_good p w k kp s h)
theorem travLi_good (p : Pos → Dom → Bool) (w : Bool) :
    ∀ (ts : List Dom) (kp : Pos) (s : St), Good s → Good (travLi p w kp ts s)
  | [], kp, s, h => by simp only [travLi]; exact h
  | k :: ks, kp, s, h => by
      simp only [travLi]
      by_cases hk : isListElem k = true
      · simp only [hk, if_true]
        exact travLi_good p w ks kp _ (trav_good p w k kp s h)
      · simp only [hk, if_false, Bool.false_eq_true]
        exact travLi_good p w ks kp s h
theorem travM_good (p : Pos → Dom → Bool) (w : Bool) :
    ∀ (ts : List Dom) (kp : Pos) (run : Str) (s : St), Good s → Good (travM p w kp ts run s)
  | [], kp, run, s, h => by simp only [travM]; exact good_emitRun run s h
  | k :: ks, kp, run, s, h => by
      simp only [travM]
      by_cases hk : isInline k = true
      · simp only [hk, if_true]
        exact travM_good p w ks kp _ s h
      · simp only [hk, if_false, Bool.false_eq_true]
        exact travM_good p w ks kp [] _ (trav_good p w k kp _ (good_emitRun run s h))
end

/-- NO EMPTY ELEMENT, for every document and every predicate (every mode): each element
`extractBodyWithMode` returns carries something — no heading / paragraph / code block / quote
without text, no list without items or with a text-less item, no table without rows -/
theorem no_empty_element (p : Pos → Dom → Bool) (body : Dom) :
    ∀ e ∈ extractWith p body, NonEmptyEl e := by
  have h0 : Good ({} : St) :=
    ⟨fun e he => (by have h2 : e ∈ ([] : List Element) := he; cases h2),
     fun i hi => (by have h2 : i ∈ ([] : List Item) := hi; cases h2)⟩
  exact (good_flush _ (trav_good p (hasWrapper body) body .root {} h0)).1

/-- the text block `TextWithOptions` writes for one element -/
def elemText : Element → Str
  | .heading _ t => t
  | .para t => t
  | .code t => t
  | .quote t => t
  | .list _ items => renderItems items true
  | .table _ rows => rows.flatMap (renderRow · true)

/-- blocks joined by one blank line -/
def joinBlank : List Str → Str
  | [] => []
  | x :: rest => x ++ rest.flatMap (fun y => 10 :: 10 :: y)

theorem renderRow_ne_nil : ∀ (cs : List Cell) (b : Bool), renderRow cs b ≠ []
  | [], _ => by simp [renderRow]
  | c :: rest, b => by
      have := renderRow_ne_nil rest false
      simp [renderRow, this]

theorem elemText_ne_nil (e : Element) (h : NonEmptyEl e) : elemText e ≠ [] := by
  cases e with
  | heading l t => exact h
  | para t => exact h
  | code t => exact h
  | quote t => exact h
  | list o items =>
    cases items with
    | nil => exact absurd rfl h.1
    | cons i rest => simp [elemText, renderItems]
  | table hd rows =>
    cases rows with
    | nil => exact absurd rfl h
    | cons r rest =>
      have := renderRow_ne_nil r true
      simp [elemText, this]

theorem render_step (e : Element) (rest : List Element) (acc : Str) (h : NonEmptyEl e) :
    renderText (e :: rest) acc = renderText rest (acc ++ sep acc ++ elemText e) := by
  cases e with
  | heading l t => rfl
  | para t => rfl
  | code t => rfl
  | quote t => rfl
  | list o items => rfl
  | table hd rows =>
    have hr : rows ≠ [] := h
    simp [renderText, elemText, hr]

theorem render_from_nonempty : ∀ (els : List Element) (acc : Str), acc ≠ [] →
    (∀ e ∈ els, NonEmptyEl e) →
    renderText els acc = acc ++ els.flatMap (fun e => 10 :: 10 :: elemText e)
  | [], acc, _, _ => by simp [renderText]
  | e :: rest, acc, ha, h => by
      rw [render_step e rest acc (h e (List.mem_cons_self ..))]
      have hs : sep acc = [10, 10] := by simp [sep, ha]
      have hne : acc ++ sep acc ++ elemText e ≠ [] := by simp [ha]
      rw [render_from_nonempty rest _ hne (fun x hx => h x (List.mem_cons_of_mem _ hx)), hs]
      simp

/-- on element lists without empty elements `TextWithOptions` is EXACTLY the element blocks
joined by one blank line: no leading or trailing separator, no doubled separator -/
theorem text_is_blocks_joined_of (els : List Element) (h : ∀ e ∈ els, NonEmptyEl e) :
    renderText els [] = joinBlank (els.map elemText) := by
  cases els with
  | nil => rfl
  | cons e rest =>
    have he := elemText_ne_nil e (h e (List.mem_cons_self ..))
    rw [render_step e rest [] (h e (List.mem_cons_self ..))]
    have : ([] : Str) ++ sep [] ++ elemText e = elemText e := by simp [sep]
    rw [this, render_from_nonempty rest _ he (fun x hx => h x (List.mem_cons_of_mem _ hx))]
    simp [joinBlank, List.flatMap_map]

/-- THE TEXT, EXACTLY (not only up to white space), for every document and predicate: the text
rendered from what `extractBodyWithMode` returns is the blocks of its elements — each non-empty —
joined by one blank line -/
theorem text_is_blocks_joined (p : Pos → Dom → Bool) (body : Dom) :
    renderText (extractWith p body) [] = joinBlank ((extractWith p body).map elemText) ∧
    ∀ b ∈ (extractWith p body).map elemText, b ≠ [] := by
  refine ⟨text_is_blocks_joined_of _ (no_empty_element p body), ?_⟩
  intro b hb
  obtain ⟨e, he, rfl⟩ := List.mem_map.1 hb
  exact elemText_ne_nil e (no_empty_element p body e he)

/-- … at the public entry point, from the document node, for every raw mode value -/
theorem text_with_options_is_blocks_joined (m : Int) (doc : Dom) :
    textWithOptions m doc = joinBlank ((extractI m doc).map elemText) ∧
    (∀ e ∈ extractI m doc, NonEmptyEl e) := by
  unfold textWithOptions extractI
  exact ⟨(text_is_blocks_joined _ _).1, no_empty_element _ _⟩

example : NonEmptyEl (.para [120]) ∧ NonEmptyEl (.table false [[]]) ∧ ¬ NonEmptyEl (.list false []) := by
  refine ⟨by simp [NonEmptyEl], by simp [NonEmptyEl], by simp [NonEmptyEl]⟩

/-- without the hypothesis the join statement fails (an element list the extraction never
returns): an empty paragraph is swallowed together with its separator -/
example : renderText [.para [], .para [120]] [] ≠ joinBlank ([Element.para [], .para [120]].map elemText) := by
  decide

end Tabula.C19More
