import TabulaModel.Lemmas.SplitUnits
import TabulaModel.Model.OverlapApi
import TabulaModel.Props.C13Api
/-!
# C13, round 6, part 3 — every size unit, boundaries and the size bound, re-splitting

`FindSplitPointAt` converts a limit of any unit to a byte position (`targetPosOf`: characters
1, tokens 1/TokensPerChar, words 6, sentences 80, paragraphs 400 bytes per unit — the
"documented rough estimates" of the property's quantifier; `ConvertSize` uses the same
factors).  Proved here for ALL units: the byte-length bound of the pieces; for characters and
tokens with caller-supplied boundaries: the hard maximum is exceeded by at most a quarter;
pieces are fixed points of `SplitToSize`.  Lemmas: `Lemmas/SplitUnits.lean`.  Op: `c13.conv`.
-/
set_option linter.unusedVariables false
namespace Tabula.C13Units
open Tabula.Split Tabula.OverlapApi

/-! ## the conversion of limits -/

/-- **target_pos_is_convert_size.** The byte position `FindSplitPointAt` derives from a limit is
`ConvertSize(limit, unit, characters)` for characters, words, sentences and paragraphs, and
for tokens at the default ratio 0.25 (also when `TokensPerChar ≤ 0`). -/
theorem target_pos_is_convert_size (c : SizeConfig) (limit : Nat) (u : SizeUnit)
    (h : u = .tokens → c.ratio = (1, 4)) :
    targetPosOf c limit u = convertSize limit u .characters := by
  cases u with
  | tokens => simp only [targetPosOf, convertSize, unitBytes, h rfl]
  | _ => simp [targetPosOf, convertSize, unitBytes]

/-- **convert_size_round_trip.** Converting to characters and back is the identity for every unit;
converting from characters and back loses less than one unit. -/
theorem convert_size_round_trip (v : Nat) (u : SizeUnit) :
    convertSize (convertSize v u .characters) .characters u = v
      ∧ convertSize (convertSize v .characters u) u .characters ≤ v
      ∧ v < convertSize (convertSize v .characters u) u .characters + unitBytes u := by
  cases u <;> simp [convertSize, unitBytes] <;> omega

example : convertSize 8191 .tokens .words = 5460 ∧ targetPosOf defaultSizeConfig 10 .sentences = 800 := by decide

/-- **limit_covers_target_bytes.** Characters and tokens: a text of at most `targetPos` bytes is
within the limit — the estimate is exact in the direction the hard maximum needs. -/
theorem limit_covers_target_bytes (c : SizeConfig) (s : Str)
    (hunit : c.maxUnit = .characters ∨ c.maxUnit = .tokens)
    (hl : s.length ≤ targetPosOf c c.maxValue c.maxUnit) : isAboveMax c s = false := by
  have := getSize_le_of_length_le hunit hl
  simp [isAboveMax]; omega

/-! ## the byte-length bound for every unit -/

/-- **split_length_bound_all_units.** For EVERY size unit (words, sentences and paragraphs
included), every limit whose byte position `T` is at least 50 and every text with a space
at least every 50 bytes: every piece of `SplitToSize(text, nil)` has at most `T` bytes
(6, 80, 400 bytes per word, sentence, paragraph of the limit) or is within the limit in its
own unit.  For characters and tokens the first alternative implies the second
(`C13.split_bound`). -/
theorem split_length_bound_all_units (c : SizeConfig) (text : Str) (hs : Spaced text)
    (hT : 50 ≤ targetPosOf c c.maxValue c.maxUnit) :
    ∀ p ∈ splitToSize c text [],
      p.length ≤ targetPosOf c c.maxValue c.maxUnit ∨ getSize c p c.maxUnit ≤ c.maxValue :=
  splitToSize_length_bound c text hs hT

/-- the two-byte words "a " × 100 -/
def shortWords : Str := (List.replicate 100 [97, 32]).flatten

/-- non-vacuity: 100 two-byte words at 10 words (60 bytes): pieces of at most 60 bytes -/
example :
    let c : SizeConfig := { maxValue := 10, maxUnit := .words, tpcNum := 1, tpcDen := 4, sem := true }
    Spaced shortWords ∧ 50 ≤ targetPosOf c c.maxValue c.maxUnit
      ∧ (splitToSize c shortWords []).map List.length = [59, 59, 59, 19] :=
  ⟨Spaced.of_spacedB (by decide +kernel), by decide, by decide +kernel⟩

/-- **split_words_unbounded_counterexample.** The second alternative cannot be dropped for the
other units ("word/sentence/paragraph limits are converted by documented rough estimates and
are not bounded"): 100 two-byte words at a hard maximum of 10 words give pieces of 30 words. -/
theorem split_words_unbounded_counterexample :
    let c : SizeConfig := { maxValue := 10, maxUnit := .words, tpcNum := 1, tpcDen := 4, sem := true }
    (splitToSize c shortWords []).map (fun p => getSize c p .words) = [30, 30, 30, 10] := by
  decide +kernel

/-! ## the size bound with caller-supplied boundaries -/

/-- **split_bound_boundaries.** Hard maximum in characters or tokens, `M ≥ 200`, at most 4
tokens per byte, a space at least every 50 bytes, ANY list of boundaries (any positions, any
scores): no piece of `SplitToSize(text, boundaries)` exceeds the maximum by more than a
quarter (`M + M/4`) — the reach of the search window of `findBestBoundaryNear`.
`C13Api.split_bound_boundaries_counterexample` (249 at 200) shows that the quarter is used. -/
theorem split_bound_boundaries (c : SizeConfig) (text : Str) (bs : List Boundary)
    (hunit : c.maxUnit = .characters ∨ c.maxUnit = .tokens)
    (hM : 200 ≤ c.maxValue) (hratio : c.ratio.1 ≤ 4 * c.ratio.2) (hs : Spaced text) :
    ∀ p ∈ splitToSize c text bs, getSize c p c.maxUnit ≤ c.maxValue + c.maxValue / 4 :=
  splitToSize_bound_boundaries c text bs hunit hM hratio hs

/-- the same in bytes, for every unit -/
theorem split_length_bound_boundaries (c : SizeConfig) (text : Str) (bs : List Boundary)
    (hs : Spaced text) (hT : 50 ≤ targetPosOf c c.maxValue c.maxUnit) :
    ∀ p ∈ splitToSize c text bs,
      p.length ≤ targetPosOf c c.maxValue c.maxUnit + targetPosOf c c.maxValue c.maxUnit / 4
        ∨ getSize c p c.maxUnit ≤ c.maxValue :=
  splitToSize_length_bound_boundaries c text bs hs hT

example :
    Spaced exampleText ∧ (splitToSize exampleConfig exampleText [⟨250, 70⟩, ⟨251, 100⟩, ⟨3, 100⟩]).map List.length
      = [249, 49] :=
  ⟨Spaced.of_spacedB (by decide +kernel), by decide +kernel⟩

/-! ## re-splitting -/

/-- **split_piece_fixed.** A piece that is within the maximum is a fixed point: splitting it
again returns it unchanged, for every unit and configuration. -/
theorem split_piece_fixed (c : SizeConfig) (text : Str) (bs bs' : List Boundary) (p : Str)
    (hp : p ∈ splitToSize c text bs) (hfit : getSize c p c.maxUnit ≤ c.maxValue) :
    splitToSize c p bs' = [p] :=
  Tabula.C13Api.split_within_max c p bs' (Tabula.C13.split_pieces_nonempty c text bs p hp)
    (by simp [isAboveMax]; omega)

/-- **split_idempotent.** Under the hypotheses of the size bound, splitting every piece again
changes nothing: `SplitToSize` is idempotent on its own output. -/
theorem split_idempotent (c : SizeConfig) (text : Str)
    (hunit : c.maxUnit = .characters ∨ c.maxUnit = .tokens)
    (hM : 200 ≤ c.maxValue) (hratio : c.ratio.1 ≤ 4 * c.ratio.2) (hs : Spaced text) :
    (splitToSize c text []).flatMap (fun p => splitToSize c p []) = splitToSize c text [] := by
  have hb := Tabula.C13.split_bound c text hunit hM hratio hs
  have hfix : ∀ p ∈ splitToSize c text [], splitToSize c p [] = [p] :=
    fun p hp => split_piece_fixed c text [] [] p hp (hb p hp)
  generalize splitToSize c text [] = ps at hfix
  induction ps with
  | nil => rfl
  | cons p rest ih =>
    rw [List.flatMap_cons, hfix p (List.mem_cons_self ..),
      ih (fun q hq => hfix q (List.mem_cons_of_mem _ hq))]
    rfl

example :
    (splitToSize exampleConfig exampleText []).flatMap (fun p => splitToSize exampleConfig p [])
      = splitToSize exampleConfig exampleText [] := by decide +kernel

end Tabula.C13Units
