import TabulaModel.Lemmas.ReaderHist
import TabulaModel.Model.BoundsCore
/-!
# C03 — read histories on one reader

"… an extraction gives the same result whether it runs alone, after any other extractions …":
on ONE `reader.Reader` every look-up and every page call is answered from state earlier calls
left behind — `objCache`, `objStmCache`, the decoded header and the parsed members of every
`*core.ObjectStream`, the page list of the `PageTree`.  `Model/ReaderHist.lean` has that state
field by field; the theorems say that over ALL histories it does not show: an answer is a
function of the file (merged cross-reference table + bytes), failures included.
-/
namespace Tabula.C03Hist
open Tabula.ReaderHist

/-- **lookup_history_free**: on a reader that has made any look-ups before (`pre`: `GetObject`
on any numbers, `ClearCache`), every further access is answered with the object the file has
under that number — `specGet`, which reads the merged cross-reference table and the bytes, and
no cache.  Directly stored objects, members of object streams, superseded members, freed
numbers, streams that do not decode, headers that do not parse, members that do not parse,
members under another number: all of it. -/
theorem lookup_history_free (x : Xref) (pre as : List Access) :
    run x (exec x Reader.empty pre) as = as.map (specAccess x) :=
  ((run_spec x as) _ ((run_spec x pre) _ (inv_empty x)).2).1

/-- the same from the fresh reader -/
theorem lookup_is_current_object (x : Xref) (as : List Access) :
    run x Reader.empty as = as.map (specAccess x) :=
  lookup_history_free x [] as

/-- **lookup_same_as_alone**: the answer after a history is the answer of a reader of its own -/
theorem lookup_same_as_alone (x : Xref) (pre : List Access) (n : Nat) :
    (getObject x (exec x Reader.empty pre) n).2 = (getObject x Reader.empty n).2 := by
  rw [(getObject_spec x _ ((run_spec x pre) _ (inv_empty x)).2 n).2,
    (getObject_spec x _ (inv_empty x) n).2]

/-- **failed_lookup_reported_again**: a look-up that failed once fails after every history:
nothing a failing load leaves behind (an `*ObjectStream` whose `Decode` failed and is retried, a
header error kept in `headerErr`, a cached stream whose member does not parse or carries another
number) turns into an answer later, whatever is asked in between -/
theorem failed_lookup_reported_again (x : Xref) (pre mid : List Access) (n : Nat)
    (hfail : (getObject x (exec x Reader.empty pre) n).2 = none) :
    (getObject x (exec x Reader.empty (pre ++ .get n :: mid)) n).2 = none := by
  rw [lookup_same_as_alone] at hfail ⊢
  exact hfail

/-- **superseded_member_invisible**: when the last revision stores object `n` on its own, that is
what every look-up returns after every history — whichever object streams still list `n` in
their headers, and whichever of their members were fetched before -/
theorem superseded_member_invisible (x : Xref) (pre : List Access) (n : Nat) (o : Obj)
    (hx : x.get n = some (.own (some o))) :
    (getObject x (exec x Reader.empty pre) n).2 = some o := by
  rw [(getObject_spec x _ ((run_spec x pre) _ (inv_empty x)).2 n).2]
  simp [specGet, hx]

/-- **moved_member_is_the_new_one**: when the last revision puts `n` at index `i` of stream `s`,
every look-up returns that member (or fails as the file says), never a member of another stream -/
theorem moved_member_is_the_new_one (x : Xref) (pre : List Access) (n s i : Nat)
    (hx : x.get n = some (.inStm s i)) :
    (getObject x (exec x Reader.empty pre) n).2 = specIn x n s i := by
  rw [(getObject_spec x _ ((run_spec x pre) _ (inv_empty x)).2 n).2]
  simp [specGet, hx]

/-- **freed_number_stays_absent**: a number the last revision frees (or never had) is not found,
after every history -/
theorem freed_number_stays_absent (x : Xref) (pre : List Access) (n : Nat)
    (hx : x.get n = some .free ∨ x.get n = none) :
    (getObject x (exec x Reader.empty pre) n).2 = none := by
  rw [(getObject_spec x _ ((run_spec x pre) _ (inv_empty x)).2 n).2]
  rcases hx with hx | hx <;> simp [specGet, hx]

/-- two readers (of any two files) used in any interleaving: each answers as alone -/
theorem readers_independent (x₁ x₂ : Xref) (sched : List (Bool × Access)) :
    ∀ r₁ r₂, Inv x₁ r₁ → Inv x₂ r₂ →
      (sched.foldl (fun (acc : (Reader × Reader) × List (Option Obj)) c =>
          if c.1 then ((( step x₁ acc.1.1 c.2).1, acc.1.2), acc.2 ++ [(step x₁ acc.1.1 c.2).2])
          else ((acc.1.1, (step x₂ acc.1.2 c.2).1), acc.2 ++ [(step x₂ acc.1.2 c.2).2]))
        ((r₁, r₂), ([] : List (Option Obj)))).2
      = sched.map (fun c => if c.1 then specAccess x₁ c.2 else specAccess x₂ c.2) := by
  suffices h : ∀ (out : List (Option Obj)) r₁ r₂, Inv x₁ r₁ → Inv x₂ r₂ →
      (sched.foldl (fun (acc : (Reader × Reader) × List (Option Obj)) c =>
          if c.1 then ((( step x₁ acc.1.1 c.2).1, acc.1.2), acc.2 ++ [(step x₁ acc.1.1 c.2).2])
          else ((acc.1.1, (step x₂ acc.1.2 c.2).1), acc.2 ++ [(step x₂ acc.1.2 c.2).2]))
        ((r₁, r₂), out)).2
      = out ++ sched.map (fun c => if c.1 then specAccess x₁ c.2 else specAccess x₂ c.2) by
    intro r₁ r₂ h₁ h₂
    simpa using h [] r₁ r₂ h₁ h₂
  induction sched with
  | nil => intro out r₁ r₂ _ _; simp
  | cons c cs ih =>
    intro out r₁ r₂ h₁ h₂
    obtain ⟨b, a⟩ := c
    cases b with
    | true =>
      obtain ⟨hi, ha⟩ := step_spec x₁ r₁ h₁ a
      simp only [List.foldl_cons, if_true, List.map_cons]
      rw [ih _ _ _ hi h₂, ha]
      simp
    | false =>
      obtain ⟨hi, ha⟩ := step_spec x₂ r₂ h₂ a
      simp only [List.foldl_cons, Bool.false_eq_true, if_false, List.map_cons]
      rw [ih _ _ _ h₁ hi, ha]
      simp

/-! ### the file of the seeded mutant: revision 0 packs objects 4 and 5 into object stream 8,
revision 1 stores 4 on its own with a new value; stream 8 stays in use for 5 -/

def revisedFile : Xref :=
  [(4, .own (some (.val 41))), (5, .inStm 8 1),
   (8, .own (some (.stm { decodes := true, header := some [4, 5], member := [some 40, some 50] })))]

example : run revisedFile Reader.empty [.get 5, .get 4, .clear, .get 4, .get 5, .get 9]
    = [some (.val 50), some (.val 41), none, some (.val 41), some (.val 50), none] := by decide

/-- **prefetch_counterexample**: filling `objCache` from the header of an object stream when the
stream is loaded makes the superseded member the answer: after `GetObject(5)`, `GetObject(4)`
returns the value of revision 0 -/
theorem prefetch_counterexample :
    runPrefetch revisedFile Reader.empty [5, 4] = [some (.val 50), some (.val 40)] ∧
    runPrefetch revisedFile Reader.empty [4, 5] = [some (.val 41), some (.val 50)] ∧
    run revisedFile Reader.empty [.get 5, .get 4] = [some (.val 50), some (.val 41)] := by decide

/-- a stream that does not decode, a header that does not parse, a member under another number, a
member that does not parse, an index past the header, a stream that is an integer: every one
fails, and fails again -/
def faultyFile : Xref :=
  [(1, .inStm 10 0), (2, .inStm 11 0), (3, .inStm 12 0), (4, .inStm 12 1), (5, .inStm 12 7), (6, .inStm 13 0),
   (7, .inStm 12 2), (9, .inStm 9 0),
   (10, .own (some (.stm { decodes := false, header := some [1], member := [some 1] }))),
   (11, .own (some (.stm { decodes := true, header := none, member := [some 2] }))),
   (12, .own (some (.stm { decodes := true, header := some [33, 4, 7], member := [some 3, none, some 70] }))),
   (13, .own (some (.val 6)))]

example : run faultyFile Reader.empty [.get 1, .get 1, .get 2, .get 2, .get 3, .get 7, .get 4, .get 5, .get 6, .get 3, .get 9, .get 7]
    = [none, none, none, none, none, some (.val 70), none, none, none, none, none, some (.val 70)] := by decide

/-! ## the page list -/

/-- **page_calls_history_free**: `PageCount`, `GetPage(i)` and `Pages` on one reader, in any order
and any number: every call is answered as on a reader that has done nothing yet — the count and
the pages of the walk, or the error of the walk -/
theorem page_calls_history_free {P : Type} (f : TreeFile P) (pre cs : List PageCall) :
    pageRun f {} (pre ++ cs) = pre.map (pageSpec f) ++ cs.map (pageSpec f) := by
  rw [pageRun_spec f (pre ++ cs) {} (fun _ h => by simp at h) (fun h => by simp at h), List.map_append]

/-- **failed_page_load_reported_again**: when the walk of the page tree fails, every call that
needs the page list reports an error, on every call of every history (nothing partial is kept) -/
theorem failed_page_load_reported_again {P : Type} (f : TreeFile P) (hw : f.walk = none)
    (cs : List PageCall) : ∀ a ∈ pageRun f {} cs, a = .err := by
  rw [pageRun_spec f cs {} (fun _ h => by simp at h) (fun h => by simp at h)]
  intro a ha
  obtain ⟨c, _, rfl⟩ := List.mem_map.1 ha
  cases c <;> simp [pageSpec, hw]

/-- a missing catalog or `/Pages` is reported by every call as well (`r.pageTree` stays nil) -/
theorem missing_root_reported_again {P : Type} (f : TreeFile P) (hr : f.hasRoot = false)
    (cs : List PageCall) : ∀ a ∈ pageRun f {} cs, a = .err := by
  rw [pageRun_spec f cs {} (fun _ h => by simp at h) (fun h => by simp at h)]
  intro a ha
  obtain ⟨c, _, rfl⟩ := List.mem_map.1 ha
  simp [pageSpec, hr]

/-- **page_list_kept_counterexample**: without `t.pages = nil` on the error path of `loadPages`
the second call answers from the pages the failed walk had collected -/
theorem page_list_kept_counterexample :
    let f : TreeFile Nat := { hasRoot := true, declared := true, walk := none }
    pageRunWith (pageStepWith (ensurePagesNoReset f [0]) f) {} [.count, .count, .page 0]
      = [.err, .count 1, .page 0] ∧
    pageRun f {} [.count, .count, .page 0] = [.err, .err, .err] := by decide

/-- the page-tree facts of a file whose tree is the object graph `g` under `root`: the walk is
C02's model of `loadPages` (`BoundsCore.loadPagesWith`), pages named by their position -/
def treeOf (g : BoundsCore.PGraph) (root : BoundsCore.PV) (hasRoot declared : Bool) : TreeFile Nat :=
  { hasRoot := hasRoot, declared := declared,
    walk := match BoundsCore.loadPagesWith g BoundsCore.maxPageTreeDepth root with
      | .ok p _ => some (List.range p)
      | _ => none }

/-- **page_count_history_free**: after any page calls, `PageCount` is `BoundsCore.pageCount` of
the object graph — the number of leaves of the walk, or an error, as on a fresh reader -/
theorem page_count_history_free (g : BoundsCore.PGraph) (root : BoundsCore.PV) (declared : Bool)
    (pre : List PageCall) :
    pageRun (treeOf g root true declared) {} (pre ++ [.count])
      = pre.map (pageSpec (treeOf g root true declared)) ++
        [match BoundsCore.pageCount g root (if declared then some 0 else none) with
         | some p => .count p
         | none => .err] := by
  rw [page_calls_history_free]
  congr 1
  simp only [List.map_cons, List.map_nil, pageSpec, treeOf, BoundsCore.pageCount]
  cases declared <;> simp only [if_true, Bool.false_eq_true, if_false]
  cases BoundsCore.loadPagesWith g BoundsCore.maxPageTreeDepth root <;> simp

example : pageRun ({ hasRoot := true, declared := true, walk := some [7, 8] } : TreeFile Nat) {}
    [.page 1, .count, .page 2, .pages] = [.page 8, .count 2, .err, .all [7, 8]] := by decide

end Tabula.C03Hist
