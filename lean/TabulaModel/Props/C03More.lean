import TabulaModel.Lemmas.MapOrder
import TabulaModel.Props.C03Statement
/-!
# C03 — more about "map-ordered data is sorted before it influences output"

`Props/C03Order.lean` proves that the results computed by ranging over a Go map do not depend on
the iteration order.  This file says WHAT those order-free results are (so that "deterministic"
is not bought by returning something arbitrary but fixed), and gives the laws the repairs rely on:

* a stdlib sort leaves sorted data alone and is idempotent, whatever its algorithm;
* the majority vote is characterised exactly (converse of `vote_winner_spec`);
* the repaired navigation-document choice returns nothing exactly when nothing matches, and
  otherwise the matching item with the least key;
* the repaired list builders (`ExtractPageImages`, `findRepeatingPatterns`) return exactly the
  elements of the pinned loops — nothing lost, nothing twice — only their arrangement is fixed;
* copy loops and "delete the deeper counters" are idempotent; deleting to a shallower level
  subsumes deleting to a deeper one;
* the counting maps hold, per bucket, the sum of the weights — for every order of the lines.
-/
namespace Tabula.C03More
open Tabula.MapOrder

/-! ### helper lemmas on association lists -/

theorem assocGet_of_mem {κ β : Type} [DecidableEq κ] (it : List (κ × β))
    (hnd : (it.map Prod.fst).Nodup) (k : κ) (v : β) (h : (k, v) ∈ it) : assocGet it k = some v := by
  induction it with
  | nil => cases h
  | cons e es ih =>
    obtain ⟨a, w⟩ := e
    simp only [List.map_cons, List.nodup_cons] at hnd
    simp only [assocGet]
    rcases List.mem_cons.mp h with heq | hmem
    · simp only [Prod.mk.injEq] at heq
      simp [heq.1, heq.2]
    · have hk : k ≠ a := by
        intro hka
        exact hnd.1 (hka ▸ List.mem_map_of_mem (f := Prod.fst) hmem)
      rw [if_neg hk]
      exact ih hnd.2 hmem

theorem assocGet_mem {κ β : Type} [DecidableEq κ] (it : List (κ × β)) (k : κ) (v : β)
    (h : assocGet it k = some v) : (k, v) ∈ it := by
  induction it with
  | nil => cases h
  | cons e es ih =>
    obtain ⟨a, w⟩ := e
    simp only [assocGet] at h
    by_cases hk : k = a
    · rw [if_pos hk] at h
      cases h
      exact hk ▸ List.mem_cons_self
    · rw [if_neg hk] at h
      exact List.mem_cons_of_mem _ (ih h)

theorem assocGet_ne_none_of_key {κ β : Type} [DecidableEq κ] (it : List (κ × β)) (k : κ)
    (h : k ∈ it.map Prod.fst) : assocGet it k ≠ none := by
  induction it with
  | nil => cases h
  | cons e es ih =>
    obtain ⟨a, w⟩ := e
    simp only [assocGet]
    by_cases hk : k = a
    · rw [if_pos hk]; exact fun h => nomatch h
    · rw [if_neg hk]
      simp only [List.map_cons, List.mem_cons] at h
      exact ih (h.resolve_left hk)

theorem filterMap_congr_on {α β : Type} (f g : α → Option β) (l : List α) (h : ∀ x ∈ l, f x = g x) :
    l.filterMap f = l.filterMap g := by
  induction l with
  | nil => rfl
  | cons x xs ih =>
    simp only [List.filterMap_cons, h x List.mem_cons_self]
    rw [ih fun y hy => h y (List.mem_cons_of_mem _ hy)]

/-! ### sorts -/

/-- **sorted_input_unchanged**: ANY function with the contract of a stdlib sort returns data that
is already in order unchanged (antisymmetric order) — a second `sort.Strings` / `sort.Float64s`
over sorted data, as after the repairs, cannot perturb it. -/
theorem sorted_input_unchanged {α : Type} {le : α → α → Bool}
    (anti : ∀ a b, le a b = true → le b a = true → a = b) {s : List α → List α} (h : IsSort le s)
    (l : List α) (hl : l.Pairwise (fun a b => le a b = true)) : s l = l :=
  List.Perm.eq_of_pairwise (le := fun a b => le a b = true) (fun a b _ _ => anti a b) (h.sorted l) hl (h.perm l)

example : sortInts [1, 2, 2, 5] = [1, 2, 2, 5] := by decide
example : [1, 2, 2, 5].Pairwise (fun a b => leInt a b = true) := by decide

/-- **sort_idempotent**: sorting twice — with two different algorithms even — is sorting once -/
theorem sort_idempotent {α : Type} {le : α → α → Bool}
    (anti : ∀ a b, le a b = true → le b a = true → a = b) {s₁ s₂ : List α → List α}
    (h₁ : IsSort le s₁) (h₂ : IsSort le s₂) (l : List α) : s₁ (s₂ l) = s₂ l :=
  sorted_input_unchanged anti h₁ _ (h₂.sorted l)

example : IsSort leInt sortInts := isSort_sortInts

/-! ### the majority votes -/

/-- **vote_winner_unique** (converse of `C03Order.vote_winner_spec`): an entry of the counting map
that no entry beats — none has more votes, none with as many has a smaller bucket — IS what the
loop returns.  With `vote_winner_spec` the vote is characterised exactly. -/
theorem vote_winner_unique (it : List (Int × Int)) (hpos : ∀ e ∈ it, e.2 > 0) (b c : Int)
    (hmem : (b, c) ∈ it) (hdom : ∀ e ∈ it, e.2 < c ∨ (e.2 = c ∧ b ≤ e.1)) : vote it = (c, b) := by
  have hne : it ≠ [] := by intro h; rw [h] at hmem; cases hmem
  obtain ⟨hw, hall⟩ := vote_spec it hne hpos
  have h1 := hdom _ hw
  have h2 := hall _ hmem
  simp only at h1 h2
  have : (vote it).1 = c ∧ (vote it).2 = b := by omega
  exact Prod.ext this.1 this.2

example : (14, 2) ∈ [((14 : Int), (2 : Int)), (21, 2), (60, 1)] ∧
    (∀ e ∈ [((14 : Int), (2 : Int)), (21, 2), (60, 1)], e.2 > 0) ∧
    ∀ e ∈ [((14 : Int), (2 : Int)), (21, 2), (60, 1)], e.2 < 2 ∨ (e.2 = 2 ∧ 14 ≤ e.1) := by decide

/-- **vote_winner_iff**: for a counting map with positive counts, `(c, b)` is the result of the loop
if and only if `(b, c)` is an entry that no entry beats -/
theorem vote_winner_iff (it : List (Int × Int)) (hne : it ≠ []) (hpos : ∀ e ∈ it, e.2 > 0) (b c : Int) :
    vote it = (c, b) ↔ ((b, c) ∈ it ∧ ∀ e ∈ it, e.2 < c ∨ (e.2 = c ∧ b ≤ e.1)) := by
  constructor
  · intro h
    have := vote_spec it hne hpos
    rw [h] at this
    exact this
  · intro ⟨hm, hd⟩
    exact vote_winner_unique it hpos b c hm hd

/-! ### first match in a map (EPUB navigation document), after the repair -/

/-- **nav_document_none_iff**: the repaired `findNavDocument` / `findNCX` returns nil exactly when
no manifest item matches — for every iteration order and every sort -/
theorem nav_document_none_iff {κ β : Type} [DecidableEq κ] {leK : κ → κ → Bool} {s : List κ → List κ}
    (hs : IsSort leK s) (p : β → Bool) (it : List (κ × β)) :
    minMatch s p it = none ↔ ∀ e ∈ it, p e.2 = false := by
  unfold minMatch
  have hperm := hs.perm ((it.filter fun e => p e.2).map Prod.fst)
  constructor
  · intro h e he
    cases hsk : s ((it.filter fun e => p e.2).map Prod.fst) with
    | nil =>
      rw [hsk] at hperm
      have hnil := hperm.symm.eq_nil
      cases hp : p e.2 with
      | false => rfl
      | true =>
        have : e.1 ∈ (it.filter fun e => p e.2).map Prod.fst :=
          List.mem_map_of_mem (f := Prod.fst) (List.mem_filter.mpr ⟨he, hp⟩)
        rw [hnil] at this
        cases this
    | cons k rest =>
      rw [hsk] at h
      simp only [Option.map_eq_none_iff] at h
      have hk : k ∈ (it.filter fun e => p e.2).map Prod.fst :=
        hperm.subset (hsk ▸ List.mem_cons_self)
      have hk' : k ∈ it.map Prod.fst := by
        obtain ⟨x, hx, rfl⟩ := List.mem_map.mp hk
        exact List.mem_map_of_mem (f := Prod.fst) (List.mem_filter.mp hx).1
      exact absurd h (assocGet_ne_none_of_key it k hk')
  · intro h
    have : (it.filter fun e => p e.2) = [] := by
      apply List.filter_eq_nil_iff.mpr
      intro e he
      simp [h e he]
    rw [this] at hperm
    simp only [List.map_nil] at hperm
    rw [this, List.map_nil, hperm.eq_nil]

example : minMatch sortInts (fun b => b) [(3, false), (1, false)] = none := by decide

/-- **nav_document_least_match**: when it returns an item, that item is in the manifest, matches,
and its key is the least among the matching items — the choice is a function of the package -/
theorem nav_document_least_match {κ β : Type} [DecidableEq κ] {leK : κ → κ → Bool} {s : List κ → List κ}
    (hs : IsSort leK s) (p : β → Bool) (it : List (κ × β)) (hnd : (it.map Prod.fst).Nodup)
    (k : κ) (v : β) (h : minMatch s p it = some (k, v)) :
    (k, v) ∈ it ∧ p v = true ∧ ∀ e ∈ it, p e.2 = true → e.1 = k ∨ leK k e.1 = true := by
  unfold minMatch at h
  have hperm := hs.perm ((it.filter fun e => p e.2).map Prod.fst)
  have hsorted := hs.sorted ((it.filter fun e => p e.2).map Prod.fst)
  cases hsk : s ((it.filter fun e => p e.2).map Prod.fst) with
  | nil => rw [hsk] at h; cases h
  | cons k0 rest =>
    rw [hsk] at h hperm hsorted
    simp only [Option.map_eq_some_iff] at h
    obtain ⟨v0, hget, heq⟩ := h
    simp only [Prod.mk.injEq] at heq
    obtain ⟨rfl, rfl⟩ := heq
    have hmem := assocGet_mem it k0 v0 hget
    refine ⟨hmem, ?_, ?_⟩
    · have hk : k0 ∈ (it.filter fun e => p e.2).map Prod.fst := hperm.subset List.mem_cons_self
      obtain ⟨x, hx, hx1⟩ := List.mem_map.mp hk
      have hx' := List.mem_filter.mp hx
      have : x = (k0, v0) := eq_of_nodup_keys it hnd x (k0, v0) hx'.1 hmem hx1
      rw [this] at hx'
      exact hx'.2
    · intro e he hpe
      have : e.1 ∈ k0 :: rest :=
        hperm.symm.subset (List.mem_map_of_mem (f := Prod.fst) (List.mem_filter.mpr ⟨he, hpe⟩))
      rcases List.mem_cons.mp this with h1 | h2
      · exact Or.inl h1
      · exact Or.inr ((List.pairwise_cons.mp hsorted).1 _ h2)

example : minMatch sortInts (fun b => b) [(3, true), (1, false), (2, true)] = some (2, true) := by decide

/-! ### lists built while ranging over a map, after the repair -/

/-- **page_images_same_elements**: the repaired `ExtractPageImages` (names sorted, then visited)
returns exactly the elements of the pinned loop, each as often — the repair fixes the arrangement
and neither drops nor duplicates an image.  Only "rearrangement" is asked of the sort. -/
theorem page_images_same_elements {κ β γ : Type} [DecidableEq κ] (sortK : List κ → List κ)
    (hperm : ∀ l, (sortK l).Perm l) (f : κ → β → Option γ) (it : List (κ × β))
    (hnd : (it.map Prod.fst).Nodup) : (collectSorted sortK f it).Perm (collectPinned f it) := by
  unfold collectSorted collectPinned
  refine ((hperm (it.map Prod.fst)).filterMap _).trans ?_
  rw [List.filterMap_map]
  have : ∀ e ∈ it, ((fun k => (assocGet it k).bind (f k)) ∘ Prod.fst) e = f e.1 e.2 := by
    intro e he
    obtain ⟨a, w⟩ := e
    simp only [Function.comp]
    rw [assocGet_of_mem it hnd a w he]
    rfl
  rw [filterMap_congr_on _ _ it this]

example : (collectSorted sortInts (fun (k : Int) (v : Int) => some (k, v)) [(2, 20), (1, 10)]).Perm
    (collectPinned (fun (k : Int) (v : Int) => some (k, v)) [(2, 20), (1, 10)]) := by decide

/-- **hf_regions_same_elements**: the repaired `findRepeatingPatterns` reports exactly the regions
the pinned loop found -/
theorem hf_regions_same_elements {κ β γ : Type} [DecidableEq κ] (sortK : List κ → List κ)
    (hperm : ∀ l, (sortK l).Perm l) (f : κ → β → Option γ) (score : γ → Int) (it : List (κ × β))
    (hnd : (it.map Prod.fst).Nodup) : (regionsSorted sortK f score it).Perm (collectPinned f it) :=
  (stableDesc_perm score _).trans (page_images_same_elements sortK hperm f it hnd)

/-- **page_images_member_iff**: an image is in the result iff some entry of the XObject dictionary
yields it -/
theorem page_images_member_iff {κ β γ : Type} [DecidableEq κ] (sortK : List κ → List κ)
    (hperm : ∀ l, (sortK l).Perm l) (f : κ → β → Option γ) (it : List (κ × β))
    (hnd : (it.map Prod.fst).Nodup) (g : γ) :
    g ∈ collectSorted sortK f it ↔ ∃ e ∈ it, f e.1 e.2 = some g := by
  rw [(page_images_same_elements sortK hperm f it hnd).mem_iff]
  unfold collectPinned
  simp only [List.mem_filterMap]

/-! ### copy loops and list counters: idempotence, monotonicity -/

/-- **copy_loops_idempotent**: running a copy loop (`dictToParams`, `withInherited`,
`MergeXRefTables`, `restoreFonts`, …) a second time over the same source — in any other order —
changes nothing -/
theorem copy_loops_idempotent {κ β γ : Type} [DecidableEq κ] (f : β → γ) (it₁ it₂ : List (κ × β))
    (p : it₁.Perm it₂) (hnd : (it₁.map Prod.fst).Nodup) (dst : FMap κ γ) :
    copyAll f it₂ (copyAll f it₁ dst) = copyAll f it₁ dst := by
  funext k
  have hnd₂ := (p.map Prod.fst).nodup hnd
  rw [copyAll_lookup f it₂ hnd₂, copyAll_lookup f it₁ hnd, ← assocGet_perm it₁ it₂ p hnd k]
  cases assocGet it₁ k <;> rfl

example : ([((1 : Int), (10 : Int)), (2, 20)].map Prod.fst).Nodup := by decide

/-- **copy_loops_disjoint_commute**: two copy loops over sources with no key in common (the loops
of `mergeResources` over different sub-dictionaries, `MergeXRefTables` over tables of different
objects) can run in either order -/
theorem copy_loops_disjoint_commute {κ β γ : Type} [DecidableEq κ] (f : β → γ) (it₁ it₂ : List (κ × β))
    (hnd₁ : (it₁.map Prod.fst).Nodup) (hnd₂ : (it₂.map Prod.fst).Nodup)
    (hdis : ∀ k, k ∈ it₁.map Prod.fst → k ∉ it₂.map Prod.fst) (dst : FMap κ γ) :
    copyAll f it₂ (copyAll f it₁ dst) = copyAll f it₁ (copyAll f it₂ dst) := by
  funext k
  rw [copyAll_lookup f it₂ hnd₂, copyAll_lookup f it₁ hnd₁, copyAll_lookup f it₁ hnd₁,
    copyAll_lookup f it₂ hnd₂]
  by_cases h1 : k ∈ it₁.map Prod.fst
  · rw [assocGet_none it₂ k (hdis k h1)]
  · rw [assocGet_none it₁ k h1]

example : ∀ k, k ∈ [((1 : Int), (10 : Int))].map Prod.fst → k ∉ [((2 : Int), (20 : Int))].map Prod.fst := by decide

/-- **list_counters_idempotent**: "delete the counters of all deeper levels", run again on its own
result (two consecutive items of the same level), deletes nothing more — in any two orders -/
theorem list_counters_idempotent (level : Int) (it₁ it₂ m : List (Int × Int)) (p₁ : it₁.Perm m)
    (p₂ : it₂.Perm (deleteDeeper level it₁ m)) :
    deleteDeeper level it₂ (deleteDeeper level it₁ m) = deleteDeeper level it₁ m := by
  rw [deleteDeeper_spec level it₂ _ p₂, deleteDeeper_spec level it₁ m p₁, List.filter_filter]
  simp

/-- **list_counters_shallower_subsumes**: resetting below a level and then below a shallower one is
resetting below the shallower one (an item of level 2 followed by an item of level 0) -/
theorem list_counters_shallower_subsumes (l₁ l₂ : Int) (hl : l₁ ≤ l₂) (it₁ it₂ m : List (Int × Int))
    (p₁ : it₁.Perm m) (p₂ : it₂.Perm (deleteDeeper l₂ it₁ m)) :
    deleteDeeper l₁ it₂ (deleteDeeper l₂ it₁ m) = deleteDeeper l₁ m m := by
  rw [deleteDeeper_spec l₁ it₂ _ p₂, deleteDeeper_spec l₂ it₁ m p₁,
    deleteDeeper_spec l₁ m m (List.Perm.refl _), List.filter_filter]
  apply List.filter_congr
  intro e _
  by_cases h : e.1 ≤ l₁
  · have : e.1 ≤ l₂ := by omega
    simp [h, this]
  · simp [h]

example : deleteDeeper 0 [(1, 2), (0, 3)] (deleteDeeper 1 [(0, 3), (1, 2), (2, 1)] [(0, 3), (1, 2), (2, 1)])
    = deleteDeeper 0 [(0, 3), (1, 2), (2, 1)] [(0, 3), (1, 2), (2, 1)] := by decide

/-- **list_counters_keep_shallow**: the counters of the levels up to `level` are what they were -/
theorem list_counters_keep_shallow (level : Int) (it m : List (Int × Int)) (p : it.Perm m) (k : Int)
    (hk : k ≤ level) : countOf (deleteDeeper level it m) k = countOf m k := by
  rw [deleteDeeper_spec level it m p]
  unfold countOf
  congr 1
  clear p
  induction m with
  | nil => rfl
  | cons e es ih =>
    obtain ⟨a, c⟩ := e
    simp only [List.filter_cons]
    by_cases ha : a ≤ level
    · simp only [ha, decide_true, if_true, assocGet]
      by_cases hka : k = a
      · simp [hka]
      · simp only [hka, if_false]; exact ih
    · have hka : k ≠ a := by omega
      simp only [ha, decide_false, assocGet, hka, if_false]
      exact ih

/-! ### what the counting maps hold -/

/-- the votes of bucket `k` among weighted items: `Σ weight(x)` over the `x` with `bucket(x) = k` -/
def weightOf (xs : List (Int × Int)) (k : Int) : Int :=
  xs.foldl (fun s x => if x.1 = k then s + x.2 else s) 0

theorem countOf_bump (m : List (Int × Int)) (k w k' : Int) :
    countOf (bump m k w) k' = if k = k' then countOf m k' + w else countOf m k' := by
  induction m with
  | nil =>
    by_cases h : k = k'
    · subst h; simp [bump, countOf, assocGet]
    · have h' : ¬ k' = k := fun x => h x.symm
      simp [bump, countOf, assocGet, h, h']
  | cons e es ih =>
    obtain ⟨a, c⟩ := e
    simp only [bump]
    by_cases hak : a = k
    · subst hak
      by_cases h : a = k'
      · subst h; simp [countOf, assocGet]
      · have h' : ¬ k' = a := fun x => h x.symm
        simp [countOf, assocGet, h, h']
    · simp only [hak, if_false]
      by_cases hk'a : k' = a
      · subst hk'a
        have : ¬ k = k' := fun x => hak x.symm
        simp [countOf, assocGet, this]
      · have e1 : countOf ((a, c) :: bump es k w) k' = countOf (bump es k w) k' := by
          simp [countOf, assocGet, hk'a]
        have e2 : countOf ((a, c) :: es) k' = countOf es k' := by
          simp [countOf, assocGet, hk'a]
        rw [e1, e2, ih]

/-- **counting_map_spec**: after `for _, x := range xs { counts[bucket(x)] += weight(x) }` the map
holds, under every bucket, the sum of the weights of the items of that bucket (Go's zero for a
bucket nobody voted for) — `marginCounts`, `alignCounts`, `fontCounts` -/
theorem counting_map_spec (xs : List (Int × Int)) (k : Int) :
    countOf (countInto xs) k = weightOf xs k := by
  unfold countInto weightOf
  have : ∀ (m : List (Int × Int)),
      countOf (xs.foldl (fun m x => bump m x.1 x.2) m) k
        = xs.foldl (fun s x => if x.1 = k then s + x.2 else s) (countOf m k) := by
    induction xs with
    | nil => intro m; rfl
    | cons x xs ih =>
      intro m
      simp only [List.foldl_cons]
      rw [ih, countOf_bump]
  have h := this []
  simpa [countOf, assocGet] using h

example : countOf (countInto [(14, 1), (18, 1), (14, 1)]) 14 = 2 := by decide

/-- **counting_map_line_order_free**: the counts do not depend on the order in which the lines
(paragraphs) are counted -/
theorem counting_map_line_order_free (xs₁ xs₂ : List (Int × Int)) (p : xs₁.Perm xs₂) (k : Int) :
    countOf (countInto xs₁) k = countOf (countInto xs₂) k := by
  rw [counting_map_spec, counting_map_spec]
  unfold weightOf
  apply List.Perm.foldl_eq' p
  intro x _ y _ z
  by_cases hx : x.1 = k <;> by_cases hy : y.1 = k <;> simp [hx, hy] <;> omega

/-! ### the line-grouping tolerance is a function of the SET of fragments' data -/

theorem nodup_eraseDups_aux : ∀ (n : Nat) (l : List Int), l.length ≤ n → l.eraseDups.Nodup := by
  intro n
  induction n with
  | zero =>
    intro l hl
    have : l = [] := by cases l with | nil => rfl | cons a l => simp at hl
    subst this; simp
  | succ n ih =>
    intro l hl
    cases l with
    | nil => simp
    | cons a as =>
      rw [List.eraseDups_cons, List.nodup_cons]
      constructor
      · intro h
        have := (List.mem_filter.mp (List.mem_eraseDups.mp h)).2
        simp at this
      · apply ih
        have := List.length_filter_le (fun b => !b == a) as
        simp at hl; omega

/-- the key set of `yPositions` is the same set whatever the order of the fragments -/
theorem ySet_perm (ys₁ ys₂ : List Int) (p : ys₁.Perm ys₂) : (ySet ys₁).Perm (ySet ys₂) := by
  unfold ySet
  apply (List.perm_ext_iff_of_nodup (nodup_eraseDups_aux _ _ (Nat.le_refl _))
    (nodup_eraseDups_aux _ _ (Nat.le_refl _))).mpr
  intro a
  rw [List.mem_eraseDups, List.mem_eraseDups]
  exact p.mem_iff

/-- **tolerance_fragment_order_free**: `calculateAdaptiveTolerance` is a function of the fragments
as a multiset — the order in which the content stream delivers them (and hence in which
`yPositions` is filled) does not matter, on top of the map's iteration order and the sorts
(`C03Order.tolerance_order_free`) -/
theorem tolerance_fragment_order_free (frags₁ frags₂ : List (Int × Int)) (p : frags₁.Perm frags₂) :
    tolerance frags₁ = tolerance frags₂ := by
  have hy := ySet_perm _ _ (p.map Prod.fst)
  have hs : sortInts (ySet (frags₁.map Prod.fst)) = sortInts (ySet (frags₂.map Prod.fst)) :=
    sortInts_unique isSort_sortInts isSort_sortInts hy
  have hsum : (frags₁.map Prod.snd).foldl (· + ·) 0 = (frags₂.map Prod.snd).foldl (· + ·) 0 := by
    apply List.Perm.foldl_eq' (p.map Prod.snd)
    intro x _ y _ z
    omega
  have he : frags₁.isEmpty = frags₂.isEmpty := by
    cases frags₁ with
    | nil => rw [p.nil_eq]
    | cons a as =>
      cases frags₂ with
      | nil => exact absurd p.eq_nil (by simp)
      | cons b bs => rfl
  unfold tolerance toleranceVia
  rw [hs, hy.length_eq, p.length_eq, hsum, he]

/-- **tolerance_any_order_any_runtime**: composition with `C03Order.tolerance_order_free` — two runs
that see the same fragments in any two orders, range over `yPositions` in any two orders and use
any two pairs of sorting algorithms compute the same tolerance -/
theorem tolerance_any_order_any_runtime (sY₁ sG₁ sY₂ sG₂ : List Int → List Int)
    (hY₁ : IsSort leInt sY₁) (hG₁ : IsSort leInt sG₁) (hY₂ : IsSort leInt sY₂) (hG₂ : IsSort leInt sG₂)
    (frags₁ frags₂ : List (Int × Int)) (p : frags₁.Perm frags₂) (it₁ it₂ : List Int)
    (p₁ : it₁.Perm (ySet (frags₁.map Prod.fst))) (p₂ : it₂.Perm (ySet (frags₂.map Prod.fst))) :
    toleranceVia sY₁ sG₁ frags₁ it₁ = toleranceVia sY₂ sG₂ frags₂ it₂ := by
  rw [MapOrder.tolerance_order_free sY₁ sG₁ hY₁ hG₁ frags₁ it₁ p₁,
    MapOrder.tolerance_order_free sY₂ sG₂ hY₂ hG₂ frags₂ it₂ p₂,
    tolerance_fragment_order_free frags₁ frags₂ p]

example : tolerance [(1270, 100), (1210, 100), (1150, 100), (1240, 100)]
    = tolerance [(1240, 100), (1150, 100), (1270, 100), (1210, 100)] := by decide

/-! ### the counting maps as maps, and the three detectors as functions of the page's lines -/

theorem mem_bump_keys (m : List (Int × Int)) (k w k' : Int) :
    k' ∈ (bump m k w).map Prod.fst ↔ k' ∈ m.map Prod.fst ∨ k' = k := by
  rw [bump_keys]
  split
  · rename_i h
    constructor
    · exact Or.inl
    · rintro (h1 | h1)
      · exact h1
      · exact h1 ▸ h
  · simp [List.mem_append]

theorem countInto_keys_aux (xs m : List (Int × Int)) (k' : Int) :
    k' ∈ (xs.foldl (fun m x => bump m x.1 x.2) m).map Prod.fst ↔ k' ∈ m.map Prod.fst ∨ k' ∈ xs.map Prod.fst := by
  induction xs generalizing m with
  | nil => simp
  | cons x xs ih =>
    simp only [List.foldl_cons, ih, mem_bump_keys, List.map_cons, List.mem_cons]
    exact or_assoc

/-- **counting_map_keys**: the buckets of the counting map are exactly the buckets that occur -/
theorem counting_map_keys (xs : List (Int × Int)) (k : Int) :
    k ∈ (countInto xs).map Prod.fst ↔ k ∈ xs.map Prod.fst := by
  unfold countInto
  rw [countInto_keys_aux]
  simp

/-- **counting_map_entries**: `(k, c)` is an entry of the counting map iff bucket `k` occurs and `c`
is the sum of its weights -/
theorem counting_map_entries (xs : List (Int × Int)) (k c : Int) :
    (k, c) ∈ countInto xs ↔ (k ∈ xs.map Prod.fst ∧ c = weightOf xs k) := by
  constructor
  · intro h
    have hk : k ∈ (countInto xs).map Prod.fst := List.mem_map_of_mem (f := Prod.fst) h
    refine ⟨(counting_map_keys xs k).mp hk, ?_⟩
    have hg := assocGet_of_mem _ (countInto_nodup xs) k c h
    have := counting_map_spec xs k
    simp only [countOf, hg] at this
    exact this
  · intro ⟨hk, hc⟩
    have hk' := (counting_map_keys xs k).mpr hk
    cases hg : assocGet (countInto xs) k with
    | none => exact absurd hg (assocGet_ne_none_of_key _ k hk')
    | some c' =>
      have := counting_map_spec xs k
      simp only [countOf, hg] at this
      rw [hc, ← this]
      exact assocGet_mem _ k c' hg

theorem weightOf_perm (xs₁ xs₂ : List (Int × Int)) (p : xs₁.Perm xs₂) (k : Int) :
    weightOf xs₁ k = weightOf xs₂ k := by
  rw [← counting_map_spec, ← counting_map_spec]
  exact counting_map_line_order_free xs₁ xs₂ p k

theorem nodup_of_nodup_keys {κ β : Type} (l : List (κ × β)) (h : (l.map Prod.fst).Nodup) : l.Nodup := by
  unfold List.Nodup at *
  rw [List.pairwise_map] at h
  exact h.imp (fun hab e => hab (congrArg Prod.fst e))

/-- **counting_map_same_map**: counting the same items in another order gives the same map (the same
entries; as a Go map has no order, the same map) -/
theorem counting_map_same_map (xs₁ xs₂ : List (Int × Int)) (p : xs₁.Perm xs₂) :
    (countInto xs₁).Perm (countInto xs₂) := by
  apply (List.perm_ext_iff_of_nodup (nodup_of_nodup_keys _ (countInto_nodup xs₁))
    (nodup_of_nodup_keys _ (countInto_nodup xs₂))).mpr
  intro ⟨k, c⟩
  rw [counting_map_entries, counting_map_entries, (p.map Prod.fst).mem_iff, weightOf_perm xs₁ xs₂ p k]

theorem isEmpty_perm {α : Type} (l₁ l₂ : List α) (p : l₁.Perm l₂) : l₁.isEmpty = l₂.isEmpty := by
  cases l₁ with
  | nil => rw [← p.nil_eq]
  | cons a as =>
    cases l₂ with
    | nil => exact absurd p.eq_nil (by simp)
    | cons b bs => rfl

/-- **left_margin_line_order_free**: `detectLeftMargin` is a function of the lines as a multiset -/
theorem left_margin_line_order_free (xs₁ xs₂ : List Int) (p : xs₁.Perm xs₂) :
    detectLeftMargin xs₁ = detectLeftMargin xs₂ := by
  unfold detectLeftMargin detectLeftMarginVia marginCounts
  rw [isEmpty_perm _ _ p, MapOrder.vote_order_free _ _ (counting_map_same_map _ _ (p.map _))]

/-- **dominant_alignment_line_order_free** -/
theorem dominant_alignment_line_order_free (as₁ as₂ : List Int) (p : as₁.Perm as₂) :
    detectDominantAlignment as₁ = detectDominantAlignment as₂ := by
  unfold detectDominantAlignment detectDominantAlignmentVia alignCounts
  rw [isEmpty_perm _ _ p, MapOrder.vote_order_free _ _ (counting_map_same_map _ _ (p.map _))]

/-- **body_font_size_paragraph_order_free** -/
theorem body_font_size_paragraph_order_free (ps₁ ps₂ : List (Int × Int)) (p : ps₁.Perm ps₂) :
    detectBodyFontSize ps₁ = detectBodyFontSize ps₂ := by
  unfold detectBodyFontSize detectBodyFontSizeVia fontCounts
  rw [isEmpty_perm _ _ p, MapOrder.vote_order_free _ _ (counting_map_same_map _ _ p)]

example : detectLeftMargin [72, 90, 72, 91, 300] = detectLeftMargin [300, 91, 72, 90, 72] := by decide

theorem weightOf_ge_aux (xs : List (Int × Int)) (hpos : ∀ y ∈ xs, y.2 > 0) (k : Int) (z : Int) :
    z ≤ xs.foldl (fun s x => if x.1 = k then s + x.2 else s) z ∧
    (k ∈ xs.map Prod.fst → z < xs.foldl (fun s x => if x.1 = k then s + x.2 else s) z) := by
  induction xs generalizing z with
  | nil => exact ⟨Int.le_refl _, fun h => nomatch h⟩
  | cons x xs ih =>
    have hx := hpos x List.mem_cons_self
    have ih' := fun z => ih (fun y hy => hpos y (List.mem_cons_of_mem _ hy)) z
    simp only [List.foldl_cons, List.map_cons, List.mem_cons]
    by_cases h : x.1 = k
    · simp only [h, if_true]
      have := (ih' (z + x.2)).1
      exact ⟨by omega, fun _ => by omega⟩
    · simp only [h, if_false]
      refine ⟨(ih' z).1, ?_⟩
      rintro (h1 | h1)
      · exact absurd h1.symm h
      · exact (ih' z).2 h1

/-- **vote_of_counts_spec**: the three detectors end to end — counting, then voting over the map in
any order: for positively weighted items, the winner is a bucket that occurs, its count is the sum
of its weights, and no bucket has a larger sum, none with the same sum is smaller -/
theorem vote_of_counts_spec (ys : List (Int × Int)) (hne : ys ≠ []) (hpos : ∀ y ∈ ys, y.2 > 0)
    (it : List (Int × Int)) (p : it.Perm (countInto ys)) :
    (vote it).2 ∈ ys.map Prod.fst ∧ (vote it).1 = weightOf ys (vote it).2 ∧
    ∀ y ∈ ys, weightOf ys y.1 < (vote it).1 ∨ (weightOf ys y.1 = (vote it).1 ∧ (vote it).2 ≤ y.1) := by
  rw [MapOrder.vote_order_free it _ p]
  have hne' : countInto ys ≠ [] := by
    intro h
    cases ys with
    | nil => exact hne rfl
    | cons y ys =>
      have := (counting_map_keys (y :: ys) y.1).mpr (by simp)
      rw [h] at this
      cases this
  have hpos' : ∀ e ∈ countInto ys, e.2 > 0 := by
    intro ⟨k, c⟩ he
    obtain ⟨hk, hc⟩ := (counting_map_entries ys k c).mp he
    have := (weightOf_ge_aux ys hpos k 0).2 hk
    simp only [hc, weightOf]
    exact this
  obtain ⟨hw, hall⟩ := vote_spec (countInto ys) hne' hpos'
  obtain ⟨h1, h2⟩ := (counting_map_entries ys _ _).mp hw
  refine ⟨h1, h2, ?_⟩
  intro y hy
  have hmem : (y.1, weightOf ys y.1) ∈ countInto ys :=
    (counting_map_entries ys _ _).mpr ⟨List.mem_map_of_mem (f := Prod.fst) hy, rfl⟩
  exact hall _ hmem

/-- **left_margin_is_most_common**: `detectLeftMargin` of a non-empty list of lines is the 5-unit
bucket holding the most lines, the smaller bucket on a tie -/
theorem left_margin_is_most_common (xs : List Int) (hne : xs ≠ []) :
    let w := weightOf (xs.map fun x => (bucketOf 5 x, 1))
    detectLeftMargin xs ∈ xs.map (bucketOf 5) ∧
    ∀ x ∈ xs, w (bucketOf 5 x) < w (detectLeftMargin xs) ∨
      (w (bucketOf 5 x) = w (detectLeftMargin xs) ∧ detectLeftMargin xs ≤ bucketOf 5 x) := by
  intro w
  have hne' : (xs.map fun x => (bucketOf 5 x, (1 : Int))) ≠ [] := by
    intro h; exact hne (List.map_eq_nil_iff.mp h)
  have hpos : ∀ y ∈ (xs.map fun x => (bucketOf 5 x, (1 : Int))), y.2 > 0 := by
    intro y hy
    obtain ⟨x, _, rfl⟩ := List.mem_map.mp hy
    show (0 : Int) < 1
    decide
  obtain ⟨h1, h2, h3⟩ := vote_of_counts_spec _ hne' hpos _ (List.Perm.refl _)
  have hd : detectLeftMargin xs = (vote (countInto (xs.map fun x => (bucketOf 5 x, (1 : Int))))).2 := by
    unfold detectLeftMargin detectLeftMarginVia marginCounts
    rw [List.isEmpty_eq_false_iff.mpr hne]
    rfl
  rw [hd]
  constructor
  · simpa [List.map_map, Function.comp] using h1
  · intro x hx
    have := h3 (bucketOf 5 x, 1) (List.mem_map_of_mem (f := fun x => (bucketOf 5 x, (1 : Int))) hx)
    simp only [w]
    rw [← h2]
    exact this

example : detectLeftMargin [72, 90, 72, 91, 300] = 14 := by decide

/-! ### the facts of a page, end to end -/

open Tabula.Extraction in
/-- **page_facts_content_order_free**: composition up to `pageFacts` (what `Text`/`Fragments`/… render
from): two runs under any two runtimes, on pages with the same font dictionary and content stream
whose fragments, lines and paragraphs reach the heuristics in any two orders, compute the same
facts — the layout heuristics depend on multisets only -/
theorem page_facts_content_order_free (ρ₁ ρ₂ : Runtime) (h₁ : ρ₁.Ok) (h₂ : ρ₂.Ok) (pg₁ pg₂ : PageInput)
    (hnd : (pg₁.fontDict.map Prod.fst).Nodup) (hf : pg₁.fontDict = pg₂.fontDict)
    (ht : pg₁.tokens = pg₂.tokens) (pf : pg₁.frags.Perm pg₂.frags) (px : pg₁.lineXs.Perm pg₂.lineXs)
    (pa : pg₁.aligns.Perm pg₂.aligns) (pp : pg₁.paras.Perm pg₂.paras) :
    pageFacts ρ₁ pg₁ = pageFacts ρ₂ pg₂ := by
  rw [C03Statement.page_facts_runtime_free ρ₁ Runtime.ref h₁ C03Statement.ref_ok pg₁ hnd,
    C03Statement.page_facts_runtime_free ρ₂ Runtime.ref h₂ C03Statement.ref_ok pg₂ (hf ▸ hnd)]
  have e1 := tolerance_fragment_order_free _ _ pf
  have e2 := left_margin_line_order_free _ _ px
  have e3 := dominant_alignment_line_order_free _ _ pa
  have e4 := body_font_size_paragraph_order_free _ _ pp
  unfold tolerance at e1
  unfold detectLeftMargin at e2
  unfold detectDominantAlignment at e3
  unfold detectBodyFontSize at e4
  simp only [pageFacts, Runtime.ref, id, hf, ht, e1, e2, e3, e4]

/-! ### the repairs refine the pinned loops: no new behaviour -/

/-- **nav_document_refines_pinned**: what the repaired `findNavDocument` / `findNCX` returns is what
the pinned `for … range manifest { if match { return } }` returns under SOME iteration order of
the same manifest — the repair picks one of the answers the old code could give, always the same -/
theorem nav_document_refines_pinned {κ β : Type} [DecidableEq κ] {leK : κ → κ → Bool}
    {s : List κ → List κ} (hs : IsSort leK s) (p : β → Bool) (it : List (κ × β))
    (hnd : (it.map Prod.fst).Nodup) : ∃ it', it'.Perm it ∧ firstMatch p it' = minMatch s p it := by
  cases h : minMatch s p it with
  | none =>
    refine ⟨it, List.Perm.refl _, ?_⟩
    have hall := (nav_document_none_iff hs p it).mp h
    unfold firstMatch
    apply List.find?_eq_none.mpr
    intro x hx
    simp [hall x hx]
  | some kv =>
    obtain ⟨k, v⟩ := kv
    obtain ⟨hmem, hp, _⟩ := nav_document_least_match hs p it hnd k v h
    obtain ⟨l₁, l₂, rfl⟩ := List.append_of_mem hmem
    refine ⟨(k, v) :: (l₁ ++ l₂), List.perm_middle.symm, ?_⟩
    unfold firstMatch
    exact List.find?_cons_of_pos (p := fun (e : κ × β) => p e.2) hp

/-- **page_images_refines_pinned**: the list of the repaired `ExtractPageImages` is the list the
pinned loop builds under SOME iteration order of the XObject dictionary (namely the sorted one) -/
theorem page_images_refines_pinned {κ β γ : Type} [DecidableEq κ] (sortK : List κ → List κ)
    (hperm : ∀ l, (sortK l).Perm l) (f : κ → β → Option γ) (it : List (κ × β))
    (hnd : (it.map Prod.fst).Nodup) :
    ∃ it', it'.Perm it ∧ collectPinned f it' = collectSorted sortK f it := by
  refine ⟨(sortK (it.map Prod.fst)).filterMap (fun k => (assocGet it k).map fun v => (k, v)), ?_, ?_⟩
  · refine ((hperm (it.map Prod.fst)).filterMap _).trans ?_
    rw [List.filterMap_map]
    have : ∀ e ∈ it, ((fun k => (assocGet it k).map fun v => (k, v)) ∘ Prod.fst) e = some e := by
      intro e he
      obtain ⟨a, w⟩ := e
      simp only [Function.comp]
      rw [assocGet_of_mem it hnd a w he]
      rfl
    rw [filterMap_congr_on _ _ it this, List.filterMap_some]
  · unfold collectPinned collectSorted
    rw [List.filterMap_filterMap]
    apply filterMap_congr_on
    intro k _
    cases assocGet it k <;> rfl

/-- **hf_regions_refines_pinned**: likewise the header/footer regions are the pinned list of some
iteration order of `groups`, stably sorted by confidence -/
theorem hf_regions_refines_pinned {κ β γ : Type} [DecidableEq κ] (sortK : List κ → List κ)
    (hperm : ∀ l, (sortK l).Perm l) (f : κ → β → Option γ) (score : γ → Int) (it : List (κ × β))
    (hnd : (it.map Prod.fst).Nodup) :
    ∃ it', it'.Perm it ∧ stableDesc score (collectPinned f it') = regionsSorted sortK f score it := by
  obtain ⟨it', hp, he⟩ := page_images_refines_pinned sortK hperm f it hnd
  exact ⟨it', hp, by unfold regionsSorted; rw [he]⟩

example : ([((2 : Int), (20 : Int)), (1, 10)].map Prod.fst).Nodup := by decide

/-! ### the pending operand list (the finding of C03), characterised exactly -/

section Operands
open Tabula.Session

/-- the content stream has an operator -/
def hasOp : List Tok → Bool
  | [] => false
  | .num _ :: rest => hasOp rest
  | .op _ :: _ => true

/-- operands in front of the first operation -/
def prependFirst (s : List Int) : List Operation → List Operation
  | [] => []
  | o :: os => ⟨o.name, s ++ o.operands⟩ :: os

theorem prependFirst_append (s₁ s₂ : List Int) (X : List Operation) :
    prependFirst s₁ (prependFirst s₂ X) = prependFirst (s₁ ++ s₂) X := by
  cases X with
  | nil => rfl
  | cons o os => simp [prependFirst, List.append_assoc]

/-- **inherited_operands_go_to_first_operator**: a parse that starts with operands left over by
another parse (the pinned tree's package-level list) returns the operations of the parse alone,
with the inherited operands in front of those of its FIRST operator — and nothing else changes -/
theorem inherited_operands_go_to_first_operator (stack : List Int) (toks : List Tok) :
    (group stack toks).1 = prependFirst stack (parseOwn toks) := by
  unfold parseOwn
  induction toks generalizing stack with
  | nil => rfl
  | cons t rest ih =>
    cases t with
    | num n =>
      simp only [group]
      rw [ih (stack ++ [n]), ih ([] ++ [n]), prependFirst_append]
      simp
    | op name =>
      simp only [group, prependFirst, List.append_nil]

/-- what such a parse leaves behind in turn: its own leftovers if it has an operator, else the
inherited operands followed by its own -/
theorem inherited_operands_leftover (stack : List Int) (toks : List Tok) :
    (group stack toks).2 = if hasOp toks then (group [] toks).2 else stack ++ (group [] toks).2 := by
  induction toks generalizing stack with
  | nil => simp [group, hasOp]
  | cons t rest ih =>
    cases t with
    | num n =>
      simp only [group, hasOp]
      rw [ih (stack ++ [n]), ih ([] ++ [n])]
      split <;> simp [List.append_assoc]
    | op name => simp only [group, hasOp, if_true]

theorem parseOwn_nil_iff (toks : List Tok) : parseOwn toks = [] ↔ hasOp toks = false := by
  unfold parseOwn
  induction toks with
  | nil => simp [group, hasOp]
  | cons t rest ih =>
    cases t with
    | num n =>
      simp only [group, hasOp]
      rw [← ih, inherited_operands_go_to_first_operator ([] ++ [n]) rest]
      unfold parseOwn
      cases (group [] rest).1 <;> simp [prependFirst]
    | op name => simp [group, hasOp]

/-- **inherited_operands_visible_iff**: a parse started on inherited operands differs from the
parse alone if and only if there ARE inherited operands and the stream has an operator to
receive them -/
theorem inherited_operands_visible_iff (stack : List Int) (toks : List Tok) :
    (group stack toks).1 = parseOwn toks ↔ (stack = [] ∨ hasOp toks = false) := by
  rw [inherited_operands_go_to_first_operator, ← parseOwn_nil_iff]
  cases h : parseOwn toks with
  | nil => simp [prependFirst]
  | cons o os =>
    obtain ⟨name, operands⟩ := o
    simp [prependFirst, List.append_left_eq_self]

/-- **shared_stack_visible_iff**: the pinned tree (operand list at package level) answers two
consecutive parses as the repaired one does if and only if the first leaves no operand behind or
the second has no operator — the exact extent of the defect `shared_stack_counterexample` shows -/
theorem shared_stack_visible_iff (t u : List Tok) :
    sessionShared [] [t, u] = sessionOwn [t, u] ↔ ((group [] t).2 = [] ∨ hasOp u = false) := by
  have : sessionShared [] [t, u] = [parseOwn t, (group (group [] t).2 u).1] := by
    simp only [sessionShared, parseOwn]
  rw [this]
  simp only [sessionOwn, List.map_cons, List.map_nil, List.cons.injEq, and_true, true_and]
  exact inherited_operands_visible_iff _ u

/-- **shared_eq_own_of_all_clean**: on sessions whose parses all end on an operator boundary the
pinned tree and the repaired one agree — why fresh-input unit tests never saw the defect -/
theorem shared_eq_own_of_all_clean (calls : List (List Tok)) (h : ∀ t ∈ calls, (group [] t).2 = []) :
    sessionShared [] calls = sessionOwn calls := by
  induction calls with
  | nil => rfl
  | cons t rest ih =>
    rw [C03.shared_eq_own_of_clean t rest (h t List.mem_cons_self),
      ih fun u hu => h u (List.mem_cons_of_mem _ hu)]
    rfl

example : (group [] [Tok.num 1, .op 113]).2 = [] := by decide
example : sessionShared [] [[.num 1, .num 2, .num 3], [.num 4, .op 113]]
    = [[], [⟨113, [1, 2, 3, 4]⟩]] := by decide

end Operands

/-! ### what the order-free font table is (`RegisterFontsFromResources` after aed7bc8) -/

section Fonts
open Tabula.Session

theorem to_the_end {α : Type} (l₁ l₂ : List α) (a : α) : (l₁ ++ a :: l₂).Perm ((l₁ ++ l₂) ++ [a]) :=
  List.perm_middle.trans (List.perm_append_singleton a (l₁ ++ l₂)).symm

/-- **declared_font_name_wins**: a name of the /Font dictionary resolves to ITS font, for every
iteration order — also when the dictionary has both `F` and `/F` (the case that made the pinned
tree order-dependent, `C03.font_alias_pinned_counterexample`) -/
theorem declared_font_name_wins (fonts : List (Name × Nat)) (hnd : (fonts.map Prod.fst).Nodup)
    (n : Name) (v : Nat) (h : (n, v) ∈ fonts) : registerAll fonts n = some v := by
  obtain ⟨l₁, l₂, rfl⟩ := List.append_of_mem h
  rw [C03.font_registration_order_free _ _ (to_the_end l₁ l₂ (n, v)) hnd]
  unfold registerAll
  rw [List.foldl_append]
  simp only [List.foldl_cons, List.foldl_nil, register]
  unfold keysOf
  split
  · simp [FontMap.set]
  · split
    · simp [FontMap.set]
    · simp [FontMap.set]

/-- **font_alias_resolves**: `"/"+name` resolves to the font of `name` when the name has no leading
slash and the dictionary has no entry of exactly that spelling -/
theorem font_alias_resolves (fonts : List (Name × Nat)) (hnd : (fonts.map Prod.fst).Nodup)
    (n : Name) (v : Nat) (h : (n, v) ∈ fonts) (hslash : ∀ t, n ≠ 47 :: t)
    (hfree : (47 :: n) ∉ fonts.map Prod.fst) : registerAll fonts (47 :: n) = some v := by
  obtain ⟨l₁, l₂, rfl⟩ := List.append_of_mem h
  have p := to_the_end l₁ l₂ (n, v)
  have hfree' : (47 :: n) ∉ ((l₁ ++ l₂) ++ [(n, v)]).map Prod.fst :=
    fun hm => hfree ((p.map Prod.fst).mem_iff.mpr hm)
  rw [C03.font_registration_order_free _ _ p hnd]
  unfold registerAll
  rw [List.foldl_append]
  simp only [List.foldl_cons, List.foldl_nil, register]
  have hk : keysOf (fun k => (((l₁ ++ l₂) ++ [(n, v)]).map Prod.fst).contains k) n = [n, 47 :: n] := by
    unfold keysOf
    split
    · rename_i t; exact absurd rfl (hslash t)
    · rw [if_neg]
      simpa [List.contains_eq_mem] using hfree'
  rw [hk]
  simp [FontMap.set]

example : registerAll [([70], 1), ([47, 70], 2)] [47, 70] = some 2 := by decide
example : registerAll [([70], 1), ([71], 2)] [47, 70] = some 1 := by decide

theorem foldl_set_other (ks : List Name) (m : FontMap) (v : Nat) (k : Name) (h : k ∉ ks) :
    (ks.foldl (fun m x => m.set x v) m) k = m k := by
  induction ks generalizing m with
  | nil => rfl
  | cons a as ih =>
    simp only [List.mem_cons, not_or] at h
    simp only [List.foldl_cons]
    rw [ih _ h.2]
    simp [FontMap.set, h.1]

theorem foldl_register_other (ex : Name → Bool) (l : List (Name × Nat)) (m : FontMap) (k : Name)
    (h : ∀ e ∈ l, k ∉ keysOf ex e.1) : (l.foldl (register ex) m) k = m k := by
  induction l generalizing m with
  | nil => rfl
  | cons e es ih =>
    simp only [List.foldl_cons]
    rw [ih _ (fun e' he' => h e' (List.mem_cons_of_mem _ he'))]
    exact foldl_set_other _ m e.2 k (h e List.mem_cons_self)

/-- **undeclared_font_absent**: a key that is neither a name of the dictionary nor `"/"` + a name of
the dictionary is not in the table — with `declared_font_name_wins` and `font_alias_resolves`
this says what the table is, for every iteration order -/
theorem undeclared_font_absent (fonts : List (Name × Nat)) (k : Name)
    (hk : k ∉ fonts.map Prod.fst) (halias : ∀ t, k = 47 :: t → t ∉ fonts.map Prod.fst) :
    registerAll fonts k = none := by
  unfold registerAll
  rw [foldl_register_other]
  intro e he hmem
  have hn : e.1 ∈ fonts.map Prod.fst := List.mem_map_of_mem (f := Prod.fst) he
  rcases C03.mem_keysOf _ e.1 k hmem with h1 | ⟨h1, _⟩
  · exact hk (h1 ▸ hn)
  · exact halias e.1 h1 hn

example : registerAll [([70], 1), ([71], 2)] [72] = none := by decide

end Fonts

/-! ### the numbers of ordered-list items, for every iteration order -/

/-- **list_number_step_counts**: one item of level `l` — resetting the deeper counters in whatever
order Go ranges over the map, then `counters[l]++` — leaves every counter of a level up to `l`
as it was, except that of `l`, which grows by one -/
theorem list_number_step_counts (iter : List (Int × Int) → List (Int × Int)) (hiter : ∀ m, (iter m).Perm m)
    (st : List (Int × Int) × Int) (l k : Int) (hk : k ≤ l) :
    countOf (numberStep iter st l).1.1 k = if l = k then countOf st.1 k + 1 else countOf st.1 k := by
  simp only [numberStep]
  rw [countOf_bump]
  have : countOf (if l ≤ st.2 then deleteDeeper l (iter st.1) st.1 else st.1) k = countOf st.1 k := by
    split
    · exact list_counters_keep_shallow l (iter st.1) st.1 (hiter st.1) k hk
    · rfl
  rw [this]

/-- **list_number_is_counter_plus_one**: the number the item gets is the counter of its level plus one -/
theorem list_number_is_counter_plus_one (iter : List (Int × Int) → List (Int × Int))
    (hiter : ∀ m, (iter m).Perm m) (st : List (Int × Int) × Int) (l : Int) :
    (numberStep iter st l).2 = countOf st.1 l + 1 := by
  have := list_number_step_counts iter hiter st l l (Int.le_refl _)
  simp only [if_true] at this
  rw [← this]
  rfl

/-- **list_numbers_same_level_consecutive**: `n` consecutive items of one level are numbered
consecutively from the counter of that level, whatever the iteration orders -/
theorem list_numbers_same_level_consecutive (iter : List (Int × Int) → List (Int × Int))
    (hiter : ∀ m, (iter m).Perm m) (l : Int) (n : Nat) (st : List (Int × Int) × Int) :
    numberFrom iter st (List.replicate n l) = (List.range n).map fun (i : Nat) => countOf st.1 l + 1 + (i : Int) := by
  induction n generalizing st with
  | zero => rfl
  | succ n ih =>
    simp only [List.replicate_succ, numberFrom]
    rw [ih, List.range_succ_eq_map, list_number_is_counter_plus_one iter hiter st l]
    have hc := list_number_step_counts iter hiter st l l (Int.le_refl _)
    simp only [if_true] at hc
    rw [hc]
    simp only [List.map_cons, List.map_map]
    congr 1
    · simp
    · apply List.map_congr_left
      intro i _
      simp only [Function.comp, Nat.succ_eq_add_one]
      omega

example : numberItems List.reverse (List.replicate 4 0) = [1, 2, 3, 4] := by decide

/-! ### the hypotheses used above are satisfiable -/

example : ∀ l, (sortInts l).Perm l := isSort_sortInts.perm
example : ∀ m : List (Int × Int), (List.reverse m).Perm m := List.reverse_perm
example : Extraction.Runtime.rev.Ok := C03Statement.rev_ok
example : [((1 : Int), (2 : Int)), (0, 3)].Perm (deleteDeeper 1 [(0, 3), (1, 2), (2, 1)] [(0, 3), (1, 2), (2, 1)]) := by decide
example : countOf (deleteDeeper 1 [(2, 1), (0, 3), (1, 2)] [(0, 3), (1, 2), (2, 1)]) 1 = 2 := by decide
example : (∀ y ∈ [((14 : Int), (1 : Int)), (18, 1), (14, 1)], y.2 > 0) ∧
    vote (countInto [(14, 1), (18, 1), (14, 1)]) = (2, 14) ∧ weightOf [(14, 1), (18, 1), (14, 1)] 14 = 2 := by decide

end Tabula.C03More
