import TabulaModel.Props.C15
import TabulaModel.Lemmas.HtmlGrid
/-!
# C15 — htmldoc tables with `colspan` / `rowspan`

Until fix 72cc329 `htmldoc.(*ParsedTable).ToMarkdown` wrote one Markdown cell per `<td>`/`<th>`
(finding `C15/table-shape-merged-html`, `C15/table-cell-merged-html`): rows of different cell
counts, text under the wrong column.  It now writes the table's grid (`(*ParsedTable).grid`,
Model/HtmlGrid.lean): the cells of a row go to the first columns not covered from above, a cell
stands at its top-left position, every other position is an empty cell.

Proved here, for ALL tables (any number of cells per row, rows without cells, any integers as
spans, overlapping cells, tables beyond the grid limit) and all cell contents:
* what a GFM reader gets back is the grid (`table_roundtrip_html`), every written line has the
  grid's number of cells (`rows_rectangular_html`);
* the grid has one line per row, all lines of one length, and the cells of a line are the cells
  of the row in their order — no cell is lost, duplicated or moved past another
  (`html_grid_rows`, `html_grid_rectangular`, `html_grid_keeps_cells`);
* a cell never stands on a column that a rowspan from above covers (`html_cell_on_free_column`);
  without rowspans a line is the row's cells, each followed by empty cells for the further
  columns of its colspan — the grid row of docx/odt (`html_grid_colspan_only`); the first row of
  every table is of that form (`html_grid_first_row`);
* for tables without spans whose rows have equal length the repair changes nothing
  (`html_repair_unchanged_without_spans`).
The old writer is `renderHtmlSpanOld`, with the witnesses of the finding as
`_pinned_counterexample`s.
-/
namespace Tabula.C15
open Tabula.A1 (Str)
open Tabula.Markdown
open Tabula.HtmlGrid (cellSpan cellLine gridSpan spanOf overLimit layoutGrid widthOf)

/-! ## the grid -/

/-- one line per row of the table -/
theorem html_grid_rows (t : List (List HCell)) : (htmlGrid t).length = t.length :=
  HtmlGrid.layoutGrid_rows _ t

/-- every line of the grid has the grid's width -/
theorem html_grid_rectangular (t : List (List HCell)) : ∀ l ∈ htmlGrid t, l.length = htmlWidth t :=
  HtmlGrid.layoutGrid_rect _ t

/-- the cells of line `i`, from left to right, are the cells of row `i`: nothing is lost,
nothing appears twice, no cell overtakes another -/
theorem html_grid_keeps_cells (t : List (List HCell)) : (htmlGrid t).map (·.filterMap id) = t :=
  HtmlGrid.layoutGrid_cells _ t

theorem html_grid_texts_rect (t : List (List HCell)) : Rect (htmlWidth t) (htmlGridTexts t) := by
  intro r hr
  unfold htmlGridTexts at hr
  rcases List.mem_map.mp hr with ⟨l, hl, rfl⟩
  rw [List.length_map]
  exact html_grid_rectangular t l hl

/-- a table with a cell has a column -/
theorem html_width_pos (t : List (List HCell)) (h : ∃ r ∈ t, r ≠ []) : 1 ≤ htmlWidth t :=
  HtmlGrid.widthOf_pos _ t h

/-! ## read-back -/

/-- **table_roundtrip for htmldoc, with `colspan`/`rowspan`** (the former finding): a table
with at least one cell — rows of any lengths, rows without cells, any spans, any cell contents
(pipes, newlines, backslashes) — written by `ToMarkdown` is read by a GFM reader as the table's
grid: one row per source row, every row with the grid's number of columns, each cell's
(normalised) text at the position where the cell stands, every other position empty. -/
theorem table_roundtrip_html (t : List (List HCell)) (hcell : ∃ r ∈ t, r ≠ []) :
    gfmTable (renderHtmlSpan t) = some ((htmlGridTexts t).map (List.map (normCell .html))) := by
  have hne : htmlGridTexts t ≠ [] := by
    intro h
    have h1 := congrArg List.length h
    simp only [htmlGridTexts, List.length_map, html_grid_rows, List.length_nil] at h1
    rcases hcell with ⟨r, hr, _⟩
    cases t with
    | nil => cases hr
    | cons _ _ => simp at h1
  exact table_roundtrip_any .html (htmlWidth t) (html_width_pos t hcell) (htmlGridTexts t) hne
    (html_grid_texts_rect t)

/-- **rows_rectangular for htmldoc**: whatever the spans, every written row line has exactly
`htmlWidth t` cells for a GFM reader, and so has the separator. -/
theorem rows_rectangular_html (t : List (List HCell)) (hcell : ∃ r ∈ t, r ≠ []) :
    (∀ r ∈ htmlGridTexts t, (gfmSplitRow (renderRow .html r)).length = htmlWidth t) ∧
      (gfmSplitRow (renderDelim .html (htmlWidth t))).length = htmlWidth t :=
  rows_rectangular_any .html (htmlWidth t) (html_width_pos t hcell) (htmlGridTexts t)
    (html_grid_texts_rect t)

/-- the recorded witnesses, now: `<th colspan=2>A</th>` over `x | y`, and a rowspan -/
example :
    gfmTable (renderHtmlSpan [[⟨[65], 2, 1⟩], [⟨[120], 1, 1⟩, ⟨[121], 1, 1⟩]])
      = some [[[65], []], [[120], [121]]] := by decide

example :
    gfmTable (renderHtmlSpan [[⟨[84], 1, 2⟩, ⟨[65], 1, 1⟩], [⟨[66], 1, 1⟩]])
      = some [[[84], [65]], [[], [66]]] := by decide

/-- a row all of whose cells are covered from above is a row of empty cells -/
example :
    gfmTable (renderHtmlSpan [[⟨[84], 1, 2⟩, ⟨[85], 1, 2⟩], [], [⟨[97], 1, 1⟩, ⟨[98, 124], 0, 0⟩]])
      = some [[[84], [85]], [[], []], [[97], [98, 124]]] := by decide

/-! ## where the cells stand -/

/-- the span function the grid uses for table `t` -/
def htmlSpanOf (t : List (List HCell)) : HCell → Nat × Nat := gridSpan HCell.colSpan HCell.rowSpan t

/-- **a cell never stands on a covered column**: placing a row against the columns covered from
above (`cov`), a position of the line that holds a cell is a column with `cov = 0` -/
theorem html_cell_on_free_column (sp : HCell → Nat × Nat) (cov : List Nat) (r : List HCell) (k : Nat)
    (c : HCell) (h : (HtmlGrid.placeRow sp cov r).1[k]? = some (some c)) : cov.getD k 0 = 0 :=
  HtmlGrid.placeRow_cell_free sp r cov k c h

/-- **the first row** of every table: its cells, each followed by `none` for the further
columns of its colspan -/
theorem html_grid_first_row (r : List HCell) (rs : List (List HCell)) :
    ∃ pad, (htmlGrid (r :: rs)).head? = some (r.flatMap (cellLine (htmlSpanOf (r :: rs))) ++ pad) ∧
      ∀ x ∈ pad, x = none := by
  have h := HtmlGrid.layoutRows_first (htmlSpanOf (r :: rs)) r rs
  unfold htmlGrid HtmlGrid.grid layoutGrid
  cases hl : (HtmlGrid.layoutRows (gridSpan HCell.colSpan HCell.rowSpan (r :: rs)) [] (r :: rs)).1 with
  | nil => rw [show htmlSpanOf (r :: rs) = gridSpan HCell.colSpan HCell.rowSpan (r :: rs) from rfl, hl] at h; cases h
  | cons l ls =>
    rw [show htmlSpanOf (r :: rs) = gridSpan HCell.colSpan HCell.rowSpan (r :: rs) from rfl, hl] at h
    simp only [List.head?_cons, Option.some.injEq] at h
    refine ⟨List.replicate (widthOf (gridSpan HCell.colSpan HCell.rowSpan (r :: rs)) (r :: rs) - l.length) none, ?_, ?_⟩
    · simp only [List.map_cons, List.head?_cons]
      rw [h]; rfl
    · intro x hx; exact List.eq_of_mem_replicate hx

/-- **tables without rowspan** (every `RowSpan` counts as 1): every line is the row's cells,
each followed by `none` for the further columns of its colspan, padded to the width — the grid
row of docx/odt (`gridRow`) -/
theorem html_grid_colspan_only (t : List (List HCell))
    (hrow : ∀ r ∈ t, ∀ c ∈ r, cellSpan c.rowSpan = 1) :
    htmlGrid t = t.map fun r =>
      r.flatMap (cellLine (htmlSpanOf t)) ++
        List.replicate (htmlWidth t - (r.flatMap (cellLine (htmlSpanOf t))).length) none := by
  -- the span function may be replaced by one that says 1 row for every cell: it agrees on the cells of t
  have hsp : ∀ r ∈ t, ∀ c ∈ r, (htmlSpanOf t c).2 ≤ 1 := by
    intro r hr c hc
    unfold htmlSpanOf gridSpan spanOf
    split
    · simp only []; rw [hrow r hr c hc]; exact Nat.le_refl 1
    · exact Nat.le_refl 1
  let sp' : HCell → Nat × Nat := fun c => ((htmlSpanOf t c).1, min (htmlSpanOf t c).2 1)
  have hag : ∀ r ∈ t, ∀ c ∈ r, sp' c = htmlSpanOf t c := by
    intro r hr c hc
    have := hsp r hr c hc
    show ((htmlSpanOf t c).1, min (htmlSpanOf t c).2 1) = htmlSpanOf t c
    rw [Nat.min_eq_left this]
  have hrows : ∀ (cov : List Nat), HtmlGrid.layoutRows (htmlSpanOf t) cov t = HtmlGrid.layoutRows sp' cov t :=
    fun cov => (layoutRows_congr sp' (htmlSpanOf t) t hag cov).symm
  have h1 : (HtmlGrid.layoutRows sp' [] t).1 = t.map fun r => r.flatMap (cellLine sp') :=
    HtmlGrid.layoutRows_noRowSpan sp' (fun c => Nat.min_le_right _ _) t [] (fun _ h => by cases h)
  unfold htmlGrid HtmlGrid.grid layoutGrid htmlWidth HtmlGrid.gridWidth widthOf
  rw [show gridSpan HCell.colSpan HCell.rowSpan t = htmlSpanOf t from rfl, hrows [], h1, List.map_map]
  apply List.map_congr_left
  intro r hr
  have hfm : ∀ (l : List HCell), (∀ c ∈ l, sp' c = htmlSpanOf t c) →
      l.flatMap (cellLine sp') = l.flatMap (cellLine (htmlSpanOf t)) := by
    intro l
    induction l with
    | nil => intro _; rfl
    | cons c cs ih =>
      intro h
      simp only [List.flatMap_cons]
      rw [ih (fun x hx => h x (List.mem_cons_of_mem _ hx))]
      unfold cellLine
      rw [h c (by simp)]
  have := hfm r (hag r hr)
  simp only [Function.comp, this]
where
  layoutRows_congr (sp sp2 : HCell → Nat × Nat) : ∀ (t : List (List HCell)),
      (∀ r ∈ t, ∀ c ∈ r, sp c = sp2 c) → ∀ cov, HtmlGrid.layoutRows sp cov t = HtmlGrid.layoutRows sp2 cov t
    | [], _, _ => rfl
    | r :: rs, h, cov => by
        have hp : ∀ (r : List HCell), (∀ c ∈ r, sp c = sp2 c) → ∀ cov, HtmlGrid.placeRow sp cov r = HtmlGrid.placeRow sp2 cov r := by
          intro r
          induction r with
          | nil => intro _ _; rfl
          | cons c cs ih =>
            intro hc cov
            simp only [HtmlGrid.placeRow]
            rw [hc c (by simp), ih (fun x hx => hc x (List.mem_cons_of_mem _ hx))]
        simp only [HtmlGrid.layoutRows]
        rw [hp r (h r (by simp)) cov,
          layoutRows_congr sp sp2 rs (fun x hx => h x (List.mem_cons_of_mem _ hx))]

/-- a cell of an htmldoc table that does not span: `ColSpan` and `RowSpan` count as 1 -/
def PlainCell (c : HCell) : Prop := cellSpan c.colSpan = 1 ∧ cellSpan c.rowSpan = 1

instance : DecidablePred PlainCell := fun c => by unfold PlainCell; exact inferInstance

/-- **the repair changes nothing where nothing was wrong**: for a table whose cells do not span
and whose rows have the same length, the new writer gives exactly what the old one gave -/
theorem html_repair_unchanged_without_spans (n : Nat) (t : List (List HCell))
    (hrect : ∀ r ∈ t, r.length = n) (hplain : ∀ r ∈ t, ∀ c ∈ r, PlainCell c) :
    renderHtmlSpan t = renderHtmlSpanOld t := by
  unfold renderHtmlSpan renderHtmlSpanOld
  congr 1
  -- replace the span function by the constant one: it agrees on the cells of t
  let sp' : HCell → Nat × Nat := fun _ => (0, 1)
  have hag : ∀ r ∈ t, ∀ c ∈ r, sp' c = htmlSpanOf t c := by
    intro r hr c hc
    obtain ⟨h1, h2⟩ := hplain r hr c hc
    unfold htmlSpanOf gridSpan spanOf
    split
    · show (0, 1) = (cellSpan c.colSpan - 1, cellSpan c.rowSpan); rw [h1, h2]
    · rfl
  have hrows : HtmlGrid.layoutRows (htmlSpanOf t) [] t = HtmlGrid.layoutRows sp' [] t :=
    (html_grid_colspan_only.layoutRows_congr sp' (htmlSpanOf t) t hag []).symm
  have hg : htmlGrid t = layoutGrid sp' t := by
    unfold htmlGrid HtmlGrid.grid layoutGrid widthOf
    rw [show gridSpan HCell.colSpan HCell.rowSpan t = htmlSpanOf t from rfl, hrows]
  unfold htmlGridTexts
  rw [hg, HtmlGrid.layoutGrid_plain sp' (fun _ => rfl) n t hrect, List.map_map]
  apply List.map_congr_left
  intro r _
  simp [Function.comp, gridText, List.map_map]

/-- non-vacuity: a 2 x 2 table of plain cells (spans 1, 0, -4 and 5000 all count as 1) -/
example : (∀ r ∈ [[(⟨[97], 1, 1⟩ : HCell), ⟨[98, 124], 0, -4⟩], [⟨[], 1, 1⟩, ⟨[99], 5000, 1⟩]], r.length = 2) ∧
    ∀ r ∈ [[(⟨[97], 1, 1⟩ : HCell), ⟨[98, 124], 0, -4⟩], [⟨[], 1, 1⟩, ⟨[99], 5000, 1⟩]], ∀ c ∈ r, PlainCell c := by
  decide

/-- non-vacuity of `html_grid_colspan_only`: colspans only; the second row is short -/
example : (∀ r ∈ [[(⟨[65], 2, 1⟩ : HCell), ⟨[66], 1, 0⟩], [⟨[99], 1, 1⟩]], ∀ c ∈ r, cellSpan c.rowSpan = 1) ∧
    htmlGridTexts [[⟨[65], 2, 1⟩, ⟨[66], 1, 0⟩], [⟨[99], 1, 1⟩]] = [[[65], [], [66]], [[99], [], []]] := by
  decide

/-- overlapping cells (`C` spans two columns from the first one, into the column `B` covers from
above): every cell is still written, in its row, in order -/
example :
    htmlGridTexts [[⟨[65], 1, 1⟩, ⟨[66], 1, 2⟩], [⟨[67], 2, 1⟩, ⟨[68], 1, 1⟩]]
      = [[[65], [66], []], [[67], [], [68]]] := by decide

/-- **the grid limit**: when the grid with spans would have more than 2^20 cells (`overLimit`:
its width `w > 0` and `len(rows) > 2^20 / w`), the spans are not believed — the grid is the one
in which every cell is one column and one row; otherwise the bounded spans are honoured.  The
theorems above hold on either side. -/
theorem html_grid_limit (t : List (List HCell)) :
    (overLimit HCell.colSpan HCell.rowSpan t = true → htmlGrid t = layoutGrid (fun _ => (0, 1)) t) ∧
      (overLimit HCell.colSpan HCell.rowSpan t = false →
        htmlGrid t = layoutGrid (fun c => (cellSpan c.colSpan - 1, cellSpan c.rowSpan)) t) := by
  constructor <;> intro h <;>
    · unfold htmlGrid HtmlGrid.grid gridSpan
      rw [h]
      rfl

/-- the limit is about the grid, not about a span: 3 rows under a cell 40 columns wide -/
example : overLimit HCell.colSpan HCell.rowSpan [[⟨[65], 40, 1⟩], [⟨[120], 1, 1⟩], []] = false ∧
    htmlWidth [[⟨[65], 40, 1⟩], [⟨[120], 1, 1⟩], []] = 40 := by decide

/-! ## the writer before the fix -/

/-- the old writer ignores `colspan`: a header cell spanning two columns over a two-cell data row
gives a one-column table for a GFM reader, which drops the second data cell (`y`) — the grid
`[[A, ""], [x, y]]` is not what was read back (witness of `C15/table-shape-merged-html`) -/
theorem html_merged_shape_pinned_counterexample :
    gfmTable (renderHtmlSpanOld [[⟨[65], 2, 1⟩], [⟨[120], 1, 1⟩, ⟨[121], 1, 1⟩]])
        = some [[[65]], [[120]]] ∧
      gfmTable (renderHtmlSpanOld [[⟨[65], 2, 1⟩], [⟨[120], 1, 1⟩, ⟨[121], 1, 1⟩]])
        ≠ some ((htmlGridTexts [[⟨[65], 2, 1⟩], [⟨[120], 1, 1⟩, ⟨[121], 1, 1⟩]]).map (List.map (normCell .html))) := by
  decide

/-- the old writer ignores `rowspan`: under `T` (two rows high) and `A`, the second row's only
cell `B` belongs under `A`; it was written — and read back — under `T`
(`C15/table-cell-merged-html`: the cell counts happen to agree after the reader's padding) -/
theorem html_merged_cell_pinned_counterexample :
    gfmTable (renderHtmlSpanOld [[⟨[84], 1, 2⟩, ⟨[65], 1, 1⟩], [⟨[66], 1, 1⟩]])
        = some [[[84], [65]], [[66], []]] ∧
      (htmlGridTexts [[⟨[84], 1, 2⟩, ⟨[65], 1, 1⟩], [⟨[66], 1, 1⟩]]).map (List.map (normCell .html))
        = [[[84], [65]], [[], [66]]] := by
  decide

/-- the old writer's lines are ragged: 1 cell in the header line, 2 in the data line -/
theorem html_merged_ragged_pinned_counterexample :
    (gfmSplitRow (renderRow .html [[65]])).length = 1 ∧
      (gfmSplitRow (renderRow .html [[120], [121]])).length = 2 ∧
      renderHtmlSpanOld [[⟨[65], 2, 1⟩], [⟨[120], 1, 1⟩, ⟨[121], 1, 1⟩]]
        = renderRow .html [[65]] ++ [10] ++ renderDelim .html 1 ++ [10] ++ renderRow .html [[120], [121]] ++ [10] := by
  decide

end Tabula.C15
