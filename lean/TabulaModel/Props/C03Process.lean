import TabulaModel.Lemmas.Process
import TabulaModel.Lemmas.OptHeap
/-!
# C03 — the state a process holds between calls, and why calls do not interfere

"The result of an extraction depends only on the document bytes and the options: … an
extraction gives the same result whether it runs alone, after any other extractions, …"

`Model/Process.lean`: a process works on any number of documents; for each it holds a FAMILY of
Extractors (derived from one `Open(f)` / `FromReader(r)` base by configuration methods), the
readers they opened, and the warnings each Extractor holds.  A SCHEDULE is any list of calls
`(family, operation)`.  The theorems: a call changes its own family only (`non_interference`);
what a family is answered in a schedule is what its own calls are answered alone
(`schedule_projection`); and each of those answers is a function of the document and of the
chain of configuration calls behind the receiver — result class and warnings
(`extraction_depends_on_document_and_options`).  `Model/OptHeap.lean` shows at the level of Go
slices why configuration methods cannot disturb each other (`options_copy_on_configure`), with
the seeded shallow copy as counterexample; `cache_transparent` does the same for the caches a
`reader.Reader` keeps.  Interleavings below the granularity of a call (goroutines) are not
modelled: there the regenerated facts and the race detector carry the claim.
-/
namespace Tabula.C03Process
open Tabula.Builder Tabula.Process Tabula.OptHeap

/-! ### families do not interfere -/

/-- **non_interference**: a call leaves every family but the one it names exactly as it was —
Extractors, readers, warnings -/
theorem non_interference (docs : List Doc) (p : Proc) (c : Call) (d : Nat) (h : d ≠ c.fam) :
    (procStep docs p c).1[d]? = p[d]? :=
  procStep_other docs p c d h

/-- **schedule_projection**: in ANY schedule — any interleaving of the calls on any number of
documents — the answers that go to family `d` are the answers of `d`'s own calls, in their
order, run on `d` alone -/
theorem schedule_projection (docs : List Doc) (cs : List Call) (d : Nat) (doc : Doc)
    (hd : docs[d]? = some doc) :
    projectAns d cs (procRun docs (proc0 docs) cs) = famRun doc doc.fam0 (project d cs) :=
  procRun_project docs cs (proc0 docs) d doc doc.fam0 hd (proc0_get docs d doc hd)

/-- **extraction_depends_on_document_and_options**: in any schedule, every answer family `d` gets —
result class (error / page count / the page indices processed / whole document) and the
warnings returned — is the one computed from document `d` and from the chain of configuration
calls that built the receiving Extractor, by `aloneAnswer`: no reference to any state -/
theorem extraction_depends_on_document_and_options (docs : List Doc) (cs : List Call) (d : Nat) (doc : Doc)
    (hd : docs[d]? = some doc) :
    projectAns d cs (procRun docs (proc0 docs) cs) = aloneRun doc [[]] (project d cs) := by
  rw [schedule_projection docs cs d doc hd]
  obtain ⟨h1, h2, h3, h4⟩ := fam0_inv doc
  exact famRun_alone doc _ [[]] doc.fam0 h1 h2 h3 h4

/-- **schedule_irrelevant**: two schedules that give family `d` the same calls in the same order —
whatever else they do, in whatever interleaving, on whatever other documents — give `d` the
same answers -/
theorem schedule_irrelevant (docs₁ docs₂ : List Doc) (cs₁ cs₂ : List Call) (d₁ d₂ : Nat) (doc : Doc)
    (h₁ : docs₁[d₁]? = some doc) (h₂ : docs₂[d₂]? = some doc) (hp : project d₁ cs₁ = project d₂ cs₂) :
    projectAns d₁ cs₁ (procRun docs₁ (proc0 docs₁) cs₁) = projectAns d₂ cs₂ (procRun docs₂ (proc0 docs₂) cs₂) := by
  rw [extraction_depends_on_document_and_options docs₁ cs₁ d₁ doc h₁,
    extraction_depends_on_document_and_options docs₂ cs₂ d₂ doc h₂, hp]

/-- a two-document process: document 0 (4 pages, page 3 shows messy traits) and document 1 (2
pages); the calls on document 0 are `x1 := x0.Pages(3); x1.Text(); x0.Text(); x1.Text()`,
interleaved with failing and succeeding calls on document 1 -/
def demoDocs : List Doc :=
  [{ world := ⟨true, some 4⟩, messy := [false, false, true, false] }, { world := ⟨true, some 2⟩ }]

def demoSchedule : List Call :=
  [⟨1, .term 0 .text⟩, ⟨0, .derive 0 (.pages [3])⟩, ⟨1, .derive 0 (.pages [9])⟩, ⟨0, .term 1 .text⟩,
   ⟨1, .term 1 .text⟩, ⟨0, .term 0 .text⟩, ⟨0, .term 1 .text⟩, ⟨2, .term 0 .text⟩]

example : procRun demoDocs (proc0 demoDocs) demoSchedule =
    [(.pages [0, 1], 0), (.none, 0), (.none, 0), (.pages [2], 1), (.err, 0), (.pages [0, 1, 2, 3], 0),
     (.pages [2], 1), (.bad, 0)] := by decide

example : projectAns 0 demoSchedule (procRun demoDocs (proc0 demoDocs) demoSchedule) =
    [(.none, 0), (.pages [2], 1), (.pages [0, 1, 2, 3], 0), (.pages [2], 1)] := by decide

/-- **warnings_accumulate_counterexample** (before 3adabc2: the page loops appended to the
Extractor's warning list and never started a new one): the second `Text()` on one Extractor
returned two warnings, where the same call alone returns one -/
theorem warnings_accumulate_counterexample :
    let d : Doc := { world := ⟨true, some 1⟩, messy := [true] }
    famRunOld d d.fam0 [.term 0 .text, .term 0 .text] ≠ aloneRun d [[]] [.term 0 .text, .term 0 .text] := by
  decide

/-! ### configuration methods on the heap -/

/-- **derive_refines**: one configuration method, with `ExtractOptions.clone` copying the page list
and `append` growing by any policy: the new Extractor is the one the value-level model gives,
every backing array in use before is unchanged -/
theorem derive_refines (grow : Nat → Nat → Nat) (H : Heap) (x : HExt) (c : BCall) (hx : OptOk H x.sl) :
    absExt (hderive grow H x c).1 (hderive grow H x c).2 = (absExt H x).derive c ∧
    OptOk (hderive grow H x c).1 (hderive grow H x c).2.sl ∧
    Keeps H.next H (hderive grow H x c).1 :=
  hderive_spec grow H x c hx

/-- **options_copy_on_configure**: after any history of configuration calls on the Extractors of a
family (siblings from one base, chains of any depth, in any order), every Extractor holds
exactly the options of the value-level model -/
theorem options_copy_on_configure (grow : Nat → Nat → Nat) (e : Ext) (ops : List (Nat × BCall)) :
    ((hbase e).run grow ops).abs = runValues (hbase e).abs ops :=
  (run_abs grow ops (hbase e) (famOk_base e)).1

/-- **growth_policy_irrelevant**: the capacities `append` happens to pick never show -/
theorem growth_policy_irrelevant (g₁ g₂ : Nat → Nat → Nat) (e : Ext) (ops : List (Nat × BCall)) :
    ((hbase e).run g₁ ops).abs = ((hbase e).run g₂ ops).abs := by
  rw [options_copy_on_configure g₁ e ops, options_copy_on_configure g₂ e ops]

/-- `base := Open(f).PageRange(1,3); a := base.Pages(4); b := base.Pages(5)` -/
def r3m2History : List (Nat × BCall) := [(0, .pageRange 1 3), (1, .pages [4]), (1, .pages [5])]

example : (((hbase {}).run growDouble r3m2History).abs.map (·.opts.pages)) = [[], [1, 2, 3], [1, 2, 3, 4], [1, 2, 3, 5]] := by
  decide

/-- **shallow_clone_counterexample** (the seeded change r3m2, `clone` reduced to `return o`): the
base's page list has spare capacity after three single appends (capacity 4), `a` and `b`
write their page into the same slot, and `a` ends up with `b`'s page -/
theorem shallow_clone_counterexample :
    (((hbase {}).runShallow growDouble r3m2History).abs.map (·.opts.pages)) = [[], [1, 2, 3], [1, 2, 3, 5], [1, 2, 3, 5]] ∧
    ((hbase {}).runShallow growDouble r3m2History).abs ≠ runValues (hbase {}).abs r3m2History := by
  decide

/-! ### a reader's caches -/

/-- **cache_transparent**: on a reader whose cache holds only what the file says (as after
`NewReader`, and after every access), any sequence of look-ups and `ClearCache` calls returns,
look-up by look-up, what the file says -/
theorem cache_transparent {κ β : Type} [DecidableEq κ] (spec : κ → Option β) (as : List (Access κ)) :
    (accessRun spec [] as).2 = as.map (accessSpec spec) :=
  (accessRun_spec spec as [] (by intro e he; cases he)).1

/-- **lookup_history_independent**: a look-up on a reader that has been used for anything returns
what it returns on a fresh reader -/
theorem lookup_history_independent {κ β : Type} [DecidableEq κ] (spec : κ → Option β)
    (before : List (Access κ)) (n : κ) :
    (accessRun spec [] (before ++ [.get n])).2.getLast? = (accessRun spec [] [.get n]).2.getLast? := by
  rw [cache_transparent, cache_transparent]
  simp [accessSpec]

example : (accessRun (fun n => if n < 5 then some (n * 10) else none) [] [.get 3, .get 7, .get 3, .clear, .get 3]).2
    = [some 30, none, some 30, none, some 30] := by decide

end Tabula.C03Process
