import TabulaModel.Model.Layout
import TabulaModel.Lemmas.Layout
import TabulaModel.Lemmas.LayoutBound
/-!
# C09 — layout analysis never loses, invents or duplicates text

Theorems about `Model/Layout.lean`. Every theorem is for ALL fragment lists (any length, any
rational coordinates, any texts) and for ALL outcomes of the classification heuristics, which
are parameters: the gap list, the line tolerance `tol`, `preserve` (shouldPreserveStreamOrder),
`isSpan`/`keep` (spanning decisions), `brk` (paragraph and block break decisions), `ov`
(block overlap decision), the white space `sep`/`pad` written between fragments.

"Exactly once" is stated with `List.Perm` (the groups, concatenated, are a permutation of the
input) and, equivalently, with `List.count`. Conservation of text is stated on `nonspace`, the
non-white-space characters.

`element_tree_once` is proved at full strength for the tree after the repair 8ee0e52 (coverage
decided by fragment identity; see known_findings.txt). The tree before it suppressed paragraphs
by box overlap (`elementTreeOld`): `element_tree_old_once_partial` / `_old_once_iff` say when it
conserved, the two `_pinned_counterexample` theorems show the recorded loss and repetition.
-/
namespace Tabula.C09
open Tabula.Layout List

/-! ## dedupe_only_duplicates -/

/-- `deduplicateFragments` removes a fragment exactly when a fragment with the same text at the
same rounded position precedes it: appending `f` to any list appends `f` to the result unless
its key already occurs. -/
theorem dedupe_only_duplicates (pre : List Frag) (f : Frag) :
    dedupe (pre ++ [f]) = dedupe pre ++ (if keyOf f ∈ pre.map keyOf then [] else [f]) := by
  have := dedupeAux_snoc [] pre f
  simpa [dedupe] using this

/-- nothing is invented or reordered -/
theorem dedupe_sublist (fs : List Frag) : (dedupe fs).Sublist fs := dedupeAux_sublist [] fs

theorem dedupeAux_covers (seen : List Key) (fs : List Frag) (f : Frag) (hf : f ∈ fs) :
    keyOf f ∈ seen ∨ ∃ g ∈ dedupeAux seen fs, keyOf g = keyOf f := by
  induction fs generalizing seen with
  | nil => simp at hf
  | cons a fs ih =>
    simp only [dedupeAux]
    by_cases ha : keyOf a ∈ seen
    · have hc : seen.contains (keyOf a) = true := by simpa using ha
      simp only [hc, if_true]
      rcases List.mem_cons.mp hf with h | h
      · subst h; exact Or.inl ha
      · exact ih seen h
    · have hc : seen.contains (keyOf a) = false := by simpa using ha
      simp only [hc, Bool.false_eq_true, if_false]
      rcases List.mem_cons.mp hf with h | h
      · subst h; exact Or.inr ⟨f, by simp, rfl⟩
      · rcases ih (keyOf a :: seen) h with h' | ⟨g, hg, hk⟩
        · rcases List.mem_cons.mp h' with h'' | h''
          · exact Or.inr ⟨a, by simp, h''.symm⟩
          · exact Or.inl h''
        · exact Or.inr ⟨g, List.mem_cons_of_mem _ hg, hk⟩

/-- every removed fragment has a kept twin: same text, same rounded position -/
theorem dedupe_keeps_a_twin (fs : List Frag) (f : Frag) (hf : f ∈ fs) :
    ∃ g ∈ dedupe fs, keyOf g = keyOf f := by
  rcases dedupeAux_covers [] fs f hf with h | h
  · simp at h
  · exact h

example : dedupe [⟨0, 10, 20, 5, 10, 10, [97]⟩, ⟨1, 10, 20, 5, 10, 10, [97]⟩, ⟨2, 12, 20, 5, 10, 10, [97]⟩]
    = [⟨0, 10, 20, 5, 10, 10, [97]⟩, ⟨2, 12, 20, 5, 10, 10, [97]⟩] := by decide +kernel

/-! ## lines_partition, buildLines_keeps -/

/-- `groupIntoLines`: the lines, concatenated, are a permutation of the input — for every
tolerance and every stream-order decision. -/
theorem lines_partition (tol : Rat) (preserve : List Frag → Bool) (fs : List Frag) :
    (groupIntoLines tol preserve fs).flatten.Perm fs := by
  unfold groupIntoLines
  have h1 := flatten_map_perm (orderLine preserve) (orderLine_perm preserve)
    (segment (lineBreak tol) (stableSort (lessY tol) fs) [])
  rw [segment_flatten, List.nil_append] at h1
  exact h1.trans (stableSort_perm _ _)

/-- every fragment occurs in the lines exactly as often as in the input (once, for distinct ids) -/
theorem lines_count (tol : Rat) (preserve : List Frag → Bool) (fs : List Frag) (f : Frag) :
    ((groupIntoLines tol preserve fs).map (List.count f)).sum = fs.count f := by
  rw [← List.count_flatten]
  exact (lines_partition tol preserve fs).count_eq f

/-- no line is empty -/
theorem lines_nonempty (tol : Rat) (preserve : List Frag → Bool) (fs : List Frag) :
    ∀ l ∈ groupIntoLines tol preserve fs, l ≠ [] := by
  intro l hl
  unfold groupIntoLines at hl
  rcases List.mem_map.mp hl with ⟨g, hg, rfl⟩
  have hne := segment_nonempty (lineBreak tol) _ [] g hg
  intro h
  have := (orderLine_perm preserve g).length_eq
  rw [h] at this
  cases g with
  | nil => exact hne rfl
  | cons a g => simp at this

/-- `buildLines` (after fix 0432d47) only drops groups without visible text: it is a sublist, a
group whose text is visible is kept, and the non-space characters are unchanged. -/
theorem buildLines_keeps (minW : Rat) (groups : List (List Frag)) :
    (buildLines minW groups).Sublist groups ∧
    (∀ g ∈ groups, visible (lineText g) = true → g ∈ buildLines minW groups) ∧
    nonspace (textsOf (buildLines minW groups).flatten) = nonspace (textsOf groups.flatten) := by
  refine ⟨List.filter_sublist, ?_, buildLines_nonspace minW groups⟩
  intro g hg hv
  unfold buildLines
  refine List.mem_filter.mpr ⟨hg, ?_⟩
  unfold keepLine
  cases g with
  | nil => simp [lineText, visible] at hv
  | cons a g => simp [hv]

/-- before the fix the property failed: a line of one narrow glyph disappeared -/
theorem buildLines_old_counterexample :
    nonspace (textsOf (buildLinesOld 5 [[⟨0, 228, 30, 4, 8, 8, [72]⟩]]).flatten) ≠
      nonspace (textsOf [[⟨0, 228, 30, 4, 8, 8, [72]⟩]].flatten) := by decide +kernel

/-- the whole line detector conserves the non-space characters -/
theorem detectLines_conserves (tol minW : Rat) (preserve : List Frag → Bool) (fs : List Frag) :
    (nonspace (textsOf (detectLines tol minW preserve fs).flatten)).Perm (nonspace (textsOf fs)) := by
  unfold detectLines
  rw [buildLines_nonspace]
  exact textsOf_perm (lines_partition tol preserve fs)

/-! ## columns_partition -/

/-- `ColumnDetector.Detect` (after fixes 740a6d9 and 395abf8): for every gap list, every
spanning decision and every fragment list, the columns and the spanning group together are a
permutation of the input. -/
theorem columns_partition (gaps : List Gap) (minCW : Rat) (isSpan keep : List Frag → List Frag → Bool)
    (fs : List Frag) :
    ((detectColumns gaps minCW isSpan keep fs).columns.flatten ++
      (detectColumns gaps minCW isSpan keep fs).spanning).Perm fs :=
  detectColumns_perm gaps minCW isSpan keep fs

/-- each fragment is in exactly one column or in the spanning group -/
theorem columns_count (gaps : List Gap) (minCW : Rat) (isSpan keep : List Frag → List Frag → Bool)
    (fs : List Frag) (f : Frag) :
    ((detectColumns gaps minCW isSpan keep fs).columns.map (List.count f)).sum +
      (detectColumns gaps minCW isSpan keep fs).spanning.count f = fs.count f := by
  rw [← List.count_flatten, ← List.count_append]
  exact (columns_partition gaps minCW isSpan keep fs).count_eq f

/-- the parts, separately: assignment to the column intervals, validation, spanning separation -/
theorem createColumns_partition (gaps : List Gap) (fs : List Frag) :
    (createColumns gaps fs).flatten.Perm fs := createColumns_perm gaps fs

theorem validateColumns_partition (minCW : Rat) (cols : List (List Frag)) :
    (validateColumns minCW cols).flatten.Perm cols.flatten := validateColumns_perm minCW cols

theorem separate_partition (isSpan keep : List Frag → List Frag → Bool) (fs : List Frag) :
    ((separate isSpan keep fs).1 ++ (separate isSpan keep fs).2).Perm fs := separate_perm isSpan keep fs

/-- before fix 395abf8: the one word that sticks out past the right edge forms a column
narrower than 50 pt and is dropped with its text -/
theorem columns_drop_counterexample :
    ¬ (validateColumnsOld 50 (createColumns [⟨300, 330⟩]
        [⟨0, 72, 700, 200, 10, 10, [97]⟩, ⟨1, 340, 700, 15, 10, 10, [98]⟩])).flatten.Perm
      [⟨0, 72, 700, 200, 10, 10, [97]⟩, ⟨1, 340, 700, 15, 10, 10, [98]⟩] := by
  intro h
  have := h.length_eq
  revert this
  decide +kernel

/-- before fix 740a6d9: a zero-width fragment at the right edge of the content is assigned to
no column -/
theorem columns_edge_counterexample :
    ¬ (createColumnsOld [⟨300, 330⟩]
        [⟨0, 72, 700, 200, 10, 10, [97]⟩, ⟨1, 340, 700, 100, 10, 10, [98]⟩, ⟨2, 440, 700, 0, 10, 10, [99]⟩]).flatten.Perm
      [⟨0, 72, 700, 200, 10, 10, [97]⟩, ⟨1, 340, 700, 100, 10, 10, [98]⟩, ⟨2, 440, 700, 0, 10, 10, [99]⟩] := by
  intro h
  have := h.length_eq
  revert this
  decide +kernel

/-! ## paragraphs_segment -/

/-- `groupIntoParagraphs` (and every sweep of this shape): for every sequence of break
decisions the groups are consecutive pieces of the line list, in order, none empty. -/
theorem paragraphs_segment {α : Type} (brk : List α → α → List α → Bool) (lines : List α) :
    (segment brk lines []).flatten = lines ∧ ∀ p ∈ segment brk lines [], p ≠ [] :=
  ⟨by simpa using segment_flatten brk lines [], segment_nonempty brk lines []⟩

/-! ## blocks_partition, merge_blocks_union -/

/-- `mergeOverlappingBlocks`: for every overlap decision the fragments (and the lines) of the
merged blocks are a permutation of those of the input blocks. -/
theorem merge_blocks_union (ov : Block → Block → Bool) (bs : List Block) :
    (blocksFrags (mergeAll ov bs)).Perm (blocksFrags bs) ∧
    (blocksLines (mergeAll ov bs)).Perm (blocksLines bs) :=
  ⟨mergeAll_perm (·.frags) mergeBlocks_frags ov bs, mergeAll_perm (·.lines) mergeBlocks_lines ov bs⟩

/-- grouping lines into blocks and merging: every fragment of every line is in exactly one
block, both in `Block.Fragments` and in `Block.Lines`. -/
theorem blocks_partition (brk : List (List Frag) → List Frag → List (List Frag) → Bool)
    (ov : Block → Block → Bool) (lines : List (List Frag)) :
    (blocksFrags (mergeAll ov (groupBlocks brk lines))).Perm lines.flatten ∧
    (blocksLines (mergeAll ov (groupBlocks brk lines))).Perm lines := by
  have h := merge_blocks_union ov (groupBlocks brk lines)
  rw [groupBlocks_frags, groupBlocks_lines] at h
  exact h

/-- `validateBlocks` (after fix 8996d0b) drops only blocks without visible text, so the whole
block detector conserves the non-space characters. -/
theorem blocks_conserve (brk : List (List Frag) → List Frag → List (List Frag) → Bool)
    (ov : Block → Block → Bool) (minW minH : Rat) (lines : List (List Frag)) :
    (nonspace (textsOf (blocksFrags (detectBlocks brk ov minW minH lines)))).Perm
      (nonspace (textsOf lines.flatten)) := by
  unfold detectBlocks
  rw [validateBlocks_nonspace]
  exact textsOf_perm (blocks_partition brk ov lines).1

/-! ## element_tree_once -/

def idsOf (es : List Elem) : List Nat := es.flatMap (·.ids)

/-- `element_tree_once` (full statement, after the repair 8ee0e52): whenever the headings and
lists the tree emits show fragments of the paragraphs (as multisets of ids: no id more often than
the paragraphs do), the tree shows every fragment of the paragraphs exactly once - the fragment
ids of the tree are a permutation of those of the paragraphs. For every box of a remainder. -/
theorem element_tree_once (rbox : Elem → List Nat → Box) (hs ls ps : List Elem)
    (h : ∀ i, (idsOf (shownHeadings hs ls)).count i + (idsOf ls).count i ≤ (idsOf ps).count i) :
    (idsOf (elementTree rbox hs ls ps)).Perm (idsOf ps) := by
  rw [List.perm_iff_count]
  intro i
  have h1 := count_elementTree rbox hs ls ps i
  have h2 := h i
  unfold idsOf at *
  omega

example : ∀ i, (idsOf (shownHeadings [⟨⟨72, 700, 100, 12⟩, [0]⟩] [])).count i + (idsOf []).count i ≤
    (idsOf [⟨⟨72, 688, 100, 24⟩, [0, 1]⟩]).count i := by
  intro i
  by_cases h0 : i = 0
  · subst h0; decide
  · simp [idsOf, shownHeadings, List.count_cons, List.count_nil, Ne.symm h0]

/-- with NO hypothesis: the repaired tree never loses a fragment of a paragraph -/
theorem element_tree_never_loses (rbox : Elem → List Nat → Box) (hs ls ps : List Elem) (i : Nat) :
    (idsOf ps).count i ≤ (idsOf (elementTree rbox hs ls ps)).count i := by
  have h1 := count_elementTree rbox hs ls ps i
  unfold idsOf
  omega

/-- the tree BEFORE the repair (recorded findings C09/elements-lost-paragraph-covered-by-heading-or-list
and C09/elements-duplicated-heading-or-list-also-in-paragraph, fixed by 8ee0e52) conserved only
under the condition that the suppressed paragraphs show exactly the fragments of the headings
and lists. -/
theorem element_tree_old_once_partial (ov : Box → Box → Bool) (hs ls ps : List Elem)
    (h : (idsOf (hs ++ ls)).Perm (idsOf (ps.filter (consumed ov hs ls)))) :
    (idsOf (elementTreeOld ov hs ls ps)).Perm (idsOf ps) := by
  unfold elementTreeOld idsOf at *
  rw [List.flatMap_append]
  have h2 : ((ps.filter (consumed ov hs ls)) ++ ps.filter (fun p => !consumed ov hs ls p)).Perm ps :=
    List.filter_append_perm _ ps
  have h3 := h2.flatMap_right (·.ids)
  rw [List.flatMap_append] at h3
  exact (h.append_right _).trans h3

example : (idsOf [⟨⟨0, 0, 10, 10⟩, [0]⟩]).Perm
    (idsOf ([⟨⟨0, 0, 10, 10⟩, [0]⟩, ⟨⟨0, 50, 10, 10⟩, [1]⟩].filter (consumed bboxOverlaps [⟨⟨0, 0, 10, 10⟩, [0]⟩] []))) := by
  decide +kernel

/-- loss BEFORE the repair: a heading detected on the whole-page line "A" overlaps the column
paragraph "A B" (box of the paragraph 2 lines high, the heading covers more than half of the
smaller box): the paragraph is suppressed and fragment 1 is in no element. -/
theorem element_tree_loss_pinned_counterexample :
    ¬ (idsOf (elementTreeOld bboxOverlaps [⟨⟨72, 700, 100, 12⟩, [0]⟩] [] [⟨⟨72, 688, 100, 24⟩, [0, 1]⟩])).Perm
      (idsOf [⟨⟨72, 688, 100, 24⟩, [0, 1]⟩]) := by
  intro h
  have := h.length_eq
  revert this
  decide +kernel

/-- repetition BEFORE the repair: the same heading in the second column, where the paragraph box
is column-relative (x = 0) while the heading box is absolute (x = 320): no overlap, the fragment
is emitted as heading and as paragraph. -/
theorem element_tree_dup_pinned_counterexample :
    ¬ (idsOf (elementTreeOld bboxOverlaps [⟨⟨320, 700, 100, 12⟩, [0]⟩] [] [⟨⟨0, 700, 100, 12⟩, [0]⟩])).Perm
      (idsOf [⟨⟨0, 700, 100, 12⟩, [0]⟩]) := by
  intro h
  have := h.length_eq
  revert this
  decide +kernel

/-- the same two witnesses on the repaired tree: heading [0] and the remainder [1] of the
paragraph; heading [0] and nothing of the paragraph -/
example (rbox : Elem → List Nat → Box) :
    idsOf (elementTree rbox [⟨⟨72, 700, 100, 12⟩, [0]⟩] [] [⟨⟨72, 688, 100, 24⟩, [0, 1]⟩]) = [0, 1] ∧
    idsOf (elementTree rbox [⟨⟨320, 700, 100, 12⟩, [0]⟩] [] [⟨⟨0, 700, 100, 12⟩, [0]⟩]) = [0] := by
  constructor <;> rfl

/-! ## element_tree: the tree before the repair, for ALL inputs (history)

Two statements that are true for every overlap decision, every heading/list/paragraph list, and
say exactly how far the old tree was from conserving: -/

/-- the balance of the old element tree: the elements together with the suppressed paragraphs
show what the headings, the lists and all paragraphs show. Whatever was lost is in a suppressed
paragraph and in no heading/list; whatever was repeated is in a heading/list and in a paragraph
that was not suppressed. -/
theorem element_tree_old_balance (ov : Box → Box → Bool) (hs ls ps : List Elem) :
    (idsOf (elementTreeOld ov hs ls ps) ++ idsOf (ps.filter (consumed ov hs ls))).Perm
      (idsOf (hs ++ ls) ++ idsOf ps) := by
  unfold elementTreeOld idsOf
  rw [List.flatMap_append, List.append_assoc]
  refine List.Perm.append_left _ ?_
  have h2 : ((ps.filter (consumed ov hs ls)) ++ ps.filter (fun p => !consumed ov hs ls p)).Perm ps :=
    List.filter_append_perm _ ps
  have h3 := h2.flatMap_right (·.ids)
  rw [List.flatMap_append] at h3
  exact List.perm_append_comm.trans h3

/-- `element_tree_old_once_partial` is sharp: the old tree conserved the fragment ids IF AND ONLY
IF the headings and lists showed exactly the fragments of the suppressed paragraphs. -/
theorem element_tree_old_once_iff (ov : Box → Box → Bool) (hs ls ps : List Elem) :
    (idsOf (elementTreeOld ov hs ls ps)).Perm (idsOf ps) ↔
      (idsOf (hs ++ ls)).Perm (idsOf (ps.filter (consumed ov hs ls))) := by
  constructor
  · intro h
    have hb := element_tree_old_balance ov hs ls ps
    have h1 : (idsOf ps ++ idsOf (ps.filter (consumed ov hs ls))).Perm (idsOf (hs ++ ls) ++ idsOf ps) :=
      (h.symm.append_right _).trans hb
    have h2 : (idsOf (ps.filter (consumed ov hs ls)) ++ idsOf ps).Perm (idsOf (hs ++ ls) ++ idsOf ps) :=
      List.perm_append_comm.trans h1
    exact ((List.perm_append_right_iff _).mp h2).symm
  · exact element_tree_old_once_partial ov hs ls ps

/-- without headings and lists the tree is the paragraph list (as before the repair) -/
theorem element_tree_no_headings (rbox : Elem → List Nat → Box) (ps : List Elem) :
    elementTree rbox [] [] ps = ps := by
  unfold elementTree shownHeadings
  simp only [List.filter_nil, List.flatMap_nil, List.append_nil, List.nil_append]
  exact remainingPars_nil rbox ps

/-! ## assemble_conserves -/

/-- `assembleText`: the output has exactly the non-space characters of the fragments -/
theorem assemble_conserves (fs : List Frag) :
    (nonspace (assembleText fs)).Perm (nonspace (textsOf fs)) := by
  rw [nonspace_assembleText]
  exact textsOf_perm (stableSort_perm _ _)

/-- `extractPreserveLayout`, whatever padding it writes. Unchanged by the C02 repair daef69b
(which clamps the padding: still white space) and kept verbatim: it covers every amount of
padding, the clamped one included. -/
theorem assemble_conserves_preserveLayout (pad : List Frag → Frag → Nat × Nat) (fs : List Frag) :
    (nonspace (preserveLayout pad fs)).Perm (nonspace (textsOf fs)) := by
  unfold preserveLayout
  rw [nonspace_plEmit]
  exact textsOf_perm (stableSort_perm _ _)

/-- `extractPreserveLayout` as the code has it after daef69b (`preserveLayoutGo`: the lines, the
column counter, at most 100 newlines per vertical gap, target column at most 200), for every
character width and fall-back line height: still exactly the non-space characters of the
fragments. The clamps of daef69b truncate PADDING only, never text: no hypothesis on the
coordinates is needed (how much padding: `Props/C09Bound.lean`). -/
theorem assemble_conserves_preserveLayoutGo (cw lh0 : Rat) (fs : List Frag) :
    (nonspace (preserveLayoutGo cw lh0 fs)).Perm (nonspace (textsOf fs)) := by
  rw [nonspace_preserveLayoutGo]
  exact textsOf_perm (stableSort_perm _ _)

/-- `extractByColumn` on the line texts of the sections, whatever (white) separators it writes -/
theorem assemble_conserves_byColumn (sep : Nat → Nat → Str) (hsep : ∀ i j, nonspace (sep i j) = [])
    (sections : List (List Str)) :
    nonspace (byColumnText sep sections) = nonspace (sections.map List.flatten).flatten := by
  unfold byColumnText
  rw [nonspace_byColumnAux sep hsep]
  rfl

example : ∀ i j : Nat, nonspace ((fun _ j => if j % 2 = 0 then [10] else [10, 10]) i j) = [] := by
  intro i j; simp only; split <;> rfl

/-- `extractWithParagraphs` on the line texts of the paragraphs -/
theorem assemble_conserves_joinParagraphs (paras : List (List Str)) :
    nonspace (joinParagraphsText paras) = nonspace (paras.map List.flatten).flatten :=
  nonspace_joinParagraphsAux 0 paras

/-! ## pipeline_conserves -/

/-- `buildSections`: the spanning group (if any) and the non-empty columns -/
def sectionsOf (cl : ColumnLayout) : List (List Frag) :=
  (if cl.spanning.isEmpty then [] else [cl.spanning]) ++ cl.columns.filter (fun c => !c.isEmpty)

/-- `Open(f).ByColumn().Text()` for one page: deduplicate, detect columns, build and order
the sections (`order`: orderSections, any permutation), detect the lines of each section and
reorder them (`reorder`: reorderLinesByY, any permutation), write the line texts. -/
def byColumnPipeline (gaps : List Gap) (minCW minW : Rat) (isSpan keep : List Frag → List Frag → Bool)
    (tolOf : List Frag → Rat) (preserve : List Frag → Bool)
    (order reorder : List (List Frag) → List (List Frag)) (sep : Nat → Nat → Str) (raw : List Frag) : Str :=
  let secs := order (sectionsOf (detectColumns gaps minCW isSpan keep (dedupe raw)))
  byColumnText sep (secs.map fun s => (reorder (detectLines (tolOf s) minW preserve s)).map lineText)

theorem sectionsOf_flatten (cl : ColumnLayout) : (sectionsOf cl).flatten.Perm cl.all := by
  unfold sectionsOf ColumnLayout.all
  rw [List.flatten_append]
  have h1 : (if cl.spanning.isEmpty then [] else [cl.spanning]).flatten = cl.spanning := by
    split
    · rename_i h; rw [(isEmpty_eq_true_iff _).mp h]; rfl
    · simp
  have h2 : (cl.columns.filter (fun c => !c.isEmpty)).flatten = cl.columns.flatten := by
    induction cl.columns with
    | nil => rfl
    | cons c cs ih =>
      simp only [List.filter_cons]
      cases c with
      | nil => simp [ih]
      | cons a c => simp [ih]
  rw [h1, h2]
  exact List.perm_append_comm

theorem lineTexts_nonspace (L : List (List Frag)) :
    nonspace (L.map lineText).flatten = nonspace (textsOf L.flatten) := by
  induction L with
  | nil => rfl
  | cons l L ih =>
    simp only [List.map_cons, List.flatten_cons, nonspace_append, textsOf_append, nonspace_lineText, ih]

theorem sections_nonspace (g : List Frag → List Str)
    (hg : ∀ s, (nonspace (g s).flatten).Perm (nonspace (textsOf s))) (secs : List (List Frag)) :
    (nonspace ((secs.map g).map List.flatten).flatten).Perm (nonspace (textsOf secs.flatten)) := by
  induction secs with
  | nil => exact List.Perm.refl _
  | cons s secs ih =>
    simp only [List.map_cons, List.flatten_cons, nonspace_append, textsOf_append]
    exact (hg s).append ih

/-- composition: for every outcome of every heuristic, the ByColumn text of a page has exactly
the non-space characters of its deduplicated fragments. -/
theorem pipeline_conserves (gaps : List Gap) (minCW minW : Rat) (isSpan keep : List Frag → List Frag → Bool)
    (tolOf : List Frag → Rat) (preserve : List Frag → Bool)
    (order reorder : List (List Frag) → List (List Frag))
    (horder : ∀ l, (order l).Perm l) (hreorder : ∀ l, (reorder l).Perm l)
    (sep : Nat → Nat → Str) (hsep : ∀ i j, nonspace (sep i j) = []) (raw : List Frag) :
    (nonspace (byColumnPipeline gaps minCW minW isSpan keep tolOf preserve order reorder sep raw)).Perm
      (nonspace (textsOf (dedupe raw))) := by
  unfold byColumnPipeline
  simp only
  rw [assemble_conserves_byColumn sep hsep, List.map_map]
  have hsec : ∀ s, (nonspace (((reorder (detectLines (tolOf s) minW preserve s)).map lineText)).flatten).Perm
      (nonspace (textsOf s)) := by
    intro s
    rw [lineTexts_nonspace]
    exact (textsOf_perm (hreorder _).flatten).trans (detectLines_conserves _ _ _ _)
  have h1 := sections_nonspace (fun s => (reorder (detectLines (tolOf s) minW preserve s)).map lineText) hsec
    (order (sectionsOf (detectColumns gaps minCW isSpan keep (dedupe raw))))
  rw [List.map_map] at h1
  refine h1.trans (textsOf_perm ?_)
  exact ((horder _).flatten.trans (sectionsOf_flatten _)).trans (detectColumns_perm _ _ _ _ _)

example : ∀ l : List (List Frag), (List.reverse l).Perm l := fun l => List.reverse_perm l

/-- the plain `Text()` path (`assembleText`) composed with deduplication -/
theorem pipeline_conserves_text (raw : List Frag) :
    (nonspace (assembleText (dedupe raw))).Perm (nonspace (textsOf (dedupe raw))) :=
  assemble_conserves (dedupe raw)

end Tabula.C09
