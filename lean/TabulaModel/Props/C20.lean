import TabulaModel.Lemmas.Detect
import TabulaModel.Lemmas.Drm
/-!
# C20 — Files are admitted by content; mismatches and DRM are refused

Theorems about `Model/Detect.lean` (format/detect.go, extractor.go) and
`Model/Drm.lean` (epubdoc/drm.go).  Helper lemmas: `Lemmas/Detect.lean`,
`Lemmas/Drm.lean`.  All statements are for every input of the model.
-/
set_option autoImplicit false
namespace Tabula.C20
open Tabula.Detect Tabula.Drm

/-! ## ext_table -/

/-- the extension table of the property: seven formats, `.htm` = `.html` -/
def extPairs : List (Str × Format) :=
  [(dotPdf, .pdf), (dotDocx, .docx), (dotOdt, .odt), (dotXlsx, .xlsx), (dotPptx, .pptx),
   (dotHtml, .html), (dotHtm, .html), (dotEpub, .epub)]

/-- every one of the seven formats has an extension -/
theorem ext_table_seven_formats (f : Format) (hf : f ≠ .unknown) : ∃ p ∈ extPairs, p.2 = f := by
  cases f <;> simp [extPairs] at hf ⊢

/-- two names that differ only in letter case ask for the same format -/
theorem ext_table_case_insensitive (a b : Str) (h : lower a = lower b) : detect a = detect b := by
  rw [← detect_lower a, ← detect_lower b, h]

example : lower [100, 46, 80, 100, 70] = lower [68, 46, 112, 68, 102] := by decide

theorem detect_append_ext (x t : Str) (ht : ∀ c ∈ t, c ≠ 46 ∧ c ≠ 47) :
    detect (x ++ 46 :: t) = extTable (lower (46 :: t)) := by
  unfold detect
  rw [ext_append x t ht]

/-- `ext_table`: whatever the stem (dots and directories included) and whatever the
letter case of the extension, a name ending in one of the eight extensions asks for
that extension's format. -/
theorem ext_table (p : Str × Format) (hp : p ∈ extPairs) (stem e : Str) (he : lower e = p.1) :
    detect (stem ++ e) = p.2 := by
  rw [← detect_lower, lower_append, he]
  simp only [extPairs, List.mem_cons, List.not_mem_nil, or_false] at hp
  rcases hp with rfl | rfl | rfl | rfl | rfl | rfl | rfl | rfl
  all_goals
    first
    | (show detect (lower stem ++ 46 :: _) = _
       rw [detect_append_ext _ _ (by decide)]
       decide)

example : (dotDocx, Format.docx) ∈ extPairs ∧ lower [46, 68, 111, 67, 88] = dotDocx := by decide

theorem extTable_spec (e : Str) : extTable e = .unknown ∨ (e, extTable e) ∈ extPairs := by
  unfold extTable
  split
  · rename_i h; subst h; right; decide
  split
  · rename_i h; subst h; right; decide
  split
  · rename_i h; subst h; right; decide
  split
  · rename_i h; subst h; right; decide
  split
  · rename_i h; subst h; right; decide
  split
  · rename_i h; right; rcases h with h | h <;> subst h <;> decide
  split
  · rename_i h; subst h; right; decide
  · left; rfl

/-- nothing else is in the table: a name asks for a format only through one of the
eight extensions (compared case-insensitively). -/
theorem ext_table_only (name : Str) (f : Format) (h : detect name = f) (hf : f ≠ .unknown) :
    (lower (ext name), f) ∈ extPairs := by
  unfold detect at h
  rcases extTable_spec (lower (ext name)) with hu | hm
  · rw [hu] at h; exact absurd h.symm hf
  · rw [h] at hm; exact hm

example : detect [97, 46, 72, 84, 77] = .html := by decide

/-- a name without a dot asks for no format -/
theorem ext_table_no_extension (name : Str) (h : ∀ c ∈ name, c ≠ 46) : detect name = .unknown := by
  unfold detect
  rw [ext_nil_of_noDot name h]
  decide

example : ∀ c ∈ [100, 111, 99, 47, 114, 101, 97, 100, 109, 101], c ≠ 46 := by decide

/-- the table is a function: one extension, one format -/
theorem ext_table_functional :
    ∀ p ∈ extPairs, ∀ q ∈ extPairs, p.1 = q.1 → p.2 = q.2 := by decide

/-! ## zip_detect_marker -/

/-- what the "mimetype" member must contain to decide: ODT by substring, EPUB exactly,
after trimming white space, ODT first. -/
theorem mime_verdict_spec (m : Member) (f : Format) :
    mimeVerdict m = some f ↔
      m.name = nMimetype ∧ ∃ d, m.data = some d ∧
        ((hasSub odtMime (trimSpace (d.take 256)) = true ∧ f = .odt) ∨
         (hasSub odtMime (trimSpace (d.take 256)) = false ∧ trimSpace (d.take 256) = epubMime ∧ f = .epub)) := by
  unfold mimeVerdict
  by_cases hn : m.name = nMimetype
  · simp only [hn, if_true, true_and]
    cases hd : m.data with
    | none => simp
    | some d =>
      simp only [Option.some.injEq, exists_eq_left']
      by_cases h1 : hasSub odtMime (trimSpace (d.take 256)) = true
      · rw [if_pos h1]
        constructor
        · intro h; exact Or.inl ⟨h1, (Option.some.inj h).symm⟩
        · rintro (⟨_, rfl⟩ | ⟨h, _⟩)
          · rfl
          · rw [h1] at h; cases h
      · rw [if_neg h1]
        have h1' : hasSub odtMime (trimSpace (d.take 256)) = false := by simpa using h1
        by_cases h2 : trimSpace (d.take 256) = epubMime
        · rw [if_pos h2]
          constructor
          · intro h; exact Or.inr ⟨h1', h2, (Option.some.inj h).symm⟩
          · rintro (⟨h, _⟩ | ⟨_, _, rfl⟩)
            · exact absurd h h1
            · rfl
        · rw [if_neg h2]
          constructor
          · intro h; cases h
          · rintro (⟨h, _⟩ | ⟨_, h, _⟩)
            · exact absurd h h1
            · exact absurd h h2
  · simp [hn]

example : mimeVerdict ⟨nMimetype, some odtMime⟩ = some .odt := by decide
example : mimeVerdict ⟨nMimetype, some (epubMime ++ [13, 10])⟩ = some .epub := by decide

/-- `zip_detect_marker`: an archive carrying a format's marker is recognised as that
format, in the code's fixed priority: mimetype verdict, then the EPUB container, then
the OOXML main parts word/document.xml, xl/workbook.xml, ppt/presentation.xml —
wherever in the archive the marker is. -/
theorem zip_detect_marker (ms : List Member) :
    (∀ m ∈ ms, ∀ f, MimeAgree ms → mimeVerdict m = some f → detectZip ms = f) ∧
    ((∀ m ∈ ms, mimeVerdict m = none) →
      (hasMember nContainer ms = true → detectZip ms = .epub) ∧
      (hasMember nContainer ms = false → hasMember nWordDoc ms = true → detectZip ms = .docx) ∧
      (hasMember nContainer ms = false → hasMember nWordDoc ms = false →
        hasMember nXlWorkbook ms = true → detectZip ms = .xlsx) ∧
      (hasMember nContainer ms = false → hasMember nWordDoc ms = false →
        hasMember nXlWorkbook ms = false → hasMember nPptPres ms = true → detectZip ms = .pptx)) := by
  refine ⟨?_, ?_⟩
  · intro m hm f ha hv
    unfold detectZip
    rw [firstMime_of_mem ha hm hv]
  · intro hn
    have h0 : firstMime ms = none := firstMime_eq_none.2 hn
    unfold detectZip
    rw [h0]
    refine ⟨?_, ?_, ?_, ?_⟩
    · intro h; simp [h]
    · intro h1 h2; simp [h1, h2]
    · intro h1 h2 h3; simp [h1, h2, h3]
    · intro h1 h2 h3 h4; simp [h1, h2, h3, h4]

/-- membership form of `hasMember` -/
theorem hasMember_iff (n : Str) (ms : List Member) : hasMember n ms = true ↔ ∃ m ∈ ms, m.name = n := by
  unfold hasMember; simp

/-! ## zip_detect_perm_invariant -/

/-- `"xl/worksheets/sheet1.xml"` -/
def nSheet : Str := [120, 108, 47, 119, 111, 114, 107, 115, 104, 101, 101, 116, 115, 47, 115, 104, 101, 101, 116, 49, 46, 120, 109, 108]
/-- `"word/stray.xml"` -/
def nStray : Str := [119, 111, 114, 100, 47, 115, 116, 114, 97, 121, 46, 120, 109, 108]

/-- distinct member names (every well-formed archive) make the mimetype members agree -/
theorem mimeAgree_of_nodup (ms : List Member) (h : (ms.map (·.name)).Nodup) : MimeAgree ms := by
  induction ms with
  | nil => intro m hm; cases hm
  | cons a rest ih =>
    rw [List.map_cons, List.nodup_cons] at h
    have hname : ∀ m, mimeVerdict m ≠ none → m.name = nMimetype := by
      intro m hv
      apply Classical.byContradiction
      intro hne
      exact hv (mimeVerdict_none_of_name hne)
    intro m hm m' hm' f g hf hg
    rw [List.mem_cons] at hm hm'
    have nm : m.name = nMimetype := hname m (by rw [hf]; simp)
    have nm' : m'.name = nMimetype := hname m' (by rw [hg]; simp)
    rcases hm with rfl | hm <;> rcases hm' with rfl | hm'
    · rw [hf] at hg; exact Option.some.inj hg
    · exact absurd (List.mem_map.2 ⟨m', hm', by rw [nm', nm]⟩) h.1
    · exact absurd (List.mem_map.2 ⟨m, hm, by rw [nm, nm']⟩) h.1
    · exact ih h.2 m hm m' hm' f g hf hg

/-- `zip_detect_perm_invariant`: detection is the same for EVERY permutation of the
member list.  The only proviso is that the archive does not hold two "mimetype"
members naming different types (`MimeAgree`; implied by distinct member names). -/
theorem zip_detect_perm_invariant (ms ms' : List Member) (hp : ms.Perm ms') (ha : MimeAgree ms) :
    detectZip ms = detectZip ms' :=
  detectZip_perm hp ha

/-- an EPUB-shaped member list with a decoy in front -/
def exEpubMembers : List Member := [⟨nStray, none⟩, ⟨nMimetype, some epubMime⟩, ⟨nContainer, none⟩]

example : MimeAgree exEpubMembers := mimeAgree_of_nodup exEpubMembers (by decide)

example : List.Perm [(⟨nStray, none⟩ : Member), ⟨nXlWorkbook, none⟩] [⟨nXlWorkbook, none⟩, ⟨nStray, none⟩] :=
  List.Perm.swap _ _ _

theorem zip_detect_perm_invariant_nodup (ms ms' : List Member) (hp : ms.Perm ms')
    (hn : (ms.map (·.name)).Nodup) : detectZip ms = detectZip ms' :=
  detectZip_perm hp (mimeAgree_of_nodup ms hn)


example : (([⟨nStray, none⟩, ⟨nXlWorkbook, none⟩, ⟨nSheet, none⟩] : List Member).map (·.name)).Nodup := by decide

/-- the names a sniffer keys on; a decoy is a member with any other name -/
def isMarkerName (n : Str) : Bool :=
  n = nMimetype || n = nContainer || n = nWordDoc || n = nXlWorkbook || n = nPptPres

/-- the archive carries at least one marker (every valid document of the five ZIP
formats does) -/
def HasMarker (ms : List Member) : Prop :=
  firstMime ms ≠ none ∨ hasMember nContainer ms = true ∨ hasMember nWordDoc ms = true ∨
    hasMember nXlWorkbook ms = true ∨ hasMember nPptPres ms = true

theorem decoys_inert (ds : List Member) (hd : ∀ d ∈ ds, isMarkerName d.name = false) :
    firstMime ds = none ∧ hasMember nContainer ds = false ∧ hasMember nWordDoc ds = false ∧
      hasMember nXlWorkbook ds = false ∧ hasMember nPptPres ds = false := by
  have hne : ∀ d ∈ ds, d.name ≠ nMimetype ∧ d.name ≠ nContainer ∧ d.name ≠ nWordDoc ∧
      d.name ≠ nXlWorkbook ∧ d.name ≠ nPptPres := by
    intro d hdm
    have := hd d hdm
    unfold isMarkerName at this
    simp only [Bool.or_eq_false_iff, decide_eq_false_iff_not] at this
    obtain ⟨⟨⟨⟨h1, h2⟩, h3⟩, h4⟩, h5⟩ := this
    exact ⟨h1, h2, h3, h4, h5⟩
  refine ⟨?_, ?_, ?_, ?_, ?_⟩
  · exact firstMime_eq_none.2 (fun d hdm => mimeVerdict_none_of_name (hne d hdm).1)
  · exact hasMember_false_of_forall _ _ (fun d hdm => (hne d hdm).2.1)
  · exact hasMember_false_of_forall _ _ (fun d hdm => (hne d hdm).2.2.1)
  · exact hasMember_false_of_forall _ _ (fun d hdm => (hne d hdm).2.2.2.1)
  · exact hasMember_false_of_forall _ _ (fun d hdm => (hne d hdm).2.2.2.2)

/-- adding decoy members — anything that is not another format's marker, e.g.
`word/stray.xml`, `xl/embeddings/…`, `content.xml` — to an archive that carries a
marker does not change what it is detected as. -/
theorem zip_detect_decoy_invariant (ms ds : List Member)
    (hd : ∀ d ∈ ds, isMarkerName d.name = false) (hm : HasMarker ms) :
    detectZip (ms ++ ds) = detectZip ms := by
  obtain ⟨d0, d1, d2, d3, d4⟩ := decoys_inert ds hd
  unfold detectZip
  rw [firstMime_append, d0, hasMember_append, hasMember_append, hasMember_append, hasMember_append,
    d1, d2, d3, d4]
  simp only [Option.or_none, Bool.or_false]
  cases h0 : firstMime ms with
  | some f => rfl
  | none =>
    unfold HasMarker at hm
    simp only [h0, ne_eq, not_true_eq_false, false_or] at hm
    cases h1 : hasMember nContainer ms with
    | true => simp
    | false =>
      cases h2 : hasMember nWordDoc ms with
      | true => simp
      | false =>
        cases h3 : hasMember nXlWorkbook ms with
        | true => simp
        | false =>
          cases h4 : hasMember nPptPres ms with
          | true => simp
          | false => simp [h1, h2, h3, h4] at hm

/-- without a marker the hypothesis cannot be dropped: directory names alone are a
(documented) fallback -/
example : detectZip ([] ++ [⟨nStray, none⟩]) ≠ detectZip [] := by decide

/-- `zip_detect_perm_invariant` with decoys: ANY arrangement of the document's members
and the decoys is detected as the document alone is. -/
theorem zip_detect_perm_decoy_invariant (ms ds l : List Member) (hp : (ms ++ ds).Perm l)
    (ha : MimeAgree ms) (hd : ∀ d ∈ ds, isMarkerName d.name = false) (hm : HasMarker ms) :
    detectZip l = detectZip ms := by
  have hnone : ∀ d ∈ ds, mimeVerdict d = none :=
    fun d hdm => firstMime_eq_none.1 (decoys_inert ds hd).1 d hdm
  have ha' : MimeAgree (ms ++ ds) := by
    intro m hm1 m' hm2 f g hf hg
    rw [List.mem_append] at hm1 hm2
    rcases hm1 with h1 | h1
    · rcases hm2 with h2 | h2
      · exact ha m h1 m' h2 f g hf hg
      · rw [hnone m' h2] at hg; cases hg
    · rw [hnone m h1] at hf; cases hf
  rw [← detectZip_perm hp ha']
  exact zip_detect_decoy_invariant ms ds hd hm

example : HasMarker [⟨nXlWorkbook, none⟩, ⟨nSheet, none⟩] ∧ isMarkerName nStray = false := by
  refine ⟨?_, by decide⟩
  right; right; right; left; decide

/-- The loop the pinned tree had in place of the main-part test (first of `word/`,
`xl/`, `ppt/` in ARCHIVE ORDER wins), kept to document defect B17. -/
def pinnedOoxmlLoop : List Member → Format
  | [] => .unknown
  | m :: ms =>
    if pWord.isPrefixOf m.name then .docx
    else if pXl.isPrefixOf m.name then .xlsx
    else if pPpt.isPrefixOf m.name then .pptx
    else pinnedOoxmlLoop ms

/-- B17 witness: the pinned loop was order dependent (an XLSX with a stray `word/`
member in front was a DOCX); the model of the repaired code is not. -/
theorem pinned_ooxml_order_dependent_counterexample :
    ∃ ms ms' : List Member, ms.Perm ms' ∧ pinnedOoxmlLoop ms ≠ pinnedOoxmlLoop ms' ∧
      detectZip ms = .xlsx ∧ detectZip ms' = .xlsx :=
  ⟨[⟨nStray, none⟩, ⟨nXlWorkbook, none⟩], [⟨nXlWorkbook, none⟩, ⟨nStray, none⟩],
    List.Perm.swap _ _ _, by decide, by decide, by decide⟩

/-! ## detect_own_format: what the sniffer needs to see -/

/-- every file that starts with `%PDF` is a PDF, whatever follows -/
theorem detect_pdf_magic (rest : Str) (zip : Option (List Member)) :
    detectFromReader (sPdfMagic ++ rest) zip = some .pdf := by
  unfold detectFromReader
  simp only [take_append_short sPdfMagic rest 512 (by decide), isPrefixOf_append_self, if_true]

/-- every file that starts with a ZIP local header is what its member list says -/
theorem detect_zip_magic (rest : Str) (ms : List Member) :
    detectFromReader (sZipMagic ++ rest) (some ms) = some (detectZip ms) := by
  unfold detectFromReader
  simp only [take_append_short sZipMagic rest 512 (by decide), isPrefixOf_append_self, if_true]
  have : sPdfMagic.isPrefixOf (sZipMagic ++ List.take (512 - sZipMagic.length) rest) = false := by
    simp [sPdfMagic, sZipMagic, List.isPrefixOf]
  simp [this]

/-- every file that is white space, `<!DOCTYPE html` in any letter case, then anything,
is HTML (the doctype must lie within the 512 bytes the sniffer reads) -/
theorem detect_html_doctype (ws d rest : Str) (zip : Option (List Member))
    (hws : ∀ c ∈ ws, isMagicWS c = true) (hd : upper d = sDoctypeHtml) (hlen : ws.length + d.length ≤ 512) :
    detectFromReader (ws ++ d ++ rest) zip = some .html := by
  unfold detectFromReader
  have ht : (ws ++ d ++ rest).take 512 = ws ++ d ++ rest.take (512 - (ws ++ d).length) :=
    take_append_short (ws ++ d) rest 512 (by simpa using hlen)
  rw [ht]
  obtain ⟨h1, h2⟩ := not_pdf_zip_prefix ws d (rest.take (512 - (ws ++ d).length)) hws hd
  dsimp only
  rw [h1, h2, detectHTMLMagic_doctype ws d _ hws hd]
  rfl

example : (∀ c ∈ [13, 10, 32], isMagicWS c = true) ∧
    upper [60, 33, 100, 111, 99, 116, 121, 112, 101, 32, 104, 116, 109, 108] = sDoctypeHtml := by decide

/-- the same for every way of separating the keyword from the name: white space,
`<!DOCTYPE` in any letter case, ANY non-empty run of white space (blank, tab, LF, FF, CR),
`html` in any letter case, then anything (legacy strings, the rest of the document), is HTML
(the declaration up to the name must lie within the 512 bytes the sniffer reads) -/
theorem detect_html_doctype_any_space (lead d ws n rest : Str) (zip : Option (List Member))
    (hl : ∀ c ∈ lead, isMagicWS c = true) (hd : upper d = sDoctype)
    (hne : ws ≠ []) (hws : ∀ c ∈ ws, isMagicWS c = true) (hn : upper n = sHtmlName)
    (hlen : lead.length + d.length + ws.length + n.length ≤ 512) :
    detectFromReader (lead ++ (d ++ (ws ++ (n ++ rest)))) zip = some .html := by
  unfold detectFromReader
  have e : lead ++ (d ++ (ws ++ (n ++ rest))) = (lead ++ (d ++ (ws ++ n))) ++ rest := by simp
  have ht : (lead ++ (d ++ (ws ++ (n ++ rest)))).take 512 =
      lead ++ (d ++ (ws ++ (n ++ rest.take (512 - (lead ++ (d ++ (ws ++ n))).length)))) := by
    rw [e, take_append_short (lead ++ (d ++ (ws ++ n))) rest 512 (by simp; omega)]
    simp
  rw [ht]
  obtain ⟨h1, h2⟩ := not_pdf_zip_prefix_doctype lead d
    (ws ++ (n ++ rest.take (512 - (lead ++ (d ++ (ws ++ n))).length))) hl hd
  dsimp only
  rw [h1, h2, detectHTMLMagic_doctype_ws lead d ws n _ hl hd hne hws hn]
  rfl

/-- satisfiable: `"\f\n"`, `"<!doctype"`, `"\r\n\t"`, `"Html"` -/
example : (∀ c ∈ [12, 10], isMagicWS c = true) ∧
    upper [60, 33, 100, 111, 99, 116, 121, 112, 101] = sDoctype ∧
    ([13, 10, 9] : Str) ≠ [] ∧ (∀ c ∈ [13, 10, 9], isMagicWS c = true) ∧
    upper [72, 116, 109, 108] = sHtmlName := by decide

/-! ## admission -/

/-- `admission`: a reader is opened only for the format the NAME asks for, and only if
the content was detected as that very format or could not be classified. -/
theorem admission (extF : Format) (det : Option Format) (f : Format)
    (h : ensureReader extF det = .proceed f) :
    f = extF ∧ extF ≠ .unknown ∧ (det = some extF ∨ det = some .unknown) := by
  unfold ensureReader validateFormat at h
  cases det with
  | none => simp at h
  | some d =>
    by_cases hd : d = .unknown
    · subst hd
      by_cases he : extF = .unknown
      · simp [he] at h
      · simp [he] at h; exact ⟨h.symm, he, Or.inr rfl⟩
    · by_cases hne : d = extF
      · subst hne
        simp [hd] at h
        exact ⟨h.symm, hd, Or.inl rfl⟩
      · simp [hd, hne] at h

example : ensureReader .xlsx (some .xlsx) = .proceed .xlsx := by decide

/-- all 8 × 7 pairs: content detected as one of the seven formats under a name that asks
for anything else (another format, or none) is refused as a mismatch, before any reader
sees it. -/
theorem admission_mismatch_refused (extF d : Format) (hd : d ≠ .unknown) (hne : extF ≠ d) :
    ensureReader extF (some d) = .mismatch := by
  cases extF <;> cases d <;> first | (exact absurd rfl hd) | (exact absurd rfl hne) | rfl

/-- a document detected as its own format is admitted under its own extension -/
theorem admission_own_format (f : Format) (hf : f ≠ .unknown) :
    ensureReader f (some f) = .proceed f := by
  cases f <;> first | (exact absurd rfl hf) | rfl

/-- content the sniffers cannot classify is admitted by extension (as the code documents) -/
theorem admission_undetectable (f : Format) (hf : f ≠ .unknown) :
    ensureReader f (some .unknown) = .proceed f := by
  cases f <;> first | (exact absurd rfl hf) | rfl

/-- a name that asks for no supported format never reaches a reader -/
theorem admission_no_extension (det : Option Format) (f : Format) :
    ensureReader .unknown det ≠ .proceed f := by
  intro h
  exact (admission _ _ _ h).2.1 rfl

/-- a corrupt archive is an error under every name -/
theorem admission_detect_error (extF : Format) : ensureReader extF none = .detectFailed := rfl

/-- the same bytes under every naming: with the extension table and the content
sniffer composed, `Open(stem ++ e)` on content detected as `d` proceeds iff `e` is (a
case variant of) an extension of `d`, and is a mismatch error for every other of the
eight extensions. -/
theorem admission_by_name (p : Str × Format) (hp : p ∈ extPairs) (stem e file : Str)
    (zip : Option (List Member)) (he : lower e = p.1) (d : Format) (hd : d ≠ .unknown)
    (hdet : detectFromReader file zip = some d) :
    openFile (stem ++ e) file zip = (if p.2 = d then .proceed d else .mismatch) := by
  unfold openFile
  rw [ext_table p hp stem e he, hdet]
  by_cases h : p.2 = d
  · rw [if_pos h, h]; exact admission_own_format d hd
  · rw [if_neg h]; exact admission_mismatch_refused p.2 d hd h

example : detectFromReader sPdfMagic none = some .pdf := by decide

/-! ## drm_decision -/

/-- `drm_decision`: the EPUB is refused iff a rights file is present, or the encryption
metadata cannot be parsed, or some entry covers a content document with an algorithm
that is not font obfuscation. -/
theorem drm_decision (ms : List DMember) :
    checkForDRM ms = true ↔
      DMember.rights ∈ ms ∨ DMember.encryption none ∈ ms ∨
      ∃ es, DMember.encryption (some es) ∈ ms ∧
        ∃ e ∈ es, isFontObfuscation e.algorithm = false ∧ isContentFile e.uri = true := by
  rw [checkForDRM_eq_any, List.any_eq_true]
  constructor
  · rintro ⟨m, hm, hb⟩
    cases m with
    | rights => exact Or.inl hm
    | other => simp [memberBad] at hb
    | encryption p =>
      cases p with
      | none => exact Or.inr (Or.inl hm)
      | some es =>
        simp only [memberBad] at hb
        rw [hasEncryptedContent_eq_any, List.any_eq_true] at hb
        obtain ⟨e, he, hbad⟩ := hb
        unfold entryBad at hbad
        simp only [Bool.and_eq_true, Bool.not_eq_eq_eq_not, Bool.not_true] at hbad
        exact Or.inr (Or.inr ⟨es, hm, e, he, hbad.1, hbad.2⟩)
  · rintro (hm | hm | ⟨es, hm, e, he, h1, h2⟩)
    · exact ⟨_, hm, rfl⟩
    · exact ⟨_, hm, rfl⟩
    · refine ⟨_, hm, ?_⟩
      simp only [memberBad]
      rw [hasEncryptedContent_eq_any, List.any_eq_true]
      exact ⟨e, he, by simp [entryBad, h1, h2]⟩

/-- font-obfuscation-only EPUBs open: no rights file, parsable metadata, every entry
(whatever it covers) uses a font obfuscation algorithm ⇒ not refused. -/
theorem drm_obfuscation_only_opens (ms : List DMember)
    (hr : DMember.rights ∉ ms) (hp : DMember.encryption none ∉ ms)
    (ho : ∀ es, DMember.encryption (some es) ∈ ms → ∀ e ∈ es, isFontObfuscation e.algorithm = true) :
    checkForDRM ms = false := by
  cases h : checkForDRM ms with
  | false => rfl
  | true =>
    rcases (drm_decision ms).1 h with h1 | h1 | ⟨es, hm, e, he, h1, _⟩
    · exact absurd h1 hr
    · exact absurd h1 hp
    · rw [ho es hm e he] at h1; cases h1

/-- the two font obfuscation schemes are recognised; ciphers are not -/
theorem drm_obfuscation_schemes :
    isFontObfuscation algoIdpf = true ∧ isFontObfuscation algoAdobe = true := by decide

/-- `"http://www.w3.org/2001/04/xmlenc#aes256-cbc"` -/
def aes256 : Str := [104, 116, 116, 112, 58, 47, 47, 119, 119, 119, 46, 119, 51, 46, 111, 114, 103, 47, 50, 48, 48, 49, 47, 48, 52, 47, 120, 109, 108, 101, 110, 99, 35, 97, 101, 115, 50, 53, 54, 45, 99, 98, 99]
/-- `"http://www.w3.org/2009/xmlenc11#aes128-gcm"` -/
def aes128gcm : Str := [104, 116, 116, 112, 58, 47, 47, 119, 119, 119, 46, 119, 51, 46, 111, 114, 103, 47, 50, 48, 48, 57, 47, 120, 109, 108, 101, 110, 99, 49, 49, 35, 97, 101, 115, 49, 50, 56, 45, 103, 99, 109]
/-- `"OEBPS/ch1.xhtml"` -/
def uCh1 : Str := [79, 69, 66, 80, 83, 47, 99, 104, 49, 46, 120, 104, 116, 109, 108]
/-- `"OEBPS/CH1.XHTML"` -/
def uCh1Upper : Str := [79, 69, 66, 80, 83, 47, 67, 72, 49, 46, 88, 72, 84, 77, 76]
/-- `"OEBPS/fonts/f.otf"` -/
def uFont : Str := [79, 69, 66, 80, 83, 47, 102, 111, 110, 116, 115, 47, 102, 46, 111, 116, 102]

theorem drm_ciphers_not_obfuscation :
    isFontObfuscation aes256 = false ∧ isFontObfuscation aes128gcm = false ∧ isFontObfuscation [] = false := by
  decide

example : DMember.rights ∉ [DMember.other, .encryption (some [⟨algoIdpf, uCh1⟩])] := by
  intro h; simp at h

example : checkForDRM [.other, .encryption (some [⟨algoIdpf, uFont⟩, ⟨algoAdobe, uCh1⟩])] = false := by decide
example : checkForDRM [.encryption (some [⟨algoIdpf, uFont⟩, ⟨aes256, uCh1Upper⟩])] = true := by decide
example : checkForDRM [.encryption (some [⟨aes256, uFont⟩])] = false := by decide

/-- the decision does not depend on where in the archive the rights / encryption
members are -/
theorem drm_member_order_independent (ms ms' : List DMember) (hp : ms.Perm ms') :
    checkForDRM ms = checkForDRM ms' := by
  rw [checkForDRM_eq_any, checkForDRM_eq_any]
  exact any_perm hp

/-- … nor on the order of the entries inside encryption.xml -/
theorem drm_entry_order_independent (es es' : List Entry) (hp : es.Perm es') (a b : List DMember) :
    checkForDRM (a ++ .encryption (some es) :: b) = checkForDRM (a ++ .encryption (some es') :: b) := by
  have : hasEncryptedContent es = hasEncryptedContent es' := by
    rw [hasEncryptedContent_eq_any, hasEncryptedContent_eq_any]; exact any_perm hp
  simp only [checkForDRM_eq_any, List.any_append, List.any_cons, memberBad, this]

/-- the same entries, entry by entry, up to the letter case of the URIs -/
inductive SameUpToCase : List Entry → List Entry → Prop
  | nil : SameUpToCase [] []
  | cons {e e' : Entry} {es es' : List Entry} : e.algorithm = e'.algorithm → lower e.uri = lower e'.uri →
      SameUpToCase es es' → SameUpToCase (e :: es) (e' :: es')

/-- … nor on the letter case of the URIs -/
theorem drm_uri_case_independent (es es' : List Entry) (h : SameUpToCase es es')
    (a b : List DMember) :
    checkForDRM (a ++ .encryption (some es) :: b) = checkForDRM (a ++ .encryption (some es') :: b) := by
  have : hasEncryptedContent es = hasEncryptedContent es' := by
    rw [hasEncryptedContent_eq_any, hasEncryptedContent_eq_any]
    induction h with
    | nil => rfl
    | cons ha hu _ ih =>
      rw [List.any_cons, List.any_cons, ih]
      unfold entryBad
      rw [ha, isContentFile_case hu]
  simp only [checkForDRM_eq_any, List.any_append, List.any_cons, memberBad, this]

example : SameUpToCase [⟨aes256, uCh1⟩] [⟨aes256, uCh1Upper⟩] :=
  .cons rfl (by decide) .nil

end Tabula.C20
