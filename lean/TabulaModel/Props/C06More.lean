import TabulaModel.Props.C06
import TabulaModel.Props.C06Agree
import TabulaModel.Lemmas.PdfCoreProgress

/-!
# C06, further theorems: dictionaries with repeated keys, unambiguous spellings, first object

`Props/C06.lean` proves the round trip for spelled dictionaries whose keys are pairwise distinct
(`SObj.Valid` of a dictionary carries `(keysOf kvs).Nodup`): only those are object TREES.  A PDF file
may still write a key twice.  Part 1 gives the law of `dictSet` (Go: `dict[key] = value`), part 2
proves what the document-level parser returns for EVERY legally spelled dictionary, repeated keys
included: the written pairs assigned in order - the LAST value written for a key wins and the key
keeps the place of its FIRST occurrence - and (part 3) that the content-stream parser, whenever it
accepts the same bytes, returns that same dictionary.  Part 4: no byte string is a legal spelling of
two different trees / programs.  Part 5: the first object of a run of `ParseObject` calls is the
object of the first call.
-/

namespace Tabula.C06More
open Tabula.Pdf

/-! ### 1. `dict[key] = value` -/

/-- the written pairs assigned one after the other to a Go map that remembers insertion order -/
def assignAll (acc : List (Str × Obj)) (ps : List (Str × Obj)) : List (Str × Obj) :=
  ps.foldl (fun a p => dictSet a p.1 p.2) acc

/-- `dict[key]` -/
def lookupKV (k : Str) : List (Str × Obj) → Option Obj
  | [] => none
  | (k', v) :: r => if k' = k then some v else lookupKV k r

/-- after `dict[k] = v`, `dict[k]` is `v` -/
theorem dictSet_lookup_same (acc : List (Str × Obj)) (k : Str) (v : Obj) :
    lookupKV k (dictSet acc k v) = some v := by
  induction acc with
  | nil => simp [dictSet, lookupKV]
  | cons p r ih =>
    obtain ⟨k', v'⟩ := p
    by_cases h : k' = k
    · simp [dictSet, lookupKV, h]
    · simp [dictSet, lookupKV, h, ih]

/-- `dict[k] = v` changes no other key -/
theorem dictSet_lookup_other (acc : List (Str × Obj)) (k k2 : Str) (v : Obj) (hne : k2 ≠ k) :
    lookupKV k2 (dictSet acc k v) = lookupKV k2 acc := by
  induction acc with
  | nil =>
    have : ¬ k = k2 := fun e => hne e.symm
    simp [dictSet, lookupKV, this]
  | cons p r ih =>
    obtain ⟨k', v'⟩ := p
    by_cases h : k' = k
    · subst h
      have : ¬ k' = k2 := fun e => hne e.symm
      simp [dictSet, lookupKV, this]
    · by_cases h2 : k' = k2
      · subst h2; simp [dictSet, lookupKV, h]
      · simp [dictSet, lookupKV, h, h2, ih]

example : lookupKV [66] (dictSet [([65], .null), ([66], .bool true)] [65] (.int 3)) = some (.bool true) := by
  simp [dictSet, lookupKV]

/-- the keys after `dict[k] = v`, exactly: unchanged when `k` is present (it keeps its place), `k`
appended otherwise -/
theorem dictSet_keys_exact (acc : List (Str × Obj)) (k : Str) (v : Obj) :
    (dictSet acc k v).map Prod.fst =
      if k ∈ acc.map Prod.fst then acc.map Prod.fst else acc.map Prod.fst ++ [k] := by
  induction acc with
  | nil => simp [dictSet]
  | cons p r ih =>
    obtain ⟨k', v'⟩ := p
    by_cases h : k' = k
    · subst h; simp [dictSet]
    · have h' : ¬ k = k' := fun e => h e.symm
      simp only [dictSet, h, if_false, List.map_cons, ih, List.mem_cons, h', false_or]
      by_cases hm : k ∈ r.map Prod.fst
      · simp [hm]
      · simp [hm]

/-- assigning twice to the same key: only the second assignment counts -/
theorem dictSet_overwrite (acc : List (Str × Obj)) (k : Str) (v w : Obj) :
    dictSet (dictSet acc k v) k w = dictSet acc k w := by
  induction acc with
  | nil => simp [dictSet]
  | cons p r ih =>
    obtain ⟨k', v'⟩ := p
    by_cases h : k' = k
    · simp [dictSet, h]
    · simp [dictSet, h, ih]

/-- distinct keys stay distinct -/
theorem dictSet_nodup (acc : List (Str × Obj)) (k : Str) (v : Obj) (h : (acc.map Prod.fst).Nodup) :
    ((dictSet acc k v).map Prod.fst).Nodup := by
  rw [dictSet_keys_exact]
  by_cases hm : k ∈ acc.map Prod.fst
  · simpa [hm] using h
  · simp only [hm, if_false]
    rw [List.nodup_append]
    refine ⟨h, by simp, ?_⟩
    intro a ha b hb e
    simp only [List.mem_singleton] at hb
    subst hb; subst e
    exact hm ha

theorem lookupKV_append (k : Str) (a b : List (Str × Obj)) :
    lookupKV k (a ++ b) = match lookupKV k a with | some v => some v | none => lookupKV k b := by
  induction a with
  | nil => simp [lookupKV]
  | cons p r ih =>
    obtain ⟨k', v'⟩ := p
    by_cases h : k' = k
    · simp [lookupKV, h]
    · simp [lookupKV, h, ih]

/-- the LAST value written for a key wins: looking a key up after all assignments gives the first
hit when the written pairs are read backwards (and what was there before if the key was not written) -/
theorem assignAll_lookup (ps acc : List (Str × Obj)) (k : Str) :
    lookupKV k (assignAll acc ps) =
      match lookupKV k ps.reverse with | some v => some v | none => lookupKV k acc := by
  induction ps generalizing acc with
  | nil => simp [assignAll, lookupKV]
  | cons p ps ih =>
    obtain ⟨k', v'⟩ := p
    have hstep : assignAll acc ((k', v') :: ps) = assignAll (dictSet acc k' v') ps := rfl
    rw [hstep, ih, List.reverse_cons, lookupKV_append]
    cases hl : lookupKV k ps.reverse with
    | some v => rfl
    | none =>
      by_cases h : k' = k
      · subst h; simp [lookupKV, dictSet_lookup_same]
      · have h' : k ≠ k' := fun e => h e.symm
        simp [lookupKV, h, dictSet_lookup_other acc k' k v' h']

/-- the last value wins, for a parsed dictionary (nothing assigned before) -/
theorem last_value_wins (ps : List (Str × Obj)) (k : Str) :
    lookupKV k (assignAll [] ps) = lookupKV k ps.reverse := by
  rw [assignAll_lookup]
  cases lookupKV k ps.reverse <;> rfl

/-- the result of the assignments never holds a key twice -/
theorem assignAll_nodup (ps acc : List (Str × Obj)) (h : (acc.map Prod.fst).Nodup) :
    ((assignAll acc ps).map Prod.fst).Nodup := by
  induction ps generalizing acc with
  | nil => exact h
  | cons p ps ih => exact ih (dictSet acc p.1 p.2) (dictSet_nodup acc p.1 p.2 h)

/-- exactly the written keys are present -/
theorem assignAll_keys (ps acc : List (Str × Obj)) (k : Str) :
    k ∈ (assignAll acc ps).map Prod.fst ↔ k ∈ acc.map Prod.fst ∨ k ∈ ps.map Prod.fst := by
  induction ps generalizing acc with
  | nil => simp [assignAll]
  | cons p ps ih =>
    have hstep : assignAll acc (p :: ps) = assignAll (dictSet acc p.1 p.2) ps := rfl
    rw [hstep, ih, dictSet_keys_exact]
    by_cases hm : p.1 ∈ acc.map Prod.fst
    · simp only [hm, if_true, List.map_cons, List.mem_cons]
      constructor
      · rintro (h | h)
        · exact .inl h
        · exact .inr (.inr h)
      · rintro (h | h | h)
        · exact .inl h
        · exact .inl (h ▸ hm)
        · exact .inr h
    · simp only [hm, if_false, List.map_cons, List.mem_cons, List.mem_append, List.not_mem_nil, or_false]
      constructor
      · rintro ((h | h) | h)
        · exact .inl h
        · exact .inr (.inl h)
        · exact .inr (.inr h)
      · rintro (h | h | h)
        · exact .inl (.inl h)
        · exact .inl (.inr h)
        · exact .inr h

/-- when no key is written twice the assignments reproduce the written pairs: the round trip of
`Props/C06.lean` is the special case `Nodup` of part 2 -/
theorem assignAll_distinct (ps acc : List (Str × Obj)) (hnd : (ps.map Prod.fst).Nodup)
    (hfr : ∀ k ∈ ps.map Prod.fst, k ∉ acc.map Prod.fst) : assignAll acc ps = acc ++ ps := by
  induction ps generalizing acc with
  | nil => simp [assignAll]
  | cons p ps ih =>
    have hstep : assignAll acc (p :: ps) = assignAll (dictSet acc p.1 p.2) ps := rfl
    simp only [List.map_cons, List.nodup_cons] at hnd
    rw [hstep, Prs.dictSet_fresh acc p.1 p.2 (hfr p.1 (by simp)), ih _ hnd.2]
    · simp
    · intro k hk
      simp only [List.map_append, List.map_cons, List.map_nil, List.mem_append, List.mem_singleton, not_or]
      refine ⟨hfr k (by simp [hk]), ?_⟩
      intro e; subst e; exact hnd.1 hk

example : (([([65], Obj.null), ([66], Obj.null)] : List (Str × Obj)).map Prod.fst).Nodup ∧
    ∀ k ∈ ([([65], Obj.null), ([66], Obj.null)] : List (Str × Obj)).map Prod.fst,
      k ∉ ([([67], Obj.null)] : List (Str × Obj)).map Prod.fst := by
  simp

/-! ### 2. the document-level parser on dictionaries with repeated keys -/

/-- the loop of `parseDict` on legally spelled key/value pairs, keys repeated or not -/
theorem dict_loop_any_keys (kvs : List SObj) (close : Sep) (rest : Str) (f d : Nat) (acc : List (Str × Obj))
    (hv : ValidKVs kvs) (hc : SepOk close)
    (hf : sizeList kvs + 1 ≤ f) (hd : d + sdepthList kvs ≤ maxNestingDepth) :
    parseDict f d (stateAt (renderList kvs ++ (renderSep close ++ 62 :: 62 :: rest))) acc =
      .ok (.dict (assignAll acc (valueKVs kvs)), stateAt rest) := by
  obtain ⟨f, rfl⟩ : ∃ f', f = f' + 1 := ⟨f - 1, by omega⟩
  have hE := Prs.starts_dictEnd close rest hc
  match kvs with
  | [] =>
    simp only [renderList, List.nil_append, valueKVs, assignAll, List.foldl_nil]
    rw [Prs.pd_end f d _ acc hE.cur, hE.next]
  | [_] => simp [ValidKVs] at hv
  | k :: v :: kvs' =>
    simp only [ValidKVs] at hv
    obtain ⟨hkn, hkv, hvv, hv'⟩ := hv
    simp only [sizeList] at hf
    simp only [sdepthList] at hd
    match k, hkn, hkv with
    | .name pre ps, _, hkv =>
      simp only [SObj.Valid] at hkv
      simp only [renderList, SObj.render, List.append_assoc, List.cons_append, valueKVs, SObj.keyBytes]
      have hT : Terminated (renderSep close ++ 62 :: 62 :: rest) :=
        Prs.term_sep close hc _ (Prs.term_cons 62 _ (by decide))
      have hT1 : FirstNotR (renderSep close ++ 62 :: 62 :: rest) := Prs.firstNotR_of_starts hE (by simp)
      have hT2 : NoRefAhead (renderSep close ++ 62 :: 62 :: rest) :=
        Prs.noRefAhead_of_starts hE (by intro v h; cases h)
      obtain ⟨hA, _, hC⟩ := Prs.kvs_head kvs' hv' _ hT hT1 hT2
      have hY : Terminated (v.render ++ (renderList kvs' ++ (renderSep close ++ 62 :: 62 :: rest))) :=
        Prs.term_obj v true hvv _ (Or.inl rfl)
      have hs := Prs.starts_name pre ps _ hkv.1 hkv.2 hY
      have hx := Prs.obj_rt v true _ f d hvv (by omega) (by omega) (fun _ => hA) hC
      rw [← hs.next] at hx
      rw [Prs.pd_item f d _ acc _ _ _ hs.cur hx,
        dict_loop_any_keys kvs' close rest f d _ hv' hc (by omega) (by omega)]
      rfl

/-- `ParseObject` on a dictionary in ANY legal spelling, keys repeated or not, with `d` containers
already open: the value is the dictionary obtained by assigning the written pairs in order (last
value wins, first place kept), and the parser stands exactly behind `>>`. -/
theorem dict_any_keys_in_context (pre : Sep) (kvs : List SObj) (close : Sep) (rest : Str) (f d : Nat)
    (hp : SepOk pre) (hc : SepOk close) (hv : ValidKVs kvs)
    (hf : (SObj.dict pre kvs close).size ≤ f) (hd : d + (SObj.dict pre kvs close).depth ≤ maxNestingDepth) :
    parseObject f d (stateAt ((SObj.dict pre kvs close).render ++ rest)) =
      .ok (.dict (assignAll [] (valueKVs kvs)), stateAt rest) := by
  simp only [SObj.size] at hf
  simp only [SObj.depth] at hd
  obtain ⟨f, rfl⟩ : ∃ f', f = f' + 1 := ⟨f - 1, by omega⟩
  simp only [SObj.render, List.append_assoc, List.cons_append, List.nil_append]
  have hs := Prs.starts_dictStart pre (renderList kvs ++ (renderSep close ++ 62 :: 62 :: rest)) hp
  rw [Prs.po_dict f d _ hs.cur (by omega), hs.next,
    dict_loop_any_keys kvs close rest f (d + 1) [] hv hc (by omega) (by omega)]

/-- … for `core.NewParser(r).ParseObject()` on the dictionary followed by any separators -/
theorem core_dict_any_keys (pre : Sep) (kvs : List SObj) (close trail : Sep)
    (hp : SepOk pre) (hc : SepOk close) (hv : ValidKVs kvs) (ht : SepOk trail)
    (hd : (SObj.dict pre kvs close).depth ≤ maxNestingDepth) :
    coreParse ((SObj.dict pre kvs close).render ++ renderSep trail) =
      .ok (.dict (assignAll [] (valueKVs kvs)), stateAt (renderSep trail)) := by
  have _ := ht
  show parseObject (fuelFor ((SObj.dict pre kvs close).render ++ renderSep trail)) 0
    (stateAt ((SObj.dict pre kvs close).render ++ renderSep trail)) = _
  exact dict_any_keys_in_context pre kvs close (renderSep trail) _ 0 hp hc hv
    (fuelFor_enough (SObj.dict pre kvs close) trail) (by omega)

/-- `<</K 1/K 2>>`: the hypotheses hold for a dictionary that writes the key K twice, and the value
is `<</K 2>>` -/
example : ValidKVs [.name [] [.raw 75], .int [.ws 32] false 0 1, .name [] [.raw 75], .int [.ws 32] false 0 2] ∧
    (SObj.dict [] [.name [] [.raw 75], .int [.ws 32] false 0 1, .name [] [.raw 75], .int [.ws 32] false 0 2]
      []).depth ≤ maxNestingDepth ∧
    assignAll [] (valueKVs [.name [] [.raw 75], .int [.ws 32] false 0 1, .name [] [.raw 75],
      .int [.ws 32] false 0 2]) = [([75], .int 2)] := by
  refine ⟨?_, by decide, ?_⟩
  · simp [ValidKVs, SObj.Valid, SObj.isName, SepOk, SepUnit.Ok, NPiece.Ok, isWs, isDelim]
  · simp [assignAll, valueKVs, SObj.keyBytes, SObj.value, NPiece.byte, dictSet]

/-- the parsed dictionary never holds a key twice, holds exactly the written keys, and gives each
key the last value written for it -/
theorem core_dict_last_value_wins (pre : Sep) (kvs : List SObj) (close trail : Sep)
    (hp : SepOk pre) (hc : SepOk close) (hv : ValidKVs kvs) (ht : SepOk trail)
    (hd : (SObj.dict pre kvs close).depth ≤ maxNestingDepth) :
    ∃ kv, coreParse ((SObj.dict pre kvs close).render ++ renderSep trail) =
        .ok (.dict kv, stateAt (renderSep trail)) ∧
      (kv.map Prod.fst).Nodup ∧
      (∀ k, k ∈ kv.map Prod.fst ↔ k ∈ (valueKVs kvs).map Prod.fst) ∧
      ∀ k, lookupKV k kv = lookupKV k (valueKVs kvs).reverse :=
  ⟨_, core_dict_any_keys pre kvs close trail hp hc hv ht hd, assignAll_nodup _ [] (by simp),
    fun k => by simpa using assignAll_keys (valueKVs kvs) [] k, last_value_wins _⟩

/-! ### 3. the content-stream parser on the same bytes -/

/-- whenever `parseOperand` accepts a legally spelled dictionary with repeated keys, it returns the
same dictionary (last value wins, first place kept) and stops at the same byte -/
theorem cs_dict_any_keys_agrees (pre : Sep) (kvs : List SObj) (close trail : Sep) (f2 : Nat) (b : Obj) (r : Str)
    (hp : SepOk pre) (hc : SepOk close) (hv : ValidKVs kvs) (ht : SepOk trail)
    (hd : (SObj.dict pre kvs close).depth ≤ maxNestingDepth)
    (h2 : CS.parseOperand f2 0 ((SObj.dict pre kvs close).render ++ renderSep trail) = some (b, r)) :
    b = .dict (assignAll [] (valueKVs kvs)) ∧ stateAt (renderSep trail) = stateAt r := by
  have h1 := core_dict_any_keys pre kvs close trail hp hc hv ht hd
  rcases C06Agree.parsers_agree_everywhere _ _ _ f2 b r h1 h2 with ⟨hab, hs⟩ | ⟨n, g, hab, _⟩
  · exact ⟨hab.symm, hs⟩
  · cases hab

example : (CS.parseOperand 50 0 [60, 60, 47, 75, 32, 49, 47, 75, 32, 50, 62, 62]).isSome = true := by
  decide +kernel

/-- the loop of contentstream's `parseDict` on legally spelled key/value pairs without references,
keys repeated or not -/
theorem cs_dict_loop_any_keys (kvs : List SObj) (close : Sep) (rest : Str) (f d : Nat) (acc : List (Str × Obj))
    (hv : ValidKVs kvs) (hnr : noRefList kvs = true) (hc : SepOk close)
    (hf : sizeList kvs + 1 ≤ f) (hd : d + sdepthList kvs ≤ maxNestingDepth) :
    CS.parseDict f d (renderList kvs ++ (renderSep close ++ 62 :: 62 :: rest)) acc =
      some (.dict (assignAll acc (valueKVs kvs)), rest) := by
  obtain ⟨f, rfl⟩ : ∃ f', f = f' + 1 := ⟨f - 1, by omega⟩
  match kvs with
  | [] =>
    simp only [renderList, List.nil_append, valueKVs, assignAll, List.foldl_nil]
    exact CSL.pd_close f d close hc rest acc
  | [_] => simp [ValidKVs] at hv
  | k :: v :: kvs' =>
    simp only [ValidKVs] at hv
    obtain ⟨hkn, hkv, hvv, hv'⟩ := hv
    simp only [noRefList, Bool.and_eq_true] at hnr
    obtain ⟨_, hnrv, hnr'⟩ := hnr
    simp only [sizeList] at hf
    simp only [sdepthList] at hd
    match k, hkn, hkv with
    | .name pre ps, _, hkv =>
      simp only [SObj.Valid] at hkv
      simp only [renderList, SObj.render, List.append_assoc, List.cons_append, valueKVs, SObj.keyBytes]
      have hT : Terminated (renderSep close ++ 62 :: 62 :: rest) :=
        CSL.terminated_sep' close hc _ (CSL.terminated_cons 62 _ (by decide))
      have hT' : Terminated (renderList kvs' ++ (renderSep close ++ 62 :: 62 :: rest)) := by
        match kvs', hv', hnr' with
        | [], _, _ => exact hT
        | [_], hv', _ => simp [ValidKVs] at hv'
        | k2 :: v2 :: r2, hv', hnr' =>
          simp only [ValidKVs] at hv'
          simp only [noRefList, Bool.and_eq_true] at hnr'
          simp only [renderList, List.append_assoc]
          refine CSL.terminated_render k2 false hv'.2.1 hnr'.1 _ (Or.inr ?_)
          cases k2 <;> simp [SObj.isName] at hv' <;> rfl
      have hY : Terminated (v.render ++ (renderList kvs' ++ (renderSep close ++ 62 :: 62 :: rest))) :=
        CSL.terminated_render v true hvv hnrv _ (Or.inl rfl)
      have hx := CSL.op_rt v true _ f d hvv hnrv (by omega) (by omega) (fun _ => hT')
      rw [CSL.pd_item f d pre hkv.1 ps hkv.2 _ hY acc _ _ hx,
        cs_dict_loop_any_keys kvs' close rest f d _ hv' hnr' hc (by omega) (by omega)]
      rfl

/-- contentstream's `parseOperand` on a dictionary operand in ANY legal spelling (no references: the
content-stream syntax has none), keys repeated or not: accepted, the same dictionary as the
document-level parser's - last value wins, first place kept - and the parser stands behind `>>` -/
theorem cs_dict_any_keys (pre : Sep) (kvs : List SObj) (close : Sep) (rest : Str) (f d : Nat)
    (hp : SepOk pre) (hc : SepOk close) (hv : ValidKVs kvs) (hnr : noRefList kvs = true)
    (hf : (SObj.dict pre kvs close).size ≤ f) (hd : d + (SObj.dict pre kvs close).depth ≤ maxNestingDepth) :
    CS.parseOperand f d ((SObj.dict pre kvs close).render ++ rest) =
      some (.dict (assignAll [] (valueKVs kvs)), rest) := by
  simp only [SObj.size] at hf
  simp only [SObj.depth] at hd
  obtain ⟨f, rfl⟩ : ∃ f', f = f' + 1 := ⟨f - 1, by omega⟩
  simp only [SObj.render, List.append_assoc, List.cons_append, List.nil_append]
  have hs := CSL.skip_render pre hp 60 (60 :: (renderList kvs ++ (renderSep close ++ 62 :: 62 :: rest)))
    (by decide) (by decide)
  rw [CSL.po_dict f d _ _ hs (by omega),
    cs_dict_loop_any_keys kvs close rest f (d + 1) [] hv hnr hc (by omega) (by omega)]

example : noRefList [.name [] [.raw 75], .int [.ws 32] false 0 1, .name [] [.raw 75], .int [.ws 32] false 0 2] = true := by
  decide

/-! ### 4. no byte string is the legal spelling of two different trees -/

/-- two legal spellings (each followed by any separators) that are the same bytes spell the same
object tree -/
theorem spelling_unambiguous (so1 so2 : SObj) (t1 t2 : Sep)
    (hv1 : so1.Valid false) (hv2 : so2.Valid false) (ht1 : SepOk t1) (ht2 : SepOk t2)
    (hd1 : so1.value.depth ≤ maxNestingDepth) (hd2 : so2.value.depth ≤ maxNestingDepth)
    (hb : so1.render ++ renderSep t1 = so2.render ++ renderSep t2) : so1.value = so2.value := by
  have h1 := C06.core_roundtrip so1 t1 hv1 ht1 hd1
  have h2 := C06.core_roundtrip so2 t2 hv2 ht2 hd2
  rw [hb, h2] at h1
  injection h1 with h1
  injection h1 with h1 _
  exact h1.symm

/-- the hypotheses hold for two DIFFERENT spellings that are the same bytes `% CR LF null`: a comment
ended by CR LF, and a comment ended by CR followed by the white-space byte LF -/
example : (SObj.null [.comment [] [13, 10]]).Valid false ∧ (SObj.null [.comment [] [13], .ws 10]).Valid false ∧
    (SObj.null [.comment [] [13, 10]]).render ++ renderSep [] =
      (SObj.null [.comment [] [13], .ws 10]).render ++ renderSep [] := by
  refine ⟨?_, ?_, by decide⟩
  · simp [SObj.Valid, SepOk, SepUnit.Ok]
  · simp [SObj.Valid, SepOk, SepUnit.Ok, isWs]

/-- the same for content streams: two legally spelled programs that are the same bytes are the
same list of operations (same operators, same operands, same grouping) -/
theorem program_spelling_unambiguous (ops1 ops2 : List SOp) (t1 t2 : Sep)
    (hv1 : ValidOps false ops1) (hv2 : ValidOps false ops2) (ht1 : SepOk t1) (ht2 : SepOk t2)
    (hd1 : ∀ o ∈ ops1, Obj.depthList (valueList o.operands) ≤ maxNestingDepth)
    (hd2 : ∀ o ∈ ops2, Obj.depthList (valueList o.operands) ≤ maxNestingDepth)
    (hb : renderOps ops1 ++ renderSep t1 = renderOps ops2 ++ renderSep t2) :
    (ops1.map fun o => (o.op, valueList o.operands)) = ops2.map fun o => (o.op, valueList o.operands) := by
  have h1 := C06.cs_roundtrip ops1 t1 hv1 ht1 hd1
  have h2 := C06.cs_roundtrip ops2 t2 hv2 ht2 hd2
  rw [hb, h2] at h1
  injection h1 with h1
  have := congrArg (List.map fun (o : CS.Operation) => (o.op, o.operands)) h1
  simpa [List.map_map, Function.comp_def] using this.symm

/-! ### 5. the first object of a run -/

theorem parseSeq_acc (F : Nat) : ∀ (n : Nat) (s : PState) (acc : List Obj),
    Prog.parseSeq F n s acc = (acc ++ (Prog.parseSeq F n s []).1, (Prog.parseSeq F n s []).2) := by
  intro n
  induction n with
  | zero => intro s acc; simp [Prog.parseSeq]
  | succ n ih =>
    intro s acc
    rw [Prog.parseSeq, Prog.parseSeq]
    cases hp : parseObject F 0 s with
    | error e => simp
    | ok p =>
      obtain ⟨o, s'⟩ := p
      simp only []
      rw [ih s' (acc ++ [o]), ih s' ([] ++ [o])]
      simp

/-- `ParseObject` called until it fails: when the first call fails, nothing is returned and the run
ends with that failure … -/
theorem first_call_fails (inp : Str) (e : PErr) (h : coreParse inp = .error e) :
    coreParseAll inp = ([], e) := by
  unfold coreParse at h
  unfold coreParseAll
  rw [Prog.coreParseAll_go_eq, Prog.parseSeq]
  simp only [h]

/-- … and when it returns an object, that object is the first of the run -/
theorem first_object (inp : Str) (o : Obj) (s : PState) (h : coreParse inp = .ok (o, s)) :
    ∃ more, (coreParseAll inp).1 = o :: more := by
  unfold coreParse at h
  unfold coreParseAll
  rw [Prog.coreParseAll_go_eq, Prog.parseSeq]
  simp only [h]
  rw [parseSeq_acc]
  refine ⟨(Prog.parseSeq (fuelFor inp) (inp.length + 1) s []).1, ?_⟩
  cases (Prog.parseSeq (fuelFor inp) (inp.length + 1) s []).2 <;> simp

/-- a run returns no object exactly when the first call fails -/
theorem no_object_iff (inp : Str) : (coreParseAll inp).1 = [] ↔ ∃ e, coreParse inp = .error e := by
  constructor
  · intro h
    cases hc : coreParse inp with
    | error e => exact ⟨e, rfl⟩
    | ok p =>
      obtain ⟨o, s⟩ := p
      obtain ⟨more, hm⟩ := first_object inp o s hc
      rw [hm] at h
      cases h
  · rintro ⟨e, he⟩
    rw [first_call_fails inp e he]

example : (coreParse [49, 32, 50]).toOption.isSome = true ∧ (coreParse [41]).toOption.isSome = false := by
  decide +kernel

end Tabula.C06More
