import TabulaModel.Lemmas.HFExact
import TabulaModel.Props.C11
/-!
# C11 — exact characterisations

What `Props/C11.lean` states as implications ("removed only if …") is stated here as
equivalences, and the string/number helpers that decide what "repeats" and what "is a page
number" mean are characterised for ALL inputs instead of being compared on samples:

* `normalizeForComparison` (regexp `\d+` → "#"), the digit runs `parsePageNumber` reads, the
  64-bit wrap-around of that parse, `sort.Ints`, `isPageNumberPattern`, `containsPageNumberPattern`;
* the filter side: exactly which fragments `FilterFragments` removes (on a character-level page:
  the glyphs of the assembled lines that match a region, no longer every glyph of the band), and
  that nothing else changes (multiplicity and order of the kept fragments);
* the detection side: exactly which normalised texts become regions and exactly which pages a
  region lists;
* line assembly on character-level pages: the assembled lines partition the page's fragments
  and carry exactly their non-blank bytes.
-/
namespace Tabula.C11Exact
open Tabula.HF Tabula.C11

/-! ## normalizeForComparison -/

/-- **normalize_run.** The complete recursive description of `normalizeForComparison`: a string
that starts with digit-free bytes `pre`, continues with a non-empty maximal digit run `ds` and
then with `rest` (empty or starting with a non-digit) normalises to `pre`, ONE "#", and the
normal form of `rest`. Together with `normalize_of_noDigits` this determines the function. -/
theorem normalize_run (pre ds rest : Str) (hpre : NoDigits pre) (hds : AllDigits ds) (hne : ds ≠ [])
    (hrest : NoDigitHead rest) : normalize (pre ++ ds ++ rest) = pre ++ 35 :: normalize rest := by
  have hrun : normAux false (ds ++ rest) = 35 :: normAux false rest := by
    cases ds with
    | nil => exact absurd rfl hne
    | cons d ds =>
      have hd : isDigit d = true := hds d (by simp)
      have := normAux_true_digits ds rest (fun c hc => hds c (by simp [hc]))
      simp only [List.cons_append]
      rw [show normAux false (d :: (ds ++ rest)) = 35 :: normAux true (ds ++ rest) by simp [normAux, hd],
        this, normAux_noDigitHead true rest hrest]
  unfold normalize
  cases pre with
  | nil => simpa using hrun
  | cons c pre => rw [List.append_assoc, normAux_pre false (c :: pre) _ hpre (by simp), hrun]

example : NoDigits [80, 32] ∧ AllDigits [49, 50] ∧ ([49, 50] : Str) ≠ [] ∧ NoDigitHead [32, 111] := by
  exact ⟨by simp [NoDigits, isDigit], by simp [AllDigits, isDigit], by simp, by simp [NoDigitHead, isDigit]⟩

/-- a string without digits is its own normal form -/
theorem normalize_of_noDigits (s : Str) (h : NoDigits s) : normalize s = s := normAux_of_noDigits false s h

/-- the normal form contains no digit at all -/
theorem normalize_has_no_digit (s : Str) : NoDigits (normalize s) := normAux_no_digit false s

/-- normalising twice is normalising once -/
theorem normalize_idem (s : Str) : normalize (normalize s) = normalize s :=
  normalize_of_noDigits _ (normalize_has_no_digit s)

/-! ## parsePageNumber -/

/-- **digitRuns_run.** `re.FindAllString(text, -1)` for `\d+`: digit-free bytes, a non-empty maximal
digit run, the rest — the first run is that run, the others are the runs of the rest. -/
theorem digitRuns_run (pre ds rest : Str) (hpre : NoDigits pre) (hds : AllDigits ds) (hne : ds ≠ [])
    (hrest : NoDigitHead rest) : digitRuns (pre ++ ds ++ rest) = ds :: digitRuns rest := by
  unfold digitRuns
  rw [List.append_assoc, digitRunsAux_noDigits pre _ hpre, digitRunsAux_digits ds rest [] hds,
    digitRunsAux_close rest _ hrest (by simpa using hne)]
  simp

/-- a string without digits has no digit run -/
theorem digitRuns_of_noDigits (s : Str) (h : NoDigits s) : digitRuns s = [] := by
  have := digitRunsAux_noDigits s [] h
  simpa [digitRuns, digitRunsAux] using this

/-- **parseDigits_eq_wrap.** `parsePageNumber` on a digit run of ANY length returns the decimal
value of the run reduced to Go's 64-bit `int` (two's complement): no overflow check, no error. -/
theorem parseDigits_eq_wrap (s : Str) : parseDigits s = wrap64 (decVal s) := by
  have h := parseDigits_foldl s 0
  have h0 : wrap64 0 = 0 := by decide
  rw [h0] at h
  exact h

/-- `wrap64` is the identity on the range of `int64` … -/
theorem wrap64_of_int64 (x : Int) (h1 : -9223372036854775808 ≤ x) (h2 : x < 9223372036854775808) :
    wrap64 x = x := wrap64_id h1 h2

example : (-9223372036854775808 : Int) ≤ 42 ∧ (42 : Int) < 9223372036854775808 := by decide

/-- … its values lie in that range and differ from the argument by a multiple of 2^64 -/
theorem wrap64_range (x : Int) :
    -9223372036854775808 ≤ wrap64 x ∧ wrap64 x < 9223372036854775808 ∧
      (x - wrap64 x) % 18446744073709551616 = 0 := by
  unfold wrap64; omega

/-- the wrap-around is reached: "9223372036854775808" (2^63) parses to the most negative `int`, and
"18446744073709551615" (2^64 - 1) to -1 -/
theorem parseDigits_wraps :
    parseDigits [57, 50, 50, 51, 51, 55, 50, 48, 51, 54, 56, 53, 52, 55, 55, 53, 56, 48, 56] = -9223372036854775808 ∧
    parseDigits [49, 56, 52, 52, 54, 55, 52, 52, 48, 55, 51, 55, 48, 57, 53, 53, 49, 54, 49, 53] = -1 := by
  decide +kernel

/-- **sortInts_unique.** `sort.Ints` is modelled by insertion sort; the result is the ONE ascending
arrangement of the numbers, so every correct sorting algorithm returns it. -/
theorem sortInts_unique (l l' : List Int) (hp : l'.Perm l) (hs : l'.Pairwise (· ≤ ·)) : l' = sortInts l :=
  sorted_perm_unique l' (sortInts l) hs (sortInts_sorted l) (hp.trans (sortInts_perm l).symm)

example : ([1, 2, 3] : List Int).Perm [3, 1, 2] ∧ ([1, 2, 3] : List Int).Pairwise (· ≤ ·) := by decide

theorem sortInts_sorted_perm (l : List Int) : (sortInts l).Perm l ∧ (sortInts l).Pairwise (· ≤ ·) :=
  ⟨sortInts_perm l, sortInts_sorted l⟩

/-- the ten lower-cased page-number patterns ("Page #" and "page #" coincide) -/
def lowerPatterns : List Str :=
  [[35], [112, 97, 103, 101, 32, 35], [45, 32, 35, 32, 45], [35, 32, 111, 102, 32, 35],
   [112, 97, 103, 101, 32, 35, 32, 111, 102, 32, 35], [35, 47, 35], [112, 46, 32, 35], [112, 46, 35],
   [112, 103, 32, 35], [112, 103, 46, 32, 35]]

/-- **isPageNumberPattern_iff.** A normalised text is a page-number pattern exactly if, trimmed and
ASCII-lower-cased, it is one of "#", "page #", "- # -", "# of #", "page # of #", "#/#", "p. #",
"p.#", "pg #", "pg. #". -/
theorem isPageNumberPattern_iff (t : Str) :
    isPageNumberPattern t = true ↔ (trimSpace t).map lowerAscii ∈ lowerPatterns := by
  have hl : ∀ x : Str, x ∈ lowerPatterns ↔ x ∈ pagePatterns.map (fun p => p.map lowerAscii) := by
    have : pagePatterns.map (fun p => p.map lowerAscii) =
        [[35], [112, 97, 103, 101, 32, 35], [112, 97, 103, 101, 32, 35], [45, 32, 35, 32, 45],
         [35, 32, 111, 102, 32, 35], [112, 97, 103, 101, 32, 35, 32, 111, 102, 32, 35], [35, 47, 35],
         [112, 46, 32, 35], [112, 46, 35], [112, 103, 32, 35], [112, 103, 46, 32, 35]] := by decide
    intro x; rw [this]
    simp only [lowerPatterns, List.mem_cons, List.mem_nil_iff, or_false]
    constructor
    · intro h; rcases h with h | h | h | h | h | h | h | h | h | h <;> simp [h]
    · intro h; rcases h with h | h | h | h | h | h | h | h | h | h | h <;> simp [h]
  rw [hl]
  simp only [isPageNumberPattern, List.any_eq_true, equalFoldAscii, beq_iff_eq, List.mem_map]
  constructor
  · rintro ⟨p, hp, h⟩; exact ⟨p, hp, h.symm⟩
  · rintro ⟨p, hp, h⟩; exact ⟨p, hp, h.symm⟩

/-- **containsPageNumberPattern_iff.** A group carries a running number exactly if it has at least
two candidates, their texts contain at least two digit runs in all, and among the sorted (wrapped)
values at least ⌊n/2⌋ adjacent pairs differ by exactly one (in 64-bit arithmetic). -/
theorem containsPageNumberPattern_iff (group : List Cand) :
    containsPageNumberPattern group = true ↔
      let numbers := sortInts (group.flatMap fun c => (digitRuns c.text).map parseDigits)
      2 ≤ group.length ∧ 2 ≤ numbers.length ∧ numbers.length / 2 ≤ countSequential numbers := by
  unfold containsPageNumberPattern
  simp only
  split
  · simp; omega
  · split
    · simp; omega
    · simp; omega

/-! ## The filter side, exactly -/

/-- the judged fragment `l` (a fragment of a word-level page, an assembled line of a character-level
page), measured against the bands `b`, is a header or footer of page `idx`: some region of the result
lists the page, `l` lies in the band of that region's kind, and the region matches `l`'s text -/
def Hit (res : Result) (idx : Int) (b : Bands) (l : Frag) : Prop :=
  ∃ k r, r ∈ res.regions k ∧ idx ∈ r.pages ∧ inRegion k b l = true ∧ regionMatches r l.text = true

/-- what `FilterFragments` removes from a page. Word-level page: the fragment itself is a `Hit`
(bands of the page's fragments). Character-level page: the fragment is a glyph of a line group of the
page (`charLines`, the groups `lines_partition_page` speaks about) whose assembled line is a `Hit`
(bands of the page's assembled lines, as in detection) — the position of the glyph alone no longer
decides (F8 repaired). -/
def Removed (res : Result) (idx : Int) (fs : List Frag) (ph : Rat) (f : Frag) : Prop :=
  (isCharacterLevel fs = false ∧ Hit res idx (bands res.cfg fs ph) f) ∨
  (isCharacterLevel fs = true ∧ ∃ g ∈ charLines fs, f ∈ g ∧ ∃ l, assembleLine g = some l ∧
    Hit res idx (bands res.cfg (assembleFragmentsIntoLines fs) ph) l)

theorem isRemoved_iff (res : Result) (idx : Int) (fs : List Frag) (ph : Rat) (f : Frag) :
    isRemoved res idx fs ph f = true ↔ Removed res idx fs ph f := by
  unfold Removed Hit
  cases hcl : isCharacterLevel fs with
  | false =>
    rw [isRemoved_wordLevel hcl, isInHeaderFooter_eq_true]
    simp
  | true =>
    rw [isRemoved_charLevel_eq_true hcl]
    simp only [isInHeaderFooter_eq_true]
    simp

/-- **removed_iff.** For every detection result, page index, fragment list and height: a fragment
of the page is missing from the filtered page exactly if it is `Removed` — on a character-level page:
exactly if the assembled line it belongs to matches a region covering the page. -/
theorem removed_iff (res : Result) (idx : Int) (fs : List Frag) (ph : Rat) (f : Frag) (hf : f ∈ fs) :
    f ∉ filterFragments res idx fs ph ↔ Removed res idx fs ph f := by
  rw [mem_filterFragments, ← isRemoved_iff]
  cases isRemoved res idx fs ph f <;> simp [hf]

example : let p := exPage 1 [66, 111, 100, 121] 2
    ({ text := [50], x := 300, y := 30, w := 7, h := 12, fs := 12 } : Frag) ∈ p.frags := by decide +kernel

/-- **kept_exactly.** Nothing else changes: the filtered page is the page with exactly the `Removed`
fragments left out — same order (`List.filter`), and every kept fragment occurs as often as before,
every removed one not at all. -/
theorem kept_exactly (res : Result) (idx : Int) (fs : List Frag) (ph : Rat) :
    ∃ gone : Frag → Bool, (∀ f, gone f = true ↔ Removed res idx fs ph f) ∧
      filterFragments res idx fs ph = fs.filter (fun f => !gone f) ∧
      ∀ f, (filterFragments res idx fs ph).count f = if gone f then 0 else fs.count f := by
  refine ⟨isRemoved res idx fs ph, isRemoved_iff res idx fs ph, filterFragments_eq res idx fs ph, ?_⟩
  intro f
  rw [filterFragments_eq]
  cases hg : isRemoved res idx fs ph f with
  | false => rw [List.count_filter (by simp [hg])]; simp
  | true =>
    simp only [if_true]
    apply List.count_eq_zero.mpr
    intro hmem
    have := (List.mem_filter.mp hmem).2
    simp [hg] at this

/-- the unique marginal line of the character-level witness is not `Removed`, the running line is -/
example : let p := clPage 1 true
    ¬ Removed (detect defaultConfig clDoc) 1 p.frags 792 { text := [88], x := 72, y := 740, w := 6, h := 12, fs := 12 } ∧
    Removed (detect defaultConfig clDoc) 1 p.frags 792 { text := [65], x := 72, y := 760, w := 6, h := 12, fs := 12 } := by
  constructor
  · rw [← isRemoved_iff]; decide +kernel
  · rw [← isRemoved_iff]; decide +kernel

/-- the relative order of any two kept fragments is their order on the page: the filtered page is
a sublist, and a sublist of it is a sublist of the page -/
theorem kept_order (res : Result) (idx : Int) (fs : List Frag) (ph : Rat) (l : List Frag)
    (h : l.Sublist (filterFragments res idx fs ph)) : l.Sublist fs :=
  h.trans (filter_sublist res idx fs ph)

example : ([] : List Frag).Sublist (filterFragments (detect defaultConfig exDoc) 0 (exPage 0 [] 1).frags 792) :=
  List.nil_sublist _

/-! ## The detection side, exactly -/

theorem regionOf_isSome_iff (cfg : Config) (k : Kind) (n : Nat) (cands : List Cand) (key : Str) :
    (∃ r, regionOf cfg k n cands key = some r) ↔
      (2 < key.length ∨ isPageNumberPattern key = true) ∧
      minOccurrences cfg n ≤ (distinctPages (groupOf cands key)).length ∧
      hasConsistentPosition cfg (groupOf cands key) = true := by
  constructor
  · rintro ⟨r, h⟩
    obtain ⟨h1, h2, h3, _⟩ := regionOf_eq_some h
    exact ⟨h1, h2, h3⟩
  · rintro ⟨h1, h2, h3⟩
    unfold regionOf
    simp only
    rw [if_neg, if_neg, if_neg]
    · exact ⟨_, rfl⟩
    · simp [h3]
    · omega
    · simp only [Bool.and_eq_true, decide_eq_true_eq, Bool.not_eq_true', not_and, Bool.not_eq_false]
      intro hl
      rcases h1 with h1 | h1
      · omega
      · exact h1

/-- the marginal candidates of kind `k` of a document whose normalised text is `key` -/
def groupAt (cfg : Config) (pages : List Page) (k : Kind) (key : Str) : List Cand :=
  groupOf (extractCandidates cfg k (preprocessPages pages)) key

/-- **region_detected_iff.** Detection is exact: the result has a region of kind `k` with pattern
`key` if and only if the document has at least `MinPages` pages, `key` is longer than two bytes or a
page-number pattern, and the marginal candidates with that normalised text lie on at least
`minOccurrences` distinct pages at a consistent position. -/
theorem region_detected_iff (cfg : Config) (pages : List Page) (k : Kind) (key : Str) :
    (∃ r ∈ (detect cfg pages).regions k, r.pattern = key) ↔
      cfg.minPages ≤ pages.length ∧
      (2 < key.length ∨ isPageNumberPattern key = true) ∧
      minOccurrences cfg pages.length ≤ (distinctPages (groupAt cfg pages k key)).length ∧
      hasConsistentPosition cfg (groupAt cfg pages k key) = true := by
  have hlen : (preprocessPages pages).length = pages.length := by simp [preprocessPages]
  by_cases hmin : pages.length < cfg.minPages
  · have : (detect cfg pages).regions k = [] := by
      unfold detect; rw [if_pos hmin]; cases k <;> rfl
    rw [this]
    constructor
    · rintro ⟨r, hr, _⟩; simp at hr
    · rintro ⟨h, _⟩; omega
  · have hreg : (detect cfg pages).regions k =
        findRepeatingPatterns cfg k pages.length (extractCandidates cfg k (preprocessPages pages)) := by
      unfold detect; rw [if_neg hmin]; cases k <;> simp [Result.regions, hlen]
    rw [hreg]
    constructor
    · rintro ⟨r, hr, hpat⟩
      obtain ⟨key', _, hsome⟩ := mem_findRepeatingPatterns.mp hr
      have hk : key' = key := by
        have := (regionOf_eq_some hsome).2.2.2.2.1
        rw [← this, hpat]
      subst hk
      exact ⟨by omega, (regionOf_isSome_iff _ _ _ _ _).mp ⟨r, hsome⟩⟩
    · rintro ⟨_, h1, h2, h3⟩
      obtain ⟨r, hsome⟩ := (regionOf_isSome_iff cfg k pages.length _ key).mpr ⟨h1, h2, h3⟩
      refine ⟨r, mem_findRepeatingPatterns.mpr ⟨key, ?_, hsome⟩, (regionOf_eq_some hsome).2.2.2.2.1⟩
      have h2' : 2 ≤ (distinctPages (groupAt cfg pages k key)).length :=
        Nat.le_trans (two_le_minOccurrences _ _) h2
      have hle := distinctPages_length_le_group (groupAt cfg pages k key)
      cases hg : groupAt cfg pages k key with
      | nil => rw [hg] at hle h2'; simp only [List.length_nil] at hle; omega
      | cons c rest =>
        have hc : c ∈ groupAt cfg pages k key := by rw [hg]; simp
        have hc' := List.mem_filter.mp hc
        exact ⟨c, hc'.1, by simpa using hc'.2⟩

/-- the running header of `exDoc` is detected -/
example : ∃ r ∈ (detect defaultConfig exDoc).regions .header,
    r.pattern = [65, 67, 77, 69, 32, 82, 101, 112, 111, 114, 116] := by decide +kernel

/-- **region_pages_exact.** Which pages a detected region lists: exactly the pages that (after line
assembly on character-level pages) carry a fragment in that band whose trimmed, digit-normalised
text is the region's pattern. -/
theorem region_pages_exact (cfg : Config) (pages : List Page) (k : Kind) (r : Region)
    (hr : r ∈ (detect cfg pages).regions k) (i : Int) :
    i ∈ r.pages ↔ ∃ p ∈ preprocessPages pages, p.index = i ∧
      ∃ f ∈ p.frags, inRegion k (bands cfg p.frags p.height) f = true ∧
        normalize (trimSpace f.text) = r.pattern := by
  obtain ⟨_, _, _, hpages, _⟩ := detected_of_mem cfg pages k r hr
  rw [hpages]
  constructor
  · rintro ⟨c, hc, rfl⟩
    obtain ⟨hc1, hc2⟩ := List.mem_filter.mp hc
    obtain ⟨p, hp, hcp⟩ := mem_extractCandidates.mp hc1
    obtain ⟨f, hf, hin, rfl⟩ := mem_pageCandidates.mp hcp
    exact ⟨p, hp, rfl, f, hf, hin, by simpa using hc2⟩
  · rintro ⟨p, hp, rfl, f, hf, hin, hn⟩
    refine ⟨{ text := trimSpace f.text, x := f.x, y := regionDist k (bands cfg p.frags p.height) f,
              w := f.w, h := f.h, page := p.index }, ?_, rfl⟩
    refine List.mem_filter.mpr ⟨mem_extractCandidates.mpr ⟨p, hp, mem_pageCandidates.mpr ⟨f, hf, hin, rfl⟩⟩, ?_⟩
    simpa using hn

example : (detect defaultConfig exDoc).regions .footer ≠ [] := by decide +kernel

/-! ## Character-level pages: line assembly -/

/-- **isCharacterLevel_iff.** A page is character-level exactly if it has fragments and they
average at most two runes. -/
theorem isCharacterLevel_iff (fs : List Frag) :
    isCharacterLevel fs = true ↔ fs ≠ [] ∧ (fs.map fun f => runeCount f.text).sum ≤ 2 * fs.length := by
  unfold isCharacterLevel
  cases fs <;> simp

/-- **lines_partition_page.** The lines `assembleFragmentsIntoLines` builds partition the page:
every fragment goes into exactly one line (the concatenation of the line groups is a permutation
of the page's fragments), and no group is empty. -/
theorem lines_partition_page (fs : List Frag) :
    ((groupLines (sortBy lineLess fs) []).flatten).Perm fs ∧
      ∀ g ∈ groupLines (sortBy lineLess fs) [], g ≠ [] := by
  refine ⟨?_, groupLines_nonempty _ _⟩
  rw [groupLines_flatten]
  simpa using sortBy_perm lineLess fs

/-- **assembled_line_exact.** One assembled line: it exists for every non-empty group, its glyphs
are the group's own (a permutation, left to right), and its text carries exactly their non-blank
bytes in that order — blanks are only inserted between glyphs, nothing else is added or lost. -/
theorem assembled_line_exact (g : List Frag) (hg : g ≠ []) :
    ∃ line, assembleLine g = some line ∧
      ∃ sorted : List Frag, sorted.Perm g ∧
        line.text.filter (fun c => c != 32) = (sorted.flatMap (·.text)).filter (fun c => c != 32) := by
  have hperm := sortBy_perm (fun a b : Frag => decide (a.x < b.x)) g
  have hne : sortBy (fun a b : Frag => decide (a.x < b.x)) g ≠ [] := by
    intro h; rw [h] at hperm; exact hg (List.Perm.nil_eq hperm).symm
  unfold assembleLine
  simp only
  cases hs : sortBy (fun a b : Frag => decide (a.x < b.x)) g with
  | nil => exact absurd hs hne
  | cons first tl =>
    cases hl : (first :: tl).getLast? with
    | none => simp at hl
    | some last =>
      refine ⟨_, rfl, first :: tl, by rw [← hs]; exact hperm, ?_⟩
      exact lineText_nonblank _ none

example : ([{ text := [65], x := 0, y := 0, w := 6, h := 12, fs := 12 }] : List Frag) ≠ [] := by simp

/-- the number of assembled lines is the number of line groups -/
theorem assembled_line_count (fs : List Frag) :
    (assembleFragmentsIntoLines fs).length = (groupLines (sortBy lineLess fs) []).length := by
  unfold assembleFragmentsIntoLines
  have h : ∀ l : List (List Frag), (∀ g ∈ l, g ≠ []) → (l.filterMap assembleLine).length = l.length := by
    intro l
    induction l with
    | nil => intro _; rfl
    | cons g l ih =>
      intro hl
      obtain ⟨line, hline, _⟩ := assembled_line_exact g (hl g (by simp))
      rw [List.filterMap_cons, hline]
      simp [ih (fun g' hg' => hl g' (by simp [hg']))]
  exact h _ (groupLines_nonempty _ _)

end Tabula.C11Exact
