import TabulaModel.Lemmas.Docx
import TabulaModel.Lemmas.Odt
import TabulaModel.Props.C16
/-
C16, further all-input laws of the DOCX reader model (Model/Docx.lean):

1. the block level (`blocksOfList`, what `decodeBlocks` offers to its callback) is a
   flattening: it holds only elements that are no block container, it is the identity on such
   lists and hence idempotent; the ordered element list `bodyBlocks` pairs EVERY unmarshalled
   paragraph and EVERY unmarshalled table, each exactly once and in its own order (the counting
   of the second pass loses nothing), and a document whose content controls have been unwrapped
   by hand reads as the same element list;
2. `parseListLevel` in closed form: the digits of `w:ilvl` read as a number, cut at 8;
3. heading levels of DOCX paragraphs are in 1..9 for every styles part (also a cyclic or
   dangling one) and every paragraph, list levels in 0..8, for every element of `elements`;
4. laws of `visibleElements` (header/footer exclusion): tables are never excluded, exclusion is
   idempotent and works element by element (it cannot reorder);
5. `limitTableGrid` is idempotent (DOCX and ODT);
6. ODT: the grouping elements of a table are a flattening too (`tableItemsList` is a normal form;
   a table with its row / column groups unwrapped has the same rows, grid and declared columns),
   and list nesting is monotone: no item of a list read at level d comes out above level d.
Core Lean only.
-/
namespace Tabula.C16More
open Tabula.Xml Tabula.Docx Tabula.C16

/-! ### 1. the block level is a flattening -/

/-- a block: an element that is no block container -/
def isBlock (n : Node) : Bool := n.isElem && !blockContainers.contains n.loc

theorem blocksOfNode_clean (n : Node) : ∀ m ∈ blocksOfNode n, isBlock m = true := by
  induction n using Node.rec (motive_2 := fun l => ∀ m ∈ blocksOfList l, isBlock m = true) with
  | elem tag attrs kids ih =>
    intro m hm
    simp only [blocksOfNode] at hm
    split at hm
    · exact ih m hm
    · rename_i hc
      have hmm : m = .elem tag attrs kids := by simpa using hm
      subst hmm
      have hc2 : blockContainers.contains (localName tag) = false := by
        cases hx : blockContainers.contains (localName tag)
        · rfl
        · exact absurd hx hc
      have hm2 : ¬ (localName tag ∈ blockContainers) := by simpa using hc2
      simp [isBlock, Node.isElem, Node.loc, Node.tag, hm2]
  | text s => intro m hm; simp [blocksOfNode] at hm
  | nil => rename_i m hm; simp [blocksOfList] at hm
  | cons n rest ihn ihr =>
    rename_i m hm
    simp only [blocksOfList, List.mem_append] at hm
    cases hm with
    | inl h => exact ihn m h
    | inr h => exact ihr m h

/-- **docx_block_level_clean**. Whatever the body (or a cell) contains, what `decodeBlocks`
offers to its callback are elements, and none of them is a block container: content controls
and custom XML never reach the paragraph / table decoders as such. -/
theorem docx_block_level_clean (l : List Node) : ∀ m ∈ blocksOfList l, isBlock m = true := by
  induction l with
  | nil => intro m hm; simp [blocksOfList] at hm
  | cons n rest ih =>
    intro m hm
    simp only [blocksOfList, List.mem_append] at hm
    cases hm with
    | inl h => exact blocksOfNode_clean n m h
    | inr h => exact ih m h

/-- on a list of blocks the block level is the list itself -/
theorem docx_block_level_of_blocks (l : List Node) (h : ∀ n ∈ l, isBlock n = true) : blocksOfList l = l := by
  induction l with
  | nil => simp [blocksOfList]
  | cons n rest ih =>
    have hr := ih (fun m hm => h m (List.mem_cons_of_mem _ hm))
    have hn := h n (List.mem_cons_self ..)
    cases n with
    | text s => simp [isBlock, Node.isElem] at hn
    | elem tag attrs kids =>
      have hc : blockContainers.contains (localName tag) = false := by
        simpa [isBlock, Node.isElem, Node.loc, Node.tag] using hn
      have hm2 : ¬ (localName tag ∈ blockContainers) := by simpa using hc
      simp [blocksOfList, blocksOfNode, hm2, hr]

example : ∀ n ∈ [wP [wR [wT [97]]], wTbl []], isBlock n = true := by decide

/-- **docx_block_level_idempotent**. Flattening the block containers twice is flattening them
once: `blocksOfList` is a normal form. -/
theorem docx_block_level_idempotent (l : List Node) : blocksOfList (blocksOfList l) = blocksOfList l :=
  docx_block_level_of_blocks _ (docx_block_level_clean l)

/-- **docx_unwrapped_body_same_blocks**. The ordered body blocks of a body whose block
containers have been unwrapped by hand are the ordered body blocks of the body as authored. -/
theorem docx_unwrapped_body_same_blocks (kids : List Node) : bodyBlocks (blocksOfList kids) = bodyBlocks kids := by
  unfold bodyBlocks
  rw [docx_block_level_idempotent]

/-- **docx_unwrapped_document_same_elements**. Reaches the reader: a document whose content
controls / custom XML elements of the body have been replaced by their content (to any depth)
is read as the same element list - the containers carry no structure of their own. -/
theorem docx_unwrapped_document_same_elements (docTag bodyTag : Str) (da ba : List (Str × Str)) (pre kids post : List Node)
    (styles : Option Node)
    (hdoc : localName docTag ≠ sBody) (hbody : localName bodyTag = sBody)
    (hpre : noBodyList pre = true) (hpost : noBodyList post = true) :
    elements (.elem docTag da (pre ++ [.elem bodyTag ba (blocksOfList kids)] ++ post)) styles
      = elements (.elem docTag da (pre ++ [.elem bodyTag ba kids] ++ post)) styles := by
  rw [elements_interleave docTag bodyTag da ba pre _ post styles hdoc hbody hpre hpost,
      elements_interleave docTag bodyTag da ba pre kids post styles hdoc hbody hpre hpost,
      docx_unwrapped_body_same_blocks]

example : localName [119, 58, 100] ≠ sBody ∧ localName [119, 58, 98, 111, 100, 121] = sBody
    ∧ noBodyList ([] : List Node) = true := by decide

/-- **docx_every_paragraph_paired**. The paragraphs among the ordered body blocks are exactly
`Body.Paragraphs` (the unmarshalled `w:p` of the block level), in the same order: the counting
of the second pass pairs every one of them, once. -/
theorem docx_every_paragraph_paired (kids : List Node) :
    childrenNamed (bodyBlocks kids) sP = childrenNamed (blocksOfList kids) sP := by
  unfold bodyBlocks childrenNamed
  rw [List.filter_filter]
  apply List.filter_congr
  intro n _
  simp only [isBodyElem]
  cases n.named sP <;> simp

/-- **docx_every_table_paired**. The same for `Body.Tables`. -/
theorem docx_every_table_paired (kids : List Node) :
    childrenNamed (bodyBlocks kids) sTbl = childrenNamed (blocksOfList kids) sTbl := by
  unfold bodyBlocks childrenNamed
  rw [List.filter_filter]
  apply List.filter_congr
  intro n _
  simp only [isBodyElem]
  cases n.named sTbl <;> simp

theorem named_p_tbl_disjoint (n : Node) : (n.named sP && n.named sTbl) = false := by
  cases hp : n.named sP
  · rfl
  · have h1 : n.loc = sP := by
      simp only [Node.named, Bool.and_eq_true, beq_iff_eq] at hp; exact hp.2
    cases ht : n.named sTbl
    · rfl
    · have h2 : n.loc = sTbl := by
        simp only [Node.named, Bool.and_eq_true, beq_iff_eq] at ht; exact ht.2
      rw [h1] at h2
      exact absurd h2 (by decide)

/-- **docx_body_blocks_count**. The ordered element list has as many entries as there are
unmarshalled paragraphs and tables together - nothing lost, nothing paired twice. -/
theorem docx_body_blocks_count (kids : List Node) :
    (bodyBlocks kids).length
      = (childrenNamed (blocksOfList kids) sP).length + (childrenNamed (blocksOfList kids) sTbl).length := by
  unfold bodyBlocks childrenNamed
  induction blocksOfList kids with
  | nil => rfl
  | cons n rest ih =>
    have hd := named_p_tbl_disjoint n
    simp only [List.filter_cons, isBodyElem]
    rcases Bool.eq_false_or_eq_true (n.named sP) with hp | hp <;>
      rcases Bool.eq_false_or_eq_true (n.named sTbl) with ht | ht
    · rw [hp, ht] at hd; cases hd
    · simp [hp, ht] <;> omega
    · simp [hp, ht] <;> omega
    · simp [hp, ht] <;> omega

/-! ### 2. `parseListLevel` in closed form -/

/-- the digit accumulation of `parseListLevel` / `parseOutlineLevel` from a running value -/
def digitsFrom (s : Str) (v : Nat) : Nat :=
  s.foldl (fun v c => if 48 ≤ c ∧ c ≤ 57 then v * 10 + (c - 48) else v) v

theorem digitsVal_eq (s : Str) : digitsVal s = digitsFrom s 0 := rfl

theorem digitsFrom_ge (s : Str) : ∀ v, v ≤ digitsFrom s v := by
  induction s with
  | nil => intro v; simp [digitsFrom]
  | cons c rest ih =>
    intro v
    have hstep : digitsFrom (c :: rest) v = digitsFrom rest (if 48 ≤ c ∧ c ≤ 57 then v * 10 + (c - 48) else v) := rfl
    rw [hstep]
    by_cases hd : 48 ≤ c ∧ c ≤ 57
    · rw [if_pos hd]
      exact Nat.le_trans (by omega) (ih _)
    · rw [if_neg hd]; exact ih v

theorem listLevelFrom_eq (s : Str) : ∀ level, level ≤ 8 → listLevelFrom s level = min (digitsFrom s level) 8 := by
  induction s with
  | nil => intro level h; simp only [listLevelFrom, digitsFrom, List.foldl_nil]; omega
  | cons c rest ih =>
    intro level h
    have hstep : digitsFrom (c :: rest) level = digitsFrom rest (if 48 ≤ c ∧ c ≤ 57 then level * 10 + (c - 48) else level) := rfl
    rw [hstep]
    unfold listLevelFrom
    by_cases hd : 48 ≤ c ∧ c ≤ 57
    · rw [if_pos hd, if_pos hd]
      by_cases hx : level * 10 + (c - 48) > maxListLevel
      · rw [if_pos hx]
        have := digitsFrom_ge rest (level * 10 + (c - 48))
        simp only [maxListLevel] at hx ⊢
        omega
      · rw [if_neg hx]
        apply ih
        simp only [maxListLevel] at hx
        omega
    · rw [if_neg hd, if_neg hd]; exact ih level h

/-- **docx_list_level_closed_form**. For EVERY `w:ilvl` value: the list level is the number its
decimal digits spell (other characters ignored, as in `parseOutlineLevel`), cut at 8. The early
return of the loop is invisible. -/
theorem docx_list_level_closed_form (s : Str) : parseListLevel s = min (digitsVal s) 8 := by
  rw [digitsVal_eq]
  exact listLevelFrom_eq s 0 (by omega)

/-- **docx_list_level_as_authored_iff**. The level is the authored number exactly when that
number is one of the levels WordprocessingML defines (0..8). -/
theorem docx_list_level_as_authored_iff (s : Str) : parseListLevel s = digitsVal s ↔ digitsVal s ≤ 8 := by
  rw [docx_list_level_closed_form]; omega

/-- **docx_list_level_agrees_with_outline**. Where `parseOutlineLevel` accepts a value,
`parseListLevel` reads the same number from the same string. -/
theorem docx_list_level_agrees_with_outline (s : Str) (v : Nat) (h : parseOutlineLevel s = some v) :
    parseListLevel s = v := by
  rw [docx_list_level_closed_form]
  by_cases hv : digitsVal s ≤ 8
  · simp [parseOutlineLevel, hv] at h; omega
  · simp [parseOutlineLevel, hv] at h

example : parseOutlineLevel [51] = some 3 := by decide

/-! ### 3. heading levels are in 1..9, list levels in 0..8 -/

theorem headingMap_range : ∀ e ∈ headingMap, 1 ≤ e.2 ∧ e.2 ≤ 9 := by decide +kernel

theorem detectBuiltIn_range (id : Str) (l : Nat) (h : detectBuiltInHeading id = some l) : 1 ≤ l ∧ l ≤ 9 := by
  unfold detectBuiltInHeading at h
  cases hf : headingMap.find? (fun e => e.1 == lower id) with
  | none => rw [hf] at h; simp at h
  | some e =>
    rw [hf] at h
    have he : e.2 = l := by simpa using h
    rw [← he]
    exact headingMap_range e (List.mem_of_find?_eq_some hf)

theorem nameLevel_range (n : Str) : 1 ≤ nameLevel n ∧ nameLevel n ≤ 9 := by
  unfold nameLevel
  split
  · rename_i i hi
    have := List.mem_range.mp (List.mem_of_find?_eq_some hi)
    omega
  · omega

theorem outline_range (s : Str) (l : Nat) (h : (parseOutlineLevel s).map (· + 1) = some l) : 1 ≤ l ∧ l ≤ 9 := by
  by_cases hv : digitsVal s ≤ 8
  · simp [parseOutlineLevel, hv] at h; omega
  · simp [parseOutlineLevel, hv] at h

theorem detectHeadingDef_range (d : StyleDef) (l : Nat) (h : detectHeadingDef d = some l) : 1 ≤ l ∧ l ≤ 9 := by
  unfold detectHeadingDef at h
  split at h
  · rename_i l0 hb
    cases h; exact detectBuiltIn_range _ _ hb
  · split at h
    · cases h; exact nameLevel_range _
    · split at h
      · exact outline_range _ _ h
      · cases h

theorem levelOfId_range (defs : List StyleDef) (id : Str) (l : Nat) (h : levelOfId defs id = some l) : 1 ≤ l ∧ l ≤ 9 := by
  unfold levelOfId at h
  split at h
  · exact detectHeadingDef_range _ _ h
  · exact detectBuiltIn_range _ _ h

theorem estimate_range (h : Nat) : 1 ≤ estimateHeadingLevel h ∧ estimateHeadingLevel h ≤ 3 := by
  unfold estimateHeadingLevel
  split
  · omega
  · split <;> omega

/-- **docx_style_heading_level_range**. `StyleResolver.Resolve` on ANY styles part (cyclic,
dangling, redefined ids) and ANY style id: a heading level, if there is one, is in 1..9. -/
theorem docx_style_heading_level_range (st : Styles) (id : Str) (l : Nat) (h : resolveHeading st id = some l) :
    1 ≤ l ∧ l ≤ 9 := by
  unfold resolveHeading at h
  split at h
  · cases h
  · split at h
    · exact detectBuiltIn_range _ _ h
    · simp only at h
      split at h
      · rename_i l0 hf
        cases h
        obtain ⟨x, _, hx⟩ := List.exists_of_findSome?_eq_some hf
        exact levelOfId_range _ _ _ hx
      · split at h
        · cases h
          have := estimate_range (resolvedSz st (chain st.defs id))
          omega
        · cases h

/-- **docx_heading_level_range**. Every paragraph, every styles part: the heading level
`processParagraph` assigns (style, inherited style, font-size estimate or the paragraph's own
`w:outlineLvl`) is in 1..9. -/
theorem docx_heading_level_range (st : Styles) (p : Node) (l : Nat) (h : (processParagraph st p).heading = some l) :
    1 ≤ l ∧ l ≤ 9 := by
  simp only [processParagraph] at h
  split at h
  · rename_i l0 hr
    cases h
    exact docx_style_heading_level_range _ _ _ hr
  · split at h
    · exact outline_range _ _ h
    · cases h

/-- **docx_list_item_range**. A paragraph that is a list item has a numbering id other than
"" and "0" and a level in 0..8. -/
theorem docx_list_item_range (st : Styles) (p : Node) (numId : Str) (lv : Nat)
    (h : (processParagraph st p).list = some (numId, lv)) : lv ≤ 8 ∧ numId ≠ [] ∧ numId ≠ [48] := by
  simp only [processParagraph] at h
  split at h
  · rename_i hc
    cases h
    exact ⟨list_level_bounded _, hc.1, hc.2⟩
  · cases h

/-- **docx_elements_levels_in_range**. Reaches `elements`: in the element list of every document
with every styles part, each paragraph's heading level is in 1..9 and each list level in 0..8. -/
theorem docx_elements_levels_in_range (doc : Node) (styles : Option Node) (p : Para)
    (hp : Elem.para p ∈ elements doc styles) :
    (∀ l, p.heading = some l → 1 ≤ l ∧ l ≤ 9) ∧ (∀ numId lv, p.list = some (numId, lv) → lv ≤ 8) := by
  unfold elements at hp
  obtain ⟨n, _, hn⟩ := List.mem_map.mp hp
  unfold processElement at hn
  split at hn
  · cases hn
  · cases hn
    exact ⟨fun l hl => docx_heading_level_range _ _ l hl,
           fun numId lv hl => (docx_list_item_range _ _ numId lv hl).1⟩

example : (elements witnessDoc none).any (fun e => match e with | .para _ => true | .table _ => false) = true := by
  decide +kernel

/-! ### 4. header / footer exclusion -/

def isTable : Elem → Bool
  | .table _ => true
  | .para _ => false

/-- **docx_exclusion_keeps_tables**. Whatever the options and the header / footer lines:
every table of the body is written, in order. -/
theorem docx_exclusion_keeps_tables (opts : ExtractOptions) (hdr ftr : List Str) (trim : Str → Str) (els : List Elem) :
    (visibleElements opts hdr ftr trim els).filter isTable = els.filter isTable := by
  unfold visibleElements
  rw [List.filter_filter]
  apply List.filter_congr
  intro e _
  cases e <;> simp [isTable]

/-- **docx_exclusion_idempotent**. Excluding twice is excluding once. -/
theorem docx_exclusion_idempotent (opts : ExtractOptions) (hdr ftr : List Str) (trim : Str → Str) (els : List Elem) :
    visibleElements opts hdr ftr trim (visibleElements opts hdr ftr trim els) = visibleElements opts hdr ftr trim els := by
  unfold visibleElements
  rw [List.filter_filter]
  apply List.filter_congr
  intro e _
  simp

/-- **docx_exclusion_elementwise**. Exclusion decides element by element: the visible
elements of a body made of two pieces are those of the pieces, in order. -/
theorem docx_exclusion_elementwise (opts : ExtractOptions) (hdr ftr : List Str) (trim : Str → Str) (a b : List Elem) :
    visibleElements opts hdr ftr trim (a ++ b) = visibleElements opts hdr ftr trim a ++ visibleElements opts hdr ftr trim b := by
  unfold visibleElements
  exact List.filter_append ..

/-- **docx_excluded_iff**. Exactly which paragraphs go: a paragraph of the body is written iff
its trimmed text is empty or equals no non-empty header line (when headers are excluded) and no
non-empty footer line (when footers are excluded). -/
theorem docx_excluded_iff (opts : ExtractOptions) (hdr ftr : List Str) (trim : Str → Str) (els : List Elem) (p : Para) :
    Elem.para p ∈ visibleElements opts hdr ftr trim els
      ↔ Elem.para p ∈ els ∧ shouldExclude opts hdr ftr (trim p.text) = false := by
  unfold visibleElements
  rw [List.mem_filter]
  simp

/-! ### 5. the grid limit -/

theorem hasSpans_resetSpans (rows : List (List Cell)) : hasSpans (resetSpans rows) = false := by
  unfold hasSpans resetSpans
  simp [List.any_map, List.any_eq_false]

/-- **docx_grid_limit_idempotent**. `limitTableGrid` applied to its own result changes nothing:
a table it has reset has no spans left. -/
theorem docx_grid_limit_idempotent (rows : List (List Cell)) :
    limitTableGrid (limitTableGrid rows) = limitTableGrid rows := by
  cases limit_cases rows with
  | inl h => rw [h, h]
  | inr h => rw [h]; exact limit_nospans _ (hasSpans_resetSpans rows)

/-! ### 6. ODT: table groups and list nesting -/

/-- a table item: a `table:table-column` or `table:table-row` element -/
def isTableItem (n : Node) : Bool :=
  n.isElem && (n.loc == Odt.sTableColumn || n.loc == Odt.sTableRow)

theorem tableItemsNode_clean (n : Node) : ∀ m ∈ Odt.tableItemsNode n, isTableItem m = true := by
  induction n using Node.rec (motive_2 := fun l => ∀ m ∈ Odt.tableItemsList l, isTableItem m = true) with
  | elem tag attrs kids ih =>
    intro m hm
    simp only [Odt.tableItemsNode] at hm
    split at hm
    · rename_i hc
      have hmm : m = .elem tag attrs kids := by simpa using hm
      subst hmm
      simpa [isTableItem, Node.isElem, Node.loc, Node.tag] using hc
    · split at hm
      · exact ih m hm
      · simp at hm
  | text s => intro m hm; simp [Odt.tableItemsNode] at hm
  | nil => rename_i m hm; simp [Odt.tableItemsList] at hm
  | cons n rest ihn ihr =>
    rename_i m hm
    simp only [Odt.tableItemsList, List.mem_append] at hm
    cases hm with
    | inl h => exact ihn m h
    | inr h => exact ihr m h

/-- **odt_table_items_clean**. What `tableXML.UnmarshalXML` collects from ANY table content are
column and row elements only, however the grouping elements nest. -/
theorem odt_table_items_clean (l : List Node) : ∀ m ∈ Odt.tableItemsList l, isTableItem m = true := by
  induction l with
  | nil => intro m hm; simp [Odt.tableItemsList] at hm
  | cons n rest ih =>
    intro m hm
    simp only [Odt.tableItemsList, List.mem_append] at hm
    cases hm with
    | inl h => exact tableItemsNode_clean n m h
    | inr h => exact ih m h

theorem odt_table_items_of_items (l : List Node) (h : ∀ n ∈ l, isTableItem n = true) : Odt.tableItemsList l = l := by
  induction l with
  | nil => simp [Odt.tableItemsList]
  | cons n rest ih =>
    have hr := ih (fun m hm => h m (List.mem_cons_of_mem _ hm))
    have hn := h n (List.mem_cons_self ..)
    cases n with
    | text s => simp [isTableItem, Node.isElem] at hn
    | elem tag attrs kids =>
      have hc : (localName tag == Odt.sTableColumn || localName tag == Odt.sTableRow) = true := by
        simpa [isTableItem, Node.isElem, Node.loc, Node.tag] using hn
      simp only [Odt.tableItemsList, Odt.tableItemsNode, hc, if_true, hr]
      rfl

/-- **odt_table_items_idempotent**. Looking through the grouping elements is a normal form. -/
theorem odt_table_items_idempotent (l : List Node) : Odt.tableItemsList (Odt.tableItemsList l) = Odt.tableItemsList l :=
  odt_table_items_of_items _ (odt_table_items_clean l)

/-- **odt_ungrouped_table_same_grid**. A table whose `table:table-header-rows`, `table:table-rows`,
`table:table-row-group`, `table:table-columns`, … have been replaced by their content (to any
depth) is read as the same rows, the same grid and the same number of declared columns. -/
theorem odt_ungrouped_table_same_grid (tag : Str) (attrs : List (Str × Str)) (kids : List Node) :
    Odt.parseRows (.elem tag attrs (Odt.tableItemsList kids)) = Odt.parseRows (.elem tag attrs kids)
    ∧ Odt.parseTable (.elem tag attrs (Odt.tableItemsList kids)) = Odt.parseTable (.elem tag attrs kids)
    ∧ Odt.columnCount (.elem tag attrs (Odt.tableItemsList kids)) = Odt.columnCount (.elem tag attrs kids) := by
  have hr : Odt.parseRows (.elem tag attrs (Odt.tableItemsList kids)) = Odt.parseRows (.elem tag attrs kids) := by
    simp only [Odt.parseRows, Odt.tableRows, Node.kids, odt_table_items_idempotent]
  refine ⟨hr, ?_, ?_⟩
  · simp only [Odt.parseTable, hr]
  · simp only [Odt.columnCount, Odt.tableColumns, Node.kids, odt_table_items_idempotent]

theorem odt_hasSpans_resetSpans (rows : List (List Odt.Cell)) : Odt.hasSpans (Odt.resetSpans rows) = false := by
  unfold Odt.hasSpans Odt.resetSpans
  simp [List.any_map, List.any_eq_false]

/-- **odt_grid_limit_idempotent**. -/
theorem odt_grid_limit_idempotent (rows : List (List Odt.Cell)) :
    Odt.limitTableGrid (Odt.limitTableGrid rows) = Odt.limitTableGrid rows := by
  cases Odt.limit_cases rows with
  | inl h => rw [h, h]
  | inr h => rw [h]; exact Odt.limit_nospans _ (odt_hasSpans_resetSpans rows)

theorem odt_list_levels_node (n : Node) : ∀ level,
    (∀ e ∈ Odt.listItemOf level n, level ≤ e.2) ∧ (∀ e ∈ Odt.listItems level n.kids, level ≤ e.2) := by
  induction n using Node.rec (motive_2 := fun l => ∀ level,
      (∀ e ∈ Odt.subLists level l, level ≤ e.2) ∧ (∀ e ∈ Odt.listItems level l, level ≤ e.2)) with
  | elem tag attrs kids ih =>
    intro level
    refine ⟨?_, (ih level).2⟩
    intro e he
    simp only [Odt.listItemOf, List.mem_append] at he
    cases he with
    | inl h =>
      split at h
      · have h2 := List.mem_singleton.mp h
        rw [h2]; exact Nat.le_refl _
      · simp at h
    | inr h => exact (ih level).1 e h
  | text s => intro level; simp [Odt.listItemOf, Odt.listItems, Node.kids]
  | nil => rename_i level; simp [Odt.subLists, Odt.listItems]
  | cons n rest ihn ihr =>
    rename_i level
    cases n with
    | text s =>
      simp only [Odt.subLists, Odt.listItems]
      exact ihr level
    | elem tag a kids =>
      constructor
      · intro e he
        simp only [Odt.subLists, List.mem_append] at he
        cases he with
        | inl h =>
          split at h
          · have := (ihn (level + 1)).2 e (by simpa [Node.kids] using h)
            omega
          · simp at h
        | inr h => exact (ihr level).1 e h
      · intro e he
        simp only [Odt.listItems, List.mem_append] at he
        cases he with
        | inl h =>
          split at h
          · exact (ihn level).1 e h
          · simp at h
        | inr h => exact (ihr level).2 e h

/-- **odt_list_nesting_monotone**. Every entry produced for the items of a `text:list` read at
level d - the items themselves and everything nested in them, to any depth - has level ≥ d:
nesting can only deepen the level, never reset it. -/
theorem odt_list_nesting_monotone (level : Nat) (kids : List Node) :
    ∀ e ∈ Odt.listItems level kids, level ≤ e.2 := by
  intro e he
  exact (odt_list_levels_node (.elem [] [] kids) level).2 e (by simpa [Node.kids] using he)

/-- … and an item's own entry, when it has text, is at exactly the level of its list -/
theorem odt_list_item_levels (level : Nat) (n : Node) : ∀ e ∈ Odt.listItemOf level n, level ≤ e.2 :=
  (odt_list_levels_node n level).1

end Tabula.C16More
