import TabulaModel.Props.C14Rune
import TabulaModel.Lemmas.ExportIO
/-!
# C14 (part 9) — every batch size, and the file-writing entry points

`(*BatchExporter).Export` over the whole `int` range of batch sizes (fix e7cdf1b: a size ≤ 0 is an
error, no callback, no panic), the index arithmetic of its loop, and `ExportToFile` /
`(*ChunkCollection).ExportToFile` / `ExportToFiles` over an abstract file system: which files exist
after the call, what they hold, and that reading them back gives the chunks.
-/
namespace Tabula.C14IO
open Tabula.Export Tabula.Csv Tabula.Json Tabula.C14 Tabula.C14Meta Tabula.C14Api Tabula.C14Json Tabula.C14S
open Tabula.C14Decode Tabula.C14Rune

/-! ## every batch size -/

/-- EVERY `int` BATCH SIZE: a size of zero or less is refused — the callback is never invoked and
the result is the size error (before fix e7cdf1b: a panic); a size ≥ 1 runs the loop of
`batch_history` with that size. -/
theorem batch_all_sizes {α β : Type} (size : Int) (exportFn : List α → Option β) (cb : Batch α → β → Bool)
    (chunks : List α) :
    (size ≤ 0 → batchExportRunInt size exportFn cb chunks = ([], .sizeErr)) ∧
    (1 ≤ size → ∃ r, batchExportRun size.toNat exportFn cb chunks = some r ∧
      batchExportRunInt size exportFn cb chunks = (r.1, r.2.toI) ∧ (r.2.toI ≠ .sizeErr)) := by
  constructor
  · intro h
    have : ¬ 0 < size.toNat := by omega
    simp [batchExportRunInt, this]
  · intro h
    have h0 : 0 < size.toNat := by omega
    refine ⟨batchLoopRun size.toNat h0 exportFn cb chunks 0, by simp [batchExportRun, h0],
      by simp [batchExportRunInt, h0], ?_⟩
    cases (batchLoopRun size.toNat h0 exportFn cb chunks 0).2 <;> simp [BatchResult.toI]

example : ((-3 : Int) ≤ 0) ∧ ((1 : Int) ≤ 9223372036854775807) := by decide

/-- The index arithmetic of the loop never leaves the `int` range: for every batch, `i < len` and
`i + size` is either `size` itself (first batch) or below `2·len` — so `end := i + be.batchSize`
cannot overflow for any batch size up to MaxInt (a Go slice has far fewer than MaxInt/2 elements). -/
theorem batch_no_overflow {α : Type} (size : Nat) (hs : 1 ≤ size) (chunks : List α) :
    ∃ bs, batchExport size chunks = some bs ∧
      ∀ b ∈ bs, b.startIndex < chunks.length ∧
        (b.startIndex + size = size ∨ b.startIndex + size < 2 * chunks.length) := by
  obtain ⟨bs, h1, _, h3⟩ := batches_partition size hs chunks
  refine ⟨bs, h1, ?_⟩
  intro b hb
  obtain ⟨a1, a2, a3, a4, a5, a6, _⟩ := h3 b hb
  have hlt : b.startIndex < chunks.length := by
    have : 1 ≤ ((chunks.drop b.startIndex).take b.chunkCount).length := by rw [← a6]; exact a1
    simp only [List.length_take, List.length_drop] at this
    omega
  refine ⟨hlt, ?_⟩
  by_cases h0 : b.batchNumber = 0
  · left; rw [a4, h0]; simp
  · right
    have : size ≤ b.batchNumber * size := Nat.le_mul_of_pos_left size (by omega)
    omega

/-- batch `k` of the partition carries the number `k` (what `ExportToFiles` puts into the file name) -/
theorem batch_numbers {α : Type} (size : Nat) (chunks : List α) (bs : List (Batch α))
    (h : batchExport size chunks = some bs) (k : Nat) (b : Batch α) (hb : bs[k]? = some b) :
    b.batchNumber = k := by
  unfold batchExport at h
  by_cases hs : 0 < size
  · simp only [hs, dite_true, Option.some.injEq] at h
    subst h
    have := batchLoop_number size hs chunks 0 k b hb
    simpa using this
  · simp [hs] at h

/-! ## ExportToFile -/

/-- `(*Exporter).ExportToFile` / `(*ChunkCollection).ExportToFile`: when the file cannot be created
nothing changes; otherwise only that one file changes: it holds the complete export text, or — when
the export itself fails (`export_error_iff`) — it has been created and is left EMPTY. -/
theorem export_to_file_spec (canCreate : Str → Bool) (cfg : Config) (chunks : List Chunk) (name : Str) (fs : FS) :
    collExportToFile canCreate chunks name cfg fs = exportToFile canCreate cfg chunks name fs ∧
    (canCreate name = false → exportToFile canCreate cfg chunks name fs = (fs, .createErr)) ∧
    (canCreate name = true →
      (∀ n, n ≠ name → fsRead (exportToFile canCreate cfg chunks name fs).1 n = fsRead fs n) ∧
      (∀ text, exportToStringR cfg chunks = some text →
        (exportToFile canCreate cfg chunks name fs).2 = .ok ∧
        fsRead (exportToFile canCreate cfg chunks name fs).1 name = some text) ∧
      (exportToStringR cfg chunks = none →
        (exportToFile canCreate cfg chunks name fs).2 = .exportErr ∧
        fsRead (exportToFile canCreate cfg chunks name fs).1 name = some [])) := by
  refine ⟨rfl, ?_, ?_⟩
  · intro h; simp [exportToFile, h]
  · intro h
    refine ⟨?_, ?_, ?_⟩
    · intro n hn
      unfold exportToFile
      cases exportToStringR cfg chunks <;> simp [h, fsRead_fsWrite_other _ _ _ _ hn]
    · intro text ht
      simp [exportToFile, h, ht, fsRead_fsWrite_self]
    · intro ht
      simp [exportToFile, h, ht, fsRead_fsWrite_self]

/-- END TO END through a file: when `ExportToFile` returns nil, the file's content is accepted by the
standard reader of the format and reads back to one record per chunk, in order (any configuration,
any delimiter rune). -/
theorem export_to_file_parses_back (canCreate : Str → Bool) (cfg : Config) (chunks : List Chunk) (name : Str)
    (fs : FS) (hv : ∀ c ∈ chunks, chunkValid c = true)
    (hok : (exportToFile canCreate cfg chunks name fs).2 = .ok) :
    ∃ text, fsRead (exportToFile canCreate cfg chunks name fs).1 name = some text ∧
      parseExportR cfg text = some (expected cfg chunks) := by
  by_cases hc : canCreate name = true
  · cases ht : exportToStringR cfg chunks with
    | none => simp [exportToFile, hc, ht] at hok
    | some text =>
      obtain ⟨_, h2⟩ := ((export_to_file_spec canCreate cfg chunks name fs).2.2 hc).2.1 text ht
      exact ⟨text, h2, export_statement_all_configs cfg chunks hv text ht⟩
  · simp [exportToFile, hc] at hok

/-! ## ExportToFiles -/

/-- HISTORY of `ExportToFiles` (any batch size ≥ 1; a configuration whose exports succeed; every
file creatable; `fmt.Sprintf(pattern, n)` different for different batch numbers, as with `%d`):
the call returns nil, file `nameOf k` holds exactly the export of the `k`-th batch of the
partition, no other file is touched — so the files, read in batch order, hold every chunk exactly
once, in order. -/
theorem export_to_files_history (canCreate : Str → Bool) (nameOf : Nat → Str) (cfg : Config) (size : Int)
    (hs : 1 ≤ size) (chunks : List Chunk) (fs : FS)
    (hexp : ∀ l, (exportToStringR cfg l).isSome = true)
    (hcc : ∀ k, canCreate (nameOf k) = true) (hinj : ∀ i j, nameOf i = nameOf j → i = j) :
    ∃ bs, batchExport size.toNat chunks = some bs ∧ bs.flatMap (·.items) = chunks ∧
      (exportToFiles canCreate nameOf cfg size chunks fs).2 = .ok ∧
      (∀ k b, bs[k]? = some b →
        fsRead (exportToFiles canCreate nameOf cfg size chunks fs).1 (nameOf k) = exportToStringR cfg b.items) ∧
      (∀ name, (∀ k, k < bs.length → nameOf k ≠ name) →
        fsRead (exportToFiles canCreate nameOf cfg size chunks fs).1 name = fsRead fs name) := by
  have h0 : 0 < size.toNat := by omega
  obtain ⟨bs, hbs, hcat, _⟩ := batches_partition size.toNat h0 chunks
  refine ⟨bs, hbs, hcat, ?_⟩
  -- the run delivers every batch
  have hrun : batchLoopRun size.toNat h0 (exportToStringR cfg) (fun b _ => canCreate (nameOf b.batchNumber)) chunks 0 =
      batchRun (exportToStringR cfg) (fun b _ => canCreate (nameOf b.batchNumber)) bs := by
    rw [batchLoopRun_eq]
    simp only [batchExport, h0, dite_true, Option.some.injEq] at hbs
    rw [hbs]
  have hall := batchRun_all (exportToStringR cfg) (fun b _ => canCreate (nameOf b.batchNumber)) bs
    (fun b _ => hexp b.items) (fun b _ _ => hcc b.batchNumber)
  obtain ⟨_, hdata, _⟩ := batchRun_history (exportToStringR cfg) (fun b _ => canCreate (nameOf b.batchNumber)) bs
  -- the file system after the fold
  have hfs : (exportToFiles canCreate nameOf cfg size chunks fs).1 =
      ((batchRun (exportToStringR cfg) (fun b _ => canCreate (nameOf b.batchNumber)) bs).1.map
        (fun p => (nameOf p.1.batchNumber, p.2))).foldl (fun f kv => fsWrite f kv.1 kv.2) fs := by
    simp only [exportToFiles, batchExportRunInt, h0, dite_true, hrun, List.foldl_map]
    congr 1
    funext f p
    simp [writeBatchFile, hcc]
  have hres : (exportToFiles canCreate nameOf cfg size chunks fs).2 = .ok := by
    simp only [exportToFiles, batchExportRunInt, h0, dite_true, hrun, hall.1, BatchResult.toI]
  refine ⟨hres, ?_, ?_⟩ <;> rw [hfs]
  all_goals
    have hnum : ∀ (k : Nat) (b : Batch Chunk), bs[k]? = some b → b.batchNumber = k := batch_numbers size.toNat chunks bs hbs
    have hnames : ((batchRun (exportToStringR cfg) (fun b _ => canCreate (nameOf b.batchNumber)) bs).1.map
        (fun p => (nameOf p.1.batchNumber, p.2))).map (·.1) = (List.range bs.length).map nameOf := by
      rw [List.map_map]
      have : (fun p : Batch Chunk × Str => nameOf p.1.batchNumber) = (fun b : Batch Chunk => nameOf b.batchNumber) ∘ (·.1) := rfl
      rw [show ((fun x : Str × Str => x.1) ∘ fun p : Batch Chunk × Str => (nameOf p.1.batchNumber, p.2)) =
        (fun b : Batch Chunk => nameOf b.batchNumber) ∘ (·.1) from rfl, ← List.map_map, hall.2]
      apply List.ext_getElem?
      intro k
      simp only [List.getElem?_map, List.getElem?_range]
      cases hb : bs[k]? with
      | none =>
        have : ¬ k < bs.length := by
          intro hlt
          rw [List.getElem?_eq_getElem hlt] at hb; cases hb
        simp [this]
      | some b =>
        have hlt : k < bs.length := by
          cases hk : decide (k < bs.length) with
          | true => exact of_decide_eq_true hk
          | false =>
            have : bs[k]? = none := List.getElem?_eq_none (by have := of_decide_eq_false hk; omega)
            rw [this] at hb; cases hb
        simp [hlt, hnum k b hb]
    have hnodup : (((batchRun (exportToStringR cfg) (fun b _ => canCreate (nameOf b.batchNumber)) bs).1.map
        (fun p => (nameOf p.1.batchNumber, p.2))).map (·.1)).Nodup := by
      rw [hnames]
      exact nodup_map_inj nameOf hinj _ List.nodup_range
    obtain ⟨hw1, hw2⟩ := fsRead_foldl_writes _ hnodup fs
  · intro k b hb
    -- the k-th call is (b, data) with data the export of b's items
    have hk : ((batchRun (exportToStringR cfg) (fun b _ => canCreate (nameOf b.batchNumber)) bs).1.map (·.1))[k]? = some b := by
      rw [hall.2]; exact hb
    rw [List.getElem?_map] at hk
    cases hp : (batchRun (exportToStringR cfg) (fun b _ => canCreate (nameOf b.batchNumber)) bs).1[k]? with
    | none => rw [hp] at hk; cases hk
    | some p =>
      rw [hp] at hk
      simp only [Option.map_some, Option.some.injEq] at hk
      have hmem := List.mem_of_getElem? hp
      have := hw1 (nameOf p.1.batchNumber, p.2) (List.mem_map.mpr ⟨p, hmem, rfl⟩)
      simp only at this
      rw [hk, hnum k b hb] at this
      rw [this, ← hk, hdata p hmem]
  · intro name hname
    apply hw2
    rw [hnames]
    intro hmem
    obtain ⟨k, hk, e⟩ := List.mem_map.mp hmem
    exact hname k (List.mem_range.mp hk) e

example : ∀ l, (exportToStringR jsonlExportConfig l).isSome = true := fun _ => rfl

/-- … and for a full JSON / JSON Lines configuration each file decodes to exactly the chunks of
its batch: together, in batch order, the collection -/
theorem files_same_chunks (canCreate : Str → Bool) (nameOf : Nat → Str) (cfg : Config)
    (hf : cfg.format = .json ∨ cfg.format = .jsonl)
    (ht : cfg.includeText = true) (hm : cfg.includeMetadata = true) (hfl : cfg.metadataFields = none)
    (size : Int) (hs : 1 ≤ size) (chunks : List Chunk) (fs : FS)
    (hv : ∀ c ∈ chunks, chunkValid c = true) (hn : ∀ c ∈ chunks, chunkNormal c = true)
    (hcc : ∀ k, canCreate (nameOf k) = true) (hinj : ∀ i j, nameOf i = nameOf j → i = j) :
    ∃ bs, batchExport size.toNat chunks = some bs ∧ bs.flatMap (·.items) = chunks ∧
      ∀ k b, bs[k]? = some b →
        (fsRead (exportToFiles canCreate nameOf cfg size chunks fs).1 (nameOf k)).bind (decodeExportR cfg) = some b.items := by
  have hsame : ∀ l, exportToStringR cfg l = exportToString cfg l := by
    intro l; rcases hf with h | h <;> simp [exportToStringR, exportToString, h]
  have hdecsame : ∀ t, decodeExportR cfg t = decodeExport cfg t := by
    intro t; rcases hf with h | h <;> simp only [decodeExportR, decodeExport, h] <;> rfl
  have hexp : ∀ l, (exportToStringR cfg l).isSome = true := by
    intro l; rcases hf with h | h <;> simp [exportToStringR, h]
  obtain ⟨bs, h1, h2, _, h4, _⟩ := export_to_files_history canCreate nameOf cfg size hs chunks fs hexp hcc hinj
  refine ⟨bs, h1, h2, ?_⟩
  intro k b hb
  rw [h4 k b hb, hsame]
  have hmem : ∀ c ∈ b.items, c ∈ chunks := by
    intro c hc
    rw [← h2]
    exact List.mem_flatMap.mpr ⟨b, List.mem_of_getElem? hb, hc⟩
  obtain ⟨text, e1, e2⟩ := export_json_identity cfg hf ht hm hfl b.items
    (fun c hc => hv c (hmem c hc)) (fun c hc => hn c (hmem c hc))
  rw [e1]
  simp only [Option.bind_some, hdecsame, e2]

/-- why the names must differ: with a pattern that yields the same name for every batch (e.g. a
bad argument index), every batch overwrites the previous one — only the last batch survives.
(A misuse by the caller; with `%d` the names differ.) -/
theorem files_name_collision_counterexample :
    let c1 : Chunk := { id := [97], text := [], md := {} }
    let c2 : Chunk := { id := [98], text := [], md := {} }
    let r := exportToFiles (fun _ => true) (fun _ => [120]) jsonlExportConfig 1 [c1, c2] []
    r.2 = .ok ∧ r.1 = [([120], exportJSONLText jsonlExportConfig [c2])] := by
  intro c1 c2
  simp only [exportToFiles, batchExportRunInt]
  have h0 : 0 < (1 : Int).toNat := by decide
  simp only [h0, dite_true]
  rw [batchLoopRun.eq_1]
  simp only [List.length_cons, List.length_nil, Nat.zero_add, Nat.reduceAdd, Nat.lt_add_one, dite_true]
  rw [batchLoopRun.eq_1]
  rw [batchLoopRun.eq_1]
  simp (decide := true) [exportToStringR, jsonlExportConfig, defaultExportConfig, writeBatchFile, fsWrite, BatchResult.toI]

/-! ## format names -/

/-- `ExportFormat.String` / `FileExtension`: the four formats have four different names, the extension
of a supported format is `.` + its name, and exactly the values outside 0..3 are "unknown" / `.txt`
— the values for which `Export` returns "unsupported export format" (`export_error_iff`). -/
theorem format_names (i : Int) :
    (∀ f g : Format, formatString f = formatString g → f = g) ∧
    (∀ f : Format, f ≠ .other → fileExtension f = 46 :: formatString f) ∧
    (formatOfInt i = .other ↔ (i < 0 ∨ 3 < i)) ∧
    (formatString (formatOfInt i) = kUnknown ↔ (i < 0 ∨ 3 < i)) := by
  refine ⟨?_, ?_, ?_, ?_⟩
  · intro f g; cases f <;> cases g <;> decide
  · intro f hf; cases f <;> first | rfl | exact absurd rfl hf
  · unfold formatOfInt
    constructor
    · intro h
      by_cases h0 : i = 0
      · simp [h0] at h
      · by_cases h1 : i = 1
        · simp [h1] at h
        · by_cases h2 : i = 2
          · simp [h2] at h
          · by_cases h3 : i = 3
            · simp [h3] at h
            · omega
    · intro h
      have h0 : ¬ i = 0 := by omega
      have h1 : ¬ i = 1 := by omega
      have h2 : ¬ i = 2 := by omega
      have h3 : ¬ i = 3 := by omega
      simp [h0, h1, h2, h3]
  · unfold formatOfInt
    constructor
    · intro h
      by_cases h0 : i = 0
      · subst h0; exact absurd h (by decide)
      · by_cases h1 : i = 1
        · subst h1; exact absurd h (by decide)
        · by_cases h2 : i = 2
          · subst h2; exact absurd h (by decide)
          · by_cases h3 : i = 3
            · subst h3; exact absurd h (by decide)
            · omega
    · intro h
      have h0 : ¬ i = 0 := by omega
      have h1 : ¬ i = 1 := by omega
      have h2 : ¬ i = 2 := by omega
      have h3 : ¬ i = 3 := by omega
      simp [h0, h1, h2, h3, formatString]

end Tabula.C14IO
