import TabulaModel.Model.BuilderAuto
import TabulaModel.Props.C10
import TabulaModel.Props.C10Life
import TabulaModel.Props.C10Hist
import TabulaModel.Props.C10E2E
/-!
# C10 — WHICH error: the builder error through every call, the page named by the range error

The other files prove when an operation fails.  This one proves what it reports, as a function
of the call history (`Model/BuilderAuto.lean`, second part; compared with the messages of the
implementation by the ops `c10.ecls` and `c10.rerr`):

* **builder_error_carried** — `e.err` as a value: every configuration method hands it on
  unchanged (`clone` copies it; `PageRange` sets it only `if newExt.err == nil`), so the error
  of a chain is its FIRST inverted range, whatever follows;
* **first_bad_spec**, **resolve_error_iff** — `resolvePages` fails iff some number of the list is
  outside `1..n`, and the page it names is the first such number in call order (duplicates and
  ranges expanded in the order the calls appended them);
* **open_err_iff** — the five ways `ensureReader` refuses a file are exactly the negation of
  `openOkOf`;
* **err_class_consistent**, **err_class_of_history** — an operation fails iff the error model
  names an error, after any history;
* **range_error_end_to_end**, **builder_error_end_to_end**, **error_precedence** — after any
  history, a well-formed chain that names a page outside an n-page PDF makes every terminal
  operation report "page p out of range (1-n)" for the first outside page p of the chain; a
  chain with an inverted range makes every operation report that range — before the file is
  even looked at.
-/
namespace Tabula.C10Err
open Tabula.PageSel Tabula.Builder Tabula.BuilderAuto

/-! ## the builder error as a value -/

theorem deriveErr_some (x : Int × Int) (c : BCall) : deriveErr (some x) c = some x := by
  cases c <;> simp only [deriveErr] <;> (try split) <;> rfl

theorem chainErr_some (x : Int × Int) (cs : List BCall) : chainErr (some x) cs = some x := by
  induction cs with
  | nil => rfl
  | cons c cs ih =>
    show chainErr (deriveErr (some x) c) cs = some x
    rw [deriveErr_some, ih]

theorem chainErr_cons (err : Option (Int × Int)) (c : BCall) (cs : List BCall) :
    chainErr err (c :: cs) = chainErr (deriveErr err c) cs := rfl

theorem chainErr_none (cs : List BCall) : chainErr none cs = firstInverted cs := by
  induction cs with
  | nil => rfl
  | cons c cs ih =>
    rw [chainErr_cons]
    cases c with
    | pageRange s t =>
      by_cases h : s > t
      · simp only [deriveErr, firstInverted, h, if_true, Option.isNone_none, chainErr_some]
      · simp only [deriveErr, firstInverted, h, if_false, ih]
    | _ => simpa only [deriveErr, firstInverted] using ih

theorem badRange_eq_firstInverted (cs : List BCall) : badRange cs = (firstInverted cs).isSome := by
  induction cs with
  | nil => rfl
  | cons c cs ih =>
    cases c with
    | pageRange s t =>
      by_cases h : s > t
      · simp [badRange, firstInverted, h]
      · simp [badRange, firstInverted, h, ih]
    | _ => simpa only [badRange, firstInverted] using ih

/-- **builder_error_carried**: through any chain of configuration methods (each of which clones
its receiver) an error that is set stays the same error; starting without one, the chain's error
is its first inverted `PageRange`; and the flag of the extractor record is set exactly when that
value exists. -/
theorem builder_error_carried (e0 : Ext) (cs : List BCall) (x : Int × Int) :
    chainErr (some x) cs = some x ∧
    chainErr none cs = firstInverted cs ∧
    (chainFrom e0 cs).err = (e0.err || (firstInverted cs).isSome) := by
  refine ⟨chainErr_some x cs, chainErr_none cs, ?_⟩
  rw [(C10E2E.chain_cfg cs e0).2.1, badRange_eq_firstInverted]

example : chainErr none [.pages [9], .pageRange 5 3, .byColumn, .pageRange 2 1, .pages [1]] = some (5, 3) ∧
    (chainFrom {} [.pages [9], .pageRange 5 3, .byColumn, .pageRange 2 1, .pages [1]]).err = true := by
  decide

/-- the later calls of a chain cannot change or clear its error -/
theorem first_error_wins (a b : List BCall) (x : Int × Int) (h : firstInverted a = some x) :
    firstInverted (a ++ b) = some x := by
  rw [← chainErr_none, chainErr, List.foldl_append]
  have : List.foldl deriveErr none a = some x := by
    have := chainErr_none a; unfold chainErr at this; rw [this, h]
  rw [this]
  exact chainErr_some x b

/-! ## the page the range error names -/

theorem firstBad_none_iff (n : Nat) (sel : List Int) : firstBad n sel = none ↔ InRange sel n := by
  induction sel with
  | nil => simp [firstBad, InRange]
  | cons p ps ih =>
    unfold firstBad
    constructor
    · intro h
      split at h
      · cases h
      · rename_i hp
        intro q hq
        simp only [List.mem_cons] at hq
        rcases hq with rfl | hq
        · omega
        · exact (ih.mp h) q hq
    · intro h
      have hp := h p (by simp)
      have : ¬ (p < 1 ∨ p > (n : Int)) := by omega
      rw [if_neg this]
      exact ih.mpr (fun q hq => h q (List.mem_cons_of_mem _ hq))

/-- **first_bad_spec**: the page named is outside `1..n`, it is in the list, and everything
before it (in call order) is inside — so it is the FIRST outside page. -/
theorem first_bad_spec (n : Nat) (sel : List Int) (p : Int) (h : firstBad n sel = some p) :
    (p < 1 ∨ p > (n : Int)) ∧ ∃ pre post, sel = pre ++ p :: post ∧ InRange pre n := by
  induction sel with
  | nil => cases h
  | cons q qs ih =>
    unfold firstBad at h
    split at h
    · rename_i hq
      cases h
      exact ⟨hq, [], qs, rfl, by intro x hx; cases hx⟩
    · rename_i hq
      obtain ⟨hp, pre, post, hsel, hpre⟩ := ih h
      refine ⟨hp, q :: pre, post, by rw [hsel]; rfl, ?_⟩
      intro x hx
      simp only [List.mem_cons] at hx
      rcases hx with rfl | hx
      · omega
      · exact hpre x hx

/-- **resolve_error_iff**: `resolvePages` returns the range error iff the list has a first
outside page (an empty list never fails). -/
theorem resolve_error_iff (sel : List Int) (n : Nat) :
    resolvePages sel n = .error .range ↔ (firstBad n sel).isSome = true := by
  by_cases hne : sel = []
  · subst hne; simp [firstBad, resolvePages]
  · by_cases hr : InRange sel n
    · rw [(C10.resolve_spec sel n hne).1 hr, (firstBad_none_iff n sel).mpr hr]; simp
    · rw [(C10.resolve_spec sel n hne).2 hr]
      cases hb : firstBad n sel with
      | none => exact absurd ((firstBad_none_iff n sel).mp hb) hr
      | some p => simp

example : firstBad 3 [2, 3, 7, 0, 2] = some 7 ∧ resolvePages [2, 3, 7, 0, 2] 3 = .error .range := by decide

/-! ## opening -/

/-- **open_err_iff**: `ensureReader` names one of its five errors exactly when `openOkOf` is
false -/
theorem open_err_iff (f : FileFacts) (fmt : Fmt) : (openErrOf f fmt).isNone = openOkOf f fmt := by
  rcases f with ⟨p, d, o⟩
  cases p <;> cases o <;> cases fmt <;> cases d with
  | none => rfl
  | some d => cases d <;> rfl

/-! ## failing = naming an error -/

theorem bodyErr_none_iff (w : World) (k : Term) (e : Ext) :
    bodyErr w k e = none ↔ termBodyF w k e ≠ .err := by
  unfold bodyErr termBodyF termBody
  cases hp : w.pageCount with
  | none => simp
  | some n =>
    simp only
    by_cases hf : e.format = .pdf
    · simp only [hf, if_true]
      by_cases hem : e.opts.pages = []
      · rw [hem]
        simp only [List.isEmpty_nil, if_true, C10.resolve_none]
        cases hk : k.needsPages <;> cases n <;> simp [List.range_succ]
      · have hem' : e.opts.pages.isEmpty = false := by
          cases h : e.opts.pages <;> simp_all
        simp only [hem', Bool.false_eq_true, if_false]
        cases hb : firstBad n e.opts.pages with
        | some p =>
          have := (resolve_error_iff e.opts.pages n).mpr (by rw [hb]; rfl)
          simp [this]
        | none =>
          have hr := (firstBad_none_iff n _).mp hb
          rw [(C10.resolve_spec _ n hem).1 hr]
          have hne := C10Life.specPages_ne_nil _ n hem hr
          have : (specPages e.opts.pages n).isEmpty = false := by
            cases h : specPages e.opts.pages n <;> simp_all
          simp [this]
    · simp [hf]

/-- the two descriptions of "looks at the builder error" differ only for an unknown format -/
theorem checksErrE_eq (k : Term) (f : Fmt) (hf : f ≠ .unknown) : checksErrE k f = k.checksErr f := by
  unfold checksErrE Term.checksErr
  cases f <;> simp_all

/-- a file whose name has no known extension is never opened (`openOkOf` is false for it) -/
def UnknownNeverOpens (w : World) (e : Ext) : Prop :=
  e.format = .unknown → e.hasFile = true ∧ w.openOk = false

theorem unknown_never_opens (ff : FileFacts) (pc : Option Nat) (e : Ext) (hf : e.hasFile = true) :
    UnknownNeverOpens ⟨openOkOf ff e.format, pc⟩ e := by
  intro hu
  refine ⟨hf, ?_⟩
  rw [hu]
  simp [openOkOf]

/-- **err_class_consistent**: the error model names an error exactly when the answer proved
for every history (`termStatic`, `nonTermStatic`) is an error. -/
theorem err_class_consistent (w : World) (oe : OpenErr) (e : Ext) (inv : Option (Int × Int))
    (hu : UnknownNeverOpens w e) :
    (∀ k : Term, termErr w oe k e inv = none ↔ termStatic w k e ≠ .err) ∧
    (∀ k : NonTerm, nonTermErr w oe k e inv = none ↔ nonTermStatic w k e ≠ .err) := by
  constructor
  · intro k
    by_cases hf : e.format = .unknown
    · obtain ⟨h1, h2⟩ := hu hf
      unfold termErr termStatic
      cases (checksErrE k e.format && e.err) <;> cases (k.checksErr e.format && e.err) <;>
        cases (k.pdfOnly && e.format != .pdf) <;> simp [h1, h2]
    · unfold termErr termStatic
      rw [checksErrE_eq k e.format hf]
      cases (k.checksErr e.format && e.err) <;> cases (k.pdfOnly && e.format != .pdf) <;>
        cases e.hasFile <;> cases w.openOk <;> simp [bodyErr_none_iff]
  · intro k
    unfold nonTermErr nonTermStatic nonTermBody
    cases e.err <;> cases (k.pdfOnly && e.format != .pdf) <;>
      cases e.hasFile <;> cases w.openOk <;> cases w.pageCount <;> simp <;>
      (cases k <;> simp) <;> (split <;> simp_all)

/-- **err_class_of_history**: after ANY history on the family of `Open(name)`, a terminal or
non-terminal operation on extractor `i` fails iff the error model, applied to the chain of
calls that built `i`, names an error. -/
theorem err_class_of_history (w : World) (oe : OpenErr) (f : Fmt) (hu : f = .unknown → w.openOk = false)
    (ops : List Op) (i : Nat) (cs : List BCall) (hl : (lineage [[]] ops)[i]? = some cs) :
    (∀ k : Term, (terminal w k (exec w (openBaseF f) ops) i).2 = .err ↔
      (errAnswer w oe { format := f } (lineage [[]] ops) (.term i k)).isSome = true) ∧
    (∀ k : NonTerm, (nonTerminal w k (exec w (openBaseF f) ops) i).2 = .err ↔
      (errAnswer w oe { format := f } (lineage [[]] ops) (.nonTerm i k)).isSome = true) := by
  obtain ⟨ht, hn⟩ := C10Hist.answer_of_lineage w f ops i cs hl
  have hcfg := C10E2E.chain_cfg cs { format := f }
  have hun : UnknownNeverOpens w (chainFrom { format := f } cs) := by
    intro h
    rw [hcfg.2.2.1] at h
    exact ⟨by rw [hcfg.2.2.2], hu h⟩
  obtain ⟨ct, cn⟩ := err_class_consistent w oe (chainFrom { format := f } cs) (firstInverted cs) hun
  constructor
  · intro k
    rw [ht k]
    simp only [errAnswer, hl, Option.bind_some]
    have := ct k
    cases h : termErr w oe k (chainFrom { format := f } cs) (firstInverted cs) with
    | none => simp [this.mp h]
    | some c =>
      simp only [Option.isSome_some, iff_true]
      by_cases hs : termStatic w k (chainFrom { format := f } cs) = .err
      · exact hs
      · rw [this.mpr hs] at h; cases h
  · intro k
    rw [hn k]
    simp only [errAnswer, hl, Option.bind_some]
    have := cn k
    cases h : nonTermErr w oe k (chainFrom { format := f } cs) (firstInverted cs) with
    | none => simp [this.mp h]
    | some c =>
      simp only [Option.isSome_some, iff_true]
      by_cases hs : nonTermStatic w k (chainFrom { format := f } cs) = .err
      · exact hs
      · rw [this.mpr hs] at h; cases h

example : UnknownNeverOpens ⟨openOkOf ⟨true, some .unknown, true⟩ .unknown, none⟩ { format := .unknown } ∧
    termErr ⟨false, none⟩ .unsupported .toMarkdown (chainFrom { format := .unknown } [.pageRange 2 1]) (some (2, 1))
      = some (.builder 2 1) := by
  refine ⟨unknown_never_opens _ _ _ rfl, by decide⟩

/-! ## end to end -/

/-- **range_error_end_to_end**: after ANY history on the family of `Open(f)` for a PDF of `n`
pages that opens, an extractor built by a chain without inverted range that names a page outside
the document makes EVERY terminal operation fail, and the error it reports is "page p out of
range (1-n)" where `p` is the first number, in the order the calls appended them, that lies
outside `1..n`. -/
theorem range_error_end_to_end (w : World) (oe : OpenErr) (n : Nat) (hw : w.openOk = true)
    (hn : w.pageCount = some n) (ops : List Op) (i : Nat) (cs : List BCall)
    (hl : (lineage [[]] ops)[i]? = some cs) (hgood : firstInverted cs = none)
    (p : Int) (hp : firstBad n (selOf cs) = some p) (k : Term) :
    errAnswer w oe { format := .pdf } (lineage [[]] ops) (.term i k) = some (.range p n) ∧
    (terminal w k (exec w (openBaseF .pdf) ops) i).2 = .err := by
  obtain ⟨hpages, herr, hfmt, hfile⟩ := C10E2E.chain_cfg cs { format := .pdf }
  have hbad : badRange cs = false := by rw [badRange_eq_firstInverted, hgood]; rfl
  have hsel : (chainFrom { format := .pdf } cs).opts.pages = selOf cs := by simpa using hpages
  have hne : selOf cs ≠ [] := by intro h; rw [h] at hp; cases hp
  have hcls : termErr w oe k (chainFrom { format := .pdf } cs) (firstInverted cs) = some (.range p n) := by
    unfold termErr bodyErr
    have hf : (chainFrom { format := .pdf } cs).format = .pdf := hfmt
    have he : (chainFrom { format := .pdf } cs).err = false := by rw [herr, hbad]; rfl
    have hem : (selOf cs).isEmpty = false := by cases h : selOf cs <;> simp_all
    simp [hf, he, hw, hn, hsel, hem, hp]
  refine ⟨by simp only [errAnswer, hl, Option.bind_some]; exact hcls, ?_⟩
  apply ((err_class_of_history w oe .pdf (by intro h; cases h) ops i cs hl).1 k).mpr
  simp only [errAnswer, hl, Option.bind_some, hcls, Option.isSome_some]

example : let w : World := ⟨true, some 3⟩
    let ops := [Op.nonTerm 0 .pageCount, .derive 0 (.pages [2, 3]), .term 0 .text, .derive 1 (.pageRange 3 5),
      .derive 2 (.pages [0])]
    (lineage [[]] ops)[3]? = some [.pages [2, 3], .pageRange 3 5, .pages [0]] ∧
    firstBad 3 (selOf [.pages [2, 3], .pageRange 3 5, .pages [0]]) = some 4 ∧
    errAnswer w .parse { format := .pdf } (lineage [[]] ops) (.term 3 .lines) = some (.range 4 3) := by decide

/-- **builder_error_end_to_end**: after ANY history, whatever the file is (missing, of another
format, unreadable), an extractor whose chain has an inverted `PageRange` makes every terminal
operation that looks at the builder error, and every non-terminal one, report "invalid page range
s-t" for the FIRST inverted range of the chain — whatever else the chain contains. -/
theorem builder_error_end_to_end (w : World) (oe : OpenErr) (f : Fmt) (ops : List Op) (i : Nat)
    (cs : List BCall) (hl : (lineage [[]] ops)[i]? = some cs) (s t : Int)
    (hinv : firstInverted cs = some (s, t)) :
    (∀ k : Term, checksErrE k f = true →
      errAnswer w oe { format := f } (lineage [[]] ops) (.term i k) = some (.builder s t)) ∧
    (∀ k : NonTerm, errAnswer w oe { format := f } (lineage [[]] ops) (.nonTerm i k) = some (.builder s t)) := by
  obtain ⟨_, herr, hfmt, _⟩ := C10E2E.chain_cfg cs { format := f }
  have he : (chainFrom { format := f } cs).err = true := by
    rw [herr, badRange_eq_firstInverted, hinv]; rfl
  have hf : (chainFrom { format := f } cs).format = f := hfmt
  constructor
  · intro k hk
    simp only [errAnswer, hl, Option.bind_some, termErr, hf, hk, he, Bool.and_self, if_true, hinv]
  · intro k
    simp only [errAnswer, hl, Option.bind_some, nonTermErr, he, if_true, hinv]

/-- **error_precedence**: the order in which an operation can fail, as a chain of implications
on the error model: a builder error hides everything; a file that does not open hides the
format error of `ensurePDFReader`; that hides whatever `resolvePages` would say. -/
theorem error_precedence (w : World) (oe : OpenErr) (k : Term) (e : Ext) (inv : Option (Int × Int)) :
    (∀ p n, termErr w oe k e inv = some (.range p n) →
      (checksErrE k e.format && e.err) = false ∧ (e.hasFile && !w.openOk) = false ∧
      (k.pdfOnly && e.format != .pdf) = false ∧ e.format = .pdf ∧ w.pageCount = some n ∧
      firstBad n e.opts.pages = some p) ∧
    (termErr w oe k e inv = some .pdfOnly →
      (checksErrE k e.format && e.err) = false ∧ (e.hasFile && !w.openOk) = false) := by
  refine ⟨?_, ?_⟩
  · intro p n h
    unfold termErr at h
    cases hc : (checksErrE k e.format && e.err) with
    | true => rw [hc] at h; simp only [if_true] at h; cases hi : inv <;> rw [hi] at h <;> simp at h
              all_goals (rename_i x; cases x; simp at h)
    | false =>
      rw [hc] at h
      cases ho : (e.hasFile && !w.openOk) with
      | true => rw [ho] at h; simp at h
      | false =>
        rw [ho] at h
        cases hm : (k.pdfOnly && e.format != .pdf) with
        | true => rw [hm] at h; simp at h
        | false =>
          rw [hm] at h
          simp only [Bool.false_eq_true, if_false] at h
          unfold bodyErr at h
          cases hp : w.pageCount with
          | none => rw [hp] at h; simp only at h; split at h <;> simp at h
          | some m =>
            rw [hp] at h
            simp only at h
            by_cases hf : e.format = .pdf
            · rw [if_pos hf] at h
              split at h
              · split at h <;> simp at h
              · cases hb : firstBad m e.opts.pages with
                | none => rw [hb] at h; simp at h
                | some q =>
                  rw [hb] at h
                  simp only [Option.some.injEq, EClass.range.injEq] at h
                  obtain ⟨rfl, rfl⟩ := h
                  exact ⟨rfl, rfl, rfl, hf, rfl, hb⟩
            · rw [if_neg hf] at h; cases h
  · intro h
    unfold termErr at h
    cases hc : (checksErrE k e.format && e.err) with
    | true => rw [hc] at h; simp only [if_true] at h; cases hi : inv <;> rw [hi] at h <;> simp at h
              all_goals (rename_i x; cases x; simp at h)
    | false =>
      rw [hc] at h
      cases ho : (e.hasFile && !w.openOk) with
      | true => rw [ho] at h; simp at h
      | false => exact ⟨rfl, rfl⟩

end Tabula.C10Err
