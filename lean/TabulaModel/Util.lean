/-
Line-protocol helpers shared by all handlers. Core Lean only.
Bytes travel as lower-case hex ("-" for the empty string); lists of byte
strings as comma-separated hex.
-/
namespace Tabula

abbrev Bytes := List UInt8

def hexDigitVal (c : Char) : Option Nat :=
  if '0' ≤ c ∧ c ≤ '9' then some (c.toNat - '0'.toNat)
  else if 'a' ≤ c ∧ c ≤ 'f' then some (c.toNat - 'a'.toNat + 10)
  else if 'A' ≤ c ∧ c ≤ 'F' then some (c.toNat - 'A'.toNat + 10)
  else none

def unhexAux : List Char → List UInt8 → Option (List UInt8)
  | [], acc => some acc.reverse
  | [_], _ => none
  | a :: b :: rest, acc =>
    match hexDigitVal a, hexDigitVal b with
    | some x, some y => unhexAux rest (UInt8.ofNat (x * 16 + y) :: acc)
    | _, _ => none

def unhex (s : String) : Option Bytes :=
  if s == "-" then some [] else unhexAux s.toList []

def hexChar (n : Nat) : Char :=
  if n < 10 then Char.ofNat (n + 48) else Char.ofNat (n - 10 + 97)

def hexByte (b : UInt8) : List Char := [hexChar (b.toNat / 16), hexChar (b.toNat % 16)]

def hex (bs : Bytes) : String :=
  if bs.isEmpty then "-" else String.ofList (bs.flatMap hexByte)

def bytesToString (bs : Bytes) : String := String.ofList (bs.map (fun b => Char.ofNat b.toNat))

def stringToBytes (s : String) : Bytes := s.toUTF8.toList

def splitArgs (line : String) : List String :=
  (line.splitOn " ").filter (· ≠ "")

def intOfString? (s : String) : Option Int := s.toInt?

end Tabula
