import TabulaModel.Lemmas.Traverse
import TabulaModel.Model.HtmlOld
/-!
The refinement proof of Lemmas/Traverse.lean as it stood before fix 75d57dc, for the old
traversal `travOld` against the old specification `atomsOld` (Model/HtmlOld.lean).  Used only
to relate the old output to the repaired one (Props/C19Repair.lean).
-/
namespace Tabula.Html

mutual
theorem travOld_refines (p : Pos → Dom → Bool) (w : Bool) :
    ∀ (t : Dom) (pos : Pos) (s : St), s.ok → Refines s (travOld p w pos t s) (atomsOld p w pos s.lc t)
  | .text _, pos, s, h => by
      simp only [travOld, atomsOld]; exact Refines.rfl' s h
  | .other kids, pos, s, h => by
      simp only [travOld, atomsOld]; exact travLOld_refines p w kids _ s h
  | .elem tag attrs kids, pos, s, h => by
      unfold travOld atomsOld
      by_cases hs : isSkip tag = true
      · simp only [hs, if_true]; exact Refines.rfl' s h
      · by_cases hp : p pos (.elem tag attrs kids) = true
        · simp only [hs, hp, if_true, if_false, Bool.false_eq_true]; exact Refines.rfl' s h
        · simp only [hs, hp, if_false, Bool.false_eq_true]
          cases hc : classify tag with
          | heading lvl =>
            simp only []
            split
            · exact refines_flush_emit s h _
            · exact refines_flush s h
          | pdiv isP =>
            simp only []
            have h1 : Refines s (if isP = true then flushList s else s) [] := by
              split
              · exact refines_flush s h
              · exact Refines.rfl' s h
            by_cases hcnd : (trim (getTextContent (.elem tag attrs kids)) != [] && !isBlockContainer kids) = true
            · simp only [hcnd, if_true]
              have := h1.trans (refines_flush_emit _ h1.ok (.para (trim (getTextContent (.elem tag attrs kids)))))
              simpa [Element.atoms] using this
            · simp only [hcnd, if_false, Bool.false_eq_true]
              have h2 := travLOld_refines p w kids (pos.kid w tag) _ h1.ok
              rw [h1.lc] at h2
              simpa using h1.trans h2
          | list ord =>
            simp only []
            have he := listEnter_facts ord s h
            have h2 := travLOld_refines p w kids (pos.kid w tag) _ he.2.2.2
            rw [he.2.2.1] at h2
            exact listExit_refines ord s _ _ h he.1 he.2.1 h2
          | li =>
            simp only []
            by_cases hin : s.inList = true
            · simp only [hin, if_true]
              have hh := liHead_refines kids s hin
              have hok : (liHead kids s).ok := by intro hi; rw [hh.2.1] at hi; cases hi
              have h2 := travLiOld_refines p w kids (pos.kid w tag) _ hok
              have hlc : (liHead kids s).lc = ⟨true, s.lc.enter.level + 1⟩ := by
                simp [St.lc, LC.enter, hh.2.1, hh.2.2, hin]
              rw [hlc] at h2
              have hlvl : s.lc.enter.level = s.level := by simp [St.lc, LC.enter, hin]
              rw [hlvl] at h2 ⊢
              refine ⟨?_, ?_, ?_, ?_⟩
              · show (liExit _).flat = _
                have : ∀ x : St, (liExit x).flat = x.flat := fun x => rfl
                rw [this, h2.flat, hh.1, List.append_assoc]
              · show (liExit _).inList = _
                have : ∀ x : St, (liExit x).inList = x.inList := fun x => rfl
                rw [this, h2.inList, hh.2.1, hin]
              · show (liExit _).level = _
                have : ∀ x : St, (liExit x).level = x.level - 1 := fun x => rfl
                rw [this, h2.level, hh.2.2]; omega
              · intro hi
                have : ∀ x : St, (liExit x).inList = x.inList := fun x => rfl
                rw [this, h2.inList, hh.2.1] at hi; cases hi
            · have hin' : s.inList = false := by simpa using hin
              simp only [hin', Bool.false_eq_true, if_false]
              have hs0 := h hin'
              have hin0 : (strayEnter s).inList = true := rfl
              have hh := liHead_refines kids (strayEnter s) hin0
              have hok : (liHead kids (strayEnter s)).ok := by intro hi; rw [hh.2.1] at hi; cases hi
              have h2 := travLiOld_refines p w kids (pos.kid w tag) _ hok
              have hlc : (liHead kids (strayEnter s)).lc = ⟨true, s.lc.enter.level + 1⟩ := by
                have e : s.lc.enter.level = 0 := by simp [St.lc, LC.enter, hin']
                rw [e]; unfold St.lc; rw [hh.2.1, hh.2.2]; rfl
              rw [hlc] at h2
              have hlvl : s.lc.enter.level = 0 := by simp [St.lc, LC.enter, hin']
              have hlvl0 : (strayEnter s).level = 0 := rfl
              have hflat0 : (strayEnter s).flat = s.flat := by simp [strayEnter, St.flat, hs0.1]
              rw [hlvl] at h2 ⊢
              rw [hlvl0] at hh
              have hx_in : (liExit (travLiOld p w (pos.kid w tag) kids (liHead kids (strayEnter s)))).inList = true := by
                show (travLiOld p w (pos.kid w tag) kids (liHead kids (strayEnter s))).inList = true
                rw [h2.inList, hh.2.1]
              have hx_ok : (liExit (travLiOld p w (pos.kid w tag) kids (liHead kids (strayEnter s)))).ok := by
                intro hi; rw [hx_in] at hi; cases hi
              refine ⟨?_, ?_, ?_, ?_⟩
              · have e1 : ∀ x : St, x.ok → (strayExit x).flat = x.flat := by
                  intro x hx
                  have := flushList_flat x
                  have hi := flushList_items x hx
                  simp only [strayExit, St.flat] at this ⊢
                  rw [hi] at this
                  simpa using this
                rw [e1 _ hx_ok]
                show (travLiOld p w (pos.kid w tag) kids (liHead kids (strayEnter s))).flat = _
                rw [h2.flat, hh.1, hflat0, List.append_assoc]
              · show false = s.inList
                exact hin'.symm
              · show (flushList (liExit (travLiOld p w (pos.kid w tag) kids (liHead kids (strayEnter s))))).level = s.level
                rw [flushList_level]
                show (travLiOld p w (pos.kid w tag) kids (liHead kids (strayEnter s))).level - 1 = s.level
                rw [h2.level, hh.2.2, hs0.2]
              · intro _
                refine ⟨rfl, ?_⟩
                show (flushList (liExit (travLiOld p w (pos.kid w tag) kids (liHead kids (strayEnter s))))).level = 0
                rw [flushList_level]
                show (travLiOld p w (pos.kid w tag) kids (liHead kids (strayEnter s))).level - 1 = 0
                rw [h2.level, hh.2.2]
          | table =>
            simp only []
            by_cases hr : ((parseTable kids).1 != []) = true
            · simp only [hr, if_true]
              have := refines_flush_emit s h (.table (parseTable kids).2 (parseTable kids).1)
              simpa [Element.atoms] using this
            · simp only [hr, if_false, Bool.false_eq_true]
              have he : (parseTable kids).1 = [] := by simpa using hr
              have := refines_flush s h
              simpa [he] using this
          | code =>
            simp only []
            split
            · have := refines_flush_emit s h (.code (getTextContent (.elem tag attrs kids)))
              simpa [Element.atoms] using this
            · exact Refines.rfl' s h
          | quote =>
            simp only []
            split
            · have := refines_flush_emit s h (.quote (trim (getTextContent (.elem tag attrs kids))))
              simpa [Element.atoms] using this
            · exact Refines.rfl' s h
          | void => simp only []; exact Refines.rfl' s h
          | other => simp only []; exact travLOld_refines p w kids _ s h
theorem travLOld_refines (p : Pos → Dom → Bool) (w : Bool) :
    ∀ (ts : List Dom) (kp : Pos) (s : St), s.ok → Refines s (travLOld p w kp ts s) (atomsLOld p w kp s.lc ts)
  | [], kp, s, h => by simp only [travLOld, atomsLOld]; exact Refines.rfl' s h
  | k :: ks, kp, s, h => by
      simp only [travLOld, atomsLOld]
      have h1 := travOld_refines p w k kp s h
      have h2 := travLOld_refines p w ks kp _ h1.ok
      rw [h1.lc] at h2
      exact h1.trans h2
theorem travLiOld_refines (p : Pos → Dom → Bool) (w : Bool) :
    ∀ (ts : List Dom) (kp : Pos) (s : St), s.ok → Refines s (travLiOld p w kp ts s) (atomsLiOld p w kp s.lc ts)
  | [], kp, s, h => by simp only [travLiOld, atomsLiOld]; exact Refines.rfl' s h
  | k :: ks, kp, s, h => by
      simp only [travLiOld, atomsLiOld]
      by_cases hk : isListElem k = true
      · simp only [hk, if_true]
        have h1 := travOld_refines p w k kp s h
        have h2 := travLiOld_refines p w ks kp _ h1.ok
        rw [h1.lc] at h2
        exact h1.trans h2
      · simp only [hk, if_false, Bool.false_eq_true, List.nil_append]
        exact travLiOld_refines p w ks kp s h
end


theorem extractOld_flatten (p : Pos → Dom → Bool) (body : Dom) :
    flatten (extractOldWith p body) = atomsOldOf p body := by
  unfold extractOldWith atomsOldOf
  have h0 : ({} : St).ok := fun _ => ⟨rfl, rfl⟩
  have h := travOld_refines p (hasWrapper body) body .root {} h0
  have hf := flushList_flat (travOld p (hasWrapper body) .root body {})
  have hi := flushList_items _ h.ok
  have e : (flushList (travOld p (hasWrapper body) .root body {})).flat =
      flatten (flushList (travOld p (hasWrapper body) .root body {})).out := by
    simp [St.flat, hi]
  rw [← e, hf, h.flat]
  simp [St.flat, St.lc, flatten]

end Tabula.Html
