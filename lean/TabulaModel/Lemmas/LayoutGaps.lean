import TabulaModel.Model.LayoutGaps
/-
Helper lemmas for `Props/C09Gaps.lean`: the difference array of 541d4a6 summed once is the
per-bucket count of the loop it replaced; lengths; the guard of 988a551 in plain terms.
-/
namespace Tabula.Layout

/-! ## `scan` of a point update is a suffix update -/

/-- `v` added to every entry at index `≥ s` -/
def addFrom : Nat → Int → List Int → List Int
  | _, _, [] => []
  | 0, v, x :: xs => (x + v) :: addFrom 0 v xs
  | s + 1, v, x :: xs => x :: addFrom s v xs

theorem scan_shift (a v : Int) (xs : List Int) : scan (a + v) xs = addFrom 0 v (scan a xs) := by
  induction xs generalizing a with
  | nil => rfl
  | cons x xs ih =>
    simp only [scan, addFrom]
    have h : a + v + x = a + x + v := by omega
    rw [h, ih]

theorem scan_addAt (acc : Int) (s : Nat) (v : Int) (d : List Int) :
    scan acc (addAt s v d) = addFrom s v (scan acc d) := by
  induction d generalizing s acc with
  | nil => cases s <;> rfl
  | cons x xs ih =>
    cases s with
    | zero =>
      simp only [addAt, scan, addFrom]
      have h : acc + (x + v) = acc + x + v := by omega
      rw [h, scan_shift]
    | succ s => simp only [addAt, scan, addFrom, ih]

theorem scan_bump (d : List Int) (r : Nat × Nat) :
    scan 0 (bump d r) = addFrom (r.2 + 1) (-1) (addFrom r.1 1 (scan 0 d)) := by
  simp only [bump, scan_addAt]

theorem scan_zeros (n : Nat) : scan 0 (List.replicate n 0) = List.replicate n 0 := by
  induction n with
  | zero => rfl
  | succ n ih => simp only [List.replicate_succ, scan, Int.add_zero, ih]

/-! ## pointwise descriptions -/

theorem addFrom_getElem? (s : Nat) (v : Int) (l : List Int) (i : Nat) :
    (addFrom s v l)[i]? = l[i]?.map (fun x => if s ≤ i then x + v else x) := by
  induction l generalizing s i with
  | nil => cases s <;> simp [addFrom]
  | cons x xs ih =>
    cases s with
    | zero =>
      cases i with
      | zero => simp [addFrom]
      | succ i => simp [addFrom, ih]
    | succ s =>
      cases i with
      | zero => simp [addFrom]
      | succ i => simp [addFrom, ih]

theorem incrRange_getElem? (k s e : Nat) (l : List Int) (i : Nat) :
    (incrRange k s e l)[i]? = l[i]?.map (fun x => if s ≤ k + i ∧ k + i ≤ e then x + 1 else x) := by
  induction l generalizing k i with
  | nil => simp [incrRange]
  | cons x xs ih =>
    cases i with
    | zero => simp [incrRange]
    | succ i =>
      simp only [incrRange, List.getElem?_cons_succ, ih]
      have h : k + 1 + i = k + (i + 1) := by omega
      rw [h]

/-- one `++` at the start and one `--` behind the end, summed, is one `++` per bucket of the run
(in the list model a `--` behind the array is a no-op, so `e < nb` is not needed here) -/
theorem addFrom_pair_take (nb s e : Nat) (l : List Int) (hse : s ≤ e) :
    (addFrom (e + 1) (-1) (addFrom s 1 l)).take nb = incrRange 0 s e (l.take nb) := by
  apply List.ext_getElem?
  intro i
  rw [List.getElem?_take, incrRange_getElem?, List.getElem?_take]
  by_cases hi : i < nb
  · simp only [hi, if_true, addFrom_getElem?, Option.map_map]
    congr 1
    funext x
    simp only [Function.comp, Nat.zero_add]
    by_cases h1 : s ≤ i <;> by_cases h2 : e + 1 ≤ i <;> by_cases h3 : i ≤ e <;>
      simp only [h1, h2, h3, if_true, if_false, and_self, and_true, and_false] <;> omega
  · simp [hi]

/-! ## the histogram both ways -/

theorem hist_fold (nb : Nat) (runs : List (Nat × Nat)) (h : ∀ r ∈ runs, r.1 ≤ r.2 ∧ r.2 < nb)
    (d : List Int) :
    (scan 0 (runs.foldl bump d)).take nb
      = runs.foldl (fun h r => incrRange 0 r.1 r.2 h) ((scan 0 d).take nb) := by
  induction runs generalizing d with
  | nil => rfl
  | cons r rs ih =>
    have hr := h r (List.mem_cons_self)
    simp only [List.foldl_cons]
    rw [ih (fun r' hr' => h r' (List.mem_cons_of_mem _ hr')), scan_bump,
      addFrom_pair_take nb r.1 r.2 _ hr.1]

theorem histDiff_eq_histNaive (nb : Nat) (runs : List (Nat × Nat))
    (h : ∀ r ∈ runs, r.1 ≤ r.2 ∧ r.2 < nb) : histDiff nb runs = histNaive nb runs := by
  unfold histDiff histNaive diffArray
  rw [hist_fold nb runs h, scan_zeros, List.take_replicate]
  have : min nb (nb + 1) = nb := by omega
  rw [this]

/-! ## lengths -/

theorem addAt_length (i : Nat) (v : Int) (l : List Int) : (addAt i v l).length = l.length := by
  induction l generalizing i with
  | nil => cases i <;> rfl
  | cons x xs ih => cases i <;> simp [addAt, ih]

theorem scan_length (a : Int) (l : List Int) : (scan a l).length = l.length := by
  induction l generalizing a with
  | nil => rfl
  | cons x xs ih => simp [scan, ih]

theorem bump_length (d : List Int) (r : Nat × Nat) : (bump d r).length = d.length := by
  simp only [bump, addAt_length]

theorem foldl_bump_length (runs : List (Nat × Nat)) (d : List Int) :
    (runs.foldl bump d).length = d.length := by
  induction runs generalizing d with
  | nil => rfl
  | cons r rs ih => simp only [List.foldl_cons, ih, bump_length]

theorem diffArray_length (nb : Nat) (runs : List (Nat × Nat)) :
    (diffArray nb runs).length = nb + 1 := by
  simp only [diffArray, foldl_bump_length, List.length_replicate]

/-! ## the clamps -/

theorem runOf_some (nb : Nat) (f : Frag) (r : Nat × Nat) (h : runOf nb f = some r) :
    r.1 ≤ r.2 ∧ r.2 < nb := by
  unfold runOf at h
  generalize truncInt (f.x / 5) = s at h
  generalize truncInt ((f.x + f.w) / 5) = e at h
  simp only at h
  by_cases hse : (if s < 0 then 0 else s) ≤ (if e ≥ (nb : Int) then (nb : Int) - 1 else e)
  · rw [if_pos hse] at h
    injection h with h
    subst h
    simp only
    split at hse <;> split at hse <;> omega
  · rw [if_neg hse] at h
    cases h

theorem runs_valid (nb : Nat) (fs : List Frag) :
    ∀ r ∈ fs.filterMap (runOf nb), r.1 ≤ r.2 ∧ r.2 < nb := by
  intro r hr
  obtain ⟨f, _, hf⟩ := List.mem_filterMap.mp hr
  exact runOf_some nb f r hf

/-! ## the guard -/

theorem maxBuckets_mul5 : ((maxBuckets : Nat) : Rat) * 5 = 5242880 := by decide +kernel

theorem div5_ge_iff (pw : Rat) : pw / 5 ≥ (maxBuckets : Rat) ↔ pw ≥ 5242880 := by
  have h5 : (0 : Rat) < 5 := by decide +kernel
  have h := @Rat.div_lt_iff pw 5 (maxBuckets : Rat) h5
  rw [maxBuckets_mul5] at h
  constructor
  · intro h1
    exact Rat.not_lt.mp (fun h2 => Rat.not_lt.mpr h1 (h.mpr h2))
  · intro h1
    exact Rat.not_lt.mp (fun h2 => Rat.not_lt.mpr h1 (h.mp h2))

theorem gapsRefused_iff' (pw : Rat) : gapsRefused pw = true ↔ (pw < 0 ∨ pw ≥ 5242880) := by
  unfold gapsRefused
  simp only [Bool.or_eq_true, Bool.not_eq_true', decide_eq_false_iff_not, decide_eq_true_eq]
  rw [div5_ge_iff, ge_iff_le, Rat.not_le]

theorem numBuckets_le (pw : Rat) (h : gapsRefused pw = false) : numBuckets pw ≤ maxBuckets := by
  have h' : ¬ (pw < 0 ∨ pw ≥ 5242880) := by
    rw [← gapsRefused_iff', h]; exact Bool.false_ne_true
  have h0 : ¬ pw < 0 := fun x => h' (Or.inl x)
  have h1 : ¬ pw / 5 ≥ (maxBuckets : Rat) := fun x => h' (Or.inr ((div5_ge_iff pw).mp x))
  have h5 : (0 : Rat) < 5 := by decide +kernel
  have hq : ¬ pw / 5 < 0 := by
    rw [Rat.div_lt_iff h5, Rat.zero_mul]; exact h0
  have hlt : pw / 5 < (((maxBuckets : Nat) : Int) : Rat) := by
    rw [Rat.intCast_natCast]; exact Rat.not_le.mp h1
  have hf : (pw / 5).floor < ((maxBuckets : Nat) : Int) := Rat.floor_lt_iff.mpr hlt
  have hm : 1 ≤ maxBuckets := by decide
  unfold numBuckets truncInt
  rw [if_neg hq]
  omega

/-! ## the cap -/

theorem capGaps_length (maxCols : Nat) (gs : List Gap) (h : 1 ≤ maxCols) :
    (capGaps maxCols gs).length < maxCols := by
  unfold capGaps
  split
  · rw [List.length_take]; omega
  · omega

theorem ite_cap_length (c : Prop) [Decidable c] (maxCols : Nat) (gs : List Gap) (h : 1 ≤ maxCols) :
    (if c then capGaps maxCols gs else []).length < maxCols := by
  split
  · exact capGaps_length _ _ h
  · simp only [List.length_nil]; omega

theorem gapsOfHist_length (minGap : Rat) (maxCols nb : Nat) (hist : List Int) (f0 : Frag)
    (fs : List Frag) (h : 1 ≤ maxCols) :
    (gapsOfHist minGap maxCols nb hist f0 fs).length < maxCols := by
  unfold gapsOfHist
  exact ite_cap_length _ _ _ h

theorem naiveWrites_replicate (nb n : Nat) (h : 0 < nb) :
    naiveWrites (List.replicate n (0, nb - 1)) = n * nb := by
  unfold naiveWrites
  induction n with
  | zero => simp
  | succ n ih =>
    simp only [List.replicate_succ, List.map_cons, List.sum_cons, ih]
    have : nb - 1 + 1 - 0 = nb := by omega
    rw [this, Nat.succ_mul]; omega

end Tabula.Layout
