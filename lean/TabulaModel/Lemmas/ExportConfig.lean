import TabulaModel.Model.ExportRune
import TabulaModel.Lemmas.ExportJson
import TabulaModel.Lemmas.ExportMeta
/-!
Lemmas on which fields of `ExportConfig` an export looks at (`Props/C14Config.lean`).
-/
set_option linter.unusedSimpArgs false
namespace Tabula.Export
open Tabula.Csv (Str)

/-- on chunk metadata `filterMetadata` is the field selection alone — `FlattenMetadata` has nothing
to flatten -/
theorem filterMetadata_unflattened (cfg : Config) (m : Meta) :
    filterMetadata cfg (chunkMetadataToMap m) =
      (match cfg.metadataFields with
       | none => chunkMetadataToMap m
       | some fs => filterFields fs (chunkMetadataToMap m) []) := by
  have hfl := values_flat m
  unfold filterMetadata
  cases hf : cfg.metadataFields with
  | none =>
    simp only
    split
    · exact flatten_chunk_metadata m
    · rfl
  | some fs =>
    obtain ⟨h1, h2, _⟩ := filterFields_spec fs (chunkMetadataToMap m) [] (by simp [mapKeys]) (by simp) hfl
    simp only
    split
    · unfold flattenMetadata
      rw [flattenGo_flat _ [] h2 (by simpa [mapKeys] using h1)]
      simp
    · rfl

/-- two configurations with the same metadata selection give the same metadata map -/
theorem filterMetadata_congr (cfg cfg' : Config) (h : cfg'.metadataFields = cfg.metadataFields) (m : Meta) :
    filterMetadata cfg' (chunkMetadataToMap m) = filterMetadata cfg (chunkMetadataToMap m) := by
  rw [filterMetadata_unflattened, filterMetadata_unflattened, h]

theorem prepare_congr (cfg cfg' : Config) (h1 : cfg'.includeMetadata = cfg.includeMetadata)
    (h2 : cfg'.metadataFields = cfg.metadataFields) (h3 : cfg'.includeText = cfg.includeText) (c : Chunk) :
    prepareChunkForExport cfg' c = prepareChunkForExport cfg c := by
  simp only [prepareChunkForExport, h1, h3, filterMetadata_congr cfg cfg' h2]

theorem exportRecords_congr (cfg cfg' : Config) (h1 : cfg'.includeMetadata = cfg.includeMetadata)
    (h2 : cfg'.metadataFields = cfg.metadataFields) (h3 : cfg'.includeText = cfg.includeText) (chunks : List Chunk) :
    exportRecords cfg' chunks = exportRecords cfg chunks := by
  rw [exportRecords_eq_map, exportRecords_eq_map]
  exact List.map_congr_left (fun c _ => prepare_congr cfg cfg' h1 h2 h3 c)

theorem chunkKeys_congr (cfg cfg' : Config) (h2 : cfg'.metadataFields = cfg.metadataFields) (c : Chunk) :
    chunkKeys cfg' c = chunkKeys cfg c := by
  rw [chunkKeys_eq, chunkKeys_eq, filterMetadata_congr cfg cfg' h2]

theorem collectKeys_congr (cfg cfg' : Config) (h : ∀ c, chunkKeys cfg' c = chunkKeys cfg c) (chunks : List Chunk)
    (keys : List Str) : collectKeys cfg' chunks keys = collectKeys cfg chunks keys := by
  induction chunks generalizing keys with
  | nil => rfl
  | cons c cs ih => simp only [collectKeys, h c, ih]

theorem cellSpec_congr (cfg cfg' : Config) (h1 : cfg'.includeMetadata = cfg.includeMetadata)
    (h2 : cfg'.metadataFields = cfg.metadataFields) (h3 : cfg'.includeText = cfg.includeText)
    (h4 : cfg'.textColumnName = cfg.textColumnName) (h5 : cfg'.chunkIDColumnName = cfg.chunkIDColumnName) (c : Chunk) :
    cellSpec cfg' c = cellSpec cfg c := by
  funext col
  obtain ⟨a1, a2, a3, a4, a5, a6, a7, a8, a9, a10, a11⟩ := cfg
  obtain ⟨b1, b2, b3, b4, b5, b6, b7, b8, b9, b10, b11⟩ := cfg'
  simp only at h1 h2 h3 h4 h5
  subst h1 h2 h3 h4 h5
  rfl

theorem columns_congr (cfg cfg' : Config) (h1 : cfg'.includeMetadata = cfg.includeMetadata)
    (h2 : cfg'.metadataFields = cfg.metadataFields) (h3 : cfg'.includeText = cfg.includeText)
    (h4 : cfg'.textColumnName = cfg.textColumnName) (h5 : cfg'.chunkIDColumnName = cfg.chunkIDColumnName)
    (h6 : cfg'.includeEmbeddings = cfg.includeEmbeddings) (chunks : List Chunk) :
    collectCSVColumns cfg' chunks = collectCSVColumns cfg chunks := by
  simp only [collectCSVColumns, fixedColumns, sortedMetaKeys, h1, h3, h4, h5, h6,
    collectKeys_congr cfg cfg' (chunkKeys_congr cfg cfg' h2)]

theorem csvRecords_congr (marshal : MapSV → Str) (cfg cfg' : Config) (h1 : cfg'.includeMetadata = cfg.includeMetadata)
    (h2 : cfg'.metadataFields = cfg.metadataFields) (h3 : cfg'.includeText = cfg.includeText)
    (h4 : cfg'.textColumnName = cfg.textColumnName) (h5 : cfg'.chunkIDColumnName = cfg.chunkIDColumnName)
    (h6 : cfg'.includeEmbeddings = cfg.includeEmbeddings) (h7 : cfg'.includeHeader = cfg.includeHeader)
    (chunks : List Chunk) :
    exportCSVRecords marshal cfg' chunks = exportCSVRecords marshal cfg chunks := by
  unfold exportCSVRecords
  simp only [csvDataRows_eq_map, chunkToCSVRow_eq_map, getColumnValue_fun, h7,
    columns_congr cfg cfg' h1 h2 h3 h4 h5 h6, cellSpec_congr cfg cfg' h1 h2 h3 h4 h5]

theorem collectKeys_nil (cfg : Config) (h : ∀ c, chunkKeys cfg c = []) (chunks : List Chunk) (keys : List Str) :
    collectKeys cfg chunks keys = keys := by
  induction chunks generalizing keys with
  | nil => rfl
  | cons c cs ih => simp only [collectKeys, h c, addKeys, ih]

end Tabula.Export
