import TabulaModel.Model.GState
import TabulaModel.Lemmas.Matrix
/-!
Helper lemmas about the operator loop of the text extractor: sequencing (`exec_append`),
balanced programs, and the fact that a balanced program runs without error and leaves the
graphics-state stack as it found it.
-/
namespace Tabula.GState
open Tabula

variable {α : Type} [Lean.Grind.CommRing α] [DecidableEq α] [LT α] [DecidableLT α]

omit [DecidableEq α] in
/-- the size factor of the text matrix does not depend on its translation part -/
theorem tmScale2_linear (m : Matrix α) : tmScale2 m.linear = tmScale2 m := rfl

/-- sequencing of `exec` -/
theorem exec_append (adv : Adv α) (a b : List (Op α)) (s : State α) :
    exec adv (a ++ b) s =
      match exec adv a s with
      | none => none
      | some r => match exec adv b r.1 with
        | none => none
        | some r2 => some (r2.1, r.2 ++ r2.2) := by
  induction a generalizing s with
  | nil =>
    simp only [List.nil_append, exec]
    cases exec adv b s <;> simp
  | cons op rest ih =>
    simp only [List.cons_append, exec]
    split
    · rfl
    · rw [ih]
      cases exec adv rest (step adv op s).1 with
      | none => rfl
      | some r =>
        simp only
        cases exec adv b r.1 with
        | none => rfl
        | some r2 => simp [List.append_assoc]

/-- an operator that is neither `q`, `Q` nor `Do` -/
def Op.plain : Op α → Bool
  | .q | .Q | .form _ _ => false
  | _ => true

/-- balanced programs: every `Q` closes a `q` of the same program (or of the same form's
content stream), to any depth -/
inductive Balanced : List (Op α) → Prop where
  | nil : Balanced []
  | plain (op : Op α) (rest : List (Op α)) : op.plain = true → Balanced rest → Balanced (op :: rest)
  | qQ (body rest : List (Op α)) : Balanced body → Balanced rest →
      Balanced (Op.q :: (body ++ Op.Q :: rest))
  | form (m : Option (Matrix α)) (body rest : List (Op α)) : Balanced body → Balanced rest →
      Balanced (Op.form m body :: rest)

omit [DecidableEq α] [LT α] [DecidableLT α] in
/-- **`AdvanceText` pre-multiplies**: `Tm := T(tx,0) × Tm` -/
theorem advanceText_tm (s : State α) (tx : α) :
    (s.advanceText tx).cur.text.tm = (Matrix.translate tx 0).mul s.cur.text.tm := by
  apply Matrix.ext' <;> simp only [State.advanceText, State.mapText, Matrix.mul, Matrix.translate] <;> grind

omit [Lean.Grind.CommRing α] [DecidableEq α] [LT α] [DecidableLT α] in
theorem mapText_stack (s : State α) (f : TextState α → TextState α) :
    (s.mapText f).stack = s.stack ∧ (s.mapText f).xdepth = s.xdepth ∧ (s.mapText f).cur.ctm = s.cur.ctm :=
  ⟨rfl, rfl, rfl⟩

/-- a `TJ` array touches neither the stack, the nesting depth nor the CTM -/
theorem showTextArray_frame (adv : Adv α) (items : List (TJItem α)) (s : State α) :
    (showTextArray adv items s).1.stack = s.stack ∧ (showTextArray adv items s).1.xdepth = s.xdepth ∧
      (showTextArray adv items s).1.cur.ctm = s.cur.ctm := by
  induction items generalizing s with
  | nil => exact ⟨rfl, rfl, rfl⟩
  | cons it rest ih =>
    cases it with
    | str sid =>
      simp only [showTextArray]
      obtain ⟨h1, h2, h3⟩ := ih (showText adv sid s).1
      exact ⟨h1, h2, h3⟩
    | num v =>
      simp only [showTextArray]
      obtain ⟨h1, h2, h3⟩ := ih (s.advanceText (adv s.cur.text (.num v)))
      exact ⟨h1, h2, h3⟩

/-- a plain operator never fails and never touches the stack or the nesting depth -/
theorem stepBasic_plain (adv : Adv α) (op : Op α) (h : op.plain = true) (s : State α) :
    (stepBasic adv op s).2.2 = false ∧ (stepBasic adv op s).1.stack = s.stack ∧
      (stepBasic adv op s).1.xdepth = s.xdepth := by
  cases op <;> simp [Op.plain] at h <;>
    simp [stepBasic, State.transform, State.beginText, State.mapText, State.setFont,
      State.setTextMatrix, State.translateText, State.translateTextSetLeading, State.setLeading,
      State.nextLine, State.setCharSpacing, State.setWordSpacing, State.setHorizontalScaling,
      State.setTextRise, State.advanceText, showText, showTextArray_frame]

theorem step_plain (adv : Adv α) (op : Op α) (h : op.plain = true) (s : State α) :
    step adv op s = stepBasic adv op s := by
  cases op <;> simp [Op.plain] at h <;> rfl

theorem runForm_plain (adv : Adv α) (op : Op α) (h : op.plain = true) (rest : List (Op α))
    (s : State α) :
    runForm adv (op :: rest) s =
      ((runForm adv rest (stepBasic adv op s).1).1,
        (stepBasic adv op s).2.1 ++ (runForm adv rest (stepBasic adv op s).1).2) := by
  cases op <;> simp [Op.plain] at h <;> simp [runForm]

theorem runForm_plain' (adv : Adv α) (rest : List (Op α)) (s : State α) :
    runForm adv (Op.q :: rest) s =
      ((runForm adv rest (stepBasic adv Op.q s).1).1,
        (stepBasic adv Op.q s).2.1 ++ (runForm adv rest (stepBasic adv Op.q s).1).2) := by
  simp [runForm]

theorem runForm_append (adv : Adv α) (a b : List (Op α)) (s : State α) :
    runForm adv (a ++ b) s =
      ((runForm adv b (runForm adv a s).1).1, (runForm adv a s).2 ++ (runForm adv b (runForm adv a s).1).2) := by
  induction a generalizing s with
  | nil => simp [runForm]
  | cons op rest ih =>
    by_cases hp : op.plain = true
    · rw [List.cons_append, runForm_plain adv op hp, runForm_plain adv op hp, ih]
      simp [List.append_assoc]
    · cases op <;> simp [Op.plain] at hp
      · simp only [List.cons_append, runForm, ih]; simp [List.append_assoc]
      · simp only [List.cons_append, runForm, ih]; simp [List.append_assoc]
      · simp only [List.cons_append, runForm]
        split
        · rw [ih]
        · rw [ih]; simp [List.append_assoc]

omit [DecidableEq α] [LT α] [DecidableLT α] in
/-- entering and leaving a form around a computation that preserves stack and depth gives
back the frame, the stack and the depth -/
theorem formExit_formEnter (m : Option (Matrix α)) (s s1 : State α)
    (hst : s1.stack = (formEnter m s).stack) (hd : s1.xdepth = (formEnter m s).xdepth) :
    formExit s1 = s := by
  have h1 : (formEnter m s).stack = s.cur :: s.stack := by
    cases m <;> simp [formEnter, State.save, State.transform]
  have h2 : (formEnter m s).xdepth = s.xdepth + 1 := by
    cases m <;> simp [formEnter, State.save, State.transform]
  rw [h1] at hst; rw [h2] at hd
  cases s1 with | mk c st d =>
  cases s with | mk c0 st0 d0 =>
  simp only at hst hd
  subst hst hd
  simp [formExit, State.restore]

/-- **balanced programs run without error**, identically under `exec` (top level) and
`runForm` (inside a form), and give back the stack and nesting depth they started with -/
theorem balanced_exec (adv : Adv α) {ops : List (Op α)} (hb : Balanced ops) :
    ∀ s : State α, ∃ s' out, exec adv ops s = some (s', out) ∧ runForm adv ops s = (s', out) ∧
      s'.stack = s.stack ∧ s'.xdepth = s.xdepth := by
  induction hb with
  | nil => intro s; exact ⟨s, [], rfl, by simp [runForm], rfl, rfl⟩
  | plain op rest hp _ ih =>
    intro s
    obtain ⟨he, hs, hd⟩ := stepBasic_plain adv op hp s
    obtain ⟨s', out, h1, h2, h3, h4⟩ := ih (stepBasic adv op s).1
    refine ⟨s', (stepBasic adv op s).2.1 ++ out, ?_, ?_, by rw [h3, hs], by rw [h4, hd]⟩
    · simp [exec, step_plain adv op hp, he, h1]
    · rw [runForm_plain adv op hp, h2]
  | qQ body rest _ _ ihb ihr =>
    intro s
    obtain ⟨s1, o1, h1, h2, h3, h4⟩ := ihb s.save
    have hst : s1.stack = s.cur :: s.stack := by rw [h3]; rfl
    have hres : s1.restore = some { s1 with cur := s.cur, stack := s.stack } := by
      simp [State.restore, hst]
    obtain ⟨s2, o2, g1, g2, g3, g4⟩ := ihr { s1 with cur := s.cur, stack := s.stack }
    refine ⟨s2, o1 ++ o2, ?_, ?_, by rw [g3], by rw [g4, h4]; rfl⟩
    · have hq : exec adv (Op.Q :: rest) s1 = some (s2, o2) := by
        simp [exec, step, stepBasic, hres, g1]
      have hbody : exec adv (body ++ Op.Q :: rest) s.save = some (s2, o1 ++ o2) := by
        rw [exec_append, h1]; simp only; rw [hq]
      have hstep : step adv Op.q s = (s.save, [], false) := rfl
      rw [exec, hstep]; simp only [Bool.false_eq_true, if_false, hbody, List.nil_append]
    · have hq : runForm adv (Op.Q :: rest) s1 = (s2, o2) := by
        simp [runForm, stepBasic, hres, g2]
      have hbody : runForm adv (body ++ Op.Q :: rest) s.save = (s2, o1 ++ o2) := by
        rw [runForm_append, h2]; simp only; rw [hq]
      rw [runForm_plain' adv]; simp only [stepBasic, hbody, List.nil_append]
  | form m body rest _ _ ihb ihr =>
    intro s
    by_cases hdep : s.xdepth ≥ maxXObjectDepth
    · obtain ⟨s2, o2, g1, g2, g3, g4⟩ := ihr s
      refine ⟨s2, o2, ?_, ?_, g3, g4⟩
      · simp [exec, step, hdep, g1]
      · simp [runForm, hdep, g2]
    · obtain ⟨s1, o1, _, h2, h3, h4⟩ := ihb (formEnter m s)
      have hx := formExit_formEnter m s s1 h3 h4
      obtain ⟨s2, o2, g1, g2, g3, g4⟩ := ihr s
      refine ⟨s2, o1 ++ o2, ?_, ?_, g3, g4⟩
      · simp [exec, step, hdep, h2, hx, g1]
      · simp [runForm, hdep, h2, hx, g2]

end Tabula.GState
