import TabulaModel.Model.Detect
/-!
Helper lemmas about `Model/Detect.lean` (extension scan, case folding,
ZIP sniffing under permutation and decoys).
-/
set_option autoImplicit false
namespace Tabula.Detect

/-! ### case folding -/

theorem lowerB_eq_dot (c : Nat) : lowerB c = 46 ↔ c = 46 := by
  unfold lowerB; split <;> omega

theorem lowerB_eq_slash (c : Nat) : lowerB c = 47 ↔ c = 47 := by
  unfold lowerB; split <;> omega

theorem lowerB_idem (c : Nat) : lowerB (lowerB c) = lowerB c := by
  by_cases h : 65 ≤ c ∧ c ≤ 90
  · have e : lowerB c = c + 32 := by unfold lowerB; rw [if_pos h]
    rw [e]
    unfold lowerB
    have : ¬ (65 ≤ c + 32 ∧ c + 32 ≤ 90) := by omega
    rw [if_neg this]
  · have e : lowerB c = c := by unfold lowerB; rw [if_neg h]
    rw [e, e]

theorem lower_idem (s : Str) : lower (lower s) = lower s := by
  unfold lower
  rw [List.map_map]
  apply List.map_congr_left
  intro c _
  exact lowerB_idem c

theorem lower_append (a b : Str) : lower (a ++ b) = lower a ++ lower b := by
  unfold lower; simp

theorem lower_reverse (a : Str) : lower a.reverse = (lower a).reverse := by
  unfold lower; simp

/-! ### `filepath.Ext` -/

theorem extRev_lower (s acc : Str) : extRev (lower s) (lower acc) = lower (extRev s acc) := by
  induction s generalizing acc with
  | nil => rfl
  | cons c rest ih =>
    show extRev (lowerB c :: lower rest) (lower acc) = lower (extRev (c :: rest) acc)
    by_cases h47 : c = 47
    · subst h47
      have e : lowerB 47 = 47 := by decide
      rw [e]
      simp [extRev, lower]
    · have n47 : ¬ lowerB c = 47 := fun h => h47 ((lowerB_eq_slash c).1 h)
      by_cases h46 : c = 46
      · subst h46
        have e : lowerB 46 = 46 := by decide
        rw [e]
        simp [extRev, lower, e]
      · have n46 : ¬ lowerB c = 46 := fun h => h46 ((lowerB_eq_dot c).1 h)
        rw [extRev, extRev]
        simp only [h47, n47, h46, n46, if_false]
        exact ih (c :: acc)

theorem ext_lower (s : Str) : ext (lower s) = lower (ext s) := by
  unfold ext
  rw [← lower_reverse]
  exact extRev_lower s.reverse []

/-- `Detect` looks at the lower-cased name only -/
theorem detect_lower (s : Str) : detect (lower s) = detect s := by
  unfold detect
  rw [ext_lower, lower_idem]

theorem extRev_noDot (a rest acc : Str) (h : ∀ c ∈ a, c ≠ 46 ∧ c ≠ 47) :
    extRev (a ++ 46 :: rest) acc = 46 :: (a.reverse ++ acc) := by
  induction a generalizing acc with
  | nil => simp [extRev]
  | cons c cs ih =>
    have hc := h c (by simp)
    have hcs : ∀ x ∈ cs, x ≠ 46 ∧ x ≠ 47 := fun x hx => h x (by simp [hx])
    show extRev (c :: (cs ++ 46 :: rest)) acc = _
    unfold extRev
    simp only [hc.1, hc.2, if_false]
    rw [ih (c :: acc) hcs]
    simp

/-- the extension of `stem ++ "." ++ t` is `"." ++ t` when `t` has neither dot nor slash -/
theorem ext_append (stem t : Str) (h : ∀ c ∈ t, c ≠ 46 ∧ c ≠ 47) :
    ext (stem ++ 46 :: t) = 46 :: t := by
  unfold ext
  have : (stem ++ 46 :: t).reverse = t.reverse ++ 46 :: stem.reverse := by simp
  rw [this, extRev_noDot t.reverse stem.reverse [] (by simpa using h)]
  simp

theorem extRev_nil_of_noDot (s acc : Str) (h : ∀ c ∈ s, c ≠ 46) : extRev s acc = [] := by
  induction s generalizing acc with
  | nil => rfl
  | cons c cs ih =>
    have hc := h c (by simp)
    unfold extRev
    by_cases h47 : c = 47
    · simp [h47]
    · simp only [h47, hc, if_false]
      exact ih (c :: acc) (fun x hx => h x (by simp [hx]))

theorem ext_nil_of_noDot (s : Str) (h : ∀ c ∈ s, c ≠ 46) : ext s = [] := by
  unfold ext
  exact extRev_nil_of_noDot _ _ (by simpa using h)

/-! ### ZIP sniffing -/

theorem any_perm {α} {p : α → Bool} {l l' : List α} (h : l.Perm l') : l.any p = l'.any p := by
  rw [Bool.eq_iff_iff, List.any_eq_true, List.any_eq_true]
  constructor
  · rintro ⟨x, hx, hp⟩; exact ⟨x, h.mem_iff.1 hx, hp⟩
  · rintro ⟨x, hx, hp⟩; exact ⟨x, h.mem_iff.2 hx, hp⟩

theorem firstMime_eq_none {ms : List Member} :
    firstMime ms = none ↔ ∀ m ∈ ms, mimeVerdict m = none := by
  induction ms with
  | nil => simp [firstMime]
  | cons m ms ih =>
    unfold firstMime
    cases hv : mimeVerdict m with
    | some f => simp [hv]
    | none => simp [hv, ih]

theorem firstMime_some_mem {ms : List Member} {f : Format} (h : firstMime ms = some f) :
    ∃ m ∈ ms, mimeVerdict m = some f := by
  induction ms with
  | nil => simp [firstMime] at h
  | cons m ms ih =>
    unfold firstMime at h
    cases hv : mimeVerdict m with
    | some g =>
      simp [hv] at h
      exact ⟨m, by simp, by rw [hv, h]⟩
    | none =>
      simp [hv] at h
      obtain ⟨m', hm', hv'⟩ := ih h
      exact ⟨m', by simp [hm'], hv'⟩

/-- all "mimetype" members that name a known type name the same one
(true in particular when member names are pairwise distinct) -/
def MimeAgree (ms : List Member) : Prop :=
  ∀ m ∈ ms, ∀ m' ∈ ms, ∀ f g, mimeVerdict m = some f → mimeVerdict m' = some g → f = g

theorem firstMime_of_mem {ms : List Member} (ha : MimeAgree ms) {m : Member} (hm : m ∈ ms)
    {f : Format} (hv : mimeVerdict m = some f) : firstMime ms = some f := by
  cases h : firstMime ms with
  | none => rw [firstMime_eq_none.1 h m hm] at hv; cases hv
  | some g =>
    obtain ⟨m', hm', hv'⟩ := firstMime_some_mem h
    rw [ha m hm m' hm' f g hv hv']

theorem MimeAgree.perm {ms ms' : List Member} (hp : ms.Perm ms') (ha : MimeAgree ms) : MimeAgree ms' :=
  fun m hm m' hm' f g hf hg => ha m (hp.mem_iff.2 hm) m' (hp.mem_iff.2 hm') f g hf hg

theorem firstMime_perm {ms ms' : List Member} (hp : ms.Perm ms') (ha : MimeAgree ms) :
    firstMime ms = firstMime ms' := by
  cases h : firstMime ms with
  | none =>
    symm
    rw [firstMime_eq_none]
    intro m hm
    exact firstMime_eq_none.1 h m (hp.mem_iff.2 hm)
  | some f =>
    obtain ⟨m, hm, hv⟩ := firstMime_some_mem h
    exact (firstMime_of_mem (ha.perm hp) (hp.mem_iff.1 hm) hv).symm

theorem hasMember_perm (n : Str) {ms ms' : List Member} (hp : ms.Perm ms') :
    hasMember n ms = hasMember n ms' := any_perm hp

theorem hasDir_perm (p : Str) {ms ms' : List Member} (hp : ms.Perm ms') :
    hasDir p ms = hasDir p ms' := any_perm hp

theorem detectZip_perm {ms ms' : List Member} (hp : ms.Perm ms') (ha : MimeAgree ms) :
    detectZip ms = detectZip ms' := by
  unfold detectZip
  rw [firstMime_perm hp ha, hasMember_perm _ hp, hasMember_perm _ hp, hasMember_perm _ hp,
    hasMember_perm _ hp, hasDir_perm _ hp, hasDir_perm _ hp, hasDir_perm _ hp]

theorem firstMime_append (a b : List Member) :
    firstMime (a ++ b) = (firstMime a).or (firstMime b) := by
  induction a with
  | nil => simp [firstMime]
  | cons m ms ih =>
    simp only [List.cons_append, firstMime]
    cases hv : mimeVerdict m with
    | some f => simp
    | none => simpa using ih

theorem hasMember_append (n : Str) (a b : List Member) :
    hasMember n (a ++ b) = (hasMember n a || hasMember n b) := by
  unfold hasMember; simp

theorem hasDir_append (p : Str) (a b : List Member) :
    hasDir p (a ++ b) = (hasDir p a || hasDir p b) := by
  unfold hasDir; simp

theorem hasMember_false_of_forall (n : Str) (ds : List Member) (h : ∀ d ∈ ds, d.name ≠ n) :
    hasMember n ds = false := by
  unfold hasMember
  rw [List.any_eq_false]
  intro d hd
  simpa using h d hd

theorem mimeVerdict_none_of_name {m : Member} (h : m.name ≠ nMimetype) : mimeVerdict m = none := by
  unfold mimeVerdict; simp [h]

/-! ### magic bytes -/

theorem upperB_eq_lt (c : Nat) (h : upperB c = 60) : c = 60 := by
  unfold upperB at h; split at h <;> omega

theorem isMagicWS_ne (c : Nat) (h : isMagicWS c = true) : c ≠ 60 ∧ c ≠ 37 ∧ c ≠ 80 := by
  unfold isMagicWS at h
  simp at h
  omega

theorem dropWhile_ws (ws t : Str) (hws : ∀ c ∈ ws, isMagicWS c = true) (c : Nat) (hc : isMagicWS c = false) :
    (ws ++ c :: t).dropWhile isMagicWS = c :: t := by
  induction ws with
  | nil => simp [hc]
  | cons w ws ih =>
    have := hws w (by simp)
    simp only [List.cons_append, List.dropWhile_cons, this, if_true]
    exact ih (fun x hx => hws x (by simp [hx]))

theorem isPrefixOf_append_self (p r : Str) : p.isPrefixOf (p ++ r) = true := by
  rw [List.isPrefixOf_iff_prefix]; exact List.prefix_append p r

theorem isPrefixOf_head_ne (p t : Str) (a b : Nat) (h : a ≠ b) : (a :: p).isPrefixOf (b :: t) = false := by
  simp [List.isPrefixOf, h]

theorem take_append_short (a r : Str) (n : Nat) (h : a.length ≤ n) :
    (a ++ r).take n = a ++ r.take (n - a.length) := by
  rw [List.take_append, List.take_of_length_le h]

/-- `<!DOCTYPE`, a non-empty run of white space, `HTML`, then anything is a doctype -/
theorem isHTMLDoctype_ws (ws r : Str) (hne : ws ≠ []) (hws : ∀ c ∈ ws, isMagicWS c = true) :
    isHTMLDoctype (sDoctype ++ (ws ++ (sHtmlName ++ r))) = true := by
  unfold isHTMLDoctype
  have h1 : sDoctype.isPrefixOf (sDoctype ++ (ws ++ (sHtmlName ++ r))) = true :=
    isPrefixOf_append_self _ _
  have h2 : (sDoctype ++ (ws ++ (sHtmlName ++ r))).drop sDoctype.length = ws ++ (sHtmlName ++ r) :=
    List.drop_left
  have h3 : (ws ++ (sHtmlName ++ r)).dropWhile isMagicWS = sHtmlName ++ r := by
    have e : sHtmlName ++ r = 72 :: ([84, 77, 76] ++ r) := rfl
    rw [e]; exact dropWhile_ws ws _ hws 72 (by decide)
  have h4 : (sHtmlName ++ r).length < (ws ++ (sHtmlName ++ r)).length := by
    have : 0 < ws.length := List.length_pos_iff.mpr hne
    simp only [List.length_append]; omega
  simp only [h1, h2, h3, isPrefixOf_append_self, h4, decide_true, Bool.and_self]

/-- white space, then `<!DOCTYPE html` in any letter case, then anything -/
theorem detectHTMLMagic_doctype (ws d rest : Str) (hws : ∀ c ∈ ws, isMagicWS c = true)
    (hd : upper d = sDoctypeHtml) : detectHTMLMagic (ws ++ d ++ rest) = true := by
  cases d with
  | nil => simp [upper, sDoctypeHtml] at hd
  | cons c t =>
    have hc : c = 60 := by
      have : upperB c = 60 := by
        have := congrArg List.head? hd
        simpa [upper, sDoctypeHtml] using this
      exact upperB_eq_lt c this
    have hcw : isMagicWS c = false := by rw [hc]; decide
    unfold detectHTMLMagic
    have e : (ws ++ (c :: t) ++ rest) = ws ++ c :: (t ++ rest) := by simp
    rw [e, dropWhile_ws ws _ hws c hcw]
    have hu : upper (c :: (t ++ rest)) = sDoctypeHtml ++ upper rest := by
      have : c :: (t ++ rest) = (c :: t) ++ rest := by simp
      rw [this]; unfold upper at hd ⊢; rw [List.map_append, hd]
    have hd' : isHTMLDoctype (sDoctypeHtml ++ upper rest) = true :=
      isHTMLDoctype_ws [32] (upper rest) (by simp) (by decide)
    simp only [hu, hd', List.isEmpty_cons, Bool.false_eq_true, if_false, if_true]

/-- the first byte of `ws ++ d ++ …` when `d` starts like `<!DOCTYPE HTML` is neither `%` nor `P` -/
theorem not_pdf_zip_prefix (ws d r : Str) (hws : ∀ c ∈ ws, isMagicWS c = true)
    (hd : upper d = sDoctypeHtml) :
    sPdfMagic.isPrefixOf (ws ++ d ++ r) = false ∧ sZipMagic.isPrefixOf (ws ++ d ++ r) = false := by
  cases ws with
  | nil =>
    cases d with
    | nil => simp [upper, sDoctypeHtml] at hd
    | cons c t =>
      have hc : c = 60 := by
        have : upperB c = 60 := by
          have := congrArg List.head? hd
          simpa [upper, sDoctypeHtml] using this
        exact upperB_eq_lt c this
      subst hc
      exact ⟨isPrefixOf_head_ne _ _ _ _ (by decide), isPrefixOf_head_ne _ _ _ _ (by decide)⟩
  | cons w ws =>
    have hw := isMagicWS_ne w (hws w (by simp))
    exact ⟨isPrefixOf_head_ne _ _ _ _ (fun h => hw.2.1 h.symm), isPrefixOf_head_ne _ _ _ _ (fun h => hw.2.2 h.symm)⟩

/-- white space is not changed by upper-casing -/
theorem upperB_ws (c : Nat) (h : isMagicWS c = true) : upperB c = c := by
  unfold isMagicWS at h
  simp at h
  unfold upperB
  split <;> omega

theorem upper_ws (ws : Str) (hws : ∀ c ∈ ws, isMagicWS c = true) : upper ws = ws := by
  induction ws with
  | nil => rfl
  | cons w ws ih =>
    show upperB w :: upper ws = w :: ws
    rw [upperB_ws w (hws w (by simp)), ih (fun x hx => hws x (by simp [hx]))]

theorem head_of_upper_doctype (c : Nat) (t : Str) (hd : upper (c :: t) = sDoctype) : c = 60 := by
  have : upperB c = 60 := by
    have := congrArg List.head? hd
    simpa [upper, sDoctype] using this
  exact upperB_eq_lt c this

/-- white space, `<!DOCTYPE` in any letter case, a non-empty run of white space
(blanks, tabs, line breaks, form feeds), `html` in any letter case, then anything -/
theorem detectHTMLMagic_doctype_ws (lead d ws n rest : Str) (hl : ∀ c ∈ lead, isMagicWS c = true)
    (hd : upper d = sDoctype) (hne : ws ≠ []) (hws : ∀ c ∈ ws, isMagicWS c = true)
    (hn : upper n = sHtmlName) :
    detectHTMLMagic (lead ++ (d ++ (ws ++ (n ++ rest)))) = true := by
  cases d with
  | nil => simp [upper, sDoctype] at hd
  | cons c t =>
    have hc : c = 60 := head_of_upper_doctype c t hd
    have hcw : isMagicWS c = false := by rw [hc]; decide
    unfold detectHTMLMagic
    have e : (lead ++ ((c :: t) ++ (ws ++ (n ++ rest)))) = lead ++ c :: (t ++ (ws ++ (n ++ rest))) := by simp
    rw [e, dropWhile_ws lead _ hl c hcw]
    have hu : upper (c :: (t ++ (ws ++ (n ++ rest)))) = sDoctype ++ (ws ++ (sHtmlName ++ upper rest)) := by
      have : c :: (t ++ (ws ++ (n ++ rest))) = (c :: t) ++ (ws ++ (n ++ rest)) := by simp
      rw [this]
      have hw := upper_ws ws hws
      unfold upper at hd hn hw ⊢
      rw [List.map_append, List.map_append, List.map_append, hd, hn, hw]
    have hd' := isHTMLDoctype_ws ws (upper rest) hne hws
    simp only [hu, hd', List.isEmpty_cons, Bool.false_eq_true, if_false, if_true]

/-- the first byte of `lead ++ d ++ …` when `d` starts like `<!DOCTYPE` is neither `%` nor `P` -/
theorem not_pdf_zip_prefix_doctype (lead d r : Str) (hl : ∀ c ∈ lead, isMagicWS c = true)
    (hd : upper d = sDoctype) :
    sPdfMagic.isPrefixOf (lead ++ (d ++ r)) = false ∧ sZipMagic.isPrefixOf (lead ++ (d ++ r)) = false := by
  cases lead with
  | nil =>
    cases d with
    | nil => simp [upper, sDoctype] at hd
    | cons c t =>
      have hc : c = 60 := head_of_upper_doctype c t hd
      subst hc
      exact ⟨isPrefixOf_head_ne _ _ _ _ (by decide), isPrefixOf_head_ne _ _ _ _ (by decide)⟩
  | cons w ws =>
    have hw := isMagicWS_ne w (hl w (by simp))
    exact ⟨isPrefixOf_head_ne _ _ _ _ (fun h => hw.2.1 h.symm), isPrefixOf_head_ne _ _ _ _ (fun h => hw.2.2 h.symm)⟩

end Tabula.Detect
