import TabulaModel.Model.CSParser
/-
Every string the content-stream parser (`Tabula.Pdf.CS.csParse`) produces from a byte input
is a byte string.  Core Lean only.
-/
namespace Tabula.Pdf.CS
open Tabula.Pdf

/-- every element is a byte value -/
def Bytes (s : List Nat) : Prop := ∀ b ∈ s, b < 256

theorem bytes_nil : Bytes [] := by
  intro b hb; cases hb

theorem bytes_cons {a : Nat} {l : List Nat} : Bytes (a :: l) ↔ a < 256 ∧ Bytes l := by
  constructor
  · intro h
    exact ⟨h a (List.mem_cons_self), fun b hb => h b (List.mem_cons_of_mem _ hb)⟩
  · intro h b hb
    cases hb with
    | head => exact h.1
    | tail _ hb => exact h.2 b hb

theorem bytes_append {a b : List Nat} : Bytes (a ++ b) ↔ Bytes a ∧ Bytes b := by
  constructor
  · intro h
    exact ⟨fun x hx => h x (List.mem_append_left _ hx), fun x hx => h x (List.mem_append_right _ hx)⟩
  · intro h x hx
    cases List.mem_append.mp hx with
    | inl hx => exact h.1 x hx
    | inr hx => exact h.2 x hx

theorem bytes_single {a : Nat} (h : a < 256) : Bytes [a] :=
  bytes_cons.mpr ⟨h, bytes_nil⟩

theorem bytes_drop {l : List Nat} (n : Nat) (h : Bytes l) : Bytes (l.drop n) :=
  fun b hb => h b (List.mem_of_mem_drop hb)

/-! ### the helpers keep the rest of the input a byte list -/

theorem skipLine_bytes (s : Str) (h : Bytes s) : Bytes (skipLine s) := by
  induction s with
  | nil => simpa [skipLine] using h
  | cons b r ih =>
    simp only [skipLine]
    split
    · exact h
    · exact ih (bytes_cons.mp h).2

theorem skipSpace_bytes (s : Str) (h : Bytes s) : Bytes (skipSpace s) := by
  suffices H : ∀ n (s : Str), s.length ≤ n → Bytes s → Bytes (skipSpace s) from
    H s.length s (Nat.le_refl _) h
  intro n
  induction n with
  | zero =>
    intro s hl _
    cases s with
    | nil => rw [skipSpace.eq_def]; exact bytes_nil
    | cons b r => simp at hl
  | succ n ih =>
    intro s hl hs
    cases s with
    | nil => rw [skipSpace.eq_def]; exact bytes_nil
    | cons b r =>
      have hr := (bytes_cons.mp hs).2
      have hl' : r.length ≤ n := by simp only [List.length_cons] at hl; omega
      rw [skipSpace.eq_def]
      simp only []
      split
      · exact ih r hl' hr
      · split
        · have := skipLine_le r
          exact ih _ (by omega) (skipLine_bytes r hr)
        · exact hs

theorem skipWs_bytes (s : Str) (h : Bytes s) : Bytes (skipWs s) := by
  induction s with
  | nil => simpa [skipWs] using h
  | cons b r ih =>
    simp only [skipWs]
    split
    · exact ih (bytes_cons.mp h).2
    · exact h

theorem numBody_bytes (b : Bool) (s : Str) (h : Bytes s) : Bytes (numBody b s).2.2 := by
  induction s generalizing b with
  | nil => simpa [numBody] using h
  | cons c r ih =>
    have hr := (bytes_cons.mp h).2
    simp only [numBody]
    split
    · exact ih _ hr
    · split
      · exact ih _ hr
      · exact h

theorem afterCR_bytes (r : Str) (h : Bytes r) : Bytes (afterCR r) := by
  unfold afterCR
  split
  · split
    · exact (bytes_cons.mp h).2
    · exact h
  · exact h

theorem readOctal_bytes (c : Nat) (r : Str) (h : Bytes r) : Bytes (readOctal c r).2 := by
  unfold readOctal
  split
  · split
    · split
      · split
        · exact (bytes_cons.mp (bytes_cons.mp h).2).2
        · exact (bytes_cons.mp h).2
      · exact (bytes_cons.mp h).2
    · exact h
  · exact h

theorem namedEsc_lt (c v : Nat) (hc : c < 256) (h : namedEsc c = some v) : v < 256 := by
  unfold namedEsc at h
  repeat' split at h
  all_goals first | (cases h; omega) | cases h

theorem csEscape_bytes (inp bs r : Str) (hin : Bytes inp) (h : csEscape inp = some (bs, r)) :
    Bytes bs ∧ Bytes r := by
  cases inp with
  | nil => simp [csEscape] at h
  | cons c r0 =>
    have hc := (bytes_cons.mp hin).1
    have hr := (bytes_cons.mp hin).2
    simp only [csEscape] at h
    split at h
    · next v hv => cases h; exact ⟨bytes_single (namedEsc_lt c v hc hv), hr⟩
    · split at h
      · cases h; exact ⟨bytes_nil, afterCR_bytes _ hr⟩
      · split at h
        · cases h; exact ⟨bytes_nil, hr⟩
        · split at h
          · cases h; exact ⟨bytes_single (Nat.mod_lt _ (by omega)), readOctal_bytes _ _ hr⟩
          · cases h; exact ⟨bytes_single hc, hr⟩

theorem pre_some {bs : Str} {x : Option (Str × Str)} {v r : Str} (h : pre bs x = some (v, r)) :
    ∃ v', x = some (v', r) ∧ v = bs ++ v' := by
  cases x with
  | none => simp [pre] at h
  | some p =>
    obtain ⟨v', r'⟩ := p
    simp only [pre, Option.some.injEq, Prod.mk.injEq] at h
    obtain ⟨h1, h2⟩ := h
    subst h1 h2
    exact ⟨v', rfl, rfl⟩

/-! ### literal strings -/

theorem strLoop_bytes (d : Nat) (inp v r : Str) (hin : Bytes inp) (h : strLoop d inp = some (v, r)) :
    Bytes v ∧ Bytes r := by
  suffices H : ∀ n (inp : Str) (d : Nat) (v r : Str), inp.length ≤ n → Bytes inp →
      strLoop d inp = some (v, r) → Bytes v ∧ Bytes r from
    H inp.length inp d v r (Nat.le_refl _) hin h
  intro n
  induction n with
  | zero =>
    intro inp d v r hl _ h
    cases inp with
    | nil => rw [strLoop] at h; cases h
    | cons c r0 => simp at hl
  | succ n ih =>
    intro inp d v r hl hin h
    cases inp with
    | nil => rw [strLoop] at h; cases h
    | cons c r0 =>
      have hc := (bytes_cons.mp hin).1
      have hr := (bytes_cons.mp hin).2
      have hl' : r0.length ≤ n := by simp only [List.length_cons] at hl; omega
      rw [strLoop] at h
      split at h
      · split at h
        · cases h
        · next bs r' hE =>
          have hlt := csEscape_lt hE
          obtain ⟨hbs, hr'⟩ := csEscape_bytes _ _ _ hr hE
          obtain ⟨v', hv', rfl⟩ := pre_some h
          obtain ⟨h1, h2⟩ := ih r' d v' r (by omega) hr' hv'
          exact ⟨bytes_append.mpr ⟨hbs, h1⟩, h2⟩
      · split at h
        · obtain ⟨v', hv', rfl⟩ := pre_some h
          obtain ⟨h1, h2⟩ := ih r0 _ v' r hl' hr hv'
          exact ⟨bytes_append.mpr ⟨bytes_single (by omega), h1⟩, h2⟩
        · split at h
          · split at h
            · obtain ⟨v', hv', rfl⟩ := pre_some h
              obtain ⟨h1, h2⟩ := ih r0 _ v' r hl' hr hv'
              exact ⟨bytes_append.mpr ⟨bytes_single (by omega), h1⟩, h2⟩
            · cases h; exact ⟨bytes_nil, hr⟩
          · obtain ⟨v', hv', rfl⟩ := pre_some h
            obtain ⟨h1, h2⟩ := ih r0 _ v' r hl' hr hv'
            exact ⟨bytes_append.mpr ⟨bytes_single hc, h1⟩, h2⟩

/-! ### hex strings -/

theorem hexValue_lt (c : Nat) : hexValue c < 16 := by
  unfold hexValue
  split
  · next h => simp only [Bool.and_eq_true, decide_eq_true_eq] at h; omega
  · split
    · next h => simp only [Bool.and_eq_true, decide_eq_true_eq] at h; omega
    · split
      · next h => simp only [Bool.and_eq_true, decide_eq_true_eq] at h; omega
      · omega

theorem hex1_bytes (c : Nat) : Bytes [hexValue c * 16] := by
  have := hexValue_lt c
  exact bytes_single (by omega)

theorem hex2_bytes (c c2 : Nat) : Bytes [hexValue c * 16 + hexValue c2] := by
  have := hexValue_lt c
  have := hexValue_lt c2
  exact bytes_single (by omega)

theorem hexLoop_bytes (inp v r : Str) (hin : Bytes inp) (h : hexLoop inp = some (v, r)) :
    Bytes v ∧ Bytes r := by
  suffices H : ∀ n (inp : Str) (v r : Str), inp.length ≤ n → Bytes inp →
      hexLoop inp = some (v, r) → Bytes v ∧ Bytes r from
    H inp.length inp v r (Nat.le_refl _) hin h
  intro n
  induction n with
  | zero =>
    intro inp v r hl _ h
    cases inp with
    | nil => rw [hexLoop] at h; cases h; exact ⟨bytes_nil, bytes_nil⟩
    | cons c r0 => simp at hl
  | succ n ih =>
    intro inp v r hl hin h
    cases inp with
    | nil => rw [hexLoop] at h; cases h; exact ⟨bytes_nil, bytes_nil⟩
    | cons c r0 =>
      have hr := (bytes_cons.mp hin).2
      have hl' : r0.length ≤ n := by simp only [List.length_cons] at hl; omega
      rw [hexLoop.eq_def] at h
      simp only [] at h
      split at h
      · cases h; exact ⟨bytes_nil, hr⟩
      · split at h
        · exact ih r0 v r hl' hr h
        · split at h
          · cases h
          · split at h
            · cases h; exact ⟨hex1_bytes c, bytes_nil⟩
            · next c2 r2 =>
              have hr2 := (bytes_cons.mp hr).2
              have hl2 : r2.length ≤ n := by simp only [List.length_cons] at hl'; omega
              split at h
              · cases h; exact ⟨hex1_bytes c, hr2⟩
              · split at h
                · split at h
                  · cases h; exact ⟨hex1_bytes c, bytes_nil⟩
                  · next c3 r3 hs =>
                    have hb3 : Bytes (c3 :: r3) := by rw [← hs]; exact skipWs_bytes _ hr2
                    have hr3 := (bytes_cons.mp hb3).2
                    have hle := skipWs_le r2
                    rw [hs] at hle
                    simp only [List.length_cons] at hle
                    split at h
                    · cases h; exact ⟨hex1_bytes c, hr3⟩
                    · split at h
                      · cases h
                      · obtain ⟨v', hv', rfl⟩ := pre_some h
                        obtain ⟨h1, h2⟩ := ih r3 v' r (by omega) hr3 hv'
                        exact ⟨bytes_append.mpr ⟨hex2_bytes c c3, h1⟩, h2⟩
                · split at h
                  · cases h
                  · obtain ⟨v', hv', rfl⟩ := pre_some h
                    obtain ⟨h1, h2⟩ := ih r2 v' r hl2 hr2 hv'
                    exact ⟨bytes_append.mpr ⟨hex2_bytes c c2, h1⟩, h2⟩

/-! ### names and numbers -/

theorem nameLoop_bytes (inp : Str) (hin : Bytes inp) : Bytes (nameLoop inp).2 := by
  suffices H : ∀ n (inp : Str), inp.length ≤ n → Bytes inp → Bytes (nameLoop inp).2 from
    H inp.length inp (Nat.le_refl _) hin
  intro n
  induction n with
  | zero =>
    intro inp hl _
    cases inp with
    | nil => rw [nameLoop]; exact bytes_nil
    | cons c r0 => simp at hl
  | succ n ih =>
    intro inp hl hin
    cases inp with
    | nil => rw [nameLoop]; exact bytes_nil
    | cons c r0 =>
      have hr := (bytes_cons.mp hin).2
      have hl' : r0.length ≤ n := by simp only [List.length_cons] at hl; omega
      rw [nameLoop.eq_def]
      simp only []
      split
      · exact hin
      · split
        · split
          · next h1 h2 r' =>
            have hr' := (bytes_cons.mp (bytes_cons.mp hr).2).2
            split
            · exact ih r' (by simp only [List.length_cons] at hl'; omega) hr'
            · exact ih _ hl' hr
          · exact ih _ hl' hr
        · exact ih _ hl' hr

theorem opName_bytes (b : Bool) (s : Str) (h : Bytes s) : Bytes (opName b s).2 := by
  induction s generalizing b with
  | nil => simpa [opName] using h
  | cons c r ih =>
    simp only [opName]
    split
    · exact ih _ (bytes_cons.mp h).2
    · exact h

/-! ### objects -/

mutual
/-- every string inside the object (at any depth) is a byte string -/
def ObjBytes : Obj → Prop
  | .null => True
  | .bool _ => True
  | .int _ => True
  | .real _ _ _ => True
  | .str s => Bytes s
  | .name _ => True
  | .arr xs => ObjBytesList xs
  | .dict kv => ObjBytesKV kv
  | .ref _ _ => True
def ObjBytesList : List Obj → Prop
  | [] => True
  | x :: xs => ObjBytes x ∧ ObjBytesList xs
def ObjBytesKV : List (Str × Obj) → Prop
  | [] => True
  | (_, v) :: r => ObjBytes v ∧ ObjBytesKV r
end

theorem objBytesList_snoc (xs : List Obj) (o : Obj) (h : ObjBytesList xs) (ho : ObjBytes o) :
    ObjBytesList (xs ++ [o]) := by
  induction xs with
  | nil => simp only [List.nil_append, ObjBytesList]; exact ⟨ho, trivial⟩
  | cons x xs ih =>
    simp only [List.cons_append, ObjBytesList] at h ⊢
    exact ⟨h.1, ih h.2⟩

theorem objBytesList_append (xs ys : List Obj) (h : ObjBytesList xs) (hy : ObjBytesList ys) :
    ObjBytesList (xs ++ ys) := by
  induction xs with
  | nil => simpa using hy
  | cons x xs ih =>
    simp only [List.cons_append, ObjBytesList] at h ⊢
    exact ⟨h.1, ih h.2⟩

theorem objBytesList_mem (xs : List Obj) (h : ObjBytesList xs) (o : Obj) (ho : o ∈ xs) : ObjBytes o := by
  induction xs with
  | nil => cases ho
  | cons x xs ih =>
    simp only [ObjBytesList] at h
    cases ho with
    | head => exact h.1
    | tail _ ho => exact ih h.2 ho

theorem objBytesKV_set (kv : List (Str × Obj)) (k : Str) (o : Obj) (h : ObjBytesKV kv) (ho : ObjBytes o) :
    ObjBytesKV (dictSet kv k o) := by
  induction kv with
  | nil => simp only [dictSet, ObjBytesKV]; exact ⟨ho, trivial⟩
  | cons p kv ih =>
    obtain ⟨k', v'⟩ := p
    simp only [ObjBytesKV] at h
    simp only [dictSet]
    split
    · simp only [ObjBytesKV]; exact ⟨ho, h.2⟩
    · simp only [ObjBytesKV]; exact ⟨h.1, ih h.2⟩

theorem parseReal_objBytes (t : Str) (o : Obj) (h : parseReal t = some o) : ObjBytes o := by
  unfold parseReal at h
  simp only [] at h
  repeat' split at h
  all_goals first | (cases h; simp only [ObjBytes]) | cases h

theorem parseNumber_bytes (inp : Str) (o : Obj) (r : Str) (hin : Bytes inp)
    (h : parseNumber inp = some (o, r)) : ObjBytes o ∧ Bytes r := by
  unfold parseNumber at h
  simp only [] at h
  repeat' split at h
  all_goals first
    | (cases h; done)
    | (cases h
       refine ⟨?_, numBody_bytes _ _ (bytes_drop _ hin)⟩
       first | simp only [ObjBytes] | exact parseReal_objBytes _ _ (by assumption))

/-! ### operands -/

theorem parse_bytes (f : Nat) :
    (∀ (d : Nat) (inp : Str) (o : Obj) (r : Str), Bytes inp →
      parseOperand f d inp = some (o, r) → ObjBytes o ∧ Bytes r) ∧
    (∀ (d : Nat) (inp : Str) (acc : List Obj) (o : Obj) (r : Str), Bytes inp → ObjBytesList acc →
      parseArray f d inp acc = some (o, r) → ObjBytes o ∧ Bytes r) ∧
    (∀ (d : Nat) (inp : Str) (acc : List (Str × Obj)) (o : Obj) (r : Str), Bytes inp → ObjBytesKV acc →
      parseDict f d inp acc = some (o, r) → ObjBytes o ∧ Bytes r) := by
  induction f with
  | zero =>
    refine ⟨?_, ?_, ?_⟩
    · intro d inp o r _ h; simp [parseOperand] at h
    · intro d inp acc o r _ _ h; simp [parseArray] at h
    · intro d inp acc o r _ _ h; simp [parseDict] at h
  | succ f ih =>
    obtain ⟨ihO, ihA, ihD⟩ := ih
    refine ⟨?_, ?_, ?_⟩
    · intro d inp o r hin h
      have hsk := skipSpace_bytes inp hin
      rw [parseOperand] at h
      split at h
      · cases h
      · next c r0 hs =>
        rw [hs] at hsk
        have hr0 := (bytes_cons.mp hsk).2
        split at h
        · exact parseNumber_bytes _ _ _ hsk h
        · split at h
          · split at h
            · cases h
            · next v r' hv =>
              cases h
              obtain ⟨h1, h2⟩ := strLoop_bytes _ _ _ _ hr0 hv
              exact ⟨by simpa only [ObjBytes] using h1, h2⟩
          · split at h
            · split at h
              · cases h
              · next v r' hv =>
                cases h
                obtain ⟨h1, h2⟩ := hexLoop_bytes _ _ _ hr0 hv
                exact ⟨by simpa only [ObjBytes] using h1, h2⟩
            · split at h
              · cases h
                exact ⟨by simp only [ObjBytes], nameLoop_bytes _ hr0⟩
              · split at h
                · split at h
                  · cases h
                  · exact ihA _ _ _ _ _ hr0 (by simp only [ObjBytesList]) h
                · split at h
                  · split at h
                    · cases h
                    · exact ihD _ _ _ _ _ (bytes_drop _ hr0) (by simp only [ObjBytesKV]) h
                  · split at h
                    · simp only [] at h
                      split at h
                      · cases h; exact ⟨by simp only [ObjBytes], bytes_drop _ hsk⟩
                      · split at h
                        · cases h; exact ⟨by simp only [ObjBytes], bytes_drop _ hsk⟩
                        · split at h
                          · cases h; exact ⟨by simp only [ObjBytes], bytes_drop _ hsk⟩
                          · cases h
                    · cases h
    · intro d inp acc o r hin hacc h
      have hsk := skipSpace_bytes inp hin
      rw [parseArray] at h
      split at h
      · cases h; exact ⟨by simpa only [ObjBytes] using hacc, bytes_nil⟩
      · split at h
        · cases h
        · next c r0 hs =>
          rw [hs] at hsk
          have hr0 := (bytes_cons.mp hsk).2
          split at h
          · cases h; exact ⟨by simpa only [ObjBytes] using hacc, hr0⟩
          · split at h
            · cases h
            · next o' r' ho' =>
              obtain ⟨h1, h2⟩ := ihO _ _ _ _ hsk ho'
              exact ihA _ _ _ _ _ h2 (objBytesList_snoc _ _ hacc h1) h
    · intro d inp acc o r hin hacc h
      have hsk := skipSpace_bytes inp hin
      rw [parseDict] at h
      split at h
      · cases h; exact ⟨by simpa only [ObjBytes] using hacc, bytes_nil⟩
      · split at h
        · cases h
        · next c r0 hs =>
          rw [hs] at hsk
          have hr0 := (bytes_cons.mp hsk).2
          split at h
          · cases h; exact ⟨by simpa only [ObjBytes] using hacc, bytes_drop _ hr0⟩
          · split at h
            · cases h
            · simp only [] at h
              split at h
              · cases h
              · next o' r' ho' =>
                obtain ⟨h1, h2⟩ := ihO _ _ _ _ (nameLoop_bytes _ hr0) ho'
                exact ihD _ _ _ _ _ h2 (objBytesKV_set _ _ _ hacc h1) h

theorem parseOperand_bytes (f d : Nat) (inp : Str) (o : Obj) (r : Str) (hin : Bytes inp)
    (h : parseOperand f d inp = some (o, r)) : ObjBytes o ∧ Bytes r :=
  (parse_bytes f).1 d inp o r hin h

/-! ### programs -/

/-- every operand of every operation is `ObjBytes` -/
def OpsBytes (ops : List Operation) : Prop := ∀ op ∈ ops, ObjBytesList op.operands

theorem opsBytes_snoc (ops : List Operation) (o : Operation) (h : OpsBytes ops)
    (ho : ObjBytesList o.operands) : OpsBytes (ops ++ [o]) := by
  intro op hop
  cases List.mem_append.mp hop with
  | inl hm => exact h op hm
  | inr hm =>
    cases hm with
    | head => exact ho
    | tail _ hm => cases hm

theorem parseLoop_bytes (n fuel : Nat) (inp : Str) (stack : List Obj) (ops res : List Operation)
    (hin : Bytes inp) (hst : ObjBytesList stack) (hops : OpsBytes ops)
    (h : parseLoop n fuel inp stack ops = some res) : OpsBytes res := by
  induction n generalizing inp stack ops with
  | zero => simp [parseLoop] at h
  | succ n ih =>
    have hsk := skipSpace_bytes inp hin
    rw [parseLoop] at h
    split at h
    · cases h; exact hops
    · next c r0 hs =>
      rw [hs] at hsk
      split at h
      · simp only [] at h
        split at h
        · cases h
        · exact ih _ _ _ (opName_bytes _ _ hsk) (by simp only [ObjBytesList])
            (opsBytes_snoc _ _ hops hst) h
      · split at h
        · cases h
        · next o r' ho =>
          obtain ⟨h1, h2⟩ := parseOperand_bytes _ _ _ _ _ hsk ho
          exact ih _ _ _ h2 (objBytesList_snoc _ _ hst h1) hops h

/-- every string anywhere inside an operand of a parsed content stream is a byte string -/
theorem csParse_objBytes (inp : Str) (hin : Bytes inp) (ops : List Operation) (h : csParse inp = some ops) :
    ∀ op ∈ ops, ∀ o ∈ op.operands, ObjBytes o := by
  intro op hop o ho
  have H : OpsBytes ops :=
    parseLoop_bytes _ _ inp [] [] ops hin (by simp only [ObjBytesList])
      (by intro op hop; cases hop) h
  exact objBytesList_mem _ (H op hop) o ho

/-! ### what the text-showing operators see -/

theorem objBytesList_str (xs : List Obj) (h : ObjBytesList xs) (s : Str) (hs : Obj.str s ∈ xs) :
    Bytes s := by
  have := objBytesList_mem xs h _ hs
  simpa only [ObjBytes] using this

/-- the strings an operand hands to a text-showing operator are byte strings: a string
operand itself, and the string elements of an array operand (`TJ`) -/
def ShowBytes (o : Obj) : Prop :=
  (∀ s, o = .str s → Bytes s) ∧ (∀ xs, o = .arr xs → ∀ s, Obj.str s ∈ xs → Bytes s)

theorem showBytes_of_objBytes (o : Obj) (h : ObjBytes o) : ShowBytes o := by
  refine ⟨?_, ?_⟩
  · intro s hs
    subst hs
    simpa only [ObjBytes] using h
  · intro xs hxs s hs
    subst hxs
    simp only [ObjBytes] at h
    exact objBytesList_str xs h s hs

theorem csParse_showBytes (inp : Str) (hin : Bytes inp) (ops : List Operation) (h : csParse inp = some ops) :
    ∀ op ∈ ops, ∀ o ∈ op.operands, ShowBytes o := by
  intro op hop o ho
  exact showBytes_of_objBytes o (csParse_objBytes inp hin ops h op hop o ho)

end Tabula.Pdf.CS
