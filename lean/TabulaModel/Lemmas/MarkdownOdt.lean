import TabulaModel.Lemmas.MarkdownDocx
/-!
The ODT Markdown writer (`odtLoop`) as a sequence of line segments, and what the reading spec
gives back on them (same plan as `Lemmas/MarkdownDocx.lean`).
-/
namespace Tabula.MarkdownDoc
open Tabula.A1 (Str dec decInt)
open Tabula.Markdown

/-! ## the ODT loop as segments -/

/-- the part of the loop state that decides what is written -/
structure OLs where
  il : Bool
  cs : Ctrs

/-- the list item line without its `\n` -/
def odtItemLine (ord : Str → Int → Bool) (p : OPara) (cs : Ctrs) : Str :=
  ((odtListItem ord p cs).1).dropLast

theorem odtListItem_line (ord : Str → Int → Bool) (p : OPara) (cs : Ctrs) :
    (odtListItem ord p cs).1 = odtItemLine ord p cs ++ [10] := by
  unfold odtItemLine odtListItem
  simp only
  split
  · simp only [List.dropLast_concat]
  · simp only [List.dropLast_concat]

def odtSegStep (excl : Str → Bool) (hl : Int → Int) (ord : Str → Int → Bool) (s : OLs) :
    OElem → List Seg × OLs
  | .para p =>
    if excl p.text then ([], s) else
    let sp := s.il && !p.isListItem
    let sepL : List Str := if sp then [[]] else []
    if p.isHeading then
      ([.plain (sepL ++ [atxLine (hl p.level).toNat p.text, []])], ⟨false, s.cs⟩)
    else if p.isListItem then
      ([.plain (sepL ++ [odtItemLine ord p s.cs])], ⟨true, (odtListItem ord p s.cs).2⟩)
    else if !p.text.isEmpty then
      ([.plain (sepL ++ [p.text, []])], ⟨false, s.cs⟩)
    else ([.plain sepL], ⟨if sp then false else s.il, s.cs⟩)
  | .table t =>
    ([.plain (if s.il then [[]] else []), spanSeg .odt t], ⟨false, s.cs⟩)

def odtSegs (excl : Str → Bool) (hl : Int → Int) (ord : Str → Int → Bool) : OLs → List OElem → List Seg
  | _, [] => []
  | s, e :: es => (odtSegStep excl hl ord s e).1 ++ odtSegs excl hl ord (odtSegStep excl hl ord s e).2 es

def OSt.ls (st : OSt) : OLs := ⟨st.inList, st.ctrs⟩

/-- the loop invariant that makes the `i > 0 && result.Len() > 0` guard redundant -/
def OSt.Good (i : Nat) (st : OSt) : Prop := st.inList = true → 0 < i ∧ st.out ≠ []

theorem odtStep_eq (excl : Str → Bool) (hl : Int → Int) (ord : Str → Int → Bool) (i : Nat) (st : OSt)
    (hg : st.Good i) (e : OElem) :
    odtStep excl hl ord i st e =
      { out := st.out ++ joinLines (segLines (odtSegStep excl hl ord st.ls e).1)
        inList := (odtSegStep excl hl ord st.ls e).2.il
        ctrs := (odtSegStep excl hl ord st.ls e).2.cs } := by
  cases e with
  | para p =>
    unfold odtStep odtSegStep
    by_cases hx : excl p.text = true
    · simp [hx, OSt.ls, segLines, joinLines]
    · simp only [hx, Bool.false_eq_true, if_false]
      -- the guard
      have hguard : ((decide (i > 0) && !st.out.isEmpty) && (st.inList && !p.isListItem))
          = (st.inList && !p.isListItem) := by
        by_cases hil : st.inList = true
        · obtain ⟨hi, ho⟩ := hg hil
          have : st.out.isEmpty = false := by
            cases hout : st.out with
            | nil => exact absurd hout ho
            | cons a b => rfl
          simp [hi, this]
        · have : st.inList = false := by simpa using hil
          simp [this]
      rw [hguard]
      simp only [OSt.ls]
      by_cases hsp : (st.inList && !p.isListItem) = true
      · simp only [hsp, if_true]
        by_cases hh : p.isHeading = true
        · simp [hh, segLines, Seg.lines, joinLines]
        · simp only [hh, Bool.false_eq_true, if_false]
          by_cases hli : p.isListItem = true
          · simp [hli, segLines, Seg.lines, joinLines, odtListItem_line]
          · simp only [hli, Bool.false_eq_true, if_false]
            by_cases ht : (!p.text.isEmpty) = true
            · simp [ht, segLines, Seg.lines, joinLines]
            · simp [ht, segLines, Seg.lines, joinLines]
      · simp only [hsp, Bool.false_eq_true, if_false]
        by_cases hh : p.isHeading = true
        · simp [hh, segLines, Seg.lines, joinLines]
        · simp only [hh, Bool.false_eq_true, if_false]
          by_cases hli : p.isListItem = true
          · simp [hli, segLines, Seg.lines, joinLines, odtListItem_line]
          · simp only [hli, Bool.false_eq_true, if_false]
            by_cases ht : (!p.text.isEmpty) = true
            · simp [ht, segLines, Seg.lines, joinLines]
            · simp [ht, segLines, Seg.lines, joinLines]
  | table t =>
    unfold odtStep odtSegStep
    simp only [OSt.ls]
    have hs := spanSeg_lines .odt t
    by_cases hil : st.inList = true
    · simp only [hil, if_true, segLines, List.flatMap_cons, List.flatMap_nil, List.append_nil,
        joinLines_append]
      rw [← hs]
      simp [Seg.lines, joinLines]
    · have : st.inList = false := by simpa using hil
      simp only [this, Bool.false_eq_true, if_false, segLines, List.flatMap_cons, List.flatMap_nil,
        List.append_nil, joinLines_append]
      rw [← hs]
      simp [Seg.lines, joinLines]

theorem odtStep_good (excl : Str → Bool) (hl : Int → Int) (ord : Str → Int → Bool) (i : Nat) (st : OSt)
    (hg : st.Good i) (e : OElem) : (odtStep excl hl ord i st e).Good (i + 1) := by
  intro hil
  refine ⟨by omega, ?_⟩
  rw [odtStep_eq excl hl ord i st hg e] at hil ⊢
  simp only at hil ⊢
  cases e with
  | table t => simp [odtSegStep] at hil
  | para p =>
    unfold odtSegStep at hil ⊢
    by_cases hx : excl p.text = true
    · simp only [hx, if_true] at hil ⊢
      simp only [OSt.ls] at hil
      simpa [segLines, joinLines] using (hg hil).2
    · simp only [hx, Bool.false_eq_true, if_false] at hil ⊢
      by_cases hh : p.isHeading = true
      · simp [hh] at hil
      · simp only [hh, Bool.false_eq_true, if_false] at hil ⊢
        by_cases hli : p.isListItem = true
        · simp [hli, segLines, Seg.lines, joinLines]
        · simp only [hli, Bool.false_eq_true, if_false] at hil ⊢
          by_cases ht : (!p.text.isEmpty) = true
          · simp [ht] at hil
          · simp only [ht, Bool.false_eq_true, if_false] at hil ⊢
            simp only [OSt.ls] at hil ⊢
            exfalso
            by_cases hin : st.inList = true
            · simp [hin] at hil
            · have hf : st.inList = false := by simpa using hin
              simp [hf] at hil

theorem odtLoop_out (excl : Str → Bool) (hl : Int → Int) (ord : Str → Int → Bool) (els : List OElem) :
    ∀ (i : Nat) (st : OSt), st.Good i →
      (odtLoop excl hl ord i st els).out = st.out ++ joinLines (segLines (odtSegs excl hl ord st.ls els)) := by
  induction els with
  | nil => intro i st _; simp [odtLoop, odtSegs, segLines, joinLines]
  | cons e es ih =>
    intro i st hg
    unfold odtLoop odtSegs
    rw [ih (i + 1) _ (odtStep_good excl hl ord i st hg e)]
    rw [odtStep_eq excl hl ord i st hg e]
    simp only [OSt.ls, segLines_append, joinLines_append, List.append_assoc]

/-- is the item written as an ordered one -/
def odtOrdered (ord : Str → Int → Bool) (p : OPara) : Bool := !p.styleName.isEmpty && ord p.styleName p.listLevel

/-- the counters after one list item, and the item line as a `listLine` -/
theorem odtListItem_spec (ord : Str → Int → Bool) (p : OPara) (cs : Ctrs) (hcs : ctrsNN cs) :
    ctrsNN (odtListItem ord p cs).2 ∧
      ∃ num, odtItemLine ord p cs = listLine ⟨p.listLevel.toNat, odtOrdered ord p, num, p.text⟩ := by
  have hline := odtListItem_line ord p cs
  have h2 := ctrNN_get cs p.styleName hcs
  cases ho : odtOrdered ord p with
  | false =>
    have ho' : (!p.styleName.isEmpty && ord p.styleName p.listLevel) = false := ho
    have e1 : (odtListItem ord p cs).1 = (indent2 p.listLevel ++ [45, 32] ++ p.text) ++ [10] := by
      simp [odtListItem, ho']
    have e2 : (odtListItem ord p cs).2 = cs := by
      simp [odtListItem, ho']
    rw [e2]
    refine ⟨hcs, 1, ?_⟩
    have := List.append_cancel_right (hline.symm.trans e1)
    rw [this]
    simp [listLine, indent2]
  | true =>
    have ho' : (!p.styleName.isEmpty && ord p.styleName p.listLevel) = true := ho
    have h3 := ctrGet_nonneg (ctrsGet cs p.styleName) p.listLevel h2
    have e1 : (odtListItem ord p cs).1 =
        (indent2 p.listLevel ++ decInt (ctrGet (ctrsGet cs p.styleName) p.listLevel + 1)
          ++ [46, 32] ++ p.text) ++ [10] := by
      simp [odtListItem, ho']
    have e2 : (odtListItem ord p cs).2 = ctrsSet cs p.styleName
        (ctrSet (ctrsGet cs p.styleName) p.listLevel (ctrGet (ctrsGet cs p.styleName) p.listLevel + 1)) := by
      simp [odtListItem, ho']
    rw [e2]
    refine ⟨ctrsNN_set _ _ _ hcs (ctrNN_set _ _ _ h2 (by omega)), ?_⟩
    refine ⟨(ctrGet (ctrsGet cs p.styleName) p.listLevel + 1).toNat, ?_⟩
    have := List.append_cancel_right (hline.symm.trans e1)
    rw [this, decInt_nonneg _ (by omega)]
    simp [listLine, indent2]

/-! ## what the reader finds in the segments -/

def oHeadings (excl : Str → Bool) (hl : Int → Int) (els : List OElem) : List (Nat × Str) :=
  els.filterMap fun
    | .para p => if !excl p.text && p.isHeading then some ((hl p.level).toNat, p.text) else none
    | .table _ => none

def oItems (excl : Str → Bool) (ord : Str → Int → Bool) (els : List OElem) : List (Nat × Bool × Str) :=
  els.filterMap fun
    | .para p =>
      if !excl p.text && !p.isHeading && p.isListItem then
        some (p.listLevel.toNat, odtOrdered ord p, p.text)
      else none
    | .table _ => none

def oParas (excl : Str → Bool) (els : List OElem) : List Str :=
  els.filterMap fun
    | .para p => if !excl p.text && !p.isHeading && !p.isListItem && !p.text.isEmpty then some p.text else none
    | .table _ => none

def oTables (els : List OElem) : List (List (List SCell)) :=
  els.filterMap fun
    | .para _ => none
    | .table t => if colCount t = 0 then none else some t

/-- well-formed input of the DOCX writer for the read-back theorems -/
structure OdtWF (excl : Str → Bool) (hl : Int → Int) (ord : Str → Int → Bool) (els : List OElem) : Prop where
  /-- heading levels come out in 1..6 -/
  hlRange : ∀ l, 1 ≤ (hl l).toNat ∧ (hl l).toNat ≤ 6
  /-- paragraph texts are single lines -/
  noNl : ∀ p, OElem.para p ∈ els → 10 ∉ p.text
  /-- body paragraphs are paragraph text for a Markdown reader (not `# x`, `- x`, `| x`, `---`, …) -/
  plain : ∀ p, OElem.para p ∈ els → excl p.text = false → p.isHeading = false → p.isListItem = false →
    p.text.isEmpty = false → classify p.text = .para

theorem OdtWF.tail {excl hl ord e es} (h : OdtWF excl hl ord (e :: es)) : OdtWF excl hl ord es :=
  ⟨h.hlRange, fun p hp => h.noNl p (List.mem_cons_of_mem _ hp),
   fun p hp => h.plain p (List.mem_cons_of_mem _ hp)⟩

theorem classify_para_props' (l : Str) (h : classify l = .para) :
    headingOf l = none ∧ itemOf l = none ∧ isPara l = true ∧ isPipeLine l = false ∧ l ≠ hrLine ∧ l ≠ tocTitle := by
  refine ⟨by simp [headingOf, h], by simp [itemOf, h], by simp [isPara, h], ?_, ?_, ?_⟩
  · cases hp : isPipeLine l with
    | false => rfl
    | true => rw [classify_of_isPipe l hp] at h; cases h
  · intro e; rw [e] at h; revert h; decide
  · intro e; rw [e] at h; revert h; decide

/-- the facts about one step that all projections use -/
theorem odtSegStep_facts (excl : Str → Bool) (hl : Int → Int) (ord : Str → Int → Bool) (s : OLs) (e : OElem)
    (es : List OElem) (hwf : OdtWF excl hl ord (e :: es)) (hcs : ctrsNN s.cs) :
    ctrsNN (odtSegStep excl hl ord s e).2.cs ∧
    (∀ sg ∈ (odtSegStep excl hl ord s e).1, sg.OK) ∧
    (∀ l ∈ segLines (odtSegStep excl hl ord s e).1, 10 ∉ l ∧ l ≠ hrLine) ∧
    (segPlain (odtSegStep excl hl ord s e).1).filterMap headingOf = oHeadings excl hl [e] ∧
    (segPlain (odtSegStep excl hl ord s e).1).filterMap itemOf = oItems excl ord [e] ∧
    (segPlain (odtSegStep excl hl ord s e).1).filter isPara = oParas excl [e] ∧
    segTables (odtSegStep excl hl ord s e).1 = (oTables [e]).map (spanLines .odt) := by
  have hnil : (10 ∉ ([] : Str) ∧ ([] : Str) ≠ hrLine) := by simp [hrLine]
  -- the separator lines
  have hsep : ∀ (b : Bool), (∀ l ∈ (if b = true then [([] : Str)] else []), isPipeLine l = false) ∧
      (∀ l ∈ (if b = true then [([] : Str)] else []), 10 ∉ l ∧ l ≠ hrLine) ∧
      (if b = true then [([] : Str)] else []).filterMap headingOf = [] ∧
      (if b = true then [([] : Str)] else []).filterMap itemOf = [] ∧
      (if b = true then [([] : Str)] else []).filter isPara = [] := by
    intro b; cases b <;> simp [headingOf_nil, itemOf_nil, isPara_nil, isPipeLine, hrLine]
  cases e with
  | table t =>
    have hOK := spanSeg_OK .odt t
    obtain ⟨ht1, ht2, ht3, ht4, ht5⟩ := hsep s.il
    refine ⟨hcs, ?_, ?_, ?_, ?_, ?_, ?_⟩
    · intro sg hsg
      simp only [odtSegStep, List.mem_cons, List.not_mem_nil, or_false] at hsg
      rcases hsg with rfl | rfl
      · exact ht1
      · exact hOK
    · intro l hl'
      simp only [odtSegStep, segLines, List.flatMap_cons, List.flatMap_nil, List.append_nil,
        List.mem_append] at hl'
      rcases hl' with hl' | hl'
      · exact ht2 l hl'
      · by_cases hc : colCount t = 0
        · simp [spanSeg, hc, Seg.lines] at hl'; subst hl'; exact hnil
        · simp only [spanSeg, hc, if_false, Seg.lines, List.mem_append, List.mem_singleton] at hl'
          rcases hl' with hl' | rfl
          · refine ⟨spanLines_noNl .odt t l hl', ?_⟩
            intro e
            have := spanLines_pipe .odt t l hl'
            rw [e] at this; exact absurd this (by decide)
          · exact hnil
    · by_cases hc : colCount t = 0 <;>
        simp [odtSegStep, segPlain, oHeadings, spanSeg, hc, ht3, headingOf_nil]
    · by_cases hc : colCount t = 0 <;>
        simp [odtSegStep, segPlain, oItems, spanSeg, hc, ht4, itemOf_nil]
    · by_cases hc : colCount t = 0 <;>
        simp [odtSegStep, segPlain, oParas, spanSeg, hc, ht5, isPara_nil]
    · by_cases hc : colCount t = 0 <;>
        simp [odtSegStep, segTables, oTables, spanSeg, hc]
  | para p =>
    have hnl := hwf.noNl p (by simp)
    have hr := hwf.hlRange p.level
    by_cases hx : excl p.text = true
    · simp [odtSegStep, hx, hcs, segLines, segPlain, segTables, oHeadings, oItems, oParas, oTables]
    · have hx' : excl p.text = false := by simpa using hx
      obtain ⟨hs1, hs2, hs3, hs4, hs5⟩ := hsep (s.il && !p.isListItem)
      generalize hgen : (if (s.il && !p.isListItem) = true then [([] : Str)] else []) = sepL
        at hs1 hs2 hs3 hs4 hs5
      by_cases hh : p.isHeading = true
      · -- heading
        have hatx := hr.1
        have hnlA : 10 ∉ atxLine (hl p.level).toNat p.text := by
          unfold atxLine
          intro hm
          rcases List.mem_append.mp hm with hm | hm
          · have := List.eq_of_mem_replicate hm; omega
          · rcases List.mem_cons.mp hm with hm | hm
            · omega
            · exact hnl hm
        have hhrA : atxLine (hl p.level).toNat p.text ≠ hrLine := by
          intro e
          have := classify_atxLine (hl p.level).toNat p.text hatx
          rw [e] at this
          have h2 : classify hrLine = .skip := by decide
          rw [h2] at this; cases this
        simp only [odtSegStep, hx', Bool.false_eq_true, if_false, hh, if_true, hgen]
        refine ⟨hcs, ?_, ?_, ?_, ?_, ?_, ?_⟩
        · intro sg hsg
          simp only [List.mem_singleton] at hsg; subst hsg
          intro l hl'
          rcases List.mem_append.mp hl' with hl' | hl'
          · exact hs1 l hl'
          · simp only [List.mem_cons, List.not_mem_nil, or_false] at hl'
            rcases hl' with rfl | rfl
            · exact isPipeLine_atxLine _ _ hatx
            · rfl
        · intro l hl'
          simp only [segLines, List.flatMap_cons, List.flatMap_nil, List.append_nil, Seg.lines] at hl'
          rcases List.mem_append.mp hl' with hl' | hl'
          · exact hs2 l hl'
          · simp only [List.mem_cons, List.not_mem_nil, or_false] at hl'
            rcases hl' with rfl | rfl
            · exact ⟨hnlA, hhrA⟩
            · exact hnil
        · simp [segPlain, oHeadings, hx', hh, hs3, headingOf_atxLine _ _ hatx, headingOf_nil]
        · simp [segPlain, oItems, hx', hh, hs4, itemOf_atxLine _ _ hatx, itemOf_nil]
        · simp [segPlain, oParas, hx', hh, hs5, isPara_atxLine _ _ hatx, isPara_nil]
        · simp [segTables, oTables]
      · have hh' : p.isHeading = false := by simpa using hh
        by_cases hli : p.isListItem = true
        · -- list item
          obtain ⟨hs1, hs2, hs3, hs4, hs5⟩ := hsep (s.il && !true)
          generalize hgen : (if (s.il && !true) = true then [([] : Str)] else []) = sepL at hs1 hs2 hs3 hs4 hs5
          obtain ⟨hcs', num, hline⟩ := odtListItem_spec ord p s.cs hcs
          obtain ⟨c, r, hcr, hc, hnb, hhrI⟩ := listLine_shape ⟨p.listLevel.toNat, odtOrdered ord p, num, p.text⟩
          have hnlI : 10 ∉ odtItemLine ord p s.cs := by
            rw [hline]
            unfold listLine
            intro hm
            simp only [List.mem_append] at hm
            rcases hm with (hm | hm) | hm
            · have := List.eq_of_mem_replicate hm; omega
            · split at hm
              · rcases List.mem_append.mp hm with h1 | h1
                · have := dec_digits num 10 h1; simp [isDigit] at this
                · simp at h1
              · simp at hm
            · exact hnl hm
          simp only [odtSegStep, hx', Bool.false_eq_true, if_false, hh', hli, if_true, hgen]
          refine ⟨hcs', ?_, ?_, ?_, ?_, ?_, ?_⟩
          · intro sg hsg
            simp only [List.mem_singleton] at hsg; subst hsg
            intro l hl'
            rcases List.mem_append.mp hl' with hl' | hl'
            · exact hs1 l hl'
            · simp only [List.mem_singleton] at hl'; subst hl'
              rw [hline]; exact isPipeLine_listLine _
          · intro l hl'
            simp only [segLines, List.flatMap_cons, List.flatMap_nil, List.append_nil, Seg.lines] at hl'
            rcases List.mem_append.mp hl' with hl' | hl'
            · exact hs2 l hl'
            · simp only [List.mem_singleton] at hl'; subst hl'
              exact ⟨hnlI, by rw [hline]; exact hhrI⟩
          · simp [segPlain, oHeadings, hx', hh', hs3, hline, headingOf_listLine]
          · simp [segPlain, oItems, hx', hh', hli, hs4, hline, itemOf_listLine]
          · simp [segPlain, oParas, hx', hh', hli, hs5, hline, isPara_listLine]
          · simp [segTables, oTables]
        · have hli' : p.isListItem = false := by simpa using hli
          obtain ⟨hs1, hs2, hs3, hs4, hs5⟩ := hsep (s.il && !false)
          generalize hgen : (if (s.il && !false) = true then [([] : Str)] else []) = sepL at hs1 hs2 hs3 hs4 hs5
          by_cases ht : p.text.isEmpty = true
          · -- nothing but the separator
            simp only [odtSegStep, hx', Bool.false_eq_true, if_false, hh', hli', ht, Bool.not_true, hgen]
            refine ⟨hcs, ?_, ?_, ?_, ?_, ?_, ?_⟩
            · intro sg hsg
              simp only [List.mem_singleton] at hsg; subst hsg
              exact hs1
            · intro l hl'
              simp only [segLines, List.flatMap_cons, List.flatMap_nil, List.append_nil, Seg.lines] at hl'
              exact hs2 l hl'
            · simp [segPlain, oHeadings, hx', hh', hs3]
            · simp [segPlain, oItems, hx', hh', hli', hs4]
            · have hte : p.text = [] := by simpa using ht
              simp [segPlain, oParas, hx', hh', hli', hte, hs5]
            · simp [segTables, oTables]
          · have ht' : p.text.isEmpty = false := by simpa using ht
            clear hs1 hs2 hs3 hs4 hs5 hgen
            obtain ⟨hs1, hs2, hs3, hs4, hs5⟩ := hsep (s.il && true)
            generalize hgen : (if (s.il && true) = true then [([] : Str)] else []) = sepL' at hs1 hs2 hs3 hs4 hs5
            obtain ⟨hp1, hp2, hp3, hp4, hp5, _⟩ := classify_para_props p.text (hwf.plain p (by simp) hx' hh' hli' ht')
            simp only [odtSegStep, hx', Bool.false_eq_true, if_false, hh', hli', ht', Bool.not_false, if_true, hgen]
            refine ⟨hcs, ?_, ?_, ?_, ?_, ?_, ?_⟩
            · intro sg hsg
              simp only [List.mem_singleton] at hsg; subst hsg
              intro l hl'
              rcases List.mem_append.mp hl' with hl' | hl'
              · exact hs1 l hl'
              · simp only [List.mem_cons, List.not_mem_nil, or_false] at hl'
                rcases hl' with rfl | rfl
                · exact hp4
                · rfl
            · intro l hl'
              simp only [segLines, List.flatMap_cons, List.flatMap_nil, List.append_nil, Seg.lines] at hl'
              rcases List.mem_append.mp hl' with hl' | hl'
              · exact hs2 l hl'
              · simp only [List.mem_cons, List.not_mem_nil, or_false] at hl'
                rcases hl' with rfl | rfl
                · exact ⟨hnl, hp5⟩
                · exact hnil
            · simp [segPlain, oHeadings, hx', hh', hs3, hp1, headingOf_nil]
            · simp [segPlain, oItems, hx', hh', hli', hs4, hp2, itemOf_nil]
            · have htne : p.text ≠ [] := by simpa using ht'
              simp [segPlain, oParas, hx', hh', hli', htne, hs5, hp3, isPara_nil]
            · simp [segTables, oTables]

theorem oHeadings_cons (excl : Str → Bool) (hl : Int → Int) (e : OElem) (es : List OElem) :
    oHeadings excl hl (e :: es) = oHeadings excl hl [e] ++ oHeadings excl hl es := by
  simp only [oHeadings, List.filterMap_cons, List.filterMap_nil]
  split <;> simp
theorem oItems_cons (excl : Str → Bool) (ord : Str → Int → Bool) (e : OElem) (es : List OElem) :
    oItems excl ord (e :: es) = oItems excl ord [e] ++ oItems excl ord es := by
  simp only [oItems, List.filterMap_cons, List.filterMap_nil]
  split <;> simp
theorem oParas_cons (excl : Str → Bool) (e : OElem) (es : List OElem) :
    oParas excl (e :: es) = oParas excl [e] ++ oParas excl es := by
  simp only [oParas, List.filterMap_cons, List.filterMap_nil]
  split <;> simp
theorem oTables_cons (e : OElem) (es : List OElem) : oTables (e :: es) = oTables [e] ++ oTables es := by
  simp only [oTables, List.filterMap_cons, List.filterMap_nil]
  split <;> simp

/-- the segments of the whole loop: well-formed, and what the reader's projections find in them -/
theorem odtSegs_facts (excl : Str → Bool) (hl : Int → Int) (ord : Str → Int → Bool) (els : List OElem) :
    ∀ (s : OLs), OdtWF excl hl ord els → ctrsNN s.cs →
    (∀ sg ∈ odtSegs excl hl ord s els, sg.OK) ∧
    (∀ l ∈ segLines (odtSegs excl hl ord s els), 10 ∉ l ∧ l ≠ hrLine) ∧
    (segPlain (odtSegs excl hl ord s els)).filterMap headingOf = oHeadings excl hl els ∧
    (segPlain (odtSegs excl hl ord s els)).filterMap itemOf = oItems excl ord els ∧
    (segPlain (odtSegs excl hl ord s els)).filter isPara = oParas excl els ∧
    segTables (odtSegs excl hl ord s els) = (oTables els).map (spanLines .odt) := by
  induction els with
  | nil => intro s _ _; simp [odtSegs, segLines, segPlain, segTables, oHeadings, oItems, oParas, oTables]
  | cons e es ih =>
    intro s hwf hcs
    obtain ⟨f1, f2, f3, f4, f5, f6, f7⟩ := odtSegStep_facts excl hl ord s e es hwf hcs
    obtain ⟨g2, g3, g4, g5, g6, g7⟩ := ih (odtSegStep excl hl ord s e).2 hwf.tail f1
    unfold odtSegs
    refine ⟨?_, ?_, ?_, ?_, ?_, ?_⟩
    · intro sg hsg
      rcases List.mem_append.mp hsg with h | h
      · exact f2 sg h
      · exact g2 sg h
    · intro l hl'
      rw [segLines_append] at hl'
      rcases List.mem_append.mp hl' with h | h
      · exact f3 l h
      · exact g3 l h
    · rw [segPlain_append, List.filterMap_append, f4, g4, ← oHeadings_cons]
    · rw [segPlain_append, List.filterMap_append, f5, g5, ← oItems_cons]
    · rw [segPlain_append, List.filter_append, f6, g6, ← oParas_cons]
    · rw [segTables_append, f7, g7, ← List.map_append, ← oTables_cons]


/-- the body of a DOCX rendering (the element loop from an empty builder): what the reader finds -/
theorem odt_body_read (excl : Str → Bool) (hl : Int → Int) (ord : Str → Int → Bool) (els : List OElem)
    (hwf : OdtWF excl hl ord els) (htoc : (2, tocText) ∉ oHeadings excl hl els) :
    let L := segLines (odtSegs excl hl ord ⟨false, []⟩ els)
    (∀ l ∈ L, 10 ∉ l) ∧ hrLine ∉ L ∧ tocTitle ∉ L ∧
    readLines L =
      { headings := oHeadings excl hl els, items := oItems excl ord els,
        tables := (oTables els).map fun t => gfmTableL (spanLines .odt t), paras := oParas excl els } := by
  intro L
  obtain ⟨g2, g3, g4, g5, g6, g7⟩ := odtSegs_facts excl hl ord els ⟨false, []⟩ hwf (by intro e he; simp at he)
  have hhr : hrLine ∉ L := fun h => (g3 _ h).2 rfl
  have hh : L.filterMap headingOf = oHeadings excl hl els := by
    rw [← g4]; exact filterMap_segLines headingOf headingOf_nil headingOf_pipe _ g2
  have htt : tocTitle ∉ L := by
    intro h
    apply htoc
    rw [← hh]
    exact List.mem_filterMap.mpr ⟨tocTitle, h, headingOf_tocTitle⟩
  refine ⟨fun l h => (g3 l h).1, hhr, htt, ?_⟩
  rw [readLines_plain L (by
    intro h
    cases hL : L with
    | nil => rw [hL] at h; simp at h
    | cons a b =>
      rw [hL] at h
      simp only [List.head?_cons, Option.some.injEq] at h
      exact hhr (by rw [hL, h]; simp)) htt]
  rw [hh]
  congr 1
  · rw [← g5]; exact filterMap_segLines itemOf itemOf_nil itemOf_pipe _ g2
  · rw [pipeBlocks_segs _ g2, g7, List.map_map]; rfl
  · rw [← g6]; exact filter_segLines isPara isPara_nil isPara_pipe _ g2

end Tabula.MarkdownDoc
