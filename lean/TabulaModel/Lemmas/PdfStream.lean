import TabulaModel.Lemmas.PdfErrors
/-!
The keyword `stream` stops the parser's lookahead (core/parser.go `nextToken`: "don't try to read the next
token because it's binary data"): when `stream` becomes the current token the lexer stands exactly behind the
keyword and nothing of the stream data has been tokenized — for EVERY input.  This is the C06 half of the
interplay `ParseIndirectObject` / `parseStream` / `/Length` (the other half — SkipStreamEOL, ReadBytes(length),
`endstream` — is modelled in `Model/XrefFile.lean` and proved in `Props/C04Bytes.lean`).  Core Lean only.
-/
namespace Tabula.Pdf
namespace Strm
open Prog Errs

/-- the window on bytes that start with the keyword `stream`: the keyword is current, the lookahead slot is
empty, and the unread input is exactly what follows the keyword -/
theorem stateAt_stream (y r : Str) (h : tok y = some (.keyword kwStream, r)) :
    stateAt y = { cur := some (.keyword kwStream), peek := none, inp := r, err := false } := by
  rw [stateAt_def, half_of_tok y _ r h]
  unfold PState.next
  simp only [if_true]

/-- `ParseObject` never consumes the keyword `stream`, and when it stops in front of it the lexer has read
nothing behind it: the state is the one above, `inp` is the untouched stream data (with its end-of-line marker) -/
theorem stops_at_stream (f d : Nat) (x : Str) (o : Obj) (s' : PState)
    (h : parseObject f d (stateAt x) = .ok (o, s')) (hc : s'.cur = some (.keyword kwStream)) :
    ∃ y r, Reach x y ∧ tok y = some (.keyword kwStream, r) ∧
      s' = { cur := some (.keyword kwStream), peek := none, inp := r, err := false } ∧ r <:+ x := by
  obtain ⟨y, hy, hr⟩ := (land f).1 d x o s' h
  rw [hy] at hc
  obtain ⟨r, htok⟩ := cur_token y _ hc (by simp)
  refine ⟨y, r, hr, htok, by rw [hy, stateAt_stream y r htok], ?_⟩
  exact List.IsSuffix.trans (tok_progress y _ r htok).1 hr.shorter.1

/-- with `stream` current every parse function fails: the keyword is only ever consumed by `parseStream` -/
theorem stream_is_no_object (f d : Nat) (s : PState) (h : s.cur = some (.keyword kwStream)) :
    parseObject (f + 1) d s = .error .err ∧
    (∀ acc, parseArray (f + 1) d s acc = .error .err) ∧ (∀ acc, parseDict (f + 1) d s acc = .error .err) := by
  have ho : ∀ g, parseObject (g + 1) d s = .error .err := by
    intro g
    rw [parseObject, h]
    have h1 : kwStream ≠ kwNull := by decide
    have h2 : kwStream ≠ kwTrue := by decide
    have h3 : kwStream ≠ kwFalse := by decide
    simp only [h1, h2, h3, if_false]
  refine ⟨ho f, ?_, ?_⟩
  · intro acc
    rw [parseArray, h]
    dsimp only
    cases f with
    | zero => rw [parseObject]
    | succ f => rw [ho f]
  · intro acc
    rw [parseDict, h]

end Strm
end Tabula.Pdf
