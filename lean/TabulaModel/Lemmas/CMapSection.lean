import TabulaModel.Lemmas.CMapItems
/-!
What tabula's section parsers (`parseBfCharSection`, `parseBfRangeSection`) do to the CMap
state when they are given the text the independent writer (`Model/CMapRender.lean`) produces
for one section, for every formatting policy, and what `Lookup` computes inside an offset
range (`rangeText_run`).
-/
namespace Tabula.CMap
open Tabula.UTF16

/-! ## hex in either case -/

/-- an ASCII hex digit (either case) -/
def IsHexCh (c : Nat) : Prop := (48 ≤ c ∧ c ≤ 57) ∨ (65 ≤ c ∧ c ≤ 70) ∨ (97 ≤ c ∧ c ≤ 102)

theorem hexVal_hexDigitP (up : Bool) (d : Nat) (h : d < 16) : hexVal (hexDigitP up d) = some d := by
  unfold hexDigitP hexVal
  by_cases h10 : d < 10
  · have : 48 ≤ 48 + d ∧ 48 + d ≤ 57 := by omega
    simp [h10, this]
  · cases up with
    | true =>
      have h1 : ¬ (48 ≤ 55 + d ∧ 55 + d ≤ 57) := by omega
      have h2 : ¬ (97 ≤ 55 + d ∧ 55 + d ≤ 102) := by omega
      have h3 : 65 ≤ 55 + d ∧ 55 + d ≤ 70 := by omega
      simp only [h10, if_false, h1, h2, h3, and_self, if_true]
      congr 1
      omega
    | false =>
      have h1 : ¬ (48 ≤ 87 + d ∧ 87 + d ≤ 57) := by omega
      have h2 : 97 ≤ 87 + d ∧ 87 + d ≤ 102 := by omega
      simp only [h10, if_false, h1, h2, and_self, if_true, Bool.false_eq_true]
      congr 1
      omega

theorem hexDigitP_hex (up : Bool) (d : Nat) (h : d < 16) : IsHexCh (hexDigitP up d) := by
  unfold hexDigitP IsHexCh
  split
  · omega
  · split <;> omega

theorem hexOfBytesP_length (up : Bool) (bs : List Nat) : (hexOfBytesP up bs).length = 2 * bs.length := by
  induction bs with
  | nil => rfl
  | cons b t ih => simp only [hexOfBytesP, List.length_cons, ih]; omega

theorem hexOfBytesP_mem (up : Bool) (bs : List Nat) (hb : AllBytes bs) :
    ∀ c ∈ hexOfBytesP up bs, IsHexCh c := by
  induction bs with
  | nil => intro c hc; simp [hexOfBytesP] at hc
  | cons b t ih =>
    intro c hc
    have hb0 : b < 256 := hb b (by simp)
    simp only [hexOfBytesP, List.mem_cons] at hc
    rcases hc with hc | hc | hc
    · subst hc; exact hexDigitP_hex _ _ (by omega)
    · subst hc; exact hexDigitP_hex _ _ (by omega)
    · exact ih (allBytes_tail hb) c hc

theorem hexDecode_hexOfBytesP (up : Bool) (bs : List Nat) (hb : AllBytes bs) :
    hexDecode (hexOfBytesP up bs) = some bs := by
  induction bs with
  | nil => rfl
  | cons b t ih =>
    have hb0 : b < 256 := hb b (by simp)
    simp only [hexOfBytesP, hexDecode, hexVal_hexDigitP _ _ (show b / 16 < 16 by omega),
      hexVal_hexDigitP _ _ (show b % 16 < 16 by omega), ih (allBytes_tail hb)]
    congr 2
    omega

theorem hexDigitsVal_hexOfBytesP (up : Bool) (bs : List Nat) (hb : AllBytes bs) (acc : Nat) :
    hexDigitsVal (hexOfBytesP up bs) acc = some (bs.foldl (fun a b => a * 256 + b) acc) := by
  induction bs generalizing acc with
  | nil => rfl
  | cons b t ih =>
    have hb0 : b < 256 := hb b (by simp)
    simp only [hexOfBytesP, hexDigitsVal, hexVal_hexDigitP _ _ (show b / 16 < 16 by omega),
      hexVal_hexDigitP _ _ (show b % 16 < 16 by omega), List.foldl_cons]
    rw [ih (allBytes_tail hb)]
    congr 2
    omega

/-- `parseHexToUint32` reads the hex text of a non-empty byte string back as its
big-endian value (when that fits 32 bits) -/
theorem parseHex_hexOfBytesP (up : Bool) (bs : List Nat) (hb : AllBytes bs) (hne : bs ≠ [])
    (hv : bs.foldl (fun a b => a * 256 + b) 0 < 4294967296) :
    parseHexToUint32 (hexOfBytesP up bs) = some (bs.foldl (fun a b => a * 256 + b) 0) := by
  unfold parseHexToUint32
  have hl : (hexOfBytesP up bs).length % 2 = 0 := by rw [hexOfBytesP_length]; omega
  simp only [hl, ne_eq, not_true_eq_false, if_false]
  unfold parseUint32
  have hne' : hexOfBytesP up bs ≠ [] := by
    intro h
    have := congrArg List.length h
    rw [hexOfBytesP_length] at this
    cases bs with
    | nil => exact hne rfl
    | cons b t => simp at this
  simp only [hne', if_false]
  rw [hexDigitsVal_hexOfBytesP _ _ hb]
  simp only
  rw [if_pos hv]

/-! ## codes -/

theorem parseHex_codeTok (p : Policy) (w c : Nat) (hw1 : 1 ≤ w) (hw4 : w ≤ 4) (hc : c < 256 ^ w) :
    parseHexToUint32 (codeTok p w c) = some c := by
  unfold codeTok
  have hne : codeBytes w c ≠ [] := by
    intro h
    have := congrArg List.length h
    rw [codeBytes_length] at this
    simp at this; omega
  have hval : (codeBytes w c).foldl (fun a b => a * 256 + b) 0 = c := by
    rw [codeBytes_val, Nat.mod_eq_of_lt hc]
  have := pow256_le w hw4
  rw [parseHex_hexOfBytesP _ _ (codeBytes_bytes w c) hne (by rw [hval]; omega), hval]

theorem codeTok_length (p : Policy) (w c : Nat) : (codeTok p w c).length = 2 * w := by
  unfold codeTok; rw [hexOfBytesP_length, codeBytes_length]

theorem srcWidth_codeTok (p : Policy) (w c : Nat) : srcWidth (codeTok p w c) = w := by
  unfold srcWidth; rw [codeTok_length]; omega

theorem codeTok_ne_nil (p : Policy) (w c : Nat) (hw1 : 1 ≤ w) : codeTok p w c ≠ [] := by
  intro h
  have := congrArg List.length h
  rw [codeTok_length] at this
  simp at this; omega

theorem codeTok_hex (p : Policy) (w c : Nat) : ∀ x ∈ codeTok p w c, IsHexCh x :=
  hexOfBytesP_mem _ _ (codeBytes_bytes w c)

/-! ## targets -/

theorem encodeUnits_ne_nil (t : List Nat) (h : t ≠ []) : encodeUnits t ≠ [] := by
  cases t with
  | nil => exact absurd rfl h
  | cons c r =>
    unfold encodeUnits
    rw [List.flatMap_cons]
    unfold encodeScalar
    split <;> simp

theorem textTok_length (p : Policy) (t : List Nat) : (textTok p t).length = 4 * (encodeUnits t).length := by
  unfold textTok; rw [hexOfBytesP_length, bytesBE_length]; omega

theorem textTok_ne_nil (p : Policy) (t : List Nat) (h : t ≠ []) : textTok p t ≠ [] := by
  intro h0
  have h1 := congrArg List.length h0
  rw [textTok_length] at h1
  have h2 := encodeUnits_ne_nil t h
  cases hu : encodeUnits t with
  | nil => exact h2 hu
  | cons a b => rw [hu] at h1; simp at h1

theorem textTok_hex (p : Policy) (t : List Nat) (ht : AllScalar t) : ∀ x ∈ textTok p t, IsHexCh x :=
  hexOfBytesP_mem _ _ (bytesBE_bytes _ (encodeUnits_lt t ht))

/-- `hexToUnicode` reads back the UTF-16BE hex (either case) of a target text -/
theorem hexToUnicode_textTok (p : Policy) (t : List Nat) (hok : TextOK t) :
    hexToUnicode (textTok p t) = some t := by
  obtain ⟨ht, hne, hbom⟩ := hok
  have hul := encodeUnits_lt t ht
  have hbytes := bytesBE_bytes _ hul
  unfold hexToUnicode textTok
  have hfilter : (hexOfBytesP p.upper (bytesBE (encodeUnits t))).filter
      (fun c => !(c = 32 || c = 9 || c = 10 || c = 13)) = hexOfBytesP p.upper (bytesBE (encodeUnits t)) := by
    rw [List.filter_eq_self]
    intro c hc
    have := hexOfBytesP_mem _ _ hbytes c hc
    unfold IsHexCh at this
    have h1 : c ≠ 32 := by omega
    have h2 : c ≠ 9 := by omega
    have h3 : c ≠ 10 := by omega
    have h4 : c ≠ 13 := by omega
    simp [h1, h2, h3, h4]
  simp only [hfilter]
  have hl : (hexOfBytesP p.upper (bytesBE (encodeUnits t))).length % 2 = 0 := by
    rw [hexOfBytesP_length]; omega
  simp only [hl, ne_eq, not_true_eq_false, if_false]
  rw [hexDecode_hexOfBytesP _ _ hbytes]
  simp only
  cases t with
  | nil => exact absurd rfl hne
  | cons c rest =>
    have hc : IsScalar c := ht c (by simp)
    have hdec : cmapDecodeUTF16BE (bytesBE (encodeUnits (c :: rest))) = some (c :: rest) := by
      unfold cmapDecodeUTF16BE
      have : (bytesBE (encodeUnits (c :: rest))).length % 2 = 0 := by rw [bytesBE_length]; omega
      simp only [this, ne_eq, not_true_eq_false, if_false]
      rw [unitsBE_bytesBE, cmapDecodeUnits_encodeUnits _ ht]
    have hshape : ∃ u0 us, encodeUnits (c :: rest) = u0 :: us ∧ u0 ≠ 0xFEFF ∧ u0 < 65536 := by
      by_cases hb : c < 0x10000
      · refine ⟨c, encodeUnits rest, ?_, ?_, hb⟩
        · simp [encodeUnits, encodeScalar, hb]
        · intro h; apply hbom; simp [h]
      · refine ⟨0xD800 + (c - 0x10000) / 1024, (0xDC00 + (c - 0x10000) % 1024) :: encodeUnits rest, ?_, ?_, ?_⟩
        · simp [encodeUnits, encodeScalar, hb]
        · unfold IsScalar at hc; omega
        · unfold IsScalar at hc; omega
    obtain ⟨u0, us, hus, hu0, hu0lt⟩ := hshape
    rw [hus] at hdec ⊢
    simp only [bytesBE, List.flatMap_cons, List.cons_append, List.nil_append] at hdec ⊢
    split
    · rename_i r heq
      simp only [List.cons.injEq] at heq
      omega
    · exact hdec
    · rename_i heq; simp at heq
    · rename_i heq; simp at heq

/-- a one-unit destination of a `bfrange` is read as a number -/
theorem parseBfRangeDst_textTok_one (p : Policy) (t : List Nat) (u : Nat) (ht : AllScalar t)
    (hu : encodeUnits t = [u]) : parseBfRangeDst (textTok p t) = some (u, []) := by
  have hlen : (textTok p t).length = 4 := by rw [textTok_length, hu]; rfl
  have hult : u < 65536 := encodeUnits_lt t ht u (by rw [hu]; simp)
  have hparse : parseHexToUint32 (textTok p t) = some u := by
    unfold textTok
    rw [hu]
    have hb : AllBytes (bytesBE [u]) := bytesBE_bytes _ (by intro x hx; simp at hx; omega)
    have hval : (bytesBE [u]).foldl (fun a b => a * 256 + b) 0 = u := by
      simp [bytesBE]; omega
    rw [parseHex_hexOfBytesP _ _ hb (by simp [bytesBE]) (by rw [hval]; omega), hval]
  have h1 : (textTok p t).length % 2 = 0 := by omega
  have h2 : ¬ ((textTok p t).length > 4 ∧ (textTok p t).length % 4 = 0) := by omega
  unfold parseBfRangeDst
  simp only [h1, ne_eq, not_true_eq_false, if_false, h2, hparse, Option.map_some]

/-- a destination of two or more units is kept as its code units -/
theorem parseBfRangeDst_textTok_many (p : Policy) (t : List Nat) (ht : AllScalar t)
    (hl : 2 ≤ (encodeUnits t).length) : parseBfRangeDst (textTok p t) = some (0, encodeUnits t) := by
  have hlen := textTok_length p t
  have h1 : (textTok p t).length % 2 = 0 := by omega
  have h2 : (textTok p t).length > 4 ∧ (textTok p t).length % 4 = 0 := by omega
  have hdec : hexDecode (textTok p t) = some (bytesBE (encodeUnits t)) := by
    unfold textTok
    exact hexDecode_hexOfBytesP _ _ (bytesBE_bytes _ (encodeUnits_lt t ht))
  unfold parseBfRangeDst
  simp only [h1, ne_eq, not_true_eq_false, if_false, h2, and_self, if_true, hdec, Option.map_some,
    unitsBE_bytesBE]

/-! ## the scanners on `(token, filler)` streams -/

/-- a character of the white space the writer puts between tokens -/
def IsFill (c : Nat) : Prop := c = 32 ∨ c = 13 ∨ c = 10

theorem eol_fill (p : Policy) : ∀ c ∈ p.eol, IsFill c := by
  intro c hc
  unfold Policy.eol at hc
  unfold IsFill
  split at hc
  · simp at hc; omega
  · split at hc <;> simp at hc <;> omega

theorem sep_fill (p : Policy) : ∀ c ∈ p.sep, IsFill c := by
  intro c hc
  unfold Policy.sep at hc
  unfold IsFill
  split at hc <;> simp at hc
  omega

/-- fillers are white space, hex tokens consist of hex digits -/
def StreamOK (l : List (Tok × Str)) : Prop :=
  ∀ tf ∈ l, (∀ c ∈ tf.2, IsFill c) ∧ (∀ h, tf.1 = Tok.hex h → ∀ c ∈ h, IsHexCh c)

theorem streamOK_tail {a : Tok × Str} {l : List (Tok × Str)} (h : StreamOK (a :: l)) : StreamOK l :=
  fun tf htf => h tf (List.mem_cons_of_mem _ htf)

theorem streamOK_append {a b : List (Tok × Str)} (ha : StreamOK a) (hb : StreamOK b) : StreamOK (a ++ b) := by
  intro tf htf
  rcases List.mem_append.mp htf with h | h
  · exact ha tf h
  · exact hb tf h

theorem renderToks_cons (tf : Tok × Str) (l : List (Tok × Str)) :
    renderToks (tf :: l) = tf.1.text ++ tf.2 ++ renderToks l := by
  unfold renderToks; rw [List.flatMap_cons]

/-- the hex tokens of a stream -/
def streamHexes : List (Tok × Str) → List Str
  | [] => []
  | (Tok.hex h, _) :: l => h :: streamHexes l
  | _ :: l => streamHexes l

theorem streamHexes_append (a b : List (Tok × Str)) : streamHexes (a ++ b) = streamHexes a ++ streamHexes b := by
  induction a with
  | nil => rfl
  | cons x t ih =>
    obtain ⟨tok, f⟩ := x
    cases tok <;> simp [streamHexes, ih]

theorem tokensAux_skip (pre rest : Str) (h : ∀ c ∈ pre, IsFill c) :
    tokensAux none (pre ++ rest) = tokensAux none rest := by
  induction pre with
  | nil => rfl
  | cons c t ih =>
    have hc := h c (by simp)
    unfold IsFill at hc
    have h1 : c ≠ 60 := by omega
    have h2 : c ≠ 91 := by omega
    have h3 : c ≠ 93 := by omega
    simp only [List.cons_append, tokensAux, h1, h2, h3, if_false]
    exact ih (fun x hx => h x (by simp [hx]))

theorem tokensAux_hex (h : Str) (hno : ∀ c ∈ h, c ≠ 62) (acc rest : Str) :
    tokensAux (some acc) (h ++ 62 :: rest) = Tok.hex (acc.reverse ++ h) :: tokensAux none rest := by
  induction h generalizing acc with
  | nil => simp [tokensAux]
  | cons c t ih =>
    have hc : c ≠ 62 := hno c (by simp)
    simp only [List.cons_append, tokensAux, hc, if_false]
    rw [ih (fun x hx => hno x (by simp [hx]))]
    simp

theorem hexCh_ne_gt (h : Str) (hh : ∀ c ∈ h, IsHexCh c) : ∀ c ∈ h, c ≠ 62 := by
  intro c hc
  have := hh c hc
  unfold IsHexCh at this
  omega

theorem tokensAux_tok (tok : Tok) (fill rest : Str) (hf : ∀ c ∈ fill, IsFill c)
    (hh : ∀ h, tok = Tok.hex h → ∀ c ∈ h, IsHexCh c) :
    tokensAux none (tok.text ++ fill ++ rest) = tok :: tokensAux none rest := by
  cases tok with
  | hex h =>
    have hno := hexCh_ne_gt h (hh h rfl)
    simp only [Tok.text, List.cons_append, List.nil_append, List.append_assoc, tokensAux, if_true]
    rw [tokensAux_hex h hno [] (fill ++ rest), tokensAux_skip fill rest hf]
    simp
  | lbr =>
    simp only [Tok.text, List.cons_append, List.nil_append, tokensAux, if_true,
      show (91 : Nat) ≠ 60 by decide, if_false]
    rw [tokensAux_skip fill rest hf]
  | rbr =>
    simp only [Tok.text, List.cons_append, List.nil_append, tokensAux, if_true,
      show (93 : Nat) ≠ 60 by decide, show (93 : Nat) ≠ 91 by decide, if_false]
    rw [tokensAux_skip fill rest hf]

/-- `bfRangeTokens` recovers exactly the tokens of a rendered stream -/
theorem bfRangeTokens_render (pre : Str) (hpre : ∀ c ∈ pre, IsFill c) (l : List (Tok × Str))
    (hl : StreamOK l) : bfRangeTokens (pre ++ renderToks l) = l.map (·.1) := by
  unfold bfRangeTokens
  rw [tokensAux_skip pre _ hpre]
  induction l with
  | nil => rfl
  | cons tf l ih =>
    rw [renderToks_cons, tokensAux_tok tf.1 tf.2 _ (hl tf (by simp)).1 (hl tf (by simp)).2,
      ih (streamOK_tail hl)]
    rfl

theorem hexAux_skip (pre rest : Str) (h : ∀ c ∈ pre, c ≠ 60) :
    hexStringsAux none (pre ++ rest) = hexStringsAux none rest := by
  induction pre with
  | nil => rfl
  | cons c t ih =>
    have h1 : c ≠ 60 := h c (by simp)
    simp only [List.cons_append, hexStringsAux, h1, if_false]
    exact ih (fun x hx => h x (by simp [hx]))

theorem fill_ne_lt (s : Str) (h : ∀ c ∈ s, IsFill c) : ∀ c ∈ s, c ≠ 60 := by
  intro c hc
  have := h c hc
  unfold IsFill at this
  omega

/-- the `<`…`>` scanner recovers exactly the hex tokens of a rendered stream -/
theorem hexStrings_render (pre : Str) (hpre : ∀ c ∈ pre, IsFill c) (l : List (Tok × Str))
    (hl : StreamOK l) : hexStrings (pre ++ renderToks l) = streamHexes l := by
  unfold hexStrings
  rw [hexAux_skip pre _ (fill_ne_lt pre hpre)]
  induction l with
  | nil => rfl
  | cons tf l ih =>
    obtain ⟨tok, f⟩ := tf
    have hf := fill_ne_lt f (hl (tok, f) (by simp)).1
    have hh := (hl (tok, f) (by simp)).2
    rw [renderToks_cons]
    cases tok with
    | hex h =>
      have hno := hexCh_ne_gt h (hh h rfl)
      simp only [Tok.text, List.cons_append, List.nil_append, List.append_assoc, hexStringsAux, if_true, streamHexes]
      rw [hexAux_token h hno [] (f ++ renderToks l), hexAux_skip f _ hf, ih (streamOK_tail hl)]
      simp
    | lbr =>
      simp only [Tok.text, List.cons_append, List.nil_append, hexStringsAux,
        show (91 : Nat) ≠ 60 by decide, if_false, streamHexes]
      rw [hexAux_skip f _ hf, ih (streamOK_tail hl)]
    | rbr =>
      simp only [Tok.text, List.cons_append, List.nil_append, hexStringsAux,
        show (93 : Nat) ≠ 60 by decide, if_false, streamHexes]
      rw [hexAux_skip f _ hf, ih (streamOK_tail hl)]

/-! ## the rendered stream of a well-formed item -/

theorem runOK_head {w : Nat} {r : Run} (hr : RunOK w r) : r.texts.headD [] ∈ r.texts := by
  obtain ⟨hne, _, _⟩ := hr
  cases h : r.texts with
  | nil => exact absurd h hne
  | cons a t => simp

theorem arrayElems_ok (p : Policy) (n i : Nat) (ts : List (List Nat)) (hts : ∀ t ∈ ts, AllScalar t) :
    StreamOK (arrayElems p n i ts) := by
  induction ts generalizing i with
  | nil => intro tf h; simp [arrayElems] at h
  | cons t ts ih =>
    intro tf h
    simp only [arrayElems, List.mem_cons] at h
    rcases h with h | h
    · subst h
      refine ⟨?_, ?_⟩
      · intro c hc
        simp only at hc
        split at hc
        · exact eol_fill p c hc
        · exact sep_fill p c hc
      · intro h hh
        simp only [Tok.hex.injEq] at hh
        subst hh
        exact textTok_hex p t (hts t (by simp))
    · exact ih (i + 1) (fun x hx => hts x (by simp [hx])) tf h

theorem pair_ok_hex (h f : Str) (hh : ∀ c ∈ h, IsHexCh c) (hf : ∀ c ∈ f, IsFill c) :
    StreamOK [(Tok.hex h, f)] := by
  intro tf htf
  simp only [List.mem_singleton] at htf
  subst htf
  refine ⟨hf, ?_⟩
  intro h' e
  simp only [Tok.hex.injEq] at e
  subst e
  exact hh

theorem pair_ok_lbr (f : Str) (hf : ∀ c ∈ f, IsFill c) : StreamOK [(Tok.lbr, f)] := by
  intro tf htf
  simp only [List.mem_singleton] at htf
  subst htf
  exact ⟨hf, fun h e => by simp at e⟩

theorem pair_ok_rbr (f : Str) (hf : ∀ c ∈ f, IsFill c) : StreamOK [(Tok.rbr, f)] := by
  intro tf htf
  simp only [List.mem_singleton] at htf
  subst htf
  exact ⟨hf, fun h e => by simp at e⟩

theorem itemToks_ok (p : Policy) (w : Nat) (it : Item) (hit : ItemOK w it) : StreamOK (itemToks p w it) := by
  cases it with
  | char c t =>
    have ht : TextOK t := hit.2
    exact streamOK_append (a := [_]) (pair_ok_hex _ _ (codeTok_hex p w c) (sep_fill p))
      (pair_ok_hex _ _ (textTok_hex p t ht.1) (eol_fill p))
  | offset r =>
    have hr : RunOK w r := hit.1
    have ht : TextOK (r.texts.headD []) := hr.2.2 _ (runOK_head hr)
    exact streamOK_append (a := [_]) (pair_ok_hex _ _ (codeTok_hex p w r.lo) (sep_fill p))
      (streamOK_append (a := [_]) (pair_ok_hex _ _ (codeTok_hex p w r.hi) (sep_fill p))
        (pair_ok_hex _ _ (textTok_hex p _ ht.1) (eol_fill p)))
  | array r =>
    have hr : RunOK w r := hit
    unfold itemToks
    refine streamOK_append (streamOK_append ?_ ?_) (pair_ok_rbr _ (eol_fill p))
    · exact streamOK_append (a := [_]) (pair_ok_hex _ _ (codeTok_hex p w r.lo) (sep_fill p))
        (streamOK_append (a := [_]) (pair_ok_hex _ _ (codeTok_hex p w r.hi) (sep_fill p))
          (pair_ok_lbr _ (sep_fill p)))
    · exact arrayElems_ok p _ 0 r.texts (fun t ht => (hr.2.2 t ht).1)

theorem itemsToks_ok (p : Policy) (w : Nat) (items : List Item) (h : ∀ it ∈ items, ItemOK w it) :
    StreamOK (items.flatMap (itemToks p w)) := by
  intro tf htf
  obtain ⟨it, hit, hmem⟩ := List.mem_flatMap.mp htf
  exact itemToks_ok p w it (h it hit) tf hmem

/-! ## what one item does to the state -/

/-- `noteWidth` of a source token of width `w` -/
def widthStep (w : Nat) (cm : CMap) : CMap :=
  if w > cm.actualByteWidth then { cm with actualByteWidth := w } else cm

/-- the specified effect of one item on the CMap state -/
def itemStep (w : Nat) : Item → CMap → CMap
  | .char c t, cm => (widthStep w cm).setChar c t
  | .offset r, cm => { widthStep w cm with ranges := (widthStep w cm).ranges ++ [r.range] }
  | .array r, cm => { cm with chars := r.entries.reverse ++ cm.chars }

theorem noteWidth_codeTok (p : Policy) (w c : Nat) (cm : CMap) :
    cm.noteWidth (codeTok p w c) = widthStep w cm := by
  unfold CMap.noteWidth widthStep
  rw [srcWidth_codeTok]

theorem widthStep_chars (w : Nat) (cm : CMap) : (widthStep w cm).chars = cm.chars := by
  unfold widthStep; split <;> rfl

theorem widthStep_ranges (w : Nat) (cm : CMap) : (widthStep w cm).ranges = cm.ranges := by
  unfold widthStep; split <;> rfl

theorem widthStep_inv (w : Nat) (cm : CMap) (h : WidthInv w cm) : WidthInv w (widthStep w cm) := by
  unfold WidthInv widthStep at *
  split
  · exact ⟨h.1, Or.inr rfl⟩
  · exact h

theorem itemStep_chars (w : Nat) (it : Item) (cm : CMap) :
    (itemStep w it cm).chars = it.chars.reverse ++ cm.chars := by
  cases it with
  | char c t => simp [itemStep, CMap.setChar, widthStep_chars, Item.chars]
  | offset r => simp [itemStep, widthStep_chars, Item.chars]
  | array r => simp [itemStep, Item.chars]

theorem itemStep_ranges (w : Nat) (it : Item) (cm : CMap) :
    (itemStep w it cm).ranges = cm.ranges ++ it.ranges := by
  cases it with
  | char c t => simp [itemStep, CMap.setChar, widthStep_ranges, Item.ranges]
  | offset r => simp [itemStep, widthStep_ranges, Item.ranges]
  | array r => simp [itemStep, Item.ranges]

theorem itemStep_inv (w : Nat) (it : Item) (cm : CMap) (h : WidthInv w cm) : WidthInv w (itemStep w it cm) := by
  cases it with
  | char c t => exact widthStep_inv w cm h
  | offset r => exact widthStep_inv w cm h
  | array r => exact h

/-- the state after a list of items -/
theorem foldl_itemStep_state (w : Nat) (items : List Item) (cm : CMap) (hinv : WidthInv w cm) :
    (items.foldl (fun cm it => itemStep w it cm) cm).chars = (items.flatMap Item.chars).reverse ++ cm.chars ∧
    (items.foldl (fun cm it => itemStep w it cm) cm).ranges = cm.ranges ++ items.flatMap Item.ranges ∧
    WidthInv w (items.foldl (fun cm it => itemStep w it cm) cm) := by
  induction items generalizing cm with
  | nil => simp [hinv]
  | cons it items ih =>
    have := ih (itemStep w it cm) (itemStep_inv w it cm hinv)
    simp only [List.foldl_cons, List.flatMap_cons, List.reverse_append]
    refine ⟨?_, ?_, this.2.2⟩
    · rw [this.1, itemStep_chars, List.append_assoc]
    · rw [this.2.1, itemStep_ranges, List.append_assoc]

/-! ## one item through the parsers' steps -/

theorem bfCharStep_item (p : Policy) (w : Nat) (hw1 : 1 ≤ w) (hw4 : w ≤ 4) (c : Nat) (t : List Nat)
    (hc : c < 256 ^ w) (ht : TextOK t) (cm : CMap) :
    bfCharStep (codeTok p w c) (textTok p t) cm = itemStep w (.char c t) cm := by
  unfold bfCharStep
  simp only [codeTok_ne_nil p w c hw1, textTok_ne_nil p t ht.2.1, or_self, if_false]
  rw [parseHex_codeTok p w c hw1 hw4 hc, hexToUnicode_textTok p t ht, noteWidth_codeTok]
  rfl

/-- the two shapes of the range of a run -/
theorem range_cases (r : Run) :
    (∃ u, encodeUnits (r.texts.headD []) = [u] ∧ r.range = ⟨r.lo, r.hi, u, []⟩) ∨
    ((∀ u, encodeUnits (r.texts.headD []) ≠ [u]) ∧
      r.range = ⟨r.lo, r.hi, 0, encodeUnits (r.texts.headD [])⟩) := by
  unfold Run.range
  split
  · rename_i u heq
    exact Or.inl ⟨u, heq, rfl⟩
  · rename_i hne
    exact Or.inr ⟨fun u hu => hne u hu, rfl⟩

theorem two_le_length (us : List Nat) (h0 : us ≠ []) (h1 : ∀ u, us ≠ [u]) : 2 ≤ us.length := by
  match us, h0, h1 with
  | [], h0, _ => exact absurd rfl h0
  | [u], _, h1 => exact absurd rfl (h1 u)
  | _ :: _ :: _, _, _ => simp

theorem run_hi_lt {w : Nat} {r : Run} (hr : RunOK w r) : r.hi < 256 ^ w := by
  obtain ⟨hne, hle, _⟩ := hr
  unfold Run.hi
  have : 0 < r.texts.length := List.length_pos_iff.mpr hne
  omega

theorem run_lo_lt {w : Nat} {r : Run} (hr : RunOK w r) : r.lo < 256 ^ w := by
  obtain ⟨hne, hle, _⟩ := hr
  have : 0 < r.texts.length := List.length_pos_iff.mpr hne
  omega

theorem parseBfRangeDst_head (p : Policy) (r : Run) (ht : TextOK (r.texts.headD [])) :
    parseBfRangeDst (textTok p (r.texts.headD [])) = some (r.range.startUnicode, r.range.units) := by
  rcases range_cases r with ⟨u, hu, hr⟩ | ⟨hnu, hr⟩
  · rw [hr, parseBfRangeDst_textTok_one p _ u ht.1 hu]
  · rw [hr, parseBfRangeDst_textTok_many p _ ht.1
      (two_le_length _ (encodeUnits_ne_nil _ ht.2.1) hnu)]

theorem range_eta (r : Run) : (⟨r.lo, r.hi, r.range.startUnicode, r.range.units⟩ : Range) = r.range := by
  rcases range_cases r with ⟨u, _, hr⟩ | ⟨_, hr⟩ <;> rw [hr]

theorem bfRangeStep_item (p : Policy) (w : Nat) (hw1 : 1 ≤ w) (hw4 : w ≤ 4) (r : Run) (hr : RunOK w r)
    (cm : CMap) :
    bfRangeStep (codeTok p w r.lo) (codeTok p w r.hi) (textTok p (r.texts.headD [])) cm =
      itemStep w (.offset r) cm := by
  have ht : TextOK (r.texts.headD []) := hr.2.2 _ (runOK_head hr)
  unfold bfRangeStep
  simp only [codeTok_ne_nil p w _ hw1, textTok_ne_nil p _ ht.2.1, or_self, if_false]
  rw [parseHex_codeTok p w r.lo hw1 hw4 (run_lo_lt hr), parseHex_codeTok p w r.hi hw1 hw4 (run_hi_lt hr),
    parseBfRangeDst_head p r ht, noteWidth_codeTok]
  simp only [itemStep, range_eta]

theorem arrayLoop_texts (p : Policy) (ts : List (List Nat)) (cur stop : Nat) (cm : CMap)
    (hts : ∀ t ∈ ts, TextOK t) (h1 : cur + ts.length ≤ stop + 1) (h2 : stop < 4294967296) :
    arrayLoop (ts.map (textTok p)) cur stop cm =
      { cm with chars := (Run.entriesFrom cur ts).reverse ++ cm.chars } := by
  induction ts generalizing cur cm with
  | nil => simp [arrayLoop, Run.entriesFrom]
  | cons t ts ih =>
    have ht : TextOK t := hts t (by simp)
    have hle : cur ≤ stop := by simp only [List.length_cons] at h1; omega
    simp only [List.map_cons, arrayLoop, textTok_ne_nil p t ht.2.1, if_false,
      hexToUnicode_textTok p t ht, hle, if_true]
    cases ts with
    | nil => simp [arrayLoop, Run.entriesFrom, CMap.setChar]
    | cons t2 ts2 =>
      have hlt : cur + 1 < 4294967296 := by simp only [List.length_cons] at h1; omega
      rw [Nat.mod_eq_of_lt hlt, ih (cur + 1) _ (fun x hx => hts x (by simp [hx]))
        (by simp only [List.length_cons] at h1 ⊢; omega)]
      simp [Run.entriesFrom, CMap.setChar]

theorem addBfRangeArray_item (p : Policy) (w : Nat) (hw1 : 1 ≤ w) (hw4 : w ≤ 4) (r : Run) (hr : RunOK w r)
    (cm : CMap) :
    addBfRangeArray (codeTok p w r.lo) (codeTok p w r.hi) (r.texts.map (textTok p)) cm =
      itemStep w (.array r) cm := by
  unfold addBfRangeArray
  rw [parseHex_codeTok p w r.lo hw1 hw4 (run_lo_lt hr), parseHex_codeTok p w r.hi hw1 hw4 (run_hi_lt hr)]
  have hP := pow256_le w hw4
  have hhi := run_hi_lt hr
  have hpos : 0 < r.texts.length := List.length_pos_iff.mpr hr.1
  simp only
  rw [arrayLoop_texts p r.texts r.lo r.hi cm hr.2.2 (by unfold Run.hi; omega) (by omega)]
  rfl

/-! ## a list of items through the parsers' loops -/

theorem bfCharPairs_items (p : Policy) (w : Nat) (hw1 : 1 ≤ w) (hw4 : w ≤ 4) (items : List Item)
    (h : ∀ it ∈ items, ItemOK w it ∧ it.fits .bfchar) (cm : CMap) :
    bfCharPairs (streamHexes (items.flatMap (itemToks p w))) cm =
      items.foldl (fun cm it => itemStep w it cm) cm := by
  induction items generalizing cm with
  | nil => rfl
  | cons it items ih =>
    have hit := h it (by simp)
    cases it with
    | char c t =>
      rw [List.flatMap_cons, streamHexes_append]
      simp only [itemToks, streamHexes, List.cons_append, List.nil_append, bfCharPairs, List.foldl_cons]
      rw [bfCharStep_item p w hw1 hw4 c t hit.1.1 hit.1.2, ih (fun x hx => h x (by simp [hx]))]
    | offset r => exact False.elim hit.2
    | array r => exact False.elim hit.2

theorem bfRangeTriples_items (p : Policy) (w : Nat) (hw1 : 1 ≤ w) (hw4 : w ≤ 4) (items : List Item)
    (h : ∀ it ∈ items, ItemOK w it ∧ it.fits .bfrange) (hna : ∀ r, Item.array r ∉ items) (cm : CMap) :
    bfRangeTriples (streamHexes (items.flatMap (itemToks p w))) cm =
      items.foldl (fun cm it => itemStep w it cm) cm := by
  induction items generalizing cm with
  | nil => rfl
  | cons it items ih =>
    have hit := h it (by simp)
    cases it with
    | char c t => exact False.elim hit.2
    | offset r =>
      rw [List.flatMap_cons, streamHexes_append]
      simp only [itemToks, streamHexes, List.cons_append, List.nil_append, bfRangeTriples, List.foldl_cons]
      rw [bfRangeStep_item p w hw1 hw4 r hit.1.1,
        ih (fun x hx => h x (by simp [hx])) (fun r hr => hna r (by simp [hr]))]
    | array r => exact absurd (by simp) (hna r)

theorem arrayElems_map_fst (p : Policy) (n i : Nat) (ts : List (List Nat)) :
    (arrayElems p n i ts).map (·.1) = (ts.map (textTok p)).map Tok.hex := by
  induction ts generalizing i with
  | nil => rfl
  | cons t ts ih => simp only [arrayElems, List.map_cons, ih]

theorem spanHex_hexes (hs : List Str) (rest : List Tok) :
    spanHex (hs.map Tok.hex ++ Tok.rbr :: rest) = (hs, Tok.rbr :: rest) := by
  induction hs with
  | nil => simp [spanHex]
  | cons h t ih => simp only [List.map_cons, List.cons_append, spanHex, ih]

theorem tokenStep_array (a b : Str) (hs : List Str) (rest : List Tok) (cm : CMap) :
    tokenStep (Tok.hex a :: Tok.hex b :: Tok.lbr :: (hs.map Tok.hex ++ Tok.rbr :: rest)) cm =
      some (rest, addBfRangeArray a b hs cm) := by
  simp only [tokenStep, spanHex_hexes]

/-- the token loop with enough fuel (one step per item, one more to stop) -/
theorem tokenLoop_items (p : Policy) (w : Nat) (hw1 : 1 ≤ w) (hw4 : w ≤ 4) (items : List Item)
    (h : ∀ it ∈ items, ItemOK w it ∧ it.fits .bfrange) (f : Nat) (hf : items.length < f) (cm : CMap) :
    tokenLoop f ((items.flatMap (itemToks p w)).map (·.1)) cm =
      items.foldl (fun cm it => itemStep w it cm) cm := by
  induction items generalizing f cm with
  | nil =>
    cases f with
    | zero => simp at hf
    | succ f => simp [tokenLoop, tokenStep]
  | cons it items ih =>
    have hit := h it (by simp)
    cases f with
    | zero => simp at hf
    | succ f =>
      have hf' : items.length < f := by simp only [List.length_cons] at hf; omega
      have hrest := ih (fun x hx => h x (by simp [hx])) f hf'
      rw [List.flatMap_cons, List.map_append, List.foldl_cons]
      cases it with
      | char c t => exact False.elim hit.2
      | offset r =>
        simp only [itemToks, List.map_cons, List.map_nil, List.cons_append, List.nil_append, tokenLoop,
          tokenStep]
        rw [bfRangeStep_item p w hw1 hw4 r hit.1.1, hrest]
      | array r =>
        have hr : RunOK w r := hit.1
        simp only [itemToks, List.map_cons, List.map_nil, List.map_append, List.cons_append,
          List.nil_append, List.append_assoc, arrayElems_map_fst, tokenLoop, tokenStep_array]
        rw [addBfRangeArray_item p w hw1 hw4 r hr, hrest]

theorem itemToks_length_pos (p : Policy) (w : Nat) (it : Item) : 1 ≤ (itemToks p w it).length := by
  cases it <;> simp [itemToks]

theorem flatMap_itemToks_length (p : Policy) (w : Nat) (items : List Item) :
    items.length ≤ (items.flatMap (itemToks p w)).length := by
  induction items with
  | nil => simp
  | cons it items ih =>
    have := itemToks_length_pos p w it
    simp only [List.flatMap_cons, List.length_append, List.length_cons]
    omega

/-! ## the dispatch of `parseBfRangeSection` -/

theorem indexOf_lbr_none (s : Str) (h : indexOf [91] s = none) : 91 ∉ s := by
  induction s with
  | nil => simp
  | cons c t ih =>
    unfold indexOf at h
    by_cases hc : c = 91
    · subst hc
      simp [List.isPrefixOf] at h
    · split at h
      · exact absurd h (by simp)
      · have ht : indexOf [91] t = none := by
          cases hi : indexOf [91] t with
          | none => rfl
          | some v => rw [hi] at h; simp at h
        intro hm
        rcases List.mem_cons.mp hm with e | e
        · exact hc e.symm
        · exact ih ht e

theorem lbr_mem_text (p : Policy) (w : Nat) (items : List Item) (pre : Str) (r : Run)
    (hmem : Item.array r ∈ items) : 91 ∈ pre ++ renderToks (items.flatMap (itemToks p w)) := by
  apply List.mem_append_right
  unfold renderToks
  refine List.mem_flatMap.mpr ⟨(Tok.lbr, p.sep), ?_, ?_⟩
  · refine List.mem_flatMap.mpr ⟨Item.array r, hmem, ?_⟩
    simp [itemToks]
  · simp [Tok.text]

/-- a well-formed `bfrange` section through `parseBfRangeSection`, item by item -/
theorem parseBfRangeSection_items (p : Policy) (w : Nat) (hw1 : 1 ≤ w) (hw4 : w ≤ 4) (items : List Item)
    (h : ∀ it ∈ items, ItemOK w it ∧ it.fits .bfrange) (cm : CMap) :
    parseBfRangeSection (p.eol ++ renderToks (items.flatMap (itemToks p w))) cm =
      items.foldl (fun cm it => itemStep w it cm) cm := by
  have hok := itemsToks_ok p w items (fun it hit => (h it hit).1)
  unfold parseBfRangeSection
  split
  · unfold parseBfRangeSectionWithArrays
    simp only
    rw [bfRangeTokens_render p.eol (eol_fill p) _ hok]
    apply tokenLoop_items p w hw1 hw4 items h
    rw [List.length_map]
    have := flatMap_itemToks_length p w items
    omega
  · rename_i hc
    have hnone : indexOf [91] (p.eol ++ renderToks (items.flatMap (itemToks p w))) = none := by
      unfold contains at hc
      cases hi : indexOf [91] (p.eol ++ renderToks (items.flatMap (itemToks p w))) with
      | none => rfl
      | some v => rw [hi] at hc; simp at hc
    have hno := indexOf_lbr_none _ hnone
    rw [hexStrings_render p.eol (eol_fill p) _ hok]
    exact bfRangeTriples_items p w hw1 hw4 items h
      (fun r hr => hno (lbr_mem_text p w items p.eol r hr)) cm

theorem parseBfCharSection_items (p : Policy) (w : Nat) (hw1 : 1 ≤ w) (hw4 : w ≤ 4) (items : List Item)
    (h : ∀ it ∈ items, ItemOK w it ∧ it.fits .bfchar) (cm : CMap) :
    parseBfCharSection (p.eol ++ renderToks (items.flatMap (itemToks p w))) cm =
      items.foldl (fun cm it => itemStep w it cm) cm := by
  have hok := itemsToks_ok p w items (fun it hit => (h it hit).1)
  unfold parseBfCharSection
  rw [hexStrings_render p.eol (eol_fill p) _ hok]
  exact bfCharPairs_items p w hw1 hw4 items h cm

theorem bfchar_ranges_nil (items : List Item) (h : ∀ it ∈ items, it.fits .bfchar) :
    items.flatMap Item.ranges = [] := by
  induction items with
  | nil => rfl
  | cons it items ih =>
    rw [List.flatMap_cons, ih (fun x hx => h x (by simp [hx]))]
    have hit := h it (by simp)
    cases it with
    | char c t => rfl
    | offset r => exact False.elim hit
    | array r => exact False.elim hit

/-! ## the section-level facts -/

/-- what `parseBfCharSection` does with the text the writer produces for a well-formed
`bfchar` section (from right after `beginbfchar` to right before `endbfchar`) -/
theorem bfchar_section_state (p : Policy) (w : Nat) (hw1 : 1 ≤ w) (hw4 : w ≤ 4) (s : Section)
    (hk : s.kind = .bfchar) (hs : SectionOK w s) (cm : CMap) (hinv : WidthInv w cm) :
    let cm' := parseBfCharSection (p.eol ++ sectionBody p w s) cm
    cm'.chars = (s.items.flatMap Item.chars).reverse ++ cm.chars ∧ cm'.ranges = cm.ranges ∧ WidthInv w cm' := by
  have h : ∀ it ∈ s.items, ItemOK w it ∧ it.fits .bfchar := by
    intro it hit; have := hs it hit; rw [hk] at this; exact this
  show (parseBfCharSection (p.eol ++ sectionBody p w s) cm).chars = _ ∧
    (parseBfCharSection (p.eol ++ sectionBody p w s) cm).ranges = _ ∧
    WidthInv w (parseBfCharSection (p.eol ++ sectionBody p w s) cm)
  unfold sectionBody
  rw [parseBfCharSection_items p w hw1 hw4 s.items h cm]
  have := foldl_itemStep_state w s.items cm hinv
  rw [bfchar_ranges_nil s.items (fun it hit => (h it hit).2), List.append_nil] at this
  exact this

/-- what `parseBfRangeSection` does with the text the writer produces for a well-formed
`bfrange` section (offset items, array items, or both) -/
theorem bfrange_section_state (p : Policy) (w : Nat) (hw1 : 1 ≤ w) (hw4 : w ≤ 4) (s : Section)
    (hk : s.kind = .bfrange) (hs : SectionOK w s) (cm : CMap) (hinv : WidthInv w cm) :
    let cm' := parseBfRangeSection (p.eol ++ sectionBody p w s) cm
    cm'.chars = (s.items.flatMap Item.chars).reverse ++ cm.chars ∧
    cm'.ranges = cm.ranges ++ s.items.flatMap Item.ranges ∧ WidthInv w cm' := by
  have h : ∀ it ∈ s.items, ItemOK w it ∧ it.fits .bfrange := by
    intro it hit; have := hs it hit; rw [hk] at this; exact this
  show (parseBfRangeSection (p.eol ++ sectionBody p w s) cm).chars = _ ∧
    (parseBfRangeSection (p.eol ++ sectionBody p w s) cm).ranges = _ ∧
    WidthInv w (parseBfRangeSection (p.eol ++ sectionBody p w s) cm)
  unfold sectionBody
  rw [parseBfRangeSection_items p w hw1 hw4 s.items h cm]
  exact foldl_itemStep_state w s.items cm hinv

/-! ## `Lookup` inside an offset range -/

theorem bumpLast_eq (us : List Nat) (hne : us ≠ []) (k : Nat) :
    bumpLast us k = us.dropLast ++ [(us.getLast?.getD 0 + k) % 65536] := by
  induction us with
  | nil => exact absurd rfl hne
  | cons u t ih =>
    cases t with
    | nil => simp [bumpLast]
    | cons v t' =>
      have := ih (by simp)
      simp only [bumpLast, this]
      simp [List.getLast?_cons_cons]

/-- what `Lookup` computes inside an offset range is the run's text -/
theorem rangeText_run (w : Nat) (r : Run) (hr : RunOK w r) (ho : RunOffsetOK r) (i : Nat) (t : List Nat)
    (hi : r.texts[i]? = some t) : rangeText r.range (r.lo + i) = t := by
  have htmem : t ∈ r.texts := List.mem_of_getElem? hi
  have ht : TextOK t := hr.2.2 t htmem
  have ht0 : TextOK (r.texts.headD []) := hr.2.2 _ (runOK_head hr)
  have henc := ho i t hi
  have hdec := stdDecodeUnits_encodeUnits t ht.1
  have hlt := encodeUnits_lt t ht.1
  rcases range_cases r with ⟨u, hu, hrg⟩ | ⟨hnu, hrg⟩
  · rw [hrg]
    unfold rangeText
    simp only [ne_eq, not_true_eq_false, if_false, Nat.add_sub_cancel_left]
    rw [hu] at henc
    have h1 : encodeUnits t = [u + i] := by rw [henc]; simp [bumpUnits]
    have h2 : u + i < 65536 := hlt (u + i) (by rw [h1]; simp)
    rw [h1] at hdec
    simp only [stdDecodeUnits] at hdec
    rw [Nat.mod_eq_of_lt (by omega)]
    exact hdec
  · rw [hrg]
    unfold rangeText
    have hne := encodeUnits_ne_nil _ ht0.2.1
    simp only [ne_eq, hne, not_false_eq_true, if_true, Nat.add_sub_cancel_left]
    rw [bumpLast_eq _ hne]
    have hmem : (encodeUnits (r.texts.headD [])).getLast?.getD 0 + i ∈ encodeUnits t := by
      rw [henc]; simp [bumpUnits]
    rw [Nat.mod_eq_of_lt (hlt _ hmem)]
    unfold bumpUnits at henc
    rw [← henc]
    exact hdec

end Tabula.CMap
