import TabulaModel.Model.A1
namespace Tabula.A1

/-- the column number the letters denote in bijective base 26, without any bound (`none`: a
character that is no letter).  This is the loop of `ColumnToIndex` before the fix that rejects
overflowing column letters, kept as the specification the bounded loop `colAcc` is compared
with (`colAcc_eq_colVal`). -/
def colVal : Str → Nat → Option Nat
  | [], acc => some acc
  | c :: cs, acc =>
    let u := upper c
    if 65 ≤ u && u ≤ 90 then colVal cs (acc * 26 + (u - 65) + 1) else none

/-- the accumulated number only grows -/
theorem colVal_ge (s : Str) (a r : Nat) (h : colVal s a = some r) : a ≤ r := by
  induction s generalizing a with
  | nil => simp [colVal] at h; omega
  | cons c cs ih =>
    simp only [colVal] at h
    split at h
    · have := ih _ h; omega
    · cases h

/-- **the bounded loop is the unbounded number cut at `maxColumnNumber`**: the test after every
letter rejects exactly the strings whose number exceeds the bound (the number only grows) -/
theorem colAcc_eq_colVal (s : Str) (a : Nat) (ha : a ≤ maxColumnNumber) :
    colAcc s a = (colVal s a).bind fun r => if r ≤ maxColumnNumber then some r else none := by
  induction s generalizing a with
  | nil => simp [colAcc, colVal, ha]
  | cons c cs ih =>
    simp only [colAcc, colVal]
    split
    · split
      · rename_i hgt
        cases hv : colVal cs (a * 26 + (upper c - 65) + 1) with
        | none => rfl
        | some r =>
          have := colVal_ge cs _ r hv
          have : ¬ r ≤ maxColumnNumber := by omega
          simp [this]
      · rename_i hle
        exact ih _ (by omega)
    · rfl

theorem colVal_append (s t : Str) (a : Nat) :
    colVal (s ++ t) a = (colVal s a).bind (colVal t) := by
  induction s generalizing a with
  | nil => simp [colVal]
  | cons c cs ih =>
    simp only [List.cons_append, colVal]
    split
    · exact ih _
    · rfl

theorem toColAux_acc (n : Nat) (acc : Str) : toColAux n acc = toColAux n [] ++ acc := by
  induction n using Nat.strongRecOn generalizing acc with
  | _ n ih =>
    cases n with
    | zero => simp [toColAux]
    | succ m =>
      rw [toColAux, toColAux]
      rw [ih (m / 26) (by omega) ((65 + m % 26) :: acc), ih (m / 26) (by omega) [65 + m % 26]]
      simp

theorem upper_upperLetter (c : Nat) (h1 : 65 ≤ c) (h2 : c ≤ 90) : upper c = c := by
  unfold upper
  have : ¬ (97 ≤ c) := by omega
  simp [this]

theorem colVal_toColAux (n : Nat) : colVal (toColAux n []) 0 = some n := by
  induction n using Nat.strongRecOn with
  | _ n ih =>
    cases n with
    | zero => simp [toColAux, colVal]
    | succ m =>
      rw [toColAux, toColAux_acc, colVal_append, ih (m / 26) (by omega)]
      have hu : upper (65 + m % 26) = 65 + m % 26 := upper_upperLetter _ (by omega) (by omega)
      simp only [Option.bind_some, colVal, hu]
      have h1 : (65 ≤ 65 + m % 26) := by omega
      have h2 : (65 + m % 26 ≤ 90) := by omega
      simp only [h1, h2, decide_true, Bool.and_self, if_true]
      congr 1
      omega

/-- all characters are upper-case ASCII letters -/
def IsUpperCol (s : Str) : Prop := ∀ c ∈ s, 65 ≤ c ∧ c ≤ 90

theorem colVal_upper_some (s : Str) (hs : IsUpperCol s) (a : Nat) :
    ∃ r, colVal s a = some r ∧ (s ≠ [] → 1 ≤ r) ∧ toColAux r [] = toColAux a [] ++ s := by
  induction s generalizing a with
  | nil => exact ⟨a, by simp [colVal]⟩
  | cons c cs ih =>
    have hc := hs c (by simp)
    have hu : upper c = c := upper_upperLetter c hc.1 hc.2
    have hcs : IsUpperCol cs := fun d hd => hs d (by simp [hd])
    obtain ⟨r, hr, hpos, hcol⟩ := ih hcs (a * 26 + (c - 65) + 1)
    refine ⟨r, ?_, ?_, ?_⟩
    · simp only [colVal, hu]
      have h1 : (65 ≤ c) := hc.1
      have h2 : (c ≤ 90) := hc.2
      simp only [h1, h2, decide_true, Bool.and_self, if_true]
      exact hr
    · intro _
      cases cs with
      | nil => simp [colVal] at hr; omega
      | cons d ds => exact hpos (by simp)
    · rw [hcol]
      have : a * 26 + (c - 65) + 1 = (a * 26 + (c - 65)) + 1 := rfl
      rw [this, toColAux, toColAux_acc]
      have e1 : (a * 26 + (c - 65)) / 26 = a := by omega
      have e2 : 65 + (a * 26 + (c - 65)) % 26 = c := by omega
      rw [e1, e2]
      simp

/-- the number an upper-case letter string denotes in bijective base 26 (A=1 … Z=26, AA=27 …):
`ColumnToIndex` answers this number minus one, if it is at most `maxColumnNumber` -/
def colNumber (s : Str) : Nat := s.foldl (fun a c => a * 26 + (c - 64)) 0

theorem colVal_upper_eq (s : Str) (hs : IsUpperCol s) (a : Nat) :
    colVal s a = some (s.foldl (fun a c => a * 26 + (c - 64)) a) := by
  induction s generalizing a with
  | nil => rfl
  | cons c cs ih =>
    have hc := hs c (by simp)
    have hu : upper c = c := upper_upperLetter c hc.1 hc.2
    have hcs : IsUpperCol cs := fun d hd => hs d (by simp [hd])
    simp only [colVal, hu, List.foldl_cons]
    have h1 : (65 ≤ c) := hc.1
    have h2 : (c ≤ 90) := hc.2
    simp only [h1, h2, decide_true, Bool.and_self, if_true]
    rw [ih hcs]
    have : a * 26 + (c - 65) + 1 = a * 26 + (c - 64) := by omega
    rw [this]

/-- `ColumnToIndex`'s loop on the letters `IndexToColumn` prints for the number `n` -/
theorem colAcc_toColAux (n : Nat) :
    colAcc (toColAux n []) 0 = if n ≤ maxColumnNumber then some n else none := by
  rw [colAcc_eq_colVal _ 0 (by decide), colVal_toColAux]; rfl

/-- `ColumnToIndex`'s loop on an upper-case letter string: its number, unless beyond the bound;
and `IndexToColumn`'s loop prints the string back from the number -/
theorem colAcc_upper (s : Str) (hs : IsUpperCol s) :
    colAcc s 0 = (if colNumber s ≤ maxColumnNumber then some (colNumber s) else none) ∧
      (s ≠ [] → 1 ≤ colNumber s) ∧ toColAux (colNumber s) [] = s := by
  obtain ⟨r, hr, hpos, hcol⟩ := colVal_upper_some s hs 0
  have hr' := colVal_upper_eq s hs 0
  rw [hr] at hr'
  have e : r = colNumber s := by simpa [colNumber] using hr'
  subst e
  refine ⟨?_, hpos, ?_⟩
  · rw [colAcc_eq_colVal _ 0 (by decide), hr]; rfl
  · rw [hcol]; simp [toColAux]

theorem foldl_col_bound (s : Str) (hs : IsUpperCol s) (a : Nat) :
    s.foldl (fun a c => a * 26 + (c - 64)) a + 2 ≤ (a + 2) * 26 ^ s.length := by
  induction s generalizing a with
  | nil => simp
  | cons c cs ih =>
    have hc := hs c (by simp)
    have hcs : IsUpperCol cs := fun d hd => hs d (by simp [hd])
    simp only [List.foldl_cons, List.length_cons]
    refine Nat.le_trans (ih hcs _) ?_
    have h1 : a * 26 + (c - 64) + 2 ≤ (a + 2) * 26 := by omega
    calc (a * 26 + (c - 64) + 2) * 26 ^ cs.length ≤ ((a + 2) * 26) * 26 ^ cs.length := Nat.mul_le_mul_right _ h1
      _ = (a + 2) * 26 ^ (cs.length + 1) := by rw [Nat.pow_succ, Nat.mul_assoc, Nat.mul_comm 26]

/-- every column of up to eight letters (a worksheet ends at XFD) is within the bound -/
theorem colNumber_short (s : Str) (hs : IsUpperCol s) (hlen : s.length ≤ 8) :
    colNumber s ≤ maxColumnNumber := by
  have h := foldl_col_bound s hs 0
  have hp : 26 ^ s.length ≤ 26 ^ 8 := Nat.pow_le_pow_right (by omega) hlen
  have h8 : (26 : Nat) ^ 8 = 208827064576 := by decide
  unfold colNumber maxColumnNumber
  omega

end Tabula.A1

namespace Tabula.A1

theorem digitsAcc_append (s t : Str) (a : Nat) :
    digitsAcc (s ++ t) a = (digitsAcc s a).bind (digitsAcc t) := by
  induction s generalizing a with
  | nil => simp [digitsAcc]
  | cons c cs ih =>
    simp only [List.cons_append, digitsAcc]
    split
    · exact ih _
    · rfl

theorem decAux_acc (n : Nat) (acc : Str) : decAux n acc = decAux n [] ++ acc := by
  induction n using Nat.strongRecOn generalizing acc with
  | _ n ih =>
    rw [decAux.eq_1 n acc, decAux.eq_1 n []]
    split
    · simp
    · rw [ih (n / 10) (by omega) ((48 + n % 10) :: acc), ih (n / 10) (by omega) [48 + n % 10]]
      simp

theorem digitsAcc_dec (n : Nat) : digitsAcc (dec n) 0 = some n := by
  unfold dec
  induction n using Nat.strongRecOn with
  | _ n ih =>
    rw [decAux]
    split
    · rename_i h
      have h1 : 48 ≤ 48 + n := by omega
      have h2 : 48 + n ≤ 57 := by omega
      simp [digitsAcc, h1, h2]
    · rw [decAux_acc, digitsAcc_append, ih (n / 10) (by omega)]
      have h1 : 48 ≤ 48 + n % 10 := by omega
      have h2 : 48 + n % 10 ≤ 57 := by omega
      simp only [Option.bind_some, digitsAcc, h1, h2, decide_true, Bool.and_self, if_true]
      congr 1
      omega

/-- `dec n` is non-empty and starts with a digit -/
theorem dec_head (n : Nat) : ∃ d ds, dec n = d :: ds ∧ 48 ≤ d ∧ d ≤ 57 := by
  unfold dec
  induction n using Nat.strongRecOn with
  | _ n ih =>
    rw [decAux]
    split
    · exact ⟨48 + n, [], rfl, by omega, by omega⟩
    · rw [decAux_acc]
      obtain ⟨d, ds, h, h1, h2⟩ := ih (n / 10) (by omega)
      exact ⟨d, ds ++ [48 + n % 10], by rw [h]; simp, h1, h2⟩

theorem atoi_dec (n : Nat) (h : n ≤ maxInt64) : atoi (dec n) = some (n : Int) := by
  obtain ⟨d, ds, hd, h1, h2⟩ := dec_head n
  have hdig := digitsAcc_dec n
  unfold atoi
  rw [hd] at hdig ⊢
  have hne43 : d ≠ 43 := by omega
  have hne45 : d ≠ 45 := by omega
  split
  · rename_i heq
    split at heq
    · rename_i h'; simp at h'; omega
    · rename_i h'; simp at h'; omega
    · simp at heq
      obtain ⟨hn, hds⟩ := heq
      subst hn; subst hds
      simp [hdig, h]

theorem toColAux_letters (n : Nat) : ∀ c ∈ toColAux n [], 65 ≤ c ∧ c ≤ 90 := by
  induction n using Nat.strongRecOn with
  | _ n ih =>
    cases n with
    | zero => simp [toColAux]
    | succ m =>
      rw [toColAux, toColAux_acc]
      intro c hc
      simp at hc
      rcases hc with hc | hc
      · exact ih _ (by omega) c hc
      · omega

theorem toColAux_ne_nil (n : Nat) (h : 0 < n) : toColAux n [] ≠ [] := by
  cases n with
  | zero => omega
  | succ m =>
    rw [toColAux, toColAux_acc]
    simp

theorem takeWhile_letters_append (l : Str) (d : Nat) (ds : Str)
    (hl : ∀ c ∈ l, 65 ≤ c ∧ c ≤ 90) (hd : 48 ≤ d ∧ d ≤ 57) :
    (l ++ d :: ds).takeWhile isLetter = l ∧ (l ++ d :: ds).dropWhile isLetter = d :: ds := by
  induction l with
  | nil =>
    have : isLetter d = false := by
      unfold isLetter
      have a : ¬ 65 ≤ d := by omega
      have b : ¬ 97 ≤ d := by omega
      simp [a, b]
    simp [this]
  | cons c cs ih =>
    have hc := hl c (by simp)
    have : isLetter c = true := by
      unfold isLetter
      simp [hc.1, hc.2]
    have ih' := ih (fun x hx => hl x (by simp [hx]))
    simp [this, ih'.1, ih'.2]

end Tabula.A1
