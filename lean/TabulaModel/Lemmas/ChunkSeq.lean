import TabulaModel.Lemmas.Chunk
/-!
Indices, ids and page numbers of the element-based chunker for EVERY splitter: the invariants of
`Lemmas/Chunk.lean` (`StepOK`) without the cover clause, which is the only one that needs the
splitter's contract `SplitOK`.
-/
namespace Tabula.Chunk

structure StepM {σ} (page : Int) (st : St σ) (r : St σ × List Chunk) : Prop where
  seq : Seq st.idx r.2
  idx : r.1.idx = st.idx + r.2.length
  ok : ∀ c ∈ r.2, ChunkOK page c

theorem flush_m {σ} (sp : Splitter) (page : Int) (st : St σ) : StepM page st (flush sp page st) := by
  unfold flush
  by_cases h : st.block = []
  · rw [if_pos h]
    exact ⟨Seq_nil _, rfl, fun c hc => by cases hc⟩
  · rw [if_neg h]
    exact ⟨textBlockToChunks_seq _ _ _ _ _, rfl, fun c hc => (textBlockToChunks_ok _ _ _ _ _ c hc).1⟩

theorem emitOne_m {σ} (sp : Splitter) (page : Int) (st : St σ) (sec : σ) (text : Str) (path : List Str) :
    StepM page st (emitOne sp page st sec text path) := by
  obtain ⟨hseq, hidx, hok⟩ := flush_m sp page st
  unfold emitOne
  generalize flush sp page st = r at *
  obtain ⟨st1, cs⟩ := r
  simp only at hseq hidx hok ⊢
  refine ⟨?_, ?_, ?_⟩
  · apply Seq_append hseq
    simp [Seq, mkChunk, hidx]
  · simp [hidx]; omega
  · intro c hc
    rcases List.mem_append.mp hc with h | h
    · exact hok c h
    · simp only [List.mem_singleton] at h; subst h; simp [ChunkOK, mkChunk]

theorem stepElem_m {σ} (tr : Tracker σ) (sp : Splitter) (toc : List TOCEntry) (page : Int) (st : St σ) (e : Elem) :
    StepM page st (stepElem tr sp toc page st e) := by
  cases e with
  | heading l t => exact emitOne_m sp page st _ _ _
  | list o items => exact emitOne_m sp page st _ _ _
  | table rows => exact emitOne_m sp page st _ _ _
  | image alt =>
    simp only [stepElem]
    split
    · exact flush_m sp page st
    · exact emitOne_m sp page st _ _ _
  | para t =>
    simp only [stepElem]
    split
    · exact emitOne_m sp page st _ _ _
    · exact ⟨Seq_nil _, rfl, fun c hc => by cases hc⟩

theorem runElems_m {σ} (tr : Tracker σ) (sp : Splitter) (toc : List TOCEntry) (page : Int) (st : St σ) (es : List Elem) :
    StepM page st (runElems tr sp toc page st es) := by
  induction es generalizing st with
  | nil => exact ⟨Seq_nil _, by simp [runElems], fun c hc => by cases hc⟩
  | cons e es ih =>
    have h1 := stepElem_m tr sp toc page st e
    have h2 := ih (stepElem tr sp toc page st e).1
    simp only [runElems]
    refine ⟨?_, ?_, ?_⟩
    · exact Seq_append h1.seq (by rw [← h1.idx]; exact h2.seq)
    · simp only [List.length_append]; rw [h2.idx, h1.idx]; omega
    · intro c hc
      rcases List.mem_append.mp hc with h | h
      · exact h1.ok c h
      · exact h2.ok c h

theorem chunkPage_m {σ} (tr : Tracker σ) (sp : Splitter) (toc : List TOCEntry) (st : St σ) (pg : Page) :
    StepM pg.number st (chunkPage tr sp toc st pg) := by
  have h1 := runElems_m tr sp toc pg.number st (resolveRepeatedHeadings pg)
  have h2 := flush_m sp pg.number (runElems tr sp toc pg.number st (resolveRepeatedHeadings pg)).1
  unfold chunkPage
  refine ⟨?_, ?_, ?_⟩
  · exact Seq_append h1.seq (by rw [← h1.idx]; exact h2.seq)
  · simp only [List.length_append]; rw [h2.idx, h1.idx]; omega
  · intro c hc
    rcases List.mem_append.mp hc with h | h
    · exact h1.ok c h
    · exact h2.ok c h

/-- page by page: every chunk of group `i` reports the number of page `i` -/
def PagesM : List Page → List (List Chunk) → Prop
  | [], [] => True
  | pg :: pgs, g :: gs => (∀ c ∈ g, c.pageStart = pg.number ∧ c.pageEnd = pg.number) ∧ PagesM pgs gs
  | _, _ => False

theorem chunkPages_m {σ} (tr : Tracker σ) (sp : Splitter) (toc : List TOCEntry) (st : St σ) (pgs : List Page) :
    PagesM pgs (chunkPages tr sp toc st pgs) ∧
      Seq st.idx (chunkPages tr sp toc st pgs).flatten ∧
      (∀ c ∈ (chunkPages tr sp toc st pgs).flatten, c.id = chunkId c.idx) := by
  induction pgs generalizing st with
  | nil => exact ⟨trivial, Seq_nil _, (by intro c hc; cases hc)⟩
  | cons pg pgs ih =>
    have h1 := chunkPage_m tr sp toc st pg
    obtain ⟨i1, i2, i3⟩ := ih (chunkPage tr sp toc st pg).1
    simp only [chunkPages, List.flatten_cons]
    refine ⟨⟨?_, i1⟩, ?_, ?_⟩
    · intro c hc; exact ⟨(h1.ok c hc).1, (h1.ok c hc).2.1⟩
    · exact Seq_append h1.seq (by rw [← h1.idx]; exact i2)
    · intro c hc
      rcases List.mem_append.mp hc with h | h
      · exact (h1.ok c h).2.2
      · exact i3 c h

/-- indices `0..n-1`, ids `chunk-<index>`, total `n` — whatever the splitter does -/
theorem chunkDocument_seq (sp : Splitter) (d : Doc) :
    (chunkDocument sp d).map (·.idx) = List.range (chunkDocument sp d).length ∧
    (∀ c ∈ chunkDocument sp d, c.id = chunkId c.idx) ∧
    ∀ c ∈ chunkDocument sp d, c.total = (chunkDocument sp d).length := by
  obtain ⟨_, hseq, hid⟩ := chunkPages_m stackTracker sp (tableOfContents d) (initSt stackTracker) d
  refine ⟨?_, ?_, ?_⟩
  · unfold chunkDocument chunkDocumentWith pageGroups
    rw [setTotal_idx, setTotal_length, List.range_eq_range']
    exact hseq
  · intro c hc
    simp only [chunkDocument, chunkDocumentWith, pageGroups, setTotal, List.mem_map] at hc
    obtain ⟨c0, h0, e⟩ := hc
    rw [← e]
    exact hid c0 h0
  · intro c hc
    unfold chunkDocument chunkDocumentWith at hc ⊢
    rw [setTotal_length]
    simp only [setTotal, List.mem_map] at hc
    obtain ⟨c0, _, e⟩ := hc
    rw [← e]

end Tabula.Chunk
