import TabulaModel.Lemmas.FiltersSound
/-!
ASCII85 writers that do not use the `z` shorthand everywhere: §7.4.3 says an all-zero group "shall"
be written `z`, and `A85Writing` (the conforming encoder of `Props/C05.lean`) does so; encoders in
the field also write `!!!!!`, which is the ordinary five-digit form of the value 0. `a85BodyLax zs x`
is the body of `x` where the i-th all-zero group is written `z` or `!!!!!` as the i-th entry of `zs`
says (`z` once `zs` is used up). The decoder inverts every such writing as well.
-/
namespace Tabula.Filters

/-- the encoder's body with a free choice, per all-zero group, between `z` (`true`) and `!!!!!` -/
def a85BodyLax : List Bool → Str → Str
  | zs, a :: b :: c :: d :: rest =>
    if a = 0 ∧ b = 0 ∧ c = 0 ∧ d = 0 then
      (if zs.headD true then [122] else a85Digits (word 0 0 0 0)) ++ a85BodyLax zs.tail rest
    else a85Digits (word a b c d) ++ a85BodyLax zs rest
  | _, [a, b, c] => (a85Digits (word a b c 0)).take 4
  | _, [a, b] => (a85Digits (word a b 0 0)).take 3
  | _, [a] => (a85Digits (word a 0 0 0)).take 2
  | _, [] => []

/-- with `z` everywhere it is the conforming encoder's body -/
theorem a85BodyLax_nil : ∀ (x : Str), a85BodyLax [] x = a85Body x := by
  intro x
  induction x using a85Body.induct with
  | case1 a b c d rest ih =>
    rw [a85BodyLax, a85Body]
    simp only [List.tail_nil, List.headD_nil, if_true, ih]
    split <;> rfl
  | case2 a b c => rfl
  | case3 a b => rfl
  | case4 a => rfl
  | case5 => rfl

/-- `s` is a white-space interleaving of such a body of `x` -/
def A85WritingLax (s x : Str) : Prop := ∃ zs, s.filter (fun c => !isWs c) = a85BodyLax zs x

theorem A85Writing_lax (s x : Str) (h : A85Writing s x) : A85WritingLax s x :=
  ⟨[], by rw [a85BodyLax_nil]; exact h⟩

/-- five digits of any 32-bit word — also of 0, `!!!!!` — are read back as its four bytes -/
theorem a85Go_group_digits (a b c d : Nat) (ha : a < 256) (hb : b < 256) (hc : c < 256) (hd : d < 256) (t acc : Str) :
    a85Go (a85Digits (word a b c d) ++ t) [] acc = a85Go t [] (d :: c :: b :: a :: acc) := by
  have hV : word a b c d < 4294967296 := by unfold word; omega
  obtain ⟨h0, h1, h2, h3, h4⟩ := digit_lt _ hV
  exact a85Go_five _ _ _ _ _ h0 h1 h2 h3 h4 t acc _ (flush_full a b c d ha hb hc hd)

theorem a85Go_bodyLax (tail : Str) (htail : ∀ ds acc, a85Go tail ds acc = a85Finish ds acc) :
    ∀ (x : Str) (zs : List Bool) (acc : Str), (∀ r ∈ x, r < 256) →
      a85Go (a85BodyLax zs x ++ tail) [] acc = some (acc.reverse ++ x) := by
  intro x
  induction x using a85Body.induct with
  | case1 a b c d rest ih =>
    intro zs acc hx
    have hrest : ∀ r ∈ rest, r < 256 := fun r hr => hx r (by simp [hr])
    rw [a85BodyLax]
    split
    · rename_i hz
      obtain ⟨rfl, rfl, rfl, rfl⟩ := hz
      split
      · rw [List.append_assoc, List.singleton_append, a85Go_z, ih _ _ hrest]
        simp
      · rw [List.append_assoc, a85Go_group_digits 0 0 0 0 (by omega) (by omega) (by omega) (by omega), ih _ _ hrest]
        simp
    · rw [List.append_assoc,
        a85Go_group_digits a b c d (hx a (by simp)) (hx b (by simp)) (hx c (by simp)) (hx d (by simp)), ih _ _ hrest]
      simp
  | case2 a b c =>
    intro zs acc hx
    have := a85Go_body tail htail [a, b, c] acc hx
    simpa [a85BodyLax, a85Body] using this
  | case3 a b =>
    intro zs acc hx
    have := a85Go_body tail htail [a, b] acc hx
    simpa [a85BodyLax, a85Body] using this
  | case4 a =>
    intro zs acc hx
    have := a85Go_body tail htail [a] acc hx
    simpa [a85BodyLax, a85Body] using this
  | case5 =>
    intro zs acc hx
    have := a85Go_body tail htail [] acc hx
    simpa [a85BodyLax, a85Body] using this

theorem a85BodyLax_no_tilde : ∀ (x : Str) (zs : List Bool), (∀ r ∈ x, r < 256) →
    ∀ c ∈ a85BodyLax zs x, c ≠ 126 ∧ isWs c = false := by
  intro x
  induction x using a85Body.induct with
  | case1 a b c d rest ih =>
    intro zs hx ch hc
    have hrest : ∀ r ∈ rest, r < 256 := fun r hr => hx r (by simp [hr])
    have hdig : ∀ (a b c d : Nat), a < 256 → b < 256 → c < 256 → d < 256 →
        ∀ ch ∈ a85Digits (word a b c d), ch ≠ 126 ∧ isWs ch = false := by
      intro a b c d ha hb hc hd ch h
      have hV : word a b c d < 4294967296 := by unfold word; omega
      obtain ⟨h0, h1, h2, h3, h4⟩ := digit_lt _ hV
      simp only [a85Digits, List.mem_cons, List.not_mem_nil, or_false] at h
      rcases h with h | h | h | h | h <;> (subst h; exact ⟨by omega, isWs_ge33 _ (by omega)⟩)
    rw [a85BodyLax] at hc
    split at hc
    · rcases List.mem_append.mp hc with h | h
      · split at h
        · simp at h; subst h; exact ⟨by omega, by decide⟩
        · exact hdig 0 0 0 0 (by omega) (by omega) (by omega) (by omega) ch h
      · exact ih _ hrest ch h
    · rcases List.mem_append.mp hc with h | h
      · exact hdig a b c d (hx a (by simp)) (hx b (by simp)) (hx c (by simp)) (hx d (by simp)) ch h
      · exact ih _ hrest ch h
  | case2 a b c =>
    intro zs hx ch hc
    have := a85Body_no_tilde [a, b, c] hx ch (by simpa [a85BodyLax, a85Body] using hc)
    exact ⟨this.1, this.2.1⟩
  | case3 a b =>
    intro zs hx ch hc
    have := a85Body_no_tilde [a, b] hx ch (by simpa [a85BodyLax, a85Body] using hc)
    exact ⟨this.1, this.2.1⟩
  | case4 a =>
    intro zs hx ch hc
    have := a85Body_no_tilde [a] hx ch (by simpa [a85BodyLax, a85Body] using hc)
    exact ⟨this.1, this.2.1⟩
  | case5 => intro zs _ c hc; simp [a85BodyLax] at hc

/-- the decoder inverts every lenient writing, followed by anything that makes it stop -/
theorem a85Decode_writingLax (s x tail : Str) (hx : ∀ r ∈ x, r < 256) (h : A85WritingLax s x)
    (htail : ∀ ds acc, a85Go tail ds acc = a85Finish ds acc) : a85Decode (s ++ tail) = some x := by
  obtain ⟨zs, hs⟩ := h
  have hnt : ∀ c ∈ s, c ≠ 126 := by
    intro c hc h126
    have hws : isWs c = false := by subst h126; decide
    have : c ∈ s.filter (fun c => !isWs c) := by simp [List.mem_filter, hc, hws]
    rw [hs] at this
    exact (a85BodyLax_no_tilde x zs hx c this).1 h126
  unfold a85Decode
  rw [a85Go_strip s tail hnt, hs, a85Go_bodyLax tail htail x zs [] hx]
  simp

end Tabula.Filters
