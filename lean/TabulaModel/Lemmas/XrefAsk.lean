import TabulaModel.Model.XrefCached
/-!
`XrefC.parseIndirectK` is `XrefFile.parseIndirect` with the resolver call made explicit: running
the suspended computation with a resolver is the original function.
-/
namespace Tabula.XrefC
open Tabula.Pdf (Obj PState parseObject newParser fuelFor kwStream)
open Tabula.Reader (Dict dget PVal)
open Tabula.XrefFile

theorem Ask.run_map {α β : Type} (f : α → β) (a : Ask α) (lenOf : Int → Option Int) :
    (a.map f).run lenOf = f (a.run lenOf) := by
  cases a <;> rfl

theorem Ask.asked_map {α β : Type} (f : α → β) (a : Ask α) : (a.map f).asked = a.asked := by
  cases a <;> rfl

theorem parseStreamData_K (kv : Dict) (s : PState) (lenOf : Int → Option Int) :
    parseStreamData kv s lenOf = (parseStreamDataK kv s).run lenOf := by
  unfold parseStreamData parseStreamDataK
  cases h : dget kv kLength with
  | none => rfl
  | some o => cases o <;> rfl

theorem indirectBody_K (fuel : Nat) (num gen : Int) (s : PState) (lenOf : Int → Option Int) :
    indirectBody fuel num gen s lenOf = (indirectBodyK fuel num gen s).run lenOf := by
  unfold indirectBody indirectBodyK
  cases h : parseObject fuel 0 s with
  | error e => rfl
  | ok r =>
    obtain ⟨o, s4⟩ := r
    simp only
    split
    · cases o <;> try rfl
      simp only [Ask.run_map, parseStreamData_K]
      cases Ask.run lenOf (parseStreamDataK _ s4) with
      | none => rfl
      | some r => rfl
    · split <;> rfl

theorem parseIndirect_K (inp : Str) (lenOf : Int → Option Int) :
    parseIndirect inp lenOf = (parseIndirectK inp).run lenOf := by
  unfold parseIndirect parseIndirectK
  simp only
  cases h0 : (newParser inp).cur with
  | none => rfl
  | some t0 =>
    cases t0 <;> try rfl
    rename_i v
    simp only
    cases h1 : Tabula.A1.atoi v with
    | none => rfl
    | some num =>
      simp only
      cases h2 : (newParser inp).next.cur with
      | none => rfl
      | some t2 =>
        cases t2 <;> try rfl
        rename_i v2
        simp only
        cases h3 : Tabula.A1.atoi v2 with
        | none => rfl
        | some gen =>
          simp only
          split
          · exact indirectBody_K _ _ _ _ _
          · rfl

theorem uncompressedAt_K (file : Str) (n off : Int) (lenOf : Int → Option Int) :
    uncompressedAt file n off lenOf = (uncompressedAtK file n off).run lenOf := by
  unfold uncompressedAt uncompressedAtK
  split
  · rfl
  · rw [Ask.run_map, parseIndirect_K]
    cases (parseIndirectK (List.drop off.toNat file)).run lenOf with
    | none => rfl
    | some r => rfl

end Tabula.XrefC
