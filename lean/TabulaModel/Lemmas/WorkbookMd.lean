import TabulaModel.Lemmas.WorkbookTable
import TabulaModel.Lemmas.HeaderFooter
/-!
Reading a cell back out of the Markdown table the xlsx reader writes (C17): a reader of GFM
pipe-table lines (`\|` is a literal pipe), and `read ∘ write = id` up to the padding spaces and
the newline-to-space replacement of `escapeMarkdown`.
-/
namespace Tabula.Wb
open Tabula.A1 Tabula.Sheet

/-! ## escapeMarkdown, character by character -/

def escChar (c : Nat) : Str := if c = 124 then [92, 124] else if c = 10 then [32] else [c]

theorem escapeMarkdown_eq (s : Str) : escapeMarkdown s = s.flatMap escChar := by
  unfold escapeMarkdown replaceByte
  rw [List.flatMap_assoc]
  congr 1
  funext c
  unfold escChar
  by_cases h1 : c = 124
  · subst h1; simp
  · by_cases h2 : c = 10
    · subst h2; simp
    · simp [h1, h2]

/-- what a reader gets back: the value with newlines turned into spaces -/
def nl2sp (s : Str) : Str := s.map fun c => if c = 10 then 32 else c

theorem escapeMarkdown_nil : escapeMarkdown [] = [] := rfl

theorem escapeMarkdown_cons (c : Nat) (s : Str) : escapeMarkdown (c :: s) = escChar c ++ escapeMarkdown s := by
  rw [escapeMarkdown_eq, escapeMarkdown_eq, List.flatMap_cons]

theorem not_mem_escChar (c : Nat) : 10 ∉ escChar c := by
  unfold escChar
  split
  · simp
  · split
    · simp
    · rename_i h; simpa using fun h' => h h'.symm

theorem not_mem_escapeMarkdown (s : Str) : 10 ∉ escapeMarkdown s := by
  rw [escapeMarkdown_eq]
  simp only [List.mem_flatMap, not_exists, not_and]
  intro c _
  exact not_mem_escChar c

/-! ## the line reader -/

/-- split the body of a pipe-table line (what follows the leading `|`) into its cells: a pipe
ends a cell, backslash-pipe is a literal pipe; text after the last pipe is a cell only if not
empty -/
def mdSplitAux : Str → Str → List Str
  | [], cur => if cur.isEmpty then [] else [cur.reverse]
  | c :: rest, cur =>
    if c = 92 then
      match rest with
      | [] => mdSplitAux [] (92 :: cur)
      | d :: rest' => if d = 124 then mdSplitAux rest' (124 :: cur) else mdSplitAux (d :: rest') (92 :: cur)
    else if c = 124 then cur.reverse :: mdSplitAux rest []
    else mdSplitAux rest (c :: cur)
termination_by s => s.length
decreasing_by all_goals simp_wf <;> omega

theorem mdSplitAux_plain (c : Nat) (rest cur : Str) (h1 : c ≠ 92) (h2 : c ≠ 124) :
    mdSplitAux (c :: rest) cur = mdSplitAux rest (c :: cur) := by
  rw [mdSplitAux.eq_def]; simp [h1, h2]

theorem mdSplitAux_pipe (rest cur : Str) :
    mdSplitAux (124 :: rest) cur = cur.reverse :: mdSplitAux rest [] := by
  rw [mdSplitAux.eq_def]; simp

theorem mdSplitAux_esc (rest cur : Str) :
    mdSplitAux (92 :: 124 :: rest) cur = mdSplitAux rest (124 :: cur) := by
  rw [mdSplitAux.eq_def]; simp

theorem mdSplitAux_bs (d : Nat) (rest cur : Str) (h : d ≠ 124) :
    mdSplitAux (92 :: d :: rest) cur = mdSplitAux (d :: rest) (92 :: cur) := by
  rw [mdSplitAux.eq_def]; simp [h]

/-- an escaped value followed by the closing space never starts with a pipe -/
theorem esc_head (t rest : Str) : ∃ h tl, escapeMarkdown t ++ 32 :: rest = h :: tl ∧ h ≠ 124 := by
  cases t with
  | nil => exact ⟨32, rest, rfl, by decide⟩
  | cons c t =>
    rw [escapeMarkdown_cons]
    unfold escChar
    split
    · exact ⟨92, _, rfl, by decide⟩
    · split
      · exact ⟨32, _, rfl, by decide⟩
      · rename_i h _; exact ⟨c, _, rfl, h⟩

/-- reading an escaped value gives the value back, newlines as spaces -/
theorem mdSplitAux_value (t rest cur : Str) :
    mdSplitAux (escapeMarkdown t ++ 32 :: rest) cur = mdSplitAux (32 :: rest) ((nl2sp t).reverse ++ cur) := by
  induction t generalizing cur with
  | nil => rfl
  | cons c t ih =>
    rw [escapeMarkdown_cons]
    by_cases h1 : c = 124
    · subst h1
      simp only [escChar, if_true, List.cons_append, List.nil_append]
      rw [mdSplitAux_esc, ih]
      simp [nl2sp]
    · by_cases h2 : c = 10
      · subst h2
        simp only [escChar, h1, if_false, if_true, List.cons_append, List.nil_append]
        rw [mdSplitAux_plain 32 _ _ (by decide) (by decide), ih]
        simp [nl2sp]
      · simp only [escChar, h1, h2, if_false, List.cons_append, List.nil_append]
        by_cases h3 : c = 92
        · subst h3
          obtain ⟨h, tl, e, hne⟩ := esc_head t rest
          rw [e, mdSplitAux_bs h tl cur hne, ← e, ih]
          simp [nl2sp]
        · rw [mdSplitAux_plain c _ _ h3 h1, ih]
          simp [nl2sp, h2]

/-- a cell as it is read back: the padding spaces around the value -/
def pad (t : Str) : Str := 32 :: nl2sp t ++ [32]

/-- one cell " value |" -/
def cellStr (t : Str) : Str := [32] ++ escapeMarkdown t ++ [32, 124]

theorem mdSplitAux_cell (t rest : Str) :
    mdSplitAux (cellStr t ++ rest) [] = pad t :: mdSplitAux rest [] := by
  unfold cellStr pad
  simp only [List.cons_append, List.nil_append, List.append_assoc]
  rw [mdSplitAux_plain 32 _ _ (by decide) (by decide), mdSplitAux_value,
    mdSplitAux_plain 32 _ _ (by decide) (by decide), mdSplitAux_pipe]
  simp

theorem mdSplitAux_cells (ts : List Str) (rest : Str) :
    mdSplitAux (ts.flatMap cellStr ++ rest) [] = ts.map pad ++ mdSplitAux rest [] := by
  induction ts with
  | nil => rfl
  | cons t ts ih =>
    simp only [List.flatMap_cons, List.append_assoc, List.map_cons, List.cons_append]
    rw [mdSplitAux_cell, ih]

/-- **read ∘ write for one line**: the body of `ptRow cells` splits into the padded cells -/
theorem mdSplit_row (ts : List Str) : mdSplitAux (ts.flatMap cellStr) [] = ts.map pad := by
  have := mdSplitAux_cells ts []
  simpa [mdSplitAux] using this

/-! ## the table reader -/

/-- a line that begins with a pipe is a table line; its cells -/
def mdParseLine : Str → Option (List Str)
  | [] => none
  | c :: body => if c = 124 then some (mdSplitAux body []) else none

/-- the delimiter row is the table's second line -/
def dropSecond {α : Type} : List α → List α
  | a :: _ :: rest => a :: rest
  | l => l

/-- **reader of a Markdown text that holds one pipe table**: the lines that begin with a pipe,
the delimiter row dropped, each split into its cells -/
def mdReadTable (md : Str) : List (List Str) := dropSecond ((splitOn 10 md).filterMap mdParseLine)

theorem splitOn_lines (ls : List Str) (last : Str) (hls : ∀ l ∈ ls, 10 ∉ l) (hlast : 10 ∉ last) :
    splitOn 10 (ls.flatMap (fun l => l ++ [10]) ++ last) = ls ++ [last] := by
  unfold splitOn
  induction ls with
  | nil =>
    simp only [List.flatMap_nil, List.nil_append]
    have := splitAux_append_clean 10 last [] [] hlast
    simp only [List.append_nil] at this
    rw [this]; simp [splitAux]
  | cons l ls ih =>
    simp only [List.flatMap_cons, List.append_assoc, List.cons_append]
    rw [splitAux_append_clean 10 l _ [] (hls l (by simp))]
    simp only [List.append_nil, List.singleton_append, List.nil_append, splitAux, if_true, List.reverse_reverse]
    rw [ih (fun x hx => hls x (by simp [hx]))]

/-- a table line without its newline -/
def rowLine (cells : List Str) : Str := 124 :: cells.flatMap cellStr

theorem ptRow_eq (cells : List Str) : ptRow cells = rowLine cells ++ [10] := rfl

theorem not_mem_rowLine (cells : List Str) : 10 ∉ rowLine cells := by
  unfold rowLine cellStr
  simp only [List.mem_cons, List.mem_flatMap, List.mem_append, not_or, not_exists, not_and]
  refine ⟨by decide, ?_⟩
  intro t _
  refine ⟨⟨by decide, not_mem_escapeMarkdown t⟩, by decide, by decide, ?_⟩
  simp

theorem mdParseLine_rowLine (cells : List Str) : mdParseLine (rowLine cells) = some (cells.map pad) := by
  unfold rowLine mdParseLine
  simp [mdSplit_row]

/-- the delimiter line "|---|---|" without its newline -/
def sepLine {α : Type} (hdr : List α) : Str := 124 :: hdr.flatMap (fun _ => [45, 45, 45, 124])

theorem not_mem_sepLine {α : Type} (hdr : List α) : 10 ∉ sepLine hdr := by
  unfold sepLine
  simp only [List.mem_cons, List.mem_flatMap, not_or, not_exists, not_and]
  refine ⟨by decide, ?_⟩
  intro _ _
  decide

theorem mdParseLine_sepLine {α : Type} (hdr : List α) : (mdParseLine (sepLine hdr)).isSome = true := by
  unfold sepLine mdParseLine; simp

/-- the lines of `ParsedTable.ToMarkdown` -/
theorem toMarkdown_lines (t : PTable) (h : t.headers.isEmpty = false) :
    t.toMarkdown = ((rowLine t.headers :: sepLine t.headers :: t.rows.map rowLine)).flatMap (fun l => l ++ [10]) := by
  unfold PTable.toMarkdown
  simp only [h, Bool.false_eq_true, false_and, if_false, List.flatMap_cons, List.flatMap_map]
  rw [ptRow_eq]
  have e : t.rows.flatMap ptRow = t.rows.flatMap (fun a => rowLine a ++ [10]) := rfl
  rw [e]
  simp only [sepLine, List.append_assoc, List.cons_append, List.nil_append]

theorem filterMap_rowLines (rows : List (List Str)) :
    (rows.map rowLine).filterMap mdParseLine = rows.map (·.map pad) := by
  induction rows with
  | nil => rfl
  | cons r rs ih => simp only [List.map_cons, List.filterMap_cons, mdParseLine_rowLine, ih]

/-- **read ∘ write for a whole table**, also when other lines that do not begin with a pipe
surround it (a heading, blank lines) -/
theorem mdRead_lines (before : List Str) (t : PTable) (h : t.headers.isEmpty = false)
    (hb : ∀ l ∈ before, mdParseLine l = none) (after : List Str) (ha : ∀ l ∈ after, mdParseLine l = none) :
    dropSecond ((before ++ (rowLine t.headers :: sepLine t.headers :: t.rows.map rowLine) ++ after).filterMap mdParseLine) =
      (t.headers :: t.rows).map (·.map pad) := by
  have hb' : before.filterMap mdParseLine = [] := by
    rw [List.filterMap_eq_nil_iff]; exact hb
  have ha' : after.filterMap mdParseLine = [] := by
    rw [List.filterMap_eq_nil_iff]; exact ha
  rw [List.filterMap_append, List.filterMap_append, hb', ha', List.nil_append, List.append_nil,
    List.filterMap_cons, mdParseLine_rowLine, List.filterMap_cons]
  have hs := mdParseLine_sepLine t.headers
  cases hsep : mdParseLine (sepLine t.headers) with
  | none => rw [hsep] at hs; cases hs
  | some x =>
    simp only [filterMap_rowLines]
    rfl

/-- `ToMarkdown` read back -/
theorem mdRead_toMarkdown (t : PTable) (h : t.headers.isEmpty = false) :
    mdReadTable t.toMarkdown = (t.headers :: t.rows).map (·.map pad) := by
  unfold mdReadTable
  rw [toMarkdown_lines t h]
  have := splitOn_lines (rowLine t.headers :: sepLine t.headers :: t.rows.map rowLine) [] (by
    intro l hl
    simp only [List.mem_cons, List.mem_map] at hl
    rcases hl with rfl | rfl | ⟨r, _, rfl⟩
    · exact not_mem_rowLine _
    · exact not_mem_sepLine _
    · exact not_mem_rowLine _) (by simp)
  simp only [List.append_nil] at this
  rw [this]
  have := mdRead_lines [] t h (by simp) [[]] (by simp [mdParseLine])
  simpa using this

/-! ## `strings.TrimSpace` on the rendered text -/

open Tabula.HF in
theorem stripOne_hash (z : List Nat) : stripOne spaceSeqs (35 :: z) = none := by
  simp [stripOne, spaceSeqs, dropPrefix?]

open Tabula.HF in
theorem stripOne_rev_pipe (z : List Nat) : stripOne (spaceSeqs.map List.reverse) (124 :: z) = none := by
  simp [stripOne, spaceSeqs, dropPrefix?]

open Tabula.HF in
theorem stripOne_rev_nl (z : List Nat) : stripOne (spaceSeqs.map List.reverse) (10 :: z) = some z := by
  simp [stripOne, spaceSeqs, dropPrefix?]

open Tabula.HF in
/-- `strings.TrimSpace` of a text that starts with `#` and ends with a pipe and a newline drops
that newline and nothing else -/
theorem trimSpace_hash_pipe (z : List Nat) : HF.trimSpace (35 :: (z ++ [124, 10])) = 35 :: (z ++ [124]) := by
  unfold HF.trimSpace
  rw [trimLeft_of_none (stripOne_hash _)]
  unfold HF.trimRight
  have hrev : (35 :: (z ++ [124, 10])).reverse = 10 :: 124 :: (z.reverse ++ [35]) := by simp
  have hlen : (35 :: (z ++ [124, 10])).length = (z.length + 2) + 1 := by simp
  rw [hrev, hlen]
  simp only [stripMany, stripOne_rev_nl, stripOne_rev_pipe]
  simp

theorem cellStr_ends (t : Str) : ∃ i, cellStr t = i ++ [124] :=
  ⟨[32] ++ escapeMarkdown t ++ [32], by simp [cellStr]⟩

theorem rowLine_ends (cells : List Str) : ∃ i, rowLine cells = i ++ [124] := by
  rcases List.eq_nil_or_concat cells with h | ⟨L, b, h⟩
  · subst h; exact ⟨[], rfl⟩
  · subst h
    obtain ⟨i, hi⟩ := cellStr_ends b
    refine ⟨124 :: (L.flatMap cellStr ++ i), ?_⟩
    simp [rowLine, hi]

theorem sepLine_ends {α : Type} (hdr : List α) : ∃ i, sepLine hdr = i ++ [124] := by
  rcases List.eq_nil_or_concat hdr with h | ⟨L, b, h⟩
  · subst h; exact ⟨[], rfl⟩
  · subst h
    refine ⟨124 :: (L.flatMap (fun _ => [45, 45, 45, 124]) ++ [45, 45, 45]), ?_⟩
    simp [sepLine]

/-- the heading line of one sheet without its newlines -/
def headingLine (lvl : Nat) (name : Str) : Str := List.replicate lvl 35 ++ [32] ++ name

/-- **one sheet's Markdown, trimmed, read back**: heading, blank line, then the table lines; the
reader finds the content box with every value at its place -/
theorem mdRead_sheetMd (s : Sheet) (lvl : Nat) (hl : 1 ≤ lvl) (hrect : Rect (s.maxCol + 1) s.rows)
    (hne : (findContentBounds s).isEmpty = false) (hname : 10 ∉ s.name) :
    mdReadTable (HF.trimSpace (sheetMd lvl s)) = (boxTable s).map (·.map pad) := by
  obtain ⟨_, hbox⟩ := sheetToTable_box s hrect hne
  have f4 := (box_facts s hrect hne).2.2.2.1
  have hhne : (sheetToTable s).headers.isEmpty = false := by
    have hlen : ((boxTable s).headD []).length = (findContentBounds s).nC := by
      obtain ⟨cells, hcells, hb⟩ := boxCells_cons s hrect hne
      rw [boxTable_eq_boxCells, hb]
      simp only [List.map_cons, List.headD_cons, List.length_map, List.length_take, List.length_drop]
      have := hrect cells (List.mem_of_getElem? hcells)
      have f2 := (box_facts s hrect hne).2.1
      omega
    rw [hbox] at hlen
    simp only [List.headD_cons] at hlen
    cases hx : (sheetToTable s).headers with
    | nil => rw [hx] at hlen; simp at hlen; omega
    | cons _ _ => rfl
  -- the table lines, the last one apart
  let t := sheetToTable s
  have hlines : ∃ (L : List Str) (i : Str),
      rowLine t.headers :: sepLine t.headers :: t.rows.map rowLine = L ++ [i ++ [124]] := by
    rcases List.eq_nil_or_concat t.rows with h | ⟨R, b, h⟩
    · obtain ⟨i, hi⟩ := sepLine_ends t.headers
      exact ⟨[rowLine t.headers], i, by rw [h, hi]; rfl⟩
    · obtain ⟨i, hi⟩ := rowLine_ends b
      exact ⟨rowLine t.headers :: sepLine t.headers :: R.map rowLine, i, by
        rw [h, List.concat_eq_append, List.map_append, ← hi]; rfl⟩
  obtain ⟨L, i, hL⟩ := hlines
  obtain ⟨k, hk⟩ : ∃ k, lvl = k + 1 := ⟨lvl - 1, by omega⟩
  have htext : sheetMd lvl s =
      35 :: ((List.replicate k 35 ++ [32] ++ s.name ++ [10, 10] ++ L.flatMap (fun l => l ++ [10]) ++ i) ++ [124, 10]) := by
    unfold sheetMd sheetHeading
    rw [sheetTableMd_eq s hrect, toMarkdown_lines t hhne, hL, hk, List.replicate_succ]
    simp [List.flatMap_append]
  have htrim : HF.trimSpace (sheetMd lvl s) =
      ([headingLine lvl s.name, []] ++ L).flatMap (fun l => l ++ [10]) ++ (i ++ [124]) := by
    rw [htext, trimSpace_hash_pipe, hk]
    simp [headingLine, List.replicate_succ, List.flatMap_append]
  have hclean : ∀ l ∈ rowLine t.headers :: sepLine t.headers :: t.rows.map rowLine, 10 ∉ l := by
    intro l hl'
    simp only [List.mem_cons, List.mem_map] at hl'
    rcases hl' with rfl | rfl | ⟨r, _, rfl⟩
    · exact not_mem_rowLine _
    · exact not_mem_sepLine _
    · exact not_mem_rowLine _
  have hheading : 10 ∉ headingLine lvl s.name := by
    unfold headingLine
    intro h
    simp only [List.mem_append, List.mem_replicate, List.mem_singleton] at h
    rcases h with (⟨_, h⟩ | h) | h
    · cases h
    · cases h
    · exact hname h
  unfold mdReadTable
  rw [htrim, splitOn_lines _ _ (by
    intro l hl'
    simp only [List.mem_append, List.mem_cons] at hl'
    rcases hl' with (rfl | rfl | h) | h
    · exact hheading
    · simp
    · cases h
    · exact hclean l (by rw [hL]; simp [h])) (hclean _ (by rw [hL]; simp))]
  rw [List.append_assoc, ← hL]
  have := mdRead_lines [headingLine lvl s.name, []] t hhne (by
    intro l hl'
    simp only [List.mem_cons] at hl'
    rcases hl' with rfl | rfl | h
    · rw [hk]; simp [headingLine, List.replicate_succ, mdParseLine]
    · rfl
    · cases h) [] (by simp)
  rw [List.append_nil] at this
  rw [this, hbox]

end Tabula.Wb
