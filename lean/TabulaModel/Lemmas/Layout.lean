import TabulaModel.Model.Layout
/-!
Helper lemmas for C09: permutation facts about the grouping, assignment, merging and
emitting mechanisms of `Model/Layout.lean`.
-/
namespace Tabula.Layout
open List

/-- close a goal `l₁ ~ l₂` between append-rearrangements by counting -/
macro "perm_count" : tactic =>
  `(tactic| (apply List.perm_iff_count.mpr; intro _x; simp only [List.count_append, List.count_cons, List.count_nil]; omega))

/-! ## segment -/

theorem isEmpty_eq_true_iff {α : Type} (l : List α) : l.isEmpty = true ↔ l = [] := by
  cases l <;> simp

theorem segment_flatten {α : Type} (brk : List α → α → List α → Bool) (l cur : List α) :
    (segment brk l cur).flatten = cur ++ l := by
  induction l generalizing cur with
  | nil =>
    simp only [segment]
    cases cur <;> simp
  | cons a rest ih =>
    simp only [segment]
    cases cur with
    | nil => simp [ih]
    | cons c cs =>
      simp only [List.isEmpty_cons, Bool.false_eq_true, if_false]
      split
      · simp [ih]
      · simp [ih]

theorem segment_nonempty {α : Type} (brk : List α → α → List α → Bool) (l cur : List α) :
    ∀ g ∈ segment brk l cur, g ≠ [] := by
  induction l generalizing cur with
  | nil =>
    intro g hg
    simp only [segment] at hg
    cases cur with
    | nil => simp at hg
    | cons c cs => simp at hg; subst hg; simp
  | cons a rest ih =>
    intro g hg
    simp only [segment] at hg
    cases cur with
    | nil => simp at hg; exact ih _ g hg
    | cons c cs =>
      simp only [List.isEmpty_cons, Bool.false_eq_true, if_false] at hg
      split at hg
      · simp only [List.mem_cons] at hg
        cases hg with
        | inl h => subst h; simp
        | inr h => exact ih _ g h
      · exact ih _ g hg

/-! ## flatten and permutations -/

theorem flatten_map_perm {α : Type} (f : List α → List α) (hf : ∀ l, (f l).Perm l) (L : List (List α)) :
    ((L.map f).flatten).Perm L.flatten := by
  induction L with
  | nil => simp
  | cons l L ih => simp only [List.map_cons, List.flatten_cons]; exact (hf l).append ih

theorem stableSort_perm {α : Type} (less : α → α → Bool) (l : List α) : (stableSort less l).Perm l :=
  List.mergeSort_perm l _

theorem orderLine_perm (preserve : List Frag → Bool) (l : List Frag) : (orderLine preserve l).Perm l := by
  unfold orderLine
  split
  · exact List.Perm.refl _
  · exact stableSort_perm _ _

theorem filter_flatten_split {α : Type} (p : List α → Bool) (L : List (List α)) :
    ((L.filter p).flatten ++ (L.filter (fun l => !p l)).flatten).Perm L.flatten := by
  rw [← List.flatten_append]
  exact (List.filter_append_perm p L).flatten

/-! ## deduplication -/

theorem dedupeAux_snoc (seen : List Key) (pre : List Frag) (f : Frag) :
    dedupeAux seen (pre ++ [f]) =
      dedupeAux seen pre ++ (if keyOf f ∈ seen ∨ keyOf f ∈ pre.map keyOf then [] else [f]) := by
  induction pre generalizing seen with
  | nil =>
    simp only [List.nil_append, dedupeAux, List.map_nil, List.not_mem_nil, or_false]
    by_cases h : keyOf f ∈ seen <;> simp [h]
  | cons g pre ih =>
    simp only [List.cons_append, dedupeAux, List.map_cons, List.mem_cons]
    by_cases hg : keyOf g ∈ seen
    · have hc : seen.contains (keyOf g) = true := by simpa using hg
      simp only [hc, if_true]
      rw [ih]
      congr 1
      by_cases hfg : keyOf f = keyOf g
      · have : keyOf f ∈ seen := hfg ▸ hg
        simp [this]
      · simp [hfg]
    · have hc : seen.contains (keyOf g) = false := by simpa using hg
      simp only [hc, Bool.false_eq_true, if_false]
      rw [ih]
      simp only [List.cons_append, List.mem_cons]
      congr 1
      by_cases h1 : keyOf f = keyOf g <;> by_cases h2 : keyOf f ∈ seen <;>
        by_cases h3 : keyOf f ∈ List.map keyOf pre <;> simp [h1, h2, h3]

theorem dedupeAux_sublist (seen : List Key) (fs : List Frag) : (dedupeAux seen fs).Sublist fs := by
  induction fs generalizing seen with
  | nil => simp [dedupeAux]
  | cons f fs ih =>
    simp only [dedupeAux]
    split
    · exact (ih _).cons _
    · exact (ih _).cons_cons _

/-! ## column assignment -/

theorem appendAt_length (i : Nat) (f : Frag) (cs : List (List Frag)) :
    (appendAt i f cs).length = cs.length := by
  induction cs generalizing i with
  | nil => cases i <;> simp [appendAt]
  | cons c cs ih => cases i <;> simp [appendAt, ih]

theorem appendAt_perm (i : Nat) (f : Frag) (cs : List (List Frag)) (h : i < cs.length) :
    (appendAt i f cs).flatten.Perm (f :: cs.flatten) := by
  induction cs generalizing i with
  | nil => simp at h
  | cons c cs ih =>
    cases i with
    | zero =>
      simp only [appendAt, List.flatten_cons]
      perm_count
    | succ i =>
      simp only [appendAt, List.flatten_cons]
      have := ih i (by simpa using h)
      exact (List.Perm.append_left c this).trans (by perm_count)

theorem findCol_lt (c : Rat) (bs : List (Rat × Rat)) (i : Nat) (h : findCol c bs = some i) :
    i < bs.length := by
  induction bs generalizing i with
  | nil => simp [findCol] at h
  | cons b bs ih =>
    obtain ⟨l, r⟩ := b
    simp only [findCol] at h
    split at h
    · simp at h; subst h; simp
    · cases hf : findCol c bs with
      | none => simp [hf] at h
      | some j =>
        simp [hf] at h
        subst h
        have := ih j hf
        simp; omega

theorem assignCol_lt (bs : List (Rat × Rat)) (f : Frag) (h : bs ≠ []) : assignCol bs f < bs.length := by
  unfold assignCol
  cases hf : findCol (centre f) bs with
  | some i => exact findCol_lt _ _ _ hf
  | none =>
    cases bs with
    | nil => exact absurd rfl h
    | cons b bs =>
      obtain ⟨l, r⟩ := b
      simp only
      split <;> simp

theorem foldl_appendAt_perm (g : Frag → Nat) (fs : List Frag) (cols : List (List Frag))
    (hg : ∀ f, g f < cols.length) :
    (fs.foldl (fun cols f => appendAt (g f) f cols) cols).flatten.Perm (cols.flatten ++ fs) := by
  induction fs generalizing cols with
  | nil => simp
  | cons f fs ih =>
    simp only [List.foldl_cons]
    have h1 := ih (appendAt (g f) f cols) (by intro x; rw [appendAt_length]; exact hg x)
    have h2 := appendAt_perm (g f) f cols (hg f)
    exact h1.trans ((h2.append_right fs).trans (by perm_count))

theorem flatten_map_nil {α β : Type} (l : List β) : (l.map fun _ => ([] : List α)).flatten = [] := by
  induction l <;> simp_all

theorem boundaries_ne_nil (gs : List Gap) (a b : Rat) : boundaries gs a b ≠ [] := by
  unfold boundaries
  cases gs <;> simp

theorem createColumns_perm (gaps : List Gap) (fs : List Frag) :
    (createColumns gaps fs).flatten.Perm fs := by
  unfold createColumns
  split
  · rename_i h
    have : fs = [] := (isEmpty_eq_true_iff fs).mp h
    subst this; simp
  · simp only
    generalize hbs : boundaries _ _ _ = bs
    have hne : bs ≠ [] := by rw [← hbs]; exact boundaries_ne_nil _ _ _
    have := foldl_appendAt_perm (assignCol bs) fs (bs.map fun _ => [])
      (by intro f; simp only [List.length_map]; exact assignCol_lt bs f hne)
    rw [flatten_map_nil] at this
    simpa using this

/-! ## column validation -/

theorem validateStep_perm (m : Rat) (st : List (List Frag) × List Frag) (col : List Frag) :
    ((validateStep m st col).1.flatten ++ (validateStep m st col).2).Perm (st.1.flatten ++ st.2 ++ col) := by
  unfold validateStep
  split
  · rename_i h
    have : col = [] := (isEmpty_eq_true_iff col).mp h
    subst this; simp
  · split
    · obtain ⟨v, p⟩ := st
      cases v with
      | nil => simp
      | cons last r =>
        simp only [List.flatten_cons]
        perm_count
    · simp only [List.flatten_cons, List.append_nil]
      perm_count

theorem foldl_validateStep_perm (m : Rat) (cols : List (List Frag)) (st : List (List Frag) × List Frag) :
    ((cols.foldl (validateStep m) st).1.flatten ++ (cols.foldl (validateStep m) st).2).Perm
      (st.1.flatten ++ st.2 ++ cols.flatten) := by
  induction cols generalizing st with
  | nil => simp
  | cons c cols ih =>
    simp only [List.foldl_cons, List.flatten_cons]
    exact (ih _).trans (((validateStep_perm m st c).append_right cols.flatten).trans (by perm_count))

theorem validateColumns_perm (m : Rat) (cols : List (List Frag)) :
    (validateColumns m cols).flatten.Perm cols.flatten := by
  unfold validateColumns
  simp only
  generalize hst : cols.foldl (validateStep m) ([], []) = st
  have h := foldl_validateStep_perm m cols ([], [])
  rw [hst] at h
  simp only [List.flatten_nil, List.nil_append] at h
  rw [List.flatten_append]
  have h1 : st.1.reverse.flatten.Perm st.1.flatten := (List.reverse_perm st.1).flatten
  have h2 : (if st.2.isEmpty then [] else [st.2]).flatten = st.2 := by
    split
    · rename_i he; rw [(isEmpty_eq_true_iff st.2).mp he]; simp
    · simp
  rw [h2]
  exact (h1.append_right st.2).trans h

/-! ## bands and spanning separation -/

theorem addToBands_perm (f : Frag) (bs : List Band) :
    ((addToBands f bs).map (·.frs)).flatten.Perm (f :: (bs.map (·.frs)).flatten) := by
  induction bs with
  | nil => simp [addToBands]
  | cons b bs ih =>
    simp only [addToBands]
    split
    · simp only [List.map_cons, List.flatten_cons]
      perm_count
    · simp only [List.map_cons, List.flatten_cons]
      exact (List.Perm.append_left b.frs ih).trans (by perm_count)

theorem foldl_addToBands_perm (fs : List Frag) (bs : List Band) :
    ((fs.foldl (fun bs f => addToBands f bs) bs).map (·.frs)).flatten.Perm
      ((bs.map (·.frs)).flatten ++ fs) := by
  induction fs generalizing bs with
  | nil => simp
  | cons f fs ih =>
    simp only [List.foldl_cons]
    exact (ih _).trans (((addToBands_perm f bs).append_right fs).trans (by perm_count))

theorem bands_perm (fs : List Frag) : (bands fs).flatten.Perm fs := by
  unfold bands
  have h1 : (((bandsUnsorted fs).mergeSort (fun a b => decide (a.y ≥ b.y))).map (·.frs)).flatten.Perm
      ((bandsUnsorted fs).map (·.frs)).flatten :=
    ((List.mergeSort_perm _ _).map _).flatten
  have h2 := foldl_addToBands_perm fs []
  simp only [List.map_nil, List.flatten_nil, List.nil_append] at h2
  exact h1.trans h2

theorem separate_perm (isSpan keep : List Frag → List Frag → Bool) (fs : List Frag) :
    ((separate isSpan keep fs).1 ++ (separate isSpan keep fs).2).Perm fs := by
  unfold separate
  simp only
  have hb := bands_perm fs
  have hs := filter_flatten_split (isSpan fs) (bands fs)
  split
  · exact (List.perm_append_comm.trans hs).trans hb
  · generalize hsp : ((bands fs).filter (isSpan fs)).flatten = sp at *
    generalize hreg : ((bands fs).filter (fun l => !isSpan fs l)).flatten = reg at *
    have hb2 := bands_perm sp
    have hs2 := filter_flatten_split (keep reg) (bands sp)
    simp only
    have : (reg ++ ((bands sp).filter (fun l => !keep reg l)).flatten ++ ((bands sp).filter (keep reg)).flatten).Perm
        (reg ++ sp) := by
      rw [List.append_assoc]
      exact List.Perm.append_left reg ((List.perm_append_comm.trans hs2).trans hb2)
    exact this.trans ((List.perm_append_comm.trans hs).trans hb)

theorem detectColumns_perm (gaps : List Gap) (m : Rat) (isSpan keep : List Frag → List Frag → Bool)
    (fs : List Frag) : (detectColumns gaps m isSpan keep fs).all.Perm fs := by
  unfold detectColumns ColumnLayout.all
  split
  · rename_i h; rw [(isEmpty_eq_true_iff fs).mp h]; simp
  · split
    · simp
    · simp only
      have h1 := validateColumns_perm m (createColumns gaps (separate isSpan keep fs).1)
      have h2 := createColumns_perm gaps (separate isSpan keep fs).1
      exact ((h1.trans h2).append_right _).trans (separate_perm isSpan keep fs)

/-! ## non-space characters -/

theorem nonspace_append (a b : Str) : nonspace (a ++ b) = nonspace a ++ nonspace b := by
  simp [nonspace]

theorem nonspace_nil : nonspace [] = [] := rfl

theorem nonspace_replicate_nl (n : Nat) : nonspace (List.replicate n 10) = [] := by
  induction n with
  | zero => rfl
  | succ n ih => simp only [List.replicate_succ, nonspace, List.filter_cons] at *; simp [isSpaceByte]

theorem nonspace_replicate_sp (n : Nat) : nonspace (List.replicate n 32) = [] := by
  induction n with
  | zero => rfl
  | succ n ih => simp only [List.replicate_succ, nonspace, List.filter_cons] at *; simp [isSpaceByte]

theorem textsOf_append (a b : List Frag) : textsOf (a ++ b) = textsOf a ++ textsOf b := by
  simp [textsOf]

theorem textsOf_cons (f : Frag) (l : List Frag) : textsOf (f :: l) = f.text ++ textsOf l := by
  simp [textsOf]

theorem textsOf_perm {a b : List Frag} (h : a.Perm b) : (nonspace (textsOf a)).Perm (nonspace (textsOf b)) := by
  unfold nonspace textsOf
  exact (h.flatMap_right _).filter _

theorem textsOf_flatten_perm {A B : List (List Frag)} (h : A.flatten.Perm B.flatten) :
    (nonspace (textsOf A.flatten)).Perm (nonspace (textsOf B.flatten)) := textsOf_perm h

theorem visible_false_iff (s : Str) : visible s = false ↔ nonspace s = [] := by
  unfold visible nonspace
  induction s with
  | nil => simp
  | cons c s ih =>
    simp only [List.any_cons, List.filter_cons]
    cases hc : isSpaceByte c <;> simp [hc, ih]

/-! ## line text and the line filter -/

theorem nonspace_lineTextAux (p : Frag) (l : List Frag) :
    nonspace (lineTextAux p l) = nonspace (textsOf l) := by
  induction l generalizing p with
  | nil => rfl
  | cons f fs ih =>
    simp only [lineTextAux, textsOf_cons, nonspace_append, ih]
    split <;> simp [nonspace, isSpaceByte]

theorem nonspace_lineText (l : List Frag) : nonspace (lineText l) = nonspace (textsOf l) := by
  cases l with
  | nil => rfl
  | cons f fs => simp only [lineText, textsOf_cons, nonspace_append, nonspace_lineTextAux]

theorem dropped_line_blank (m : Rat) (l : List Frag) (h : keepLine m l = false) :
    nonspace (textsOf l) = [] := by
  unfold keepLine at h
  cases l with
  | nil => rfl
  | cons f fs =>
    simp only [List.isEmpty_cons, Bool.not_false, Bool.true_and, Bool.not_eq_false', Bool.and_eq_true,
      Bool.not_eq_true', decide_eq_true_eq] at h
    have := (visible_false_iff _).mp h.2
    rw [nonspace_lineText] at this
    exact this

theorem buildLines_nonspace (m : Rat) (gs : List (List Frag)) :
    nonspace (textsOf (buildLines m gs).flatten) = nonspace (textsOf gs.flatten) := by
  induction gs with
  | nil => rfl
  | cons g gs ih =>
    unfold buildLines at *
    simp only [List.filter_cons]
    cases hk : keepLine m g with
    | true => simp only [if_true, List.flatten_cons, textsOf_append, nonspace_append, ih]
    | false =>
      simp only [Bool.false_eq_true, if_false, List.flatten_cons, textsOf_append, nonspace_append, ih,
        dropped_line_blank m g hk, List.nil_append]

/-! ## assembleText -/

theorem nonspace_asmSep (ly lx : Rat) (f : Frag) : nonspace (asmSep ly lx f) = [] := by
  unfold asmSep
  simp only
  split
  · split <;> rfl
  · split <;> rfl

theorem nonspace_asmEmit (ly lx : Rat) (l : List Frag) :
    nonspace (asmEmit ly lx l) = nonspace (textsOf l) := by
  induction l generalizing ly lx with
  | nil => rfl
  | cons f fs ih =>
    simp only [asmEmit, textsOf_cons, nonspace_append, nonspace_asmSep, List.nil_append, ih]

theorem nonspace_assembleText (fs : List Frag) :
    nonspace (assembleText fs) = nonspace (textsOf (stableSort asmLess fs)) := by
  unfold assembleText
  cases stableSort asmLess fs with
  | nil => rfl
  | cons f r => simp only [textsOf_cons, nonspace_append, nonspace_asmEmit]

/-! ## preserveLayout -/

theorem nonspace_plEmit (pad : List Frag → Frag → Nat × Nat) (done l : List Frag) :
    nonspace (plEmit pad done l) = nonspace (textsOf l) := by
  induction l generalizing done with
  | nil => rfl
  | cons f fs ih =>
    simp only [plEmit, textsOf_cons, nonspace_append, nonspace_replicate_nl, nonspace_replicate_sp,
      List.nil_append, ih]

/-! ## trimming and joining -/

theorem nonspace_trimLeft (s : Str) : nonspace (trimLeft s) = nonspace s := by
  induction s with
  | nil => rfl
  | cons c s ih =>
    simp only [trimLeft]
    cases hc : isSpaceByte c with
    | true =>
      simp only [if_true, ih]
      simp [nonspace, List.filter_cons, hc]
    | false => simp

theorem nonspace_reverse (s : Str) : nonspace s.reverse = (nonspace s).reverse := by
  simp [nonspace, List.filter_reverse]

theorem nonspace_trimSpace (s : Str) : nonspace (trimSpace s) = nonspace s := by
  unfold trimSpace
  rw [nonspace_reverse, nonspace_trimLeft, nonspace_reverse, nonspace_trimLeft, List.reverse_reverse]

theorem nonspace_joinLines (sep : Nat → Str) (hsep : ∀ i, nonspace (sep i) = []) (i : Nat) (ts : List Str) :
    nonspace (joinLines sep i ts) = nonspace ts.flatten := by
  induction ts generalizing i with
  | nil => rfl
  | cons t ts ih =>
    simp only [joinLines, List.flatten_cons, nonspace_append, nonspace_trimSpace, ih]
    split <;> simp [hsep, nonspace_nil]

theorem nonspace_byColumnAux (sep : Nat → Nat → Str) (hsep : ∀ i j, nonspace (sep i j) = [])
    (si : Nat) (acc : Str) (ss : List (List Str)) :
    nonspace (byColumnAux sep si acc ss) = nonspace acc ++ nonspace (ss.map List.flatten).flatten := by
  induction ss generalizing si acc with
  | nil => simp [byColumnAux, nonspace_nil]
  | cons s ss ih =>
    simp only [byColumnAux, ih, nonspace_append, List.map_cons, List.flatten_cons,
      nonspace_joinLines (sep si) (hsep si)]
    split <;> simp [nonspace, isSpaceByte]

theorem nonspace_joinParagraphsAux (i : Nat) (ps : List (List Str)) :
    nonspace (joinParagraphsAux i ps) = nonspace (ps.map List.flatten).flatten := by
  induction ps generalizing i with
  | nil => rfl
  | cons p ps ih =>
    simp only [joinParagraphsAux, nonspace_append, ih, List.map_cons, List.flatten_cons,
      nonspace_joinLines (fun _ => [32]) (fun _ => rfl)]
    split <;> simp [nonspace, isSpaceByte]

/-! ## blocks -/

/-- all fragments of a block list -/
def blocksFrags (bs : List Block) : List Frag := (bs.map (·.frags)).flatten
/-- all lines of a block list -/
def blocksLines (bs : List Block) : List (List Frag) := (bs.map (·.lines)).flatten

theorem mergeBlocks_frags (a b : Block) : (mergeBlocks a b).frags.Perm (a.frags ++ b.frags) :=
  List.Perm.refl _

theorem mergeBlocks_lines (a b : Block) : (mergeBlocks a b).lines.Perm (a.lines ++ b.lines) :=
  List.mergeSort_perm _ _

theorem mergeInto_perm {β : Type} [DecidableEq β] (proj : Block → List β)
    (hp : ∀ a b, (proj (mergeBlocks a b)).Perm (proj a ++ proj b))
    (ov : Block → Block → Bool) (cur : Block) (bs : List Block) :
    (proj (mergeInto ov cur bs).1 ++ ((mergeInto ov cur bs).2.map proj).flatten).Perm
      (proj cur ++ (bs.map proj).flatten) := by
  induction bs generalizing cur with
  | nil => simp [mergeInto]
  | cons b bs ih =>
    simp only [mergeInto]
    split
    · simp only [List.map_cons, List.flatten_cons]
      exact (ih _).trans (((hp cur b).append_right _).trans (by perm_count))
    · simp only [List.map_cons, List.flatten_cons]
      have h2 := List.Perm.append_left (proj b) (ih cur)
      have h1 : (proj (mergeInto ov cur bs).1 ++ (proj b ++ ((mergeInto ov cur bs).2.map proj).flatten)).Perm
          (proj b ++ (proj (mergeInto ov cur bs).1 ++ ((mergeInto ov cur bs).2.map proj).flatten)) := by
        perm_count
      have h3 : (proj b ++ (proj cur ++ (bs.map proj).flatten)).Perm
          (proj cur ++ (proj b ++ (bs.map proj).flatten)) := by perm_count
      exact h1.trans (h2.trans h3)

theorem mergeAll_perm {β : Type} [DecidableEq β] (proj : Block → List β)
    (hp : ∀ a b, (proj (mergeBlocks a b)).Perm (proj a ++ proj b))
    (ov : Block → Block → Bool) (bs : List Block) :
    ((mergeAll ov bs).map proj).flatten.Perm (bs.map proj).flatten := by
  induction bs using mergeAll.induct (ov := ov) with
  | case1 => simp [mergeAll]
  | case2 b bs _ ih =>
    rw [mergeAll]
    simp only [List.map_cons, List.flatten_cons]
    exact (List.Perm.append_left _ ih).trans (mergeInto_perm proj hp ov b bs)

theorem mkBlocks_frags (L : List (List (List Frag))) : blocksFrags (L.map mkBlock) = L.flatten.flatten := by
  unfold blocksFrags
  induction L with
  | nil => rfl
  | cons l L ih => simp only [List.map_cons, List.flatten_cons, mkBlock, List.flatten_append, ih]

theorem mkBlocks_lines (L : List (List (List Frag))) : blocksLines (L.map mkBlock) = L.flatten := by
  unfold blocksLines
  induction L with
  | nil => rfl
  | cons l L ih => simp only [List.map_cons, List.flatten_cons, mkBlock, ih]

theorem groupBlocks_frags (brk : List (List Frag) → List Frag → List (List Frag) → Bool)
    (lines : List (List Frag)) : blocksFrags (groupBlocks brk lines) = lines.flatten := by
  unfold groupBlocks
  rw [mkBlocks_frags, segment_flatten, List.nil_append]

theorem groupBlocks_lines (brk : List (List Frag) → List Frag → List (List Frag) → Bool)
    (lines : List (List Frag)) : blocksLines (groupBlocks brk lines) = lines := by
  unfold groupBlocks
  rw [mkBlocks_lines, segment_flatten, List.nil_append]

theorem visible4_false_nonspace (s : Str) (h : visible4 s = false) : nonspace s = [] := by
  unfold visible4 at h
  unfold nonspace
  induction s with
  | nil => rfl
  | cons c s ih =>
    simp only [List.any_cons, Bool.or_eq_false_iff, Bool.not_eq_false'] at h
    have hc : isSpaceByte c = true := by
      have := h.1
      unfold isWs4 at this
      unfold isSpaceByte
      simp only [Bool.or_eq_true, beq_iff_eq] at this
      rcases this with ((h1 | h1) | h1) | h1 <;> subst h1 <;> decide
    simp [List.filter_cons, hc, ih h.2]

theorem any_visible4_false (l : List Frag) (h : l.any (fun f => visible4 f.text) = false) :
    nonspace (textsOf l) = [] := by
  induction l with
  | nil => rfl
  | cons f l ih =>
    simp only [List.any_cons, Bool.or_eq_false_iff] at h
    simp only [textsOf_cons, nonspace_append, visible4_false_nonspace _ h.1, ih h.2, List.nil_append]

theorem dropped_block_blank (mw mh : Rat) (b : Block) (h : keepBlock mw mh b = false) :
    nonspace (textsOf b.frags) = [] := by
  unfold keepBlock at h
  cases hb : b.frags with
  | nil => rfl
  | cons f fs =>
    rw [hb] at h
    simp only [List.isEmpty_cons, Bool.not_false, Bool.true_and, Bool.not_eq_false', Bool.and_eq_true,
      Bool.not_eq_true'] at h
    exact any_visible4_false _ h.2

theorem validateBlocks_nonspace (mw mh : Rat) (bs : List Block) :
    nonspace (textsOf (blocksFrags (validateBlocks mw mh bs))) = nonspace (textsOf (blocksFrags bs)) := by
  unfold blocksFrags validateBlocks
  induction bs with
  | nil => rfl
  | cons b bs ih =>
    simp only [List.filter_cons]
    cases hk : keepBlock mw mh b with
    | true => simp only [if_true, List.map_cons, List.flatten_cons, textsOf_append, nonspace_append, ih]
    | false =>
      simp only [Bool.false_eq_true, if_false, List.map_cons, List.flatten_cons, textsOf_append,
        nonspace_append, ih, dropped_block_blank mw mh b hk, List.nil_append]

/-! ## the element tree after the repair 8ee0e52, id by id -/

/-- `paragraphNotShown`, counted: what remains of the paragraph is what `shown` does not cover,
what remains of `shown` is what the paragraph did not use (truncated subtractions) -/
theorem count_notShown (shown ids : List Nat) (i : Nat) :
    (notShown shown ids).1.count i = ids.count i - shown.count i ∧
    (notShown shown ids).2.count i = shown.count i - ids.count i := by
  induction ids generalizing shown with
  | nil => simp [notShown]
  | cons a r ih =>
    unfold notShown
    by_cases hm : a ∈ shown
    · rw [if_pos hm]
      have h1 := ih (shown.erase a)
      have h2 : (shown.erase a).count i = shown.count i - if a == i then 1 else 0 := List.count_erase ..
      have h3 : 0 < shown.count a := List.count_pos_iff.mpr hm
      rw [List.count_cons]
      by_cases hai : a = i
      · subst hai
        simp only [beq_self_eq_true, if_true] at h2 ⊢
        omega
      · have : (a == i) = false := by simpa using hai
        simp only [this, Bool.false_eq_true, if_false] at h2 ⊢
        omega
    · rw [if_neg hm]
      have h1 := ih shown
      simp only [List.count_cons]
      by_cases hai : a = i
      · subst hai
        have h0 : shown.count a = 0 := List.count_eq_zero.mpr hm
        simp only [beq_self_eq_true, if_true]
        omega
      · have : (a == i) = false := by simpa using hai
        simp only [this, Bool.false_eq_true, if_false]
        omega

theorem notShown_nil (ids : List Nat) : notShown [] ids = (ids, []) := by
  induction ids with
  | nil => rfl
  | cons a r ih => unfold notShown; simp [ih]

theorem ids_remainingPars (rbox : Elem → List Nat → Box) (shown : List Nat) (p : Elem) (r : List Elem) :
    (remainingPars rbox shown (p :: r)).flatMap (·.ids) =
      (notShown shown p.ids).1 ++ (remainingPars rbox (notShown shown p.ids).2 r).flatMap (·.ids) := by
  rw [remainingPars]
  split
  · rfl
  · split
    · rename_i h; rw [List.isEmpty_iff.mp h]; rfl
    · rfl

/-- the paragraphs of the repaired tree show of every id what `shown` does not cover -/
theorem count_remainingPars (rbox : Elem → List Nat → Box) (shown : List Nat) (ps : List Elem) (i : Nat) :
    ((remainingPars rbox shown ps).flatMap (·.ids)).count i =
      (ps.flatMap (·.ids)).count i - shown.count i := by
  induction ps generalizing shown with
  | nil => simp [remainingPars]
  | cons p r ih =>
    rw [ids_remainingPars, List.count_append, ih, List.flatMap_cons, List.count_append]
    have h := count_notShown shown p.ids i
    omega

/-- the repaired element tree id by id: the headings it shows, the lists, and of the paragraphs
what those do not cover -/
theorem count_elementTree (rbox : Elem → List Nat → Box) (hs ls ps : List Elem) (i : Nat) :
    ((elementTree rbox hs ls ps).flatMap (·.ids)).count i =
      ((shownHeadings hs ls).flatMap (·.ids)).count i + (ls.flatMap (·.ids)).count i +
        ((ps.flatMap (·.ids)).count i -
          ((ls.flatMap (·.ids)).count i + ((shownHeadings hs ls).flatMap (·.ids)).count i)) := by
  unfold elementTree
  rw [List.flatMap_append, List.flatMap_append, List.count_append, List.count_append,
    count_remainingPars, List.count_append]

/-- without headings and lists the repaired tree is the paragraph list -/
theorem remainingPars_nil (rbox : Elem → List Nat → Box) (ps : List Elem) : remainingPars rbox [] ps = ps := by
  induction ps with
  | nil => rfl
  | cons p r ih =>
    rw [remainingPars]
    simp only [notShown_nil, beq_self_eq_true, if_true, ih]

end Tabula.Layout
