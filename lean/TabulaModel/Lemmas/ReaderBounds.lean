import TabulaModel.Lemmas.Reader
/-!
The resource bounds of the page-tree walk in the end-to-end reader model
(`Reader.buildNode` / `Reader.buildKids`, Model/Reader.lean):

* the depth limit `maxPageTreeDepth = 10000` of `traversePageNode` (repair 86b42aa);
* the visited set, which since cd93b07 also holds the object numbers of indirect `/Kids`
  arrays: every number is entered at most once, so the walk builds at most one node per
  object number, and the fuel the model gives the walk (`fuelOf`) is never used up.
-/
namespace Tabula.Reader
open Tabula.Pdf (Obj)

/-! ### depth -/

/-- beyond the limit the walk stops at once, whatever the node is -/
theorem buildNode_too_deep (res : Res) (fuel dep : Nat) (vis : List Nat) (d : Dict)
    (h : dep ≥ PdfDoc.maxPageTreeDepth) : buildNode res (fuel + 1) dep vis d = .error .err := by
  simp [buildNode, h]

theorem height_toPTree_pos (t : RTree) : 1 ≤ PdfDoc.height (toPTree t) := by
  cases t <;> simp [toPTree, PdfDoc.height]

/-- a tree the walk builds from depth `dep` on has no node below level `maxPageTreeDepth - 1` -/
theorem build_height (res : Res) : ∀ fuel,
    (∀ dep vis d t vis', buildNode res fuel dep vis d = .ok (t, vis') →
      dep + PdfDoc.height (toPTree t) ≤ PdfDoc.maxPageTreeDepth) ∧
    (∀ dep vis ks ts vis', dep ≤ PdfDoc.maxPageTreeDepth → buildKids res fuel dep vis ks = .ok (ts, vis') →
      dep + PdfDoc.heightList (toPTreeList ts) ≤ PdfDoc.maxPageTreeDepth) := by
  intro fuel
  induction fuel with
  | zero =>
    refine ⟨?_, ?_⟩
    · intro dep vis d t vis' h; simp [buildNode] at h
    · intro dep vis ks ts vis' _ h; simp [buildKids] at h
  | succ fuel ih =>
    refine ⟨?_, ?_⟩
    · intro dep vis d t vis' h
      simp only [buildNode] at h
      by_cases hdep : dep ≥ PdfDoc.maxPageTreeDepth
      · simp [hdep] at h
      simp only [hdep, if_false] at h
      split at h
      · next tn _ =>
        split at h
        · -- /Pages
          split at h
          · cases h
          · split at h
            · cases h
            · split at h
              · cases h
              · next kids _ =>
                split at h
                · cases h
                · next ts v2 hk =>
                  cases h
                  have := ih.2 (dep + 1) _ kids ts _ (by omega) hk
                  simp only [toPTree, PdfDoc.height]
                  omega
              · cases h
        · split at h
          · cases h
            simp only [toPTree, PdfDoc.height]
            omega
          · cases h
      · cases h
    · intro dep vis ks ts vis' hdep h
      cases ks with
      | nil =>
        simp only [buildKids] at h
        cases h
        simp [toPTreeList, PdfDoc.heightList]
        exact hdep
      | cons k ks =>
        simp only [buildKids] at h
        split at h
        · next n g =>
          split at h
          · cases h
          · split at h
            · cases h
            · split at h
              · cases h
              · next kd _ =>
                split at h
                · cases h
                · next t vis1 hb =>
                  split at h
                  · cases h
                  · next ts' vis2 hk =>
                    cases h
                    have h1 := ih.1 dep _ kd t vis1 hb
                    have h2 := ih.2 dep vis1 ks ts' _ hdep hk
                    simp only [toPTreeList, PdfDoc.heightList]
                    omega
              · cases h
        · cases h
        · cases h

/-- the page tree `pageTree` delivers has at most `maxPageTreeDepth` levels -/
theorem pageTree_height (res : Res) (fuel : Nat) (root : Option Nat) (t : RTree)
    (h : pageTree res fuel root = .ok t) : PdfDoc.height (toPTree t) ≤ PdfDoc.maxPageTreeDepth := by
  unfold pageTree at h
  repeat' split at h
  all_goals first
    | cases h
    | skip
  next hb =>
    have := (build_height res fuel).1 0 _ _ _ _ hb
    omega

/-! ### the visited set -/

mutual
/-- the number of nodes of a page tree -/
def RTree.size : RTree → Nat
  | .leaf _ => 1
  | .node _ kids => sizeList kids + 1
def sizeList : List RTree → Nat
  | [] => 0
  | t :: ts => t.size + sizeList ts
end

/-- how many of the numbers `0..K` are not in the visited set -/
def unvisited (K : Nat) (vis : List Nat) : Nat :=
  ((List.range (K + 1)).filter fun n => !vis.contains n).length

theorem filter_length_mono {α : Type} (l : List α) (p q : α → Bool) (h : ∀ x, p x = true → q x = true) :
    (l.filter p).length ≤ (l.filter q).length := by
  induction l with
  | nil => simp
  | cons a l ih =>
    simp only [List.filter_cons]
    by_cases hp : p a = true
    · simp only [hp, h a hp, if_true, List.length_cons]; omega
    · simp only [hp]
      by_cases hq : q a = true
      · simp only [hq, if_true, List.length_cons]
        have : (if false = true then a :: List.filter p l else List.filter p l) = List.filter p l := by simp
        simp only [Bool.false_eq_true, if_false]; omega
      · simp only [hq, Bool.false_eq_true, if_false]; exact ih

theorem filter_remove (l : List Nat) (p : Nat → Bool) (a : Nat) (hnd : l.Nodup) (ha : a ∈ l) (hp : p a = true) :
    (l.filter fun x => p x && x != a).length + 1 = (l.filter p).length := by
  induction l with
  | nil => cases ha
  | cons b l ih =>
    rw [List.nodup_cons] at hnd
    by_cases hab : a = b
    · subst hab
      have : l.filter (fun x => p x && x != a) = l.filter p := by
        apply List.filter_congr
        intro x hx
        have : x ≠ a := fun e => hnd.1 (e ▸ hx)
        simp [this]
      simp [List.filter_cons, hp, this]
    · have ha' : a ∈ l := by
        rcases List.mem_cons.mp ha with h | h
        · exact absurd h hab
        · exact h
      have := ih hnd.2 ha'
      have hba : (b != a) = true := by simp; exact fun e => hab e.symm
      simp only [List.filter_cons, hba, Bool.and_true]
      by_cases hpb : p b = true
      · simp only [hpb, if_true, List.length_cons]; omega
      · simp only [hpb, Bool.false_eq_true, if_false]; exact this

/-- a number that has an entry and is visited for the first time leaves one unvisited number less -/
theorem unvisited_cons (K : Nat) (vis : List Nat) (n : Nat) (hn : n ≤ K) (hv : vis.contains n = false) :
    unvisited K (n :: vis) + 1 = unvisited K vis := by
  unfold unvisited
  have := filter_remove (List.range (K + 1)) (fun x => !vis.contains x) n List.nodup_range
    (List.mem_range.mpr (by omega)) (by simp only [hv]; rfl)
  rw [← this]
  congr 2
  apply List.filter_congr
  intro x _
  by_cases hx : x = n
  · simp [hx]
  · have : ¬ n = x := fun e => hx e.symm
    simp [List.contains_cons, hx, this]

theorem unvisited_mono (K : Nat) (vis vis' : List Nat) (h : ∀ x ∈ vis, x ∈ vis') :
    unvisited K vis' ≤ unvisited K vis := by
  unfold unvisited
  apply filter_length_mono
  intro x hx
  simp only [Bool.not_eq_true', List.contains_eq_mem, decide_eq_false_iff_not] at hx ⊢
  exact fun hm => hx (h x hm)

theorem unvisited_nil (K : Nat) : unvisited K [] = K + 1 := by
  have : (List.range (K + 1)).filter (fun n => !([] : List Nat).contains n) = List.range (K + 1) := by
    apply List.filter_eq_self.mpr
    intro x _
    rfl
  unfold unvisited
  rw [this, List.length_range]

theorem visitKidsRef_spec (res : Res) (vis vis0 : List Nat) (k : Obj) (v : SVal)
    (h : visitKidsRef vis k = some vis0) (hr : resolve res k = .ok v) :
    vis0 = vis ∨ ∃ n, vis0 = n :: vis ∧ vis.contains n = false ∧ res n = .ok v := by
  cases k with
  | ref n g =>
    simp only [visitKidsRef] at h
    simp only [resolve] at hr
    by_cases hn : n < 0
    · simp [hn] at hr
    · simp only [hn, if_false] at h hr
      cases hc : vis.contains n.toNat with
      | true => rw [hc] at h; simp at h
      | false =>
        rw [hc] at h
        simp only [Bool.false_eq_true, if_false, Option.some.injEq] at h
        exact Or.inr ⟨n.toNat, h.symm, hc, hr⟩
  | _ => simp only [visitKidsRef, Option.some.injEq] at h; exact Or.inl h.symm

/-- the visited set only grows, and every node the walk builds below the one it starts from is
paid for by a number visited for the first time: nodes built + numbers `0..K` still unvisited
afterwards ≤ numbers unvisited before (+ 1 for the node the walk starts from) -/
theorem build_vis (res : Res) (K : Nat) (hK : ∀ n v, res n = .ok v → n ≤ K) : ∀ fuel,
    (∀ dep vis d t vis', buildNode res fuel dep vis d = .ok (t, vis') →
      (∀ x ∈ vis, x ∈ vis') ∧ t.size + unvisited K vis' ≤ unvisited K vis + 1) ∧
    (∀ dep vis ks ts vis', buildKids res fuel dep vis ks = .ok (ts, vis') →
      (∀ x ∈ vis, x ∈ vis') ∧ sizeList ts + unvisited K vis' ≤ unvisited K vis) := by
  intro fuel
  induction fuel with
  | zero =>
    refine ⟨?_, ?_⟩
    · intro dep vis d t vis' h; simp [buildNode] at h
    · intro dep vis ks ts vis' h; simp [buildKids] at h
  | succ fuel ih =>
    refine ⟨?_, ?_⟩
    · intro dep vis d t vis' h
      simp only [buildNode] at h
      by_cases hdep : dep ≥ PdfDoc.maxPageTreeDepth
      · simp [hdep] at h
      simp only [hdep, if_false] at h
      split at h
      · split at h
        · split at h
          · cases h
          · next k _ =>
            split at h
            · cases h
            · next vis0 hv0 =>
              split at h
              · cases h
              · next kids hr =>
                split at h
                · cases h
                · next ts v2 hk =>
                  cases h
                  have hkk := ih.2 (dep + 1) vis0 kids ts _ hk
                  have h0 : (∀ x ∈ vis, x ∈ vis0) ∧ unvisited K vis0 ≤ unvisited K vis := by
                    rcases visitKidsRef_spec res vis vis0 k _ hv0 hr with e | ⟨n, e, _, _⟩
                    · subst e; exact ⟨fun _ hx => hx, Nat.le_refl _⟩
                    · subst e
                      exact ⟨fun x hx => List.mem_cons_of_mem _ hx,
                        unvisited_mono K _ _ fun x hx => List.mem_cons_of_mem _ hx⟩
                  refine ⟨fun x hx => hkk.1 x (h0.1 x hx), ?_⟩
                  simp only [RTree.size]
                  omega
              · cases h
        · split at h
          · cases h
            exact ⟨fun _ hx => hx, by simp only [RTree.size]; omega⟩
          · cases h
      · cases h
    · intro dep vis ks ts vis' h
      cases ks with
      | nil =>
        simp only [buildKids] at h
        cases h
        exact ⟨fun _ hx => hx, by simp [sizeList]⟩
      | cons k ks =>
        simp only [buildKids] at h
        split at h
        · next n g =>
          split at h
          · cases h
          · split at h
            · cases h
            · next hc =>
              split at h
              · cases h
              · next kd hres =>
                split at h
                · cases h
                · next t vis1 hb =>
                  split at h
                  · cases h
                  · next ts' vis2 hk =>
                    cases h
                    have h1 := ih.1 dep _ kd t vis1 hb
                    have h2 := ih.2 dep vis1 ks ts' _ hk
                    have hle := hK _ _ hres
                    have hu := unvisited_cons K vis n.toNat hle (by simpa using hc)
                    refine ⟨fun x hx => h2.1 x (h1.1 x (List.mem_cons_of_mem _ hx)), ?_⟩
                    simp only [sizeList]
                    omega
              · cases h
        · cases h
        · cases h

/-- **the fuel is never used up**: with `2 * (unvisited numbers) + 2` units the walk ends for a
reason of its own -/
theorem build_fuel (res : Res) (K : Nat) (hK : ∀ n v, res n = .ok v → n ≤ K)
    (hE : ∀ n, res n ≠ .error .fuel) : ∀ fuel,
    (∀ dep vis d, fuel ≥ 2 * unvisited K vis + 2 → buildNode res fuel dep vis d ≠ .error .fuel) ∧
    (∀ dep vis ks, fuel ≥ 2 * unvisited K vis + 1 → buildKids res fuel dep vis ks ≠ .error .fuel) := by
  intro fuel
  induction fuel with
  | zero =>
    refine ⟨?_, ?_⟩
    · intro dep vis d hf; omega
    · intro dep vis ks hf; omega
  | succ fuel ih =>
    refine ⟨?_, ?_⟩
    · intro dep vis d hf h
      simp only [buildNode] at h
      by_cases hdep : dep ≥ PdfDoc.maxPageTreeDepth
      · simp [hdep] at h
      simp only [hdep, if_false] at h
      split at h
      · split at h
        · split at h
          · cases h
          · next k _ =>
            split at h
            · cases h
            · next vis0 hv0 =>
              split at h
              · next e hr =>
                -- an error of `resolve` is the resolver's own
                cases h
                cases k with
                | ref n g =>
                  simp only [resolve] at hr
                  split at hr
                  · cases hr
                  · exact hE _ hr
                | _ => simp [resolve] at hr
              · next kids hr =>
                have h0 : unvisited K vis0 ≤ unvisited K vis := by
                  rcases visitKidsRef_spec res vis vis0 k _ hv0 hr with e | ⟨n, e, _, _⟩
                  · subst e; exact Nat.le_refl _
                  · subst e; exact unvisited_mono K _ _ fun x hx => List.mem_cons_of_mem _ hx
                have := ih.2 (dep + 1) vis0 kids (by omega)
                split at h
                · next e he => cases h; exact this he
                · cases h
              · cases h
        · split at h <;> cases h
      · cases h
    · intro dep vis ks hf h
      cases ks with
      | nil => simp [buildKids] at h
      | cons k ks =>
        simp only [buildKids] at h
        split at h
        · next n g =>
          split at h
          · cases h
          · split at h
            · cases h
            · next hc =>
              split at h
              · next e hr => cases h; exact hE _ hr
              · next kd hres =>
                have hle := hK _ _ hres
                have hu := unvisited_cons K vis n.toNat hle (by simpa using hc)
                have hn := ih.1 dep (n.toNat :: vis) kd (by omega)
                split at h
                · next e he => cases h; exact hn he
                · next t vis1 hb =>
                  have h1 := ((build_vis res K hK fuel).1 dep _ kd t vis1 hb).2
                  have hk := ih.2 dep vis1 ks (by
                    have : 1 ≤ t.size := by cases t <;> simp [RTree.size]
                    omega)
                  split at h
                  · next e he => cases h; exact hk he
                  · cases h
              · cases h
        · cases h
        · cases h

/-! ### on a file -/

theorem getObject_ok_le (f : AbsFile) (ext : Ext) (n : Nat) (v : SVal) (h : getObject f ext n = .ok v) :
    n ≤ maxKey (xref f) := by
  apply le_maxKey
  rw [mem_keys_iff]
  unfold getObject at h
  cases he : entry f n with
  | none => rw [he] at h; cases h
  | some e => unfold entry at he; rw [he]; rfl

theorem parseBody_err (b : RawBody) (e : Err) (h : parseBody b = .error e) : e = .err := by
  cases b with
  | plain body =>
    simp only [parseBody] at h
    split at h <;> cases h
    rfl
  | stream d data =>
    simp only [parseBody] at h
    split at h <;> cases h
    rfl

theorem objectAt_err (f : AbsFile) (n off : Nat) (e : Err) (h : objectAt f n off = .error e) : e = .err := by
  unfold objectAt at h
  split at h
  · cases h; rfl
  · split at h
    · exact parseBody_err _ e h
    · cases h; rfl

theorem mkObjStm_err (ext : Ext) (kv : Dict) (data : Str) (e : Err) (h : mkObjStm ext kv data = .error e) :
    e = .err := by
  unfold mkObjStm at h
  repeat' split at h
  all_goals first
    | (cases h; done)
    | (cases h; rfl)

theorem loadObjStm_err (f : AbsFile) (ext : Ext) (stm : Nat) (e : Err) (h : loadObjStm f ext stm = .error e) :
    e = .err := by
  have hat : ∀ off, objStmAt f ext stm off = .error e → e = .err := by
    intro off h
    unfold objStmAt at h
    split at h
    · exact mkObjStm_err ext _ _ e h
    · cases h; rfl
  unfold loadObjStm at h
  split at h
  · cases h; rfl
  · cases h; rfl
  · exact hat _ h
  · exact hat _ h

/-- `GetObject` fails with an error of tabula's, never with one of the model's own -/
theorem getObject_err (f : AbsFile) (ext : Ext) (n : Nat) (e : Err) (h : getObject f ext n = .error e) :
    e = .err := by
  unfold getObject at h
  split at h
  · cases h; rfl
  · cases h; rfl
  · split at h
    · cases h
    · next e' he => cases h; exact objectAt_err f n _ e he
  · split at h
    · next e' he => cases h; exact loadObjStm_err f ext _ e he
    · next os _ =>
      split at h
      · cases h
      · next e' he =>
        cases h
        unfold memberAt at he
        repeat' split at he
        all_goals first
          | (cases he; done)
          | (cases he; rfl)

/-- **the walk's fuel is never used up** on a file: `fuelOf f` is enough for every file -/
theorem pageTree_fuel_enough (f : AbsFile) (ext : Ext) (root : Option Nat) :
    pageTree (getObject f ext) (fuelOf f) root ≠ .error .fuel := by
  have hE : ∀ n, getObject f ext n ≠ .error .fuel := fun n h => by
    have := getObject_err f ext n _ h
    cases this
  intro h
  unfold pageTree at h
  repeat' split at h
  all_goals first
    | (cases h; done)
    | skip
  · next he => cases h; exact hE _ he
  · next k _ _ e he =>
    cases h
    cases k with
    | ref n g =>
      simp only [resolve] at he
      split at he
      · cases he
      · exact hE _ he
    | _ => simp [resolve] at he
  · next e he =>
    cases h
    refine (build_fuel (getObject f ext) (maxKey (xref f)) (getObject_ok_le f ext) hE (fuelOf f)).1 0 [] _ ?_ he
    rw [unvisited_nil]
    unfold fuelOf
    omega

/-- **bounded work of the walk** on a file: the page tree that is built has at most one node
per object number that has a cross-reference entry, plus the root -/
theorem pageTree_size (f : AbsFile) (ext : Ext) (fuel : Nat) (root : Option Nat) (t : RTree)
    (h : pageTree (getObject f ext) fuel root = .ok t) : t.size ≤ maxKey (xref f) + 2 := by
  unfold pageTree at h
  repeat' split at h
  all_goals first
    | (cases h; done)
    | skip
  next hb =>
    have := ((build_vis (getObject f ext) (maxKey (xref f)) (getObject_ok_le f ext) fuel).1 0 [] _ _ _ hb).2
    rw [unvisited_nil] at this
    cases h
    omega


/-! ### a page tree that is a list: the depth limit at its edge -/

/-- `/Pages` node number `n` of the chain: its only kid is object `n + 1` -/
def chainNode (n : Nat) : Dict := [(kType, .name kPages), (kKids, .arr [.ref ((n + 1 : Nat) : Int) 0]), (kCount, .int 1)]
/-- the `/Page` leaf at the end of the chain (with a `/Count`, so that the one-level chain, whose
root is this leaf, passes the `/Count` check of `PageTree.Count` too) -/
def chainLeaf : Dict := [(kType, .name kPage), (kCount, .int 1)]
/-- the dictionary of object `n` in the chain that ends at object `k` -/
def chainDict (k n : Nat) : Dict := if n < k then chainNode n else chainLeaf

/-- an object store: objects `0 … k-1` are `/Pages` nodes with one kid each, object `k` is the
only page, object `k + 1` the catalog: a page tree of `k + 1` levels -/
def chainRes (k : Nat) : Res := fun n =>
  if n ≤ k then .ok (.obj (.dict (chainDict k n)))
  else if n = k + 1 then .ok (.obj (.dict [(kPages, .ref 0 0)]))
  else .error .err

/-- the tree of the last `j + 1` levels of the chain -/
def chainFrom (k : Nat) : Nat → RTree
  | 0 => .leaf chainLeaf
  | j + 1 => .node (chainNode (k - (j + 1))) [chainFrom k j]

theorem buildNode_chain (k : Nat) : ∀ (j dep fuel : Nat) (vis : List Nat), j ≤ k → fuel ≥ 2 * j + 1 →
    (∀ v ∈ vis, v ≤ k - j) →
    (dep + j < PdfDoc.maxPageTreeDepth →
      ∃ vis', buildNode (chainRes k) fuel dep vis (chainDict k (k - j)) = .ok (chainFrom k j, vis')) ∧
    (dep + j ≥ PdfDoc.maxPageTreeDepth →
      buildNode (chainRes k) fuel dep vis (chainDict k (k - j)) = .error .err) := by
  intro j
  induction j with
  | zero =>
    intro dep fuel vis _ hf _
    obtain ⟨f, rfl⟩ : ∃ f, fuel = f + 1 := ⟨fuel - 1, by omega⟩
    have hd : chainDict k (k - 0) = chainLeaf := by simp [chainDict]
    rw [hd]
    refine ⟨fun h => ⟨vis, ?_⟩, fun h => buildNode_too_deep _ _ _ _ _ (by omega)⟩
    have : ¬ dep ≥ PdfDoc.maxPageTreeDepth := by omega
    simp [buildNode, this, chainLeaf, chainFrom, dget, kType, kPages, kPage]
  | succ j ih =>
    intro dep fuel vis hj hf hvis
    obtain ⟨f, rfl⟩ : ∃ f, fuel = f + 3 := ⟨fuel - 3, by omega⟩
    have hn : k - (j + 1) < k := by omega
    have hd : chainDict k (k - (j + 1)) = chainNode (k - (j + 1)) := by simp [chainDict, hn]
    have hnext : k - (j + 1) + 1 = k - j := by omega
    rw [hd]
    by_cases hdep : dep ≥ PdfDoc.maxPageTreeDepth
    · exact ⟨fun h => by omega, fun _ => buildNode_too_deep _ _ _ _ _ hdep⟩
    have e1 : dget (chainNode (k - (j + 1))) kType = some (.name kPages) := by simp [dget, chainNode]
    have e2 : dget (chainNode (k - (j + 1))) kKids = some (.arr [.ref ((k - j : Nat) : Int) 0]) := by
      simp [dget, chainNode, kType, kKids, hnext]
    have hneg : ¬ (((k - j : Nat) : Int) < 0) := by omega
    have hnot : vis.contains (k - j) = false := by
      cases hc : vis.contains (k - j) with
      | false => rfl
      | true =>
        have : k - j ∈ vis := by simpa using hc
        have := hvis _ this
        omega
    have hres : chainRes k (k - j) = .ok (.obj (.dict (chainDict k (k - j)))) := by
      have : k - j ≤ k := by omega
      simp [chainRes, this]
    have hsub := ih (dep + 1) (f + 1) ((k - j) :: vis) (by omega) (by omega) (by
      intro v hv
      rcases List.mem_cons.mp hv with rfl | hv
      · exact Nat.le_refl _
      · have := hvis v hv; omega)
    have hstep : buildNode (chainRes k) (f + 3) dep vis (chainNode (k - (j + 1))) =
        match buildNode (chainRes k) (f + 1) (dep + 1) ((k - j) :: vis) (chainDict k (k - j)) with
        | .error e => .error e
        | .ok (t, vis1) => .ok (.node (chainNode (k - (j + 1))) [t], vis1) := by
      rw [buildNode.eq_def]
      simp only [hdep, if_false, e1, e2, if_true, visitKidsRef, resolve]
      rw [buildKids.eq_def]
      simp only [hneg, if_false, Int.toNat_natCast, hnot, Bool.false_eq_true, hres]
      cases buildNode (chainRes k) (f + 1) (dep + 1) ((k - j) :: vis) (chainDict k (k - j)) with
      | error e => rfl
      | ok p => simp [buildKids]
    rw [hstep]
    refine ⟨fun h => ?_, fun h => ?_⟩
    · obtain ⟨vis', hv⟩ := hsub.1 (by omega)
      exact ⟨vis', by rw [hv]; rfl⟩
    · rw [hsub.2 (by omega)]

/-- **the depth limit at its edge**: the chain of `k + 1` levels is read iff `k + 1 ≤ 10000` -/
theorem pageTree_chain (k fuel : Nat) (hf : fuel ≥ 2 * k + 1) :
    pageTree (chainRes k) fuel (some (k + 1)) =
      if k + 1 ≤ PdfDoc.maxPageTreeDepth then .ok (chainFrom k k) else .error .err := by
  have hcat : chainRes k (k + 1) = .ok (.obj (.dict [(kPages, .ref 0 0)])) := by
    have : ¬ (k + 1 ≤ k) := by omega
    simp [chainRes, this]
  have h0 : chainRes k 0 = .ok (.obj (.dict (chainDict k 0))) := by simp [chainRes]
  have hc : dget (chainDict k 0) kCount = some (.int 1) := by
    by_cases hk : 0 < k
    · simp [chainDict, hk, chainNode, dget, kType, kKids, kCount]
    · simp [chainDict, hk, chainLeaf, dget, kType, kCount]
  have hb := buildNode_chain k k 0 fuel [] (Nat.le_refl _) hf (fun v hv => by cases hv)
  simp only [Nat.sub_self, Nat.zero_add] at hb
  have hp : dget [(kPages, Obj.ref 0 0)] kPages = some (.ref 0 0) := by simp [dget]
  have hr : resolve (chainRes k) (.ref 0 0) = .ok (.obj (.dict (chainDict k 0))) := by
    simp [resolve, h0]
  simp only [pageTree, hcat, hp, hr, hc]
  by_cases hk : k + 1 ≤ PdfDoc.maxPageTreeDepth
  · obtain ⟨vis', hv⟩ := hb.1 (by omega)
    simp only [hk, hv, if_true]
  · rw [hb.2 (by omega)]
    simp only [hk, if_false]

/-- a page tree of exactly 10000 levels is read … -/
example : pageTree (chainRes 9999) 20000 (some 10000) = .ok (chainFrom 9999 9999) := by
  rw [pageTree_chain 9999 20000 (by omega)]; rfl
/-- … one of 10001 levels is refused -/
example : pageTree (chainRes 10000) 30000 (some 10001) = .error .err := by
  rw [pageTree_chain 10000 30000 (by omega)]; rfl

/-! ### an indirect `/Kids` array is entered once -/

/-- **an indirect `/Kids` array is entered once** (cd93b07): a `/Pages` node whose `/Kids` is a
reference to a number already in the visited set — an array another node has used, or any
node met before — ends the walk with an error -/
theorem buildNode_kids_revisited (res : Res) (fuel dep : Nat) (vis : List Nat) (d : Dict) (n g : Int)
    (ht : dget d kType = some (.name kPages)) (hk : dget d kKids = some (.ref n g))
    (hn : 0 ≤ n) (hv : n.toNat ∈ vis) : buildNode res (fuel + 1) dep vis d = .error .err := by
  have hneg : ¬ n < 0 := by omega
  have hc : vis.contains n.toNat = true := by simpa using hv
  simp only [buildNode, ht, hk, if_true, visitKidsRef, hneg, if_false, hc]
  split <;> rfl

/-- two `/Pages` nodes (3 and 4) that name the same indirect `/Kids` array (5, empty): before
cd93b07 a page tree without pages, now an error -/
def sharedKidsRes : Res := fun n =>
  if n = 1 then .ok (.obj (.dict [(kPages, .ref 2 0)]))
  else if n = 2 then .ok (.obj (.dict [(kType, .name kPages), (kKids, .arr [.ref 3 0, .ref 4 0]), (kCount, .int 0)]))
  else if n = 3 ∨ n = 4 then .ok (.obj (.dict [(kType, .name kPages), (kKids, .ref 5 0), (kCount, .int 0)]))
  else if n = 5 then .ok (.obj (.arr []))
  else .error .err

example : pageTree sharedKidsRes 20 (some 1) = .error .err := by
  simp [pageTree, sharedKidsRes, resolve, dget, buildNode, buildKids, visitKidsRef, kType, kPages, kKids, kCount,
    PdfDoc.maxPageTreeDepth]

/-- … while each of the two nodes alone is read (a page tree without pages) -/
example : ∃ t, pageTree (fun n => if n = 4 then .error .err else sharedKidsRes n) 20 (some 1) = .error .err ∧
    buildNode sharedKidsRes 20 0 [] [(kType, .name kPages), (kKids, .ref 5 0), (kCount, .int 0)] = .ok (t, [5]) := by
  refine ⟨.node [(kType, .name kPages), (kKids, .ref 5 0), (kCount, .int 0)] [], ?_, ?_⟩
  · simp [pageTree, sharedKidsRes, resolve, dget, buildNode, buildKids, visitKidsRef, kType, kPages, kKids, kCount,
      PdfDoc.maxPageTreeDepth]
  · simp [sharedKidsRes, resolve, dget, buildNode, buildKids, visitKidsRef, kType, kPages, kKids, kCount,
      PdfDoc.maxPageTreeDepth]

/-! ### nothing above the walk answers `fuel` -/

/-- the resolver never answers `fuel` -/
def NoFuel (res : Res) : Prop := ∀ n, res n ≠ .error .fuel

theorem resolve_noFuel (res : Res) (h : NoFuel res) (o : Obj) : resolve res o ≠ .error .fuel := by
  cases o with
  | ref n g =>
    simp only [resolve]
    split
    · intro h'; cases h'
    · exact h _
  | _ => intro h'; simp [resolve] at h'

theorem resolveAll_noFuel (res : Res) (h : NoFuel res) (xs : List Obj) : resolveAll res xs ≠ .error .fuel := by
  induction xs with
  | nil => intro h'; cases h'
  | cons x xs ih =>
    intro h'
    simp only [resolveAll] at h'
    split at h'
    · next e he => cases h'; exact resolve_noFuel res h x he
    · split at h'
      · next e he => cases h'; exact ih he
      · cases h'

theorem decodedParts_noFuel (vs : List SVal) : decodedParts vs ≠ .error .fuel := by
  induction vs with
  | nil => intro h; cases h
  | cons v vs ih =>
    intro h
    cases v with
    | obj o => exact ih (by simpa [decodedParts] using h)
    | stream d =>
      cases d with
      | none => simp [decodedParts] at h
      | some d =>
        simp only [decodedParts] at h
        split at h
        · cases h
        · next e he => cases h; exact ih he

theorem joinParts_noFuel (ps : List Str) : joinParts ps ≠ .error .fuel := by
  unfold joinParts
  split <;> intro h <;> cases h

theorem contentBytes_noFuel (res : Res) (h : NoFuel res) (c : Option Obj) : contentBytes res c ≠ .error .fuel := by
  intro h'
  unfold contentBytes at h'
  repeat' split at h'
  all_goals first
    | (cases h'; done)
    | exact joinParts_noFuel _ h'
    | skip
  · next e he => cases h'; exact resolve_noFuel res h _ he
  · next e he => cases h'; exact decodedParts_noFuel _ he
  · next e he => cases h'; exact resolveAll_noFuel res h _ he
  · next e he => cases h'; exact decodedParts_noFuel _ he

theorem showOne_noFuel (env : Env) (st : IState) (data : Str) : showOne env st data ≠ .error .fuel := by
  intro h
  unfold showOne decodeShown at h
  repeat' split at h
  all_goals first
    | (cases h; done)
    | skip
  all_goals
    next he =>
      cases h
      repeat' split at he
      all_goals cases he

theorem showArray_noFuel (env : Env) (xs : List Obj) : ∀ st, showArray env st xs ≠ .error .fuel := by
  induction xs with
  | nil => intro st h; cases h
  | cons x xs ih =>
    intro st h
    cases x with
    | str s =>
      simp only [showArray] at h
      split at h
      · exact ih _ h
      · next e he => cases h; exact showOne_noFuel env st s he
    | _ => exact ih st (by simpa [showArray] using h)

theorem step_noFuel (env : Env) (st : IState) (op : Pdf.CS.Operation) : step env st op ≠ .error .fuel := by
  intro h
  unfold step at h
  repeat' split at h
  all_goals first
    | (cases h; done)
    | exact showOne_noFuel _ _ _ h
    | exact showArray_noFuel _ _ _ h

theorem run_noFuel (env : Env) (ops : List Pdf.CS.Operation) : ∀ st, run env st ops ≠ .error .fuel := by
  induction ops with
  | nil => intro st h; cases h
  | cons op ops ih =>
    intro st h
    simp only [run] at h
    split at h
    · exact ih _ h
    · next e he => cases h; exact step_noFuel env st op he

theorem pageStrings_noFuel (res : Res) (ext : Ext) (h : NoFuel res) (c r : Option Obj) :
    pageStrings res ext c r ≠ .error .fuel := by
  intro h'
  unfold pageStrings at h'
  split at h'
  · next e he => cases h'; exact contentBytes_noFuel res h c he
  · cases h'
  · split at h'
    · cases h'
    · unfold showStrings at h'
      split at h'
      · cases h'
      · simp only at h'
        split at h'
        · cases h'
        · next e he => cases h'; exact run_noFuel _ _ _ he

theorem pagesOfSpecs_noFuel (res : Res) (ext : Ext) (h : NoFuel res) (specs : List (Option Obj × Option Obj)) :
    pagesOfSpecs res ext specs ≠ .error .fuel := by
  induction specs with
  | nil => intro h'; cases h'
  | cons p ps ih =>
    obtain ⟨c, r⟩ := p
    intro h'
    simp only [pagesOfSpecs] at h'
    split at h'
    · next e he => cases h'; exact pageStrings_noFuel res ext h c r he
    · split at h'
      · next e he => cases h'; exact ih he
      · cases h'

theorem getObject_noFuel (f : AbsFile) (ext : Ext) : NoFuel (getObject f ext) := fun n h => by
  have := getObject_err f ext n _ h
  cases this

/-- **the reader model never answers `fuel`**: the bound `fuelOf f` on the page-tree walk is never
the reason for an answer, on any file -/
theorem readPages_never_fuel (f : AbsFile) (ext : Ext) : readPages f ext ≠ .error .fuel := by
  intro h
  unfold readPages at h
  split at h
  · cases h
  · unfold readWith at h
    split at h
    · next e he => cases h; exact pageTree_fuel_enough f ext _ he
    · exact pagesOfSpecs_noFuel _ ext (getObject_noFuel f ext) _ h

end Tabula.Reader
