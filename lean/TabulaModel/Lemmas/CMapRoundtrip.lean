import TabulaModel.Lemmas.CMap
import TabulaModel.Model.CMapRender
/-!
Round trip of a rendered `bfchar` section (one entry per line) through the CMap model:
the harness-independent renderer, hex lemmas, `parseBfCharSection`, `lookupString`.
-/
namespace Tabula.CMap
open Tabula.UTF16

/-! the renderer (written from the CMap syntax, not from tabula) is in `Model/CMapRender.lean` -/

/-! ## hex digits -/

theorem hexVal_hexDigit (d : Nat) (h : d < 16) : hexVal (hexDigit d) = some d := by
  unfold hexDigit hexVal
  by_cases h10 : d < 10
  · have : 48 ≤ 48 + d ∧ 48 + d ≤ 57 := by omega
    simp [h10, this]
  · have h1 : ¬ (48 ≤ 55 + d ∧ 55 + d ≤ 57) := by omega
    have h2 : ¬ (97 ≤ 55 + d ∧ 55 + d ≤ 102) := by omega
    have h3 : 65 ≤ 55 + d ∧ 55 + d ≤ 70 := by omega
    simp only [h10, if_false, h1, h2, h3, and_self, if_true]
    congr 1
    omega

theorem hexDigit_range (d : Nat) (h : d < 16) : (48 ≤ hexDigit d ∧ hexDigit d ≤ 57) ∨ (65 ≤ hexDigit d ∧ hexDigit d ≤ 70) := by
  unfold hexDigit; split <;> omega

theorem hexOfBytes_length (bs : List Nat) : (hexOfBytes bs).length = 2 * bs.length := by
  induction bs with
  | nil => rfl
  | cons b t ih => simp only [hexOfBytes, List.length_cons, ih]; omega

theorem hexOfBytes_mem (bs : List Nat) (hb : AllBytes bs) :
    ∀ c ∈ hexOfBytes bs, (48 ≤ c ∧ c ≤ 57) ∨ (65 ≤ c ∧ c ≤ 70) := by
  induction bs with
  | nil => intro c hc; simp [hexOfBytes] at hc
  | cons b t ih =>
    intro c hc
    have hb0 : b < 256 := hb b (by simp)
    simp only [hexOfBytes, List.mem_cons] at hc
    rcases hc with hc | hc | hc
    · subst hc; exact hexDigit_range _ (by omega)
    · subst hc; exact hexDigit_range _ (by omega)
    · exact ih (allBytes_tail hb) c hc

theorem hexDecode_hexOfBytes (bs : List Nat) (hb : AllBytes bs) : hexDecode (hexOfBytes bs) = some bs := by
  induction bs with
  | nil => rfl
  | cons b t ih =>
    have hb0 : b < 256 := hb b (by simp)
    simp only [hexOfBytes, hexDecode, hexVal_hexDigit _ (show b / 16 < 16 by omega),
      hexVal_hexDigit _ (show b % 16 < 16 by omega), ih (allBytes_tail hb)]
    congr 2
    omega

theorem hexDigitsVal_hexOfBytes (bs : List Nat) (hb : AllBytes bs) (acc : Nat) :
    hexDigitsVal (hexOfBytes bs) acc = some (bs.foldl (fun a b => a * 256 + b) acc) := by
  induction bs generalizing acc with
  | nil => rfl
  | cons b t ih =>
    have hb0 : b < 256 := hb b (by simp)
    simp only [hexOfBytes, hexDigitsVal, hexVal_hexDigit _ (show b / 16 < 16 by omega),
      hexVal_hexDigit _ (show b % 16 < 16 by omega), List.foldl_cons]
    rw [ih (allBytes_tail hb)]
    congr 2
    omega

/-! ## codes -/

theorem codeBytes_length (w c : Nat) : (codeBytes w c).length = w := by
  induction w generalizing c with
  | zero => rfl
  | succ w ih => simp [codeBytes, ih]

theorem codeBytes_bytes (w c : Nat) : AllBytes (codeBytes w c) := by
  induction w generalizing c with
  | zero => intro b hb; simp [codeBytes] at hb
  | succ w ih =>
    intro b hb
    simp only [codeBytes, List.mem_append, List.mem_singleton] at hb
    rcases hb with hb | hb
    · exact ih _ b hb
    · subst hb; omega

theorem codeBytes_val (w c : Nat) : (codeBytes w c).foldl (fun a b => a * 256 + b) 0 = c % 256 ^ w := by
  induction w generalizing c with
  | zero => simp [codeBytes, Nat.mod_one]
  | succ w ih =>
    simp only [codeBytes, List.foldl_append, List.foldl_cons, List.foldl_nil, ih]
    rw [Nat.pow_succ, Nat.mul_comm (256 ^ w) 256, Nat.mod_mul]
    omega

theorem pow256_le (w : Nat) (h : w ≤ 4) : 256 ^ w ≤ 4294967296 := by
  have : 256 ^ w ≤ 256 ^ 4 := Nat.pow_le_pow_right (by decide) h
  simpa using this

theorem parseHex_srcTok (w c : Nat) (hw1 : 1 ≤ w) (hw4 : w ≤ 4) (hc : c < 256 ^ w) :
    parseHexToUint32 (srcTok w c) = some c := by
  unfold parseHexToUint32 srcTok
  have hl : (hexOfBytes (codeBytes w c)).length % 2 = 0 := by rw [hexOfBytes_length]; omega
  simp only [hl, ne_eq, not_true_eq_false, if_false]
  unfold parseUint32
  have hne : hexOfBytes (codeBytes w c) ≠ [] := by
    intro h
    have := congrArg List.length h
    rw [hexOfBytes_length, codeBytes_length] at this
    simp at this; omega
  simp only [hne, if_false]
  rw [hexDigitsVal_hexOfBytes _ (codeBytes_bytes w c), codeBytes_val, Nat.mod_eq_of_lt hc]
  have := pow256_le w hw4
  simp only
  rw [if_pos (by omega)]

theorem srcWidth_srcTok (w c : Nat) : srcWidth (srcTok w c) = w := by
  unfold srcWidth srcTok
  rw [hexOfBytes_length, codeBytes_length]; omega

theorem srcTok_ne_nil (w c : Nat) (hw1 : 1 ≤ w) : srcTok w c ≠ [] := by
  intro h
  have := congrArg List.length h
  unfold srcTok at this
  rw [hexOfBytes_length, codeBytes_length] at this
  simp at this; omega

/-! ## targets -/

theorem encodeScalar_lt (c : Nat) (hc : IsScalar c) : ∀ u ∈ encodeScalar c, u < 65536 := by
  intro u hu
  unfold encodeScalar at hu
  unfold IsScalar at hc
  split at hu
  · simp only [List.mem_singleton] at hu; omega
  · simp only [List.mem_cons, List.mem_nil_iff, or_false] at hu
    rcases hu with hu | hu <;> omega

theorem encodeUnits_lt (t : List Nat) (ht : AllScalar t) : ∀ u ∈ encodeUnits t, u < 65536 := by
  intro u hu
  unfold encodeUnits at hu
  obtain ⟨c, hc, hu⟩ := List.mem_flatMap.mp hu
  exact encodeScalar_lt c (ht c hc) u hu

theorem bytesBE_bytes (us : List Nat) (h : ∀ u ∈ us, u < 65536) : AllBytes (bytesBE us) := by
  intro b hb
  unfold bytesBE at hb
  obtain ⟨u, hu, hb⟩ := List.mem_flatMap.mp hb
  have := h u hu
  simp only [List.mem_cons, List.mem_nil_iff, or_false] at hb
  rcases hb with hb | hb <;> omega

theorem bytesBE_length (us : List Nat) : (bytesBE us).length = 2 * us.length := by
  induction us with
  | nil => rfl
  | cons u t ih =>
    simp only [bytesBE, List.flatMap_cons] at ih ⊢
    simp only [List.length_append, List.length_cons, List.length_nil, ih]; omega

/-- the `match data with` of `hexToUnicode` on at least two bytes that are not a BOM -/
theorem hexToUnicode_match (a b : Nat) (rest : List Nat) (hnb : ¬ (a = 0xFE ∧ b = 0xFF)) :
    (match (a :: b :: rest) with
      | 0xFE :: 0xFF :: r => cmapDecodeUTF16BE r
      | _ :: _ :: _ => cmapDecodeUTF16BE (a :: b :: rest)
      | [x] => some [toRune x]
      | [] => none) = cmapDecodeUTF16BE (a :: b :: rest) := by
  split
  · rename_i r heq
    simp only [List.cons.injEq] at heq
    exact absurd ⟨heq.1, heq.2.1⟩ hnb
  · rfl
  · rename_i heq; simp at heq
  · rename_i heq; simp at heq

/-- `hexToUnicode` reads back the UTF-16BE hex of any non-empty scalar text that does not
start with U+FEFF (a leading U+FEFF is taken for a byte-order mark and dropped) -/
theorem hexToUnicode_dstTok (t : List Nat) (ht : AllScalar t) (hne : t ≠ [])
    (hbom : t.head? ≠ some 0xFEFF) : hexToUnicode (dstTok t) = some t := by
  have hul := encodeUnits_lt t ht
  have hbytes := bytesBE_bytes _ hul
  unfold hexToUnicode dstTok
  have hfilter : (hexOfBytes (bytesBE (encodeUnits t))).filter
      (fun c => !(c = 32 || c = 9 || c = 10 || c = 13)) = hexOfBytes (bytesBE (encodeUnits t)) := by
    rw [List.filter_eq_self]
    intro c hc
    have := hexOfBytes_mem _ hbytes c hc
    have h1 : c ≠ 32 := by omega
    have h2 : c ≠ 9 := by omega
    have h3 : c ≠ 10 := by omega
    have h4 : c ≠ 13 := by omega
    simp [h1, h2, h3, h4]
  simp only [hfilter]
  have hl : (hexOfBytes (bytesBE (encodeUnits t))).length % 2 = 0 := by rw [hexOfBytes_length]; omega
  simp only [hl, ne_eq, not_true_eq_false, if_false]
  rw [hexDecode_hexOfBytes _ hbytes]
  simp only
  -- shape of the data
  cases t with
  | nil => exact absurd rfl hne
  | cons c rest =>
    have hc : IsScalar c := ht c (by simp)
    have hdec : cmapDecodeUTF16BE (bytesBE (encodeUnits (c :: rest))) = some (c :: rest) := by
      unfold cmapDecodeUTF16BE
      have : (bytesBE (encodeUnits (c :: rest))).length % 2 = 0 := by rw [bytesBE_length]; omega
      simp only [this, ne_eq, not_true_eq_false, if_false]
      rw [unitsBE_bytesBE, cmapDecodeUnits_encodeUnits _ ht]
    -- first unit
    have hshape : ∃ u0 us, encodeUnits (c :: rest) = u0 :: us ∧ u0 ≠ 0xFEFF ∧ u0 < 65536 := by
      by_cases hb : c < 0x10000
      · refine ⟨c, encodeUnits rest, ?_, ?_, hb⟩
        · simp [encodeUnits, encodeScalar, hb]
        · intro h; apply hbom; simp [h]
      · refine ⟨0xD800 + (c - 0x10000) / 1024, (0xDC00 + (c - 0x10000) % 1024) :: encodeUnits rest, ?_, ?_, ?_⟩
        · simp [encodeUnits, encodeScalar, hb]
        · unfold IsScalar at hc; omega
        · unfold IsScalar at hc; omega
    obtain ⟨u0, us, hus, hu0, hu0lt⟩ := hshape
    rw [hus] at hdec ⊢
    simp only [bytesBE, List.flatMap_cons, List.cons_append, List.nil_append] at hdec ⊢
    split
    · rename_i r heq
      simp only [List.cons.injEq] at heq
      omega
    · exact hdec
    · rename_i heq; simp at heq
    · rename_i heq; simp at heq

/-! ## code bytes back to the code (`lookupStringWithWidth`'s shift-or loop) -/

theorem or_low (x b : Nat) (hb : b < 256) :
    ((x * 256) % 4294967296) ||| b = (x * 256) % 4294967296 + b := by
  have h1 : (x * 256) % 4294967296 = (x % 16777216) <<< 8 := by
    rw [Nat.shiftLeft_eq]; omega
  rw [h1, ← Nat.shiftLeft_add_eq_or_of_lt (by simpa using hb)]

theorem codeOf_snoc (bs : List Nat) (b : Nat) :
    codeOf (bs ++ [b]) = ((codeOf bs * 256) % 4294967296) ||| b := by
  unfold codeOf; rw [List.foldl_append]; rfl

theorem codeOf_codeBytes (w : Nat) (hw4 : w ≤ 4) (c : Nat) : codeOf (codeBytes w c) = c % 256 ^ w := by
  induction w generalizing c with
  | zero => simp [codeBytes, codeOf, Nat.mod_one]
  | succ w ih =>
    simp only [codeBytes]
    rw [codeOf_snoc, ih (by omega), or_low _ _ (by omega)]
    have hpos : 0 < 256 ^ w := Nat.pow_pos (by decide)
    have hX : c / 256 % 256 ^ w < 256 ^ w := Nat.mod_lt _ hpos
    have hP := pow256_le (w + 1) hw4
    rw [Nat.pow_succ] at hP
    rw [Nat.mod_eq_of_lt (by omega)]
    rw [Nat.pow_succ, Nat.mul_comm (256 ^ w) 256, Nat.mod_mul]
    omega

theorem lookupWidth_codes (cm : CMap) (w : Nat) (hw1 : 1 ≤ w) (hw4 : w ≤ 4) (codes : List Nat)
    (hc : ∀ c ∈ codes, c < 256 ^ w) (fuel : Nat) (hf : codes.length < fuel) :
    lookupWidth cm w fuel (codes.flatMap (codeBytes w)) = codes.flatMap (emit cm) := by
  induction codes generalizing fuel with
  | nil =>
    cases fuel with
    | zero => omega
    | succ f => simp [lookupWidth]
  | cons c cs ih =>
    cases fuel with
    | zero => omega
    | succ f =>
      simp only [List.flatMap_cons]
      have hlen := codeBytes_length w c
      obtain ⟨b, tl, hbt⟩ : ∃ b tl, codeBytes w c = b :: tl := by
        cases h : codeBytes w c with
        | nil => rw [h] at hlen; simp at hlen; omega
        | cons b tl => exact ⟨b, tl, rfl⟩
      have hshape : codeBytes w c ++ cs.flatMap (codeBytes w) = b :: (tl ++ cs.flatMap (codeBytes w)) := by
        rw [hbt]; rfl
      rw [hshape]
      simp only [lookupWidth]
      rw [← hshape]
      have hnot : ¬ (codeBytes w c ++ cs.flatMap (codeBytes w)).length < w := by
        rw [List.length_append, hlen]; omega
      rw [if_neg hnot, List.take_left' hlen, List.drop_left' hlen]
      rw [codeOf_codeBytes w hw4 c, Nat.mod_eq_of_lt (hc c (by simp))]
      rw [ih (fun x hx => hc x (by simp [hx])) f (by simp at hf; omega)]

/-! ## the section parser on rendered tokens -/

/-- a well-formed entry: the code fits the width, the text is a non-empty scalar string that
does not start with U+FEFF -/
def EntryOK (w : Nat) (e : Nat × List Nat) : Prop :=
  e.1 < 256 ^ w ∧ AllScalar e.2 ∧ e.2 ≠ [] ∧ e.2.head? ≠ some 0xFEFF

theorem dstTok_ne_nil (t : List Nat) (ht : AllScalar t) (hne : t ≠ []) (hbom : t.head? ≠ some 0xFEFF) :
    dstTok t ≠ [] := by
  intro h
  have := hexToUnicode_dstTok t ht hne hbom
  rw [h] at this
  simp [hexToUnicode, hexDecode] at this

theorem bfCharStep_ok (w : Nat) (hw1 : 1 ≤ w) (hw4 : w ≤ 4) (e : Nat × List Nat) (he : EntryOK w e) (cm : CMap) :
    bfCharStep (srcTok w e.1) (dstTok e.2) cm = (cm.noteWidth (srcTok w e.1)).setChar e.1 e.2 := by
  obtain ⟨h1, h2, h3, h4⟩ := he
  unfold bfCharStep
  have hs := srcTok_ne_nil w e.1 hw1
  have hd := dstTok_ne_nil e.2 h2 h3 h4
  simp only [hs, hd, or_self, if_false]
  rw [parseHex_srcTok w e.1 hw1 hw4 h1, hexToUnicode_dstTok e.2 h2 h3 h4]

/-- the width fields after a step: `byteWidth` is untouched, `actualByteWidth` is 0 or `w` -/
def WidthInv (w : Nat) (cm : CMap) : Prop := cm.byteWidth = w ∧ (cm.actualByteWidth = 0 ∨ cm.actualByteWidth = w)

theorem widthInv_step (w : Nat) (hw1 : 1 ≤ w) (c : Nat) (t : List Nat) (cm : CMap) (h : WidthInv w cm) :
    WidthInv w ((cm.noteWidth (srcTok w c)).setChar c t) := by
  unfold WidthInv CMap.setChar CMap.noteWidth at *
  rw [srcWidth_srcTok]
  split
  · exact ⟨h.1, Or.inr rfl⟩
  · exact h

theorem bfCharPairs_tokens (w : Nat) (hw1 : 1 ≤ w) (hw4 : w ≤ 4) (es : List (Nat × List Nat))
    (hes : ∀ e ∈ es, EntryOK w e) (cm : CMap) (hinv : WidthInv w cm) :
    (bfCharPairs (tokensOf w es) cm).chars = es.reverse ++ cm.chars ∧
    (bfCharPairs (tokensOf w es) cm).ranges = cm.ranges ∧
    WidthInv w (bfCharPairs (tokensOf w es) cm) := by
  induction es generalizing cm with
  | nil => simp [tokensOf, bfCharPairs, hinv]
  | cons e es ih =>
    have htok : tokensOf w (e :: es) = srcTok w e.1 :: dstTok e.2 :: tokensOf w es := by
      simp [tokensOf]
    rw [htok]
    simp only [bfCharPairs]
    rw [bfCharStep_ok w hw1 hw4 e (hes e (by simp))]
    have := ih (fun x hx => hes x (by simp [hx])) _ (widthInv_step w hw1 e.1 e.2 cm hinv)
    refine ⟨?_, ?_, this.2.2⟩
    · rw [this.1]; simp [CMap.setChar, CMap.noteWidth]; split <;> rfl
    · rw [this.2.1]; simp [CMap.setChar, CMap.noteWidth]; split <;> rfl

theorem find_unique (l : List (Nat × List Nat)) (c : Nat) (t : List Nat) (hm : (c, t) ∈ l)
    (hu : ∀ p ∈ l, p.1 = c → p = (c, t)) : l.find? (fun p => p.1 == c) = some (c, t) := by
  induction l with
  | nil => simp at hm
  | cons a tl ih =>
    simp only [List.find?_cons]
    by_cases ha : a.1 = c
    · have := hu a (by simp) ha
      simp [ha, this]
    · have hne : (a.1 == c) = false := by simpa using ha
      rw [hne]
      apply ih
      · rcases List.mem_cons.mp hm with h | h
        · rw [← h] at ha; exact absurd rfl ha
        · exact h
      · exact fun p hp => hu p (by simp [hp])

/-! ## text → tokens -/

theorem hexAux_token (h : Str) (hno : ∀ c ∈ h, c ≠ 62) (acc rest : Str) :
    hexStringsAux (some acc) (h ++ 62 :: rest) = (acc.reverse ++ h) :: hexStringsAux none rest := by
  induction h generalizing acc with
  | nil => simp [hexStringsAux]
  | cons c t ih =>
    have hc : c ≠ 62 := hno c (by simp)
    simp only [List.cons_append, hexStringsAux, hc, if_false]
    rw [ih (fun x hx => hno x (by simp [hx]))]
    simp

theorem hexOfBytes_no_gt (bs : List Nat) (hb : AllBytes bs) : ∀ c ∈ hexOfBytes bs, c ≠ 62 := by
  intro c hc
  have := hexOfBytes_mem bs hb c hc
  omega

/-- the `<`…`>` scanner recovers exactly the rendered tokens of a one-entry-per-line section -/
theorem hexStrings_renderSection (w : Nat) (es : List (Nat × List Nat)) (hes : ∀ e ∈ es, AllScalar e.2) :
    hexStrings (renderSection w es) = tokensOf w es := by
  unfold hexStrings
  induction es with
  | nil => rfl
  | cons e es ih =>
    have hsrc := hexOfBytes_no_gt _ (codeBytes_bytes w e.1)
    have hdst := hexOfBytes_no_gt _ (bytesBE_bytes _ (encodeUnits_lt e.2 (hes e (by simp))))
    have hshape : renderSection w (e :: es) =
        60 :: (srcTok w e.1 ++ 62 :: (32 :: 60 :: (dstTok e.2 ++ 62 :: (10 :: renderSection w es)))) := by
      simp [renderSection, renderLine, List.append_assoc]
    rw [hshape]
    simp only [hexStringsAux, if_true]
    rw [hexAux_token (srcTok w e.1) hsrc]
    simp only [hexStringsAux, show (32 : Nat) ≠ 60 by decide, if_false, if_true]
    rw [hexAux_token (dstTok e.2) hdst]
    simp only [hexStringsAux, show (10 : Nat) ≠ 60 by decide, if_false]
    rw [ih (fun x hx => hes x (by simp [hx]))]
    simp [tokensOf]

theorem flatMap_codeBytes_length (w : Nat) (codes : List Nat) :
    (codes.flatMap (codeBytes w)).length = codes.length * w := by
  induction codes with
  | nil => simp
  | cons c cs ih =>
    simp only [List.flatMap_cons, List.length_append, codeBytes_length, ih, List.length_cons]
    rw [Nat.add_mul]; omega

theorem effectiveWidth_of_inv (w : Nat) (cm : CMap) (h : WidthInv w cm) : effectiveWidth cm = w := by
  unfold effectiveWidth
  obtain ⟨h1, h2 | h2⟩ := h
  · simp [h1, h2]
  · simp [h1, h2]

/-- looking up a rendered entry in the parsed section returns its text -/
theorem emit_parsed (w : Nat) (hw1 : 1 ≤ w) (hw4 : w ≤ 4) (es : List (Nat × List Nat))
    (hes : ∀ e ∈ es, EntryOK w e) (hinj : ∀ p ∈ es, ∀ q ∈ es, p.1 = q.1 → p = q)
    (e : Nat × List Nat) (he : e ∈ es) :
    emit (bfCharPairs (tokensOf w es) { byteWidth := w }) e.1 = e.2 := by
  obtain ⟨hchars, _, _⟩ := bfCharPairs_tokens w hw1 hw4 es hes { byteWidth := w } ⟨rfl, Or.inl rfl⟩
  have hget : (bfCharPairs (tokensOf w es) { byteWidth := w }).getChar e.1 = some e.2 := by
    unfold CMap.getChar
    rw [hchars]
    simp only [List.append_nil]
    rw [find_unique es.reverse e.1 e.2 (by simpa using he)
      (fun p hp h1 => hinj p (by simpa using hp) e he h1)]
    rfl
  unfold emit lookup
  rw [hget]
  have hne : e.2 ≠ [] := (hes e he).2.2.1
  simp [hne]

end Tabula.CMap
