import TabulaModel.Model.Encoding
/-!
Helper lemmas for the table theorems of C07: a linear Boolean check of a table against a
reference, and its soundness (proved once, independent of the regenerated tables).
-/
namespace Tabula.Encoding

/-- every table entry is allowed by the reference entry at the same index (an empty
reference entry allows anything); the lengths must agree -/
def checkAll : List Nat → List (List Nat) → Bool
  | v :: t, r :: rs => (r.isEmpty || r.contains v) && checkAll t rs
  | [], [] => true
  | _, _ => false

theorem checkAll_sound (t : List Nat) (r : List (List Nat)) (h : checkAll t r = true)
    (i : Nat) (allowed : List Nat) (hr : r[i]? = some allowed) (hne : allowed ≠ []) :
    ∃ v, t[i]? = some v ∧ v ∈ allowed := by
  induction t generalizing r i with
  | nil =>
    cases r with
    | nil => simp at hr
    | cons a b => simp [checkAll] at h
  | cons v t ih =>
    cases r with
    | nil => simp [checkAll] at h
    | cons a rs =>
      simp only [checkAll, Bool.and_eq_true, Bool.or_eq_true] at h
      cases i with
      | zero =>
        simp only [List.getElem?_cons_zero, Option.some.injEq] at hr
        subst hr
        refine ⟨v, by simp, ?_⟩
        rcases h.1 with h1 | h1
        · cases a with
          | nil => exact absurd rfl hne
          | cons _ _ => simp at h1
        · simpa using h1
      | succ j =>
        simp only [List.getElem?_cons_succ] at hr ⊢
        exact ih rs h.2 j hr

/-- every entry of a table is a scalar value or 0 -/
def allScalarOrZero (t : List Nat) : Bool := t.all fun v => decide (v < 0xD800 ∨ (0xE000 ≤ v ∧ v < 0x110000))

end Tabula.Encoding
