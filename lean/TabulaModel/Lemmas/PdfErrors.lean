import TabulaModel.Lemmas.PdfCoreProgress
/-!
Error propagation in the document-level parser (core/parser.go after fixes 9c10aa6 and b66a22e), for
EVERY input: a lexical error is recorded once and never lost; from then on the parser sees the end of
input; arrays and dictionaries never turn an error (or a premature end) into a clean end of input;
and a run of `ParseObject` calls ends with `io.EOF` only if every byte of the input was tokenized.
Core Lean only.
-/
namespace Tabula.Pdf
namespace Errs
open Prog

/-! ### the error flag -/

/-- `(*Parser).nextToken` never clears a recorded error -/
theorem next_err (s : PState) (h : s.err = true) : s.next.err = true := by
  unfold PState.next
  split
  · exact h
  · rfl

/-- once a lexical error is recorded the lookahead slot holds `TokenEOF` -/
def ErrInv (s : PState) : Prop := s.err = true → s.peek = some .eof

theorem errInv_next (s : PState) (h : ErrInv s) : ErrInv s.next := by
  intro he
  unfold PState.next at he ⊢
  split
  · next hp =>
    rw [if_pos hp] at he
    have := h he
    rw [this] at hp
    cases hp
  · next hp =>
    rw [if_neg hp] at he
    split
    · rfl
    · split
      · rfl
      · next t r hl =>
        rw [if_neg (by assumption), hl] at he
        cases he

theorem errInv_stateAt (x : Str) : ErrInv (stateAt x) := by
  have h0 : ErrInv { cur := none, peek := none, inp := x, err := false } := by
    intro he; cases he
  exact errInv_next _ (errInv_next _ h0)

/-- after a recorded error the parser's next current token is `TokenEOF`, with the error still recorded -/
theorem after_error (s : PState) (hi : ErrInv s) (he : s.err = true) :
    s.next.cur = some .eof ∧ s.next.err = true ∧ s.next.peek = some .eof := by
  have hp := hi he
  refine ⟨?_, next_err s he, errInv_next s hi (next_err s he)⟩
  rw [Tabula.Pdf.PState.next]
  have : ¬ (s.peek = some (Token.keyword kwStream)) := by rw [hp]; simp
  rw [if_neg this]
  simp only [he, if_true, hp]

/-! ### which errors the parser reports -/

theorem parseNumber_no_eof (s : PState) (v : Str) : parseNumber s v ≠ .error .eof := by
  unfold parseNumber
  repeat' (first | split | (dsimp only; split))
  all_goals simp

/-- arrays and dictionaries never report a clean end of input -/
theorem containers_no_eof (f : Nat) :
    (∀ d s acc, parseArray f d s acc ≠ .error .eof) ∧ (∀ d s acc, parseDict f d s acc ≠ .error .eof) := by
  induction f with
  | zero =>
    refine ⟨?_, ?_⟩
    · intro d s acc; rw [parseArray]; simp
    · intro d s acc; rw [parseDict]; simp
  | succ f ih =>
    obtain ⟨ihA, ihD⟩ := ih
    refine ⟨?_, ?_⟩
    · intro d s acc
      rw [parseArray]
      cases hc : s.cur with
      | none => simp
      | some t =>
        have step : (match parseObject f d s with
            | .error _ => (.error .err : Except PErr (Obj × PState))
            | .ok (o, s') => parseArray f d s' (acc ++ [o])) ≠ .error .eof := by
          split
          · simp
          · exact ihA _ _ _
        cases t with
        | arrEnd => simp
        | eof => simp
        | _ => exact step
    · intro d s acc
      rw [parseDict]
      cases hc : s.cur with
      | none => simp
      | some t =>
        cases t with
        | dictEnd => simp
        | name k =>
          dsimp only
          split
          · simp
          · exact ihD _ _ _
        | _ => simp

/-- **`io.EOF` means exactly: the current token is `TokenEOF` and no lexical error is recorded** -/
theorem parseObject_eof_iff (f d : Nat) (s : PState) :
    parseObject (f + 1) d s = .error .eof ↔ s.cur = some .eof ∧ s.err = false := by
  rw [parseObject]
  constructor
  · intro h
    cases hc : s.cur with
    | none => rw [hc] at h; cases h
    | some t =>
      rw [hc] at h
      cases t with
      | eof =>
        dsimp only at h
        split at h
        · cases h
        · next he => exact ⟨rfl, by cases hh : s.err <;> simp_all⟩
      | keyword v => dsimp only at h; repeat' split at h
                     all_goals cases h
      | integer v => exact absurd h (parseNumber_no_eof s v)
      | real v => dsimp only at h; split at h <;> cases h
      | arrStart =>
        dsimp only at h
        split at h
        · cases h
        · exact absurd h ((containers_no_eof f).1 _ _ _)
      | dictStart =>
        dsimp only at h
        split at h
        · cases h
        · exact absurd h ((containers_no_eof f).2 _ _ _)
      | _ => cases h
  · intro ⟨hc, he⟩
    rw [hc]
    simp [he]

theorem parseObject_zero (d : Nat) (s : PState) : parseObject 0 d s = .error .err := by
  rw [parseObject]

/-! ### tokenizing the whole input -/

/-- the lexer reaches the end of `inp` without an error (comments are tokens of the lexer) -/
inductive Tokenizes : Str → Prop
  | done {inp r : Str} : nextToken inp = some (.eof, r) → Tokenizes inp
  | step {inp r : Str} {t : Token} : nextToken inp = some (t, r) → t ≠ .eof → Tokenizes r → Tokenizes inp

theorem tokenizes_of_lexSkip (f : Nat) : ∀ (x : Str) (t : Token) (y : Str), lexSkip f x = some (t, y) →
    (t = .eof ∨ Tokenizes y) → Tokenizes x := by
  induction f with
  | zero => intro x t y h; simp [lexSkip] at h
  | succ f ih =>
    intro x t y h hy
    simp only [lexSkip] at h
    cases hn : nextToken x with
    | none => rw [hn] at h; cases h
    | some p =>
      obtain ⟨t0, r0⟩ := p
      rw [hn] at h
      cases t0 with
      | comment v =>
        dsimp only at h
        exact Tokenizes.step hn (by simp) (ih r0 t y h hy)
      | eof =>
        dsimp only at h
        exact Tokenizes.done hn
      | _ =>
        dsimp only at h
        cases h
        rcases hy with hy | hy
        · cases hy
        · exact Tokenizes.step hn (by simp) hy

/-- if the first non-comment token is the end of input, the input tokenizes -/
theorem tokenizes_of_tok_eof (x r : Str) (h : tok x = some (.eof, r)) : Tokenizes x :=
  tokenizes_of_lexSkip _ x _ r h (Or.inl rfl)

/-- reading one more non-comment token: if the rest tokenizes, so does the whole -/
theorem tokenizes_of_tok (x y : Str) (t : Token) (h : tok x = some (t, y)) (hy : Tokenizes y) : Tokenizes x :=
  tokenizes_of_lexSkip _ x t y h (Or.inr hy)

/-- `y` is what is left of `x` after one or more complete tokens (none of them the end of input or the
keyword `stream`) -/
inductive Reach : Str → Str → Prop
  | one {x y : Str} {t : Token} : tok x = some (t, y) → t ≠ .eof → t ≠ .keyword kwStream → Reach x y
  | more {x r y : Str} {t : Token} : tok x = some (t, r) → t ≠ .eof → t ≠ .keyword kwStream → Reach r y → Reach x y

theorem Reach.trans {x y z : Str} (h1 : Reach x y) (h2 : Reach y z) : Reach x z := by
  induction h1 with
  | one h ht hs => exact Reach.more h ht hs h2
  | more h ht hs _ ih => exact Reach.more h ht hs (ih h2)

theorem Reach.tokenizes {x y : Str} (h : Reach x y) (hy : Tokenizes y) : Tokenizes x := by
  induction h with
  | one h _ _ => exact tokenizes_of_tok _ _ _ h hy
  | more h _ _ _ ih => exact tokenizes_of_tok _ _ _ h (ih hy)

theorem Reach.shorter {x y : Str} (h : Reach x y) : y <:+ x ∧ y.length < x.length := by
  induction h with
  | one h ht _ =>
    have := tok_progress _ _ _ h
    exact ⟨this.1, this.2.1 ht⟩
  | more h ht _ _ ih =>
    have := tok_progress _ _ _ h
    have h1 := this.2.1 ht
    exact ⟨List.IsSuffix.trans ih.1 this.1, by omega⟩

/-! ### every successful call lands on a token boundary -/

/-- the current token of `stateAt x` is a real token only if `x` starts with it -/
theorem cur_token (x : Str) (t : Token) (h : (stateAt x).cur = some t) (ht : t ≠ .eof) :
    ∃ r, tok x = some (t, r) := by
  rcases stateAt_cur_cases x with ⟨_, hc, _⟩ | ⟨t', r, htok, hc⟩
  · rw [hc] at h; cases h; exact absurd rfl ht
  · rw [hc] at h; cases h; exact ⟨r, htok⟩

theorem kw_ne_stream {v : Str} (h : v = kwNull ∨ v = kwTrue ∨ v = kwFalse) :
    Token.keyword v ≠ Token.keyword kwStream := by
  intro he
  cases he
  rcases h with h | h | h <;> revert h <;> decide

/-- `parseNumber`: the state afterwards is the window one token further, or (a reference) three -/
theorem parseNumber_land (x r : Str) (v : Str) (o : Obj) (s' : PState)
    (htok : tok x = some (.integer v, r))
    (h : parseNumber (stateAt x) v = .ok (o, s')) : ∃ y, s' = stateAt y ∧ Reach x y := by
  have hn : (stateAt x).next = stateAt r := stateAt_next_tok x _ r htok (by simp)
  have hone : Reach x r := Reach.one htok (by simp) (by simp)
  unfold parseNumber at h
  split at h
  · split at h
    · cases h
    · cases h; exact ⟨r, hn, hone⟩
  · split at h
    · next v2 hpk =>
      split at h
      · next b hb =>
        dsimp only at h
        rw [hn] at h
        -- the lookahead token is the current token of the window on `r`
        have hpk' : (stateAt r).cur = some (.integer v2) := by
          rw [← stateAt_peek x _ r htok (by simp)]; exact hpk
        obtain ⟨r2, htok2⟩ := cur_token r _ hpk' (by simp)
        have hn2 : (stateAt r).next = stateAt r2 := stateAt_next_tok r _ r2 htok2 (by simp)
        split at h
        · next hpk2 =>
          cases h
          have hpk2' : (stateAt r2).cur = some .ref := by
            rw [← stateAt_peek r _ r2 htok2 (by simp)]; exact hpk2
          obtain ⟨r3, htok3⟩ := cur_token r2 _ hpk2' (by simp)
          have hn3 : (stateAt r2).next = stateAt r3 := stateAt_next_tok r2 _ r3 htok3 (by simp)
          refine ⟨r3, by rw [hn2, hn3], ?_⟩
          exact Reach.more htok (by simp) (by simp)
            (Reach.more htok2 (by simp) (by simp) (Reach.one htok3 (by simp) (by simp)))
        · cases h; exact ⟨r, rfl, hone⟩
      · cases h; exact ⟨r, hn, hone⟩
    · cases h; exact ⟨r, hn, hone⟩

/-- **landing**: every successful call of ParseObject / parseArray / parseDict started on the window over the
bytes `x` ends on the window over a rest `y` of `x` that begins at a token boundary -/
theorem land (f : Nat) :
    (∀ d x o s', parseObject f d (stateAt x) = .ok (o, s') → ∃ y, s' = stateAt y ∧ Reach x y) ∧
    (∀ d x acc o s', parseArray f d (stateAt x) acc = .ok (o, s') → ∃ y, s' = stateAt y ∧ Reach x y) ∧
    (∀ d x acc o s', parseDict f d (stateAt x) acc = .ok (o, s') → ∃ y, s' = stateAt y ∧ Reach x y) := by
  induction f with
  | zero =>
    refine ⟨?_, ?_, ?_⟩
    · intro d x o s' h; rw [parseObject] at h; cases h
    · intro d x acc o s' h; rw [parseArray] at h; cases h
    · intro d x acc o s' h; rw [parseDict] at h; cases h
  | succ f ih =>
    obtain ⟨ihO, ihA, ihD⟩ := ih
    refine ⟨?_, ?_, ?_⟩
    · intro d x o s' h
      rw [parseObject] at h
      cases hc : (stateAt x).cur with
      | none => rw [hc] at h; cases h
      | some t =>
        rw [hc] at h
        -- a scalar token: one step
        have scalar : t ≠ .eof → t ≠ .keyword kwStream → s' = (stateAt x).next → ∃ y, s' = stateAt y ∧ Reach x y := by
          intro hte hts hs'
          obtain ⟨r, htok⟩ := cur_token x t hc hte
          exact ⟨r, by rw [hs', stateAt_next_tok x t r htok hts], Reach.one htok hte hts⟩
        cases t with
        | eof => dsimp only at h; split at h <;> cases h
        | comment v => cases h
        | keyword v =>
          dsimp only at h
          split at h
          · next hv => cases h; exact scalar (by simp) (kw_ne_stream (Or.inl hv)) rfl
          · split at h
            · next hv => cases h; exact scalar (by simp) (kw_ne_stream (Or.inr (Or.inl hv))) rfl
            · split at h
              · next hv => cases h; exact scalar (by simp) (kw_ne_stream (Or.inr (Or.inr hv))) rfl
              · cases h
        | integer v =>
          obtain ⟨r, htok⟩ := cur_token x _ hc (by simp)
          exact parseNumber_land x r v o s' htok h
        | real v =>
          dsimp only at h
          split at h
          · cases h
          · cases h; exact scalar (by simp) (by simp) rfl
        | str v => cases h; exact scalar (by simp) (by simp) rfl
        | hexstr v => cases h; exact scalar (by simp) (by simp) rfl
        | name v => cases h; exact scalar (by simp) (by simp) rfl
        | arrStart =>
          dsimp only at h
          split at h
          · cases h
          · obtain ⟨r, htok⟩ := cur_token x _ hc (by simp)
            rw [stateAt_next_tok x _ r htok (by simp)] at h
            obtain ⟨y, hy, hr⟩ := ihA _ r [] o s' h
            exact ⟨y, hy, Reach.more htok (by simp) (by simp) hr⟩
        | arrEnd => cases h
        | dictStart =>
          dsimp only at h
          split at h
          · cases h
          · obtain ⟨r, htok⟩ := cur_token x _ hc (by simp)
            rw [stateAt_next_tok x _ r htok (by simp)] at h
            obtain ⟨y, hy, hr⟩ := ihD _ r [] o s' h
            exact ⟨y, hy, Reach.more htok (by simp) (by simp) hr⟩
        | dictEnd => cases h
        | ref => cases h
    · intro d x acc o s' h
      rw [parseArray] at h
      cases hc : (stateAt x).cur with
      | none => rw [hc] at h; cases h
      | some t =>
        rw [hc] at h
        have step : (match parseObject f d (stateAt x) with
            | .error _ => (.error .err : Except PErr (Obj × PState))
            | .ok (o, s') => parseArray f d s' (acc ++ [o])) = .ok (o, s') →
            ∃ y, s' = stateAt y ∧ Reach x y := by
          intro h
          split at h
          · cases h
          · next o1 s1 h1 =>
            obtain ⟨y1, hy1, hr1⟩ := ihO d x o1 s1 h1
            rw [hy1] at h
            obtain ⟨y, hy, hr⟩ := ihA d y1 _ o s' h
            exact ⟨y, hy, Reach.trans hr1 hr⟩
        cases t with
        | arrEnd =>
          cases h
          obtain ⟨r, htok⟩ := cur_token x _ hc (by simp)
          exact ⟨r, stateAt_next_tok x _ r htok (by simp), Reach.one htok (by simp) (by simp)⟩
        | eof => cases h
        | _ => exact step h
    · intro d x acc o s' h
      rw [parseDict] at h
      cases hc : (stateAt x).cur with
      | none => rw [hc] at h; cases h
      | some t =>
        rw [hc] at h
        cases t with
        | dictEnd =>
          cases h
          obtain ⟨r, htok⟩ := cur_token x _ hc (by simp)
          exact ⟨r, stateAt_next_tok x _ r htok (by simp), Reach.one htok (by simp) (by simp)⟩
        | name k =>
          dsimp only at h
          obtain ⟨r, htok⟩ := cur_token x _ hc (by simp)
          rw [stateAt_next_tok x _ r htok (by simp)] at h
          split at h
          · cases h
          · next o1 s1 h1 =>
            obtain ⟨y1, hy1, hr1⟩ := ihO d r o1 s1 h1
            rw [hy1] at h
            obtain ⟨y, hy, hr⟩ := ihD d y1 _ o s' h
            exact ⟨y, hy, Reach.more htok (by simp) (by simp) (Reach.trans hr1 hr)⟩
        | _ => cases h

/-! ### a run of `ParseObject` calls -/

/-- a run that ends with `io.EOF` has tokenized everything from where it started -/
theorem parseSeq_eof (F : Nat) : ∀ (n : Nat) (x : Str) (acc os : List Obj),
    parseSeq F n (stateAt x) acc = (os, some .eof) → Tokenizes x := by
  intro n
  induction n with
  | zero => intro x acc os h; simp [parseSeq] at h
  | succ n ih =>
    intro x acc os h
    rw [parseSeq] at h
    cases hp : parseObject F 0 (stateAt x) with
    | error e =>
      rw [hp] at h
      simp only [Prod.mk.injEq, Option.some.injEq] at h
      obtain ⟨_, he⟩ := h
      subst he
      cases F with
      | zero => rw [parseObject_zero] at hp; cases hp
      | succ F =>
        obtain ⟨hc, herr⟩ := (parseObject_eof_iff F 0 _).1 hp
        rcases stateAt_cur_cases x with ⟨_, _, he⟩ | ⟨t, r, htok, hc'⟩
        · rw [he] at herr; cases herr
        · rw [hc'] at hc; cases hc
          exact tokenizes_of_tok_eof x r htok
    | ok p =>
      obtain ⟨o, s'⟩ := p
      rw [hp] at h
      dsimp only at h
      obtain ⟨y, hy, hr⟩ := (land F).1 0 x o s' hp
      rw [hy] at h
      exact hr.tokenizes (ih y _ os h)

/-- **`io.EOF` only after every byte was tokenized** -/
theorem coreParseAll_eof (inp : Str) (h : (coreParseAll inp).2 = .eof) : Tokenizes inp := by
  obtain ⟨os, e, hgo⟩ := coreParseAll_never_out_of_fuel inp
  have he : e = .eof := by
    unfold coreParseAll at h
    rw [hgo] at h
    exact h
  subst he
  rw [coreParseAll_go_eq] at hgo
  exact parseSeq_eof _ _ inp [] os hgo

/-- **a lexical error anywhere in the input is reported**: the run of `ParseObject` calls ends with an error,
never with a clean end of input -/
theorem coreParseAll_lex_error (inp : Str) (h : ¬ Tokenizes inp) : (coreParseAll inp).2 = .err := by
  cases he : (coreParseAll inp).2 with
  | err => rfl
  | eof => exact absurd (coreParseAll_eof inp he) h

/-! ### `Tokenizes` is what `lexTokens` computes -/

theorem lexAllP_eof_iff (n : Nat) : ∀ (off : Nat) (inp : Str) (acc : List PosTok), inp.length + 1 ≤ n →
    ((lexAllP n off inp acc).2 = .eof ↔ Tokenizes inp) := by
  induction n with
  | zero => intro off inp acc h; omega
  | succ n ih =>
    intro off inp acc hn
    rw [lexAllP]
    unfold nextTokenP
    cases ht : nextToken inp with
    | none =>
      dsimp only
      constructor
      · intro h; cases h
      · intro h
        cases h with
        | done h' => rw [ht] at h'; cases h'
        | step h' _ _ => rw [ht] at h'; cases h'
    | some p =>
      obtain ⟨t, r⟩ := p
      dsimp only
      by_cases hte : t = .eof
      · subst hte
        simp only [if_true]
        exact ⟨fun _ => Tokenizes.done ht, fun _ => trivial⟩
      · rw [if_neg hte]
        have hlt := (nextToken_progress inp t r ht).2.1 hte
        rw [ih _ r _ (by omega)]
        constructor
        · intro h; exact Tokenizes.step ht hte h
        · intro h
          cases h with
          | done h' => rw [ht] at h'; cases h'; exact absurd rfl hte
          | step h' _ h3 => rw [ht] at h'; cases h'; exact h3

theorem lexTokens_eof_iff (inp : Str) : (lexTokens inp).2 = .eof ↔ Tokenizes inp :=
  lexAllP_eof_iff _ 0 inp [] (Nat.le_refl _)

/-! ### the observable window (Model/LexPos.lean) -/

/-- every window of the trace obeys the error discipline: a recorded error comes with `TokenEOF` in the
lookahead slot, and once recorded it stays recorded -/
theorem windowTrace_go_inv (inp : Str) : ∀ (n : Nat) (x : Str) (acc : List Window),
    (∀ w ∈ acc, w.err = true → w.peek = some .eof) →
    ∀ w ∈ (windowTrace.go inp n (stateAt x) acc).1, w.err = true → w.peek = some .eof := by
  intro n
  induction n with
  | zero => intro x acc hacc; rw [windowTrace.go]; exact hacc
  | succ n ih =>
    intro x acc hacc
    rw [windowTrace.go]
    cases hp : parseObject (fuelFor inp) 0 (stateAt x) with
    | error e => exact hacc
    | ok p =>
      obtain ⟨o, s'⟩ := p
      dsimp only
      obtain ⟨y, hy, _⟩ := (land _).1 0 x o s' hp
      rw [hy]
      apply ih
      intro w hw
      rcases List.mem_append.1 hw with hw | hw
      · exact hacc w hw
      · simp only [List.mem_singleton] at hw
        subst hw
        exact errInv_stateAt y

theorem windowTrace_inv (inp : Str) : ∀ w ∈ (windowTrace inp).1, w.err = true → w.peek = some .eof := by
  unfold windowTrace
  apply windowTrace_go_inv inp _ inp
  intro w hw
  simp only [List.mem_singleton] at hw
  subst hw
  exact errInv_stateAt inp

end Errs
end Tabula.Pdf
