import TabulaModel.Model.XrefFile
import TabulaModel.Lemmas.XrefBytes
/-!
Lemmas for the line level of the byte-level cross-reference model: `strings.TrimSpace` /
`strings.Fields` on ASCII, the line scanner.
-/
namespace Tabula.XrefBytes
open Tabula.A1

def Ascii (s : Str) : Prop := ∀ c ∈ s, c < 128

theorem uspLen_ascii (c : Nat) (r : Str) (h : c < 128) :
    uspLen (c :: r) = if isSpace c then 1 else 0 := by
  simp [uspLen, h]

theorem uspLenRev_ascii (c : Nat) (r : Str) (h : c < 128) :
    uspLenRev (c :: r) = if isSpace c then 1 else 0 := by
  simp [uspLenRev, h]

theorem trimLeftU_ascii (s : Str) (h : Ascii s) : ∀ f, s.length ≤ f → trimLeftU f s = s.dropWhile isSpace := by
  induction s with
  | nil => intro f _; cases f <;> simp [trimLeftU, uspLen]
  | cons c r ih =>
    intro f hf
    cases f with
    | zero => simp at hf
    | succ f =>
      have hc : c < 128 := h c (by simp)
      have hr : Ascii r := fun x hx => h x (by simp [hx])
      simp only [trimLeftU, uspLen_ascii c r hc, List.dropWhile_cons]
      by_cases hs : isSpace c = true
      · simp only [hs, if_true]
        simp only [List.drop_one, List.tail_cons, Nat.succ_ne_zero, if_false]
        exact ih hr f (by simp at hf; omega)
      · simp [hs]

theorem trimRevU_ascii (s : Str) (h : Ascii s) : ∀ f, s.length ≤ f → trimRevU f s = s.dropWhile isSpace := by
  induction s with
  | nil => intro f _; cases f <;> simp [trimRevU, uspLenRev]
  | cons c r ih =>
    intro f hf
    cases f with
    | zero => simp at hf
    | succ f =>
      have hc : c < 128 := h c (by simp)
      have hr : Ascii r := fun x hx => h x (by simp [hx])
      simp only [trimRevU, uspLenRev_ascii c r hc, List.dropWhile_cons]
      by_cases hs : isSpace c = true
      · simp only [hs, if_true]
        simp only [List.drop_one, List.tail_cons, Nat.succ_ne_zero, if_false]
        exact ih hr f (by simp at hf; omega)
      · simp [hs]

theorem ascii_dropWhile (s : Str) (h : Ascii s) (p : Nat → Bool) : Ascii (s.dropWhile p) :=
  fun c hc => h c (List.dropWhile_sublist p |>.subset hc)

/-- on bytes below 0x80 Go's UTF-8 aware `TrimSpace` is the ASCII one -/
theorem trimSpaceU_ascii (s : Str) (h : Ascii s) : trimSpaceU s = trimSpace s := by
  unfold trimSpaceU trimSpace
  simp only
  rw [trimLeftU_ascii s h s.length (Nat.le_refl _)]
  have h2 : Ascii (s.dropWhile isSpace).reverse := by
    intro c hc
    exact ascii_dropWhile s h _ c (by simpa using hc)
  rw [trimRevU_ascii _ h2 _ (by simp)]

theorem parseEntryU_ascii (line : Str) (h : Ascii line) : parseEntryU line = parseEntry line := by
  unfold parseEntryU parseEntry
  have h1 : Ascii (line.take 10) := fun c hc => h c (List.take_subset _ _ hc)
  have h2 : Ascii ((line.drop 10).take 6) := fun c hc => h c (List.drop_subset _ _ (List.take_subset _ _ hc))
  have h3 : Ascii ((line.drop 16).take 2) := fun c hc => h c (List.drop_subset _ _ (List.take_subset _ _ hc))
  rw [trimSpaceU_ascii _ h1, trimSpaceU_ascii _ h2, trimSpaceU_ascii _ h3]

/-- a string that neither starts nor ends with white space is its own trim -/
theorem trimSpace_of_ends (s : Str) (c d : Nat) (m : Str) (hs : s = c :: m) (hl : s.getLast? = some d)
    (hc : isSpace c = false) (hd : isSpace d = false) : trimSpace s = s := by
  unfold trimSpace
  have e1 : s.dropWhile isSpace = s := by subst hs; simp [List.dropWhile, hc]
  rw [e1]
  have e2 : s.reverse.dropWhile isSpace = s.reverse := by
    have : s.reverse.head? = some d := by rw [List.head?_reverse]; exact hl
    cases hr : s.reverse with
    | nil => rfl
    | cons x xs =>
      rw [hr] at this
      simp at this
      subst this
      simp [List.dropWhile, hd]
  rw [e2]; simp

theorem isDigits_ascii (s : Str) (h : IsDigits s) : Ascii s := fun c hc => by
  have := h c hc; omega

/-! ### `strings.Fields` on "digits SP digits" -/

theorem fieldsAuxU_digits (ds : Str) (h : IsDigits ds) (rest cur : Str) (g : Nat) :
    fieldsAuxU (ds.length + g) (ds ++ rest) cur = fieldsAuxU g rest (ds.reverse ++ cur) := by
  induction ds generalizing cur with
  | nil => simp
  | cons d ds ih =>
    have hd := h d (by simp)
    have hsp : isSpace d = false := digit_not_space d hd
    have e : (d :: ds).length + g = (ds.length + g) + 1 := by simp; omega
    rw [e]
    simp only [List.cons_append, fieldsAuxU]
    rw [uspLen_ascii d _ (by omega)]
    simp only [hsp, Bool.false_eq_true, if_false, if_true]
    rw [ih (fun c hc => h c (by simp [hc]))]
    simp

theorem fieldsU_two (a b : Str) (ha : IsDigits a) (hb : IsDigits b) (hane : a ≠ []) (hbne : b ≠ []) :
    fieldsU (a ++ 32 :: b) = [a, b] := by
  unfold fieldsU
  have e : (a ++ 32 :: b).length + 1 = a.length + (b.length + 2) := by simp; omega
  rw [e, fieldsAuxU_digits a ha]
  have e2 : b.length + 2 = (b.length + 1) + 1 := by omega
  rw [e2]
  simp only [fieldsAuxU]
  have h32 : uspLen (32 :: b) = 1 := by simp [uspLen, isSpace]
  rw [h32]
  have hne : (a.reverse ++ []).isEmpty = false := by
    cases a with
    | nil => exact absurd rfl hane
    | cons x xs => simp
  simp only [Nat.succ_ne_zero, if_false, hne, Bool.false_eq_true, List.drop_one, List.tail_cons,
    List.append_nil, List.reverse_reverse]
  have := fieldsAuxU_digits b hb [] [] 1
  simp only [List.append_nil] at this
  rw [this]
  cases b with
  | nil => exact absurd rfl hbne
  | cons x xs => simp [fieldsAuxU, hane]

end Tabula.XrefBytes

namespace Tabula.XrefFile
open Tabula.XrefBytes Tabula.A1

/-! ### the line scanner -/

/-- no end-of-line byte inside -/
def NoEol (s : Str) : Prop := ∀ c ∈ s, c ≠ 10 ∧ c ≠ 13

theorem splitLine_rest_lt (data t r : Str) (k : Term) (h : splitLine data = some (t, k, r)) :
    r.length < data.length := by
  induction data generalizing t k with
  | nil => simp [splitLine] at h
  | cons c d ih =>
    simp only [splitLine] at h
    split at h
    · simp at h; obtain ⟨_, _, rfl⟩ := h; simp
    · split at h
      · split at h
        · simp at h; obtain ⟨_, _, rfl⟩ := h; simp; omega
        · simp at h; obtain ⟨_, _, rfl⟩ := h; simp
      · cases hs : splitLine d with
        | none => rw [hs] at h; simp at h; obtain ⟨_, _, rfl⟩ := h; simp
        | some p =>
          obtain ⟨t', k', r'⟩ := p
          rw [hs] at h
          simp at h
          obtain ⟨_, _, rfl⟩ := h
          have := ih t' k' hs
          simp; omega

theorem scanLines_fuel (f f' : Nat) (data : Str) (h : data.length < f) (h' : data.length < f') :
    scanLines f data = scanLines f' data := by
  induction f generalizing f' data with
  | zero => omega
  | succ f ih =>
    cases f' with
    | zero => omega
    | succ f' =>
      simp only [scanLines]
      cases hs : splitLine data with
      | none => rfl
      | some p =>
        obtain ⟨t, k, r⟩ := p
        have := splitLine_rest_lt data t r k hs
        simp only
        rw [ih f' r (by omega) (by omega)]

theorem linesOf_step (data t r : Str) (k : Term) (h : splitLine data = some (t, k, r))
    (hf : fits t k = true) : linesOf data = (t :: (linesOf r).1, (linesOf r).2) := by
  unfold linesOf
  have := splitLine_rest_lt data t r k h
  rw [scanLines, h]
  simp only [hf, if_true]
  rw [scanLines_fuel data.length (r.length + 1) r (by omega) (by omega)]

/-- the three end-of-line markers of ISO 32000-1 7.2.3 -/
inductive Eol | lf | crlf | cr
  deriving DecidableEq, Repr

def Eol.bytes : Eol → Str
  | .lf => [10]
  | .crlf => [13, 10]
  | .cr => [13]

def Eol.term : Eol → Term
  | .lf => .lf
  | _ => .cr

/-- after a lone CR the next byte must not be LF (it would be taken for CR LF) -/
def Eol.FollowOk (e : Eol) (rest : Str) : Prop := e = .cr → ∀ t, rest ≠ 10 :: t

theorem splitLine_line (l : Str) (hl : NoEol l) (e : Eol) (rest : Str) (hr : e.FollowOk rest) :
    splitLine (l ++ (e.bytes ++ rest)) = some (l, e.term, rest) := by
  induction l with
  | nil =>
    cases e with
    | lf => simp [splitLine, Eol.bytes, Eol.term]
    | crlf => simp [splitLine, Eol.bytes, Eol.term]
    | cr =>
      simp only [Eol.bytes, List.nil_append, List.cons_append, splitLine, Eol.term]
      have : ¬ (13 = 10) := by decide
      simp only [this, if_false, if_true]
      cases rest with
      | nil => rfl
      | cons x xs =>
        have hx : x ≠ 10 := by
          intro hx; subst hx; exact hr rfl xs rfl
        split
        · rename_i heq; simp at heq; exact absurd heq.1 hx
        · rfl
  | cons c l ih =>
    have hc := hl c (by simp)
    simp only [List.cons_append, splitLine, hc.1, hc.2, if_false]
    rw [ih (fun x hx => hl x (by simp [hx]))]

theorem fits_short (l : Str) (k : Term) (h : l.length ≤ 65534) : fits l k = true := by
  cases k <;> simp [fits] <;> omega

/-- the scanner delivers a line that has no end-of-line byte inside, fits the buffer and is
followed by an end-of-line marker, and goes on behind the marker -/
theorem linesOf_line (l : Str) (hl : NoEol l) (hlen : l.length ≤ 65534) (e : Eol) (rest : Str)
    (hr : e.FollowOk rest) :
    linesOf (l ++ (e.bytes ++ rest)) = (l :: (linesOf rest).1, (linesOf rest).2) :=
  linesOf_step _ l rest e.term (splitLine_line l hl e rest hr) (fits_short l _ hlen)

end Tabula.XrefFile
